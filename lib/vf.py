"""Shared machinery for the /verif checks: TLC runner, generator parsing, harness
build, driver execution, trace judging (with known-finding deviations), evidence.

Exit codes used by every check: 0 held (or only listed known findings),
1 violation observed on the real code, 2 infrastructure problem (never a verdict).
"""
import hashlib
import json
import os
import re
import shutil
import subprocess
import sys
import time

VERIF = os.path.dirname(os.path.dirname(os.path.abspath(__file__)))
REPO = os.environ.get("VERIF_REPO", "/repo")
SPEC = os.path.join(VERIF, "spec")
HARNESS = os.path.join(VERIF, "harness")
# Overrides used only by bin/mutcheck (running a check against a scratch copy of the repository
# without disturbing /repo, the shared out/ tree or the committed evidence):
OUTROOT = os.environ.get("VERIF_OUT", os.path.join(VERIF, "out"))
EVIDENCE_DIR = os.environ.get("VERIF_EVIDENCE", os.path.join(VERIF, "evidence"))
TLA_CP = "/opt/veriftools/tla/tla2tools.jar:/opt/veriftools/tla/CommunityModules-deps.jar"

GOENV = {
    "GOFLAGS": "-mod=mod",
    "GOPROXY": "off",
    "GOSUMDB": "off",
    "GOTOOLCHAIN": "local",
}


class Infra(Exception):
    """Infrastructure failure: exit 2, never a verdict."""


def log(*a):
    print("[vf]", *a, flush=True)


def goenv():
    e = dict(os.environ)
    e.update(GOENV)
    return e


class TlcResult:
    def __init__(self):
        self.generated = 0
        self.distinct = 0
        self.status = "error"  # ok | violation | error | timeout
        self.prints = []  # parsed <<"TAG", ...>> print lines: (tag, rest-as-text)
        self.out = ""
        self.wall = 0.0
        self.zero_coverage = []
        self.violated = None
        self.depth = 0


_PRINT_RE = re.compile(r'^<<"([A-Z]+)", (.*)>>$')


def parse_tla_string(s):
    """A TLA+ string literal as printed by TLC -> python str."""
    s = s.strip()
    if not (s.startswith('"') and s.endswith('"')):
        raise ValueError("not a string literal: " + s[:80])
    body = s[1:-1]
    out = []
    i = 0
    while i < len(body):
        c = body[i]
        if c == "\\" and i + 1 < len(body):
            n = body[i + 1]
            out.append({"n": "\n", "t": "\t", "r": "\r", "f": "\f"}.get(n, n))
            i += 2
        else:
            out.append(c)
            i += 1
    return "".join(out)


def parse_tla_value(s):
    """Very small parser for TLC-printed values: ints, strings, booleans, sets {..},
    tuples <<..>>, records [a |-> v, ...]; model values come back as strings."""
    pos = [0]

    def ws():
        while pos[0] < len(s) and s[pos[0]] in " \n\t":
            pos[0] += 1

    def val():
        ws()
        if s.startswith("<<", pos[0]):
            pos[0] += 2
            return seq(">>")
        c = s[pos[0]]
        if c == "{":
            pos[0] += 1
            return {"__set__": seq("}")}
        if c == "[":
            pos[0] += 1
            return rec()
        if c == "(":
            # function printed as (a :> b @@ c :> d)
            pos[0] += 1
            return fn()
        if c == '"':
            j = pos[0] + 1
            while s[j] != '"':
                j += 2 if s[j] == "\\" else 1
            lit = s[pos[0]:j + 1]
            pos[0] = j + 1
            return parse_tla_string(lit)
        m = re.match(r"-?\d+", s[pos[0]:])
        if m:
            pos[0] += len(m.group(0))
            return int(m.group(0))
        m = re.match(r"[A-Za-z_][A-Za-z0-9_]*", s[pos[0]:])
        if m:
            pos[0] += len(m.group(0))
            w = m.group(0)
            return True if w == "TRUE" else False if w == "FALSE" else w
        raise ValueError("cannot parse at %d: %r" % (pos[0], s[pos[0]:pos[0] + 40]))

    def seq(close):
        items = []
        ws()
        if s.startswith(close, pos[0]):
            pos[0] += len(close)
            return items
        while True:
            items.append(val())
            ws()
            if s.startswith(close, pos[0]):
                pos[0] += len(close)
                return items
            if s[pos[0]] != ",":
                raise ValueError("expected , at %d" % pos[0])
            pos[0] += 1

    def rec():
        d = {}
        ws()
        if s[pos[0]] == "]":
            pos[0] += 1
            return d
        while True:
            ws()
            m = re.match(r"[A-Za-z_][A-Za-z0-9_]*", s[pos[0]:])
            k = m.group(0)
            pos[0] += len(k)
            ws()
            assert s.startswith("|->", pos[0]), s[pos[0]:pos[0] + 20]
            pos[0] += 3
            d[k] = val()
            ws()
            if s[pos[0]] == "]":
                pos[0] += 1
                return d
            pos[0] += 1

    def fn():
        d = {}
        while True:
            k = val()
            ws()
            assert s.startswith(":>", pos[0])
            pos[0] += 2
            v = val()
            d[k if isinstance(k, (str, int)) else json.dumps(k)] = v
            ws()
            if s[pos[0]] == ")":
                pos[0] += 1
                return {"__fn__": d}
            assert s.startswith("@@", pos[0])
            pos[0] += 2

    v = val()
    return v


def _join_wrapped(lines):
    """TLC pretty-prints values wider than ~80 columns over several lines, starting with '<< '.
    Re-join such a value into one line in the compact form '<<"TAG", ...>>'."""
    out = []
    i = 0
    while i < len(lines):
        ln = lines[i]
        if ln.startswith('<< "'):
            buf = [ln]
            depth = ln.count("<<") - ln.count(">>")
            i += 1
            while depth > 0 and i < len(lines):
                buf.append(lines[i].strip())
                depth += lines[i].count("<<") - lines[i].count(">>")
                i += 1
            j = " ".join(buf)
            j = re.sub(r"<<\s+", "<<", j)
            j = re.sub(r"\s+>>", ">>", j)
            j = re.sub(r"\{\s+", "{", j)
            j = re.sub(r"\s+\}", "}", j)
            j = re.sub(r"\[\s+", "[", j)
            j = re.sub(r"\s+\]", "]", j)
            out.append(j)
            continue
        out.append(ln)
        i += 1
    return out


def run_tlc(spec, cfg_path, workdir, workers=8, timeout=600, simulate=None, depth=None,
            seed=None, coverage=False, extra=None, heap=None, dfs=False, env=None, quiet=False):
    """Run TLC on spec (module name, found in SPEC dir) with cfg_path. Returns TlcResult."""
    os.makedirs(workdir, exist_ok=True)
    meta = os.path.join(workdir, "meta-%s-%d" % (os.path.basename(spec), int(time.time() * 1000) % 100000000))
    jopts = ["-XX:+UseParallelGC", "-Xss64m"]
    if heap:
        jopts.append("-Xmx" + heap)
    if dfs:
        jopts.append("-Dtlc2.tool.queue.IStateQueue=StateDeque")
    jopts.append("-DTLA-Library=" + SPEC)
    spec_path = spec if os.path.isabs(spec) else os.path.join(SPEC, spec + ".tla")
    spec = os.path.basename(spec_path)[:-4]
    cmd = ["java"] + jopts + ["-cp", TLA_CP, "tlc2.TLC", "-metadir", meta, "-workers", str(workers),
                               "-config", cfg_path, "-noGenerateSpecTE"]
    if simulate is not None:
        cmd += ["-simulate", "num=%d" % simulate]
        if depth:
            cmd += ["-depth", str(depth)]
    if seed is not None:
        cmd += ["-seed", str(seed)]
    if coverage:
        cmd += ["-coverage", "1"]
    if extra:
        cmd += extra
    cmd.append(spec_path)
    r = TlcResult()
    t0 = time.time()
    e = dict(os.environ)
    if env:
        e.update(env)
    try:
        p = subprocess.run(cmd, cwd=workdir, stdout=subprocess.PIPE, stderr=subprocess.STDOUT,
                           timeout=timeout, env=e)
        out = p.stdout.decode("utf-8", "replace")
        rc = p.returncode
    except subprocess.TimeoutExpired as ex:
        out = (ex.stdout or b"").decode("utf-8", "replace")
        rc = -9
        r.status = "timeout"
    r.wall = time.time() - t0
    r.out = out
    shutil.rmtree(meta, ignore_errors=True)
    for line in _join_wrapped(out.splitlines()):
        m = _PRINT_RE.match(line)
        if m:
            r.prints.append((m.group(1), m.group(2)))
            continue
        m = re.match(r"^(\d+) states generated, (\d+) distinct states found", line)
        if m:
            r.generated = int(m.group(1))
            r.distinct = int(m.group(2))
        m = re.match(r"^The depth of the complete state graph search is (\d+)", line)
        if m:
            r.depth = int(m.group(1))
        m = re.match(r"^Error: Invariant (\S+) is violated", line)
        if m:
            r.violated = m.group(1)
        m = re.match(r"^Error: Action property (\S+) is violated", line)
        if m:
            r.violated = m.group(1)
        if coverage:
            m = re.match(r"^<(\w+) line (\d+), col \d+ .* of module (\w+)>: (\d+):(\d+)$", line)
            if m and int(m.group(5)) == 0 and int(m.group(4)) == 0:
                r.zero_coverage.append("%s.%s" % (m.group(3), m.group(1)))
    if r.status != "timeout":
        if rc == 0:
            r.status = "ok"
        elif r.violated or rc in (12, 13):
            r.status = "violation"
        else:
            r.status = "error"
    if simulate is not None and r.status == "ok" and r.generated == 0:
        m = re.search(r"(\d+) states checked", out)
        if m:
            r.generated = int(m.group(1))
    if not quiet:
        log("tlc %s [%s] status=%s generated=%d distinct=%d wall=%.1fs" %
            (spec, os.path.basename(cfg_path), r.status, r.generated, r.distinct, r.wall))
    return r


def write_instance(outdir, name, spec, base_cfg_text, constants=None, extra_lines=None):
    """Materialise <outdir>/<name>.tla (a wrapper module that EXTENDS spec and defines the
    constants as operators, so that tuples/records/sets of them can be used) and <name>.cfg.
    Returns (module path, cfg path)."""
    mod = ["---- MODULE %s ----" % name, "EXTENDS " + spec]
    lines = [base_cfg_text.rstrip("\n")]
    if constants:
        lines.append("CONSTANTS")
        for k, v in constants.items():
            mod.append("MC_%s == %s" % (k, tla_lit(v)))
            lines.append("  %s <- MC_%s" % (k, k))
    if extra_lines:
        lines += extra_lines
    mod.append("====")
    mp = os.path.join(outdir, name + ".tla")
    cp = os.path.join(outdir, name + ".cfg")
    with open(mp, "w") as f:
        f.write("\n".join(mod) + "\n")
    with open(cp, "w") as f:
        f.write("\n".join(lines) + "\n")
    return mp, cp


def tla_lit(v):
    if isinstance(v, bool):
        return "TRUE" if v else "FALSE"
    if isinstance(v, int):
        return str(v)
    if isinstance(v, str):
        return '"' + v.replace("\\", "\\\\").replace('"', '\\"') + '"'
    if isinstance(v, (set, frozenset)):
        return "{" + ", ".join(sorted(tla_lit(x) for x in v)) + "}"
    if isinstance(v, (list, tuple)):
        return "<<" + ", ".join(tla_lit(x) for x in v) + ">>"
    if isinstance(v, Raw):
        return v.s
    if isinstance(v, dict):
        return "[" + ", ".join("%s |-> %s" % (k, tla_lit(x)) for k, x in v.items()) + "]"
    raise TypeError(v)


class Raw:
    """A raw TLA+/cfg token (e.g. a model value name)."""

    def __init__(self, s):
        self.s = s


def load_known_findings():
    p = os.path.join(VERIF, "known_findings.json")
    if not os.path.exists(p):
        return []
    with open(p) as f:
        res = list(json.load(f)["findings"])
    import glob
    for q in sorted(glob.glob(os.path.join(VERIF, "known_findings.d", "*.json"))):
        with open(q) as f:
            res += json.load(f)["findings"]
    return res


class Ctx:
    def __init__(self, pid, tier, seed):
        self.pid = pid
        self.tier = tier
        self.seed = seed
        self.t0 = time.time()
        self.out = os.path.join(OUTROOT, pid)
        shutil.rmtree(self.out, ignore_errors=True)
        os.makedirs(self.out, exist_ok=True)
        self.viol_dir = os.path.join(OUTROOT, "violations")
        os.makedirs(self.viol_dir, exist_ok=True)
        self.states = 0
        self.transitions = 0
        self.mc_runs = []
        self.execs = 0
        self.events = 0
        self.nontrivial = set()
        self.samples = []
        self.violations = []  # (replay path, detail)
        self.known_hit = {}  # deviation id -> count
        self.assumptions = []
        self.notes = {}
        self.exhaustive = False
        self.rule = ""
        self.model_drift = []
        self.selftests = []
        self.judge_states = 0
        self.judge_wall = 0.0
        import threading
        self._lock = threading.Lock()
        kf = [f for f in load_known_findings() if f["property"] == pid or pid in f.get("also", [])]
        self.kf_open = {f["id"]: f for f in kf if f.get("status") == "open"}
        self.thorough = tier == "thorough"

    # ---------------------------------------------------------------- TLC
    def sany(self, *modules):
        for m in modules:
            p = subprocess.run(["java", "-cp", TLA_CP, "tla2sany.SANY", os.path.join(SPEC, m + ".tla")],
                               cwd=SPEC, stdout=subprocess.PIPE, stderr=subprocess.STDOUT, timeout=120)
            o = p.stdout.decode()
            if p.returncode != 0 or "Semantic errors" in o or "Parse Error" in o or "*** Errors" in o:
                raise Infra("sany failed for %s:\n%s" % (m, o[-3000:]))

    def instance(self, name, spec, base, constants=None, extra=None):
        """Wrapper module + cfg under out/ (see write_instance): base is a cfg file name in spec/
        or literal cfg text; constants are python values (sets, lists = tuples, dicts = records,
        str, int, bool, Raw). Returns (module path, cfg path)."""
        bp = os.path.join(SPEC, base)
        text = open(bp).read() if ("\n" not in base and os.path.exists(bp)) else base
        return write_instance(self.out, name, spec, text, constants, extra)

    def model_check(self, inst, workers=8, timeout=900, coverage=None, heap=None,
                    expect_violation=None, label=None):
        """Exhaustive TLC run that has to be green (with the open known-finding deviations
        admitted by the cfg). A violation here is a model/spec problem or a design-level
        counterexample that has not been observed on the real code: exit 2, never a verdict."""
        spec, cfg_path = inst
        cov = self.thorough if coverage is None else coverage
        r = run_tlc(spec, cfg_path, os.path.join(self.out, "tlc"), workers=workers, timeout=timeout,
                    coverage=cov, heap=heap)
        spec = os.path.basename(spec)[:-4]
        rec = {"spec": spec, "cfg": os.path.basename(cfg_path), "status": r.status,
               "generated": r.generated, "distinct": r.distinct, "depth": r.depth,
               "wall_s": round(r.wall, 1), "label": label or ""}
        if cov:
            rec["actions_never_taken"] = r.zero_coverage
        self.mc_runs.append(rec)
        if expect_violation:
            exp = [expect_violation] if isinstance(expect_violation, str) else list(expect_violation)
            if r.status != "violation" or r.violated not in exp:
                raise Infra("model %s/%s: expected violation of %s, got %s (%s)\n%s" %
                            (spec, cfg_path, expect_violation, r.status, r.violated, r.out[-2000:]))
            return r
        if r.status != "ok":
            open(os.path.join(self.out, "tlc-%s.log" % os.path.basename(spec)), "w").write(r.out)
            raise Infra("model check %s [%s] not green: %s %s\n%s" %
                        (spec, cfg_path, r.status, r.violated or "", r.out[-3000:]))
        self.states += r.distinct
        self.transitions += r.generated
        return r

    def generate(self, inst, tag="W", workers=1, timeout=600, simulate=None, depth=None,
                 seed=None, limit=None):
        """Run TLC as a behaviour generator; returns the list of JSON values printed as
        <<"W", ToJson(hist)>> (deduplicated, order preserved)."""
        spec, cfg_path = inst
        r = run_tlc(spec, cfg_path, os.path.join(self.out, "tlc"), workers=workers, timeout=timeout,
                    simulate=simulate, depth=depth, seed=seed if seed is not None else self.seed)
        if r.status not in ("ok",):
            open(os.path.join(self.out, "tlcgen-%s.log" % os.path.basename(spec)), "w").write(r.out)
            raise Infra("generator %s [%s]: %s\n%s" % (spec, cfg_path, r.status, r.out[-3000:]))
        seen = set()
        res = []
        import random as _random
        rng = _random.Random(self.seed)
        groups = {}
        for t, rest in r.prints:
            if t != tag:
                continue
            if rest in seen:
                continue
            seen.add(rest)
            h = json.loads(parse_tla_string(rest))
            if simulate is not None and isinstance(h, list) and h:
                # in simulation mode TLC evaluates the Emit invariant on EVERY candidate successor
                # of the last step, so siblings that share all but the last operation are printed
                # together: keep one per group (seeded choice)
                groups.setdefault(json.dumps(h[:-1], sort_keys=True), []).append(h)
                continue
            res.append(h)
            if limit and len(res) >= limit:
                break
        for k in groups:
            res.append(rng.choice(groups[k]))
        if simulate is None:
            self.states += r.distinct
            self.transitions += r.generated
        self.mc_runs.append({"spec": spec, "cfg": os.path.basename(cfg_path), "status": r.status,
                             "generated": r.generated, "distinct": r.distinct, "wall_s": round(r.wall, 1),
                             "label": "generator", "behaviours": len(res)})
        return res

    # ---------------------------------------------------------------- harness
    def build(self, cmd, tags=("verif",), race=False, timeout=1500):
        """Build harness/cmd/<cmd> from /repo's current working tree."""
        harness = HARNESS
        if REPO != "/repo":
            # private copy of the harness module whose replace directive points at the scratch repository
            harness = os.path.join(OUTROOT, "harness-alt")
            if not os.path.exists(harness):
                shutil.copytree(HARNESS, harness, ignore=shutil.ignore_patterns("go.sum"))
                gm = open(os.path.join(harness, "go.mod")).read().replace("=> /repo", "=> " + REPO)
                open(os.path.join(harness, "go.mod"), "w").write(gm)
        gosum_src = os.path.join(REPO, "go.sum")
        gosum_dst = os.path.join(harness, "go.sum")
        try:
            if not os.path.exists(gosum_dst) or open(gosum_src, "rb").read() != open(gosum_dst, "rb").read():
                shutil.copy(gosum_src, gosum_dst)
        except OSError:
            pass
        bindir = os.path.join(OUTROOT, "bin")
        os.makedirs(bindir, exist_ok=True)
        name = cmd + ("-" + "-".join(t for t in tags if t != "verif") if len(tags) > 1 else "") + ("-race" if race else "")
        binp = os.path.join(bindir, name)
        args = ["go", "build", "-tags", " ".join(tags), "-o", binp]
        if race:
            args.append("-race")
        if os.environ.get("VERIF_COVER"):
            # audit mode (bin/anchorcov): which statements of the anchored files does this check execute?
            args += ["-cover", "-coverpkg=verifharness/...,github.com/chrislusf/seaweedfs/weed/..."]
        args.append("./cmd/" + cmd)
        t0 = time.time()
        p = subprocess.run(args, cwd=harness, env=goenv(), stdout=subprocess.PIPE, stderr=subprocess.STDOUT,
                           timeout=timeout)
        if p.returncode != 0:
            raise Infra("harness build failed (%s):\n%s" % (" ".join(args), p.stdout.decode()[-4000:]))
        log("built %s in %.1fs" % (name, time.time() - t0))
        return binp

    def drive(self, binp, args, timeout=1200, env=None, name="trace"):
        """Run a harness driver; it writes ndjson to the path given after --out."""
        outp = os.path.join(self.out, name + ".ndjson")
        e = dict(os.environ)
        e["VERIF_SEED"] = str(self.seed)
        e["VERIF_TIER"] = self.tier
        # seaweedfs' glog writes log files into os.TempDir(): keep them under the scratch dir
        tmpd = os.path.join(self.out, "tmp")
        os.makedirs(tmpd, exist_ok=True)
        e["TMPDIR"] = tmpd
        if os.environ.get("VERIF_COVER"):
            os.makedirs(os.environ["VERIF_COVER"], exist_ok=True)
            e["GOCOVERDIR"] = os.environ["VERIF_COVER"]
        if env:
            e.update(env)
        t0 = time.time()
        errp = os.path.join(self.out, name + ".stderr")
        try:
            with open(errp, "wb") as ef:
                p = subprocess.run([binp] + [str(a) for a in args] + ["--out", outp], cwd=self.out, env=e,
                                   stdout=subprocess.PIPE, stderr=ef, timeout=timeout)
        except subprocess.TimeoutExpired:
            raise Infra("driver %s timed out after %ds" % (binp, timeout))
        if p.returncode != 0:
            with open(errp, "rb") as ef:
                ef.seek(max(0, os.path.getsize(errp) - 4000))
                tail = ef.read().decode("utf-8", "replace")
            raise Infra("driver %s exited %d:\n%s\n%s" % (binp, p.returncode, p.stdout.decode()[-2000:], tail))
        log("driver %s: %.1fs" % (os.path.basename(binp), time.time() - t0))
        if not os.path.exists(outp) or os.path.getsize(outp) == 0:
            raise Infra("driver %s wrote no trace" % binp)
        return outp

    # ---------------------------------------------------------------- judge
    def judge(self, trace_spec, trace_path, base_cfg, constants=None, nontrivial=None, timeout=1800,
              chunk_events=20000, dfs=False, mutate=None, label="", jobs=8):
        """Trace validation. trace_path: ndjson, executions start with {"ev":"reset",...}.
        The trace spec (see spec/TraceKit.tla) prints <<"ACC", x, used>> for every execution that
        it can explain; executions never accepted are violations; executions accepted only with a
        non-empty `used` set of open known-finding deviations are KNOWN-FINDINGs."""
        execs = split_execs(trace_path)
        if not execs:
            raise Infra("trace %s has no executions" % trace_path)
        total_events = sum(len(e) for e in execs)
        log("judge %s: %d executions, %d events" % (trace_spec, len(execs), total_events))
        for e in execs:
            h = exec_hash(e)
            if nontrivial is None or nontrivial(e):
                self.nontrivial.add(h)
        if len(self.samples) < 3:
            for e in execs[:: max(1, len(execs) // 2)][:2]:
                self.samples.append([json.loads(x) for x in e[:12]])
        self.execs += len(execs)
        self.events += total_events
        kf = set(self.kf_open.keys())
        # chunk executions so that a single TLC run stays small
        chunks, cur, n = [], [], 0
        for e in execs:
            cur.append(e)
            n += len(e)
            if n >= chunk_events:
                chunks.append(cur)
                cur, n = [], 0
        if cur:
            chunks.append(cur)
        rejected = []
        from concurrent.futures import ThreadPoolExecutor
        with ThreadPoolExecutor(max_workers=jobs) as pool:
            futs = [pool.submit(self._judge_chunk, trace_spec, ch, base_cfg, constants, kf, timeout, dfs,
                                "j%d%s" % (ci, label)) for ci, ch in enumerate(chunks)]
            accs = [f.result() for f in futs]
        for ch, acc in zip(chunks, accs):
            for xi, e in enumerate(ch):
                a = acc.get(xi + 1)
                if a is None:
                    rejected.append(e)
                elif frozenset() in a:
                    pass
                else:
                    best = min(a, key=len)
                    for d in best:
                        self.known_hit[d] = self.known_hit.get(d, 0) + 1
        rejected.sort(key=len)
        for e in rejected[:5]:
            self._record_violation(trace_spec, e, base_cfg, constants, kf, timeout, dfs)
        if len(rejected) > 5:
            log("... %d more rejected executions not localised" % (len(rejected) - 5))
        self.rejected_total = getattr(self, "rejected_total", 0) + len(rejected)
        # binding self-test: a corrupted observation must be rejected
        if mutate is not None:
            # only executions that were explained strictly (no deviation) are candidates: corrupting an
            # execution that is itself rejected (a changed tree) could repair it
            strict = [e for ch, acc in zip(chunks, accs) for xi, e in enumerate(ch) if frozenset() in (acc.get(xi + 1) or ())]
            self._selftest(trace_spec, strict, base_cfg, constants, kf, timeout, dfs, mutate, had_rejections=bool(rejected))
        return len(rejected)

    def judge_advisory(self, trace_spec, trace_path, base_cfg, constants=None, timeout=1800, dfs=False, label="adv"):
        """Advisory trace validation (layer B against the same recorded executions): executions that
        the implementation-shaped model cannot explain are reported as model_drift in the evidence,
        never as violations."""
        execs = split_execs(trace_path)
        kf = set(self.kf_open.keys())
        acc = self._judge_chunk(trace_spec, execs, base_cfg, constants, kf, timeout, dfs, label)
        unexplained = [i + 1 for i in range(len(execs)) if not acc.get(i + 1)]
        self.model_drift.append({"spec": trace_spec, "executions": len(execs), "unexplained": len(unexplained),
                                 "first_unexplained": [json.loads(x) for x in execs[unexplained[0] - 1][:10]] if unexplained else []})
        return len(unexplained)

    def _judge_chunk(self, trace_spec, ch, base_cfg, constants, kf, timeout, dfs, name, single=False):
        tf = os.path.join(self.out, name + ".ndjson")
        annotate(ch, tf)
        cons = {"TraceFile": tf, "KF": set(kf)}
        if constants:
            cons.update(constants)
        modp, cfgp = self.instance("J_" + name.replace("-", "_"), trace_spec, base_cfg, cons)
        r = run_tlc(modp, cfgp, os.path.join(self.out, "tlc"), workers=1, timeout=timeout, dfs=dfs,
                    quiet=True, heap="3g")
        if r.status != "ok":
            open(os.path.join(self.out, "tlcjudge-%s.log" % name), "w").write(r.out)
            raise Infra("judge %s [%s]: TLC %s\n%s" % (trace_spec, name, r.status, r.out[-3000:]))
        acc = {}
        hw = 0
        for t, rest in r.prints:
            if t == "ACC":
                v = parse_tla_value("<<" + rest + ">>")
                acc.setdefault(v[0], set()).add(frozenset(v[1]["__set__"]))
            elif t == "HIGHWATER":
                hw = int(rest)
        self.last_highwater = hw
        with self._lock:
            self.judge_states += r.distinct
            self.judge_wall += r.wall
        return acc

    def _record_violation(self, trace_spec, e, base_cfg, constants, kf, timeout, dfs):
        h = exec_hash(e)
        acc = self._judge_chunk(trace_spec, [e], base_cfg, constants, kf, timeout, dfs, "single-" + h, single=True)
        if acc.get(1):
            raise Infra("execution %s rejected in batch but accepted alone (judge not compositional)" % h)
        line = self.last_highwater
        p = os.path.join(self.viol_dir, "%s-%s.ndjson" % (self.pid, h))
        with open(p, "w") as f:
            f.write("\n".join(e) + "\n")
        detail = {"replay": p, "rejected_at_event": line,
                  "event": json.loads(e[line - 1]) if 0 < line <= len(e) else None,
                  "prefix": [json.loads(x) for x in e[max(0, line - 6):line]]}
        self.violations.append(detail)
        log("REJECTED execution %s at event %d: %s" % (h, line, e[line - 1] if 0 < line <= len(e) else "?"))

    def _selftest(self, trace_spec, execs, base_cfg, constants, kf, timeout, dfs, mutate, had_rejections=False):
        """mutate(list of event dicts) -> mutated list or None. Candidates are executions that the trace
        spec explained strictly. A corrupted observation must be rejected. Where the statement leaves an
        observation open (e.g. two overlapping writes: either may be read afterwards) a corruption can be
        admissible, so up to 6 candidates are tried and the self-test passes with the first corrupted
        execution that is rejected; it fails (infrastructure, exit 2) only when every tried corruption was
        accepted - the trace spec then does not bind that observation. With rejected executions in the same
        run the verdict (exit 1) stands and a failing self-test is only recorded."""
        tried = 0
        for e in execs:
            evs = [json.loads(x) for x in e]
            m = mutate(evs)
            if m is None:
                continue
            tried += 1
            lines = [json.dumps(x, sort_keys=True) for x in m]
            try:
                acc = self._judge_chunk(trace_spec, [lines], base_cfg, constants, kf, timeout, dfs, "selftest", single=True)
            except Infra as ex:
                # TLC could not even evaluate the corrupted execution (e.g. a field of the wrong shape):
                # it is certainly not accepted
                self.selftests.append({"spec": trace_spec, "rejected_corrupted_execution": True, "candidates_tried": tried,
                                       "note": "TLC evaluation error on the corrupted execution: " + str(ex)[:200]})
                return
            if not acc.get(1):
                self.selftests.append({"spec": trace_spec, "rejected_corrupted_execution": True, "candidates_tried": tried,
                                       "at_event": self.last_highwater})
                return
            if tried >= 6:
                break
        if tried == 0:
            self.selftests.append({"spec": trace_spec, "rejected_corrupted_execution": None,
                                   "note": "no execution suitable for corruption"})
            return
        self.selftests.append({"spec": trace_spec, "rejected_corrupted_execution": False, "candidates_tried": tried})
        if not had_rejections and tried >= 3:
            raise Infra("binding self-test failed: %s accepted %d corrupted executions" % (trace_spec, tried))

    # ---------------------------------------------------------------- finish
    def finish(self, level="model_checking"):
        wall = time.time() - self.t0
        rc = 0
        for d, n in sorted(self.known_hit.items()):
            f = self.kf_open.get(d)
            what = f["what"] if f else d
            print("KNOWN-FINDING: property=%s %s [%s] (%d executions)" % (self.pid, what, d, n))
        for v in self.violations:
            print("VIOLATION property=%s replay=%s" % (self.pid, v["replay"]))
            rc = 1
        cov = {
            "states": self.states,
            "transitions": self.transitions,
            "traces_validated_against_impl": self.execs,
            "samples": self.samples[:3] if self.samples else [{"note": "no executions"}],
            "evaluations": self.execs,
            "distinct_nontrivial": len(self.nontrivial),
            "rule": self.rule,
            "exhaustive": self.exhaustive,
            "events_judged": self.events,
            "judge_states": self.judge_states,
            "judge_tlc_cpu_s": round(self.judge_wall, 1),
            "model_runs": self.mc_runs,
            "known_findings_hit": self.known_hit,
            "binding_selftests": self.selftests,
            "model_drift": self.model_drift,
            "violation_details": self.violations[:5],
            "rejected_executions": getattr(self, "rejected_total", 0),
        }
        cov.update(self.notes)
        ev = {
            "property_id": self.pid,
            "tier": self.tier,
            "seed": self.seed,
            "level": level,
            "coverage": cov,
            "assumptions": self.assumptions,
            "wall_s": round(wall, 1),
            "violations": len(self.violations),
        }
        os.makedirs(EVIDENCE_DIR, exist_ok=True)
        with open(os.path.join(EVIDENCE_DIR, self.pid + ".json"), "w") as f:
            json.dump(ev, f, indent=1, sort_keys=True, default=str)
        log("%s %s seed=%d: states=%d execs=%d nontrivial=%d violations=%d known=%s wall=%.0fs" %
            (self.pid, self.tier, self.seed, self.states, self.execs, len(self.nontrivial),
             len(self.violations), dict(self.known_hit), wall))
        return rc


def split_execs(trace_path):
    execs = []
    cur = None
    with open(trace_path) as f:
        for line in f:
            line = line.strip()
            if not line:
                continue
            if '"ev":"reset"' in line or '"ev": "reset"' in line:
                cur = [line]
                execs.append(cur)
            else:
                if cur is None:
                    raise Infra("trace does not start with a reset event: " + line[:100])
                cur.append(line)
    return execs


def exec_hash(e):
    return hashlib.sha1("\n".join(e).encode()).hexdigest()[:12]


def annotate(execs, path):
    """Write executions with x (1-based execution ordinal) and nr (1-based line of the next
    reset, or N+1) added to every event."""
    total = sum(len(e) for e in execs)
    with open(path, "w") as f:
        line = 1
        for xi, e in enumerate(execs):
            nr = line + len(e)
            for s in e:
                d = json.loads(s)
                d["x"] = xi + 1
                d["nr"] = nr
                f.write(json.dumps(d, sort_keys=True) + "\n")
            line = nr
    assert line == total + 1


def main(run_fn, pid):
    import argparse
    ap = argparse.ArgumentParser()
    ap.add_argument("--tier", default=os.environ.get("VERIF_TIER", "quick"))
    ap.add_argument("--replay", default=None)
    a = ap.parse_args()
    seed = int(os.environ.get("VERIF_SEED", "1"))
    ctx = Ctx(pid, a.tier, seed)
    ctx.replay = a.replay
    try:
        run_fn(ctx)
        rc = ctx.finish()
    except Infra as ex:
        print("INFRA property=%s: %s" % (pid, ex), file=sys.stderr)
        sys.exit(2)
    except subprocess.TimeoutExpired as ex:
        print("INFRA property=%s: timeout %s" % (pid, ex), file=sys.stderr)
        sys.exit(2)
    sys.exit(rc)
