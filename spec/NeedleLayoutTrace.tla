------------------------- MODULE NeedleLayoutTrace -------------------------
(* Judge for C02.  One execution = one volume data file: reset {v, start}, then
   put (Needle.Append), req (an upload request -> CreateNeedleFromRequest -> Append), alter (one byte
   of the file XOR mask), get (the i-th record read back: via "data" Needle.ReadData, "blob"
   ReadNeedleBlob + ReadBytes, "hdrbody" ReadNeedleHeader + ReadNeedleBody - the last one does not
   compare checksums), copy (the i-th record copied raw to the end of the file: ReadNeedleBlob +
   WriteNeedleBlob, by the needle package or by a real Volume), scan (ScanVolumeFileFrom / ScanVolumeFile).

   Variable-length fields travel as [n = length, h = content token, b = bytes
   (omitted for big records: full = FALSE)]; equality of contents is equality
   of (n, h).  Abstract state: recs[i] = [off, len, size, b = the blob as
   written, altd = altered data positions, bad = altered outside its data]. *)
EXTENDS NeedleLayout, TraceKit
tvars == <<vars, kitvars>>
F(x) == [n |-> x.n, h |-> x.h]
EvBytes(e) == [cookie |-> e.cookie, id |-> e.id, flags |-> e.flags, data |-> e.data.b, name |-> e.name.b, mime |-> e.mime.b,
               lm |-> e.lm, ttl |-> e.ttl, pairs |-> e.pairs.b, ts |-> e.ts]
EvBlob(e) == [cookie |-> e.cookie, id |-> e.id, flags |-> e.flags, data |-> F(e.data), name |-> F(e.name), mime |-> F(e.mime),
              lm |-> e.lm, ttl |-> e.ttl, pairs |-> F(e.pairs), ts |-> e.ts]
End == IF recs = <<>> THEN start ELSE recs[Len(recs)].off + recs[Len(recs)].len
InStatement(e) == e.name.n <= 255 /\ e.mime.n <= 255 /\ e.pairs.n <= 65535

TraceInit == ver = 3 /\ start = 0 /\ file = <<>> /\ recs = <<>> /\ hist = <<>> /\ KitInit
TraceReset == IsReset /\ ver' = Ev.v /\ start' = Ev.start /\ recs' = <<>> /\ UNCHANGED <<file, hist>>
TraceSkip == SkipStep /\ UNCHANGED vars

(* what Append must do with the blob e (fields as in a put line) given what it returned and the file holds *)
PutOk(e, r) ==
  LET size == SizeOf(ver, e.flags, e.data.n, e.name.n, e.mime.n, e.pairs.n)
      n == RecLen(size, ver)
  IN /\ InStatement(e)
     /\ ~r.err
     /\ r.off = End /\ r.end = End + n /\ r.rawlen = n                       \* appended at the end, 8-aligned length
     /\ (ver # 1 => r.actual = n)                                          \* (v1 reports header + data only)
     /\ r.size = e.data.n /\ r.nsize = size
     /\ r.hdr = e.cookie \o e.id \o U32(size)
     /\ (e.full => /\ Len(e.data.b) = e.data.n /\ Len(e.name.b) = e.name.n /\ Len(e.mime.b) = e.mime.n /\ Len(e.pairs.b) = e.pairs.n
                   /\ MatchRaw(r.raw, EvBytes(e), ver))
     /\ (Has(r, "crcw") => r.cks = r.crcw)       \* the stored checksum is a function of the data alone (CRCwriter fed in pieces)
     /\ (Has(r, "etag") => \A j \in 1..Len(recs) :                         \* and so is the checksum tag
            (recs[j].etag # "" /\ recs[j].b.data = F(e.data)) => recs[j].etag = r.etag)
NewRec(e, r) == [off |-> End, len |-> r.rawlen, size |-> r.nsize, b |-> EvBlob(e), altd |-> {}, bad |-> FALSE,
                 etag |-> IF Has(r, "etag") THEN r.etag ELSE ""]
TPut ==
  /\ IsEvent("put") /\ Strict
  /\ PutOk(Ev, Ev.res)
  /\ recs' = Append(recs, NewRec(Ev, Ev.res))
  /\ UNCHANGED <<ver, start, file, hist>>

(* an upload request: the needle built from it is related to the request (ReqRel), and is then appended like any blob *)
TReq ==
  /\ IsEvent("req") /\ Strict
  /\ ~Ev.res.err
  /\ LET nd == Ev.res.needle
         e == [cookie |-> nd.cookie, id |-> nd.id, flags |-> nd.flags, data |-> nd.data, name |-> nd.name, mime |-> nd.mime,
               lm |-> SubSeq(nd.lm, 4, 8), ttl |-> nd.ttl, pairs |-> nd.pairs, ts |-> Ev.ats, full |-> nd.full]
     IN /\ ReqRel(Ev, nd, [ok |-> Ev.res.pmapok, m |-> Ev.res.pmap])
        /\ nd.ts = Ev.ats
        /\ PutOk(e, Ev.res.put)
        /\ nd.etag = Ev.res.put.etag
        /\ recs' = Append(recs, NewRec(e, Ev.res.put))
  /\ UNCHANGED <<ver, start, file, hist>>

(* one byte of the file was XORed with mask (1..255) at absolute offset res.at *)
TAlter ==
  /\ IsEvent("alter") /\ Strict
  /\ LET at == Ev.res.at
         hit == {j \in 1..Len(recs) : recs[j].off <= at /\ at < recs[j].off + recs[j].len}
     IN IF ~Ev.res.done \/ hit = {} THEN UNCHANGED recs
        ELSE LET j == CHOOSE x \in hit : TRUE
                 rc == recs[j]
                 lo == rc.off + DataOffset(ver)
                 indata == rc.b.data.n > 0 /\ at >= lo /\ at < lo + rc.b.data.n
             IN recs' = [recs EXCEPT ![j] = IF indata /\ at \notin rc.altd THEN [rc EXCEPT !.altd = rc.altd \cup {at}]
                                            ELSE [rc EXCEPT !.bad = TRUE]]
  /\ UNCHANGED <<ver, start, file, hist>>

SameBlob(r, b) ==
  /\ r.cookie = b.cookie /\ r.id = b.id /\ r.data = b.data
  /\ (ver # 1 => /\ r.flags = b.flags
                 /\ (HasName(b.flags) => r.name = b.name)
                 /\ (HasMime(b.flags) => r.mime = b.mime)
                 /\ (HasLm(b.flags) => r.lm = <<0, 0, 0>> \o b.lm)
                 /\ (HasTtl(b.flags) => r.ttl = b.ttl)
                 /\ (HasPairs(b.flags) => r.pairs = b.pairs))
  /\ (ver = 3 => r.ts = b.ts)
(* C02-empty-data-drops-meta: the format stores nothing but the header for an empty blob *)
DropsMeta(r, b) ==
  /\ ver # 1 /\ b.data.n = 0 /\ b.flags # 0
  /\ r.cookie = b.cookie /\ r.id = b.id /\ r.data.n = 0 /\ r.flags = 0
  /\ (ver = 3 => r.ts = b.ts)
Span(S) == (CHOOSE x \in S : \A y \in S : y <= x) - (CHOOSE x \in S : \A y \in S : y >= x) + 1

EtagOk(r, rc) == (rc.etag # "" /\ Has(r, "etag")) => r.etag = rc.etag          \* the checksum tag of the blob as it was written
(* what a read of an intact record must return: the blob, or (named deviation) an empty blob stripped of its metadata *)
ReadsBack(r, size, b) ==
  \/ Strict /\ r.size = size /\ SameBlob(r, b)
  \/ Deviate("C02-empty-data-drops-meta") /\ r.size = size /\ DropsMeta(r, b)
TGet ==
  /\ IsEvent("get") /\ Ev.i \in 1..Len(recs)
  /\ LET rc == recs[Ev.i]
         r == Ev.res
         via == IF Has(Ev, "via") THEN Ev.via ELSE "data"
     IN IF rc.bad THEN Strict
        ELSE IF rc.altd # {} THEN Strict /\ ((via # "hdrbody" /\ Span(rc.altd) <= 4) => r.err)   \* altered data must be reported
        ELSE ~r.err /\ EtagOk(r, rc) /\ ReadsBack(r, rc.size, rc.b)
  /\ UNCHANGED vars

(* record i copied raw to the end of the file (the way volume tail / backup / replication move records): the copy is the
   same bytes - version 3 stamps the copy's own append time into it -, sits at the 8-aligned end, and reads back as the blob *)
TCopy ==
  /\ IsEvent("copy") /\ Ev.i \in 1..Len(recs)
  /\ LET rc == recs[Ev.i]
         r == Ev.res
         nb == IF ver = 3 THEN [rc.b EXCEPT !.ts = IF Ev.via = "needle" THEN Ev.ts ELSE r.got.ts] ELSE rc.b
     IN /\ ~r.err
        /\ r.off = End /\ r.end = End + rc.len
        /\ r.sraw = r.draw
        /\ IF rc.bad \/ rc.altd # {} THEN Strict
           ELSE ~r.goterr /\ EtagOk(r.got, rc) /\ ReadsBack(r.got, rc.size, nb)
        /\ recs' = Append(recs, [rc EXCEPT !.off = End, !.b = nb, !.altd = {a - rc.off + End : a \in rc.altd}])
  /\ UNCHANGED <<ver, start, file, hist>>

TScan ==
  /\ IsEvent("scan")
  /\ LET r == Ev.res
         intact(j) == recs[j].altd = {}
         shape == /\ ~r.err /\ Len(r.recs) = Len(recs)
                  /\ \A j \in 1..Len(recs) : /\ r.recs[j].off = recs[j].off /\ r.recs[j].size = recs[j].size
                                             /\ r.recs[j].cookie = recs[j].b.cookie /\ r.recs[j].id = recs[j].b.id
     IN IF \E j \in 1..Len(recs) : recs[j].bad THEN Strict
        ELSE /\ shape                                                             \* exactly the written records, in order
             /\ IF ~Ev.body THEN Strict
                ELSE \/ Strict /\ \A j \in 1..Len(recs) : intact(j) => SameBlob(r.recs[j], recs[j].b)
                     \/ /\ Deviate("C02-empty-data-drops-meta")
                        /\ \E j \in 1..Len(recs) : intact(j) /\ DropsMeta(r.recs[j], recs[j].b)
                        /\ \A j \in 1..Len(recs) : intact(j) => (SameBlob(r.recs[j], recs[j].b) \/ DropsMeta(r.recs[j], recs[j].b))
  /\ UNCHANGED vars

TraceNext == TraceReset \/ TraceSkip \/ TPut \/ TReq \/ TAlter \/ TGet \/ TCopy \/ TScan
TraceSpec == TraceInit /\ [][TraceNext]_tvars
=============================================================================
