------------------------- MODULE NeedleLayoutTrace -------------------------
(* Judge for C02.  One execution = one volume data file: reset {v, start}, then
   put (Needle.Append), alter (one byte of the file XOR mask), get
   (Needle.ReadData of the i-th record), scan (ScanVolumeFileFrom).

   Variable-length fields travel as [n = length, h = content token, b = bytes
   (omitted for big records: full = FALSE)]; equality of contents is equality
   of (n, h).  Abstract state: recs[i] = [off, len, size, b = the blob as
   written, altd = altered data positions, bad = altered outside its data]. *)
EXTENDS NeedleLayout, TraceKit
tvars == <<vars, kitvars>>
F(x) == [n |-> x.n, h |-> x.h]
EvBytes(e) == [cookie |-> e.cookie, id |-> e.id, flags |-> e.flags, data |-> e.data.b, name |-> e.name.b, mime |-> e.mime.b,
               lm |-> e.lm, ttl |-> e.ttl, pairs |-> e.pairs.b, ts |-> e.ts]
EvBlob(e) == [cookie |-> e.cookie, id |-> e.id, flags |-> e.flags, data |-> F(e.data), name |-> F(e.name), mime |-> F(e.mime),
              lm |-> e.lm, ttl |-> e.ttl, pairs |-> F(e.pairs), ts |-> e.ts]
End == IF recs = <<>> THEN start ELSE recs[Len(recs)].off + recs[Len(recs)].len
InStatement(e) == e.name.n <= 255 /\ e.mime.n <= 255 /\ e.pairs.n <= 65535

TraceInit == ver = 3 /\ start = 0 /\ file = <<>> /\ recs = <<>> /\ hist = <<>> /\ KitInit
TraceReset == IsReset /\ ver' = Ev.v /\ start' = Ev.start /\ recs' = <<>> /\ UNCHANGED <<file, hist>>
TraceSkip == SkipStep /\ UNCHANGED vars

TPut ==
  /\ IsEvent("put") /\ Strict /\ InStatement(Ev)
  /\ LET e == Ev
         r == Ev.res
         size == SizeOf(ver, e.flags, e.data.n, e.name.n, e.mime.n, e.pairs.n)
         n == RecLen(size, ver)
     IN /\ ~r.err
        /\ r.off = End /\ r.end = End + n /\ r.rawlen = n                       \* appended at the end, 8-aligned length
        /\ (ver # 1 => r.actual = n)                                          \* (v1 reports header + data only)
        /\ r.size = e.data.n /\ r.nsize = size
        /\ r.hdr = e.cookie \o e.id \o U32(size)
        /\ (e.full => /\ Len(e.data.b) = e.data.n /\ Len(e.name.b) = e.name.n /\ Len(e.mime.b) = e.mime.n /\ Len(e.pairs.b) = e.pairs.n
                      /\ MatchRaw(r.raw, EvBytes(e), ver))
        /\ recs' = Append(recs, [off |-> End, len |-> n, size |-> size, b |-> EvBlob(e), altd |-> {}, bad |-> FALSE])
  /\ UNCHANGED <<ver, start, file, hist>>

(* one byte of the file was XORed with mask (1..255) at absolute offset res.at *)
TAlter ==
  /\ IsEvent("alter") /\ Strict
  /\ LET at == Ev.res.at
         hit == {j \in 1..Len(recs) : recs[j].off <= at /\ at < recs[j].off + recs[j].len}
     IN IF ~Ev.res.done \/ hit = {} THEN UNCHANGED recs
        ELSE LET j == CHOOSE x \in hit : TRUE
                 rc == recs[j]
                 lo == rc.off + DataOffset(ver)
                 indata == rc.b.data.n > 0 /\ at >= lo /\ at < lo + rc.b.data.n
             IN recs' = [recs EXCEPT ![j] = IF indata /\ at \notin rc.altd THEN [rc EXCEPT !.altd = rc.altd \cup {at}]
                                            ELSE [rc EXCEPT !.bad = TRUE]]
  /\ UNCHANGED <<ver, start, file, hist>>

SameBlob(r, b) ==
  /\ r.cookie = b.cookie /\ r.id = b.id /\ r.data = b.data
  /\ (ver # 1 => /\ r.flags = b.flags
                 /\ (HasName(b.flags) => r.name = b.name)
                 /\ (HasMime(b.flags) => r.mime = b.mime)
                 /\ (HasLm(b.flags) => r.lm = <<0, 0, 0>> \o b.lm)
                 /\ (HasTtl(b.flags) => r.ttl = b.ttl)
                 /\ (HasPairs(b.flags) => r.pairs = b.pairs))
  /\ (ver = 3 => r.ts = b.ts)
(* C02-empty-data-drops-meta: the format stores nothing but the header for an empty blob *)
DropsMeta(r, b) ==
  /\ ver # 1 /\ b.data.n = 0 /\ b.flags # 0
  /\ r.cookie = b.cookie /\ r.id = b.id /\ r.data.n = 0 /\ r.flags = 0
  /\ (ver = 3 => r.ts = b.ts)
Span(S) == (CHOOSE x \in S : \A y \in S : y <= x) - (CHOOSE x \in S : \A y \in S : y >= x) + 1

TGet ==
  /\ IsEvent("get") /\ Ev.i \in 1..Len(recs)
  /\ LET rc == recs[Ev.i]
         r == Ev.res
     IN IF rc.bad THEN Strict
        ELSE IF rc.altd # {} THEN Strict /\ (Span(rc.altd) <= 4 => r.err)          \* altered data must be reported
        ELSE \/ Strict /\ ~r.err /\ r.size = rc.size /\ SameBlob(r, rc.b)
             \/ Deviate("C02-empty-data-drops-meta") /\ ~r.err /\ r.size = rc.size /\ DropsMeta(r, rc.b)
  /\ UNCHANGED vars

TScan ==
  /\ IsEvent("scan")
  /\ LET r == Ev.res
         intact(j) == recs[j].altd = {}
         shape == /\ ~r.err /\ Len(r.recs) = Len(recs)
                  /\ \A j \in 1..Len(recs) : /\ r.recs[j].off = recs[j].off /\ r.recs[j].size = recs[j].size
                                             /\ r.recs[j].cookie = recs[j].b.cookie /\ r.recs[j].id = recs[j].b.id
     IN IF \E j \in 1..Len(recs) : recs[j].bad THEN Strict
        ELSE /\ shape                                                             \* exactly the written records, in order
             /\ IF ~Ev.body THEN Strict
                ELSE \/ Strict /\ \A j \in 1..Len(recs) : intact(j) => SameBlob(r.recs[j], recs[j].b)
                     \/ /\ Deviate("C02-empty-data-drops-meta")
                        /\ \E j \in 1..Len(recs) : intact(j) /\ DropsMeta(r.recs[j], recs[j].b)
                        /\ \A j \in 1..Len(recs) : intact(j) => (SameBlob(r.recs[j], recs[j].b) \/ DropsMeta(r.recs[j], recs[j].b))
  /\ UNCHANGED vars

TraceNext == TraceReset \/ TraceSkip \/ TPut \/ TAlter \/ TGet \/ TScan
TraceSpec == TraceInit /\ [][TraceNext]_tvars
=============================================================================
