-------------------------------- MODULE DavFS --------------------------------
(* Spec growth (X03): the WebDAV gateway (weed/server/webdav_server.go behind
   golang.org/x/net/webdav) over a real filer, as a tree of collections and files.

   tree maps a path (sequence of names) to "dir" or to a content token.  An operation
   carries its observed outcome ok = the status was 2xx:
     MKCOL  ok => the path is a collection afterwards (its parent was one), nothing else changed
     PUT    ok => the path is a file with the body; a non-2xx answer changes nothing
     DELETE ok => the whole subtree is gone
     MOVE   ok => the source subtree is at the destination and nowhere else; whatever was at
                  the destination is replaced only when Overwrite was T
   Non-2xx answers change nothing.  GET answers 200 + content for a file, 404 for nothing,
   405 for a collection.  Where RFC 4918 leaves a choice (which error status) nothing is
   demanded. *)
EXTENDS Integers, Sequences, FiniteSets, TLC, Json
CONSTANTS Paths, Datas, MaxOps
VARIABLES tree, hist
vars == <<tree, hist>>
IsPrefix(p, q) == Len(p) <= Len(q) /\ SubSeq(q, 1, Len(p)) = p
Parent(p) == SubSeq(p, 1, Len(p) - 1)
Under(t, p) == {q \in DOMAIN t : IsPrefix(p, q)}
Without(t, S) == [q \in DOMAIN t \ S |-> t[q]]
ParentIsDir(t, p) == Len(p) = 1 \/ (Parent(p) \in DOMAIN t /\ t[Parent(p)] = "dir")
Init == tree = <<>> /\ hist = <<>>

Ancestors(p) == {SubSeq(p, 1, i) : i \in 1..(Len(p) - 1)}
AncestorsFree(t, p) == \A a \in Ancestors(p) : IF a \in DOMAIN t THEN t[a] = "dir" ELSE TRUE
(* the filer creates missing intermediate collections implicitly (RFC 4918 asks for 409 instead:
   observed and admitted, see DESIGN.md) *)
MkcolT(t, p) == [q \in DOMAIN t \cup {p} \cup Ancestors(p) |-> IF q = p \/ q \notin DOMAIN t THEN "dir" ELSE t[q]]
PutT(t, p, d) == LET t1 == Without(t, Under(t, p)) IN [q \in DOMAIN t1 \cup {p} |-> IF q = p THEN d ELSE t1[q]]
DeleteT(t, p) == Without(t, Under(t, p))
MoveT(t, o, n) ==
  LET sub == Under(t, o)
      t1 == Without(Without(t, sub), Under(t, n))
      moved == {n \o SubSeq(q, Len(o) + 1, Len(q)) : q \in sub}
  IN [q \in DOMAIN t1 \cup moved |-> IF q \in moved THEN t[o \o SubSeq(q, Len(n) + 1, Len(q))] ELSE t1[q]]

(* outcomes admitted for an operation with observed success flag ok *)
Mkcol(p, ok, t2) == IF ok THEN p \notin DOMAIN tree /\ AncestorsFree(tree, p) /\ t2 = MkcolT(tree, p) ELSE t2 = tree
PutT2(t, p, d) == LET t1 == MkcolT(t, p) IN PutT(t1, p, d)
(* a PUT onto an existing collection MAY be refused (RFC 4918 9.7.2); this gateway replaces an EMPTY
   collection by the file - admitted; missing intermediate collections are created implicitly *)
Put(p, d, ok, t2) == IF ok THEN AncestorsFree(tree, p) /\ t2 = PutT2(tree, p, d) ELSE t2 = tree
Delete(p, ok, t2) == IF ok THEN p \in DOMAIN tree /\ t2 = DeleteT(tree, p) ELSE t2 = tree
Move(o, n, ow, ok, t2) ==
  IF ok THEN /\ o \in DOMAIN tree /\ ~IsPrefix(o, n) /\ AncestorsFree(tree, n)
             /\ (n \in DOMAIN tree => ow)
             /\ t2 = MoveT(MkcolT(tree, n), o, n)
  \* RFC 4918 9.9.3: with Overwrite T the destination is deleted PRIOR to the move, so a move that then
  \* fails (golang.org/x/net/webdav does not check the source first) may leave the destination deleted
  ELSE t2 = tree \/ (ow /\ t2 = DeleteT(tree, n))
Look(t, p) == IF p \in DOMAIN t THEN t[p] ELSE "none"

(* generator: what a well-behaved server would answer decides the next state *)
Log(op) == hist' = Append(hist, op)
Next ==
  /\ Len(hist) < MaxOps
  /\ \/ \E p \in Paths : LET ok == p \notin DOMAIN tree /\ ParentIsDir(tree, p) IN
          tree' = (IF ok THEN MkcolT(tree, p) ELSE tree) /\ Log([ev |-> "mkcol", p |-> p])
     \/ \E p \in Paths, d \in Datas : LET ok == ParentIsDir(tree, p) /\ Look(tree, p) # "dir" IN
          tree' = (IF ok THEN PutT(tree, p, d) ELSE tree) /\ Log([ev |-> "put", p |-> p, d |-> d])
     \/ \E p \in Paths : tree' = DeleteT(tree, p) /\ Log([ev |-> "delete", p |-> p])
     \/ \E o \in Paths, n \in Paths, ow \in BOOLEAN :
          LET ok == o \in DOMAIN tree /\ ~IsPrefix(o, n) /\ ~IsPrefix(n, o) /\ ParentIsDir(tree, n) /\ (n \in DOMAIN tree => ow) IN
          tree' = (IF ok THEN MoveT(tree, o, n) ELSE tree) /\ Log([ev |-> "move", o |-> o, n |-> n, ow |-> ow])
Spec == Init /\ [][Next]_vars
WellFormed == \A p \in DOMAIN tree : ParentIsDir(tree, p)
View == <<tree, IF hist = <<>> THEN <<>> ELSE hist[Len(hist)]>>
EmitW == hist = <<>> \/ PrintT(<<"W", ToJson(hist)>>)
Emit == Len(hist) < MaxOps \/ PrintT(<<"W", ToJson(hist)>>)
=============================================================================
