--------------------------- MODULE ReplWriteTrace ---------------------------
(* Judge for executions recorded by driver c40 from 2-3 real volume servers
   holding one replicated volume: after every upload / delete / replica fault
   the driver records, per key, what every replica holds (event "snap": the
   needle read from each replica's own store and the client's HTTP view of that
   replica).  State = the layer-A variables of ReplWrite plus the volume TTL. *)
EXTENDS ReplWrite, TraceKit
VARIABLES vttl
vars == <<avars, vttl>>
tvars == <<vars, kitvars>>

(* the compared part of an observation: everything the statement lists, plus what a
   client that GETs the fid from that replica sees (status and decoded body) *)
Proj(o) == [st |-> o.st, c |-> o.c, d |-> o.d, name |-> o.name, mime |-> o.mime, pairs |-> o.pairs,
            lm |-> o.lm, ttl |-> o.ttl, hst |-> o.hst, hd |-> o.hd]
NoVol == [st |-> "novol", c |-> "", d |-> ""]
Gone == [st |-> "gone", c |-> "", d |-> "", name |-> "", mime |-> "", pairs |-> "", lm |-> "", ttl |-> "", hst |-> 404, hd |-> ""]
ObsFn == [r \in AllR |-> IF r + 1 <= Len(Ev.obs) THEN Proj(Ev.obs[r + 1]) ELSE NoVol]

TraceInit == AInit(2, Gone) /\ vttl = "" /\ KitInit
TraceReset ==
  /\ IsReset
  /\ member' = {r \in AllR : r < Ev.n} /\ mounted' = {r \in AllR : r < Ev.n}
  /\ val' = [r \in AllR |-> [k \in AllK |-> Gone]]
  /\ need' = [k \in AllK |-> FALSE]
  /\ alt' = [r \in AllR |-> [k \in AllK |-> {}]]
  /\ vttl' = Ev.vttl
TraceSkip == SkipStep /\ UNCHANGED vars

TUpload == IsEvent("upload") /\ Strict /\ AUpload(Ev.to, Ev.k, Ev.c, Ev.d, vttl, Ev.res) /\ UNCHANGED vttl
TDelete == IsEvent("delete") /\ Strict /\ ADelete(Ev.to, Ev.k, Ev.c, Ev.res) /\ UNCHANGED vttl
TRace == IsEvent("race") /\ Strict /\ ARace(Ev.k, Ev.c, Ev.d1, Ev.d2, Ev.res1, Ev.res2) /\ UNCHANGED vttl
TFault == IsEvent("fault") /\ Strict /\ AFault(Ev.kind, Ev.r, Ev.res) /\ UNCHANGED vttl
AltIds(k) == UNION {a.ids : a \in UNION {alt[r][k] : r \in AllR}}
TSnap ==
  /\ IsEvent("snap")
  /\ \E S \in SUBSET (KF \cap AltIds(Ev.k)) : DeviateAll(S) /\ SnapOK(Ev.k, ObsFn, S)
  /\ ASnap(Ev.k, ObsFn)
  /\ UNCHANGED vttl

TraceNext == TraceReset \/ TraceSkip \/ TUpload \/ TDelete \/ TRace \/ TFault \/ TSnap
TraceSpec == TraceInit /\ [][TraceNext]_tvars
=============================================================================
