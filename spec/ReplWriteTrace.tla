--------------------------- MODULE ReplWriteTrace ---------------------------
(* Judge for executions recorded by driver c40 from 2-3 real volume servers
   holding one replicated volume: after every upload / delete / replica fault
   the driver records, per key, what every replica holds (event "snap": the
   needle read from each replica's own store and the client's HTTP view of that
   replica).  State = the layer-A variables of ReplWrite plus the volume TTL.

   An upload event carries the way it entered (via = "mp": multipart POST typed
   by the driver; "reader" / "breader": operation.Upload with a plain reader /
   a util.BytesReader; "ereader": operation.Upload with a reader that fails half
   way; "data": operation.UploadData) and cipher (client-side
   encryption inside operation.Upload or UploadData).  Per replica the driver records, next to
   the fields of the statement: ptok = the pair set the stored pairs are (token
   lookup, header names compared without case), dec = "k<n>" when the stored bytes
   decrypt with the n-th key the uploads of this file id returned in this
   execution (d and the HTTP view hd are then the decrypted bytes; the upload
   event carries kid = the name of the key its result carried), ct = hash token
   of the stored ciphertext ("" when dec = "plain"). *)
EXTENDS ReplWrite, TraceKit
VARIABLES vttl
vars == <<avars, vttl>>
tvars == <<vars, kitvars>>

(* the compared part of an observation: everything the statement lists, plus what a
   client that GETs the fid from that replica sees (status and decoded body) *)
Proj(o) == [st |-> o.st, c |-> o.c, d |-> o.d, name |-> o.name, mime |-> o.mime, pairs |-> o.pairs,
            lm |-> o.lm, ttl |-> o.ttl, hst |-> o.hst, hd |-> o.hd, ptok |-> o.ptok, dec |-> o.dec, ct |-> o.ct]
NoVol == [st |-> "novol", c |-> "", d |-> ""]
Gone == [st |-> "gone", c |-> "", d |-> "", name |-> "", mime |-> "", pairs |-> "", lm |-> "", ttl |-> "", hst |-> 404, hd |-> "",
         ptok |-> "p0", dec |-> "plain", ct |-> ""]
ObsFn == [r \in AllR |-> IF r + 1 <= Len(Ev.obs) THEN Proj(Ev.obs[r + 1]) ELSE NoVol]

TraceInit == AInit(2, Gone) /\ vttl = "" /\ KitInit
TraceReset ==
  /\ IsReset
  /\ member' = {r \in AllR : r < Ev.n} /\ mounted' = {r \in AllR : r < Ev.n}
  /\ val' = [r \in AllR |-> [k \in AllK |-> Gone]]
  /\ need' = [k \in AllK |-> FALSE]
  /\ alt' = [r \in AllR |-> [k \in AllK |-> {}]]
  /\ want' = [k \in AllK |-> NoWant]
  /\ vttl' = Ev.vttl
TraceSkip == SkipStep /\ UNCHANGED vars

(* what a successful upload promises beyond the decoded content: the pairs the client sent (an encrypted upload
   sends none: doUploadData keeps name, mime and pairs out of an encrypted needle, the statement is silent
   on them), the client's own timestamp when it gave one, and that an encrypted upload is stored encrypted with the
   returned key on every replica *)
OldTs == "1600000000"
UploadFix ==
  (IF Ev.cipher THEN {<<"dec", Ev.kid>>} ELSE {<<"ptok", Ev.pairs>>})
  \cup (IF Ev.ts = "old" THEN {<<"lm", OldTs>>} ELSE {})
TUpload == IsEvent("upload") /\ Strict /\ AUpload(Ev.to, Ev.k, Ev.c, Ev.d, vttl, Ev.res, Ev.cipher, UploadFix) /\ UNCHANGED vttl
TDelete == IsEvent("delete") /\ Strict /\ ADelete(Ev.to, Ev.k, Ev.c, Ev.res) /\ UNCHANGED vttl
TRace == IsEvent("race") /\ Strict /\ ARace(Ev.k, Ev.c, Ev.d1, Ev.d2, Ev.res1, Ev.res2) /\ UNCHANGED vttl
TFault == IsEvent("fault") /\ Strict /\ AFault(Ev.kind, Ev.r, Ev.res) /\ UNCHANGED vttl
AltIds(k) == UNION {a.ids : a \in UNION {alt[r][k] : r \in AllR}}
TSnap ==
  /\ IsEvent("snap")
  /\ \E S \in SUBSET (KF \cap AltIds(Ev.k)) : DeviateAll(S) /\ SnapOK(Ev.k, ObsFn, S)
  /\ ASnap(Ev.k, ObsFn)
  /\ UNCHANGED vttl

TraceNext == TraceReset \/ TraceSkip \/ TUpload \/ TDelete \/ TRace \/ TFault \/ TSnap
TraceSpec == TraceInit /\ [][TraceNext]_tvars
=============================================================================
