---------------------------- MODULE FsCacheTrace ----------------------------
EXTENDS FsCacheSpec, TraceKit
CONSTANT Probe    \* the paths the driver looks up after every operation
tvars == <<vars, kitvars>>
TraceInit == Init /\ KitInit
TraceReset == IsReset /\ tree' = <<>> /\ nextId' = 1 /\ UNCHANGED hist
TraceSkip == SkipStep /\ UNCHANGED vars
TSet == IsEvent("set") /\ Strict /\ Set(Ev.p, Ev.id, Ev.kind) /\ UNCHANGED hist
TDelete == IsEvent("delete") /\ Strict /\ Delete(Ev.p) /\ UNCHANGED hist
TMove == IsEvent("move") /\ Strict /\ Move(Ev.o, Ev.n) /\ UNCHANGED hist
TGet == IsEvent("get") /\ Strict /\ Get(Ev.p, Ev.res) /\ UNCHANGED hist
(* snap: the driver looked up every probe path; got[i] must be the id at probe[i] *)
TSnap == /\ IsEvent("snap") /\ Strict
         /\ Len(Ev.got) = Len(Probe)
         /\ \A i \in 1..Len(Probe) : Ev.got[i] = Lookup(tree, Probe[i])
         /\ UNCHANGED vars
TraceNext == TraceReset \/ TraceSkip \/ TSet \/ TDelete \/ TMove \/ TGet \/ TSnap
TraceSpec == TraceInit /\ [][TraceNext]_tvars
=============================================================================
