---------------------------- MODULE CrashRecover ----------------------------
(* C03 layer A - what a volume may answer after a crash.

   ops[j] = the j-th operation of the history with the extents it reached:
     dend = size of the data file after it, iend = number of index entries after it.
   A crash keeps the first d bytes of the data file and the first i index entries
   (i never beyond the entries whose record lies completely within d: the data append
   precedes the index append).  Operation j is
     durable  when dend[j] <= d and iend[j] <= i   (reached both files),
     complete when dend[j] <= d                    (its record is whole in the data file).
   After reopening, the read of a key must answer as the blob store does after some
   prefix ops[1..j] with  Lo <= j <= Hi,  Lo = number of durable operations, Hi = number
   of complete ones: everything durable is served exactly (deleted stays deleted), a
   complete-but-unindexed operation may or may not have survived, and nothing else
   (torn, foreign or corrupted bytes) is ever returned. *)
EXTENDS BlobStore

RECURSIVE StateAfter(_, _, _)
StateAfter(ops, j, keys) ==
  IF j = 0 THEN [k \in keys |-> None]
  ELSE LET s == StateAfter(ops, j - 1, keys)  o == ops[j] IN
       IF o.res # "ok" THEN s
       ELSE IF o.ev = "write" THEN [s EXCEPT ![o.k] = Blob(o.c, o.d, o.m)]
       ELSE [s EXCEPT ![o.k] = None]   \* store-level delete: the cookie is compared by the HTTP handler, not here

Durable(ops, d, i) == {j \in 1..Len(ops) : ops[j].dend <= d /\ ops[j].iend <= i}
Complete(ops, d) == {j \in 1..Len(ops) : ops[j].dend <= d}
Max0(S) == IF S = {} THEN 0 ELSE CHOOSE x \in S : \A y \in S : y <= x
Lo(ops, d, i) == Max0(Durable(ops, d, i))
Hi(ops, d) == Max0(Complete(ops, d))

NameOf(m) == MetaTable[m].name
Matches(b, o) == IF b = None THEN o.st = "notfound"
                 ELSE o.st = "data" /\ o.d = b.d /\ o.c = b.c /\ o.name = NameOf(b.m)
ReadAfterCrash(ops, keys, d, i, k, o) ==
  \E j \in Lo(ops, d, i)..Hi(ops, d) : Matches(StateAfter(ops, j, keys)[k], o)
=============================================================================
