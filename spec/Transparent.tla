----------------------------- MODULE Transparent -----------------------------
(* C33: client-side compression and encryption are transparent and robust.

   Layer A (the statement):
     Fetch(Upload(d, name, mime, cipher), range) = d[range]
       - data handed to the client upload path and reported uploaded is
         fetched back through the chunk download path as exactly the original
         bytes, in full and for every range inside the data; for input that is
         declared compressed the original bytes are the decompressed ones.
     Decompress(x) \in {err} \cup Bytes
       - the decompression helpers answer arbitrary input with an error or with
         bytes; compress-then-decompress is the identity.  A panic is an event
         of its own, which no action admits.
     Put(d, headers): the same bytes may enter through a raw HTTP request to the
       volume server (PUT body or a hand-made multipart form; Content-Type set
       or not, Content-Encoding: gzip with a gzipped body, a file name in the
       part / nowhere / in the URL / a form field in front of the file part).
       An answer 2xx obliges the fetches exactly like a reported client upload.
       A request whose Content-MD5 does not fit the data must be refused and
       must leave nothing readable under that file id.
     The fetch paths include the ones the S3 copy handlers, the replication
     source and `weed download` use (util.ReadUrlAsReaderCloser with and without
     a range header, util.DownloadFile, util.Head): full content = d, a range =
     the matching slice, the announced length = |d|, and the file name handed
     back by DownloadFile is the name given when that name needs no quoting.
   Silent: whether an upload succeeds; what a fetch returns for an upload
   that failed, for input wrongly declared compressed, for a stored chunk that
   is not a gzip stream although flagged as one (only: no panic); which digest
   a Content-MD5 of a compressed body refers to (the body as sent or the data);
   file names that need quoting in a Content-Disposition header.

   The second half of the module is the decision table of the real pipeline
   (doUploadData's compression/encryption decisions, needle.ParseUpload on raw
   requests, the volume server's Accept-Encoding / Range behaviour,
   ReadUrlAsStream / readEncryptedUrl / ReadUrlAsReaderCloser / DownloadFile /
   Head) over abstract byte strings: TLC enumerates every row (the generator of the
   driver's scripts) and checks that the composition is the identity
   (PipelineTransparent). *)
EXTENDS Integers, Sequences, FiniteSets, TLC, Json

(* ------------------------------------------------------------------ layer A *)
(* up[id] = [ok, len, valid, void, named]: upload id was reported successful, the original data has len bytes,
   valid = the input was what it was declared to be, void = the request had to be refused *)
NoUpload == [ok |-> FALSE, len |-> 0, valid |-> FALSE, void |-> FALSE, named |-> FALSE]
(* named = a file name that needs no quoting was given and stored with the data *)
PlainName(ext) == ext \in {"txt", "jpg", "gz", "json", "dottxt"}
UploadRec(res, len, valid, named) == [ok |-> res = "ok", len |-> len, valid |-> valid, void |-> FALSE, named |-> res = "ok" /\ named]

(* a raw HTTP upload: status = the volume server's answer.  md5: which Content-MD5 header travelled with it
   ("none", "right" = of d, "wrong" = of other bytes, "wire" = of the body as sent) *)
Accepted(status) == status \in 200..299
PutOK(md5, status) == md5 = "wrong" => ~Accepted(status)
PutRec(md5, status, len, valid, named) ==
  [ok |-> Accepted(status), len |-> len, valid |-> valid, void |-> md5 = "wrong", named |-> Accepted(status) /\ named]

(* the paths that read through a chunk list (filer.StreamContent, filer.ChunkReadAt) never ask a server for a
   chunk of size 0: there is nothing that could fail *)
ChunkVias == {"streamcontent", "readerat"}
(* res: "ok" | "err"; seg = [src, off, len]: which bytes came back, as identified by the driver
   (src = "d": a segment of the original data) *)
FetchOK(u, via, full, off, size, res, seg) ==
  /\ (u.void /\ ~(u.len = 0 /\ via \in ChunkVias)) => res = "err"            \* a refused upload left nothing readable
  /\ (u.ok /\ u.valid) =>
     /\ res = "ok"
     /\ LET want == IF full THEN u.len ELSE size
            woff == IF full THEN 0 ELSE off
        IN IF want = 0 THEN seg.len = 0
           ELSE seg.src = "d" /\ seg.off = woff /\ seg.len = want
(* HEAD: the announced length is the length of the data unless the answer declares a content coding *)
HeadOK(u, res, clen, cenc) ==
  /\ u.void => res = "err"
  /\ (u.ok /\ u.valid) => (res = "ok" /\ (cenc = "" => clen = u.len))
(* util.DownloadFile hands the stored file name back: fname "same" | "none" | "other" (a needle without data keeps
   no name: nothing is said about the name of an empty file) *)
NameOK(u, res, fname) == (u.ok /\ u.valid /\ u.named /\ u.len > 0 /\ res = "ok") => fname = "same"

(* decompression helpers: res "bytes" | "err"; case "valid" = an uncorrupted stream; round trips of arbitrary
   data through compress + decompress give the data back; isgz = the input starts with the gzip magic *)
DecompOK(fn, case, isgz, res, same) ==
  /\ res \in {"bytes", "err"}
  /\ (case = "valid" /\ fn \in {"DecompressData", "MaybeDecompressData"}) => (res = "bytes" /\ same)
  /\ fn = "RoundTrip" => (res = "bytes" /\ same)
  (* the Maybe pair tells compressed from plain data by the gzip magic: input that starts with it is not its business *)
  /\ (fn = "MaybeRoundTrip" /\ ~isgz) => (res = "bytes" /\ same)

(* ------------------------------------------------------------------ the pipeline (decision table) *)
CONSTANTS Exts, Mimes, Sizes, Kinds, Fns,                 \* rows of the client upload functions
          RawExts, RawMimes, RawSizes, RawKinds, Md5s, NameAts   \* rows of raw HTTP requests (fn Put | Multipart)
ClientRows == [ext : Exts, mime : Mimes, size : Sizes, kind : Kinds, cipher : BOOLEAN, gzin : BOOLEAN,
               fn : Fns \cap {"UploadData", "Upload"}, md5 : {"none"}, nameat : {"part"}]
(* a raw request: gzin = the body (the file part) is gzipped and says so in Content-Encoding; nameat = where the file
   name travels: nowhere, in the part's Content-Disposition, in the URL, or in a second part behind a form field;
   a PUT has no parts; the digest of the body as sent only differs from the digest of the data for a gzipped body *)
IsRaw(row) == row.fn \in {"Put", "Multipart"}
WellFormedRaw(r) ==
  /\ (r.nameat = "none") = (r.ext = "none")
  /\ r.fn = "Put" => r.nameat \in {"none", "url"}
  /\ r.md5 = "wire" => r.gzin
RawRows == {r \in [ext : RawExts, mime : RawMimes, size : RawSizes, kind : RawKinds, cipher : {FALSE}, gzin : BOOLEAN,
                   fn : Fns \cap {"Put", "Multipart"}, md5 : Md5s, nameat : NameAts] : WellFormedRaw(r)}
Rows == ClientRows \cup RawRows
(* declared-compressed input is only meaningful when it is a gzip stream: the generator wraps text/rand/zeros
   payloads; gzprefix / gzhdr payloads declared compressed are the malformed rows *)
Malformed(row) == row.gzin /\ row.kind \in {"gzprefix", "gzhdr"}
Big(size) == size \in {"s16k1", "s70k", "s300k", "s1m", "s1m1", "s1m2"}
Empty(size) == size = "s0"
(* the volume server of the executions takes uploads of at most 1 MiB (size s1m); what counts are the bytes as sent:
   compressible data shrinks below the limit, the gzip form of 1 MiB of random bytes is longer than they are *)
OverLimit(row) == \/ row.size \in {"s1m1", "s1m2"} /\ ~(row.gzin /\ row.kind \in {"text", "html", "zeros"})
                  \/ row.size = "s1m" /\ row.gzin /\ row.kind = "rand"

(* http.DetectContentType on the first bytes, reduced to what the decisions need *)
Sniff(row) ==
  IF Empty(row.size) THEN "text"          \* DetectContentType("") = text/plain; charset=utf-8
  ELSE CASE row.kind = "text" -> "text"
         [] row.kind = "html" -> "text"
         [] row.kind \in {"gzprefix", "gzhdr"} -> (IF row.size = "s1" THEN "" ELSE "gzip")   \* 1f alone: binary
         [] OTHER -> ""                   \* application/octet-stream
MType(row) ==
  IF row.gzin THEN row.mime
  ELSE IF row.mime # "none" THEN row.mime ELSE (IF Sniff(row) = "" THEN "none" ELSE Sniff(row))
(* util.IsCompressableFileType(filepath.Base(filename), mtype): the first argument is the whole base name, so
   the extension table only ever matches a file literally called ".txt" *)
Compressable(row) ==
  LET mt == MType(row) IN
  IF mt = "text" THEN <<TRUE, TRUE>>
  ELSE IF mt = "image" THEN <<FALSE, TRUE>>
  ELSE IF row.ext = "dottxt" THEN <<TRUE, TRUE>>
  ELSE IF mt = "xml" THEN <<TRUE, TRUE>>
  ELSE <<FALSE, FALSE>>
SampleCompresses(row) == row.kind \in {"text", "html", "zeros"}
ShouldGzip(row) ==
  /\ ~row.gzin
  /\ LET c == Compressable(row) IN
       \/ (c[2] /\ c[1])
       \/ (~c[2] /\ MType(row) = "none" /\ Big(row.size) /\ SampleCompresses(row))

(* abstract byte strings: a stack of encodings over the original data d *)
D == <<>>
Gz(x) == <<"gz">> \o x
Enc(x) == <<"enc">> \o x
UnGz(x) == IF x # <<>> /\ Head(x) = "gz" THEN Tail(x) ELSE <<"garbage">>
Dec(x) == IF x # <<>> /\ Head(x) = "enc" THEN Tail(x) ELSE <<"garbage">>

(* needle.ParseUpload on a raw request.  parsePut: the request's Content-Encoding makes the needle compressed, the
   body is the data whatever its Content-Type; parseMultipart: the headers of the part the data is taken from.
   The digest the server compares a Content-MD5 with is the one of the decompressed data when the needle is
   compressed and decompresses, of the data as sent otherwise. *)
RawFlag(row) == row.gzin
RawRefused(row) ==
  \/ OverLimit(row)
  \/ row.md5 = "wrong"
  \/ (row.md5 = "wire" /\ RawFlag(row) /\ ~Malformed(row))

(* doUploadData: what is stored, the needle's compressed flag, and the UploadResult the caller keeps;
   a raw request: what the parser made of it; nothing for a refused request *)
Nothing == [bytes |-> <<"nothing">>, flag |-> FALSE, rgzip |-> FALSE, key |-> FALSE]
Stored(row) ==
  IF IsRaw(row)
    THEN IF RawRefused(row) THEN Nothing
         ELSE IF RawFlag(row) THEN [bytes |-> Gz(D), flag |-> TRUE, rgzip |-> TRUE, key |-> FALSE]
         ELSE [bytes |-> D, flag |-> FALSE, rgzip |-> FALSE, key |-> FALSE]
  ELSE IF row.cipher THEN [bytes |-> Enc(D), flag |-> FALSE, rgzip |-> FALSE, key |-> TRUE]
  ELSE IF row.gzin \/ ShouldGzip(row) THEN [bytes |-> Gz(D), flag |-> TRUE, rgzip |-> TRUE, key |-> FALSE]
  ELSE [bytes |-> D, flag |-> FALSE, rgzip |-> FALSE, key |-> FALSE]

(* volume server GET: a compressed needle is sent as is to a client that accepts gzip (and has no Range),
   otherwise it is decompressed first; the range applies to what is sent *)
Serve(st, acceptGz) ==
  IF st.flag /\ acceptGz THEN [body |-> st.bytes, cenc |-> TRUE]
  ELSE IF st.flag THEN [body |-> UnGz(st.bytes), cenc |-> FALSE]
  ELSE [body |-> st.bytes, cenc |-> FALSE]

(* util.ReadUrlAsStream: full chunk -> Accept-Encoding: gzip, otherwise Range; a gzip Content-Encoding is undone;
   with a cipher key: util.Get (accepts gzip), Decrypt, then DecompressData if the chunk is flagged compressed,
   then the range is cut out *)
Fetched(row, full) ==
  LET st == Stored(row) IN
  IF st.key
    THEN LET rsp == Serve(st, TRUE)
             body == IF rsp.cenc THEN UnGz(rsp.body) ELSE rsp.body
             clear == Dec(body)
         IN IF st.rgzip THEN UnGz(clear) ELSE clear
    ELSE LET rsp == Serve(st, full)
         IN IF rsp.cenc THEN UnGz(rsp.body) ELSE rsp.body
(* the fetch paths without a key.  util.ReadUrlAsReaderCloser: no range header -> Accept-Encoding: gzip and the gzip
   coding undone, a range header -> the range of what the server sends; util.DownloadFile: a plain client.Get - the
   HTTP transport asks for gzip by itself and undoes it; util.Head: nothing asked for, only the length announced *)
RawVias == {"rcloser", "download", "head"}
FetchedVia(row, via, full) ==
  LET st == Stored(row)
      rsp == CASE via = "rcloser" -> Serve(st, full)
               [] via = "download" -> Serve(st, TRUE)
               [] OTHER -> Serve(st, FALSE)
  IN IF rsp.cenc THEN UnGz(rsp.body) ELSE rsp.body

VARIABLES row, hist
Init == row \in Rows /\ hist = <<row>>
Next == UNCHANGED <<row, hist>>
Spec == Init /\ [][Next]_<<row, hist>>

Kept(r) == ~Malformed(r) /\ ~(IsRaw(r) /\ RawRefused(r))
PipelineTransparent ==
  Kept(row) => /\ Fetched(row, TRUE) = D /\ Fetched(row, FALSE) = D
               /\ ~Stored(row).key => \A via \in RawVias, full \in BOOLEAN : FetchedVia(row, via, full) = D
(* compression never reaches an encrypted chunk twice, and a compressed flag implies gzip bytes *)
FlagMeansGz == LET st == Stored(row) IN st.flag => (st.bytes # <<>> /\ Head(st.bytes) = "gz")
(* a digest that does not fit is refused, and a refused request stores nothing *)
WrongMd5Refused == (IsRaw(row) /\ row.md5 = "wrong") => (RawRefused(row) /\ Stored(row) = Nothing)
Emit == PrintT(<<"W", ToJson(hist)>>)
=============================================================================
