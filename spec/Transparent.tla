----------------------------- MODULE Transparent -----------------------------
(* C33: client-side compression and encryption are transparent and robust.

   Layer A (the statement):
     Fetch(Upload(d, name, mime, cipher), range) = d[range]
       - data handed to the client upload path and reported uploaded is
         fetched back through the chunk download path as exactly the original
         bytes, in full and for every range inside the data; for input that is
         declared compressed the original bytes are the decompressed ones.
     Decompress(x) \in {err} \cup Bytes
       - the decompression helpers answer arbitrary input with an error or with
         bytes; compress-then-decompress is the identity.  A panic is an event
         of its own, which no action admits.
   Silent: whether an upload succeeds; what a fetch returns for an upload
   that failed, for input wrongly declared compressed, for a stored chunk that
   is not a gzip stream although flagged as one (only: no panic).

   The second half of the module is the decision table of the real pipeline
   (doUploadData's compression/encryption decisions, the volume server's
   Accept-Encoding / Range behaviour, ReadUrlAsStream / readEncryptedUrl) over
   abstract byte strings: TLC enumerates every row (the generator of the
   driver's scripts) and checks that the composition is the identity
   (PipelineTransparent). *)
EXTENDS Integers, Sequences, FiniteSets, TLC, Json

(* ------------------------------------------------------------------ layer A *)
(* up[id] = [ok, len, valid]: upload id was reported successful, the original data has len bytes,
   valid = the input was what it was declared to be *)
NoUpload == [ok |-> FALSE, len |-> 0, valid |-> FALSE]
UploadRec(res, len, valid) == [ok |-> res = "ok", len |-> len, valid |-> valid]

(* res: "ok" | "err"; seg = [src, off, len]: which bytes came back, as identified by the driver
   (src = "d": a segment of the original data) *)
FetchOK(u, full, off, size, res, seg) ==
  (u.ok /\ u.valid) =>
     /\ res = "ok"
     /\ LET want == IF full THEN u.len ELSE size
            woff == IF full THEN 0 ELSE off
        IN IF want = 0 THEN seg.len = 0
           ELSE seg.src = "d" /\ seg.off = woff /\ seg.len = want

(* decompression helpers: res "bytes" | "err"; case "valid" = an uncorrupted stream; round trips of arbitrary
   data through compress + decompress give the data back; isgz = the input starts with the gzip magic *)
DecompOK(fn, case, isgz, res, same) ==
  /\ res \in {"bytes", "err"}
  /\ (case = "valid" /\ fn \in {"DecompressData", "MaybeDecompressData"}) => (res = "bytes" /\ same)
  /\ fn = "RoundTrip" => (res = "bytes" /\ same)
  (* the Maybe pair tells compressed from plain data by the gzip magic: input that starts with it is not its business *)
  /\ (fn = "MaybeRoundTrip" /\ ~isgz) => (res = "bytes" /\ same)

(* ------------------------------------------------------------------ the pipeline (decision table) *)
CONSTANTS Exts, Mimes, Sizes, Kinds, Fns
Rows == [ext : Exts, mime : Mimes, size : Sizes, kind : Kinds, cipher : BOOLEAN, gzin : BOOLEAN, fn : Fns]
(* declared-compressed input is only meaningful when it is a gzip stream: the generator wraps text/rand/zeros
   payloads; gzprefix / gzhdr payloads declared compressed are the malformed rows *)
Malformed(row) == row.gzin /\ row.kind \in {"gzprefix", "gzhdr"}
Big(size) == size \in {"s16k1", "s70k", "s300k"}
Empty(size) == size = "s0"

(* http.DetectContentType on the first bytes, reduced to what the decisions need *)
Sniff(row) ==
  IF Empty(row.size) THEN "text"          \* DetectContentType("") = text/plain; charset=utf-8
  ELSE CASE row.kind = "text" -> "text"
         [] row.kind = "html" -> "text"
         [] row.kind \in {"gzprefix", "gzhdr"} -> (IF row.size = "s1" THEN "" ELSE "gzip")   \* 1f alone: binary
         [] OTHER -> ""                   \* application/octet-stream
MType(row) ==
  IF row.gzin THEN row.mime
  ELSE IF row.mime # "none" THEN row.mime ELSE (IF Sniff(row) = "" THEN "none" ELSE Sniff(row))
(* util.IsCompressableFileType(filepath.Base(filename), mtype): the first argument is the whole base name, so
   the extension table only ever matches a file literally called ".txt" *)
Compressable(row) ==
  LET mt == MType(row) IN
  IF mt = "text" THEN <<TRUE, TRUE>>
  ELSE IF mt = "image" THEN <<FALSE, TRUE>>
  ELSE IF row.ext = "dottxt" THEN <<TRUE, TRUE>>
  ELSE IF mt = "xml" THEN <<TRUE, TRUE>>
  ELSE <<FALSE, FALSE>>
SampleCompresses(row) == row.kind \in {"text", "html", "zeros"}
ShouldGzip(row) ==
  /\ ~row.gzin
  /\ LET c == Compressable(row) IN
       \/ (c[2] /\ c[1])
       \/ (~c[2] /\ MType(row) = "none" /\ Big(row.size) /\ SampleCompresses(row))

(* abstract byte strings: a stack of encodings over the original data d *)
D == <<>>
Gz(x) == <<"gz">> \o x
Enc(x) == <<"enc">> \o x
UnGz(x) == IF x # <<>> /\ Head(x) = "gz" THEN Tail(x) ELSE <<"garbage">>
Dec(x) == IF x # <<>> /\ Head(x) = "enc" THEN Tail(x) ELSE <<"garbage">>

(* doUploadData: what is stored, the needle's compressed flag, and the UploadResult the caller keeps *)
Stored(row) ==
  IF row.cipher THEN [bytes |-> Enc(D), flag |-> FALSE, rgzip |-> FALSE, key |-> TRUE]
  ELSE IF row.gzin \/ ShouldGzip(row) THEN [bytes |-> Gz(D), flag |-> TRUE, rgzip |-> TRUE, key |-> FALSE]
  ELSE [bytes |-> D, flag |-> FALSE, rgzip |-> FALSE, key |-> FALSE]

(* volume server GET: a compressed needle is sent as is to a client that accepts gzip (and has no Range),
   otherwise it is decompressed first; the range applies to what is sent *)
Serve(st, acceptGz) ==
  IF st.flag /\ acceptGz THEN [body |-> st.bytes, cenc |-> TRUE]
  ELSE IF st.flag THEN [body |-> UnGz(st.bytes), cenc |-> FALSE]
  ELSE [body |-> st.bytes, cenc |-> FALSE]

(* util.ReadUrlAsStream: full chunk -> Accept-Encoding: gzip, otherwise Range; a gzip Content-Encoding is undone;
   with a cipher key: util.Get (accepts gzip), Decrypt, then DecompressData if the chunk is flagged compressed,
   then the range is cut out *)
Fetched(row, full) ==
  LET st == Stored(row) IN
  IF st.key
    THEN LET rsp == Serve(st, TRUE)
             body == IF rsp.cenc THEN UnGz(rsp.body) ELSE rsp.body
             clear == Dec(body)
         IN IF st.rgzip THEN UnGz(clear) ELSE clear
    ELSE LET rsp == Serve(st, full)
         IN IF rsp.cenc THEN UnGz(rsp.body) ELSE rsp.body

VARIABLES row, hist
Init == row \in Rows /\ hist = <<row>>
Next == UNCHANGED <<row, hist>>
Spec == Init /\ [][Next]_<<row, hist>>

PipelineTransparent == ~Malformed(row) => (Fetched(row, TRUE) = D /\ Fetched(row, FALSE) = D)
(* compression never reaches an encrypted chunk twice, and a compressed flag implies gzip bytes *)
FlagMeansGz == LET st == Stored(row) IN st.flag => (st.bytes # <<>> /\ Head(st.bytes) = "gz")
Emit == PrintT(<<"W", ToJson(hist)>>)
=============================================================================
