SPECIFICATION Spec
INVARIANT LawsOnce
INVARIANT FileLaws
INVARIANT Emit
CHECK_DEADLOCK FALSE
