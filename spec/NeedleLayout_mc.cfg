SPECIFICATION Spec
INVARIANT LawsOnce
INVARIANT FileLaws
INVARIANT ReqLawsHold
INVARIANT Emit
INVARIANT EmitReq
CHECK_DEADLOCK FALSE
