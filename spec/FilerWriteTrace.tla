---------------------------- MODULE FilerWriteTrace ----------------------------
(* Judge for C25: the recorded executions of harness/cmd/c25 against FilerWrite.tla.
   cfg = the configuration of the execution (reset line): the filer's inline limit
   and whether the execution's directory is below /etc (the filer keeps such files
   inline whatever their size).  Only the named deviation looks at it. *)
EXTENDS FilerWrite, TraceKit
VARIABLE cfg
tvars == <<vars, cfg, kitvars>>
TraceInit == Init /\ KitInit /\ cfg = [limit |-> 0, etc |-> FALSE]
TraceReset == /\ IsReset /\ file' = [p \in Paths |-> Absent] /\ nseg' = 1
              /\ cfg' = [limit |-> Ev.limit, etc |-> Ev.etc] /\ UNCHANGED hist
TraceSkip == SkipStep /\ UNCHANGED <<vars, cfg>>

(* Known finding C25-inline-first-chunk-only (filer_server_handlers_write_upload.go, the
   "dataSize < SaveToFilerLimit || path below /etc" branch): when the first piece read from
   the body (ck = chunk size bytes) is to be kept inline, the loop stops there.  A body longer
   than one chunk is answered 201 and only its first ck bytes are stored; and a body that
   breaks off after at least ck bytes is not read that far, so its first ck bytes are stored
   as the file too (answered 201 if the client can still hear). *)
InlineFirstChunkOnly(p, op, s, n, fail, st, ck) ==
  /\ op = "set" /\ (cfg.etc \/ ck < cfg.limit)
  /\ \/ fail < 0 /\ n > ck /\ Ok(st)
     \/ fail >= ck
  /\ file' = With(p, Body(s, ck))

TWrite == /\ IsEvent("write") /\ UNCHANGED <<nseg, hist, cfg>>
          /\ \/ Strict /\ Write(Ev.p, Ev.op, Ev.s, Ev.n, Ev.fail, Ev.st)
             \/ /\ Deviate("C25-inline-first-chunk-only")
                /\ InlineFirstChunkOnly(Ev.p, Ev.op, Ev.s, Ev.n, Ev.fail, Ev.st, Ev.ck)
TCreate == IsEvent("create") /\ Strict /\ Ev.st = "ok" /\ Create(Ev.p, Ev.segs) /\ UNCHANGED <<nseg, hist, cfg>>
TGet == IsEvent("get") /\ Strict /\ Get(Ev.p, Ev.st, Ev.c) /\ UNCHANGED <<nseg, hist, cfg>>
TraceNext == TraceReset \/ TraceSkip \/ TWrite \/ TCreate \/ TGet
TraceSpec == TraceInit /\ [][TraceNext]_tvars
=============================================================================
