--------------------------- MODULE MetaStoreTrace ---------------------------
(* Judge for C24: executions recorded by harness/cmd/c24 on leveldb, leveldb2,
   leveldb3 (directly and through FilerStoreWrapper).
   insert/update : dir, name, tok (hash of the entry as written), err
   delete        : dir, name, err
   deltree       : dir, err                       (DeleteFolderChildren)
   snap          : finds [dir, name, found, got, txt, err], lists [dir, api, items [n, got, txt], err] *)
EXTENDS MetaStore, TraceKit
(* wrapped: the store is used through FilerStoreWrapper, whose contract is that
   chunk file ids come back in text form (txt = every chunk of the entry read
   back names its blob, and its source, by text) *)
VARIABLE wrapped
tvars == <<vars, wrapped, kitvars>>
TraceInit == Init /\ wrapped = FALSE /\ KitInit
TraceReset == IsReset /\ kv' = <<>> /\ wrapped' = (Ev.via # "direct") /\ UNCHANGED hist
TraceSkip == SkipStep /\ UNCHANGED <<vars, wrapped>>
P(e) == <<e.dir, e.name>>
TInsert == /\ IsEvent("insert") /\ Strict
           /\ IF Ev.err = "" THEN Insert(P(Ev), Ev.tok) ELSE Failed
           /\ UNCHANGED <<hist, wrapped>>
TUpdate == /\ IsEvent("update") /\ Strict
           /\ IF Ev.err = "" THEN Update(P(Ev), Ev.tok) ELSE Failed
           /\ UNCHANGED <<hist, wrapped>>
TDelete == /\ IsEvent("delete") /\ Strict
           /\ Ev.err = "" /\ Delete(P(Ev))
           /\ UNCHANGED <<hist, wrapped>>
TDelTree == /\ IsEvent("deltree") /\ Strict
            /\ Ev.err = "" /\ DeleteChildren(Ev.dir)
            /\ UNCHANGED <<hist, wrapped>>
TSnap == /\ IsEvent("snap") /\ Strict
         /\ \A i \in 1..Len(Ev.finds) :
              LET f == Ev.finds[i] IN /\ f.err = "" /\ FindAnswer(<<f.dir, f.name>>, f.found, f.got)
                                      /\ (wrapped /\ f.found) => f.txt
         /\ \A i \in 1..Len(Ev.lists) :
              LET g == Ev.lists[i] IN /\ g.err = "" /\ ListAnswer(g.dir, g.items)
                                      /\ wrapped => \A k \in 1..Len(g.items) : g.items[k].txt
         /\ UNCHANGED <<vars, wrapped>>
TraceNext == TraceReset \/ TraceSkip \/ TInsert \/ TUpdate \/ TDelete \/ TDelTree \/ TSnap
TraceSpec == TraceInit /\ [][TraceNext]_tvars
=============================================================================
