--------------------------- MODULE MetaStoreTrace ---------------------------
(* Judge for C24: executions recorded by harness/cmd/c24 on leveldb, leveldb2,
   leveldb3 (directly and through FilerStoreWrapper).
   insert/update : dir, name, tok (hash of the entry as written), err
   delete        : dir, name, err
   deltree       : dir, err                       (DeleteFolderChildren)
   snap          : finds [dir, name, found, got, err], lists [dir, api, items [n, got], err] *)
EXTENDS MetaStore, TraceKit
tvars == <<vars, kitvars>>
TraceInit == Init /\ KitInit
TraceReset == IsReset /\ kv' = <<>> /\ UNCHANGED hist
TraceSkip == SkipStep /\ UNCHANGED vars
P(e) == <<e.dir, e.name>>
TInsert == /\ IsEvent("insert") /\ Strict
           /\ IF Ev.err = "" THEN Insert(P(Ev), Ev.tok) ELSE Failed
           /\ UNCHANGED hist
TUpdate == /\ IsEvent("update") /\ Strict
           /\ IF Ev.err = "" THEN Update(P(Ev), Ev.tok) ELSE Failed
           /\ UNCHANGED hist
TDelete == /\ IsEvent("delete") /\ Strict
           /\ Ev.err = "" /\ Delete(P(Ev))
           /\ UNCHANGED hist
TDelTree == /\ IsEvent("deltree") /\ Strict
            /\ Ev.err = "" /\ DeleteChildren(Ev.dir)
            /\ UNCHANGED hist
TSnap == /\ IsEvent("snap") /\ Strict
         /\ \A i \in 1..Len(Ev.finds) :
              LET f == Ev.finds[i] IN f.err = "" /\ FindAnswer(<<f.dir, f.name>>, f.found, f.got)
         /\ \A i \in 1..Len(Ev.lists) :
              LET g == Ev.lists[i] IN g.err = "" /\ ListAnswer(g.dir, g.items)
         /\ UNCHANGED vars
TraceNext == TraceReset \/ TraceSkip \/ TInsert \/ TUpdate \/ TDelete \/ TDelTree \/ TSnap
TraceSpec == TraceInit /\ [][TraceNext]_tvars
=============================================================================
