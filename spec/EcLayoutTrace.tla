---------------------------- MODULE EcLayoutTrace ----------------------------
(* Judge for C06.  One execution = one data file: reset (block sizes, dat size n, content key),
   encode, then reads / rebuilds / decode in any order.  large = small = 0 in the reset line
   means the production block sizes (1 GiB / 1 MiB, beyond TLC's integers): layer A needs no
   block arithmetic, only Dat. *)
EXTENDS EcLayout, TraceKit
CONSTANT CheckLayout   \* TRUE: also demand the modelled shard layout (advisory run, not a verdict)
tvars == <<vars, kitvars>>
TraceInit == Init /\ KitInit
TraceReset == /\ IsReset
              /\ L' = Ev.large /\ S' = Ev.small /\ n' = Ev.n /\ ka' = Ev.ka /\ kb' = Ev.kb
              /\ sh' = <<>> /\ dh' = "" /\ UNCHANGED lc
TraceSkip == SkipStep /\ UNCHANGED vars
TEncode == /\ IsEvent("encode") /\ Strict
           /\ Encode(Ev.err, Ev.hashes, Ev.dat)
           /\ (CheckLayout /\ L > 0) => LayoutAsModelled(Ev.sizes, Ev.runs)
(* C06-locate-window (fixed in the tree, kept for trees without the fix): with the original
   LocateData the reads of a volume whose dat size is in the window fail or return other bytes *)
TReads == /\ IsEvent("reads")
          /\ \/ Strict /\ Reads(Ev.off, Ev.sizes, Ev.errs, Ev.got)
             \/ Deviate("C06-locate-window") /\ L > 0 /\ InWindow /\ sh # <<>> /\ UNCHANGED vars
TRebuild == IsEvent("rebuild") /\ Strict /\ Rebuild(Ev.lost, Ev.err, Ev.after)
TDecode == IsEvent("decode") /\ Strict /\ Decode(Ev.size, Ev.err, Ev.hash)
TraceNext == TraceReset \/ TraceSkip \/ TEncode \/ TReads \/ TRebuild \/ TDecode
TraceSpec == TraceInit /\ [][TraceNext]_tvars
=============================================================================
