---------------------------- MODULE EcLayoutTrace ----------------------------
(* Judge for C06.  One execution = one data file: reset (block sizes, dat size n, content key),
   encode, then reads / rebuilds / decode / mount + needle reads in any order; or ("vol": true in the
   reset line) the life cycle of one real volume: vwrite / vdelete, vencode, vecread / vecdelete /
   rebuild / vfold, vdecode, vload, vread / vwrite ...  large = small = 0 in the reset line
   means the production block sizes (1 GiB / 1 MiB, beyond TLC's integers): layer A needs no
   block arithmetic, only Dat. *)
EXTENDS EcLayout, TraceKit
CONSTANT CheckLayout   \* TRUE: also demand the modelled shard layout (advisory run, not a verdict)
tvars == <<vars, kitvars>>
TraceInit == Init /\ KitInit
TraceReset == /\ IsReset
              /\ L' = Ev.large /\ S' = Ev.small /\ n' = Ev.n /\ ka' = Ev.ka /\ kb' = Ev.kb
              /\ sh' = <<>> /\ dh' = "" /\ ex' = <<>> /\ UNCHANGED lc
              /\ vol' = IF Ev.vol THEN VFresh ELSE NoVol
TraceSkip == SkipStep /\ UNCHANGED vars
TEncode == /\ IsEvent("encode") /\ Strict
           /\ Encode(Ev.err, Ev.hashes, Ev.dat)
           /\ (CheckLayout /\ L > 0) => LayoutAsModelled(Ev.sizes, Ev.runs)
(* C06-locate-window (fixed in the tree, kept for trees without the fix): with the original
   LocateData the reads of a volume whose dat size is in the window fail or return other bytes *)
TReads == /\ IsEvent("reads")
          /\ \/ Strict /\ Reads(Ev.off, Ev.sizes, Ev.errs, Ev.got)
             \/ Deviate("C06-locate-window") /\ L > 0 /\ InWindow /\ sh # <<>> /\ UNCHANGED vars
TRebuild == IsEvent("rebuild") /\ Strict /\ Rebuild(Ev.lost, Ev.err, Ev.after)
(* C06-decode-exact-multiple (fixed in the tree): with the original WriteDatFile a data file of
   exactly k x 10 GiB comes back with its last 10 GiB permuted.  Only the huge files (unit = MiB,
   production block sizes) can show it. *)
TDecode == /\ IsEvent("decode")
           /\ \/ Strict /\ Decode(Ev.size, Ev.err, Ev.hash)
              \/ /\ Deviate("C06-decode-exact-multiple")
                 /\ L = 0 /\ Ev.unit = 1048576 /\ Ev.size = n /\ n > 0 /\ n % 10240 = 0
                 /\ sh # <<>> /\ Ev.err = "" /\ UNCHANGED vars
TMount == IsEvent("mount") /\ Strict /\ Mount(Ev.needles, Ev.err)
TNeedle == IsEvent("needle") /\ Strict /\ Needle(Ev.id, Ev.err, Ev.off, Ev.asize, Ev.got)
(* the life cycle of a real volume ("vol": true in the reset line), layer A at the bottom of EcLayout.tla *)
TVWrite == IsEvent("vwrite") /\ Strict /\ VWrite(Ev.k, Ev.d, Ev.res)
TVDelete == IsEvent("vdelete") /\ Strict /\ VDelete(Ev.k, Ev.res)
TVEncode == IsEvent("vencode") /\ Strict /\ VEncode(Ev.err, Ev.xerr, Ev.n, Ev.hashes, Ev.dat)
TVEcRead == IsEvent("vecread") /\ Strict /\ VEcRead(Ev.k, Ev.st, Ev.d)
TVEcDelete == IsEvent("vecdelete") /\ Strict /\ VEcDelete(Ev.k, Ev.err)
TVFold == IsEvent("vfold") /\ Strict /\ VFold(Ev.stale, Ev.err)
(* C06-decode-no-live (fixed in the tree, kept for trees without the fix): FindDatFileSize started from 0, so
   a volume without a live needle was decoded into a 0-byte .dat without super block, which the loader
   refuses - the volume is gone, nothing after it can be judged *)
TVDecode == /\ IsEvent("vdecode")
            /\ \/ Strict /\ VDecode(Ev.stale, Ev.ferr, Ev.fsize, Ev.derr, Ev.ierr, Ev.dsize, Ev.hash, Ev.phash)
               \/ /\ Deviate("C06-decode-no-live")
                  /\ vol.ph = "ec" /\ VLive(vol.blob) = {} /\ Ev.ferr = "" /\ Ev.fsize = 0 /\ n > 0
                  /\ vol' = [vol EXCEPT !.ph = "void"] /\ UNCHANGED VOther
TVLoad == IsEvent("vload") /\ Strict /\ VLoad(Ev.res, Ev.ro)
TVRead == IsEvent("vread") /\ Strict /\ VRead(Ev.k, Ev.st, Ev.d)
VKinds == {"vwrite", "vdelete", "vencode", "vecread", "vecdelete", "vfold", "vdecode", "vload", "vread", "rebuild"}
TVVoid == l <= N /\ Ev.ev \in VKinds /\ IsEvent(Ev.ev) /\ Strict /\ VVoid
TraceNext == \/ TraceReset \/ TraceSkip \/ TEncode \/ TReads \/ TRebuild \/ TDecode \/ TMount \/ TNeedle
             \/ TVWrite \/ TVDelete \/ TVEncode \/ TVEcRead \/ TVEcDelete \/ TVFold \/ TVDecode \/ TVLoad \/ TVRead \/ TVVoid
TraceSpec == TraceInit /\ [][TraceNext]_tvars
=============================================================================
