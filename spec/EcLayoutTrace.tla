---------------------------- MODULE EcLayoutTrace ----------------------------
(* Judge for C06.  One execution = one data file: reset (block sizes, dat size n, content key),
   encode, then reads / rebuilds / decode / mount + needle reads in any order.  large = small = 0 in the reset line
   means the production block sizes (1 GiB / 1 MiB, beyond TLC's integers): layer A needs no
   block arithmetic, only Dat. *)
EXTENDS EcLayout, TraceKit
CONSTANT CheckLayout   \* TRUE: also demand the modelled shard layout (advisory run, not a verdict)
tvars == <<vars, kitvars>>
TraceInit == Init /\ KitInit
TraceReset == /\ IsReset
              /\ L' = Ev.large /\ S' = Ev.small /\ n' = Ev.n /\ ka' = Ev.ka /\ kb' = Ev.kb
              /\ sh' = <<>> /\ dh' = "" /\ ex' = <<>> /\ UNCHANGED lc
TraceSkip == SkipStep /\ UNCHANGED vars
TEncode == /\ IsEvent("encode") /\ Strict
           /\ Encode(Ev.err, Ev.hashes, Ev.dat)
           /\ (CheckLayout /\ L > 0) => LayoutAsModelled(Ev.sizes, Ev.runs)
(* C06-locate-window (fixed in the tree, kept for trees without the fix): with the original
   LocateData the reads of a volume whose dat size is in the window fail or return other bytes *)
TReads == /\ IsEvent("reads")
          /\ \/ Strict /\ Reads(Ev.off, Ev.sizes, Ev.errs, Ev.got)
             \/ Deviate("C06-locate-window") /\ L > 0 /\ InWindow /\ sh # <<>> /\ UNCHANGED vars
TRebuild == IsEvent("rebuild") /\ Strict /\ Rebuild(Ev.lost, Ev.err, Ev.after)
(* C06-decode-exact-multiple (fixed in the tree): with the original WriteDatFile a data file of
   exactly k x 10 GiB comes back with its last 10 GiB permuted.  Only the huge files (unit = MiB,
   production block sizes) can show it. *)
TDecode == /\ IsEvent("decode")
           /\ \/ Strict /\ Decode(Ev.size, Ev.err, Ev.hash)
              \/ /\ Deviate("C06-decode-exact-multiple")
                 /\ L = 0 /\ Ev.unit = 1048576 /\ Ev.size = n /\ n > 0 /\ n % 10240 = 0
                 /\ sh # <<>> /\ Ev.err = "" /\ UNCHANGED vars
TMount == IsEvent("mount") /\ Strict /\ Mount(Ev.needles, Ev.err)
TNeedle == IsEvent("needle") /\ Strict /\ Needle(Ev.id, Ev.err, Ev.off, Ev.asize, Ev.got)
TraceNext == TraceReset \/ TraceSkip \/ TEncode \/ TReads \/ TRebuild \/ TDecode \/ TMount \/ TNeedle
TraceSpec == TraceInit /\ [][TraceNext]_tvars
=============================================================================
