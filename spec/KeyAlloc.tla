------------------------------ MODULE KeyAlloc ------------------------------
(* C13 - file keys and volume ids are never handed out twice (layer A).

   State of the statement:
     given   the key ranges handed out so far: records [vol, lo, n, obj]; obj is
             the sequencer object (master, generation) that issued the range
     inuse    pairs <<vol, key>>: keys in use (written, or pre-existing) in a volume
     reg     pairs <<master, vol>>: vol is registered at master (a heartbeat of its
             server has been processed there, which first called SetMax)
     gen     generation of each master's sequencer object (a fresh object = +1)
     smax    per master: the largest value its current object was told by SetMax
     vgiven  volume ids handed out;  vreg  pairs <<master, id>> of registered volumes
     pend    operations that were called and have not returned (concurrent runs)

   Assign(m, vol, n, lo) is admitted iff [lo, lo+n) is disjoint from every range
   given for vol and from every key in use in vol - whoever issued the earlier
   range, whatever happened in between (heartbeats, leader changes).  The system's
   enabling rule is part of the environment: a master assigns only for volumes
   registered with it.  Uniqueness does not depend on the order of concurrent
   assignments, so concurrent runs need no linearization step: an assignment is
   judged against everything returned before it.

   Named deviations (genuine defects of the unchanged tree, see known_findings.d):
     C13-memory-leader-change-reissue  the memory sequencer's counter lives in one
        master process; a new leader (or the same master after a restart) starts
        again from max(1, largest key reported by heartbeats + 1) and re-issues
        keys that an earlier sequencer object handed out for the same volume but
        that were not yet written when the heartbeat was taken.
     C13-snowflake-count-ignored  the snowflake sequencer returns one id whatever
        the count: the tail [lo+1, lo+n) of a range overlaps ids returned later. *)
EXTENDS Integers, Sequences, FiniteSets, TLC, Json
CONSTANTS Masters, Vols, MaxKey, MaxOps      \* bounds of the generator / model-checking view only
VARIABLES kind, given, inuse, reg, gen, smax, vgiven, vreg, pend, hist
avars == <<kind, given, inuse, reg, gen, smax, vgiven, vreg, pend>>
vars == <<avars, hist>>

Max2(a, b) == IF a > b THEN a ELSE b
Overlap(a, n, b, k) == a < b + k /\ b < a + n
InRange(k, lo, n) == lo <= k /\ k < lo + n
Obj(m) == <<m, gen[m]>>
UsedIn(vol) == {u[2] : u \in {w \in inuse : w[1] = vol}}
MaxUsed(vol) == IF UsedIn(vol) = {} THEN 0 ELSE CHOOSE x \in UsedIn(vol) : \A y \in UsedIn(vol) : y <= x
Range(s) == {s[i] : i \in 1..Len(s)}

(* ---- what the statement admits ---- *)
Free(vol, lo, n) ==
  /\ \A g \in given : g.vol = vol => ~Overlap(lo, n, g.lo, g.n)
  /\ \A k \in UsedIn(vol) : ~InRange(k, lo, n)
AssignOK(m, vol, n, lo) == n >= 1 /\ lo >= 0 /\ Free(vol, lo, n)

(* ---- named deviations: exactly the shape of the defect ---- *)
MemReissueOK(m, vol, n, lo) ==
  /\ kind = "memory" /\ n >= 1
  /\ lo > smax[m]                                                    \* SetMax is honoured
  /\ \A g \in given : g.obj = Obj(m) => ~Overlap(lo, n, g.lo, g.n)   \* one object never repeats itself
  /\ \E g \in given : g.vol = vol /\ g.obj # Obj(m) /\ Overlap(lo, n, g.lo, g.n)
SnowTailOK(m, vol, n, lo) ==
  /\ kind = "snowflake" /\ n >= 1
  /\ \A g \in given : g.lo # lo                                      \* generated ids themselves are unique
  /\ \A k \in UsedIn(vol) : k = lo => \E g \in given : g.vol = vol /\ InRange(k, g.lo, g.n)
  /\ ~Free(vol, lo, n)
AssignAdmitted(kf, m, vol, n, lo) ==
  \/ AssignOK(m, vol, n, lo)
  \/ "C13-memory-leader-change-reissue" \in kf /\ MemReissueOK(m, vol, n, lo)
  \/ "C13-snowflake-count-ignored" \in kf /\ SnowTailOK(m, vol, n, lo)

(* ---- effects (frame conditions are added by the callers) ---- *)
GiveEff(m, vol, n, lo) == given' = given \cup {[vol |-> vol, lo |-> lo, n |-> n, obj |-> Obj(m)]}
HbEff(m, vol, v) == /\ reg' = reg \cup {<<m, vol>>}
                    /\ smax' = [smax EXCEPT ![m] = Max2(@, v)]
SetMaxEff(m, v) == smax' = [smax EXCEPT ![m] = Max2(@, v)]
LeaderEff(m, fresh) == /\ reg' = {}
                       /\ gen' = IF fresh THEN [gen EXCEPT ![m] = @ + 1] ELSE gen
                       /\ smax' = IF fresh THEN [smax EXCEPT ![m] = 0] ELSE smax

(* ---- sequential operations with their observed results ---- *)
Assign(m, vol, n, lo) == /\ <<m, vol>> \in reg /\ AssignOK(m, vol, n, lo) /\ GiveEff(m, vol, n, lo)
                         /\ UNCHANGED <<kind, inuse, reg, gen, smax, vgiven, vreg, pend>>
Write(vol, k) == /\ \E g \in given : g.vol = vol /\ InRange(k, g.lo, g.n)
                 /\ inuse' = inuse \cup {<<vol, k>>}
                 /\ UNCHANGED <<kind, given, reg, gen, smax, vgiven, vreg, pend>>
Hb(m, vol, v) == /\ v = MaxUsed(vol) /\ HbEff(m, vol, v)
                 /\ UNCHANGED <<kind, given, inuse, gen, vgiven, vreg, pend>>
SetMaxRaw(m, v) == SetMaxEff(m, v) /\ UNCHANGED <<kind, given, inuse, reg, gen, vgiven, vreg, pend>>
Leader(m, fresh) == LeaderEff(m, fresh) /\ UNCHANGED <<kind, given, inuse, vgiven, vreg, pend>>
NextVid(m, id) == /\ id >= 1 /\ id \notin vgiven /\ <<m, id>> \notin vreg
                  /\ vgiven' = vgiven \cup {id}
                  /\ UNCHANGED <<kind, given, inuse, reg, gen, smax, vreg, pend>>
VolReg(m, id) == vreg' = vreg \cup {<<m, id>>} /\ UNCHANGED <<kind, given, inuse, reg, gen, smax, vgiven, pend>>

(* ---- concurrent operations: call and return are separate events ---- *)
Pending(p) == {r \in pend : r.p = p}
Call(p, op, m, vol, cnt, v) ==
  /\ Pending(p) = {}
  \* the enabling rule: the volume is registered at m, or a heartbeat of its server is being processed by m right now
  \* (the registration happens somewhere inside that handler; the assignment is judged when it returns)
  /\ op = "next" => (<<m, vol>> \in reg \/ \E r \in pend : r.op = "hb" /\ r.m = m /\ r.vol = vol)
  /\ op = "hb" => v = MaxUsed(vol)
  /\ pend' = pend \cup {[p |-> p, op |-> op, m |-> m, vol |-> vol, cnt |-> cnt, v |-> v]}
  /\ UNCHANGED <<kind, given, inuse, reg, gen, smax, vgiven, vreg>>
(* Ret(p, lo, adm(_,_,_,_)): adm is the admission predicate for an assignment *)
RetWith(p, lo, adm(_, _, _, _)) ==
  \E r \in Pending(p) :
    /\ pend' = pend \ {r}
    /\ CASE r.op = "next" -> /\ adm(r.m, r.vol, r.cnt, lo) /\ GiveEff(r.m, r.vol, r.cnt, lo)
                             /\ UNCHANGED <<kind, inuse, reg, gen, smax, vgiven, vreg>>
         [] r.op = "hb" -> HbEff(r.m, r.vol, r.v) /\ UNCHANGED <<kind, given, inuse, gen, vgiven, vreg>>
         [] OTHER -> SetMaxEff(r.m, r.v) /\ UNCHANGED <<kind, given, inuse, reg, gen, vgiven, vreg>>

(* an assignment request that the master refused (an error instead of a key range): nothing was handed out *)
RetRefused(p) == \E r \in Pending(p) : /\ r.op = "next" /\ pend' = pend \ {r}
                                        /\ UNCHANGED <<kind, given, inuse, reg, gen, smax, vgiven, vreg>>

(* ------------- generator / model-checking view of layer A alone ------------- *)
Log(op) == hist' = Append(hist, op)
Init == /\ kind = "any" /\ given = {} /\ inuse \in SUBSET {<<v, 2>> : v \in Vols} /\ reg = {}
        /\ gen = [m \in Masters |-> 0] /\ smax = [m \in Masters |-> 0]
        /\ vgiven = {} /\ vreg = {} /\ pend = {} /\ hist = <<>>
GenNext ==
  /\ Len(hist) < MaxOps
  /\ \/ \E m \in Masters, vol \in Vols, n \in 1..2, lo \in 0..MaxKey :
          Assign(m, vol, n, lo) /\ Log([ev |-> "next", m |-> m, vol |-> vol, n |-> n, lo |-> lo])
     \/ \E vol \in Vols, k \in 0..MaxKey : Write(vol, k) /\ Log([ev |-> "write", vol |-> vol, k |-> k])
     \/ \E m \in Masters, vol \in Vols : Hb(m, vol, MaxUsed(vol)) /\ Log([ev |-> "hb", m |-> m, vol |-> vol])
     \/ \E m \in Masters, f \in BOOLEAN : Leader(m, f) /\ Log([ev |-> "leader", m |-> m, fresh |-> f])
     \/ \E m \in Masters, id \in 1..3 : NextVid(m, id) /\ Log([ev |-> "nextvid", m |-> m, id |-> id])
     \/ \E m \in Masters, id \in 1..3 : VolReg(m, id) /\ Log([ev |-> "volreg", m |-> m, id |-> id])
Spec == Init /\ [][GenNext]_vars

(* the statement at design level *)
RangesDisjoint == \A g, h \in given : (g # h /\ g.vol = h.vol) => ~Overlap(g.lo, g.n, h.lo, h.n)
NeverAKeyInUse == [][\A g \in given' \ given : \A k \in UsedIn(g.vol) : ~InRange(k, g.lo, g.n)]_vars
OnlyRegistered == [][\A g \in given' \ given : <<g.obj[1], g.vol>> \in reg]_vars
VidsFresh == [][\A id \in vgiven' \ vgiven : id \notin vgiven]_vars
WritesAreGiven == \A u \in inuse : u[2] = 2 \/ \E g \in given : g.vol = u[1] /\ InRange(u[2], g.lo, g.n)
=============================================================================
