----------------------------- MODULE S3AuthTrace -----------------------------
(* Judge for C26: one "req" event per S3 request sent to the real gateway (with what
   reached the filer), one "sreq" event per streaming-signed upload (with the object found
   afterwards), one "pol" event per policy document given to the real iamapi.GetActions.
   Those are independent of each other (the driver restores the namespace after every
   change). IAM executions carry state: "iamop" = one call of the real IAM API (with the
   identities stored afterwards), "ireq" = a real S3 request signed with a key the IAM API
   made; named / live are re-initialised by every reset line. *)
EXTENDS S3Auth, TraceKit
tvars == <<vars, kitvars>>
TraceInit == Init /\ KitInit
TraceReset == IsReset /\ named' = NamedInit /\ live' = LiveInit /\ UNCHANGED hist
TraceSkip == SkipStep /\ UNCHANGED vars
TReq == /\ IsEvent("req") /\ UNCHANGED vars
        /\ \/ Strict /\ (Reached(Ev) => Allowed(Ev))
           \/ Deviate("C26-authtype-bypass") /\ DevFormBypass(Ev)
           \/ Deviate("C26-postpolicy-no-authz") /\ DevPostPolicyNoAuthz(Ev)
TSReq == IsEvent("sreq") /\ UNCHANGED vars /\ Strict /\ (SReqOK(Ev) = TRUE)
TPol == IsEvent("pol") /\ UNCHANGED vars /\ Strict /\ PolicyOK(Ev.stmts, Ev.out)
TIam == /\ IsEvent("iamop") /\ UNCHANGED hist
        /\ \/ Strict /\ IamOp(Ev, FALSE)
           \/ Deviate("C26-putuserpolicy-accumulates") /\ (PutAccumulates(Ev) = TRUE) /\ IamOp(Ev, TRUE)
        /\ (IdsOKIn(Ev.ids, named') = TRUE)
TIReq == IsEvent("ireq") /\ UNCHANGED vars /\ Strict /\ (IReqOK(Ev) = TRUE)
TraceNext == TraceReset \/ TraceSkip \/ TReq \/ TSReq \/ TPol \/ TIam \/ TIReq
TraceSpec == TraceInit /\ [][TraceNext]_tvars
=============================================================================
