----------------------------- MODULE S3AuthTrace -----------------------------
(* Judge for C26: one "req" event per S3 request sent to the real gateway (with what
   reached the filer), one "pol" event per policy document given to the real
   iamapi.GetActions. Requests are independent (the driver restores the namespace
   after every change), so there is no abstract state to carry. *)
EXTENDS S3Auth, TraceKit
tvars == <<vars, kitvars>>
TraceInit == Init /\ KitInit
TraceReset == IsReset /\ UNCHANGED vars
TraceSkip == SkipStep /\ UNCHANGED vars
TReq == /\ IsEvent("req") /\ UNCHANGED vars
        /\ \/ Strict /\ (Reached(Ev) => Allowed(Ev))
           \/ Deviate("C26-authtype-bypass") /\ DevFormBypass(Ev)
           \/ Deviate("C26-postpolicy-no-authz") /\ DevPostPolicyNoAuthz(Ev)
TPol == IsEvent("pol") /\ UNCHANGED vars /\ Strict /\ PolicyOK(Ev.stmts, Ev.out)
TraceNext == TraceReset \/ TraceSkip \/ TReq \/ TPol
TraceSpec == TraceInit /\ [][TraceNext]_tvars
=============================================================================
