--------------------------- MODULE S3ObjectTrace ---------------------------
(* Judge for C28: requests recorded from the real S3 gateway (harness/cmd/c28).
   Every mutating event carries  after  (existing <<b, k>> over the key universe, by HEAD) and  zdirs  (the
   folders the filer holds below the buckets, <<b, path>>). *)
EXTENDS S3Object, TraceKit

TraceInit == Init /\ KitInit
TraceReset == IsReset /\ obj' = Empty /\ ups' = Empty /\ folders' = {} /\ hist' = <<>>
TraceSkip == SkipStep /\ UNCHANGED vars

Aft == ToSet(Ev.after)
Obs == folders' = ToSet(Ev.zdirs) /\ UNCHANGED hist
NoObs == UNCHANGED <<folders, hist>>

KFFolder == "C28-write-onto-folder-lands-inside"
KFSubtree == "C28-delete-removes-subtree"
KFInline == "C28-inline-parts-dropped"
KFParent == "C28-batch-delete-removes-parent-object"

TPut == /\ IsEvent("put") /\ Obs
        /\ \/ Strict /\ Put(Ev.b, Ev.k, Ev.seg, Ev.status, Aft)
           \/ Deviate(KFFolder) /\ PutOntoFolder(Ev.b, Ev.k, Ev.seg, Ev.status, Aft)
TCopy == /\ IsEvent("copy") /\ Obs
         /\ \/ Strict /\ Copy(Ev.sb, Ev.sk, Ev.b, Ev.k, Ev.status, Aft)
            \/ Deviate(KFFolder) /\ CopyOntoFolder(Ev.sb, Ev.sk, Ev.b, Ev.k, Ev.status, Aft)
TGet == /\ IsEvent("get") /\ Strict /\ NoObs
        /\ Get(Ev.b, Ev.k, [status |-> Ev.status, content |-> Ev.content, size |-> Ev.size, rr |-> Ev.rr])
TDel == /\ IsEvent("del") /\ Obs
        /\ \/ Strict /\ Delete(Ev.b, Ev.k, Ev.status, Aft)
           \/ Deviate(KFSubtree) /\ DeleteSubtree(Ev.b, Ev.k, Ev.status, Aft)
TBDel == /\ IsEvent("bdel") /\ Obs
         /\ \/ Strict /\ BatchDelete(Ev.b, ToSet(Ev.keys), Ev.status, ToSet(Ev.errors), Aft)
            \/ Deviate(KFParent) /\ BatchDeleteParent(Ev.b, ToSet(Ev.keys), Ev.status, Aft)
TInit == IsEvent("init") /\ Strict /\ Obs /\ Initiate(Ev.u, Ev.b, Ev.k, Ev.status, Aft)
TPart == IsEvent("part") /\ Strict /\ Obs /\ UploadPart(Ev.u, Ev.n, Ev.seg, Ev.status, Aft)
TPCopy == IsEvent("pcopy") /\ Strict /\ Obs /\ UploadPartCopy(Ev.u, Ev.n, Ev.sb, Ev.sk, Ev.lo, Ev.hi, Ev.status, Aft)
TComplete == /\ IsEvent("complete") /\ Obs
             /\ \/ Strict /\ Complete(Ev.u, ToSet(Ev.parts), Ev.status, Aft)
                \/ Deviate(KFInline) /\ CompleteInline(Ev.u, Ev.status, Aft)
TAbort == IsEvent("abort") /\ Strict /\ Obs /\ Abort(Ev.u, Ev.status, Aft)
TDump == IsEvent("dump") /\ Strict /\ NoObs /\ Dump(ToSet(Ev.objs))

TraceNext == TraceReset \/ TraceSkip \/ TPut \/ TCopy \/ TGet \/ TDel \/ TBDel \/ TInit \/ TPart \/ TPCopy
             \/ TComplete \/ TAbort \/ TDump
TraceSpec == TraceInit /\ [][TraceNext]_<<vars, kitvars>>
=============================================================================
