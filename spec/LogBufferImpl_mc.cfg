SPECIFICATION Spec
VIEW MCView
INVARIANT TypeOK
INVARIANT Safety
INVARIANT CaughtUp
INVARIANT NoPanic
INVARIANT DiskIsLogPrefix
CHECK_DEADLOCK FALSE
