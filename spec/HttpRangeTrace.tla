--------------------------- MODULE HttpRangeTrace ---------------------------
(* judge for C32: every recorded answer of the real volume server must be one the
   definition in HttpRange admits (or one of the named, open deviations). *)
EXTENDS HttpRange, TraceKit
tvars == <<vars, kitvars>>
TraceInit == GenInit /\ KitInit
(* reset: the blob of this execution (decoded content, stored compressed or not) *)
TraceReset == /\ IsReset
              /\ content' = Ev.content /\ gzs' = Ev.gz
              /\ hasrep' = FALSE /\ rep' = <<>>
              /\ UNCHANGED <<cur, hist>>
TraceSkip == SkipStep /\ UNCHANGED vars
(* ref: the upload was acknowledged and, if the server hands out a gzip representation to an
   accepting client, that representation decodes to the content *)
TRef == /\ IsEvent("ref") /\ Strict
        /\ Ev.up \in {201, 204}
        /\ Ev.hasrep => Ev.repdec = content
        /\ hasrep' = Ev.hasrep /\ rep' = Ev.rep
        /\ UNCHANGED <<content, gzs, cur, hist>>
(* get: strictly admitted, or explained by open known findings.  Two kinds of deviation can meet
   in one answer: "C32-gzip-q0" (Accept-Encoding: gzip;q=0 is treated as accepting gzip) and one of
   the range deviations; used records exactly the ones that were needed. *)
RangeDevs == {"C32-empty-206", "C32-416-partly-satisfiable"}
TGet == /\ IsEvent("get")
        /\ \E q \in BOOLEAN, d \in {"strict"} \cup (RangeDevs \cap KF) :
             LET acc == Accepts(Ev.af) \/ q IN
             /\ q => "C32-gzip-q0" \in KF /\ Ev.af = "q0" /\ UseGz(Ev.res)
             /\ CASE d = "strict" -> Admitted(content, hasrep, rep, Ev.h, acc, Ev.res)
                  [] d = "C32-empty-206" -> DevEmpty206(content, hasrep, rep, Ev.h, acc, Ev.res)
                  [] d = "C32-416-partly-satisfiable" -> Dev416(content, hasrep, rep, Ev.h, acc, Ev.res)
             /\ used' = used \cup (IF q THEN {"C32-gzip-q0"} ELSE {}) \cup (IF d = "strict" THEN {} ELSE {d})
        /\ UNCHANGED vars
TraceNext == TraceReset \/ TraceSkip \/ TRef \/ TGet
TraceSpec == TraceInit /\ [][TraceNext]_tvars
=============================================================================
