--------------------------- MODULE HttpRangeTrace ---------------------------
(* judge for C32: every recorded answer of the real volume server must be one the
   definition in HttpRange admits (or one of the named, open deviations). *)
EXTENDS HttpRange, TraceKit
tvars == <<vars, kitvars>>
TraceInit == GenInit /\ KitInit
(* reset: the blob of this execution (decoded content, stored compressed or not) *)
TraceReset == /\ IsReset
              /\ content' = Ev.content /\ gzs' = Ev.gz
              /\ hasrep' = FALSE /\ rep' = <<>>
              /\ UNCHANGED <<cur, hist>>
TraceSkip == SkipStep /\ UNCHANGED vars
(* ref: the upload was acknowledged and, if the server hands out a gzip representation to an
   accepting client, that representation decodes to the content *)
TRef == /\ IsEvent("ref") /\ Strict
        /\ Ev.up \in {201, 204}
        /\ Ev.hasrep => Ev.repdec = content
        /\ hasrep' = Ev.hasrep /\ rep' = Ev.rep
        /\ UNCHANGED <<content, gzs, cur, hist>>
TGet == /\ IsEvent("get")
        /\ \/ Strict /\ Get(Ev.h, Ev.acc, Ev.res)
           \/ Deviate("C32-empty-206") /\ DevEmpty206(content, hasrep, rep, Ev.h, Ev.acc, Ev.res)
           \/ Deviate("C32-416-partly-satisfiable") /\ Dev416(content, hasrep, rep, Ev.h, Ev.acc, Ev.res)
        /\ UNCHANGED vars
TraceNext == TraceReset \/ TraceSkip \/ TRef \/ TGet
TraceSpec == TraceInit /\ [][TraceNext]_tvars
=============================================================================
