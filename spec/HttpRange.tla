----------------------------- MODULE HttpRange -----------------------------
(* C32 - what a volume server may answer to a GET that carries a Range header.

   content   the stored blob (decoded), a sequence of small integers (bytes)
   rep       the gzip-encoded representation of the blob as the server hands it
             out to a client that accepts gzip (observed once by a complete GET;
             the codec itself is trusted), hasrep = such a representation exists
   request   h = [mal |-> class, specs |-> <<[k |-> "ab"|"a-"|"-n", a |-> n, b |-> n]>>, ows |-> bool]
             the driver sends exactly this value as header text:
               mal = ""        "bytes=" specs joined by ","   ("a-b", "a-", "-a")
               mal = "absent"  no Range header at all
               otherwise       a malformed header of that class ("bytes=", "x-y", no unit ...)
             af = the Accept-Encoding header the driver sends: "none" (no header), "gzip",
                  "list" ("deflate, gzip;q=0.8"), "star" ("*"), "identity", "q0" ("gzip;q=0")
   response  [st, ce, mp, parts |-> <<[s, e, t, b]>>, body, gz, err]
             ce     Content-Encoding header
             mp     the answer was multipart/byteranges
             parts  of a 206: Content-Range numbers "bytes s-e/t" and the bytes of each part
             body   of a 200 (decoded by the driver if it came gzip-encoded: gz = TRUE)
             err    the body could not be read / decoded / did not match Content-Length

   RFC 7233: the ranges refer to the selected representation.  If the answer says
   Content-Encoding: gzip, that representation is rep (L = Len(rep)); otherwise it is the
   decoded content.  The statement admits exactly: 206 with exactly the requested
   bytes (multipart for several ranges), 416 when nothing is satisfiable, 200 with
   the complete content; gzip only if accepted. *)
EXTENDS Integers, Sequences, FiniteSets, TLC, Json
CONSTANTS MaxLen,   \* model checking / generation: contents of length 0..MaxLen
          Grid,     \* Grid[n] = numbers 0..Grid[n] are used in generated headers of n ranges (-1: none)
          GenAcc,   \* Accept-Encoding forms used by the generator
          MaxOps
VARIABLES content, gzs, hasrep, rep, cur, hist
vars == <<content, gzs, hasrep, rep, cur, hist>>

Min(a, b) == IF a < b THEN a ELSE b
Max(a, b) == IF a > b THEN a ELSE b
Idx(s) == 1..Len(s)

(* ---------------- the request ---------------- *)
Absent(h) == h.mal = "absent"
SpecValid(sp) == sp.k = "ab" => sp.a <= sp.b
Malformed(h) == h.mal \notin {"", "absent"} \/ (h.mal = "" /\ (h.specs = <<>> \/ \E i \in Idx(h.specs) : ~SpecValid(h.specs[i])))
(* RFC 7233 2.1: satisfiable = a first-byte-pos below the length, or a non-zero suffix length *)
Sat(sp, L) == \/ sp.k \in {"ab", "a-"} /\ sp.a < L
              \/ sp.k = "-n" /\ sp.a > 0 /\ L > 0
First(sp, L) == IF sp.k = "-n" THEN Max(0, L - sp.a) ELSE sp.a
Last(sp, L) == IF sp.k = "ab" THEN Min(sp.b, L - 1) ELSE L - 1
Positions(sp, L) == First(sp, L)..Last(sp, L)
SatIdx(h, L) == {i \in Idx(h.specs) : Sat(h.specs[i], L)}
Wanted(h, L) == UNION {Positions(h.specs[i], L) : i \in SatIdx(h, L)}
(* a suffix range on an empty representation: "satisfiable" by the letter of the RFC
   although there is not a single byte to send - every answer that carries no bytes is admitted *)
EmptyQuirk(h, L) == L = 0 /\ \E i \in Idx(h.specs) : h.specs[i].k = "-n" /\ h.specs[i].a > 0

(* RFC 7231 5.3.4: does the client accept a gzip-coded answer *)
AccForms == {"none", "gzip", "list", "star", "identity", "q0"}
Accepts(af) == af \in {"gzip", "list", "star"}

(* ---------------- the response ---------------- *)
UseGz(res) == res.ce = "gzip"
Rep(c, r, res) == IF UseGz(res) THEN r ELSE c
EncodingOk(hr, acc, res) == res.ce \in {"", "gzip"} /\ (UseGz(res) => acc /\ hr)

Full200(c, res) == res.st = 200 /\ res.body = c /\ (res.gz <=> UseGz(res))

Unsat416(h, L, res) == /\ res.st = 416
                       /\ ~Absent(h)
                       /\ Malformed(h) \/ SatIdx(h, L) = {}

PartOk(R, p) == /\ 0 <= p.s /\ p.s <= p.e /\ p.e < Len(R)
                /\ p.t = Len(R)
                /\ p.b = SubSeq(R, p.s + 1, p.e + 1)
Shape(h, res) == /\ Len(res.parts) >= 1
                 /\ Len(h.specs) = 1 => ~res.mp
                 /\ Len(res.parts) >= 2 => res.mp
                 /\ ~res.mp => Len(res.parts) = 1
Partial206(h, R, res) ==
  /\ res.st = 206 /\ ~Absent(h) /\ ~Malformed(h)
  /\ Shape(h, res)
  /\ \/ /\ SatIdx(h, Len(R)) # {}
        /\ \A i \in Idx(res.parts) : PartOk(R, res.parts[i])
        /\ UNION {res.parts[i].s..res.parts[i].e : i \in Idx(res.parts)} = Wanted(h, Len(R))
     \/ /\ EmptyQuirk(h, Len(R))
        /\ \A i \in Idx(res.parts) : res.parts[i].b = <<>>

Admitted(c, hr, r, h, acc, res) ==
  LET R == Rep(c, r, res) IN
  /\ ~res.err
  /\ EncodingOk(hr, acc, res)
  /\ \/ Full200(c, res)
     \/ Partial206(h, R, res)
     \/ Unsat416(h, Len(R), res)

(* ---------------- known deviations of weed/server (named, as narrow as the defect) ----------------
   The server's parser (volume_server_handlers_helper.go parseRange) accepts a spec whose first
   byte position EQUALS the length and resolves it, "-0" and every range on an empty
   representation to a range of length 0. *)
CodeAccepts(h, L) == /\ h.mal = "" /\ h.specs # <<>>
                     /\ \A i \in Idx(h.specs) : SpecValid(h.specs[i]) /\ (h.specs[i].k \in {"ab", "a-"} => h.specs[i].a <= L)
CodePart(R, sp) == LET L == Len(R)
                       s == IF sp.k = "-n" THEN L - Min(sp.a, L) ELSE sp.a
                       e == IF sp.k = "ab" THEN Min(sp.b, L - 1) ELSE L - 1
                   IN [s |-> s, e |-> e, t |-> L, b |-> SubSeq(R, s + 1, e + 1)]
CodeParts(h, R) == [i \in Idx(h.specs) |-> CodePart(R, h.specs[i])]
CodeSum(h, R) == LET P == CodeParts(h, R)
                     RECURSIVE Sum(_)
                     Sum(i) == IF i = 0 THEN 0 ELSE Sum(i - 1) + (P[i].e - P[i].s + 1)
                 IN Sum(Len(P))
(* C32-empty-206: a range starting at the very end (or any range of an empty blob) is answered
   206 with an empty part "bytes L-(L-1)/L" instead of 416 *)
DevEmpty206(c, hr, r, h, acc, res) ==
  LET R == Rep(c, r, res) IN
  /\ ~res.err /\ EncodingOk(hr, acc, res)
  /\ res.st = 206 /\ CodeAccepts(h, Len(R)) /\ CodeSum(h, R) <= Len(R) /\ ~EmptyQuirk(h, Len(R))
  /\ res.parts = CodeParts(h, R)
  /\ res.mp = (Len(h.specs) > 1)
  /\ \E i \in Idx(res.parts) : res.parts[i].b = <<>>
(* C32-416-partly-satisfiable: one range starts beyond the end => 416 although another
   range of the same header is satisfiable *)
Dev416(c, hr, r, h, acc, res) ==
  LET L == Len(Rep(c, r, res)) IN
  /\ ~res.err /\ EncodingOk(hr, acc, res)
  /\ res.st = 416 /\ h.mal = "" /\ ~Malformed(h) /\ SatIdx(h, L) # {}
  /\ \E i \in Idx(h.specs) : h.specs[i].k \in {"ab", "a-"} /\ h.specs[i].a > L

(* ---------------- actions (used by the judge) ---------------- *)
Get(h, af, res) == Admitted(content, hasrep, rep, h, Accepts(af), res) /\ UNCHANGED <<content, gzs, hasrep, rep>>

(* ---------------- generator / model-checking view ---------------- *)
Bytes(L) == [i \in 1..L |-> 10 + i]
(* an uninterpreted stand-in for the encoder (model checking only): some other sequence *)
FakeEnc(c) == <<31, 139>> \o [i \in 1..Len(c) |-> c[Len(c) + 1 - i] + 100] \o <<0>>
Specs(g) == {[k |-> "ab", a |-> a, b |-> b] : a \in 0..g, b \in 0..g}
              \cup {[k |-> "a-", a |-> a, b |-> 0] : a \in 0..g}
              \cup {[k |-> "-n", a |-> a, b |-> 0] : a \in 0..g}
MalClasses == {"absent", "empty", "comma", "nounit", "badunit", "alpha", "nodash", "neg", "onlydash", "float"}
SeqsOf(S, n) == [1..n -> S]
Headers == {[mal |-> m, specs |-> <<>>, ows |-> FALSE] : m \in (IF Grid[1] >= 0 THEN MalClasses ELSE {})}
             \cup {[mal |-> "", specs |-> s, ows |-> FALSE] : s \in UNION {SeqsOf(Specs(Grid[n]), n) : n \in DOMAIN Grid}}
None == [mal |-> "none"]

Init == /\ content \in {Bytes(L) : L \in 0..MaxLen}
        /\ gzs \in BOOLEAN
        /\ hasrep = gzs
        /\ rep = IF gzs THEN FakeEnc(content) ELSE <<>>
        /\ cur = None /\ hist = <<>>
GenNext == /\ Len(hist) < MaxOps
           /\ \E h \in Headers, af \in GenAcc :
                /\ cur' = [h |-> h, af |-> af]
                /\ hist' = Append(hist, [ev |-> "get", h |-> h, af |-> af])
           /\ UNCHANGED <<content, gzs, hasrep, rep>>
Spec == Init /\ [][GenNext]_vars

(* requests only (contents are chosen by the orchestration): one initial state *)
GenInit == content = <<>> /\ gzs = FALSE /\ hasrep = FALSE /\ rep = <<>> /\ cur = None /\ hist = <<>>
GenSpec == GenInit /\ [][GenNext]_vars
Emit == Len(hist) < MaxOps \/ PrintT(<<"W", ToJson(hist)>>)

(* ---------------- design-level sanity of the definition (model-checked) ---------------- *)
NoRes == [st |-> 0, ce |-> "", mp |-> FALSE, parts |-> <<>>, body |-> <<>>, gz |-> FALSE, err |-> FALSE]
R200(c, gzip) == [NoRes EXCEPT !.st = 200, !.body = c, !.gz = gzip, !.ce = IF gzip THEN "gzip" ELSE ""]
R416(gzip) == [NoRes EXCEPT !.st = 416, !.ce = IF gzip THEN "gzip" ELSE ""]
Part(R, s, e) == [s |-> s, e |-> e, t |-> Len(R), b |-> IF 0 <= s /\ s <= e + 1 /\ e < Len(R) THEN SubSeq(R, s + 1, e + 1) ELSE <<>>]
R206(ps, mp, gzip) == [NoRes EXCEPT !.st = 206, !.parts = ps, !.mp = mp, !.ce = IF gzip THEN "gzip" ELSE ""]
SetToSeq(S) == LET RECURSIVE F(_)
                   F(T) == IF T = {} THEN <<>> ELSE LET m == CHOOSE x \in T : \A y \in T : x <= y IN <<m>> \o F(T \ {m})
               IN F(S)
(* a by-the-book server: 200 without Range, 416 for malformed / nothing satisfiable, else
   206 with one part per satisfiable range in request order *)
Ideal(c, r, h, gzip) ==
  LET R == IF gzip THEN r ELSE c
      L == Len(R)
      idx == SetToSeq(SatIdx(h, L)) IN
  IF Absent(h) THEN R200(c, gzip)
  ELSE IF Malformed(h) \/ SatIdx(h, L) = {} THEN R416(gzip)
  ELSE R206([j \in Idx(idx) |-> Part(R, First(h.specs[idx[j]], L), Last(h.specs[idx[j]], L))], Len(h.specs) > 1, gzip)
(* a server that ignores Range *)
Ignoring(c, gzip) == R200(c, gzip)

(* wrong answers that must never be admitted: a family of near misses around the request *)
NearMisses(c, r, h, gzip) ==
  LET R == IF gzip THEN r ELSE c
      L == Len(R) IN
  {R206(<<Part(R, s, e)>>, FALSE, gzip) : s \in -1..(L + 1), e \in -1..(L + 1)}
    \cup {R200(b, gzip) : b \in {<<>>, R, c, IF c = <<>> THEN <<1>> ELSE Tail(c)}}
    \cup {R416(gzip)}
    \cup {[R206(<<Part(R, 0, 0)>>, FALSE, gzip) EXCEPT !.parts[1].b = <<99>>]}
    \cup {[R200(c, gzip) EXCEPT !.err = TRUE]}
Adm(res) == Admitted(content, hasrep, rep, cur.h, Accepts(cur.af), res)
Requested(sp, L, p) == CASE sp.k = "ab" -> sp.a <= p /\ p <= sp.b
                         [] sp.k = "a-" -> sp.a <= p
                         [] sp.k = "-n" -> L - sp.a <= p
(* every request has an admitted answer; an ignoring server is always admitted *)
NonVacuous == cur = None \/ /\ Adm(Ideal(content, rep, cur.h, FALSE))
                            /\ Adm(Ignoring(content, FALSE))
                            /\ (Accepts(cur.af) /\ hasrep) => Adm(Ideal(content, rep, cur.h, TRUE)) /\ Adm(Ignoring(content, TRUE))
(* an admitted single-part 206 carries exactly the bytes at the positions it names, all of them
   requested by some range, and - for a single "a-b" request - exactly a..min(b, L-1) *)
ExactBytes == cur = None \/ \A gzip \in {FALSE} \cup (IF hasrep THEN {TRUE} ELSE {}) :
  \A res \in NearMisses(content, rep, cur.h, gzip) :
    (Adm(res) /\ res.st = 206 /\ ~EmptyQuirk(cur.h, Len(Rep(content, rep, res)))) =>
      LET R == Rep(content, rep, res)
          p == res.parts[1] IN
      /\ p.b # <<>> /\ Len(p.b) = p.e - p.s + 1
      /\ \A k \in Idx(p.b) : p.b[k] = R[p.s + k]
      /\ \A q \in p.s..p.e : \E i \in Idx(cur.h.specs) : Requested(cur.h.specs[i], Len(R), q)
      /\ (Len(cur.h.specs) = 1 /\ cur.h.specs[1].k = "ab") =>
            p.s = cur.h.specs[1].a /\ p.e = Min(cur.h.specs[1].b, Len(R) - 1)
Complete200 == cur = None \/ \A gzip \in BOOLEAN : \A res \in NearMisses(content, rep, cur.h, gzip) :
  (Adm(res) /\ res.st = 200) => res.body = content /\ ~res.err
GzipOnlyIfAccepted == cur = None \/ \A res \in NearMisses(content, rep, cur.h, TRUE) : Adm(res) => Accepts(cur.af) /\ hasrep /\ cur.af # "q0"
(* 416 only when no byte of the representation is requested by a well-formed header *)
Only416WhenNothing == cur = None \/ \A gzip \in BOOLEAN : \A res \in NearMisses(content, rep, cur.h, gzip) :
  (Adm(res) /\ res.st = 416) =>
     \/ Malformed(cur.h)
     \/ \A q \in 0..(Len(Rep(content, rep, res)) - 1) : \A i \in Idx(cur.h.specs) : ~Requested(cur.h.specs[i], Len(Rep(content, rep, res)), q)
(* the named deviations describe answers the strict definition rejects *)
DeviationsAreViolations == cur = None \/ \A gzip \in BOOLEAN :
  LET bad == {R206(CodeParts(cur.h, IF gzip THEN rep ELSE content), Len(cur.h.specs) > 1, gzip), R416(gzip)} IN
  \A res \in bad :
    (DevEmpty206(content, hasrep, rep, cur.h, Accepts(cur.af), res) \/ Dev416(content, hasrep, rep, cur.h, Accepts(cur.af), res)) => ~Adm(res)
=============================================================================
