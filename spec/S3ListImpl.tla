----------------------------- MODULE S3ListImpl -----------------------------
(* Layer B for C27: the gateway's listing procedure (weed/s3api/s3api_objects_list_handlers.go,
   listFilerEntries / doListFilerEntries) over the filer's directory tree, line by line:

     * the prefix is split at its last "/" into a directory D and a name prefix np; the marker is NOT made
       relative to D, and the NextMarker that comes back is relative to D
     * doList(D, np, maxKeys, marker): a marker containing "/" is taken as  <folder>/<rest>: the folder is listed
       first (recursively, with no name prefix), then D is listed after the name <folder>
     * (the items found in the marker's folder count towards this level's items - since the fix; see CountBug)
     * D is listed through the filer: the first maxKeys+1 entries whose name is > marker (exclusive) and starts
       with np. Entries that yield nothing still use up that limit: the .uploads folder, folders without any
       file when folders are rolled up and AllowEmptyFolder is off, folders whose recursion finds no file
     * truncated = an entry arrived after maxKeys items had been produced

   FS = files (keys), DS = folders (paths ending in "/"), both relative to the bucket. The model serves two ends:
   (1) the named deviations of the judge are "the page is exactly what this procedure yields, and one of the two
   known root causes applies" (HiddenMatters / MarkerUnsafe) - as narrow as a deviation can be; (2) model
   checking it against the page rule of S3List predicts the defects (ImplSpec, invariant ImplOK fails without the
   deviations and holds with them: no third root cause on the grid). *)
EXTENDS S3List

Slash == <<"/">>
FirstSlash(s) == IF \E i \in 1..Len(s) : s[i] = "/" THEN CHOOSE i \in 1..Len(s) : s[i] = "/" /\ \A j \in 1..(i - 1) : s[j] # "/" ELSE 0
LastSlash(s) == IF \E i \in 1..Len(s) : s[i] = "/" THEN CHOOSE i \in 1..Len(s) : s[i] = "/" /\ \A j \in (i + 1)..Len(s) : s[j] # "/" ELSE 0
NoSlash(s) == \A i \in 1..Len(s) : s[i] # "/"
Rest(k, D) == SubSeq(k, Len(D) + 1, Len(k))

(* names of the entries of folder D *)
FileNames(E, D) == {Rest(k, D) : k \in {k \in E.FS : StrictPrefixOf(D, k) /\ NoSlash(Rest(k, D))}}
DirNames(E, D) == {SubSeq(d, Len(D) + 1, Len(d) - 1) : d \in {d \in E.DS : StrictPrefixOf(D, d) /\ Len(d) > Len(D) + 1
                                                                  /\ NoSlash(SubSeq(d, Len(D) + 1, Len(d) - 1))}}
NoFileUnder(E, D) == ~\E k \in E.FS : HasPrefix(k, D)
(* an entry of D that produces no item *)
Hidden(E, D, n, dl) == /\ n \in DirNames(E, D)
                       /\ \/ n = Uploads
                          \/ dl # "/" /\ NoFileUnder(E, D \o n \o Slash)
                          \/ dl = "/" /\ ~E.allowEmpty /\ NoFileUnder(E, D \o n \o Slash)

NoRes == [out |-> <<>>, cnt |-> 0, trunc |-> FALSE, next |-> <<>>]

RECURSIVE DoList(_, _, _, _, _, _), Scan(_, _, _, _)
DoList(E, D, np, mk, M, dl) ==
  IF mk <= 0 THEN NoRes
  ELSE
    LET sl == FirstSlash(M)
        sub == IF sl > 0 THEN SubSeq(M, 1, sl - 1) ELSE <<>>
        r == IF sl > 0 THEN DoList(E, D \o sub \o Slash, <<>>, mk, SubSeq(M, sl + 1, Len(M)), dl) ELSE NoRes
        mk2 == IF E.cb THEN mk - r.cnt ELSE mk
        M2 == IF sl > 0 THEN sub ELSE M
        st0 == [out |-> r.out, cnt |-> IF E.cb THEN 0 ELSE r.cnt, trunc |-> r.trunc,
                next |-> IF sl > 0 THEN sub \o Slash \o r.next ELSE <<>>]
        names == {n \in FileNames(E, D) \cup DirNames(E, D) :
                     /\ HasPrefix(n, np) /\ (M2 = <<>> \/ Lt(M2, n))
                     /\ (E.hb \/ ~Hidden(E, D, n, dl))}
        ents == SetToSortSeq(names, Lt)
        lim == IF Len(ents) < mk2 + 1 THEN Len(ents) ELSE mk2 + 1
    IN Scan(E, [D |-> D, mk |-> mk2, dl |-> dl], SubSeq(ents, 1, lim), st0)

Scan(E, cx, s, st) ==
  IF s = <<>> THEN st
  ELSE IF st.cnt >= cx.mk THEN [st EXCEPT !.trunc = TRUE]
  ELSE
    LET n == Head(s)
        sub == cx.D \o n \o Slash IN
    IF n \notin DirNames(E, cx.D)
    THEN Scan(E, cx, Tail(s), [out |-> Append(st.out, [t |-> "k", v |-> cx.D \o n]), cnt |-> st.cnt + 1,
                               trunc |-> st.trunc, next |-> n])
    ELSE IF n = Uploads THEN Scan(E, cx, Tail(s), [st EXCEPT !.next = n])
    ELSE IF cx.dl # "/"
    THEN LET r == DoList(E, sub, <<>>, cx.mk - st.cnt, <<>>, cx.dl)
             st1 == [out |-> st.out \o r.out, cnt |-> st.cnt + r.cnt, trunc |-> st.trunc, next |-> n \o Slash \o r.next]
         IN IF r.trunc THEN [st1 EXCEPT !.trunc = TRUE] ELSE Scan(E, cx, Tail(s), st1)
    ELSE IF ~E.allowEmpty /\ NoFileUnder(E, sub)
    THEN Scan(E, cx, Tail(s), [st EXCEPT !.next = n])
    ELSE Scan(E, cx, Tail(s), [out |-> Append(st.out, [t |-> "p", v |-> sub]), cnt |-> st.cnt + 1,
                               trunc |-> st.trunc, next |-> n])

(* E.hb: hidden entries use up the filer limit (the code as it is); FALSE = they would not.
   E.cb: the items found below the marker's folder are taken off this level's budget but not reported in its own
   count, so two levels up they are not counted at all (the code before the fix "counter += subCounter"; then a
   continuation marker two folders deep gave pages with more than max-keys keys). FALSE for the judge. *)
CONSTANT CountBug
Env(FS, DS, ae, hb) == [FS |-> FS, DS |-> DS, allowEmpty |-> ae, hb |-> hb, cb |-> CountBug]
ImplPage(E, r, sent) ==
  LET ls == LastSlash(r.prefix)
      res == DoList(E, SubSeq(r.prefix, 1, ls), SubSeq(r.prefix, ls + 1, Len(r.prefix)), r.maxkeys, sent, r.delim)
  IN [status |-> 200, keys |-> Sel(res.out, "k"), cps |-> Sel(res.out, "p"), trunc |-> res.trunc,
      next |-> IF res.trunc THEN res.next ELSE <<>>]

---------------------------------------------------------------------------
(* the two known root causes *)
KFHidden == "C27-hidden-entry-ends-listing"
KFMarker == "C27-marker-taken-as-path"
HiddenMatters(FS, DS, ae, r, sent) == ImplPage(Env(FS, DS, ae, TRUE), r, sent) # ImplPage(Env(FS, DS, ae, FALSE), r, sent)
(* a marker / start-after chosen by the client (first page, or the last-key / start-after styles) that contains a
   "/", names a folder, or comes with a prefix that contains a "/"; or any continuation of a loop that already
   went wrong that way (the server's NextMarker then derives from the misread marker) *)
UnsafeMarker(DS, r, m) == m # <<>> /\ (~NoSlash(m) \/ m \o Slash \in DS \/ ~NoSlash(r.prefix))
MarkerUnsafe(DS, r, first, sent) ==
  \/ UnsafeMarker(DS, r, r.after)                                            \* the marker the loop started with
  \/ r.style \in {"lastkey", "startafter"} /\ UnsafeMarker(DS, r, sent)      \* a key sent back as marker
  \/ ~first /\ KFMarker \in devs
Needed(FS, DS, ae, r, first, sent) ==
  (IF HiddenMatters(FS, DS, ae, r, sent) THEN {KFHidden} ELSE {}) \cup
  (IF MarkerUnsafe(DS, r, first, sent) THEN {KFMarker} ELSE {})

(* the deviating page: exactly what the procedure yields, attributable to a known root cause *)
DevPage(r, first, sent, DS, resp, S) ==
  /\ first \/ InLoop(r, sent)
  /\ ~PageOK(r, IF first THEN {} ELSE seenK, IF first THEN {} ELSE seenP, DS, resp)   \* only a page the strict rule rejects
  /\ resp = ImplPage(Env(present, DS, allowEmpty, TRUE), r, sent)
  /\ S = Needed(present, DS, allowEmpty, r, first, sent)
  /\ S # {}
  /\ Apply(r, first, DS, resp)
  /\ devs' = (IF first THEN {} ELSE devs) \cup S
(* a loop that never ends: only the marker defect does that *)
EndlessLoop == phase = "loop" /\ KFMarker \in devs /\ phase' = "idle"
               /\ UNCHANGED <<present, dirs, allowEmpty, devs, req, seenK, seenP, prev, pageNo, okv>>

---------------------------------------------------------------------------
(* design level: the procedure as server, over every conflict-free small tree *)
CONSTANT BKF        \* deviations admitted in the model-checking run ({} predicts the defects)
Folders(B) == UNION {{SubSeq(k, 1, i) : i \in {i \in 1..Len(k) : k[i] = "/"}} : k \in B}
ConflictFree(B) == \A k1, k2 \in B : ~StrictPrefixOf(k1 \o Slash, k2) /\ ~(k2 = k1 \o Slash)
UplDirs == {Uploads \o Slash, Uploads \o Slash \o <<"u">> \o Slash}
IInit == /\ \E B \in {B \in SUBSET Keys : Cardinality(B) <= MaxBucket /\ ConflictFree(B)} : \E u \in BOOLEAN :
              /\ present = {k \in B : k[Len(k)] # "/"}
              /\ dirs = Folders(B) \cup (IF u THEN UplDirs ELSE {})
         /\ allowEmpty \in BOOLEAN /\ devs = {}
         /\ phase = "idle" /\ req = [style |-> "marker", prefix |-> <<>>, delim |-> "", maxkeys |-> 1, after |-> <<>>]
         /\ seenK = {} /\ seenP = {} /\ pageNo = 0 /\ okv = TRUE
         /\ prev = [status |-> 200, keys |-> <<>>, cps |-> <<>>, trunc |-> FALSE, next |-> <<>>]
         /\ hist = <<>>
(* empty folders are purged by a delimiter listing of a gateway without AllowEmptyFolder: not modelled (the
   folders of the model stay); the recorded pages carry the folders as they were before each page *)
IPage(r, first, sent) ==
  LET resp == ImplPage(Env(present, dirs, allowEmpty, TRUE), r, sent)
      S == Needed(present, dirs, allowEmpty, r, first, sent) IN
  /\ Apply(r, first, dirs, resp)
  /\ devs' = (IF first THEN {} ELSE devs) \cup (IF PageOK(r, IF first THEN {} ELSE seenK, IF first THEN {} ELSE seenP, dirs, resp) THEN {} ELSE S)
IBegin(r) == phase = "idle" /\ Len(hist) < MaxOps /\ hist' = Append(hist, r) /\ IPage(r, TRUE, r.after)
ICont == phase = "loop" /\ pageNo < 8 /\ NextAfter(req.style, prev) # <<>>
         /\ IPage(req, FALSE, NextAfter(req.style, prev)) /\ UNCHANGED hist
IEnd == EndLoop /\ UNCHANGED hist
INext == (\E r \in Reqs : IBegin(r)) \/ ICont \/ IEnd
ImplSpec == IInit /\ [][INext]_vars

(* every page of the procedure satisfies the page rule, or is attributed to admitted root causes *)
ImplOK == okv \/ (devs # {} /\ devs \subseteq BKF)
(* a loop that cannot be continued or does not end is attributed to the marker defect *)
ImplLoops == (phase = "loop" /\ (pageNo >= 8 \/ NextAfter(req.style, prev) = <<>>)) => (KFMarker \in devs /\ KFMarker \in BKF)
=============================================================================
