---------------------------- MODULE ReplBytesMC ----------------------------
(* Design level for ReplBytes.tla and generator of chunk layouts (C36): every list of up
   to MaxChunks chunks over the offsets Offs and lengths Lens, in every time order, with
   every size attribute of Sizes.  Invariants: the per-position reading (ContentOf, which
   the judge uses) and the operational reading (writes replayed in time order) agree; the
   content is as long as the larger of size attribute and extent; the squeezed rendering
   differs from the content exactly when the file has a hole.  Emit prints every layout
   (the executions are built from them). *)
EXTENDS ReplBytes, TLC, Json
CONSTANTS Offs, Lens, MaxChunks, Sizes
VARIABLES lay, sz
vars == <<lay, sz>>

Perms(n) == {f \in [1..n -> 1..n] : \A a, b \in 1..n : a # b => f[a] # f[b]}
Layouts == UNION {{[j \in 1..n |-> [off |-> g[j][1], len |-> g[j][2], k |-> j, ts |-> p[j], gz |-> FALSE, ci |-> FALSE]] :
                      g \in [1..n -> Offs \X Lens], p \in Perms(n)} : n \in 0..MaxChunks}
Init == lay \in Layouts /\ sz \in Sizes
Next == UNCHANGED vars
Spec == Init /\ [][Next]_vars

Agree == ContentOf(lay, sz) = Flat(Replay(lay, sz))
LengthOk == Len(Replay(lay, sz)) = SizeOf(lay, sz) /\ SizeOf(lay, sz) >= sz /\ SizeOf(lay, sz) >= Extent(lay)
SqueezeOk == (Squeezed(lay, sz) = ContentOf(lay, sz)) <=> ~HasHole(lay, sz)
LatestWins == \A j \in 1..Len(lay) : (\A m \in 1..Len(lay) : lay[m].ts <= lay[j].ts) =>
                 \A i \in lay[j].off..(lay[j].off + lay[j].len - 1) : ByteAt(lay, i) = ChunkByte(lay[j], i)
Emit == PrintT(<<"W", ToJson([lay |-> lay, sz |-> sz])>>)
=============================================================================
