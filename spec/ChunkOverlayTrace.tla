-------------------------- MODULE ChunkOverlayTrace --------------------------
(* judge for C17: executions recorded by harness/cmd/c17 from the real weed/filer
   functions.  Events (inputs first, then what the code returned):
     reset       list (entry list), payload (bytes per data chunk id), fsize
     append      list, payload, fsize         more chunks are added to the list
     view        off, size (-1 = to the end), res = ViewFromChunks as [id, coff, size, lo]
     readat      off, n, got (the n-byte buffer, prefilled with 170), nret, err
     stream      off, size, got, err          StreamContent output
     compact     kept, garbage                CompactFileChunks over the top-level data chunks
     manifestize batch, res                   (Verif)MaybeManifestize; res = new list as resolved
     nest        res                          the whole list packed into one manifest       *)
EXTENDS ChunkOverlay, TraceKit
tvars == <<vars, kitvars>>
Range(s) == {s[k] : k \in 1..Len(s)}
TraceInit == Init /\ KitInit
TraceReset == IsReset /\ top' = Ev.list /\ data' = Ev.payload /\ fsize' = Ev.fsize /\ UNCHANGED hist
TraceSkip == SkipStep /\ UNCHANGED vars
TAppend == IsEvent("append") /\ Strict /\ Append_(Ev.list, Ev.payload, Ev.fsize) /\ UNCHANGED hist
TView == IsEvent("view") /\ Strict /\ View(Ev.off, Ev.size, Ev.res) /\ UNCHANGED hist
TReadAt == IsEvent("readat") /\ Strict /\ ReadAt(Ev.off, Ev.n, Ev.got, Ev.nret, Ev.err) /\ UNCHANGED hist
TStream == /\ IsEvent("stream") /\ Ev.err = "" /\ UNCHANGED hist
           /\ \/ Strict /\ Stream(Ev.off, Ev.size, Ev.got)
              \/ Deviate("C17-stream-skips-holes") /\ StreamDev(Ev.off, Ev.size, Ev.got)
TCompact == IsEvent("compact") /\ Strict /\ Compact(Range(Ev.kept), Range(Ev.garbage)) /\ UNCHANGED hist
TManifestize == IsEvent("manifestize") /\ Strict /\ Ev.err = "" /\ Reorganize(Ev.res) /\ UNCHANGED hist
TNest == IsEvent("nest") /\ Strict /\ Ev.err = "" /\ Reorganize(Ev.res) /\ UNCHANGED hist
TraceNext == TraceReset \/ TraceSkip \/ TAppend \/ TView \/ TReadAt \/ TStream \/ TCompact \/ TManifestize \/ TNest
TraceSpec == TraceInit /\ [][TraceNext]_tvars
=============================================================================
