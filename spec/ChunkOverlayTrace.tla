-------------------------- MODULE ChunkOverlayTrace --------------------------
(* judge for C17: executions recorded by harness/cmd/c17 from the real weed/filer
   functions.  Events (inputs first, then what the code returned):
     reset       list (entry list), payload (bytes per data chunk id), fsize
     append      list, payload, fsize         more chunks are added to the list
     view        off, size (-1 = to the end), res = ViewFromChunks as [id, coff, size, lo]
     readat      off, n, got (the n-byte buffer, prefilled with 170), nret, err
     stream      off, size, got, err          StreamContent output
     compact     kept, garbage                CompactFileChunks over the top-level data chunks
     manifestize batch, res                   (Verif)MaybeManifestize; res = new list as resolved
     nest        res                          the whole list packed into one manifest
     readall     got, err                     filer.ReadAll (a MasterClient whose location cache the harness filled)
     sopen       via ("filer" | "master")     NewChunkStreamReader / NewChunkStreamReaderFromFiler over the list
     sseek       off, whence (0,1,2), res, err   ChunkStreamReader.Seek
     sread       n, got (the nret bytes handed out), nret, err   ChunkStreamReader.Read
     tsize       res                          TotalSize of the top-level list
     fsize       attr, res                    FileSize of an entry with that list and size attribute attr
     snap                                     the current list is remembered as the earlier version
     minus       dir (0: earlier minus current, 1: current minus earlier), res (ids), err   MinusChunks *)
EXTENDS ChunkOverlay, TraceKit
tvars == <<vars, kitvars>>
Range(s) == {s[k] : k \in 1..Len(s)}
TraceInit == Init /\ KitInit
TraceReset == IsReset /\ top' = Ev.list /\ data' = Ev.payload /\ fsize' = Ev.fsize /\ rd' = NoReader /\ old' = <<>>
              /\ UNCHANGED hist
TraceSkip == SkipStep /\ UNCHANGED vars
TAppend == IsEvent("append") /\ Strict /\ Append_(Ev.list, Ev.payload, Ev.fsize) /\ UNCHANGED hist
TView == IsEvent("view") /\ Strict /\ View(Ev.off, Ev.size, Ev.res) /\ UNCHANGED hist
TReadAt == IsEvent("readat") /\ Strict /\ ReadAt(Ev.off, Ev.n, Ev.got, Ev.nret, Ev.err) /\ UNCHANGED hist
TStream == /\ IsEvent("stream") /\ Ev.err = "" /\ UNCHANGED hist
           /\ \/ Strict /\ Stream(Ev.off, Ev.size, Ev.got)
              \/ Deviate("C17-stream-skips-holes") /\ StreamDev(Ev.off, Ev.size, Ev.got)
TCompact == IsEvent("compact") /\ Strict /\ Compact(Range(Ev.kept), Range(Ev.garbage)) /\ UNCHANGED hist
TManifestize == IsEvent("manifestize") /\ Strict /\ Ev.err = "" /\ Reorganize(Ev.res) /\ UNCHANGED hist
TNest == IsEvent("nest") /\ Strict /\ Ev.err = "" /\ Reorganize(Ev.res) /\ UNCHANGED hist
TReadAll == /\ IsEvent("readall") /\ Ev.err = "" /\ UNCHANGED hist
            /\ \/ Strict /\ Stream(0, -1, Ev.got)
               \/ Deviate("C17-stream-skips-holes") /\ StreamDev(0, -1, Ev.got)
TSOpen == IsEvent("sopen") /\ Strict /\ SOpen /\ UNCHANGED hist
TSSeek == IsEvent("sseek") /\ Strict /\ SSeek(Ev.off, Ev.whence, Ev.res, Ev.err) /\ UNCHANGED hist
TSRead == /\ IsEvent("sread") /\ UNCHANGED hist
          /\ \/ Strict /\ SRead(Ev.n, Ev.got, Ev.nret, Ev.err)
             \/ Deviate("C17-stream-skips-holes") /\ SReadDev(Ev.n, Ev.got, Ev.nret, Ev.err)
TTotalSize == IsEvent("tsize") /\ Strict /\ TotalSize_(Ev.res) /\ UNCHANGED hist
TFileSize == IsEvent("fsize") /\ Strict /\ FileSize_(Ev.attr, Ev.res) /\ UNCHANGED hist
TSnap == IsEvent("snap") /\ Strict /\ Snap /\ UNCHANGED hist
TMinus == IsEvent("minus") /\ Strict /\ Ev.err = "" /\ Minus(Ev.dir, Ev.res) /\ UNCHANGED hist
TraceNext == TraceReset \/ TraceSkip \/ TAppend \/ TView \/ TReadAt \/ TStream \/ TCompact \/ TManifestize \/ TNest
             \/ TReadAll \/ TSOpen \/ TSSeek \/ TSRead \/ TTotalSize \/ TFileSize \/ TSnap \/ TMinus
TraceSpec == TraceInit /\ [][TraceNext]_tvars
=============================================================================
