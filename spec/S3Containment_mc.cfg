SPECIFICATION Spec
INVARIANT EscNeedsDotDot
INVARIANT CleanSane
INVARIANT DefaultsInside
INVARIANT RefSatisfiable
INVARIANT BadRejected
CHECK_DEADLOCK FALSE
