SPECIFICATION Spec
INVARIANT EscNeedsDotDot
INVARIANT CleanSane
INVARIANT LiteralEscapeIsOrdinary
INVARIANT DefaultsInside
INVARIANT RefSatisfiable
INVARIANT BadRejected
CHECK_DEADLOCK FALSE
