SPECIFICATION BSpec
INVARIANT BEmitG
VIEW BView
CHECK_DEADLOCK FALSE
