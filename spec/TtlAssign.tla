------------------------------ MODULE TtlAssign ------------------------------
(* C09, second sentence of the statement: "A filer entry with a TTL stores its data in
   volumes whose TTL is at least the entry's TTL, so an entry that is still visible never
   points at expired data."

   Pure operators (no constants, no variables), EXTENDed by Ttl.tla (layer A of C09), by
   TtlAssignImpl.tla (the implementation-shaped model of the path
   seconds -> StorageOption.ToAssignRequests -> operation.Assign, model-checked and used as
   generator) and by TtlTrace.tla (the judge): the clause lives here and only here.

   An entry's TTL is a number of seconds (int32).  A volume's TTL is a count 1..255 of one
   of six units, or none; it is compared in minutes (the unit of needle.TTL.Minutes).
   Seconds go up to 2^31-1: never multiply minutes by 60, never add to a number of seconds
   without a guard (TLC's integers are 32 bit). *)
EXTENDS Integers, Sequences, FiniteSets

MaxSec == 2147483647
UnitNames == {"m", "h", "d", "w", "M", "y"}
UnitMin(u) == CASE u = "m" -> 1 [] u = "h" -> 60 [] u = "d" -> 1440 [] u = "w" -> 10080
                [] u = "M" -> 43200 [] u = "y" -> 525600
UnitSec(u) == CASE u = "m" -> 60 [] u = "h" -> 3600 [] u = "d" -> 86400 [] u = "w" -> 604800
                [] u = "M" -> 2592000 [] u = "y" -> 31536000
MaxCount == 255
(* the volume TTLs that exist, in minutes *)
Ladder == {c * UnitMin(u) : c \in 1..MaxCount, u \in UnitNames}
MaxTtlMin == MaxCount * UnitMin("y")

MinOf(S) == CHOOSE m \in S : \A k \in S : m <= k
CeilDiv(a, b) == a \div b + (IF a % b = 0 THEN 0 ELSE 1)
(* minutes needed to cover sec seconds: ceil(sec / 60), without overflow *)
Need(sec) == CeilDiv(sec, 60)

(* THE CLAUSE.  minutes = 0 means "no TTL": the volume never expires.
   An entry without TTL (the filer tests TtlSec > 0) is visible for ever, so its data may
   only live in a volume that never expires.  An entry with a TTL of sec seconds may live
   in a volume that never expires (nothing is lost; the space is not reclaimed by expiry -
   the statement does not forbid that) or in one whose TTL is not shorter than sec. *)
VolumeTtlFor(sec, minutes) ==
  IF sec <= 0 THEN minutes = 0
  ELSE minutes = 0 \/ minutes >= Need(sec)

(* a ttl string as it was recorded: ttlok = needle.ReadTTL accepts it.  A master refuses a
   request whose ttl does not parse (master_grpc_server_volume.go), so nothing is ever
   stored on behalf of such a request. *)
TtlOkFor(sec, r) == ~r.ttlok \/ VolumeTtlFor(sec, r.minutes)
ReqTtlFor(sec, r) == r.present => TtlOkFor(sec, r)

(* ---- the ladder at design level: what an ideal mapping would return ---- *)
CandMin(n, u) == LET c == CeilDiv(n, UnitMin(u)) IN IF c <= MaxCount THEN c * UnitMin(u) ELSE 0
(* least volume TTL of at least n minutes, 0 if there is none; n >= 1 *)
IdealMin(n) == LET S == {CandMin(n, u) : u \in UnitNames} \ {0} IN IF S = {} THEN 0 ELSE MinOf(S)
Ideal(sec) == IF sec <= 0 THEN 0 ELSE IdealMin(Need(sec))
(* the same by brute force over the ladder (cross-check of the formula on a probe set) *)
IdealBrute(n) == LET S == {m \in Ladder : m >= n} IN IF S = {} THEN 0 ELSE MinOf(S)

(* ---- seconds worth trying: every unit boundary an int32 can reach ---- *)
CountsOf(u) == LET top == (MaxSec - 61) \div UnitSec(u)
               IN {c \in {1, 2, 3, 254, 255, 256, 257, top - 1, top} : c >= 1 /\ c <= top}
Deltas == {-61, -59, -1, 0, 1, 59, 61}
BoundarySecs ==
  {0, 1, 2, 58, 59, MaxSec - 60, MaxSec - 59, MaxSec - 1, MaxSec} \cup
  {s \in UNION {UNION {{c * UnitSec(u) + d : d \in Deltas} : c \in CountsOf(u)} : u \in UnitNames} : s > 0}

(* ---- operation.Assign (layer A, as far as C09 needs it and the contract is obvious) ----
   R = the requests handed over (primary first; a record with present = FALSE stands for nil),
   A = the answers of the master in the order of arrival (kind "rpcerr": the call fails;
       otherwise a response with a count and a file id),
   S = the requests as they arrived at the master, res = what Assign returned.
   Requests are tried in order, nil ones skipped; the first answer with count > 0 ends the
   loop and is the result, without error; if no request succeeds an error is returned.
   Every request that arrives carries the ttl of the request it came from (collection, data
   center and rack identify the request), so the TTL survives the fallback to the alternate.
   The statement is silent about a call with nil requests only. *)
IsOk(a) == a.kind # "rpcerr" /\ a.count > 0
Present(R) == SelectSeq(R, LAMBDA r : r.present)
SameReq(a, b) == a.coll = b.coll /\ a.ttl = b.ttl /\ a.dc = b.dc /\ a.rack = b.rack
AssignA(R, A, S, res) ==
  LET K == Present(R)
      n == Len(K)
      I == {j \in 1..n : j <= Len(A) /\ IsOk(A[j])}
  IN IF n = 0 \/ Len(A) < n THEN TRUE
     ELSE IF I # {}
     THEN LET f == MinOf(I) IN
          /\ Len(S) = f /\ \A j \in 1..f : SameReq(S[j], K[j])
          /\ ~res.err /\ res.fid = A[f].fid /\ res.count = A[f].count
     ELSE /\ Len(S) = n /\ \A j \in 1..n : SameReq(S[j], K[j])
          /\ res.err
=============================================================================
