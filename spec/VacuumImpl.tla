---------------------------- MODULE VacuumImpl ----------------------------
(* C14 - layer B: weed/topology/topology_vacuum.go transcribed for ONE volume (V) with
   n replicas, the layer-A state (VacuumRound) carried as ghost.

   vacuumOneVolumeLayout          MStart .. "done"
   batchVacuumVolumeCheck         one goroutine per replica (RPC, then `ch <- index | -1`,
                                  errCount++ on error); the master loop receives n values or
                                  gives up when the timer fires (returns needVacuum = false)
   batchVacuumVolumeCompact       removeFromWritable FIRST, then one goroutine per replica of
                                  the vacuum list (`ch <- ok`); the master loop receives
                                  len(list) values (all must be true) or the timer fires (false)
   batchVacuumVolumeCommit        sequential RPCs, no timer; only if every commit succeeded:
                                  SetVolumeAvailable per replica (writable again iff no replica
                                  answered read-only and the copy count is right; the size
                                  limit is NOT consulted there)
   batchVacuumVolumeCleanup       sequential RPCs, no timer; errors only logged.
                                  Fixed = TRUE: afterwards EnsureCorrectWritables(vid) (the
                                  fix: commit); Fixed = FALSE: nothing (the pinned code, S19).

   RPC life cycle per replica and operation: idle -> sent (the goroutine / master issued it)
   -> serving (arrived: layer-A Call; the outcome is chosen here, lazily, and noted in
   `script`) -> replied (layer-A Ret; never for outcome "timeout") -> consumed (check and
   compact answers are consumed by their goroutine in the same step).
   Timers: with SlowReplies a timer may fire at any moment of the wait loop (Go's select
   is free to prefer it once it is due, and "due" is wall-clock); without, it fires only
   when nothing else can happen and some RPC of the phase hangs - the schedule of a
   scripted run on the real code, which is how this module is used as the GENERATOR of
   scripts (Emit prints `script` at the end of the round: only RPCs that were issued carry
   an outcome, the others stay "na").  *)
EXTENDS VacuumRound
CONSTANTS Ns,            \* replica counts explored
          Kinds,         \* pre-states explored: "normal", "big", "under", "ro"
          SlowReplies, CommitMayHang, Fixed,
          Rounds,        \* Vacuum is called up to Rounds times on the same topology
          KFB            \* deviation ids admitted by PostOK
VARIABLES n, kind, enough, isbig, isro,
          writable,      \* V is in the layout's writable list
          pc, st, script, ch, errCount, got, vlist, allOk, i, isRO, commitOk,
          bad,           \* ghost: a Call violated rule (1)
          round
bvars == <<n, kind, enough, isbig, isro, writable, pc, st, script, ch, errCount, got, vlist, allOk, i, isRO, commitOk, bad, round>>
vars == <<avars, bvars>>

V == 1
Live == 1..n
NaRec == [check |-> "na", compact |-> "na", commit |-> "na", cleanup |-> "na"]
IdleRec == [check |-> "idle", compact |-> "idle", commit |-> "idle", cleanup |-> "idle"]
BOuts(op) == CASE op = "check" -> {"hi", "lo", "err", "timeout"}
               [] op = "compact" -> {"ok", "err", "timeout"}
               [] op = "commit" -> {"ok", "ro", "err"} \cup (IF CommitMayHang THEN {"timeout"} ELSE {})
               [] op = "cleanup" -> {"ok", "err"} \cup (IF CommitMayHang THEN {"timeout"} ELSE {})
SeqRange(s) == {s[k] : k \in DOMAIN s}
Ins(s, x) == SelectSeq(s, LAMBDA y : y <= x) \o <<x>> \o SelectSeq(s, LAMBDA y : y > x)
RemoveAt(s, k) == SubSeq(s, 1, k - 1) \o SubSeq(s, k + 1, Len(s))

BInitWith(nn, k, en, big, ro) ==
  /\ n = nn /\ kind = k /\ enough = en /\ isbig = big /\ isro = ro
  /\ writable = (en /\ ~big /\ ~ro)
  /\ pc = "start"
  /\ st = [r \in Reps |-> IdleRec]
  /\ script = [r \in Reps |-> NaRec]
  /\ ch = <<>> /\ errCount = 0 /\ got = 0 /\ vlist = <<>> /\ allOk = TRUE /\ i = 1
  /\ isRO = FALSE /\ commitOk = TRUE /\ bad = FALSE /\ round = 1
  /\ shadow = Const(Vols, Const(Reps, "none"))
  /\ live = Const(Vols, Const(Reps, "C"))
  /\ open = {}
  /\ wBefore = [v \in Vols |-> IF v = V THEN (en /\ ~big /\ ~ro) ELSE en]
  /\ bigVols = IF big THEN {V} ELSE {}
  /\ roSeen = Const(Vols, FALSE) /\ shrunk = Const(Vols, FALSE) /\ cFailed = Const(Vols, FALSE)
  /\ compactedV = Const(Vols, FALSE) /\ commitV = Const(Vols, FALSE) /\ cleanedV = Const(Vols, FALSE)
  /\ phase = "run"

Init == \E nn \in Ns, k \in Kinds : BInitWith(nn, k, k # "under", k = "big", k = "ro")

(* ------------------------------ the scripted volume servers ------------------------------ *)
Serve(r, op, out) ==
  /\ st[r][op] = "sent" /\ out \in BOuts(op)
  /\ st' = [st EXCEPT ![r][op] = "serving"]
  /\ script' = [script EXCEPT ![r][op] = out]
  /\ CallEffect(V, r, op)
  /\ bad' = (bad \/ ~CallGuard(V, r, op))
  /\ UNCHANGED <<n, kind, enough, isbig, isro, writable, pc, ch, errCount, got, vlist, allOk, i, isRO, commitOk, round>>

(* the answer of a check / compact RPC is taken by its goroutine (:22-42, :69-85: errCount++,
   `ch <- ...`); that step is local to the goroutine and merged into the reply.  Goroutines
   race to the channel, so `ch` is a BAG (kept as a sorted sequence; the master takes any
   element): the order of the vacuum list is any order of the replies *)
Reply(r, op) ==
  /\ st[r][op] = "serving" /\ script[r][op] # "timeout"
  /\ RetEffect(V, r, op, script[r][op])
  /\ st' = [st EXCEPT ![r][op] = IF op \in {"check", "compact"} THEN "consumed" ELSE "replied"]
  /\ errCount' = errCount + (IF op = "check" /\ script[r][op] = "err" THEN 1 ELSE 0)
  /\ ch' = CASE op = "check" -> Ins(ch, IF script[r][op] = "hi" THEN r ELSE 0)
              [] op = "compact" -> Ins(ch, IF script[r][op] = "ok" THEN 1 ELSE 0)
              [] OTHER -> ch
  /\ UNCHANGED <<n, kind, enough, isbig, isro, writable, pc, script, got, vlist, allOk, i, isRO, commitOk, bad, round>>

(* the timer of a wait loop over `who` (replicas addressed in phase op) *)
TimerMayFire(op, who) ==
  LET pending == {r \in who : st[r][op] \in {"sent", "serving"}}
      hung == {r \in who : st[r][op] = "serving" /\ script[r][op] = "timeout"}
  IN SlowReplies \/ (hung # {} /\ pending = hung /\ ch = <<>>)

(* ------------------------------ the master ------------------------------ *)
MStart ==           \* :179-190: read-only volumes are skipped; else check goroutines start
  /\ pc = "start"
  /\ IF isro THEN pc' = "done" /\ UNCHANGED st
             ELSE /\ pc' = "check_wait"
                  /\ st' = [r \in Reps |-> IF r \in Live THEN [st[r] EXCEPT !.check = "sent"] ELSE st[r]]
  /\ UNCHANGED <<avars, n, kind, enough, isbig, isro, writable, script, ch, errCount, got, vlist, allOk, i, isRO, commitOk, bad, round>>

MCheckRecv ==       \* :49-54
  /\ pc = "check_wait"
  /\ \E k \in DOMAIN ch :
       /\ ch' = RemoveAt(ch, k)
       /\ vlist' = IF ch[k] # 0 THEN Append(vlist, ch[k]) ELSE vlist
  /\ got' = got + 1
  /\ pc' = IF got + 1 = n THEN "check_end" ELSE pc
  /\ UNCHANGED <<avars, n, kind, enough, isbig, isro, writable, st, script, errCount, allOk, i, isRO, commitOk, bad, round>>

MCheckTimeout ==    \* :55-56  returns (list, false)
  /\ pc = "check_wait" /\ TimerMayFire("check", Live)
  /\ pc' = "done"
  /\ UNCHANGED <<avars, n, kind, enough, isbig, isro, writable, st, script, ch, errCount, got, vlist, allOk, i, isRO, commitOk, bad, round>>

MCheckEnd ==        \* :59, :190
  /\ pc = "check_end"
  /\ pc' = IF errCount = 0 /\ Len(vlist) > 0 THEN "compact_start" ELSE "done"
  /\ UNCHANGED <<avars, n, kind, enough, isbig, isro, writable, st, script, ch, errCount, got, vlist, allOk, i, isRO, commitOk, bad, round>>

MCompactStart ==    \* :63-86  removeFromWritable, then the goroutines
  /\ pc = "compact_start"
  /\ writable' = FALSE
  /\ st' = [r \in Reps |-> IF r \in SeqRange(vlist) THEN [st[r] EXCEPT !.compact = "sent"] ELSE st[r]]
  /\ ch' = <<>> /\ got' = 0 /\ allOk' = TRUE
  /\ pc' = "compact_wait"
  /\ UNCHANGED <<avars, n, kind, enough, isbig, isro, script, errCount, vlist, i, isRO, commitOk, bad, round>>

MCompactRecv ==     \* :92-95
  /\ pc = "compact_wait"
  /\ \E k \in DOMAIN ch :
       /\ ch' = RemoveAt(ch, k)
       /\ allOk' = (allOk /\ ch[k] = 1)
  /\ got' = got + 1
  /\ i' = 1
  /\ pc' = IF got + 1 = Len(vlist) THEN (IF allOk' THEN "commit" ELSE "cleanup") ELSE pc
  /\ UNCHANGED <<avars, n, kind, enough, isbig, isro, writable, st, script, errCount, vlist, isRO, commitOk, bad, round>>

MCompactTimeout ==  \* :96-97
  /\ pc = "compact_wait" /\ TimerMayFire("compact", SeqRange(vlist))
  /\ pc' = "cleanup" /\ i' = 1
  /\ UNCHANGED <<avars, n, kind, enough, isbig, isro, writable, st, script, ch, errCount, got, vlist, allOk, isRO, commitOk, bad, round>>

SeqSend(op, at, to) ==
  /\ pc = at /\ i <= Len(vlist)
  /\ st' = [st EXCEPT ![vlist[i]][op] = "sent"]
  /\ pc' = to
  /\ UNCHANGED <<avars, n, kind, enough, isbig, isro, writable, script, ch, errCount, got, vlist, allOk, i, isRO, commitOk, bad, round>>

MCommitSend == SeqSend("commit", "commit", "commit_rpc")       \* :105-110
MCommitRecv ==      \* :111-121
  /\ pc = "commit_rpc" /\ st[vlist[i]].commit = "replied"
  /\ st' = [st EXCEPT ![vlist[i]].commit = "consumed"]
  /\ isRO' = (isRO \/ script[vlist[i]].commit = "ro")
  /\ commitOk' = (commitOk /\ script[vlist[i]].commit # "err")
  /\ i' = i + 1 /\ pc' = "commit"
  /\ UNCHANGED <<avars, n, kind, enough, isbig, isro, writable, script, ch, errCount, got, vlist, allOk, bad, round>>
MCommitEnd ==       \* :123-128 with volume_layout.go SetVolumeAvailable
  /\ pc = "commit" /\ i > Len(vlist)
  /\ writable' = IF commitOk /\ ~isRO /\ enough THEN TRUE ELSE writable
  /\ pc' = "done"
  /\ UNCHANGED <<avars, n, kind, enough, isbig, isro, st, script, ch, errCount, got, vlist, allOk, i, isRO, commitOk, bad, round>>

MCleanupSend == SeqSend("cleanup", "cleanup", "cleanup_rpc")   \* :131-138
MCleanupRecv ==     \* :139-143
  /\ pc = "cleanup_rpc" /\ st[vlist[i]].cleanup = "replied"
  /\ st' = [st EXCEPT ![vlist[i]].cleanup = "consumed"]
  /\ i' = i + 1 /\ pc' = "cleanup"
  /\ UNCHANGED <<avars, n, kind, enough, isbig, isro, writable, script, ch, errCount, got, vlist, allOk, isRO, commitOk, bad, round>>
MCleanupEnd ==      \* :194 (+ the fix: EnsureCorrectWritables)
  /\ pc = "cleanup" /\ i > Len(vlist)
  /\ writable' = IF Fixed THEN (IF enough THEN (IF isbig THEN writable ELSE TRUE) ELSE FALSE) ELSE writable
  /\ pc' = "done"
  /\ UNCHANGED <<avars, n, kind, enough, isbig, isro, st, script, ch, errCount, got, vlist, allOk, i, isRO, commitOk, bad, round>>

(* Topology.Vacuum is called again (vacuumLockCounter was reset by the deferred store, :154).
   RPCs of the previous round that never answered are forgotten here: continuation is modelled
   for rounds whose RPCs were all answered or timed out *)
MNextRound ==
  /\ pc = "done" /\ round < Rounds
  /\ round' = round + 1
  /\ pc' = "start"
  /\ st' = [r \in Reps |-> IdleRec] /\ script' = [r \in Reps |-> NaRec]
  /\ ch' = <<>> /\ errCount' = 0 /\ got' = 0 /\ vlist' = <<>> /\ allOk' = TRUE /\ i' = 1
  /\ isRO' = FALSE /\ commitOk' = TRUE
  /\ compactedV' = Const(Vols, FALSE) /\ commitV' = Const(Vols, FALSE) /\ cleanedV' = Const(Vols, FALSE)
  /\ open' = {}
  /\ UNCHANGED <<shadow, live, wBefore, bigVols, roSeen, shrunk, cFailed, phase, n, kind, enough, isbig, isro, writable, bad>>

Internal == \/ MStart \/ MCheckRecv \/ MCheckTimeout \/ MCheckEnd \/ MCompactStart \/ MCompactRecv
            \/ MCompactTimeout \/ MCommitSend \/ MCommitRecv \/ MCommitEnd
            \/ MCleanupSend \/ MCleanupRecv \/ MCleanupEnd
(* once the round is over nothing the master does can depend on late arrivals: stop there *)
Visible == pc # "done" /\ \E r \in Live, op \in Ops : (\E out \in BOuts(op) : Serve(r, op, out)) \/ Reply(r, op)
Next == Internal \/ Visible \/ MNextRound
Spec == Init /\ [][Next]_vars
FairSpec == Spec /\ WF_vars(Next)

(* ------------------------------ properties ------------------------------ *)
TypeOK == /\ pc \in {"start", "check_wait", "check_end", "compact_start", "compact_wait", "commit",
                     "commit_rpc", "cleanup", "cleanup_rpc", "done"}
          /\ \A r \in Reps, op \in Ops : st[r][op] \in {"idle", "sent", "serving", "replied", "consumed"}
          /\ ATypeOK
NoBadCommit == ~bad                                        \* (1)
WSet == IF writable THEN {V} ELSE {}
PostOK == pc = "done" => \E D \in SUBSET (DevIds \cap KFB) : PostAdmits(WSet \cup {v \in Vols \ {V} : wBefore[v]}, TRUE, D)   \* (2), (3)
(* the volume is out of the writable list while the master waits for compactions *)
UnwritableWhileCompacting == pc = "compact_wait" => ~writable
(* only replicas whose garbage ratio was high are ever compacted *)
OnlyGarbageCompacted == \A r \in Reps : st[r].compact # "idle" => script[r].check = "hi"
(* commit and cleanup exclude each other *)
CommitXorCleanup == ~(\E r \in Reps : st[r].commit # "idle") \/ ~(\E r \in Reps : st[r].cleanup # "idle")
Termination == <>(pc = "done" /\ round = Rounds)

(* generator: the script that produced this round *)
Emit == pc # "done" \/ PrintT(<<"W", ToJson([n |-> n, kind |-> kind, s |-> [r \in Live |-> script[r]]])>>)
=============================================================================
