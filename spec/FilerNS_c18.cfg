SPECIFICATION Spec
INVARIANT TreeWellFormed
PROPERTY KindNeverFlips
PROPERTY NonRecursiveDeleteOfNonEmptyFails
PROPERTY RecursiveDeleteRemovesSubtree
PROPERTY RenameMovesSubtree
PROPERTY RenameIntoOwnSubtreeRefused
CHECK_DEADLOCK FALSE
