SPECIFICATION BSpec
INVARIANT NoReuse
INVARIANT RangesDisjointOrKnown
INVARIANT MemAhead
INVARIANT EtcdWindows
INVARIANT EtcdAhead
VIEW BViewMC
CHECK_DEADLOCK FALSE
