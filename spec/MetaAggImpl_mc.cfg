SPECIFICATION Spec
INVARIANT ExactlyOnce
INVARIANT Refines
INVARIANT NoLoop
INVARIANT OffsetSound
INVARIANT NoLoss
CHECK_DEADLOCK FALSE
