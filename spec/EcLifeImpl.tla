------------------------------ MODULE EcLifeImpl ------------------------------
(* Layer B for the erasure-coding life cycle: VolumeImpl (data file, index file, needle
   map, reload with CheckAndFixVolumeDataIntegrity) extended with

     Encode    the sorted index .ecx is written from the index file (live entries,
               ascending needle id); the shards hold the data file unchanged
     EcDelete  marks the .ecx entry deleted in place and journals the id (.ecj)
     Decode    WriteDatFile gives back the data file; WriteIdxFileFromEcIndex writes the
               new .idx; the volume is loaded again (index replay + integrity check)

   DecodeIdxInDataOrder = FALSE models the pinned code: the new .idx is a copy of the
   .ecx (ascending needle id, deleted entries keep their offset) followed by the journal's
   tombstones.  The load then verifies the needle of the LAST index entry and truncates
   the data file behind it: every needle appended after the needle with the largest id is
   lost, and a deleted last entry makes the volume read-only.  TRUE models the repair
   (live entries in data-file order, then tombstones with offset 0). *)
EXTENDS VolumeImpl
CONSTANT DecodeIdxInDataOrder
VARIABLES ecx, ecphase
evars == <<vars, ecx, ecphase>>

EInit == Init /\ ecx = <<>> /\ ecphase = "vol"
SortByOff(ix) ==
  LET offs == {ix[i].off : i \in 1..Len(ix)}
      s == CHOOSE q \in [1..Cardinality(offs) -> offs] : \A i, j \in 1..Cardinality(offs) : i < j => q[i] < q[j]
  IN [j \in 1..Len(s) |-> CHOOSE e \in {ix[i] : i \in 1..Len(ix)} : e.off = s[j]]
LiveIdx == LET f == MemLoad(idx, <<>>) IN
           [i \in 1..Cardinality(DOMAIN f) |-> LET k == SortedKeys(DOMAIN f)[i] IN [k |-> k, off |-> f[k].off, size |-> f[k].size]]

VolStep == ecphase = "vol" /\ Next /\ UNCHANGED <<ecx, ecphase>>
Encode == /\ ecphase = "vol" /\ phase = "idle" /\ ~ro /\ Len(hist) < MaxOps /\ idx # <<>>
          /\ ecx' = LiveIdx /\ ecphase' = "ec"
          /\ hist' = Append(hist, [ev |-> "encode"])
          /\ UNCHANGED <<dat, idx, nm, ro, phase, cpd, cpx, mark, live>>
EcFind(k) == {i \in 1..Len(ecx) : ecx[i].k = k}
EcReadRes(k, c) ==
  IF EcFind(k) = {} THEN [st |-> "notfound", d |-> "e", m |-> "m0"]
  ELSE LET e == ecx[CHOOSE i \in EcFind(k) : TRUE] IN
       IF e.size < 0 THEN [st |-> "notfound", d |-> "e", m |-> "m0"]
       ELSE IF e.size = 0 THEN [st |-> "data", d |-> "e", m |-> "m0"]
       ELSE IF dat[e.off].c # c THEN [st |-> "notfound", d |-> "e", m |-> "m0"]
       ELSE [st |-> "data", d |-> dat[e.off].d, m |-> dat[e.off].m]
EcDelete(k, c) ==
  /\ ecphase = "ec" /\ Len(hist) < MaxOps
  /\ LET r == EcReadRes(k, c) IN
     IF r.st = "data" /\ EcFind(k) # {} /\ ecx[CHOOSE i \in EcFind(k) : TRUE].size > 0
     THEN /\ ecx' = [i \in 1..Len(ecx) |-> IF ecx[i].k = k THEN [ecx[i] EXCEPT !.size = -1] ELSE ecx[i]]
          /\ live' = [live EXCEPT ![k] = None]
     ELSE UNCHANGED <<ecx, live>>
  /\ hist' = Append(hist, [ev |-> "delete", k |-> k, c |-> c])
  /\ UNCHANGED <<dat, idx, nm, ro, phase, cpd, cpx, mark, ecphase>>
NewIdx ==
  IF DecodeIdxInDataOrder
  THEN LET liveE == SelectSeq(ecx, LAMBDA e : e.size >= 0)
           dead == SelectSeq(ecx, LAMBDA e : e.size < 0)
       IN (IF liveE = <<>> THEN <<>> ELSE SortByOff(liveE)) \o [i \in 1..Len(dead) |-> [k |-> dead[i].k, off |-> 0, size |-> -1]]
  ELSE ecx
Decode ==
  /\ ecphase = "ec" /\ Len(hist) < MaxOps
  /\ LET nx == NewIdx
         last == IF nx = <<>> THEN [k |-> 0, off |-> 0, size |-> 0] ELSE nx[Len(nx)]
         tombLast == nx # <<>> /\ last.off # 0 /\ last.size < 0
     IN /\ idx' = nx /\ dat' = FixDat(dat, nx) /\ nm' = Load(nx, <<>>)
        /\ ro' = (tombLast /\ ~(dat[Len(dat)].kind = "tomb" /\ dat[Len(dat)].k = last.k))
  /\ ecphase' = "vol" /\ ecx' = <<>>
  /\ live' = IF "X01-decode-truncates" \in KF
             THEN [k \in Keys |-> IF live[k] # None /\ Has(nm', k) /\ nm'[k].off > Len(dat') THEN None ELSE live[k]]
             ELSE live
  /\ hist' = Append(hist, [ev |-> "decode"])
  /\ UNCHANGED <<phase, cpd, cpx, mark>>
ENext == VolStep \/ Encode \/ Decode \/ \E k \in Keys, c \in Cookies : EcDelete(k, c)
ESpec == EInit /\ [][ENext]_evars

EReadsAgree ==
  \A k \in Keys, c \in Cookies :
    LET res == IF ecphase = "ec" THEN EcReadRes(k, c) ELSE ReadRes(k, c) IN
      \/ ReadStrict(live, k, c, res)
      \/ ("C01-empty-any-cookie" \in KF /\ DevReadEmpty(live, k, c, res))
WritableAfterDecode == (ecphase = "vol" /\ hist # <<>> /\ hist[Len(hist)].ev = "decode") => (~ro \/ "X01-decode-readonly" \in KF)
EMCView == <<dat, idx, nm, ro, phase, cpd, cpx, mark, live, ecx, ecphase>>
EView == <<dat, idx, nm, ro, phase, cpd, cpx, mark, live, ecx, ecphase, IF hist = <<>> THEN <<>> ELSE hist[Len(hist)]>>
=============================================================================
