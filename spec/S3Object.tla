------------------------------ MODULE S3Object ------------------------------
(* C28 - S3 objects and multipart uploads round-trip.

   Content is a sequence of SEGMENT ids: every write carries one known byte segment (SegLen gives its
   length); the driver reports what it reads back as the sequence of known segments the bytes consist of
   ("?" = bytes that are no known segment). Empty segments are invisible (Norm drops them).

     obj   : [<<bucket, key>> -> content]        the objects (partial function)
     ups   : [upload index -> [b, k, parts]]      uploads in progress; parts : [part number -> content]

   Requests and what the statement says about their observable results:
     Put / streaming Put  status 200 => the key holds exactly the segment; otherwise nothing changed
     Copy(src, dst)       src exists: 200 => dst holds src's content; otherwise nothing changed
                          src missing: must not report success, nothing changed
     Get(ranges)          existing key: 200, content = what was written, every satisfiable range is answered 206
                          with exactly that slice (length as HTTP defines it; `same` = equals the slice of the full
                          body read in the same step); missing key: not 200
     Delete / BatchDelete remove exactly the named keys (a key reported as error by a batch may stay)
     Initiate, UploadPart(n), UploadPartCopy(n, src, aligned range), Abort
     Complete(listed)     200 => the key holds the concatenation of the parts in ascending part-number order. The
                          statement does not say whether parts uploaded but not listed belong to the object: both
                          readings are admitted (the two coincide when everything uploaded is listed)
   After every mutating request the set of existing keys (over the key universe) is observed: `aft`.
   Keys are opaque strings; Under = {<<k1, k2>> : k2 lies below folder k1} only serves the deviations.

   Generator: the same actions with the strict results (status 200) over small alphabets: GNext. Design-level
   properties checked on it: DeleteExact, WriteExact (action properties: only the named keys change),
   CompleteAscending, TypeOK. *)
EXTENDS Integers, Sequences, FiniteSets, TLC, Json, SequencesExt

CONSTANTS Buckets, KeysU,       \* key universe (observed by HEAD after every mutation)
          Under,                \* pairs <<folder key, key below it>>
          SegLen,               \* segment id -> length in bytes
          InlineLimit,          \* 0, or the filer's SaveToFilerLimit of this run
          FT,                   \* folder key -> the key inside it where a write addressed to the folder lands
          GenBK, GenDst, GenSegs, GenParts, GenBDel, MaxUploads, MaxOps
VARIABLES obj, ups, folders, hist
vars == <<obj, ups, folders, hist>>

BK == Buckets \X KeysU
Set(f, x, v) == [y \in DOMAIN f \cup {x} |-> IF y = x THEN v ELSE f[y]]
Drop(f, S) == [y \in DOMAIN f \ S |-> f[y]]
Empty == [x \in {} |-> <<>>]

Known(s) == s \in DOMAIN SegLen
Norm(c) == SelectSeq(c, LAMBDA s : ~Known(s) \/ SegLen[s] > 0)
RECURSIVE Size(_)
Size(c) == IF c = <<>> THEN 0 ELSE (IF Known(c[1]) THEN SegLen[c[1]] ELSE 0) + Size(Tail(c))
RECURSIVE Cat(_, _)
Cat(parts, ns) == IF ns = <<>> THEN <<>> ELSE parts[ns[1]] \o Cat(parts, Tail(ns))
Asc(S) == SetToSortSeq(S, <)
(* concatenation of the parts numbered in S, ascending *)
Joined(parts, S) == Cat(parts, Asc(S \cap DOMAIN parts))

(* the slice [lo, hi] (byte offsets, inclusive) of content c when it falls on segment boundaries *)
RECURSIVE Starts(_, _)
Starts(c, off) == IF c = <<>> THEN <<>> ELSE <<off>> \o Starts(Tail(c), off + Size(<<c[1]>>))
Aligned(c, lo, hi) == \E i, j \in 1..Len(c) : i <= j /\ Starts(c, 0)[i] = lo /\ Starts(c, 0)[j] + Size(<<c[j]>>) - 1 = hi
Slice(c, lo, hi) == LET i == CHOOSE i \in 1..Len(c) : Starts(c, 0)[i] = lo
                        j == CHOOSE j \in 1..Len(c) : Starts(c, 0)[j] + Size(<<c[j]>>) - 1 = hi /\ j >= i
                    IN SubSeq(c, i, j)

---------------------------------------------------------------------------
(* range reads: r = [lo, hi, status, len, same]; lo = -1: suffix of hi bytes; hi = -1: from lo to the end *)
MinI(a, b) == IF a < b THEN a ELSE b
Satisfiable(size, r) == /\ size > 0
                        /\ \/ r.lo >= 0 /\ r.hi >= r.lo /\ r.lo < size
                           \/ r.lo >= 0 /\ r.hi = -1 /\ r.lo < size
                           \/ r.lo = -1 /\ r.hi > 0
WantLen(size, r) == IF r.lo = -1 THEN MinI(r.hi, size)
                    ELSE IF r.hi = -1 THEN size - r.lo
                    ELSE MinI(r.hi, size - 1) - r.lo + 1
RangeOK(size, r) == Satisfiable(size, r) => (r.status = 206 /\ r.len = WantLen(size, r) /\ r.same)

---------------------------------------------------------------------------
(* the actions; st = observed status, aft = observed set of existing <<b, k>> afterwards *)
Sees(aft) == aft = DOMAIN obj'

Write(b, k, c, st, aft) ==
  /\ obj' = IF st = 200 THEN Set(obj, <<b, k>>, c) ELSE obj
  /\ Sees(aft) /\ UNCHANGED ups
Put(b, k, seg, st, aft) == Write(b, k, Norm(<<seg>>), st, aft)
Copy(sb, sk, b, k, st, aft) ==
  IF <<sb, sk>> \in DOMAIN obj THEN Write(b, k, obj[<<sb, sk>>], st, aft)
  ELSE st # 200 /\ obj' = obj /\ Sees(aft) /\ UNCHANGED ups
(* content that contains a part copied with a range that is not made of whole segments cannot be named *)
Opaque(c) == \E i \in 1..Len(c) : c[i] = "?"
Get(b, k, res) ==
  /\ IF <<b, k>> \in DOMAIN obj
     THEN LET c == obj[<<b, k>>] IN
          /\ res.status = 200
          /\ ~Opaque(c) => /\ res.content = c /\ res.size = Size(c)
                           /\ \A i \in 1..Len(res.rr) : RangeOK(Size(c), res.rr[i])
     ELSE res.status # 200
  /\ UNCHANGED <<obj, ups>>
Delete(b, k, st, aft) == obj' = Drop(obj, {<<b, k>>}) /\ Sees(aft) /\ UNCHANGED ups
BatchDelete(b, ks, st, errs, aft) ==
  /\ st = 200
  /\ LET gone == {<<b, k>> : k \in {k \in ks : <<b, k>> \notin aft}} IN
       /\ \A k \in ks \ errs : <<b, k>> \notin aft
       /\ obj' = Drop(obj, gone)
  /\ Sees(aft) /\ UNCHANGED ups
Initiate(u, b, k, st, aft) ==
  /\ ups' = IF st = 200 THEN Set(ups, u, [b |-> b, k |-> k, parts |-> Empty]) ELSE ups
  /\ obj' = obj /\ Sees(aft)
SetPart(u, n, c, st, aft) ==
  /\ IF u \in DOMAIN ups
     THEN ups' = IF st = 200 THEN [ups EXCEPT ![u].parts = Set(@, n, c)] ELSE ups
     ELSE st # 200 /\ ups' = ups
  /\ obj' = obj /\ Sees(aft)
UploadPart(u, n, seg, st, aft) == SetPart(u, n, Norm(<<seg>>), st, aft)
UploadPartCopy(u, n, sb, sk, lo, hi, st, aft) ==
  IF <<sb, sk>> \notin DOMAIN obj THEN st # 200 /\ UNCHANGED <<obj, ups>> /\ Sees(aft)
  ELSE LET c == obj[<<sb, sk>>] IN
       IF hi = -1 THEN SetPart(u, n, c, st, aft)
       ELSE IF Aligned(c, lo, hi) THEN SetPart(u, n, Slice(c, lo, hi), st, aft)
       ELSE SetPart(u, n, <<"?">>, st, aft)          \* not expressible in whole segments (the generator avoids it)
(* which parts make up the object: everything uploaded, or only what the request lists *)
Candidates(u, listed) == {Joined(ups[u].parts, DOMAIN ups[u].parts), Joined(ups[u].parts, listed)}
CompleteWith(u, c, st, aft) ==
  /\ u \in DOMAIN ups /\ st = 200
  /\ obj' = Set(obj, <<ups[u].b, ups[u].k>>, c)
  /\ ups' = Drop(ups, {u})
  /\ Sees(aft)
Complete(u, listed, st, aft) ==
  \/ u \in DOMAIN ups /\ \E c \in Candidates(u, listed) : CompleteWith(u, c, st, aft)
  \/ st # 200 /\ UNCHANGED <<obj, ups>> /\ Sees(aft)
Abort(u, st, aft) == ups' = Drop(ups, {u}) /\ obj' = obj /\ Sees(aft)
Dump(objs) == /\ {<<o.b, o.k>> : o \in objs} = DOMAIN obj
              /\ \A o \in objs : Opaque(obj[<<o.b, o.k>>]) \/ o.content = obj[<<o.b, o.k>>]
              /\ UNCHANGED <<obj, ups>>

---------------------------------------------------------------------------
(* the known deviations of the gateway (named in S3ObjectTrace); `folders` = the folders the filer holds, as
   <<bucket, path>>, observed after every mutating request *)
(* a PUT / copy addressed to a key that is a folder in the filer (other keys lie below it, or it is a left-over
   empty folder) answers 200 and stores the object INSIDE the folder under the folder's own name *)
WriteOntoFolder(b, k, c, st, aft) ==
  /\ <<b, k>> \in folders /\ k \in DOMAIN FT /\ st = 200
  /\ obj' = Set(obj, <<b, FT[k]>>, c)
  /\ Sees(aft) /\ UNCHANGED ups
PutOntoFolder(b, k, seg, st, aft) == WriteOntoFolder(b, k, Norm(<<seg>>), st, aft)
CopyOntoFolder(sb, sk, b, k, st, aft) == <<sb, sk>> \in DOMAIN obj /\ WriteOntoFolder(b, k, obj[<<sb, sk>>], st, aft)
(* DELETE of a key removes every key below it as well *)
Below(b, k) == {x \in DOMAIN obj : x[1] = b /\ <<k, x[2]>> \in Under}
DeleteSubtree(b, k, st, aft) ==
  /\ Below(b, k) # {}
  /\ obj' = Drop(obj, {<<b, k>>} \cup Below(b, k))
  /\ Sees(aft) /\ UNCHANGED ups
(* a batch delete that names a key below an existing OBJECT (a/b while a is an object) removes that object: the
   clean-up of "emptied folders" deletes the parent entry without looking whether it is a folder *)
ParentObjects(b, ks) == {x \in DOMAIN obj : x[1] = b /\ \E k \in ks : <<x[2], k>> \in Under}
BatchDeleteParent(b, ks, st, aft) ==
  /\ st = 200
  /\ ParentObjects(b, ks) # {}
  /\ obj' = Drop(obj, {<<b, k>> : k \in ks} \cup ParentObjects(b, ks))
  /\ Sees(aft) /\ UNCHANGED ups
(* parts the filer keeps inline (smaller than its SaveToFilerLimit) are missing from the completed object *)
Chunked(parts) == {n \in DOMAIN parts : Size(parts[n]) >= InlineLimit}
CompleteInline(u, st, aft) ==
  /\ InlineLimit > 0 /\ u \in DOMAIN ups /\ st = 200
  /\ \E n \in DOMAIN ups[u].parts \ Chunked(ups[u].parts) : Size(ups[u].parts[n]) > 0
  /\ obj' = Set(obj, <<ups[u].b, ups[u].k>>, Joined(ups[u].parts, Chunked(ups[u].parts)))
  /\ ups' = Drop(ups, {u})
  /\ Sees(aft)

---------------------------------------------------------------------------
(* generator: strict results *)
Init == obj = Empty /\ ups = Empty /\ folders = {} /\ hist = <<>>
Ext(op) == Len(hist) < MaxOps /\ hist' = Append(hist, op) /\ UNCHANGED folders
Ranges(c) == LET sz == Size(c)
                 js == {Starts(c, 0)[i] : i \in 1..Len(c)} \ {0} IN
             IF sz = 0 THEN <<>>
             ELSE SetToSeq({<<0, 0>>, <<sz - 1, sz - 1>>, <<0, sz + 5>>, <<-1, 3>>, <<sz - 1, -1>>}
                           \cup {<<j - 1, j>> : j \in js} \cup {<<j, -1>> : j \in js}
                           \cup {<<IF j >= 2 THEN j - 2 ELSE 0, j + 1>> : j \in {j \in js : j + 1 < sz}})
GPut == \E x \in GenBK, s \in GenSegs :
          /\ Put(x[1], x[2], s, 200, DOMAIN obj \cup {x})
          /\ Ext([ev |-> "put", b |-> x[1], k |-> x[2], seg |-> s, mode |-> "plain", chunk |-> 3])
GCopy == \E x \in DOMAIN obj, y \in GenDst :
          /\ x # y
          /\ Copy(x[1], x[2], y[1], y[2], 200, DOMAIN obj \cup {y})
          /\ Ext([ev |-> "copy", sb |-> x[1], sk |-> x[2], b |-> y[1], k |-> y[2]])
GCopyMissing == \E x \in GenBK, y \in GenDst :
          /\ x \notin DOMAIN obj
          /\ Copy(x[1], x[2], y[1], y[2], 404, DOMAIN obj)
          /\ Ext([ev |-> "copy", sb |-> x[1], sk |-> x[2], b |-> y[1], k |-> y[2]])
GDel == \E x \in GenBK :
          /\ Delete(x[1], x[2], 204, DOMAIN obj \ {x})
          /\ Ext([ev |-> "del", b |-> x[1], k |-> x[2]])
GBDel == \E b \in {x[1] : x \in GenBK}, ks \in GenBDel :
          /\ BatchDelete(b, ToSet(ks), 200, {}, DOMAIN obj \ {<<b, k>> : k \in ToSet(ks)})
          /\ Ext([ev |-> "bdel", b |-> b, keys |-> ks])
GGet == \E x \in DOMAIN obj :
          /\ UNCHANGED <<obj, ups>>
          /\ Ext([ev |-> "get", b |-> x[1], k |-> x[2], ranges |-> Ranges(obj[x])])
GInit == \E b \in {x[1] : x \in GenBK}, k \in {x[2] : x \in GenBK} :
          LET u == Cardinality({i \in 1..Len(hist) : hist[i].ev = "init"}) + 1 IN
          /\ u <= MaxUploads
          /\ Initiate(u, b, k, 200, DOMAIN obj)
          /\ Ext([ev |-> "init", u |-> u, b |-> b, k |-> k])
GPart == \E u \in DOMAIN ups, n \in GenParts, s \in GenSegs :
          /\ UploadPart(u, n, s, 200, DOMAIN obj)
          /\ Ext([ev |-> "part", u |-> u, b |-> ups[u].b, k |-> ups[u].k, n |-> n, seg |-> s, mode |-> "plain", chunk |-> 0])
GComplete == \E u \in DOMAIN ups :
          /\ DOMAIN ups[u].parts # {}
          /\ CompleteWith(u, Joined(ups[u].parts, DOMAIN ups[u].parts), 200, DOMAIN obj \cup {<<ups[u].b, ups[u].k>>})
          /\ Ext([ev |-> "complete", u |-> u, b |-> ups[u].b, k |-> ups[u].k, parts |-> Asc(DOMAIN ups[u].parts)])
GAbort == \E u \in DOMAIN ups :
          /\ Abort(u, 204, DOMAIN obj)
          /\ Ext([ev |-> "abort", u |-> u, b |-> ups[u].b, k |-> ups[u].k])
GNext == GPut \/ GCopy \/ GCopyMissing \/ GDel \/ GBDel \/ GGet \/ GInit \/ GPart \/ GComplete \/ GAbort
Spec == Init /\ [][GNext]_vars

---------------------------------------------------------------------------
(* design-level properties of the generator (= of the strict reading) *)
ContentOK(c) == \A i \in 1..Len(c) : Known(c[i]) /\ SegLen[c[i]] > 0
TypeOK == /\ DOMAIN obj \subseteq BK /\ \A x \in DOMAIN obj : ContentOK(obj[x])
          /\ \A u \in DOMAIN ups : ups[u].b \in Buckets /\ \A n \in DOMAIN ups[u].parts : ContentOK(ups[u].parts[n])
LastOp == hist'[Len(hist')]
Untouched(S) == \A x \in DOMAIN obj \ S : x \in DOMAIN obj' /\ obj'[x] = obj[x]
NoNew(S) == DOMAIN obj' \subseteq DOMAIN obj \cup S
(* deletes remove exactly the named keys; writes touch only their key; the rest changes nothing *)
DeleteExact == [][hist' # hist =>
   CASE LastOp.ev = "del" -> DOMAIN obj' = DOMAIN obj \ {<<LastOp.b, LastOp.k>>} /\ Untouched({<<LastOp.b, LastOp.k>>})
     [] LastOp.ev = "bdel" -> LET S == {<<LastOp.b, k>> : k \in ToSet(LastOp.keys)} IN DOMAIN obj' = DOMAIN obj \ S /\ Untouched(S)
     [] OTHER -> TRUE]_vars
WriteExact == [][hist' # hist =>
   CASE LastOp.ev \in {"put", "copy", "complete"} -> Untouched({<<LastOp.b, LastOp.k>>}) /\ NoNew({<<LastOp.b, LastOp.k>>})
     [] LastOp.ev \in {"get", "init", "part", "abort"} -> obj' = obj
     [] OTHER -> TRUE]_vars
(* a completed object is its parts in ascending part-number order, whatever the upload order was *)
CompleteAscending == [][(hist' # hist /\ LastOp.ev = "complete") =>
   LET p == ups[LastOp.u].parts
       ns == Asc(DOMAIN p) IN
   /\ \A i \in 1..(Len(ns) - 1) : ns[i] < ns[i + 1]
   /\ obj'[<<LastOp.b, LastOp.k>>] = Cat(p, ns)]_vars

View == <<obj, ups, IF hist = <<>> THEN <<>> ELSE hist[Len(hist)], Len(hist)>>
Emit == Len(hist) < MaxOps \/ PrintT(<<"W", ToJson(hist)>>)
EmitW == hist = <<>> \/ PrintT(<<"W", ToJson(hist)>>)
=============================================================================
