SPECIFICATION Spec
INVARIANT AncestorsPresent
INVARIANT UniqueIds
INVARIANT TypedTree
PROPERTY MoveMoves
CHECK_DEADLOCK FALSE
