SPECIFICATION Spec
INVARIANT NonVacuous
INVARIANT ExactBytes
INVARIANT Complete200
INVARIANT GzipOnlyIfAccepted
INVARIANT Only416WhenNothing
INVARIANT DeviationsAreViolations
CHECK_DEADLOCK FALSE
