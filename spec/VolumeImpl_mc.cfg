SPECIFICATION Spec
INVARIANT ReadsAgree
INVARIANT IdxPointsIntoDat
INVARIANT NmFromIdx
PROPERTY NoResurrect
VIEW MCView
CHECK_DEADLOCK FALSE
