--------------------------- MODULE ListingTrace ---------------------------
(* Judge for C19: executions recorded by harness/cmd/c19 from the real
   stores / FilerStoreWrapper / Filer.
   reset : names, expired (arrays of byte arrays), level
   list  : start, incl, limit, prefix, pattern, excl, api  ->  res, last, more, err
   walk  : the same request + mode  ->  pages [res, last, more], end, err      *)
EXTENDS Listing, TraceKit
tvars == <<vars, kitvars>>
TraceInit == /\ names = {} /\ expired = {} /\ level = "store"
             /\ req = NoReq /\ res = <<>> /\ hist = <<>>
             /\ KitInit
SetOf(s) == {s[i] : i \in 1..Len(s)}
TraceReset == /\ IsReset
              /\ names' = SetOf(Ev.names) /\ expired' = SetOf(Ev.expired) /\ level' = Ev.level
              /\ UNCHANGED <<req, res, hist>>
TraceSkip == SkipStep /\ UNCHANGED vars
ReqOf(e) == [start |-> e.start, incl |-> e.incl, limit |-> e.limit,
             prefix |-> e.prefix, pattern |-> e.pattern, excl |-> e.excl, sem |-> "glob"]
(* Known findings of the unchanged tree (filer_search.go splitPattern), as narrow
   as the defects:
   C19-literal-pattern-ignored: a name pattern without any wildcard is dropped
     (the listing answers as if no pattern had been given);
   C19-qmark-before-star: the pattern is cut at the first `*` even when a `?`
     precedes it, and the part in front is used as a literal name prefix. *)
Variant(r, pick) ==
  \/ Strict /\ pick = r
  \/ Deviate("C19-literal-pattern-ignored") /\ LiteralPattern(r.pattern)
       /\ pick = [r EXCEPT !.pattern = <<>>]
  \/ Deviate("C19-qmark-before-star") /\ QBeforeStar(r.pattern)
       /\ pick = [r EXCEPT !.sem = "qlit"]
TList == /\ IsEvent("list")
         /\ Ev.err = ""
         /\ \E pick \in {ReqOf(Ev), [ReqOf(Ev) EXCEPT !.pattern = <<>>], [ReqOf(Ev) EXCEPT !.sem = "qlit"]} :
              /\ Variant(ReqOf(Ev), pick)
              /\ ListAnswer(pick, Ev.res, Ev.last, Ev.more, Ev.api = "page")
         /\ UNCHANGED vars
TWalk == /\ IsEvent("walk")
         /\ Ev.err = ""
         /\ \E pick \in {ReqOf(Ev), [ReqOf(Ev) EXCEPT !.pattern = <<>>], [ReqOf(Ev) EXCEPT !.sem = "qlit"]} :
              /\ Variant(ReqOf(Ev), pick)
              /\ WalkAnswer(pick, Ev.mode, Ev.pages, Ev.end)
         /\ UNCHANGED vars
TraceNext == TraceReset \/ TraceSkip \/ TList \/ TWalk
TraceSpec == TraceInit /\ [][TraceNext]_tvars
=============================================================================
