---------------------------- MODULE MasterTopoImpl ----------------------------
(* C11 / C12, layer B: volume servers -> heartbeat messages -> the master's
   registry (DataNode/Disk volumes and ec shards), usage counters (per server
   and for the levels above it), volume layout (location lists, writable list,
   oversized marks) and ec shard map, shaped after weed/topology:

     DataNode.UpdateVolumes / DeltaUpdateVolumes, Disk.doAddOrUpdateVolume,
     DataNode.UpdateEcShards / Disk.AddOrUpdateEcShard / DeleteEcShard,
     VolumeLayout.RegisterVolume / UnRegisterVolume / ensureCorrectWritables /
     SetVolumeUnavailable / SetVolumeCapacityFull, Topology.RegisterEcShards /
     UnRegisterEcShards, Topology.UnRegisterDataNode, Rack.GetOrCreateDataNode.

   The volume-server side produces only message sequences a real server can
   produce (weed/server/volume_grpc_client_to_master.go): a stream starts with a
   full volume heartbeat followed by a full ec heartbeat; every volume / shard
   change queues a delta message; the select loop sends queued deltas and full
   snapshots in ANY order (so a delta can be overtaken by a snapshot taken after
   the change: a stale delta); queued deltas survive a reconnect.

   The layer-A state of MasterView (what the messages say) is carried as ghost;
   the invariants apply the layer-A predicates to the snapshot this model would
   report.  hist = the master-side events, the script for the real topology. *)
EXTENDS MasterView, SequencesExt
CONSTANTS Nodes, VolCfg, EcCfg, Bits, Attrs, AsMin, MaxSlots, MaxOps, MaxSrv, StartUp,
          FixDelta,      \* DeltaUpdateVolumes ignores deletes of unregistered volumes (S14 repaired)
          FixEcSync      \* UpdateEcShards computes its delta per ec volume (S15 repaired)
VARIABLES srv, srvec, pend, sess,                       \* volume servers
          M,                                            \* master: [dnv, ecn, cnt, tot, loc, wr, over, ecmap]
          nsrv, hist,
          lastwr                                        \* the writable set before the last master event
ivars == <<srv, srvec, pend, sess, M, nsrv, hist, lastwr>>
vars == <<ivars, avars>>

VIds == {r.id : r \in Range(VolCfg)}
EIds == {r.id : r \in Range(EcCfg)}
CopiesOf(v) == (CHOOSE r \in Range(VolCfg) : r.id = v).copies
CfgB == [asmin |-> AsMin, nodes |-> SetToSeq({[id |-> n, dc |-> "d1", rack |-> "r1"] : n \in Nodes}),
         vols |-> VolCfg, ecs |-> EcCfg]
Zero == [vc |-> 0, rem |-> 0, ec |-> 0, max |-> 0]
Plus(a, b) == [vc |-> a.vc + b.vc, rem |-> a.rem + b.rem, ec |-> a.ec + b.ec, max |-> a.max + b.max]
Neg(a) == [vc |-> 0 - a.vc, rem |-> 0 - a.rem, ec |-> 0 - a.ec, max |-> 0 - a.max]
Fresh0 == [ro |-> FALSE, big |-> FALSE, rem |-> FALSE]
Ext(f, k, x) == [y \in DOMAIN f \cup {k} |-> IF y = k THEN x ELSE f[y]]
Drop(f, k) == [y \in DOMAIN f \ {k} |-> f[y]]
AddLoc(s, x) == IF x \in Range(s) THEN s ELSE Append(s, x)
RemoveLoc(s, x) == SelectSeq(s, LAMBDA y : y # x)
B2N(b) == IF b THEN 1 ELSE 0

\* StartUp: every server has already opened its stream (full volume heartbeat + full ec heartbeat, nothing
\* on it yet); hist starts with those events so that the driver replays them
Order == SetToSeq(Nodes)
MaxMsg == <<<<"", MaxSlots>>>>
RECURSIVE PrefixFrom(_)
PrefixFrom(i) == IF i > Len(Order) THEN <<>>
                 ELSE <<[ev |-> "full", n |-> Order[i], mfk |-> 0, max |-> MaxMsg, vols |-> <<>>],
                        [ev |-> "ecfull", n |-> Order[i], ecs |-> <<>>]>> \o PrefixFrom(i + 1)
Prefix == IF StartUp THEN PrefixFrom(1) ELSE <<>>
Init == /\ srv = [n \in Nodes |-> <<>>] /\ srvec = [n \in Nodes |-> <<>>]
        /\ pend = [n \in Nodes |-> {}] /\ sess = [n \in Nodes |-> IF StartUp THEN "up" ELSE "down"]
        /\ M = [dnv |-> [n \in Nodes |-> <<>>], ecn |-> [n \in Nodes |-> <<>>],
                cnt |-> [n \in Nodes |-> IF StartUp THEN [Zero EXCEPT !.max = MaxSlots] ELSE Zero],
                tot |-> IF StartUp THEN [Zero EXCEPT !.max = MaxSlots * Cardinality(Nodes)] ELSE Zero,
                loc |-> [v \in VIds |-> <<>>], wr |-> {}, over |-> [v \in VIds |-> {}],
                ecmap |-> [e \in EIds |-> {}]]
        /\ nsrv = 0 /\ hist = Prefix /\ lastwr = {}
        /\ cfg = CfgB
        /\ conn = IF StartUp THEN Nodes ELSE {}
        /\ exp = [n \in Nodes |-> <<>>]
        /\ expEc = [n \in Nodes |-> <<>>]
        /\ expMax = [n \in Nodes |-> IF StartUp THEN [t \in {""} |-> MaxSlots] ELSE <<>>]
        /\ ghostEc = [v \in EIds |-> {}]
        /\ fresh = FALSE
        /\ zomb = {} /\ lost = {}

(* ------------------------------ volume servers ------------------------------ *)
SrvBudget == nsrv < MaxSrv /\ nsrv' = nsrv + 1
Queue(n, t, v, b) == pend' = [pend EXCEPT ![n] = @ \cup {[t |-> t, v |-> v, b |-> b]}]
SrvOnly == UNCHANGED <<sess, M, hist, lastwr, avars>>
SrvAdd(n, v) == /\ v \notin DOMAIN srv[n] /\ SrvBudget /\ srv' = [srv EXCEPT ![n] = Ext(@, v, Fresh0)]
                /\ Queue(n, "newv", v, 0) /\ UNCHANGED srvec /\ SrvOnly
SrvDel(n, v) == /\ v \in DOMAIN srv[n] /\ SrvBudget /\ srv' = [srv EXCEPT ![n] = Drop(@, v)]
                /\ Queue(n, "delv", v, 0) /\ UNCHANGED srvec /\ SrvOnly
SrvFlip(n, v, a) == /\ v \in DOMAIN srv[n] /\ SrvBudget
                    /\ srv' = [srv EXCEPT ![n][v] = CASE a = "ro" -> [@ EXCEPT !.ro = ~@]
                                                     [] a = "big" -> [@ EXCEPT !.big = ~@]
                                                     [] a = "rem" -> [@ EXCEPT !.rem = ~@]]
                    /\ UNCHANGED <<srvec, pend>> /\ SrvOnly
SrvMount(n, e, b) == /\ b \notin Get(srvec[n], e, {}) /\ SrvBudget
                     /\ srvec' = [srvec EXCEPT ![n] = Ext(@, e, Get(@, e, {}) \cup {b})]
                     /\ Queue(n, "newec", e, b) /\ UNCHANGED srv /\ SrvOnly
SrvUnmount(n, e, b) == /\ b \in Get(srvec[n], e, {}) /\ SrvBudget
                       /\ srvec' = [srvec EXCEPT ![n] = IF @[e] = {b} THEN Drop(@, e) ELSE Ext(@, e, @[e] \ {b})]
                       /\ Queue(n, "delec", e, b) /\ UNCHANGED srv /\ SrvOnly

(* ------------------------------ master: counters ------------------------------ *)
Count(m, n, d) == [m EXCEPT !.cnt[n] = Plus(@, d), !.tot = Plus(@, d)]     \* UpAdjustDiskUsageDelta from the disk upwards

(* ------------------------------ master: volume layout ------------------------------ *)
Enough(m, v) == LET k == Len(m.loc[v]) IN k = CopiesOf(v) \/ (AsMin /\ k > CopiesOf(v))
AllWritable(m, v) == \A d \in Range(m.loc[v]) : v \in DOMAIN m.dnv[d] => ~m.dnv[d][v].ro
Ensure(m, v) == IF Enough(m, v) /\ AllWritable(m, v)
                THEN (IF m.over[v] = {} THEN [m EXCEPT !.wr = @ \cup {v}] ELSE m)
                ELSE [m EXCEPT !.wr = @ \ {v}]
RegisterVol(m, v, n, big) ==          \* Topology.RegisterVolumeLayout
  LET m1 == [m EXCEPT !.loc[v] = AddLoc(@, n)]
      bad == \E d \in Range(m1.loc[v]) : v \notin DOMAIN m1.dnv[d] \/ m1.dnv[d][v].ro
      m2 == IF bad THEN [m1 EXCEPT !.wr = @ \ {v}] ELSE m1
      m3 == [m2 EXCEPT !.over[v] = IF big THEN @ \cup {n} ELSE @ \ {n}]
  IN Ensure(m3, v)
UnregisterVol(m, v, n) ==             \* Topology.UnRegisterVolumeLayout
  IF n \in Range(m.loc[v]) THEN Ensure([m EXCEPT !.loc[v] = RemoveLoc(@, n), !.over[v] = @ \ {n}], v) ELSE m
Unavailable(m, v, n) ==               \* VolumeLayout.SetVolumeUnavailable
  IF n \in Range(m.loc[v])
  THEN LET m1 == [m EXCEPT !.loc[v] = RemoveLoc(@, n), !.over[v] = @ \ {n}]
       IN IF Len(m1.loc[v]) < CopiesOf(v) THEN [m1 EXCEPT !.wr = @ \ {v}] ELSE m1
  ELSE m

(* ------------------------------ master: messages ------------------------------ *)
ApplyFull(m, n, vs) ==                \* SyncDataNodeRegistration; vs : vid -> [ro, big, rem]
  LET old == m.dnv[n]
      deleted == DOMAIN old \ DOMAIN vs
      new == DOMAIN vs \ DOMAIN old
      common == DOMAIN vs \cap DOMAIN old
      changed == {v \in common : old[v].ro # vs[v].ro}
      drem == Cardinality({v \in new : vs[v].rem}) - Cardinality({v \in deleted : old[v].rem})
              + Cardinality({v \in common : vs[v].rem /\ ~old[v].rem}) - Cardinality({v \in common : old[v].rem /\ ~vs[v].rem})
      m1 == Count([m EXCEPT !.dnv[n] = vs], n, [Zero EXCEPT !.vc = Cardinality(new) - Cardinality(deleted), !.rem = drem])
      m2 == FoldSet(LAMBDA v, acc : RegisterVol(acc, v, n, vs[v].big), m1, new)
      m3 == FoldSet(LAMBDA v, acc : UnregisterVol(acc, v, n), m2, deleted)
  IN FoldSet(LAMBDA v, acc : Ensure(acc, v), m3, changed)
ApplyNewV(m, n, v) ==                 \* IncrementalSyncDataNodeRegistration, one new volume (short form)
  LET old == m.dnv[n]
      isNew == v \notin DOMAIN old
      d == [Zero EXCEPT !.vc = B2N(isNew), !.rem = IF ~isNew /\ old[v].rem THEN 0 - 1 ELSE 0]
  IN RegisterVol(Count([m EXCEPT !.dnv[n] = Ext(old, v, Fresh0)], n, d), v, n, FALSE)
ApplyDelV(m, n, v) ==                 \* ... one deleted volume
  LET old == m.dnv[n]
      present == v \in DOMAIN old
      d == IF FixDelta
           THEN (IF present THEN [Zero EXCEPT !.vc = 0 - 1, !.rem = 0 - B2N(old[v].rem)] ELSE Zero)
           ELSE [Zero EXCEPT !.vc = 0 - 1]                 \* as found: no existence check, short form is never remote
      m1 == Count([m EXCEPT !.dnv[n] = IF present THEN Drop(old, v) ELSE old], n, d)
  IN UnregisterVol(m1, v, n)
EcDeltaAsFound(old, act) ==           \* as found: the new/deleted shard counts are never reset between ec volumes
  LET order == SetToSeq(DOMAIN old)
      nw(e) == Cardinality(Get(act, e, {}) \ old[e])
      dl(e) == Cardinality(old[e] \ Get(act, e, {}))
      upto(i) == {order[j] : j \in 1..i}
  IN MapThenSumSet(LAMBDA i : MapThenSumSet(nw, upto(i)) - MapThenSumSet(dl, upto(i)), DOMAIN order)
     + MapThenSumSet(LAMBDA e : Cardinality(act[e]), DOMAIN act \ DOMAIN old)
ApplyEcFull(m, n, act) ==             \* SyncDataNodeEcShards; act : ecvid -> non-empty set of shard ids
  LET old == m.ecn[n]
      dec == IF FixEcSync
             THEN MapThenSumSet(LAMBDA e : Cardinality(act[e]), DOMAIN act) - MapThenSumSet(LAMBDA e : Cardinality(old[e]), DOMAIN old)
             ELSE EcDeltaAsFound(old, act)
      m1 == Count([m EXCEPT !.ecn[n] = act], n, [Zero EXCEPT !.ec = dec])
  IN [m1 EXCEPT !.ecmap = [e \in EIds |->
        (@[e] \cup {<<b, n>> : b \in Get(act, e, {}) \ Get(old, e, {})}) \ {<<b, n>> : b \in Get(old, e, {}) \ Get(act, e, {})}]]
ApplyNewEc(m, n, e, b) ==
  LET old == m.ecn[n]
      had == b \in Get(old, e, {})
      m1 == Count([m EXCEPT !.ecn[n] = Ext(old, e, Get(old, e, {}) \cup {b})], n, [Zero EXCEPT !.ec = B2N(~had)])
  IN [m1 EXCEPT !.ecmap[e] = @ \cup {<<b, n>>}]
ApplyDelEc(m, n, e, b) ==
  LET old == m.ecn[n]
      had == b \in Get(old, e, {})
      m1 == IF e \in DOMAIN old
            THEN Count([m EXCEPT !.ecn[n] = IF old[e] \ {b} = {} THEN Drop(old, e) ELSE Ext(old, e, old[e] \ {b})],
                       n, [Zero EXCEPT !.ec = 0 - B2N(had)])
            ELSE m
  IN [m1 EXCEPT !.ecmap[e] = @ \ {<<b, n>>}]
ApplyClose(m, n) ==                   \* Topology.UnRegisterDataNode: the ec shard map is left alone
  LET m1 == FoldSet(LAMBDA v, acc : Unavailable(acc, v, n), m, DOMAIN m.dnv[n])
  IN [m1 EXCEPT !.tot = Plus(@, Neg(m1.cnt[n])), !.cnt[n] = Zero, !.dnv[n] = <<>>, !.ecn[n] = <<>>]
ApplyConnect(m, n) == Count(m, n, [Zero EXCEPT !.max = MaxSlots])     \* Rack.GetOrCreateDataNode
ApplyCollect(m) ==                    \* SetVolumeCapacityFull for every registered volume at / over the limit
  [m EXCEPT !.wr = @ \ {v \in VIds : \E n \in Nodes : sess[n] # "down" /\ v \in DOMAIN m.dnv[n] /\ m.dnv[n][v].big}]

(* ------------------------------ master events ------------------------------ *)
Log(e) == hist' = Append(hist, e) /\ lastwr' = M.wr
Budget == Len(hist) < Len(Prefix) + MaxOps
VolSeq(vs) == SetToSeq({[id |-> v, ro |-> vs[v].ro, big |-> vs[v].big, rem |-> vs[v].rem] : v \in DOMAIN vs})
EcSeq(act) == SetToSeq({[id |-> e, bits |-> SetToSeq(act[e])] : e \in DOMAIN act})
MFull(n) ==
  /\ Budget /\ sess[n] \in {"down", "up"}
  /\ M' = ApplyFull(IF sess[n] = "down" THEN ApplyConnect(M, n) ELSE M, n, srv[n])
  /\ sess' = [sess EXCEPT ![n] = IF @ = "down" THEN "needec" ELSE "up"]
  /\ Full(n, MaxMsg, VolSeq(srv[n]))
  /\ Log([ev |-> "full", n |-> n, mfk |-> 0, max |-> MaxMsg, vols |-> VolSeq(srv[n])])
  /\ UNCHANGED <<srv, srvec, pend, nsrv>>
MEcFull(n) ==
  /\ Budget /\ sess[n] \in {"needec", "up"}
  /\ M' = ApplyEcFull(M, n, srvec[n])
  /\ sess' = [sess EXCEPT ![n] = "up"]
  /\ EcFull(n, EcSeq(srvec[n]))
  /\ Log([ev |-> "ecfull", n |-> n, ecs |-> EcSeq(srvec[n])])
  /\ UNCHANGED <<srv, srvec, pend, nsrv>>
MDelta(n, d) ==
  /\ Budget /\ sess[n] = "up" /\ d \in pend[n]
  /\ pend' = [pend EXCEPT ![n] = @ \ {d}]
  /\ CASE d.t = "newv" -> /\ M' = ApplyNewV(M, n, d.v) /\ Inc(n, <<d.v>>, <<>>)
                          /\ Log([ev |-> "inc", n |-> n, newv |-> <<d.v>>, delv |-> <<>>])
       [] d.t = "delv" -> /\ M' = ApplyDelV(M, n, d.v) /\ Inc(n, <<>>, <<d.v>>)
                          /\ Log([ev |-> "inc", n |-> n, newv |-> <<>>, delv |-> <<d.v>>])
       [] d.t = "newec" -> /\ M' = ApplyNewEc(M, n, d.v, d.b) /\ EcInc(n, <<[id |-> d.v, bits |-> <<d.b>>]>>, <<>>)
                           /\ Log([ev |-> "ecinc", n |-> n, newec |-> <<[id |-> d.v, bits |-> <<d.b>>]>>, delec |-> <<>>])
       [] d.t = "delec" -> /\ M' = ApplyDelEc(M, n, d.v, d.b) /\ EcInc(n, <<>>, <<[id |-> d.v, bits |-> <<d.b>>]>>)
                           /\ Log([ev |-> "ecinc", n |-> n, newec |-> <<>>, delec |-> <<[id |-> d.v, bits |-> <<d.b>>]>>])
  /\ UNCHANGED <<srv, srvec, sess, nsrv>>
MClose(n) ==
  /\ Budget /\ sess[n] # "down"
  /\ M' = ApplyClose(M, n) /\ sess' = [sess EXCEPT ![n] = "down"]
  /\ Close(n) /\ Log([ev |-> "close", n |-> n])
  /\ UNCHANGED <<srv, srvec, pend, nsrv>>
MCollect ==
  /\ Budget /\ "big" \in Attrs /\ ~fresh
  /\ M' = ApplyCollect(M) /\ Collect /\ Log([ev |-> "collect"])
  /\ UNCHANGED <<srv, srvec, pend, sess, nsrv>>

Next == \/ \E n \in Nodes : \/ MFull(n) \/ MEcFull(n) \/ MClose(n)
                            \/ \E d \in pend[n] : MDelta(n, d)
                            \/ \E v \in VIds : SrvAdd(n, v) \/ SrvDel(n, v) \/ \E a \in Attrs : SrvFlip(n, v, a)
                            \/ \E e \in EIds, b \in Bits : SrvMount(n, e, b) \/ SrvUnmount(n, e, b)
        \/ MCollect
Spec == Init /\ [][Next]_vars

(* ------------------------------ what this master would report ------------------------------ *)
Up == {n \in Nodes : sess[n] # "down"}
Lv(k, n, c, hasi) ==
  [k |-> k, dc |-> IF k = "top" THEN "" ELSE "d1", rack |-> IF k = "top" THEN "" ELSE "r1", n |-> n, t |-> "",
   vc |-> c.vc, rem |-> c.rem, ec |-> c.ec, max |-> c.max, avail |-> FreeSlots(c.max, c.rem, c.vc, c.ec),
   hasi |-> hasi, ivc |-> c.vc, imax |-> c.max, ifree |-> c.max - c.vc, irem |-> c.rem]
Snap ==
  [tree |-> SetToSeq({[n |-> n, dc |-> "d1", rack |-> "r1"] : n \in Up}),
   vols |-> SetToSeq(UNION {{[n |-> n, t |-> "", id |-> v, ro |-> M.dnv[n][v].ro, big |-> M.dnv[n][v].big, rem |-> M.dnv[n][v].rem]
                              : v \in DOMAIN M.dnv[n]} : n \in Up}),
   ecs |-> SetToSeq(UNION {{[n |-> n, t |-> "", id |-> e, bits |-> SetToSeq(M.ecn[n][e])] : e \in DOMAIN M.ecn[n]} : n \in Up}),
   lv |-> <<Lv("top", "", M.tot, TRUE)>> \o SetToSeq({Lv("node", n, M.cnt[n], FALSE) : n \in Up})
          \o SetToSeq({Lv("disk", n, M.cnt[n], TRUE) : n \in Up}),
   look |-> SetToSeq({[id |-> v, ns |-> M.loc[v]] : v \in VIds})
            \o SetToSeq({[id |-> e, ns |-> SetToSeq({p[2] : p \in M.ecmap[e]})] : e \in EIds}),
   wr |-> SetToSeq(M.wr), picks |-> <<>>, pp |-> FALSE]

InvC12 == LET s == Snap IN C12OK(s)
\* with the open findings C11-ec-lookup-after-disconnect and C11-oversized-joins-writable admitted
InvC11 == LET s == Snap IN C11Base(s) /\ LookupEcStale(s) /\ RegBigStale(s, lastwr)
InvC11NoEc == LET s == Snap IN C11Base(s) /\ LookupEcStale(s) /\ RegBigOK(s)   \* breaks with replication-as-minimum
InvC11Strict == LET s == Snap IN C11OK(s)
\* design level, directly on the model state (not through the snapshot)
InvCounters == \A n \in Nodes : /\ M.cnt[n].vc = Cardinality(DOMAIN M.dnv[n])
                                /\ M.cnt[n].rem = Cardinality({v \in DOMAIN M.dnv[n] : M.dnv[n][v].rem})
                                /\ M.cnt[n].ec = MapThenSumSet(LAMBDA e : Cardinality(M.ecn[n][e]), DOMAIN M.ecn[n])
                                /\ M.cnt[n].vc >= 0
InvTotals == M.tot = FoldSet(LAMBDA n, acc : Plus(acc, M.cnt[n]), Zero, Nodes)
InvWritable == \A v \in M.wr : /\ Enough(M, v)
                               /\ \A n \in Range(M.loc[v]) : v \in DOMAIN M.dnv[n] /\ ~M.dnv[n][v].ro
InvLocations == \A v \in VIds : Range(M.loc[v]) = {n \in Up : v \in DOMAIN M.dnv[n]}

\* model checking: the future and the invariants depend on hist only through its length
MCView == <<srv, srvec, pend, sess, M, avars, lastwr, nsrv, Len(hist)>>

(* ------------------------------ generators ------------------------------ *)
Emit == Len(hist) < Len(Prefix) + MaxOps \/ PrintT(<<"W", ToJson(hist)>>)
View == <<srv, srvec, pend, sess, M, avars, lastwr, IF hist = <<>> THEN <<>> ELSE hist[Len(hist)]>>
EmitW == Len(hist) = Len(Prefix) \/ PrintT(<<"W", ToJson(hist)>>)
=============================================================================
