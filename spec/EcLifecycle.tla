---------------------------- MODULE EcLifecycle ----------------------------
(* Spec growth beyond the listed properties: the life cycle of a volume through
   erasure coding on one volume server, as the shell's ec.encode / ec.rebuild /
   ec.decode drive it over the volume server RPCs:

     vol --Encode--> ec --(Lose <= 4 shards, Rebuild)*--> ec --Decode--> vol

   (Encode = mark read-only, VolumeEcShardsGenerate, mount the 14 shards, delete the
   normal volume; Lose = unmount + delete some shards; Rebuild = VolumeEcShardsRebuild +
   mount; Decode = VolumeEcShardsToVolume, unmount + delete shards, mount the volume.)

   Layer A is the blob store of the volume family: live[k] = None or a data token.
   Every phase change is invisible to readers; deletes work in both phases; while data
   shards are missing a read may fail but never returns other bytes; writes are only
   issued while the volume is a normal volume.  The small model below (phase, set of
   present shards, journal of deletions made while erasure coded) generates the
   schedules; KeepsContent is its design-level invariant. *)
EXTENDS Integers, Sequences, FiniteSets, TLC, Json
CONSTANTS Keys, Datas, LossSets, MaxOps
VARIABLES live, phase, shards, journal, cycles, hist
vars == <<live, phase, shards, journal, cycles, hist>>
None == "none"
All == 0..13
Init == live = [k \in Keys |-> None] /\ phase = "vol" /\ shards = {} /\ journal = {} /\ cycles = 0 /\ hist = <<>>

Write(k, d) == phase = "vol" /\ live' = [live EXCEPT ![k] = d] /\ UNCHANGED <<phase, shards, journal, cycles>>
Delete(k) == /\ live' = [live EXCEPT ![k] = None]
             /\ journal' = IF phase = "ec" /\ live[k] # None THEN journal \cup {k} ELSE journal
             /\ UNCHANGED <<phase, shards, cycles>>
Encode == phase = "vol" /\ (\E k \in Keys : live[k] # None) /\ phase' = "ec" /\ shards' = All /\ journal' = {}
          /\ UNCHANGED <<live, cycles>>
Lose(S) == phase = "ec" /\ shards = All /\ S # {} /\ shards' = All \ S /\ UNCHANGED <<live, phase, journal, cycles>>
Rebuild == phase = "ec" /\ shards # All /\ Cardinality(shards) >= 10 /\ shards' = All /\ UNCHANGED <<live, phase, journal, cycles>>
(* decoding a volume in which everything was deleted is not generated: FindDatFileSize then
   computes size 0 and the decoded volume cannot be loaded (observed, outside the properties) *)
Decode == phase = "ec" /\ shards = All /\ (\E k \in Keys : live[k] # None) /\ phase' = "vol" /\ shards' = {} /\ journal' = {} /\ cycles' = cycles + 1
          /\ UNCHANGED live
Log(op) == hist' = Append(hist, op)
Next ==
  /\ Len(hist) < MaxOps
  /\ \/ \E k \in Keys, d \in Datas : Write(k, d) /\ Log([ev |-> "write", k |-> k, d |-> d])
     \/ \E k \in Keys : Delete(k) /\ Log([ev |-> "delete", k |-> k])
     \/ (Encode /\ Log([ev |-> "encode"]))
     \/ \E S \in LossSets : Lose(S) /\ Log([ev |-> "lose", shards |-> S])
     \/ (Rebuild /\ Log([ev |-> "rebuild"]))
     \/ (Decode /\ Log([ev |-> "decode"]))
Spec == Init /\ [][Next]_vars
(* design level: the journal only ever names keys that are gone, phases alternate *)
JournalOnlyDeleted == \A k \in journal : live[k] = None \/ phase = "vol"
ShardsOnlyWhenEc == (phase = "vol") = (shards = {})
ReadableWhenComplete == phase = "ec" => Cardinality(shards) >= 10
View == <<live, phase, shards, journal, IF hist = <<>> THEN <<>> ELSE hist[Len(hist)]>>
MCView == <<live, phase, shards, journal>>
Emit == Len(hist) < MaxOps \/ PrintT(<<"W", ToJson(hist)>>)
EmitW == hist = <<>> \/ PrintT(<<"W", ToJson(hist)>>)
=============================================================================
