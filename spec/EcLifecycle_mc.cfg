SPECIFICATION Spec
INVARIANT JournalOnlyDeleted
INVARIANT ShardsOnlyWhenEc
INVARIANT ReadableWhenComplete
VIEW MCView
CHECK_DEADLOCK FALSE
