----------------------------- MODULE CacheSpec -----------------------------
(* C31 - the mount's chunk cache is transparent (weed/util/chunk_cache).

   A file id is a record [v, k, c] (volume id, needle key, cookie).  A chunk
   content is described by [d, n]: n bytes, byte j (from 0) = (d + j) % 251 (a
   "ramp" starting at d).  The driver reports every byte string it gets back as
   its sequence of maximal ramps <<[s, n], ...>> (lossless re-encoding: start
   value and length of every stretch in which each byte is the predecessor
   plus one modulo 251); the empty sequence is "nothing" (nil or empty slice).

   stored = every [fid, d, n] ever handed to SetChunk.  The statement speaks
   about "the bytes that were stored for that same file id": a lookup may
   answer nothing at any time (it is a cache), or the leading bytes of SOME
   content stored under exactly this file id - at least minSize of them
   (GetChunk's contract: the caller slices [0, minSize) out of the answer).
   Nothing is said about which of several contents stored under one id wins,
   so none is demanded.  A restart keeps `stored` (what may come back) as is.

   GetChunkSlice(fid, off, len): nothing, or bytes [off, off+m) of a content
   stored under this id with 1 <= m <= len. *)
EXTENDS Integers, Sequences, FiniteSets, TLC, Json
CONSTANTS Fids,      \* generator: file ids
          Sizes,     \* generator: chunk sizes
          MaxOps
VARIABLES stored, hist
avars == <<stored, hist>>

M == 251
Ramp(d, n) == <<[s |-> d % M, n |-> n]>>

(* res is a prefix with at least min bytes of a content stored under a file id in F *)
PrefixOf(F, min, res) ==
  /\ Len(res) = 1
  /\ \E e \in stored : /\ e.fid \in F
                       /\ res[1].s = e.d % M
                       /\ min <= res[1].n /\ 1 <= res[1].n /\ res[1].n <= e.n
SliceOf(F, off, len, res) ==
  /\ Len(res) = 1
  /\ \E e \in stored : /\ e.fid \in F
                       /\ res[1].s = (e.d + off) % M
                       /\ 1 <= res[1].n /\ res[1].n <= len /\ off + res[1].n <= e.n

GetOk(fid, min, res) == res = <<>> \/ PrefixOf({fid}, min, res)
SliceOk(fid, off, len, res) == res = <<>> \/ SliceOf({fid}, off, len, res)

(* KNOWN FINDING C31-disk-key-only: the on-disk tiers are indexed by the needle key
   alone (volume id and cookie of the file id are dropped), so a lookup may answer
   with the content stored under ANOTHER file id that has the same needle key *)
SameKeyOthers(fid) == {e.fid : e \in {x \in stored : x.fid.k = fid.k /\ x.fid # fid}}
GetAliased(fid, min, res) == PrefixOf(SameKeyOthers(fid), min, res) /\ ~GetOk(fid, min, res)
SliceAliased(fid, off, len, res) == SliceOf(SameKeyOthers(fid), off, len, res) /\ ~SliceOk(fid, off, len, res)

Init == stored = {} /\ hist = <<>>
Set(fid, d, n) == stored' = stored \cup {[fid |-> fid, d |-> d, n |-> n]}
Get(fid, min, res) == GetOk(fid, min, res) /\ UNCHANGED stored
GetSlice(fid, off, len, res) == SliceOk(fid, off, len, res) /\ UNCHANGED stored
Restart == UNCHANGED stored

(* ---- generator / design level (layer A alone): an ideal cache that keeps everything ---- *)
Log(op) == hist' = Append(hist, op)
FidNo(fid) == fid.v * 16 + fid.k * 4 + fid.c   \* content id used by the TLC generators: one content per file id
ANext ==
  /\ Len(hist) < MaxOps
  /\ \/ \E f \in Fids, n \in Sizes : Set(f, FidNo(f), n) /\ Log([ev |-> "set", fid |-> f, d |-> FidNo(f), n |-> n])
     \/ Restart /\ Log([ev |-> "restart"])
ASpec == Init /\ [][ANext]_avars
(* what the ideal cache would answer is admitted, and an answer for one id is never admitted for
   an id that was not stored (no aliasing at design level) *)
Longest(fid) == LET S == {e \in stored : e.fid = fid} IN
                IF S = {} THEN <<>> ELSE LET e == CHOOSE x \in S : \A y \in S : y.n <= x.n IN Ramp(e.d, e.n)
IdealAdmitted == \A f \in Fids : LET r == Longest(f) IN r = <<>> \/ GetOk(f, r[1].n, r)
NoAliasAtDesignLevel ==
  \A f, g \in Fids : (f # g /\ Longest(g) # <<>>) => ~GetOk(f, 1, Longest(g))
=============================================================================
