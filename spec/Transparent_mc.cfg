SPECIFICATION Spec
INVARIANT PipelineTransparent
INVARIANT FlagMeansGz
INVARIANT Emit
CHECK_DEADLOCK FALSE
