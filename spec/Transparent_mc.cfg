SPECIFICATION Spec
INVARIANT PipelineTransparent
INVARIANT FlagMeansGz
INVARIANT WrongMd5Refused
INVARIANT Emit
CHECK_DEADLOCK FALSE
