----------------------------- MODULE ReplImpl -----------------------------
(* Layer B for C40: weed/topology/store_replicate.go as the volume server's POST
   and DELETE handlers run it, for one replicated volume with N copies.

     live[r]   the BlobStore state of replica r's copy (key -> None | Blob(c,d,m));
               a copy keeps it while unmounted
     ro[r]     MarkVolumeReadonly on r
     cache     operation.Lookup's process-wide location cache for this volume
               (vc, 10 minutes): NoCache or the set of locations the master listed
               when a volume server first asked - it does NOT follow later
               unmounts / deletes, the master's own view does
     member, mounted, val, need, alt      ghost: the layer-A state (ReplWrite)
     phase     "op": the next step is a client operation or a fault;
               "snap": the replicas are about to be observed (SnapsAdmitted is
               the refinement invariant checked in this phase)

   ReplicatedWrite (initial request at server `to`):
     getWritableRemoteReplications: locations from cache/master minus self;
       lookup error -> error; own copy in service and fewer locations than the
       copy count -> error (nothing written);
     local write if the own copy is in service (read-only -> error, return)
       - NOT an error if it is not: the server then only forwards;
     distributedOperation: the write is sent to every remote location in
       parallel with type=replicate and name/mime/pairs/ts/ttl, all results are
       collected, any error fails the request (the successful replicas keep the
       write: no rollback);
     a replicate request at a server where the volume is not in service fails
       (AckMissing = TRUE models the code before the fix: it was acknowledged
       without writing anything).
   ReplicatedDelete likewise; the DELETE handler first reads the needle (404 if
   it is not there - util.Delete counts a replica's 404 as success) and the
   fix makes a replicate delete fail with 500 when the volume is not there.

   Transient: a subset of the remote replicas whose request fails in transit
   (per-replica failure injection; only the model explores it).

   The per-copy write follows VolumeImpl/BlobStore: an unchanged rewrite keeps
   the old record (C01-unchanged-keeps-metadata), an empty payload is a size-0
   needle (no metadata, delete is a no-op, lost on reload).

   The way an upload enters (Ways; weed/operation/upload_content.go in front of
   the POST handler):
     "mp"      a multipart POST as the client typed it: stored as sent
               (compressed iff the client said Content-Encoding: gzip = Gz(m))
     "reader"  operation.Upload / UploadData: doUploadData passes a compressed
               input on with the gzip header, otherwise sniffs the mime type when
               none is given and compresses text (here: metadata without a mime
               type - the payload tokens are text); the bytes stored are the
               compressed ones WITH the flag, so every copy decodes to the input
     "cipher"  the same with cipher = true: the input (decompressed first when it
               came compressed) is encrypted with a fresh key, the needle carries
               no name, mime or pairs (metadata token m0), the key is returned to
               the client only when the upload succeeds
   A stored blob is Blob(c, d, m) + rep ("raw" | "gz": stored compressed with the
   flag | "gzlost": compressed bytes WITHOUT the flag - only the seeded defect
   DropGzFlag produces it) + enc (0 = not encrypted, n = encrypted with key n).
     nkey      the next fresh key
     ckey[k]   the keys the client holds for k (every key a successful encrypted
               upload of k returned); a copy's decoded content is d iff it is not
               encrypted or encrypted with one of them, and its bytes are not
               "gzlost"; the outcome names the key that opens it (dec = "k<n>")
   The fan-out forwards the primary's stored bytes, flag and metadata: a replica's
   blob is the primary's (the re-compression of an uncompressed text needle by the
   forwarding UploadData is not modelled: it does not change what decodes).
   ReEncrypt (seeded defect, never the real code): the fan-out calls UploadData
   with cipher = true - every replica stores the bytes under a key of its own.
   DropGzFlag (seeded defect): doUpload passes isInputCompressed = false on. *)
EXTENDS ReplWrite, Json
CONSTANTS N, Keys, Cookies, Datas, MetaSet, VTtl, MaxOps, BKF, AckMissing, WithTransient, Faults, NoCountCheck, WithRace, SkipFanoutUnchanged,
          Ways, ReEncrypt, DropGzFlag
VARIABLES live, ro, cache, phase, hist, nkey, ckey
ivars == <<live, ro, cache, phase, hist, nkey, ckey>>
vars == <<ivars, avars>>

Reps == {r \in AllR : r < N}
NoCache == {-1}
InService == member \cap mounted
MasterView == InService

Init ==
  /\ live = [r \in Reps |-> [k \in Keys |-> None]]
  /\ ro = [r \in Reps |-> FALSE]
  /\ cache = NoCache /\ phase = "op" /\ hist = <<>>
  /\ nkey = 1 /\ ckey = [k \in Keys |-> {}]
  /\ AInit(N, [st |-> "gone", c |-> "", d |-> ""])

(* ---------------- one copy: doWriteRequest / doDeleteRequest (see VolumeImpl) ---------------- *)
KeyName(n) == "k" \o ToString(n)
(* what the POST handler receives for an upload of (d, m) that entered by `way` *)
SniffsText(m) == MetaTable[m].mime = ""
RepOf(way, m) ==
  CASE way = "mp" -> IF Gz(m) THEN "gz" ELSE "raw"
    [] way = "reader" -> IF Gz(m) THEN (IF DropGzFlag THEN "gzlost" ELSE "gz")
                         ELSE IF SniffsText(m) THEN "gz" ELSE "raw"
    [] way = "cipher" -> "raw"
SBlob(c, d, m, way, key) ==
  IF way = "cipher" THEN [c |-> c, d |-> d, m |-> "m0", rep |-> "raw", enc |-> key]
  ELSE [c |-> c, d |-> d, m |-> m, rep |-> RepOf(way, m), enc |-> 0]
(* a size-0 needle: empty payload, neither gzip-wrapped nor encrypted *)
SEmpty(b) == b # None /\ b.d = "e" /\ b.rep = "raw" /\ b.enc = 0
SDropEmpties(l) == [k \in DOMAIN l |-> IF SEmpty(l[k]) THEN None ELSE l[k]]
(* same cookie, same stored bytes: never for an encrypted needle (fresh key and nonce) *)
Unchanged(b, nb) == VTtl = "" /\ b # None /\ ~SEmpty(b) /\ b.enc = 0 /\ nb.enc = 0
                    /\ b.c = nb.c /\ b.d = nb.d /\ b.rep = nb.rep
CopyWrite(l, k, nb) == IF Unchanged(l[k], nb) THEN l ELSE [l EXCEPT ![k] = nb]
CopyDelete(l, k) == IF l[k] = None \/ SEmpty(l[k]) THEN l ELSE [l EXCEPT ![k] = None]

(* ---------------- operation.Lookup through the cache ---------------- *)
Locs == IF cache # NoCache THEN cache ELSE MasterView
CacheAfter == IF cache = NoCache /\ MasterView # {} THEN MasterView ELSE cache

(* what a remote replica answers to a replicate write: "ok" (written), "ack" (acknowledged, nothing written),
   "err" *)
RemoteWrite(r, T) ==
  IF r \in T THEN "err"
  ELSE IF r \notin InService THEN (IF AckMissing THEN "ack" ELSE "err")
  ELSE IF ro[r] THEN "err" ELSE "ok"
RemoteDelete(r, k, T) ==
  IF r \in T THEN "err"
  ELSE IF r \notin InService THEN (IF AckMissing THEN "ack" ELSE "err")
  ELSE IF live[r][k] = None THEN "ack"           \* 404 from the replica counts as success
  ELSE IF ro[r] THEN "err" ELSE "ok"

(* ---------------- POST /vid,fid at server `to` ---------------- *)
Upload(to, k, c, d, m, T, way) ==
  LET nb == SBlob(c, d, m, way, nkey)
      \* what replica r is sent: the primary's needle (ReEncrypt: encrypted once more, under a key of r's own)
      fwd(r) == IF ReEncrypt THEN [nb EXCEPT !.enc = nkey + 1 + r] ELSE nb
      locs == Locs
      remote == locs \ {to}
      own == to \in InService
      early == locs = {} \/ (own /\ ~NoCountCheck /\ Cardinality(locs) < N) \/ (own /\ ro[to])
      \* SkipFanoutUnchanged (a seeded defect, never the real code): an unchanged local write returns at once
      skip == SkipFanoutUnchanged /\ own /\ Unchanged(live[to][k], nb)
      rres == [r \in remote |-> IF skip THEN "ack" ELSE RemoteWrite(r, T)]
      res == IF early \/ \E r \in remote : rres[r] = "err" THEN "err" ELSE "ok"
  IN /\ cache' = CacheAfter
     /\ live' = IF early THEN live
                ELSE [r \in Reps |-> IF r = to /\ own THEN CopyWrite(live[r], k, nb)
                                     ELSE IF r \in remote /\ rres[r] = "ok" THEN CopyWrite(live[r], k, fwd(r))
                                     ELSE live[r]]
     /\ nkey' = IF way = "cipher" THEN nkey + 1 + (IF ReEncrypt THEN N ELSE 0) ELSE nkey
     \* the key reaches the client with the upload result: only when the upload is reported successful
     /\ ckey' = IF way = "cipher" /\ res = "ok" THEN [ckey EXCEPT ![k] = @ \cup {nkey}] ELSE ckey
     /\ AUpload(to, k, c, d, VTtl, res, way = "cipher", IF way = "cipher" THEN {<<"dec", KeyName(nkey)>>} ELSE {})

(* ---------------- two POSTs for one file id at the same time ---------------- *)
(* Both handlers run ReplicatedWrite concurrently: each copy sees the two writes (one as a local write or as a
   replicate request, the other likewise) in an order of its own - nothing orders a primary's local write and
   its fan-out against the other request.  Modelled with every copy in service and writable (both succeed). *)
Race(to1, to2, k, c, d1, d2, m) ==
  /\ InService = Reps /\ \A r \in Reps : ~ro[r]
  /\ d1 # d2
  /\ cache' = CacheAfter
  /\ \E last \in [Reps -> {d1, d2}] : live' = [r \in Reps |-> [live[r] EXCEPT ![k] = SBlob(c, last[r], m, "mp", 0)]]
  /\ ARace(k, c, d1, d2, "ok", "ok")
  /\ UNCHANGED <<nkey, ckey>>

(* ---------------- DELETE /vid,fid at server `to` ---------------- *)
Delete(to, k, c, T) ==
  LET own == to \in InService
      found == own /\ live[to][k] # None /\ (SEmpty(live[to][k]) \/ live[to][k].c = c)
      locs == Locs
      remote == locs \ {to}
      early == locs = {} \/ (~NoCountCheck /\ Cardinality(locs) < N) \/ ro[to]
      rres == [r \in remote |-> RemoteDelete(r, k, T)]
      res == IF ~found THEN "notfound"
             ELSE IF early \/ \E r \in remote : rres[r] = "err" THEN "err" ELSE "ok"
  IN /\ cache' = IF found THEN CacheAfter ELSE cache
     /\ live' = IF ~found \/ early THEN live
                ELSE [r \in Reps |-> IF r = to \/ (r \in remote /\ rres[r] = "ok")
                                     THEN CopyDelete(live[r], k) ELSE live[r]]
     /\ ADelete(to, k, c, res)
     /\ UNCHANGED <<nkey, ckey>>

(* ---------------- replica faults ---------------- *)
Fault(kind, r) ==
  /\ CASE kind = "ro" -> ~ro[r] /\ r \in InService
       [] kind = "rw" -> ro[r] /\ r \in InService
       [] kind = "unmount" -> r \in InService
       [] kind = "mount" -> r \in member /\ r \notin mounted
       [] kind = "voldelete" -> r \in InService /\ Cardinality(member) > 1
  /\ ro' = CASE kind = "ro" -> [ro EXCEPT ![r] = TRUE]
             [] kind \in {"rw", "mount"} -> [ro EXCEPT ![r] = FALSE]
             [] OTHER -> ro
  (* mount = index replay: size-0 entries are read as deletions *)
  /\ live' = IF kind = "mount" THEN [live EXCEPT ![r] = SDropEmpties(live[r])] ELSE live
  /\ AFault(kind, r, "ok")
  /\ UNCHANGED <<cache, nkey, ckey>>

(* ---------------- the observation: what every replica holds ---------------- *)
(* decoding as a client does that holds ckey[k]: decrypt when the bytes are encrypted with one of its keys, gunzip
   when the needle carries the flag; anything else comes back as the stored bytes ("?" + ... : not a payload token) *)
Decoded(b, k) ==
  IF b.enc # 0 /\ b.enc \notin ckey[k] THEN "?enc"
  ELSE IF b.rep = "gzlost" THEN "?gz" ELSE b.d
HeldOf(r, k) ==
  LET b == live[r][k] IN
  IF b = None THEN [st |-> "gone", c |-> "", d |-> ""]
  ELSE IF SEmpty(b) THEN [st |-> "data", c |-> "?", d |-> "e"]
  ELSE [st |-> "data", c |-> b.c, d |-> Decoded(b, k), m |-> b.m,
        dec |-> IF b.enc \in ckey[k] THEN KeyName(b.enc) ELSE "plain", ct |-> b.enc]
ObsOf(r, k) == IF r \notin Reps \/ r \notin InService THEN [st |-> "novol", c |-> "", d |-> ""] ELSE HeldOf(r, k)
Obs(k) == [r \in AllR |-> ObsOf(r, k)]

Snap ==
  /\ phase = "snap" /\ phase' = "op"
  /\ val' = [r \in AllR |-> [k \in AllK |-> IF k \in Keys /\ r \in Readable(Obs(k)) THEN ObsOf(r, k) ELSE val[r][k]]]
  /\ UNCHANGED <<live, ro, cache, hist, nkey, ckey, member, mounted, need, alt, want>>

Op ==
  /\ phase = "op" /\ Len(hist) < MaxOps /\ phase' = "snap"
  /\ \/ \E to \in Reps, k \in Keys, c \in Cookies, d \in Datas, m \in MetaSet, way \in Ways :
          \E T \in (IF WithTransient THEN SUBSET (Reps \ {to}) ELSE {{}}) :
            /\ to \in member
            /\ Upload(to, k, c, d, m, T, way)
            /\ hist' = Append(hist, [ev |-> "upload", to |-> to, k |-> k, c |-> c, d |-> d, m |-> m, way |-> way])
            /\ UNCHANGED ro
     \/ \E to \in Reps, k \in Keys, c \in Cookies :
          \E T \in (IF WithTransient THEN SUBSET (Reps \ {to}) ELSE {{}}) :
            /\ to \in member
            /\ Delete(to, k, c, T)
            /\ hist' = Append(hist, [ev |-> "delete", to |-> to, k |-> k, c |-> c])
            /\ UNCHANGED ro
     \/ \E to1 \in Reps, to2 \in Reps, k \in Keys, c \in Cookies, d1 \in Datas \ {"e"}, d2 \in Datas \ {"e"}, m \in MetaSet :
            /\ WithRace
            /\ Race(to1, to2, k, c, d1, d2, m)
            /\ hist' = Append(hist, [ev |-> "race", k |-> k, c |-> c, to1 |-> to1, d1 |-> d1, to2 |-> to2, d2 |-> d2])
            /\ UNCHANGED ro
     \/ \E kind \in Faults, r \in Reps :
            /\ Fault(kind, r)
            /\ hist' = Append(hist, [ev |-> "fault", kind |-> kind, r |-> r])

Next == Op \/ Snap
Spec == Init /\ [][Next]_vars

(* ---------------- properties ---------------- *)
(* refinement: what the replicas hold after every step is admitted by layer A, strictly or through
   deviations listed in BKF *)
SnapsAdmitted == phase = "snap" => \A k \in Keys : \E S \in SUBSET BKF : SnapOK(k, Obs(k), S)
(* the statement itself, spelled out on the implementation state: after a successful operation on k,
   any two copies (in service or not) that are not excused by a listed deviation hold the same blob *)
Excused(r, k) == \E a \in alt[r][k] : a.ids \subseteq BKF /\ Matches(a, HeldOf(r, k))
Agreement ==
  phase = "snap" =>
    \A k \in Keys : need[k] =>
      /\ \A r1, r2 \in member : (~Excused(r1, k) /\ ~Excused(r2, k)) => live[r1][k] = live[r2][k]
      \* ... and that blob is what the operation promised: it decodes (with the key the client was given) to the
      \* uploaded bytes, a deleted one is gone
      /\ \A r \in member : ~Excused(r, k) => Meets(want[k], HeldOf(r, k))
      \* an excuse covers what the defect does to that copy only: the others still hold what it is bound to
      /\ \A r \in member : Excused(r, k) =>
            \E a \in alt[r][k] : /\ a.ids \subseteq BKF /\ Matches(a, HeldOf(r, k))
                                  /\ \A w \in member : ~Excused(w, k) => Compatible(a, HeldOf(r, k), HeldOf(w, k))
TypeOK == /\ member \subseteq Reps /\ mounted \subseteq member
          /\ cache = NoCache \/ cache \subseteq Reps

(* model checking: the history only bounds the length of a behaviour (and names the generated scripts) - states that
   differ in nothing but the operations that led to them have the same successors and satisfy the same invariants *)
MCView == <<live, ro, cache, phase, Len(hist), nkey, ckey, avars>>
View == <<phase, live, ro, cache, ckey, member, mounted, need, IF hist = <<>> THEN <<>> ELSE hist[Len(hist)]>>
Emit == (phase = "op" /\ Len(hist) = MaxOps) => PrintT(<<"W", ToJson(hist)>>)
EmitW == (phase = "snap" /\ hist # <<>>) => PrintT(<<"W", ToJson(hist)>>)
=============================================================================
