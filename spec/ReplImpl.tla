----------------------------- MODULE ReplImpl -----------------------------
(* Layer B for C40: weed/topology/store_replicate.go as the volume server's POST
   and DELETE handlers run it, for one replicated volume with N copies.

     live[r]   the BlobStore state of replica r's copy (key -> None | Blob(c,d,m));
               a copy keeps it while unmounted
     ro[r]     MarkVolumeReadonly on r
     cache     operation.Lookup's process-wide location cache for this volume
               (vc, 10 minutes): NoCache or the set of locations the master listed
               when a volume server first asked - it does NOT follow later
               unmounts / deletes, the master's own view does
     member, mounted, val, need, alt      ghost: the layer-A state (ReplWrite)
     phase     "op": the next step is a client operation or a fault;
               "snap": the replicas are about to be observed (SnapsAdmitted is
               the refinement invariant checked in this phase)

   ReplicatedWrite (initial request at server `to`):
     getWritableRemoteReplications: locations from cache/master minus self;
       lookup error -> error; own copy in service and fewer locations than the
       copy count -> error (nothing written);
     local write if the own copy is in service (read-only -> error, return)
       - NOT an error if it is not: the server then only forwards;
     distributedOperation: the write is sent to every remote location in
       parallel with type=replicate and name/mime/pairs/ts/ttl, all results are
       collected, any error fails the request (the successful replicas keep the
       write: no rollback);
     a replicate request at a server where the volume is not in service fails
       (AckMissing = TRUE models the code before the fix: it was acknowledged
       without writing anything).
   ReplicatedDelete likewise; the DELETE handler first reads the needle (404 if
   it is not there - util.Delete counts a replica's 404 as success) and the
   fix makes a replicate delete fail with 500 when the volume is not there.

   Transient: a subset of the remote replicas whose request fails in transit
   (per-replica failure injection; only the model explores it).

   The per-copy write follows VolumeImpl/BlobStore: an unchanged rewrite keeps
   the old record (C01-unchanged-keeps-metadata), an empty payload is a size-0
   needle (no metadata, delete is a no-op, lost on reload). *)
EXTENDS ReplWrite, Json
CONSTANTS N, Keys, Cookies, Datas, MetaSet, VTtl, MaxOps, BKF, AckMissing, WithTransient, Faults, NoCountCheck, WithRace, SkipFanoutUnchanged
VARIABLES live, ro, cache, phase, hist
ivars == <<live, ro, cache, phase, hist>>
vars == <<ivars, avars>>

Reps == {r \in AllR : r < N}
NoCache == {-1}
InService == member \cap mounted
MasterView == InService

Init ==
  /\ live = [r \in Reps |-> [k \in Keys |-> None]]
  /\ ro = [r \in Reps |-> FALSE]
  /\ cache = NoCache /\ phase = "op" /\ hist = <<>>
  /\ AInit(N, [st |-> "gone", c |-> "", d |-> ""])

(* ---------------- one copy: doWriteRequest / doDeleteRequest (see VolumeImpl) ---------------- *)
Unchanged(b, c, d, m) == VTtl = "" /\ b # None /\ ~StoredEmpty(b) /\ b.c = c /\ b.d = d /\ Gz(b.m) = Gz(m)
CopyWrite(l, k, c, d, m) == IF Unchanged(l[k], c, d, m) THEN l ELSE [l EXCEPT ![k] = Blob(c, d, m)]
CopyDelete(l, k) == IF l[k] = None \/ StoredEmpty(l[k]) THEN l ELSE [l EXCEPT ![k] = None]

(* ---------------- operation.Lookup through the cache ---------------- *)
Locs == IF cache # NoCache THEN cache ELSE MasterView
CacheAfter == IF cache = NoCache /\ MasterView # {} THEN MasterView ELSE cache

(* what a remote replica answers to a replicate write: "ok" (written), "ack" (acknowledged, nothing written),
   "err" *)
RemoteWrite(r, T) ==
  IF r \in T THEN "err"
  ELSE IF r \notin InService THEN (IF AckMissing THEN "ack" ELSE "err")
  ELSE IF ro[r] THEN "err" ELSE "ok"
RemoteDelete(r, k, T) ==
  IF r \in T THEN "err"
  ELSE IF r \notin InService THEN (IF AckMissing THEN "ack" ELSE "err")
  ELSE IF live[r][k] = None THEN "ack"           \* 404 from the replica counts as success
  ELSE IF ro[r] THEN "err" ELSE "ok"

(* ---------------- POST /vid,fid at server `to` ---------------- *)
Upload(to, k, c, d, m, T) ==
  LET locs == Locs
      remote == locs \ {to}
      own == to \in InService
      early == locs = {} \/ (own /\ ~NoCountCheck /\ Cardinality(locs) < N) \/ (own /\ ro[to])
      \* SkipFanoutUnchanged (a seeded defect, never the real code): an unchanged local write returns at once
      skip == SkipFanoutUnchanged /\ own /\ Unchanged(live[to][k], c, d, m)
      rres == [r \in remote |-> IF skip THEN "ack" ELSE RemoteWrite(r, T)]
      res == IF early \/ \E r \in remote : rres[r] = "err" THEN "err" ELSE "ok"
  IN /\ cache' = CacheAfter
     /\ live' = IF early THEN live
                ELSE [r \in Reps |-> IF (r = to /\ own) \/ (r \in remote /\ rres[r] = "ok")
                                     THEN CopyWrite(live[r], k, c, d, m) ELSE live[r]]
     /\ AUpload(to, k, c, d, VTtl, res)

(* ---------------- two POSTs for one file id at the same time ---------------- *)
(* Both handlers run ReplicatedWrite concurrently: each copy sees the two writes (one as a local write or as a
   replicate request, the other likewise) in an order of its own - nothing orders a primary's local write and
   its fan-out against the other request.  Modelled with every copy in service and writable (both succeed). *)
Race(to1, to2, k, c, d1, d2, m) ==
  /\ InService = Reps /\ \A r \in Reps : ~ro[r]
  /\ d1 # d2
  /\ cache' = CacheAfter
  /\ \E last \in [Reps -> {d1, d2}] : live' = [r \in Reps |-> [live[r] EXCEPT ![k] = Blob(c, last[r], m)]]
  /\ ARace(k, c, d1, d2, "ok", "ok")

(* ---------------- DELETE /vid,fid at server `to` ---------------- *)
Delete(to, k, c, T) ==
  LET own == to \in InService
      found == own /\ live[to][k] # None /\ (StoredEmpty(live[to][k]) \/ live[to][k].c = c)
      locs == Locs
      remote == locs \ {to}
      early == locs = {} \/ (~NoCountCheck /\ Cardinality(locs) < N) \/ ro[to]
      rres == [r \in remote |-> RemoteDelete(r, k, T)]
      res == IF ~found THEN "notfound"
             ELSE IF early \/ \E r \in remote : rres[r] = "err" THEN "err" ELSE "ok"
  IN /\ cache' = IF found THEN CacheAfter ELSE cache
     /\ live' = IF ~found \/ early THEN live
                ELSE [r \in Reps |-> IF r = to \/ (r \in remote /\ rres[r] = "ok")
                                     THEN CopyDelete(live[r], k) ELSE live[r]]
     /\ ADelete(to, k, c, res)

(* ---------------- replica faults ---------------- *)
Fault(kind, r) ==
  /\ CASE kind = "ro" -> ~ro[r] /\ r \in InService
       [] kind = "rw" -> ro[r] /\ r \in InService
       [] kind = "unmount" -> r \in InService
       [] kind = "mount" -> r \in member /\ r \notin mounted
       [] kind = "voldelete" -> r \in InService /\ Cardinality(member) > 1
  /\ ro' = CASE kind = "ro" -> [ro EXCEPT ![r] = TRUE]
             [] kind \in {"rw", "mount"} -> [ro EXCEPT ![r] = FALSE]
             [] OTHER -> ro
  (* mount = index replay: size-0 entries are read as deletions *)
  /\ live' = IF kind = "mount" THEN [live EXCEPT ![r] = DropEmpties(live[r])] ELSE live
  /\ AFault(kind, r, "ok")
  /\ UNCHANGED cache

(* ---------------- the observation: what every replica holds ---------------- *)
HeldOf(r, k) ==
  IF live[r][k] = None THEN [st |-> "gone", c |-> "", d |-> ""]
  ELSE IF StoredEmpty(live[r][k]) THEN [st |-> "data", c |-> "?", d |-> "e"]
  ELSE [st |-> "data", c |-> live[r][k].c, d |-> live[r][k].d, m |-> live[r][k].m]
ObsOf(r, k) == IF r \notin Reps \/ r \notin InService THEN [st |-> "novol", c |-> "", d |-> ""] ELSE HeldOf(r, k)
Obs(k) == [r \in AllR |-> ObsOf(r, k)]

Snap ==
  /\ phase = "snap" /\ phase' = "op"
  /\ val' = [r \in AllR |-> [k \in AllK |-> IF k \in Keys /\ r \in Readable(Obs(k)) THEN ObsOf(r, k) ELSE val[r][k]]]
  /\ UNCHANGED <<live, ro, cache, hist, member, mounted, need, alt>>

Op ==
  /\ phase = "op" /\ Len(hist) < MaxOps /\ phase' = "snap"
  /\ \/ \E to \in Reps, k \in Keys, c \in Cookies, d \in Datas, m \in MetaSet :
          \E T \in (IF WithTransient THEN SUBSET (Reps \ {to}) ELSE {{}}) :
            /\ to \in member
            /\ Upload(to, k, c, d, m, T)
            /\ hist' = Append(hist, [ev |-> "upload", to |-> to, k |-> k, c |-> c, d |-> d, m |-> m])
            /\ UNCHANGED ro
     \/ \E to \in Reps, k \in Keys, c \in Cookies :
          \E T \in (IF WithTransient THEN SUBSET (Reps \ {to}) ELSE {{}}) :
            /\ to \in member
            /\ Delete(to, k, c, T)
            /\ hist' = Append(hist, [ev |-> "delete", to |-> to, k |-> k, c |-> c])
            /\ UNCHANGED ro
     \/ \E to1 \in Reps, to2 \in Reps, k \in Keys, c \in Cookies, d1 \in Datas \ {"e"}, d2 \in Datas \ {"e"}, m \in MetaSet :
            /\ WithRace
            /\ Race(to1, to2, k, c, d1, d2, m)
            /\ hist' = Append(hist, [ev |-> "race", k |-> k, c |-> c, to1 |-> to1, d1 |-> d1, to2 |-> to2, d2 |-> d2])
            /\ UNCHANGED ro
     \/ \E kind \in Faults, r \in Reps :
            /\ Fault(kind, r)
            /\ hist' = Append(hist, [ev |-> "fault", kind |-> kind, r |-> r])

Next == Op \/ Snap
Spec == Init /\ [][Next]_vars

(* ---------------- properties ---------------- *)
(* refinement: what the replicas hold after every step is admitted by layer A, strictly or through
   deviations listed in BKF *)
SnapsAdmitted == phase = "snap" => \A k \in Keys : \E S \in SUBSET BKF : SnapOK(k, Obs(k), S)
(* the statement itself, spelled out on the implementation state: after a successful operation on k,
   any two copies (in service or not) that are not excused by a listed deviation hold the same blob *)
Excused(r, k) == \E a \in alt[r][k] : a.ids \subseteq BKF /\ Matches(a, HeldOf(r, k))
Agreement ==
  phase = "snap" =>
    \A k \in Keys : need[k] =>
      /\ \A r1, r2 \in member : (~Excused(r1, k) /\ ~Excused(r2, k)) => live[r1][k] = live[r2][k]
      \* an excuse covers what the defect does to that copy only: the others still hold what it is bound to
      /\ \A r \in member : Excused(r, k) =>
            \E a \in alt[r][k] : /\ a.ids \subseteq BKF /\ Matches(a, HeldOf(r, k))
                                  /\ \A w \in member : ~Excused(w, k) => Compatible(a, HeldOf(r, k), HeldOf(w, k))
TypeOK == /\ member \subseteq Reps /\ mounted \subseteq member
          /\ cache = NoCache \/ cache \subseteq Reps

View == <<phase, live, ro, cache, member, mounted, need, IF hist = <<>> THEN <<>> ELSE hist[Len(hist)]>>
Emit == (phase = "op" /\ Len(hist) = MaxOps) => PrintT(<<"W", ToJson(hist)>>)
EmitW == (phase = "snap" /\ hist # <<>>) => PrintT(<<"W", ToJson(hist)>>)
=============================================================================
