----------------------------- MODULE BackupImpl -----------------------------
(* C37 layer B: the source volume's files, the backup's files and the `weed backup`
   procedure (command/backup.go runBackup + storage/volume_backup.go), with layer A
   (backup serves exactly the source's live blobs after every run) as the invariant.

   A data file is a sequence of records [k, ts, tomb, d]; ts = append time (logical
   clock); an index file is a sequence of entries [k, pos, del] (pos = position of the
   record in the data file).  rev = compaction revision of the super block.
   Sizes are in units of 8 bytes as the v3 record layout gives them for the driver's
   payloads (a and c: 7, b: 9, L: 86, tombstone: 4, super block: 1).

   Procedure (one Backup step):
     1. local revision < source revision  =>  local Compact2 + CommitCompact, revision := source's
     2. local data file longer than the source's  =>  destroy and recreate empty (revision 0)
     3. IncrementalBackup: since = append time of the record of the LAST local index entry;
        the source runs BinarySearchByAppendAtNs(since) over ITS index (assuming the index
        is ordered by append time) and streams its data file from the found record to the
        end; the backup appends the bytes and indexes the new records by scanning them.
   After an index-based compaction the index is ordered by key, not by append time:
   ConvergesAfterBackup fails (deviation C37-misses-after-source-compaction). *)
EXTENDS Integers, Sequences, FiniteSets, TLC, Json
CONSTANTS Keys, Datas, MaxOps, BKF   \* BKF: deviation ids admitted by the invariant
VARIABLES sdat, sidx, srev, bdat, bidx, brev, clock, synced, hist
vars == <<sdat, sidx, srev, bdat, bidx, brev, clock, synced, hist>>

Weight(r) == IF r.tomb THEN 4 ELSE CASE r.d = "a" -> 7 [] r.d = "c" -> 7 [] r.d = "b" -> 9 [] r.d = "L" -> 86 [] OTHER -> 7
RECURSIVE SizeOf(_)
SizeOf(dat) == IF dat = <<>> THEN 1 ELSE Weight(Head(dat)) + SizeOf(Tail(dat))

(* index replay into a key -> position map (MemDb / needle map): a deletion removes the key *)
RECURSIVE Replay(_, _)
Replay(ix, m) == IF ix = <<>> THEN m
                 ELSE LET e == Head(ix) IN
                      IF e.del THEN Replay(Tail(ix), [x \in DOMAIN m \ {e.k} |-> m[x]])
                      ELSE Replay(Tail(ix), [x \in DOMAIN m \cup {e.k} |-> IF x = e.k THEN e.pos ELSE m[x]])
LiveMap(ix) == Replay(ix, <<>>)
ReadOf(dat, ix, k) == LET m == LiveMap(ix) IN IF k \in DOMAIN m THEN dat[m[k]].d ELSE "none"

SortedKeys(S) == CHOOSE s \in [1..Cardinality(S) -> S] : \A i, j \in 1..Cardinality(S) : i < j => s[i] < s[j]
(* Compact2 + CommitCompact: live records in ascending key order *)
CompactDat(dat, ix) == LET m == LiveMap(ix)  ks == SortedKeys(DOMAIN m) IN [i \in 1..Len(ks) |-> dat[m[ks[i]]]]
CompactIdx(dat, ix) == LET m == LiveMap(ix)  ks == SortedKeys(DOMAIN m) IN [i \in 1..Len(ks) |-> [k |-> ks[i], pos |-> i, del |-> FALSE]]

Init == /\ sdat = <<>> /\ sidx = <<>> /\ srev = 0 /\ bdat = <<>> /\ bidx = <<>> /\ brev = 0
        /\ clock = 1 /\ synced = TRUE /\ hist = <<>>

Write(k, d) ==
  /\ IF ReadOf(sdat, sidx, k) = d
     THEN UNCHANGED <<sdat, sidx>>          \* isFileUnchanged: nothing is appended
     ELSE /\ sdat' = Append(sdat, [k |-> k, ts |-> clock, tomb |-> FALSE, d |-> d])
          /\ sidx' = Append(sidx, [k |-> k, pos |-> Len(sdat) + 1, del |-> FALSE])
  /\ clock' = clock + 1 /\ synced' = FALSE
  /\ UNCHANGED <<srev, bdat, bidx, brev>>
Delete(k) ==
  /\ IF ReadOf(sdat, sidx, k) = "none"
     THEN UNCHANGED <<sdat, sidx>>
     ELSE /\ sdat' = Append(sdat, [k |-> k, ts |-> clock, tomb |-> TRUE, d |-> "a"])
          /\ sidx' = Append(sidx, [k |-> k, pos |-> Len(sdat) + 1, del |-> TRUE])
  /\ clock' = clock + 1 /\ synced' = FALSE
  /\ UNCHANGED <<srev, bdat, bidx, brev>>
SourceCompact ==
  /\ sdat' = CompactDat(sdat, sidx) /\ sidx' = CompactIdx(sdat, sidx) /\ srev' = srev + 1
  /\ UNCHANGED <<bdat, bidx, brev, clock, synced>>

(* ---- the backup procedure as pure functions of (source files, backup files) ---- *)
TsAt(dat, ix, m) == dat[ix[m].pos].ts
RECURSIVE BSearch(_, _, _, _, _)
BSearch(dat, ix, since, lo, hi) ==       \* BinarySearchByAppendAtNs: returns Len+1 for "is last"
  IF lo >= hi THEN lo
  ELSE LET m == (lo + hi) \div 2 IN      \* 0-based m -> entry m+1
       IF TsAt(dat, ix, m + 1) <= since THEN BSearch(dat, ix, since, m + 1, hi)
       ELSE BSearch(dat, ix, since, lo, m)
Step1(bd, bx, br, sr) == IF br < sr THEN <<CompactDat(bd, bx), CompactIdx(bd, bx), sr>> ELSE <<bd, bx, br>>
Step2(s1, sd) == IF SizeOf(s1[1]) > SizeOf(sd) THEN <<<<>>, <<>>, 0>> ELSE s1
RECURSIVE ScanIdx(_, _, _)
ScanIdx(recs, base, acc) ==
  IF recs = <<>> THEN acc
  ELSE ScanIdx(Tail(recs), base + 1, Append(acc, [k |-> Head(recs).k, pos |-> base + 1, del |-> Head(recs).tomb]))
Step3(s2, sd, sx) ==
  LET bd == s2[1]  bx == s2[2]
      since == IF bx = <<>> THEN 0 ELSE bd[bx[Len(bx)].pos].ts
      l == BSearch(sd, sx, since, 0, Len(sx))           \* 0-based index of the first entry to copy
      tail == IF l >= Len(sx) THEN <<>> ELSE SubSeq(sd, sx[l + 1].pos, Len(sd))
  IN <<bd \o tail, ScanIdx(tail, Len(bd), bx), s2[3]>>
Procedure(bd, bx, br, sd, sx, sr) == Step3(Step2(Step1(bd, bx, br, sr), sd), sd, sx)

Backup ==
  /\ LET r == Procedure(bdat, bidx, brev, sdat, sidx, srev) IN bdat' = r[1] /\ bidx' = r[2] /\ brev' = r[3]
  /\ synced' = TRUE
  /\ UNCHANGED <<sdat, sidx, srev, clock>>

Log(op) == hist' = Append(hist, op)
Next ==
  /\ Len(hist) < MaxOps
  /\ \/ \E k \in Keys, d \in Datas : Write(k, d) /\ Log([ev |-> "write", k |-> k, d |-> d])
     \/ \E k \in Keys : Delete(k) /\ Log([ev |-> "delete", k |-> k])
     \/ (SourceCompact /\ Log([ev |-> "compact"]))
     \/ (Backup /\ Log([ev |-> "backup"]))
Spec == Init /\ [][Next]_vars

(* layer A: right after a backup run the backup serves exactly the source's live blobs *)
Converged == \A k \in Keys : ReadOf(bdat, bidx, k) = ReadOf(sdat, sidx, k)
ConvergesAfterBackup == (synced /\ hist # <<>> /\ hist[Len(hist)].ev = "backup")
                           => (Converged \/ "C37-misses-after-source-compaction" \in BKF)
IdxInDat == (\A i \in 1..Len(sidx) : sidx[i].pos <= Len(sdat)) /\ (\A i \in 1..Len(bidx) : bidx[i].pos <= Len(bdat))
MCView == <<sdat, sidx, srev, bdat, bidx, brev, synced, IF hist = <<>> THEN "" ELSE hist[Len(hist)].ev>>
View == <<sdat, sidx, srev, bdat, bidx, brev, synced, IF hist = <<>> THEN <<>> ELSE hist[Len(hist)]>>
Emit == Len(hist) < MaxOps \/ PrintT(<<"W", ToJson(hist)>>)
EmitW == hist = <<>> \/ PrintT(<<"W", ToJson(hist)>>)
(* witnesses of divergence: histories after which the model's backup differs from the source *)
EmitDiv == ~(hist # <<>> /\ hist[Len(hist)].ev = "backup" /\ ~Converged) \/ PrintT(<<"W", ToJson(hist)>>)
=============================================================================
