------------------------------- MODULE S3Auth -------------------------------
(* C26 - S3 requests take effect only with a valid, permitted signature.

   Layer A (the property): a decision table over abstract requests
       r = [route, style, cred, acts, anon, bucket]
   route  one of the 23 routes registered by weed/s3api/s3api_server.go
   style  how the request authenticates: V2H/V2P/V4H/V4P (header / presigned),
          V4S (streaming seed signature + chunk signatures), POSTPOL (browser form
          with a signed policy), or unsigned: ANON (nothing), USTREAM (no signature
          but x-amz-content-sha256: STREAMING-AWS4-HMAC-SHA256-PAYLOAD), UFORM (no
          signature but Content-Type: multipart/form-data), BEARER (Authorization:
          Bearer x)
   cred   valid | wrongsecret | unknownkey | tampered (something covered by the
          signature was changed after signing) | expired (presign / policy expiry in
          the past, signed correctly) | na (unsigned styles)
   acts   name of the action set of the signing identity (ActSets[acts])
   anon   name of the action set of the configured anonymous identity, or "absent"
   bucket the bucket the request addresses

       Reached(observation) => Allowed(r)

   Allowed(r) ==  (signed style /\ cred = valid /\ identity may do the route's operation
                   on the bucket)  \/  (unsigned /\ anonymous identity configured and may do it)

   Need(route) is the WEAKEST action that can reasonably be demanded for the route
   (a set: any one suffices; "Admin" always suffices).  Since the property is an
   implication, a gateway that demands more than Need never raises an alarm.

   Layer B (operators Gw...): the shape of the gateway's decision procedure (auth-type
   classification in s3api_auth.go, the Auth wrapper, the per-handler checks), with
   the two known deviations as named predicates; GwSound is model-checked.

   IAM part: GetActions(policy) never grants a (action, bucket) pair that no Allow
   statement names. *)
EXTENDS Integers, Sequences, FiniteSets, TLC, Json
CONSTANTS ActSets,     \* function: name -> set of [a |-> action, b |-> bucket or ""]
          ActNames,    \* names used for signing identities
          AnonNames,   \* names used for the anonymous identity, plus "absent"
          PolActs, PolRes,  \* IAM generator alphabets (tokens)
          KFM,         \* known-finding ids admitted when model-checking GwSound
          MaxOps
VARIABLES hist
vars == <<hist>>

(* b1x: a bucket whose name has b1 as a proper prefix - a bucket-limited action for b1 says nothing about it *)
Buckets == {"b1", "b1x", "b2", "b3"}
AllActs == {"Admin", "Read", "Write", "List", "Tagging"}

Routes == {"HeadObject", "HeadBucket", "CopyObjectPart", "PutObjectPart", "CompleteMultipartUpload",
           "NewMultipartUpload", "AbortMultipartUpload", "ListObjectParts", "ListMultipartUploads",
           "GetObjectTagging", "PutObjectTagging", "DeleteObjectTagging", "CopyObject", "PutObject", "PutBucket",
           "DeleteObject", "DeleteBucket", "ListObjectsV2", "GetObject", "ListObjectsV1", "PostPolicy",
           "DeleteMultipleObjects", "ListBuckets"}

Method(rt) ==
  CASE rt \in {"HeadObject", "HeadBucket"} -> "HEAD"
    [] rt \in {"CopyObjectPart", "PutObjectPart", "PutObjectTagging", "CopyObject", "PutObject", "PutBucket"} -> "PUT"
    [] rt \in {"CompleteMultipartUpload", "NewMultipartUpload", "PostPolicy", "DeleteMultipleObjects"} -> "POST"
    [] rt \in {"AbortMultipartUpload", "DeleteObjectTagging", "DeleteObject", "DeleteBucket"} -> "DELETE"
    [] OTHER -> "GET"

(* the weakest action that the operation can reasonably require; "ANY" = every
   authenticated (or configured anonymous) identity *)
Need(rt) ==
  CASE rt \in {"HeadObject", "GetObject"} -> {"Read"}
    [] rt = "HeadBucket" -> {"Read", "List"}
    [] rt \in {"ListObjectParts", "ListMultipartUploads"} -> {"Read", "List"}
    [] rt = "GetObjectTagging" -> {"Read", "Tagging"}
    [] rt \in {"PutObjectTagging", "DeleteObjectTagging"} -> {"Tagging"}
    [] rt \in {"ListObjectsV1", "ListObjectsV2"} -> {"List"}
    [] rt = "ListBuckets" -> {"ANY"}
    [] OTHER -> {"Write"}

TargetBuckets(rt) == IF rt = "PutBucket" THEN {"b3"} ELSE IF rt = "ListBuckets" THEN {""} ELSE {"b1", "b1x"}

CanDo(S, action, bucket) ==
  \/ action = "ANY"
  \/ [a |-> "Admin", b |-> ""] \in S
  \/ [a |-> action, b |-> ""] \in S
  \/ bucket # "" /\ ([a |-> action, b |-> bucket] \in S \/ [a |-> "Admin", b |-> bucket] \in S)
  \* a trailing-star pattern: "b*" matches every bucket of this universe (b1, b1x, b2, b3)
  \/ bucket # "" /\ ([a |-> action, b |-> "b*"] \in S \/ [a |-> "Admin", b |-> "b*"] \in S)
Permits(S, rt, bucket) == \E a \in Need(rt) : CanDo(S, a, bucket)

Signed == {"V2H", "V2P", "V4H", "V4P", "V4S", "POSTPOL"}
Unsigned == {"ANON", "USTREAM", "UFORM", "BEARER"}
Styles == Signed \cup Unsigned
Creds == {"valid", "wrongsecret", "unknownkey", "tampered", "expired", "na"}

Allowed(r) ==
  \/ r.style \in Signed /\ r.cred = "valid" /\ Permits(ActSets[r.acts], r.route, r.bucket)
  \/ r.style \in Unsigned /\ r.anon # "absent" /\ Permits(ActSets[r.anon], r.route, r.bucket)

(* what the driver records: touched = the filer calls made while the request was in
   flight ([via, m, p, st]); changed = the namespace under /buckets differs afterwards.
   A filer HTTP answer 301 is the filer's mux redirecting an unclean path: no entry
   was accessed by that call. *)
Reached(e) == e.changed \/ \E i \in 1..Len(e.touched) : e.touched[i].st # 301

(* ---------------- named deviations (known findings) ---------------- *)
(* requests the gateway types as "POST policy" (POST + multipart/form-data content type,
   no Authorization / presign parameters) pass the Auth wrapper unchecked; only the
   PostPolicy handler verifies anything. Bucket-level POSTs of that type are routed to
   the PostPolicy handler, so the bypass is real on the two object-level POST routes. *)
FormTyped(r) == Method(r.route) = "POST" /\ r.style \in {"UFORM", "POSTPOL"}
DevFormBypass(r) == FormTyped(r) /\ r.route \in {"CompleteMultipartUpload", "NewMultipartUpload"}
(* a POST-policy upload is executed for every identity whose policy signature is valid:
   the handler never asks whether that identity may write to the bucket *)
DevPostPolicyNoAuthz(r) ==
  r.style = "POSTPOL" /\ r.cred = "valid" /\ r.route \in {"PostPolicy", "DeleteMultipleObjects"}

(* ---------------- layer B: the gateway's decision procedure ---------------- *)
GwType(r) ==
  CASE r.style = "V2H" -> "SignedV2"
    [] r.style = "V2P" -> "PresignedV2"
    [] r.style \in {"V4S", "USTREAM"} /\ Method(r.route) = "PUT" -> "Streaming"
    [] r.style \in {"V4H", "V4S"} -> "Signed"
    [] r.style = "V4P" -> "Presigned"
    [] r.style = "BEARER" -> "JWT"
    [] r.style \in {"POSTPOL", "UFORM"} /\ Method(r.route) = "POST" -> "PostPolicy"
    [] r.style = "ANON" /\ r.route = "PostPolicy" -> "PostPolicy"   \* that route only matches form uploads
    [] OTHER -> "Anonymous"
CodeAction(rt) ==   \* registerRouter
  CASE rt \in {"HeadObject", "GetObject", "ListObjectParts", "ListMultipartUploads", "GetObjectTagging"} -> "Read"
    [] rt \in {"HeadBucket", "PutBucket"} -> "Admin"
    [] rt \in {"PutObjectTagging", "DeleteObjectTagging"} -> "Tagging"
    [] rt \in {"ListObjectsV1", "ListObjectsV2"} -> "List"
    [] rt = "ListBuckets" -> "ANY"
    [] OTHER -> "Write"
SigOK(r) == r.style \in Signed /\ r.cred = "valid"
HasV4Header(r) == r.style \in {"V4H", "V4S"}
GwAuthPass(r) ==
  LET t == GwType(r) IN
  CASE t \in {"SignedV2", "PresignedV2", "Signed", "Presigned"} ->
         SigOK(r) /\ CanDo(ActSets[r.acts], CodeAction(r.route), r.bucket)
    [] t = "Streaming" -> HasV4Header(r) /\ SigOK(r) /\ CanDo(ActSets[r.acts], CodeAction(r.route), r.bucket)
    [] t = "PostPolicy" -> TRUE
    [] t = "Anonymous" -> r.anon # "absent" /\ CanDo(ActSets[r.anon], CodeAction(r.route), r.bucket)
    [] OTHER -> FALSE
(* the handler the mux dispatches to: bucket-level POSTs with a form content type go to
   the PostPolicy handler whatever their query string says *)
GwHandler(r) == IF r.route = "PostPolicy" \/ (GwType(r) = "PostPolicy" /\ r.route = "DeleteMultipleObjects")
                THEN "PostPolicy" ELSE r.route
GwHandlerPass(r) ==
  CASE GwHandler(r) = "PostPolicy" -> r.style \in Signed /\ r.cred = "valid"   \* the form's policy signature
    [] GwHandler(r) \in {"PutObject", "PutObjectPart"} /\ GwType(r) = "Streaming" ->
         HasV4Header(r) /\ SigOK(r) /\ CanDo(ActSets[r.acts], "Write", r.bucket)
    [] OTHER -> TRUE
GwReaches(r) == GwAuthPass(r) /\ GwHandlerPass(r)

(* ---------------- generator ---------------- *)
Applicable(rt, st, cr) ==
  /\ st = "V4S" => Method(rt) = "PUT"
  /\ st = "POSTPOL" => Method(rt) = "POST"
  /\ st \in Unsigned <=> cr = "na"
  /\ cr = "expired" => st \in {"V2P", "V4P", "POSTPOL"}
Init == hist = <<>>
GenReq ==
  /\ Len(hist) < MaxOps
  /\ \E rt \in Routes, st \in Styles, cr \in Creds, ac \in ActNames, an \in AnonNames : \E bk \in TargetBuckets(rt) :
       /\ Applicable(rt, st, cr)
       /\ st \in Unsigned => ac = "None"
       /\ hist' = Append(hist, [ev |-> "req", route |-> rt, style |-> st, cred |-> cr, acts |-> ac, anon |-> an,
                                 bucket |-> bk])
Spec == Init /\ [][GenReq]_vars

(* design-level properties, checked over every generated request *)
Reqs == {hist[i] : i \in 1..Len(hist)}
(* nobody gets in without a credential unless an anonymous identity is configured *)
NoCredNoEntry == \A r \in Reqs : (r.cred # "valid" /\ r.anon = "absent") => ~Allowed(r)
(* an identity without actions never gets in, except on ListBuckets (any authenticated identity) *)
NoneNeverAllowed == \A r \in Reqs : (r.style \in Signed /\ r.acts = "None" /\ r.route # "ListBuckets") => ~Allowed(r)
AdminAlwaysAllowed == \A r \in Reqs : (r.style \in Signed /\ r.cred = "valid" /\ r.acts = "Admin") => Allowed(r)
(* the gateway's procedure lets a request through only if the table allows it, or the
   request falls under a known deviation *)
GwSound == \A r \in Reqs : GwReaches(r) =>
             \/ Allowed(r)
             \/ "C26-authtype-bypass" \in KFM /\ DevFormBypass(r)
             \/ "C26-postpolicy-no-authz" \in KFM /\ DevPostPolicyNoAuthz(r)
(* the code's action table never asks for less than Need *)
CodeAtLeastNeed == \A rt \in Routes, S \in {ActSets[n] : n \in ActNames}, b \in Buckets :
                      CanDo(S, CodeAction(rt), b) => Permits(S, rt, b)

Emit == Len(hist) < MaxOps \/ PrintT(<<"W", ToJson(hist)>>)

(* ---------------- IAM policy documents ---------------- *)
ActClass(tok) ==
  CASE tok = "s3:Get*" -> {"Read"}
    [] tok = "s3:Put*" -> {"Write"}
    [] tok = "s3:List*" -> {"List"}
    [] tok = "s3:Tagging*" -> {"Tagging"}
    [] tok = "s3:*" -> AllActs
    [] OTHER -> {}     \* a single operation (s3:DeleteObject, s3:GetObject) names no whole action class
ResBuckets(tok) ==
  CASE tok = "arn:aws:s3:::*" -> Buckets
    [] tok = "arn:aws:s3:::b1/*" -> {"b1"}
    [] tok = "arn:aws:s3:::b2/*" -> {"b2"}
    [] tok = "arn:aws:s3:::b2" -> {"b2"}
    [] OTHER -> {}
Range(s) == {s[i] : i \in 1..Len(s)}
Named(stmts) == UNION {ActClass(a) \X ResBuckets(rs) :
                        <<a, rs>> \in UNION {Range(st.acts) \X Range(st.res) : st \in {x \in Range(stmts) : x.eff = "Allow"}}}
(* what an identity holding the action strings `out` may do (Identity.canDo) *)
GrantOf(o) == (IF o.a = "Admin" THEN AllActs ELSE IF o.a \in AllActs THEN {o.a} ELSE {})
              \X (IF o.b \in {"", "*"} THEN Buckets ELSE IF o.b \in Buckets THEN {o.b} ELSE {})
Grants(out) == UNION {GrantOf(o) : o \in Range(out)}
PolicyOK(stmts, out) == Grants(out) \subseteq Named(stmts)

RECURSIVE SetToSeq(_)
SetToSeq(S) == IF S = {} THEN <<>> ELSE LET x == CHOOSE y \in S : TRUE IN <<x>> \o SetToSeq(S \ {x})
Small(S) == {x \in SUBSET S : Cardinality(x) \in 1..2}
Stmts == {[eff |-> e, acts |-> SetToSeq(a), res |-> SetToSeq(rs)] : e \in {"Allow", "Deny"}, a \in Small(PolActs), rs \in Small(PolRes)}
Stmts1 == {[eff |-> e, acts |-> <<a>>, res |-> <<rs>>] : e \in {"Allow", "Deny"}, a \in PolActs, rs \in PolRes}
(* documents of one statement (1-2 actions x 1-2 resources) and of two single-action, single-resource
   statements; the check adds seeded pairs of full statements *)
GenPol ==
  /\ hist = <<>>
  /\ \/ \E s \in Stmts : hist' = <<[ev |-> "pol", stmts |-> <<s>>]>>
     \/ MaxOps >= 2 /\ \E s \in Stmts1, t \in Stmts1 : hist' = <<[ev |-> "pol", stmts |-> <<s, t>>]>>
PolSpec == Init /\ [][GenPol]_vars
(* a reference translation satisfies the rule (the rule is satisfiable and not vacuous) *)
RefOut(stmts) ==
  LET pairs == UNION {Range(st.acts) \X Range(st.res) : st \in {x \in Range(stmts) : x.eff = "Allow"}}
      good == {p \in pairs : Cardinality(ActClass(p[1])) = 1 /\ Cardinality(ResBuckets(p[2])) = 1}
  IN SetToSeq({[a |-> CHOOSE x \in ActClass(p[1]) : TRUE, b |-> CHOOSE x \in ResBuckets(p[2]) : TRUE] : p \in good})
RefPolicyOK == \A i \in 1..Len(hist) : PolicyOK(hist[i].stmts, RefOut(hist[i].stmts))
DenyNamesNothing == \A i \in 1..Len(hist) :
                      (\A j \in 1..Len(hist[i].stmts) : hist[i].stmts[j].eff = "Deny") => Named(hist[i].stmts) = {}
EmitPol == hist = <<>> \/ PrintT(<<"W", ToJson(hist)>>)
=============================================================================
