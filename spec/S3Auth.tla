------------------------------- MODULE S3Auth -------------------------------
(* C26 - S3 requests take effect only with a valid, permitted signature.

   Layer A (the property): a decision table over abstract requests
       r = [route, style, cred, acts, anon, bucket]
   route  one of the 23 routes registered by weed/s3api/s3api_server.go
   style  how the request authenticates: V2H/V2P/V4H/V4P (header / presigned),
          V4S (streaming seed signature + chunk signatures), POSTPOL / POSTPOL2 (browser
          form with a policy signed the V4 / the V2 way), or unsigned: ANON (nothing), USTREAM (no signature
          but x-amz-content-sha256: STREAMING-AWS4-HMAC-SHA256-PAYLOAD), UFORM (no
          signature but Content-Type: multipart/form-data), BEARER (Authorization:
          Bearer x)
   cred   valid | wrongsecret | unknownkey | tampered (something covered by the
          signature was changed after signing) | expired (presign / policy expiry in
          the past, signed correctly) | na (unsigned styles)
   acts   name of the action set of the signing identity (ActSets[acts])
   anon   name of the action set of the configured anonymous identity, or "absent"
   bucket the bucket the request addresses

       Reached(observation) => Allowed(r)

   Allowed(r) ==  (signed style /\ cred = valid /\ identity may do the route's operation
                   on the bucket)  \/  (unsigned /\ anonymous identity configured and may do it)

   Need(route) is the WEAKEST action that can reasonably be demanded for the route
   (a set: any one suffices; "Admin" always suffices).  Since the property is an
   implication, a gateway that demands more than Need never raises an alarm.

   Layer B (operators Gw...): the shape of the gateway's decision procedure (auth-type
   classification in s3api_auth.go, the Auth wrapper, the per-handler checks), with
   the two known deviations as named predicates; GwSound is model-checked.

   Streaming uploads ("sreq", style V4S on PutObject / PutObjectPart with an explicit
   chunk list): the request may reach the filer only with a valid, permitted seed
   signature, and it may take effect (namespace change, object present) only if every
   chunk signature and the final zero-length chunk's signature verify; the object then
   stored is exactly the body that was sent (SReqOK). Layer B: S3AuthStreamImpl.tla.

   IAM part: GetActions(policy) never grants a (action, bucket) pair that no Allow
   statement names. Stateful IAM part ("iamop" / "ireq"): named[u] = the pairs named by
   the Allow statements of every document put for user u (since u was last deleted),
   live = the access keys created and not deleted; after every IAM API call the action
   list of every stored identity grants no more than named (IdsOK), and a request signed
   with an IAM-made key reaches the filer only if the key is live and named[u] permits
   the route on the bucket (IReqOK). Layer B: S3AuthIamImpl.tla. *)
EXTENDS Integers, Sequences, FiniteSets, TLC, Json
CONSTANTS ActSets,     \* function: name -> set of [a |-> action, b |-> bucket or ""]
          ActNames,    \* names used for signing identities
          AnonNames,   \* names used for the anonymous identity, plus "absent"
          PolActs, PolRes,  \* IAM generator alphabets (tokens)
          KFM,         \* known-finding ids admitted when model-checking GwSound
          MaxOps
VARIABLES hist,
          named,       \* IAM: user -> policy name -> set of <<action, bucket>> pairs named by the document put under that name
          live         \* IAM: set of <<user, key token>>: access keys created and not deleted
vars == <<hist, named, live>>

(* b1x: a bucket whose name has b1 as a proper prefix - a bucket-limited action for b1 says nothing about it *)
Buckets == {"b1", "b1x", "b2", "b3"}
AllActs == {"Admin", "Read", "Write", "List", "Tagging"}

Routes == {"HeadObject", "HeadBucket", "CopyObjectPart", "PutObjectPart", "CompleteMultipartUpload",
           "NewMultipartUpload", "AbortMultipartUpload", "ListObjectParts", "ListMultipartUploads",
           "GetObjectTagging", "PutObjectTagging", "DeleteObjectTagging", "CopyObject", "PutObject", "PutBucket",
           "DeleteObject", "DeleteBucket", "ListObjectsV2", "GetObject", "ListObjectsV1", "PostPolicy",
           "DeleteMultipleObjects", "ListBuckets"}

Method(rt) ==
  CASE rt \in {"HeadObject", "HeadBucket"} -> "HEAD"
    [] rt \in {"CopyObjectPart", "PutObjectPart", "PutObjectTagging", "CopyObject", "PutObject", "PutBucket"} -> "PUT"
    [] rt \in {"CompleteMultipartUpload", "NewMultipartUpload", "PostPolicy", "DeleteMultipleObjects"} -> "POST"
    [] rt \in {"AbortMultipartUpload", "DeleteObjectTagging", "DeleteObject", "DeleteBucket"} -> "DELETE"
    [] OTHER -> "GET"

(* the weakest action that the operation can reasonably require; "ANY" = every
   authenticated (or configured anonymous) identity *)
Need(rt) ==
  CASE rt \in {"HeadObject", "GetObject"} -> {"Read"}
    [] rt = "HeadBucket" -> {"Read", "List"}
    [] rt \in {"ListObjectParts", "ListMultipartUploads"} -> {"Read", "List"}
    [] rt = "GetObjectTagging" -> {"Read", "Tagging"}
    [] rt \in {"PutObjectTagging", "DeleteObjectTagging"} -> {"Tagging"}
    [] rt \in {"ListObjectsV1", "ListObjectsV2"} -> {"List"}
    [] rt = "ListBuckets" -> {"ANY"}
    [] OTHER -> {"Write"}

TargetBuckets(rt) == IF rt = "PutBucket" THEN {"b3"} ELSE IF rt = "ListBuckets" THEN {""} ELSE {"b1", "b1x"}

CanDo(S, action, bucket) ==
  \/ action = "ANY"
  \/ [a |-> "Admin", b |-> ""] \in S
  \/ [a |-> action, b |-> ""] \in S
  \/ bucket # "" /\ ([a |-> action, b |-> bucket] \in S \/ [a |-> "Admin", b |-> bucket] \in S)
  \* a trailing-star pattern: "b*" matches every bucket of this universe (b1, b1x, b2, b3)
  \/ bucket # "" /\ ([a |-> action, b |-> "b*"] \in S \/ [a |-> "Admin", b |-> "b*"] \in S)
Permits(S, rt, bucket) == \E a \in Need(rt) : CanDo(S, a, bucket)

Signed == {"V2H", "V2P", "V4H", "V4P", "V4S", "POSTPOL", "POSTPOL2"}
Forms == {"POSTPOL", "POSTPOL2"}
Unsigned == {"ANON", "USTREAM", "UFORM", "BEARER"}
Styles == Signed \cup Unsigned
Creds == {"valid", "wrongsecret", "unknownkey", "tampered", "expired", "na"}

Allowed(r) ==
  \/ r.style \in Signed /\ r.cred = "valid" /\ Permits(ActSets[r.acts], r.route, r.bucket)
  \/ r.style \in Unsigned /\ r.anon # "absent" /\ Permits(ActSets[r.anon], r.route, r.bucket)

(* what the driver records: touched = the filer calls made while the request was in
   flight ([via, m, p, st]); changed = the namespace under /buckets differs afterwards.
   A filer HTTP answer 301 is the filer's mux redirecting an unclean path: no entry
   was accessed by that call. *)
Reached(e) == e.changed \/ \E i \in 1..Len(e.touched) : e.touched[i].st # 301

(* ---------------- named deviations (known findings) ---------------- *)
(* requests the gateway types as "POST policy" (POST + multipart/form-data content type,
   no Authorization / presign parameters) pass the Auth wrapper unchecked; only the
   PostPolicy handler verifies anything. Bucket-level POSTs of that type are routed to
   the PostPolicy handler, so the bypass is real on the two object-level POST routes. *)
FormTyped(r) == Method(r.route) = "POST" /\ r.style \in {"UFORM"} \cup Forms
DevFormBypass(r) == FormTyped(r) /\ r.route \in {"CompleteMultipartUpload", "NewMultipartUpload"}
(* a POST-policy upload is executed for every identity whose policy signature is valid:
   the handler never asks whether that identity may write to the bucket *)
DevPostPolicyNoAuthz(r) ==
  r.style \in Forms /\ r.cred = "valid" /\ r.route \in {"PostPolicy", "DeleteMultipleObjects"}

(* ---------------- layer B: the gateway's decision procedure ---------------- *)
GwType(r) ==
  CASE r.style = "V2H" -> "SignedV2"
    [] r.style = "V2P" -> "PresignedV2"
    [] r.style \in {"V4S", "USTREAM"} /\ Method(r.route) = "PUT" -> "Streaming"
    [] r.style \in {"V4H", "V4S"} -> "Signed"
    [] r.style = "V4P" -> "Presigned"
    [] r.style = "BEARER" -> "JWT"
    [] r.style \in Forms \cup {"UFORM"} /\ Method(r.route) = "POST" -> "PostPolicy"
    [] r.style = "ANON" /\ r.route = "PostPolicy" -> "PostPolicy"   \* that route only matches form uploads
    [] OTHER -> "Anonymous"
CodeAction(rt) ==   \* registerRouter
  CASE rt \in {"HeadObject", "GetObject", "ListObjectParts", "ListMultipartUploads", "GetObjectTagging"} -> "Read"
    [] rt \in {"HeadBucket", "PutBucket"} -> "Admin"
    [] rt \in {"PutObjectTagging", "DeleteObjectTagging"} -> "Tagging"
    [] rt \in {"ListObjectsV1", "ListObjectsV2"} -> "List"
    [] rt = "ListBuckets" -> "ANY"
    [] OTHER -> "Write"
SigOK(r) == r.style \in Signed /\ r.cred = "valid"
HasV4Header(r) == r.style \in {"V4H", "V4S"}
GwAuthPass(r) ==
  LET t == GwType(r) IN
  CASE t \in {"SignedV2", "PresignedV2", "Signed", "Presigned"} ->
         SigOK(r) /\ CanDo(ActSets[r.acts], CodeAction(r.route), r.bucket)
    [] t = "Streaming" -> HasV4Header(r) /\ SigOK(r) /\ CanDo(ActSets[r.acts], CodeAction(r.route), r.bucket)
    [] t = "PostPolicy" -> TRUE
    [] t = "Anonymous" -> r.anon # "absent" /\ CanDo(ActSets[r.anon], CodeAction(r.route), r.bucket)
    [] OTHER -> FALSE
(* the handler the mux dispatches to: bucket-level POSTs with a form content type go to
   the PostPolicy handler whatever their query string says *)
GwHandler(r) == IF r.route = "PostPolicy" \/ (GwType(r) = "PostPolicy" /\ r.route = "DeleteMultipleObjects")
                THEN "PostPolicy" ELSE r.route
GwHandlerPass(r) ==
  CASE GwHandler(r) = "PostPolicy" -> r.style \in Signed /\ r.cred = "valid"   \* the form's policy signature
    [] GwHandler(r) \in {"PutObject", "PutObjectPart"} /\ GwType(r) = "Streaming" ->
         HasV4Header(r) /\ SigOK(r) /\ CanDo(ActSets[r.acts], "Write", r.bucket)
    [] OTHER -> TRUE
GwReaches(r) == GwAuthPass(r) /\ GwHandlerPass(r)

(* ---------------- generator ---------------- *)
Applicable(rt, st, cr) ==
  /\ st = "V4S" => Method(rt) = "PUT"
  /\ st \in Forms => Method(rt) = "POST"
  /\ st \in Unsigned <=> cr = "na"
  /\ cr = "expired" => st \in {"V2P", "V4P"} \cup Forms
IamUsers == {"u1", "u2", "zsync", "admin"}
AllPairs == AllActs \X Buckets
PNames == {"p1", "p2"}
NamedInit == [u \in IamUsers |-> [p \in PNames |-> IF u = "admin" THEN AllPairs ELSE {}]]
NamedOf(nm, u) == IF u \in DOMAIN nm THEN UNION {nm[u][p] : p \in PNames} ELSE {}
LiveInit == {<<"admin", "base">>}
Init == hist = <<>> /\ named = NamedInit /\ live = LiveInit
GenReq ==
  /\ UNCHANGED <<named, live>>
  /\ Len(hist) < MaxOps
  /\ \E rt \in Routes, st \in Styles, cr \in Creds, ac \in ActNames, an \in AnonNames : \E bk \in TargetBuckets(rt) :
       /\ Applicable(rt, st, cr)
       /\ st \in Unsigned => ac = "None"
       /\ hist' = Append(hist, [ev |-> "req", route |-> rt, style |-> st, cred |-> cr, acts |-> ac, anon |-> an,
                                 bucket |-> bk])
Spec == Init /\ [][GenReq]_vars

(* design-level properties, checked over every generated request *)
Reqs == {hist[i] : i \in 1..Len(hist)}
(* nobody gets in without a credential unless an anonymous identity is configured *)
NoCredNoEntry == \A r \in Reqs : (r.cred # "valid" /\ r.anon = "absent") => ~Allowed(r)
(* an identity without actions never gets in, except on ListBuckets (any authenticated identity) *)
NoneNeverAllowed == \A r \in Reqs : (r.style \in Signed /\ r.acts = "None" /\ r.route # "ListBuckets") => ~Allowed(r)
AdminAlwaysAllowed == \A r \in Reqs : (r.style \in Signed /\ r.cred = "valid" /\ r.acts = "Admin") => Allowed(r)
(* the gateway's procedure lets a request through only if the table allows it, or the
   request falls under a known deviation *)
GwSound == \A r \in Reqs : GwReaches(r) =>
             \/ Allowed(r)
             \/ "C26-authtype-bypass" \in KFM /\ DevFormBypass(r)
             \/ "C26-postpolicy-no-authz" \in KFM /\ DevPostPolicyNoAuthz(r)
(* the code's action table never asks for less than Need *)
CodeAtLeastNeed == \A rt \in Routes, S \in {ActSets[n] : n \in ActNames}, b \in Buckets :
                      CanDo(S, CodeAction(rt), b) => Permits(S, rt, b)

Emit == Len(hist) < MaxOps \/ PrintT(<<"W", ToJson(hist)>>)

(* ---------------- IAM policy documents ---------------- *)
(* What a token of a policy document NAMES (upper bounds, read the AWS way: action names are
   case-insensitive, a bare "*" is every action / every resource, a bucket ARN without "/*" still
   names that bucket). A token of another service, a single operation, an unknown operation or a
   string that is no S3 ARN names nothing. Every token of the generator alphabets is listed here. *)
ActClass(tok) ==
  CASE tok \in {"s3:Get*", "s3:get*"} -> {"Read"}
    [] tok = "s3:Put*" -> {"Write"}
    [] tok = "s3:List*" -> {"List"}
    [] tok = "s3:Tagging*" -> {"Tagging"}
    [] tok \in {"s3:*", "*"} -> AllActs
    [] OTHER -> {}     \* s3:DeleteObject (a single operation names no whole action class), s3:Bogus*, iam:Get*
ResBuckets(tok) ==
  CASE tok \in {"arn:aws:s3:::*", "arn:aws:s3:::*/*", "*"} -> Buckets
    [] tok \in {"arn:aws:s3:::b1/*", "arn:aws:s3:::b1", "arn:aws:s3:::b1/x/*"} -> {"b1"}
    [] tok \in {"arn:aws:s3:::b2/*", "arn:aws:s3:::b2"} -> {"b2"}
    [] tok = "arn:aws:s3:::b1*/*" -> {"b1", "b1x"}
    [] OTHER -> {}     \* arn:aws:iam:::b1/*, b1/* (no ARN), arn:aws:s3:::/* (empty bucket name)
Range(s) == {s[i] : i \in 1..Len(s)}
Named(stmts) == UNION {ActClass(a) \X ResBuckets(rs) :
                        <<a, rs>> \in UNION {Range(st.acts) \X Range(st.res) : st \in {x \in Range(stmts) : x.eff = "Allow"}}}
(* what an identity holding the action strings `out` may do (Identity.canDo). An action string is
   recorded as [a, b, g]: "Read" = [a: Read, b: "", g: TRUE] (global), "Read:b1" = [a: Read, b: b1,
   g: FALSE]; a bucket part ending in "*" is a prefix pattern; "Read:" (empty bucket part) matches
   no bucket. *)
BucketsOf(pat) ==
  CASE pat \in Buckets -> {pat}
    [] pat \in {"*", "b*"} -> Buckets
    [] pat = "b1*" -> {"b1", "b1x"}
    [] OTHER -> {}
GrantOf(o) == (IF o.a = "Admin" THEN AllActs ELSE IF o.a \in AllActs THEN {o.a} ELSE {})
              \X (IF o.g THEN Buckets ELSE BucketsOf(o.b))
Grants(out) == UNION {GrantOf(o) : o \in Range(out)}
PolicyOK(stmts, out) == Grants(out) \subseteq Named(stmts)

(* ---------------- IAM API: users, policies, access keys (layer A) ---------------- *)
(* e = [op, user, pname, key, stmts]. named[u][p] = what the Allow statements of the document put for
   user u under policy name p name. Putting a document under a name REPLACES the document of that name
   (PutUserPolicy "adds or updates an inline policy document"); deleting the policy or the user forgets
   it. Everything else (CreateUser, CreatePolicy, the read-only calls) names nothing new. Whether a call
   succeeded is not asked: a refused call may only grant less.
   acc = TRUE is the named deviation C26-putuserpolicy-accumulates: the gateway's identities keep what
   an earlier document of the same name gave. *)
PutAccumulates(e) == e.op = "PutUserPolicy" /\ ~(named[e.user][e.pname] \subseteq Named(e.stmts))
IamOp(e, acc) ==
  CASE e.op = "PutUserPolicy" ->
         named' = [named EXCEPT ![e.user][e.pname] = (IF acc THEN @ ELSE {}) \cup Named(e.stmts)] /\ UNCHANGED live
    [] e.op = "DeleteUserPolicy" ->
         named' = [named EXCEPT ![e.user][e.pname] = {}] /\ UNCHANGED live
    [] e.op = "DeleteUser" ->
         named' = [named EXCEPT ![e.user] = [p \in PNames |-> {}]] /\ live' = {k \in live : k[1] # e.user}
    [] e.op = "CreateAccessKey" -> live' = live \cup {<<e.user, e.key>>} /\ UNCHANGED named
    [] e.op = "DeleteAccessKey" -> live' = live \ {<<e.user, e.key>>} /\ UNCHANGED named
    [] OTHER -> UNCHANGED <<named, live>>
(* the stored identities after the call: ids = <<[name, acts, nkeys]>> *)
IdsOKIn(ids, nm) == \A i \in 1..Len(ids) : Grants(ids[i].acts) \subseteq NamedOf(nm, ids[i].name)
(* a real request signed (V4 header) with the IAM-made key `key` of `user` *)
AsActs(P) == {[a |-> p[1], b |-> p[2]] : p \in P}
(* e.sec = "old": signed with the secret the key had before an operator replaced it (RotateSecret keeps the access
   key id): such a request carries no valid signature and must not reach anything *)
IReqOK(e) == Reached(e) => (e.sec = "cur" /\ <<e.user, e.key>> \in live /\ Permits(AsActs(NamedOf(named, e.user)), e.route, e.bucket))

(* ---------------- streaming-signed uploads (layer A) ---------------- *)
(* e.chunks = <<[n |-> bytes, k |-> kind]>>: ok | baddata (a byte changed after signing) | badsig (signature
   altered) | nosig (no chunk-signature extension) | unchained (signed, but not chained to its predecessor).
   e.fin, the final zero-length chunk: ok | badsig | nosig | absent | cut (the body breaks off inside
   the last data chunk, no final chunk). e.decl: x-amz-decoded-content-length = exact | less | more
   than the bytes sent - the statement does not say what a wrong declaration must lead to.
   Chunk i is filled with the i-th capital letter; the driver reports the object found afterwards
   run-length encoded (stored = <<[c, n]>>). *)
Letters == <<"A", "B", "C", "D">>
SKinds == {"ok", "baddata", "badsig", "nosig", "unchained"}
SFins == {"ok", "badsig", "nosig", "absent", "cut"}
SDecls == {"exact", "less", "more"}
SCreds == {"valid", "wrongsecret", "unknownkey", "tampered"}
AllowedS(e) == e.cred = "valid" /\ Permits(ActSets[e.acts], e.route, e.bucket)
StreamValid(e) == e.fin = "ok" /\ \A i \in 1..Len(e.chunks) : e.chunks[i].k = "ok"
SentBody(e) == [i \in 1..Len(e.chunks) |-> [c |-> Letters[i], n |-> e.chunks[i].n]]
SReqOK(e) ==
  /\ Reached(e) => AllowedS(e)
  /\ e.changed => (AllowedS(e) /\ StreamValid(e))
  /\ e.present => (AllowedS(e) /\ StreamValid(e) /\ e.stored = SentBody(e))

RECURSIVE SetToSeq(_)
SetToSeq(S) == IF S = {} THEN <<>> ELSE LET x == CHOOSE y \in S : TRUE IN <<x>> \o SetToSeq(S \ {x})
Small(S) == {x \in SUBSET S : Cardinality(x) \in 1..2}
Stmts == {[eff |-> e, acts |-> SetToSeq(a), res |-> SetToSeq(rs)] : e \in {"Allow", "Deny"}, a \in Small(PolActs), rs \in Small(PolRes)}
Stmts1 == {[eff |-> e, acts |-> <<a>>, res |-> <<rs>>] : e \in {"Allow", "Deny"}, a \in PolActs, rs \in PolRes}
(* documents of one statement (1-2 actions x 1-2 resources) and of two single-action, single-resource
   statements; the check adds seeded pairs of full statements *)
GenPol ==
  /\ UNCHANGED <<named, live>>
  /\ hist = <<>>
  /\ \/ \E s \in Stmts : hist' = <<[ev |-> "pol", stmts |-> <<s>>]>>
     \/ MaxOps >= 2 /\ \E s \in Stmts1, t \in Stmts1 : hist' = <<[ev |-> "pol", stmts |-> <<s, t>>]>>
PolSpec == Init /\ [][GenPol]_vars
(* a reference translation satisfies the rule (the rule is satisfiable and not vacuous) *)
RefOut(stmts) ==
  LET pairs == UNION {Range(st.acts) \X Range(st.res) : st \in {x \in Range(stmts) : x.eff = "Allow"}}
      good == {p \in pairs : Cardinality(ActClass(p[1])) = 1 /\ Cardinality(ResBuckets(p[2])) = 1}
  IN SetToSeq({[a |-> CHOOSE x \in ActClass(p[1]) : TRUE, b |-> CHOOSE x \in ResBuckets(p[2]) : TRUE, g |-> FALSE] : p \in good})
RefPolicyOK == \A i \in 1..Len(hist) : PolicyOK(hist[i].stmts, RefOut(hist[i].stmts))
DenyNamesNothing == \A i \in 1..Len(hist) :
                      (\A j \in 1..Len(hist[i].stmts) : hist[i].stmts[j].eff = "Deny") => Named(hist[i].stmts) = {}
EmitPol == hist = <<>> \/ PrintT(<<"W", ToJson(hist)>>)
=============================================================================
