---------------------------- MODULE Placement ----------------------------
(* C10 - where volume growth may place the 1+x+y+z copies of a new volume.

   Layer A: Valid(T, rp, pref, S).  T is the set of volume servers with their
   position and their counters for the requested disk type:
       [id, dc, rack, max, vc, rem, ec]
   rp = <<x, y, z>> (other data centers, other racks, same rack), pref =
   [dc, rack, node] ("" = no wish).  A result of the growth step is either an
   error (always admitted: the statement only says what a placement must look
   like and that a failure must be reported as an error) or a list of servers
   S that is Valid: distinct, 1+x+y+z of them, each with a free slot, z+1 in
   one rack R of one data center D, y in y other racks of D, x in x other data
   centers, D / R / a server of R being the requested ones.

   A free slot is what the topology itself calls one (DiskUsageCounts.FreeSpace):
       max + remote - volumes - (ecShards \div 10 + 1 if ecShards > 0).

   Layer B (Outcomes): findEmptySlotsForOneVolume with math/rand and map order
   replaced by nondeterministic choice - PickNodesByWeight at the data center,
   rack and server level with their filter functions, ReserveOneVolume for the
   other racks and other data centers.  Inner levels decide on AGGREGATED
   counters, which is why they are kept in T.  Model-checked: every outcome of
   the algorithm is Valid, over every small topology (up to symmetry), every
   replication and every preference. *)
EXTENDS Integers, Sequences, FiniteSets, FiniteSetsExt, TLC, Json

FreeSlots(max, rem, vc, ec) == max + rem - vc - (IF ec > 0 THEN (ec \div 10) + 1 ELSE 0)
Free(r) == FreeSlots(r.max, r.rem, r.vc, r.ec)
Agg(G) == FreeSlots(MapThenSumSet(LAMBDA r : r.max, G), MapThenSumSet(LAMBDA r : r.rem, G),
                    MapThenSumSet(LAMBDA r : r.vc, G), MapThenSumSet(LAMBDA r : r.ec, G))
Copies(rp) == 1 + rp[1] + rp[2] + rp[3]

(* ------------------------------ layer A ------------------------------ *)
\* S : a sequence of server ids as returned
Valid(T, rp, pref, S) ==
  LET ids == {S[i] : i \in DOMAIN S}
      P == {r \in T : r.id \in ids}
  IN /\ Len(S) = Copies(rp) /\ Cardinality(ids) = Len(S)              \* exactly 1+x+y+z distinct servers
     /\ \A i \in ids : \E r \in T : r.id = i                             \* that exist
     /\ \A r \in P : Free(r) >= 1                                        \* each with a free slot
     /\ \E m \in P :                                                     \* m: a server of the main rack
          LET inRack == {r \in P : r.dc = m.dc /\ r.rack = m.rack}
              inDc == {r \in P : r.dc = m.dc /\ r.rack # m.rack}
              out == {r \in P : r.dc # m.dc}
          IN /\ Cardinality(inRack) = rp[3] + 1
             /\ Cardinality(inDc) = rp[2] /\ Cardinality({r.rack : r \in inDc}) = rp[2]
             /\ Cardinality(out) = rp[1] /\ Cardinality({r.dc : r \in out}) = rp[1]
             /\ pref.dc # "" => m.dc = pref.dc
             /\ pref.rack # "" => m.rack = pref.rack
             /\ pref.node # "" => \E r \in inRack : r.id = pref.node

Grow(T, rp, pref, err, S) == err \/ Valid(T, rp, pref, S)

(* ------------------------------ layer B ------------------------------ *)
Dcs(T) == {r.dc : r \in T}
InDc(T, d) == {r \in T : r.dc = d}
RacksOf(T, d) == {r.rack : r \in InDc(T, d)}
InRack(T, d, k) == {r \in T : r.dc = d /\ r.rack = k}
WithSlot(G) == {r \in G : Free(r) >= 1}

DcPasses(T, rp, pref, d) ==
  /\ pref.dc = "" \/ d = pref.dc
  /\ Cardinality(RacksOf(T, d)) >= rp[2] + 1
  /\ Agg(InDc(T, d)) >= rp[2] + rp[3] + 1
  /\ Cardinality({k \in RacksOf(T, d) : Cardinality(WithSlot(InRack(T, d, k))) >= rp[3] + 1}) >= rp[2] + 1
RackPasses(T, rp, pref, d, k) ==
  /\ pref.rack = "" \/ k = pref.rack
  /\ Agg(InRack(T, d, k)) >= rp[3] + 1
  /\ Cardinality(InRack(T, d, k)) >= rp[3] + 1
  /\ Cardinality(WithSlot(InRack(T, d, k))) >= rp[3] + 1
NodePasses(pref, r) == (pref.node = "" \/ r.id = pref.node) /\ Free(r) >= 1

\* ReserveOneVolume below a rack / a data center: some server with a slot (in a rack that counts itself free), or nothing
ReserveInRack(T, d, k) == WithSlot(InRack(T, d, k))
ReserveInDc(T, d) == UNION {ReserveInRack(T, d, k) : k \in {q \in RacksOf(T, d) : Agg(InRack(T, d, q)) > 0}}

\* all ways to take one server from each of the sets in Gs (the sets are pairwise disjoint or empty)
RECURSIVE OneOfEach(_)
OneOfEach(Gs) == IF Gs = {} THEN {{}}
                 ELSE LET g == CHOOSE x \in Gs : TRUE
                      IN {c \cup {r} : c \in OneOfEach(Gs \ {g}), r \in g}

\* the server sets the algorithm can return once main / other data centers and racks are picked
ServersIn(T, rp, pref, d, k, otherK, otherD) ==
  LET candN == WithSlot(InRack(T, d, k)) IN
  IF Cardinality(candN) < rp[3] + 1 THEN {} ELSE
  UNION { { {m} \cup others \cup a \cup b :
              others \in kSubset(rp[3], candN \ {m}),
              a \in OneOfEach({ReserveInRack(T, d, ok) : ok \in otherK}),
              b \in OneOfEach({ReserveInDc(T, od) : od \in otherD}) }
          : m \in {r \in candN : NodePasses(pref, r)} }
RacksIn(T, rp, pref, d, otherD) ==
  LET candK == {k \in RacksOf(T, d) : Agg(InRack(T, d, k)) > 0} IN
  IF Cardinality(candK) < rp[2] + 1 THEN {} ELSE
  UNION { UNION { ServersIn(T, rp, pref, d, k, otherK, otherD) : otherK \in kSubset(rp[2], candK \ {k}) }
          : k \in {q \in candK : RackPasses(T, rp, pref, d, q)} }
\* every server set findEmptySlotsForOneVolume can return (an error is always among its outcomes as well)
Outcomes(T, rp, pref) ==
  LET candD == {d \in Dcs(T) : Agg(InDc(T, d)) > 0} IN
  IF Cardinality(candD) < rp[1] + 1 THEN {} ELSE
  UNION { UNION { RacksIn(T, rp, pref, d, otherD) : otherD \in kSubset(rp[1], candD \ {d}) }
          : d \in {q \in candD : DcPasses(T, rp, pref, q)} }

(* ------------------------------ model checking / generator ------------------------------ *)
\* universe: 2 data centers x 2 racks x 2 servers; every server is of one kind
CONSTANTS Kinds,     \* subset of 0..5: 0 absent, 1 no slot, 2 one slot, 3 two slots, 4 one slot eaten by an ec shard, 5 overcommitted
          Digits,    \* replication digits explored, e.g. 0..2
          FullPrefs  \* also wishes that name only a server
VARIABLES kinds, req
pvars == <<kinds, req>>
Pos == << [id |-> "n1", dc |-> "d1", rack |-> "r1"], [id |-> "n2", dc |-> "d1", rack |-> "r1"],
          [id |-> "n3", dc |-> "d1", rack |-> "r2"], [id |-> "n4", dc |-> "d1", rack |-> "r2"],
          [id |-> "n5", dc |-> "d2", rack |-> "r1"], [id |-> "n6", dc |-> "d2", rack |-> "r1"],
          [id |-> "n7", dc |-> "d2", rack |-> "r2"], [id |-> "n8", dc |-> "d2", rack |-> "r2"] >>
KindCounts(k) == CASE k = 1 -> [max |-> 0, vc |-> 0, rem |-> 0, ec |-> 0]
                   [] k = 2 -> [max |-> 1, vc |-> 0, rem |-> 0, ec |-> 0]
                   [] k = 3 -> [max |-> 2, vc |-> 0, rem |-> 0, ec |-> 0]
                   [] k = 4 -> [max |-> 1, vc |-> 0, rem |-> 0, ec |-> 1]
                   [] k = 5 -> [max |-> 0, vc |-> 1, rem |-> 0, ec |-> 0]
TopoOf(ks) == {[id |-> Pos[i].id, dc |-> Pos[i].dc, rack |-> Pos[i].rack, max |-> KindCounts(ks[i]).max,
                vc |-> KindCounts(ks[i]).vc, rem |-> KindCounts(ks[i]).rem, ec |-> KindCounts(ks[i]).ec]
               : i \in {j \in 1..8 : ks[j] # 0}}
\* one representative per symmetry class (servers of a rack, racks of a data center, the data centers)
RackKey(ks, i) == ks[i] * 10 + ks[i + 1]
DcKey(ks, i) == RackKey(ks, i) * 100 + RackKey(ks, i + 2)
Canonical(ks) == /\ ks[1] <= ks[2] /\ ks[3] <= ks[4] /\ ks[5] <= ks[6] /\ ks[7] <= ks[8]
                 /\ RackKey(ks, 1) <= RackKey(ks, 3) /\ RackKey(ks, 5) <= RackKey(ks, 7)
                 /\ DcKey(ks, 1) <= DcKey(ks, 5)
NoPref == [dc |-> "", rack |-> "", node |-> ""]
Prefs == {NoPref}
         \cup {[NoPref EXCEPT !.dc = d] : d \in {"d1", "d2"}}
         \cup {[NoPref EXCEPT !.rack = k] : k \in {"r1", "r2"}}
         \cup {[NoPref EXCEPT !.dc = d, !.rack = k] : d \in {"d1", "d2"}, k \in {"r1", "r2"}}
         \cup (IF FullPrefs THEN {[NoPref EXCEPT !.node = Pos[i].id] : i \in 1..8} ELSE {})
         \cup {[dc |-> Pos[i].dc, rack |-> Pos[i].rack, node |-> Pos[i].id] : i \in 1..8}
PInit == /\ kinds \in {ks \in [1..8 -> Kinds] : Canonical(ks)}
         /\ req \in [rp : Digits \X Digits \X Digits, pref : Prefs]
PSpec == PInit /\ [][UNCHANGED pvars]_pvars
IdSeq(P) == LET ids == {r.id : r \in P} IN CHOOSE q \in [1..Cardinality(ids) -> ids] : \A i, j \in DOMAIN q : i # j => q[i] # q[j]
\* the design-level statement: whatever the algorithm returns is a valid placement
AlgoSound == \A P \in Outcomes(TopoOf(kinds), req.rp, req.pref) : Valid(TopoOf(kinds), req.rp, req.pref, IdSeq(P))
PEmit == PrintT(<<"W", ToJson([kinds |-> kinds, rp |-> req.rp, pref |-> req.pref,
                               can |-> Outcomes(TopoOf(kinds), req.rp, req.pref) # {}])>>)
=============================================================================
