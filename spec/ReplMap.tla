------------------------------ MODULE ReplMap ------------------------------
(* C36 - replication / sync / backup mirror exactly the watched subtree.

   A change event of the source filer names an old entry and/or a new entry
   (paths = sequences of name components; <<>> = "no such entry"):
       create  old = <<>>         update  old = new
       delete  new = <<>>         rename  old # new (a move: within, into, out of, or outside the subtree)
   A configuration gives the watched source directory  src  and the target
   directory  dst  (component sequences; whether the raw option had a trailing
   slash is carried along but means nothing here), whether the sink is
   incremental (one sub-directory per day below dst) and which code path runs.

   "Inside src" is COMPONENT-WISE: src is a proper prefix of the path as a
   sequence of names.  /data2/x and /datax are outside /data.

   The layer-A judgement  Admit(c, e, calls)  says which sequences of sink calls
   (create / update / delete with raw key strings) the statement allows for one
   event; it demands only
     - safety: every call is keyed by the mapped old path (delete, update) or the
       mapped new path (create) and carries the right entry and the event's
       signatures; hence an event with no path inside produces no call, and no call
       is ever keyed outside dst;
     - an event that originated from the target cluster produces no call;
     - net effect: new path inside => its mapped key ends up present; delete inside
       => mapped key ends up absent; rename within (not incremental) => old key
       absent and new key present.
   It is silent (admits both) on: update as update-call or as delete+create;
   rename out of the subtree as delete or as nothing; what an incremental sink
   does with deletes and with the old key of a rename; which of the two
   entries' days an incremental key uses; events of a third cluster handed to
   filer.replicate with a filer sink.

   TreeOk(c, e, T, T2) judges the file tree of a local sink directory (keys =
   component sequences below the sink root, values = file content) before and
   after one event in the same way; directories are not constrained. *)
EXTENDS Integers, Sequences, FiniteSets, TLC, Json
CONSTANTS Paths,       \* generator: source-side entry paths
          DirPaths,    \* generator: source-side paths that are only ever directories
          Cfgs,        \* generator: configurations
          Kinds,       \* generator: subset of {"create","update","delete","rename"}
          Consistent,  \* generator: TRUE = only events that make sense for the modelled source tree
          MaxOps
VARIABLES cfg, srcT, dstT, last, hist
vars == <<cfg, srcT, dstT, last, hist>>

(* ------------------------------------------------------------ paths *)
IsPrefix(p, q) == Len(p) <= Len(q) /\ SubSeq(q, 1, Len(p)) = p
Inside(c, p) == Len(p) > Len(c.src) /\ IsPrefix(c.src, p)
Suffix(c, p) == SubSeq(p, Len(c.src) + 1, Len(p))
Parent(p) == SubSeq(p, 1, Len(p) - 1)
Name(p) == p[Len(p)]
RECURSIVE Str(_)
Str(s) == IF s = <<>> THEN "" ELSE "/" \o s[1] \o Str(Tail(s))
KeyStr(s) == IF s = <<>> THEN "/" ELSE Str(s)            \* canonical raw form of a path
JoinStr(d, n) == IF d = "/" THEN "/" \o n ELSE d \o "/" \o n

OIn(c, e) == e.old # <<>> /\ Inside(c, e.old)
NIn(c, e) == e.new # <<>> /\ Inside(c, e.new)
(* day sub-directories an incremental key may use: the day of either entry of the event *)
Dates(c, e) == IF ~c.incr THEN {<<>>}
               ELSE (IF e.old # <<>> THEN {<<c.d1>>} ELSE {}) \cup (IF e.new # <<>> THEN {<<c.d2>>} ELSE {})
MapC(c, p, d) == c.dst \o d \o Suffix(c, p)
OldKeysC(c, e) == IF OIn(c, e) THEN {MapC(c, e.old, d) : d \in Dates(c, e)} ELSE {}
NewKeysC(c, e) == IF NIn(c, e) THEN {MapC(c, e.new, d) : d \in Dates(c, e)} ELSE {}
OldKeys(c, e) == {KeyStr(k) : k \in OldKeysC(c, e)}
NewKeys(c, e) == {KeyStr(k) : k \in NewKeysC(c, e)}
NewParents(c, e) == IF NIn(c, e) THEN {KeyStr(MapC(c, Parent(e.new), d)) : d \in Dates(c, e)} ELSE {}

IsDelete(e) == e.old # <<>> /\ e.new = <<>>
IsRename(e) == e.old # <<>> /\ e.new # <<>> /\ e.old # e.new

(* ------------------------------------------------------------ origin *)
TargetIsCluster(c) == c.mode = "sync" \/ (c.mode = "replicate" /\ c.sname = "filer")
MustIgnore(c, e) == e.origin = "target" /\ TargetIsCluster(c)
MayIgnore(c, e) == MustIgnore(c, e) \/ (c.mode = "replicate" /\ c.sname = "filer" /\ e.origin = "third")

(* ------------------------------------------------------------ sink calls *)
(* a call: [op, key, np, name, on, isdir, c, found, sigs, other]; sigs = the signatures
   handed on to the target and other = "tell the target this change comes from another
   cluster": both are what lets the opposite direction recognise the change as its own *)
CallOk(c, e, k) ==
  /\ k.sigs = e.sigs /\ k.other
  /\ CASE k.op = "delete" -> k.key \in OldKeys(c, e) /\ k.isdir = e.isdir
       [] k.op = "create" -> /\ k.key \in NewKeys(c, e) /\ k.name = Name(e.new)
                             /\ k.isdir = e.isdir /\ (e.isdir \/ k.c = e.nc)
       [] k.op = "update" -> /\ k.key \in OldKeys(c, e) /\ k.np \in NewParents(c, e)
                             /\ k.name = Name(e.new) /\ k.on = Name(e.old)
                             /\ k.isdir = e.isdir /\ (e.isdir \/ k.c = e.nc)
       [] OTHER -> FALSE

Put(st, k, v) == [x \in DOMAIN st \cup {k} |-> IF x = k THEN v ELSE st[x]]
Is(st, k, v) == k \in DOMAIN st /\ st[k] = v
RECURSIVE Eff(_, _)
Eff(calls, st) ==
  IF calls = <<>> THEN st
  ELSE LET k == Head(calls)
           st1 == CASE k.op = "create" -> Put(st, k.key, "P")
                    [] k.op = "delete" -> Put(st, k.key, "A")
                    [] k.op = "update" -> IF k.found THEN Put(Put(st, k.key, "A"), JoinStr(k.np, k.name), "P") ELSE st
                    [] OTHER -> st
       IN Eff(Tail(calls), st1)

NetOk(c, e, calls) ==
  LET st == Eff(calls, <<>>) IN
  /\ NIn(c, e) => \E k \in NewKeys(c, e) : Is(st, k, "P")
  /\ (OIn(c, e) /\ IsDelete(e) /\ ~c.incr) => \E k \in OldKeys(c, e) : Is(st, k, "A")
  /\ (OIn(c, e) /\ NIn(c, e) /\ IsRename(e) /\ ~c.incr) => \E k \in OldKeys(c, e) : Is(st, k, "A")

Applied(c, e, calls) == (\A i \in 1..Len(calls) : CallOk(c, e, calls[i])) /\ NetOk(c, e, calls)
Admit(c, e, calls) ==
  IF MustIgnore(c, e) THEN calls = <<>>
  ELSE (MayIgnore(c, e) /\ calls = <<>>) \/ Applied(c, e, calls)

(* ------------------------------------------------------------ local sink tree *)
Dom2(T, T2) == DOMAIN T \cup DOMAIN T2
Same(T, T2, k) == (k \in DOMAIN T <=> k \in DOMAIN T2) /\ (k \in DOMAIN T => T[k] = T2[k])
UnderAny(S, k) == \E r \in S : IsPrefix(r, k)
(* Content(e) = the content a mirrored new file must have *)
FileTreeOk(c, e, T, T2, content) ==
  LET OK == OldKeysC(c, e)
      NK == NewKeysC(c, e)
  IN /\ \A k \in Dom2(T, T2) \ (OK \cup NK) : Same(T, T2, k)
     /\ NIn(c, e) => \E k \in NK : k \in DOMAIN T2 /\ T2[k] = content
     /\ (OIn(c, e) /\ IsDelete(e) /\ ~c.incr) => \A k \in OK : k \notin DOMAIN T2
     /\ (OIn(c, e) /\ NIn(c, e) /\ IsRename(e) /\ ~c.incr) => \A k \in OK \ NK : k \notin DOMAIN T2
     /\ \A k \in (OK \cup NK) \cap DOMAIN T2 : T2[k] = content \/ (k \in DOMAIN T /\ T2[k] = T[k])
     /\ \A k \in OK \ NK : k \in DOMAIN T2 => Same(T, T2, k)      \* the old key is never rewritten
DirTreeOk(c, e, T, T2) ==
  LET R == OldKeysC(c, e) \cup NewKeysC(c, e)
  IN \A k \in Dom2(T, T2) : UnderAny(R, k) \/ Same(T, T2, k)
TreeOk(c, e, T, T2) ==
  IF MustIgnore(c, e) THEN T2 = T
  ELSE \/ MayIgnore(c, e) /\ T2 = T
       \/ IF e.isdir THEN DirTreeOk(c, e, T, T2) ELSE FileTreeOk(c, e, T, T2, e.nc)

(* ------------------------------------------------------------ named deviations (known findings) *)
(* C36-sync-rename-into-dropped: genProcessFunction returns early when the OLD entry's
   directory is outside the source path, so a move from outside into the watched
   subtree produces no call (its "old key outside, new key inside => create" branch is dead) *)
RenameIntoDropped(c, e, calls) ==
  c.mode \in {"syncfn", "sync"} /\ IsRename(e) /\ ~OIn(c, e) /\ NIn(c, e) /\ calls = <<>>
(* C36-localsink-rename-rewrites-old: LocalSink.UpdateEntry ignores the new parent / new name:
   for a move within the subtree it (re)writes the new content at the OLD key and, when the old
   file exists, reports found, so nothing is created at the new key and the old key stays *)
LocalRenameRewritesOld(c, e, T, T2) ==
  /\ c.sink = "local" /\ ~c.incr /\ ~e.isdir /\ IsRename(e) /\ OIn(c, e) /\ NIn(c, e)
  /\ LET ok == MapC(c, e.old, <<>>) IN
     /\ ok \in DOMAIN T /\ ok \in DOMAIN T2 /\ T2[ok] = e.nc
     /\ \A k \in Dom2(T, T2) \ {ok} : Same(T, T2, k)

(* ------------------------------------------------------------ reference applier (design level) *)
Call(op, kc, npc, e, found) ==
  [op |-> op, key |-> KeyStr(kc), kc |-> kc, np |-> IF op = "update" THEN KeyStr(npc) ELSE "",
   nkc |-> IF op = "update" THEN npc \o <<Name(e.new)>> ELSE <<>>,
   name |-> IF op = "delete" THEN "" ELSE Name(e.new), on |-> IF op = "update" THEN Name(e.old) ELSE "",
   isdir |-> e.isdir, c |-> IF op = "delete" \/ e.isdir THEN "" ELSE e.nc, found |-> found, sigs |-> e.sigs,
   other |-> TRUE]
OneDate(c, e) == IF ~c.incr THEN <<>> ELSE IF e.new # <<>> THEN <<c.d2>> ELSE <<c.d1>>
(* found = does the sink hold the old key *)
RefCalls(c, e, found) ==
  LET d == OneDate(c, e)
      ok == MapC(c, e.old, d)
      nk == MapC(c, e.new, d)
  IN IF MustIgnore(c, e) \/ (~OIn(c, e) /\ ~NIn(c, e)) THEN <<>>
     ELSE IF ~OIn(c, e) THEN <<Call("create", nk, <<>>, e, FALSE)>>                    \* create, rename into
     ELSE IF ~NIn(c, e) THEN IF c.incr THEN <<>> ELSE <<Call("delete", ok, <<>>, e, FALSE)>>   \* delete, rename out of
     ELSE IF c.incr THEN <<Call("create", nk, <<>>, e, FALSE)>>
     ELSE IF found THEN <<Call("update", ok, MapC(c, Parent(e.new), d), e, TRUE)>>
     ELSE <<Call("update", ok, MapC(c, Parent(e.new), d), e, FALSE),
            Call("delete", ok, <<>>, e, FALSE), Call("create", nk, <<>>, e, FALSE)>>

(* an abstract sink: a file tree keyed by component sequences; deleting a key
   removes everything below it (a filer sink deletes recursively) *)
Without(T, S) == [k \in DOMAIN T \ S |-> T[k]]
With(T, k, v) == [x \in DOMAIN T \cup {k} |-> IF x = k THEN v ELSE T[x]]
Below(T, r) == {k \in DOMAIN T : IsPrefix(r, k)}
RECURSIVE SinkApply(_, _, _)
SinkApply(T, calls, e) ==
  IF calls = <<>> THEN T
  ELSE LET k == Head(calls)
           T1 == CASE k.op = "delete" -> Without(T, Below(T, k.kc))
                   [] k.op = "create" -> IF e.isdir THEN T ELSE With(T, k.kc, e.nc)
                   [] k.op = "update" -> IF ~k.found \/ e.isdir THEN T
                                         ELSE With(Without(T, {k.kc}), k.nkc, e.nc)
       IN SinkApply(T1, Tail(calls), e)
(* the source tree: files only; directories are implicit *)
SrcApply(T, e) ==
  IF e.isdir THEN T
  ELSE LET T1 == IF e.old # <<>> THEN Without(T, {e.old}) ELSE T
       IN IF e.new # <<>> THEN With(T1, e.new, e.nc) ELSE T1

Contents == {"c1"}
Origins(c) == IF TargetIsCluster(c) THEN {"local", "target", "third"} ELSE {"local"}
SigsOf(o) == IF o = "target" THEN <<22, 11>> ELSE IF o = "third" THEN <<33, 11>> ELSE <<11>>
Event(kind, old, new, isdir, origin, found, oc, nc) ==
  [ev |-> "apply", kind |-> kind, old |-> old, new |-> new, isdir |-> isdir, origin |-> origin,
   found |-> found, oc |-> oc, nc |-> nc]
FilePaths == Paths \ DirPaths
(* typed: a path in DirPaths is only ever a directory; with Consistent, files exist / do not exist as the event says *)
Sensible(T, e) ==
  /\ (e.old # <<>> /\ ~e.isdir) => e.old \in DOMAIN T
  /\ (e.new # <<>> /\ ~e.isdir /\ e.new # e.old) => e.new \notin DOMAIN T
  /\ e.isdir => (e.old = <<>> \/ Below(T, e.old) = {})       \* only empty directories are deleted / moved
CS(isdir) == IF isdir THEN {""} ELSE Contents
(* filer.replicate is fed from the notification queue, which (at this commit) never
   carries a move: a rename is published as create + delete.  Replicate has no move contract.
   The end-to-end sync mode (real FilerSink) gets the events the filer publishes; moves are
   judged on the event-processing function itself (mode "syncfn"). *)
KindsOf(c) == IF c.mode \in {"replicate", "sync"} THEN Kinds \ {"rename"} ELSE Kinds
EventsOf(c, isdir, o) ==
  LET PS == IF DirPaths = {} THEN Paths ELSE IF isdir THEN DirPaths ELSE FilePaths
      FS == IF c.sink = "rec" /\ ~Consistent THEN {TRUE, FALSE} ELSE {TRUE}
      CC == IF isdir THEN {<<"", "">>} ELSE IF Consistent THEN {<<"c1", "c2">>, <<"c2", "c1">>} ELSE {<<"c1", "c2">>}
  IN (IF "create" \in KindsOf(c) THEN {Event("create", <<>>, p, isdir, o, TRUE, "", nc) : p \in PS, nc \in CS(isdir)} ELSE {})
     \cup (IF "delete" \in KindsOf(c) THEN {Event("delete", p, <<>>, isdir, o, TRUE, oc, "") : p \in PS, oc \in CS(isdir)} ELSE {})
     \cup (IF "update" \in KindsOf(c) THEN {Event("update", p, p, isdir, o, f, cc[1], cc[2]) : p \in PS, f \in FS, cc \in CC} ELSE {})
     \cup (IF "rename" \in KindsOf(c) THEN {Event("rename", pq[1], pq[2], isdir, o, f, oc, oc) :
                                          pq \in {x \in PS \X PS : x[1] # x[2]}, f \in FS, oc \in CS(isdir)} ELSE {})
Events(c) == UNION {EventsOf(c, isdir, o) : isdir \in BOOLEAN, o \in Origins(c)}

Init == cfg \in Cfgs /\ srcT = <<>> /\ dstT = <<>> /\ last = <<>> /\ hist = <<>>

(* one change in the source cluster (or, origin = target, a change that the target
   made itself and that came back through the source) and its replication *)
Step(e0) ==
  LET e == [e0 EXCEPT !.found = IF Consistent /\ OIn(cfg, e0) /\ ~cfg.incr
                                THEN MapC(cfg, e0.old, <<>>) \in DOMAIN dstT ELSE e0.found]
      es == [sigs |-> SigsOf(e.origin)] @@ e
      calls == RefCalls(cfg, es, e.found)
      \* a change that originated in the target is already in the target's tree
      own == IF MustIgnore(cfg, es) /\ ~es.isdir /\ ~cfg.incr
             THEN LET T1 == IF OIn(cfg, es) THEN Without(dstT, {MapC(cfg, es.old, <<>>)}) ELSE dstT
                  IN IF NIn(cfg, es) THEN With(T1, MapC(cfg, es.new, <<>>), es.nc) ELSE T1
             ELSE dstT
  IN /\ srcT' = SrcApply(srcT, es)
     /\ dstT' = SinkApply(own, calls, es)
     /\ last' = <<[e |-> es, calls |-> calls, before |-> own]>>
     /\ hist' = Append(hist, e)
     /\ UNCHANGED cfg

(* histories into the stateless recording sinks are single events (python packs them into
   executions); histories into the local sink directory have MaxOps events *)
MaxOpsOf(c) == IF c.sink = "local" \/ Consistent THEN MaxOps ELSE 1
GenNext == /\ Len(hist) < MaxOpsOf(cfg)
           /\ \E e \in Events(cfg) : (Consistent => Sensible(srcT, e)) /\ Step(e)
Spec == Init /\ [][GenNext]_vars

(* ------------------------------------------------------------ design-level properties *)
L == last[1]
(* the reference applier is one of the admitted behaviours *)
RefAdmitted == last # <<>> => Admit(cfg, L.e, L.calls)
RefTreeAdmitted == last # <<>> => TreeOk(cfg, L.e, L.before, dstT)
(* no admitted call is keyed outside dst; an event with no path inside and an
   event of target origin produce no call *)
KeysUnderDst == last # <<>> => \A i \in 1..Len(L.calls) : IsPrefix(cfg.dst, L.calls[i].kc)
OutsideNoCall == (last # <<>> /\ ~OIn(cfg, L.e) /\ ~NIn(cfg, L.e)) => L.calls = <<>>
TargetOriginNoCall == (last # <<>> /\ MustIgnore(cfg, L.e)) => L.calls = <<>>
(* Admit itself never lets a foreign key through, whatever the calls: checked on
   corrupted variants of the reference calls (key replaced by a sibling key) *)
Siblings(c) == {c.dst \o <<"2", "x">>, <<"data2", "x">>, <<"other", "z">>, Parent(c.dst) \o <<Name(c.dst) \o "x">>}
AdmitRejectsForeignKeys ==
  (last # <<>> /\ ~cfg.incr) =>
     \A i \in 1..Len(L.calls) : \A s \in Siblings(cfg) :
        (KeyStr(s) \notin OldKeys(cfg, L.e) \cup NewKeys(cfg, L.e)) =>
           ~Admit(cfg, L.e, [L.calls EXCEPT ![i].key = KeyStr(s)])
AdmitRejectsDroppedEvent ==
  (last # <<>> /\ L.calls # <<>> /\ ~cfg.incr /\ ~MayIgnore(cfg, L.e) /\ (OIn(cfg, L.e) => (NIn(cfg, L.e) \/ IsDelete(L.e))))
     => ~Admit(cfg, L.e, <<>>)
(* rename within: old key gone, new key present *)
RenameNet ==
  (last # <<>> /\ ~cfg.incr /\ ~L.e.isdir /\ IsRename(L.e) /\ OIn(cfg, L.e) /\ NIn(cfg, L.e) /\ ~MustIgnore(cfg, L.e)) =>
     /\ MapC(cfg, L.e.old, <<>>) \notin DOMAIN dstT
     /\ MapC(cfg, L.e.new, <<>>) \in DOMAIN dstT /\ dstT[MapC(cfg, L.e.new, <<>>)] = L.e.nc
(* the mirror: with sensible histories and a non-incremental sink the target tree is
   exactly the image of the watched part of the source tree *)
Image(c, T) == LET S == {p \in DOMAIN T : Inside(c, p)}
               IN [k \in {MapC(c, p, <<>>) : p \in S} |-> T[CHOOSE p \in S : MapC(c, p, <<>>) = k]]
Mirror == (Consistent /\ ~cfg.incr) => dstT = Image(cfg, srcT)
(* the judgement of a settled sink tree T2 against the source tree S (files only): not
   incremental: exactly the image of the watched part; incremental: every watched file is
   there with its content below one of the two days, and nothing lies outside dst *)
MirrorOk(c, S, T2) ==
  IF ~c.incr THEN T2 = Image(c, S)
  ELSE /\ \A p \in DOMAIN S : Inside(c, p) => \E d \in {c.d1, c.d2} : Is(T2, MapC(c, p, <<d>>), S[p])
       /\ \A k \in DOMAIN T2 : IsPrefix(c.dst, k)
(* (a change the target made itself is modelled as already present in a plain target tree only) *)
RefMirrorOk == (Consistent /\ (cfg.incr => ~TargetIsCluster(cfg))) => MirrorOk(cfg, srcT, dstT)
(* an incremental sink never loses a key *)
IncrementalKeeps == [][cfg.incr => DOMAIN dstT \subseteq DOMAIN dstT']_vars

Emit == Len(hist) < MaxOpsOf(cfg) \/ PrintT(<<"W", ToJson([cfg |-> cfg, ops |-> hist])>>)
View == <<cfg, srcT, dstT, IF hist = <<>> THEN <<>> ELSE hist[Len(hist)]>>
MCView == <<cfg, srcT, dstT, last>>
EmitW == hist = <<>> \/ PrintT(<<"W", ToJson([cfg |-> cfg, ops |-> hist])>>)
=============================================================================
