----------------------------- MODULE BlobStore -----------------------------
(* Layer A for the volume family (C01, C03, C04, C09, C37, C38): what the
   statements say about one volume seen through its public API.

   live[k] is None or the blob of the last successful write:
     c  cookie token          d  data token ("e" = empty payload)
     m  metadata token (MetaTable below: name, mime, pairs, client timestamp,
        stored compressed, per-blob TTL)
   ro     the volume is read-only
   vttl   the volume's own TTL ("" or "1h")

   Every operator is a predicate over (state, arguments, OBSERVED RESULT, state'):
   it is true exactly for the results the statements admit.  Known-finding
   deviations are separate operators (Dev...), as narrow as the defect; the
   trace specification guards each with Deviate("<id>") and layer B admits them
   through its constant KF. *)
EXTENDS Integers, Sequences, FiniteSets, TLC

None == [none |-> TRUE]
Blob(c, d, m) == [c |-> c, d |-> d, m |-> m]

(* The metadata tokens the generators use.  ts: "none" = no client timestamp
   (the server stamps the upload time), "old" = a fixed timestamp far in the
   past.  gz: uploaded gzip-compressed (stored with the compression flag).
   ttl: per-blob TTL. *)
MetaTable ==
  [ m0 |-> [name |-> "",       mime |-> "",                   pairs |-> <<>>,                     ts |-> "none", gz |-> FALSE, ttl |-> ""],
    m1 |-> [name |-> "f1.bin", mime |-> "application/x-verif", pairs |-> <<<<"K1", "v1">>>>, ts |-> "old",  gz |-> FALSE, ttl |-> ""],
    m2 |-> [name |-> "f2.dat", mime |-> "text/x-verif",        pairs |-> <<>>,                     ts |-> "none", gz |-> TRUE,  ttl |-> ""],
    mt |-> [name |-> "",       mime |-> "",                   pairs |-> <<>>,                     ts |-> "old",  gz |-> FALSE, ttl |-> "1h"],
    mu |-> [name |-> "f5.bin", mime |-> "",                   pairs |-> <<>>,                     ts |-> "none", gz |-> FALSE, ttl |-> "1h"],
    \* m3: the writer sends a Content-Type of 300 bytes - longer than a record can hold (mimes are
    \* stored under 256 bytes), so no mime is promised back (mime = ""), everything else is
    m3 |-> [name |-> "f3.bin", mime |-> "",                   pairs |-> <<>>,                     ts |-> "none", gz |-> FALSE, ttl |-> ""] ]
Metas == DOMAIN MetaTable
Gz(m) == MetaTable[m].gz
(* the stored needle has size 0: empty payload that was not gzip-wrapped *)
StoredEmpty(b) == b # None /\ b.d = "e" /\ ~Gz(b.m)
HasTtl(b, vttl) == MetaTable[b.m].ttl # "" \/ vttl # ""
LmOld(b) == MetaTable[b.m].ts = "old"

(* ---------------------------------------------------------------- read *)
(* res = [st |-> "data" | "notfound" | "err", d |-> data token, m |-> meta token] *)
ReadStrict(live, k, c, res) ==
  IF live[k] = None THEN res.st # "data"
  ELSE IF live[k].c = c THEN res.st = "data" /\ res.d = live[k].d /\ res.m = live[k].m
  ELSE res.st # "data"

(* C01-empty-any-cookie: a size-0 needle is served without reading the record,
   so the cookie is never compared and no metadata comes back *)
DevReadEmpty(live, k, c, res) ==
  /\ StoredEmpty(live[k])
  /\ res.st = "data" /\ res.d = "e" /\ res.m = "m0"

(* Observation level (trace validation): o = [st, d, name, mime, pairs, lm, gz] as
   read from the HTTP response.  Metadata the writer did not supply is not
   constrained (a server-chosen content type or modification time). *)
MetaMatches(m, o) ==
  LET t == MetaTable[m] IN
  /\ o.name = t.name
  /\ (t.mime # "" => o.mime = t.mime)
  /\ o.pairs = t.pairs
  /\ (t.ts = "old" => o.lm = "old")
  /\ o.gz = t.gz
ReadObsStrict(live, k, c, o) ==
  IF live[k] = None THEN o.st # "data"
  ELSE IF live[k].c = c THEN o.st = "data" /\ o.d = live[k].d /\ MetaMatches(live[k].m, o)
  ELSE o.st # "data"
DevReadEmptyObs(live, k, c, o) ==
  /\ StoredEmpty(live[k])
  /\ o.st = "data" /\ o.d = "e" /\ o.name = "" /\ o.pairs = <<>> /\ o.gz = FALSE

(* C01-unchanged-keeps-metadata: a write whose cookie and stored bytes equal the
   current needle's is acknowledged (204) without being written, so new
   metadata (name, mime, pairs, timestamp) is silently dropped *)
DevWriteUnchanged(live, ro, vttl, k, c, d, m, res, live2) ==
  /\ ~ro /\ vttl = "" /\ live[k] # None /\ ~StoredEmpty(live[k])
  /\ live[k].c = c /\ live[k].d = d /\ Gz(live[k].m) = Gz(m) /\ live[k].m # m
  /\ res = "ok" /\ live2 = live

(* ---------------------------------------------------------------- write *)
(* res in {"ok", "err"}.  A write that reports success installs the blob; a
   write that reports an error changes nothing (the statement constrains reads
   after successful writes only).  Foreign cookie on an existing key: refusal
   or overwrite are both admitted (statement silent). *)
WriteStrict(live, ro, k, c, d, m, res, live2) ==
  IF ro THEN res = "err" /\ live2 = live
  ELSE \/ res = "ok" /\ live2 = [live EXCEPT ![k] = Blob(c, d, m)]
       \/ res = "err" /\ live2 = live

(* ---------------------------------------------------------------- delete *)
(* res in {"ok", "notfound", "err"}.  A delete presenting a foreign cookie never
   removes anything (whatever it reports); a delete that reports success on the
   matching cookie removes the blob; one that reports failure leaves it. *)
DeleteStrict(live, k, c, res, live2) ==
  IF live[k] = None THEN live2 = live
  ELSE IF live[k].c # c THEN live2 = live
  ELSE \/ res = "ok" /\ live2 = [live EXCEPT ![k] = None]
       \/ res # "ok" /\ live2 = live

(* C01-empty-delete-noop: deleting a size-0 needle reports success (with any
   cookie, since the cookie is never loaded) and removes nothing *)
DevDeleteEmpty(live, k, c, res, live2) ==
  /\ StoredEmpty(live[k])
  /\ res = "ok" /\ live2 = live

(* ---------------------------------------------------------------- reload / compaction *)
(* Reopening the volume (index replay) and a committed compaction are
   invisible: live is unchanged. *)
Invisible(live, live2) == live2 = live

(* C01-empty-lost-on-reload / C04-empty-dropped: index replay treats a size-0
   entry as a deletion, so every size-0 needle disappears on reload; both
   compaction algorithms reload (and the scan-based one skips size-0 needles) *)
DropEmpties(live) == [k \in DOMAIN live |-> IF StoredEmpty(live[k]) THEN None ELSE live[k]]

(* C04-ttl-filter: the compaction filter drops a needle that carries the TTL
   flag when  now >= LastModified + volumeTTL  - it uses the client-supplied
   last-modified time and the VOLUME's TTL (0 for a non-TTL volume), whereas
   reads expire a blob by its append time and its OWN TTL *)
TtlFilterDrops(b, vttl) == b # None /\ HasTtl(b, vttl) /\ (vttl = "" \/ LmOld(b))
(* only needles copied by the compaction proper pass the filter; what was appended between
   compact and commit (dirty) is carried over by makeupDiff without it *)
DropTtl(live, vttl, dirty) ==
  [k \in DOMAIN live |-> IF k \notin dirty /\ TtlFilterDrops(live[k], vttl) THEN None ELSE live[k]]
=============================================================================
