---------------------------- MODULE EcLayoutVol ----------------------------
(* C06, the life cycle of a real volume through erasure coding: generator of the histories that
   drive the real code AND design-level model check of the layer-A actions of EcLayout.tla
   (VWrite ... VRead): every step below IS one of those actions, taken with the result the
   property demands, plus a small implementation-shaped ghost:

     log   the records of the .dat file in file order: [k, kind = "put" / "tomb", d]
           (a write of what the key already holds appends nothing; a delete of a key that is not
           live appends nothing - as Volume.doWriteRequest / doDeleteRequest)
     ecx   the sorted index written at encode time: live key -> position of its record in log
     mk    keys marked deleted in the .ecx on disk, jr = keys in the .ecj journal,
     mk0   the marks of the "stale" .ecx (an .ecx that has seen no deletion since the journal
           was last empty: the copy on a server the deletions did not reach; ec.decode copies
           only the journal to the decoding server)

   DeleteNeedleFromEcx marks and journals; RebuildEcxFile folds the journal into the marks and
   removes it; FindDatFileSize = end of the last record that the .ecx does not mark;
   WriteIdxFileFromEcIndex = unmarked entries live, marked + journalled ones deleted.

   Design-level invariants (what makes the layer-A demands reasonable):
     DecodeKeepsLive   after a decode the live set is the live set at encode time minus the keys
                       deleted while erasure coded, whether or not the journal was folded and
                       whether the .ecx carried the marks or only the journal did;
     DecodeCoversLive  the decoded size covers the record of every live key, and is a prefix;
     ReplayAgrees      before the first encoding the blob store is the replay of the log. *)
EXTENDS EcLayout
CONSTANTS VKeys, VDatas,
          VLoss,        \* set of sequences of shard ids (loss sets)
          VMaxOps, VMaxPre, VMaxEc, VMaxPost, VMaxCyc
VARIABLES hist, log, ecx, mk, mk0, jr, cnt,
          feat          \* generator only: which kinds of steps the history has taken (part of the view)
gvars == <<vars, hist, log, ecx, mk, mk0, jr, cnt, feat>>
ghost == <<log, ecx, mk, mk0, jr>>

GInit == /\ L = 0 /\ S = 0 /\ n = 0 /\ ka = 1 /\ kb = 0 /\ sh = <<>> /\ dh = "" /\ ex = <<>> /\ lc = NoLoc
         /\ vol = VFresh
         /\ hist = <<>> /\ log = <<>> /\ ecx = <<>> /\ mk = {} /\ mk0 = {} /\ jr = {} /\ cnt = 0 /\ feat = {}

Puts(k) == {p \in 1..Len(log) : log[p].k = k /\ log[p].kind = "put"}
MaxOf(Sx) == IF Sx = {} THEN 0 ELSE CHOOSE m \in Sx : \A o \in Sx : o <= m
LastPut(k) == MaxOf(Puts(k))
Step(op, f) == hist' = Append(hist, op) /\ cnt' = cnt + 1 /\ feat' = feat \cup f
Phase(op, f) == hist' = Append(hist, op) /\ cnt' = 0 /\ feat' = feat \cup f

GWrite(k, d) ==
  /\ vol.ph = "vol" /\ cnt < (IF vol.cyc = 0 THEN VMaxPre ELSE VMaxPost)
  /\ VWrite(k, d, "ok")
  /\ log' = IF VGet(vol.blob, k) = d THEN log ELSE Append(log, [k |-> k, kind |-> "put", d |-> d])
  /\ UNCHANGED <<ecx, mk, mk0, jr>> /\ Step([ev |-> "vwrite", k |-> k, d |-> d],
                                          IF vol.cyc > 0 THEN {} ELSE IF VGet(vol.blob, k) = d THEN {"same"} ELSE IF VGet(vol.blob, k) # None THEN {"over"} ELSE {})
GDelete(k) ==
  /\ vol.ph = "vol" /\ vol.cyc = 0 /\ cnt < VMaxPre
  /\ VDelete(k, "ok")
  /\ log' = IF VGet(vol.blob, k) # None THEN Append(log, [k |-> k, kind |-> "tomb", d |-> None]) ELSE log
  /\ UNCHANGED <<ecx, mk, mk0, jr>> /\ Step([ev |-> "vdelete", k |-> k], IF VGet(vol.blob, k) # None THEN {"del"} ELSE {"deldead"})
GEncode ==
  /\ vol.ph = "vol" /\ vol.cyc < VMaxCyc
  /\ VEncode("", "", Len(log), [i \in 1..14 |-> "h"], "p")
  /\ ecx' = [k \in VLive(vol.blob) |-> LastPut(k)]
  /\ mk' = {} /\ mk0' = {} /\ jr' = {} /\ UNCHANGED log /\ Phase([ev |-> "vencode"], {})
GEcDelete(k) ==
  /\ vol.ph = "ec" /\ cnt < VMaxEc
  /\ VEcDelete(k, "")
  /\ IF k \in DOMAIN ecx THEN mk' = mk \cup {k} /\ jr' = jr \cup {k} ELSE UNCHANGED <<mk, jr>>
  /\ UNCHANGED <<log, ecx, mk0>> /\ Step([ev |-> "vecdelete", k |-> k], IF VGet(vol.blob, k) # None THEN {"ecdel"} ELSE IF k \in DOMAIN ecx THEN {"ecdel2"} ELSE {"ecdeldead"})
GRebuild(ls) ==
  /\ vol.ph = "ec" /\ cnt < VMaxEc
  /\ Rebuild(ls, "", sh)
  /\ UNCHANGED ghost /\ Step([ev |-> "rebuild", lost |-> ls], {"rebuild"})
GFold(st) ==
  /\ vol.ph = "ec" /\ cnt < VMaxEc
  /\ VFold(st, "")
  /\ mk' = (IF st THEN mk0 ELSE mk) \cup jr /\ mk0' = mk' /\ jr' = {}
  /\ UNCHANGED <<log, ecx>> /\ Step([ev |-> "vfold", stale |-> st], IF st THEN {"foldstale"} ELSE {"fold"})
(* FindDatFileSize on the .ecx that is on disk at that moment *)
DatSize(marks) == MaxOf({ecx[k] : k \in DOMAIN ecx \ marks})
GDecode(st) ==
  /\ vol.ph = "ec"
  /\ LET m == IF st THEN mk0 ELSE mk
         fs == DatSize(m)
     IN /\ VDecode(st, "", fs, "", "", fs, "p", "p")
        /\ mk' = m
  /\ UNCHANGED <<log, ecx, mk0, jr>> /\ Phase([ev |-> "vdecode", stale |-> st], IF st THEN {"decstale"} ELSE {})
GLoad ==
  /\ vol.ph = "dec"
  /\ VLoad("ok", FALSE)
  /\ log' = SubSeq(log, 1, vol.fsz) /\ ecx' = <<>> /\ mk' = {} /\ mk0' = {} /\ jr' = {}
  /\ Phase([ev |-> "vload"], {})

GNext ==
  /\ Len(hist) < VMaxOps
  /\ \/ \E k \in VKeys, d \in VDatas : GWrite(k, d)
     \/ \E k \in VKeys : GDelete(k)
     \/ GEncode
     \/ \E k \in VKeys : GEcDelete(k)
     \/ \E ls \in VLoss : GRebuild(ls)
     \/ \E st \in BOOLEAN : GFold(st)
     \/ \E st \in BOOLEAN : GDecode(st)
     \/ GLoad
GSpec == GInit /\ [][GNext]_gvars

(* ---------------------------------------------------------------- design level *)
(* what the index written by the decode says: unmarked and unjournalled entries are live *)
IdxLive == DOMAIN ecx \ (mk \cup jr)
MarksAreJournal == vol.ph = "ec" => (mk = mk0 \cup jr /\ mk \subseteq DOMAIN ecx)
DecodeKeepsLive ==
  vol.ph = "dec" => /\ IdxLive = VLive(vol.blob)
                    /\ IdxLive = VLive(vol.encb) \ vol.ecd
                    /\ \A k \in IdxLive : log[ecx[k]].kind = "put" /\ log[ecx[k]].k = k /\ log[ecx[k]].d = vol.blob[k]
DecodeCoversLive ==
  vol.ph = "dec" => /\ vol.fsz <= Len(log) /\ vol.fsz <= n
                    /\ \A k \in IdxLive : ecx[k] <= vol.fsz
RECURSIVE Replay(_, _)
Replay(k, p) == IF p = 0 THEN None
                ELSE IF log[p].k = k THEN (IF log[p].kind = "put" THEN log[p].d ELSE None)
                ELSE Replay(k, p - 1)
ReplayAgrees == (vol.ph = "vol" /\ vol.cyc = 0) => \A k \in VKeys : VGet(vol.blob, k) = Replay(k, Len(log))
(* after a load every live key's record is inside the (cut) log *)
LoadedInsideLog == (vol.ph = "vol" /\ vol.cyc > 0) => \A k \in VLive(vol.blob) : LastPut(k) > 0 /\ log[LastPut(k)].d = vol.blob[k]
NeverVoid == vol.ph # "void"

(* ---------------------------------------------------------------- generator *)
(* the order of the live records in the data file and what follows the last of them *)
LiveOrder == [p \in {q \in 1..Len(log) : log[q].kind = "put" /\ VGet(vol.blob, log[q].k) # None /\ LastPut(log[q].k) = q} |-> log[p].k]
TailDead == Len(log) > 0 /\ ~(log[Len(log)].kind = "put" /\ VGet(vol.blob, log[Len(log)].k) # None /\ LastPut(log[Len(log)].k) = Len(log))
Squeeze(f) == LET dom == DOMAIN f
                  RECURSIVE Sq(_)
                  Sq(Sx) == IF Sx = {} THEN <<>> ELSE LET m == CHOOSE a \in Sx : \A b \in Sx : a <= b IN <<f[m]>> \o Sq(Sx \ {m})
              IN Sq(dom)
(* the view forgets the content tokens and the arguments of the last operation *)
GView == <<vol.ph, VLive(vol.blob), vol.ecd, vol.cyc, Squeeze(LiveOrder), TailDead, Len(log) = 0, mk, mk0, jr, cnt, feat,
           IF hist = <<>> THEN "" ELSE hist[Len(hist)].ev>>
Emit == Len(hist) < VMaxOps \/ PrintT(<<"W", ToJson(hist)>>)
(* one shortest history per distinct (state, last operation) that went all the way: decoded, loaded, written *)
Complete == vol.ph = "vol" /\ vol.cyc > 0 /\ hist # <<>> /\ hist[Len(hist)].ev = "vwrite"
EmitW == ~Complete \/ PrintT(<<"W", ToJson(hist)>>)
=============================================================================
