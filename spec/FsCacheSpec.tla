---------------------------- MODULE FsCacheSpec ----------------------------
(* C39 - the mount's path -> node cache (weed/filesys/fscache.go) against a
   reference tree.  A path is a non-empty sequence of names.  The tree maps
   every known path to a node id; id 0 is a placeholder (an ancestor that is
   known to exist structurally but whose node is not cached - a lookup of it
   answers "nothing").  Set creates missing ancestors as placeholders, Delete
   removes the whole subtree, Move re-roots the whole subtree at the new path,
   replacing whatever was there.  kind is "d" (directory node), "f" (file node);
   the generator only produces file-system-typed histories (nothing is ever
   placed below a file node), which is what the mount can do. *)
EXTENDS Integers, Sequences, FiniteSets, TLC, Json
CONSTANTS Paths, MaxOps
VARIABLES tree, nextId, hist
vars == <<tree, nextId, hist>>

Nil == [id |-> 0, kind |-> "p"]
IsPrefix(p, q) == Len(p) <= Len(q) /\ SubSeq(q, 1, Len(p)) = p
Ancestors(p) == {SubSeq(p, 1, i) : i \in 1..(Len(p) - 1)}
Suffix(q, n) == SubSeq(q, n + 1, Len(q))
Lookup(t, p) == IF p \in DOMAIN t THEN t[p].id ELSE 0
Under(t, p) == {q \in DOMAIN t : IsPrefix(p, q)}
Without(t, S) == [q \in DOMAIN t \ S |-> t[q]]
WithAncestors(t, p) == [q \in DOMAIN t \cup Ancestors(p) |-> IF q \in DOMAIN t THEN t[q] ELSE Nil]

SetT(t, p, id, kind) ==
  LET t1 == WithAncestors(t, p) IN
  [q \in DOMAIN t1 \cup {p} |-> IF q = p THEN [id |-> id, kind |-> kind] ELSE t1[q]]
DeleteT(t, p) == Without(t, Under(t, p))
MoveT(t, o, n) ==
  IF o \notin DOMAIN t THEN t
  ELSE LET sub == Under(t, o)
           t1 == Without(t, sub)
           t2 == WithAncestors(t1, n)      \* the code ensures the target path first ...
           t3 == Without(t2, Under(t2, n)) \* ... and then drops whatever was there
           moved == {n \o Suffix(q, Len(o)) : q \in sub}
       IN [q \in DOMAIN t3 \cup moved |->
             IF q \in moved THEN t[o \o Suffix(q, Len(n))] ELSE t3[q]]

NoFileAbove(t, p) == \A a \in Ancestors(p) : a \in DOMAIN t => t[a].kind # "f"

Init == tree = <<>> /\ nextId = 1 /\ hist = <<>>

Set(p, id, kind) == tree' = SetT(tree, p, id, kind) /\ nextId' = IF id >= nextId THEN id + 1 ELSE nextId
Delete(p) == tree' = DeleteT(tree, p) /\ UNCHANGED nextId
Move(o, n) == tree' = MoveT(tree, o, n) /\ UNCHANGED nextId
Get(p, res) == res = Lookup(tree, p) /\ UNCHANGED <<tree, nextId>>

(* ------------- generator / model-checking view ------------- *)
Log(op) == hist' = Append(hist, op)
Kinds == {"d", "f"}
GenNext ==
  /\ Len(hist) < MaxOps
  /\ \/ \E p \in Paths, k \in Kinds :
          /\ NoFileAbove(tree, p)
          /\ (p \in DOMAIN tree /\ Under(tree, p) # {p}) => k = "d"
          /\ Set(p, nextId, k) /\ Log([ev |-> "set", p |-> p, id |-> nextId, kind |-> k])
     \/ \E p \in Paths : Delete(p) /\ Log([ev |-> "delete", p |-> p])
     \/ \E o \in Paths, n \in Paths :
          /\ NoFileAbove(Without(tree, Under(tree, o)), n)
          /\ Move(o, n) /\ Log([ev |-> "move", o |-> o, n |-> n])
Spec == Init /\ [][GenNext]_vars

(* design-level invariants of the reference tree *)
AncestorsPresent == \A p \in DOMAIN tree : Ancestors(p) \subseteq DOMAIN tree
UniqueIds == \A p, q \in DOMAIN tree : (tree[p].id # 0 /\ tree[p].id = tree[q].id) => p = q
TypedTree == \A p \in DOMAIN tree : NoFileAbove(tree, p)
MoveMoves == [][\A o \in Paths, n \in Paths :
                  (/\ hist' # hist /\ hist'[Len(hist')] = [ev |-> "move", o |-> o, n |-> n]
                   /\ o \in DOMAIN tree /\ ~IsPrefix(o, n) /\ ~IsPrefix(n, o))
                  => /\ Lookup(tree', n) = Lookup(tree, o)
                     /\ Under(tree', o) = {}
                     /\ \A q \in Under(tree, o) : tree'[n \o Suffix(q, Len(o))] = tree[q]]_vars
Emit == Len(hist) < MaxOps \/ PrintT(<<"W", ToJson(hist)>>)
View == <<tree, IF hist = <<>> THEN <<>> ELSE hist[Len(hist)]>>
EmitW == hist = <<>> \/ PrintT(<<"W", ToJson(hist)>>)
=============================================================================
