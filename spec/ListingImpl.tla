---------------------------- MODULE ListingImpl ----------------------------
(* C19, layer B: the listing PROCEDURES of the code, transcribed as functions
   over a directory, checked against layer A (Listing.tla: List, CursorOK) for
   every directory over the universe and every request.

     LdbList      leveldb / leveldb2 / leveldb3 ListDirectoryPrefixedEntries: seek,
                  scan while the key has the prefix, skip the start name, count
     MemList      a store's ListDirectoryEntries (no prefix)
     PrefixFilter FilerStoreWrapper.prefixFilterEntries: batches of `limit`
                  unfiltered entries, filtered by prefix, refilled from the last
                  scanned name
     Valid        Filer.doListValidEntries: expired entries are dropped (and
                  deleted from the store) and the page is refilled
     Stream       Filer.StreamListDirectoryEntries: splitPattern, the pattern /
                  exclusion filter in the callback, refill of what was rejected

   Bugs (a set of names) switches the procedures back to what the unchanged
   tree did, so that TLC re-finds each defect at design level:
     "S26"    seek to the start name whenever it is not empty
     "S27"    prefixFilterEntries never advances its refill cursor
     "refill" a refill that finds nothing resets the cursor to the empty name
   With Bugs = {} the invariant ImplRefines must hold. *)
EXTENDS Listing

CONSTANTS Backend,  \* "ldb" (native prefix listing) or "pf" (wrapper filters by prefix)
          Bugs

LastOf(s) == IF s = <<>> THEN <<>> ELSE s[Len(s)]

RECURSIVE TakeWhilePrefix(_, _)
TakeWhilePrefix(s, p) == IF s = <<>> \/ ~HasPrefix(Head(s), p) THEN <<>>
                         ELSE <<Head(s)>> \o TakeWhilePrefix(Tail(s), p)

(* ---- the stores ---- *)
LdbList(dir, start, incl, limit, prefix) ==
  LET fromStart == IF "S26" \in Bugs THEN start # <<>> ELSE Less(prefix, start)
      seek == IF fromStart THEN start ELSE prefix
      run == TakeWhilePrefix(Sorted({n \in dir : Leq(seek, n)}), prefix)
      kept == SelectSeq(run, LAMBDA n : ~(n = start /\ ~incl))
      out == Take(kept, limit)
  IN [res |-> out, last |-> LastOf(out), bad |-> FALSE]

MemList(dir, start, incl, limit) ==
  LET out == Take(Sorted({n \in dir : After(start, incl, n)}), limit)
  IN [res |-> out, last |-> LastOf(out), bad |-> FALSE]

(* ---- FilerStoreWrapper.prefixFilterEntries ---- *)
(* one pass over a batch: st = [count, last, out] *)
RECURSIVE ScanBatch(_, _, _, _)
ScanBatch(batch, st, limit, prefix) ==
  IF batch = <<>> THEN st
  ELSE LET n == Head(batch)
           st1 == IF "S27" \in Bugs THEN st ELSE [st EXCEPT !.last = n]
       IN IF HasPrefix(n, prefix)
          THEN LET st2 == [st1 EXCEPT !.count = @ + 1, !.out = Append(@, n)]
               IN IF st2.count >= limit THEN st2 ELSE ScanBatch(Tail(batch), st2, limit, prefix)
          ELSE ScanBatch(Tail(batch), st1, limit, prefix)

RECURSIVE PfLoop(_, _, _, _, _, _)
PfLoop(dir, batch, st, limit, prefix, fuel) ==
  IF ~(st.count < limit /\ batch # <<>>) THEN [res |-> st.out, last |-> st.last, bad |-> FALSE]
  ELSE IF fuel = 0 THEN [res |-> st.out, last |-> st.last, bad |-> TRUE]     \* does not terminate
  ELSE LET st1 == ScanBatch(batch, st, limit, prefix)
       IN IF st1.count < limit
          THEN PfLoop(dir, MemList(dir, st1.last, FALSE, limit).res, st1, limit, prefix, fuel - 1)
          ELSE [res |-> st1.out, last |-> st1.last, bad |-> FALSE]

PrefixFilter(dir, start, incl, limit, prefix) ==
  IF prefix = <<>> THEN MemList(dir, start, incl, limit)
  ELSE LET first == MemList(dir, start, incl, limit)
       IN PfLoop(dir, first.res, [count |-> 0, last |-> first.last, out |-> <<>>], limit, prefix,
                 2 * Cardinality(dir) + 3)

StoreList(dir, start, incl, limit, prefix) ==
  IF Backend = "ldb" THEN LdbList(dir, start, incl, limit, prefix)
  ELSE PrefixFilter(dir, start, incl, limit, prefix)

(* ---- Filer ---- *)
KeepCursor(old, new) == IF "refill" \in Bugs THEN new ELSE (IF new # <<>> THEN new ELSE old)

(* doListDirectoryEntries: what the store delivered, split into live names (handed
   on to the callback) and expired ones (counted, deleted from the store) *)
DirPass(dir, exp, start, incl, limit, prefix) ==
  LET r == StoreList(dir, start, incl, limit, prefix)
      live == SelectSeq(r.res, LAMBDA n : n \notin exp)
  IN [live |-> live, nexp |-> Len(r.res) - Len(live), last |-> r.last, bad |-> r.bad,
      dir |-> dir \ {r.res[i] : i \in {j \in 1..Len(r.res) : r.res[j] \in exp}}]

(* doListValidEntries *)
RECURSIVE ValidLoop(_, _, _, _, _, _, _, _)
ValidLoop(dir, exp, live, nexp, last, bad, prefix, fuel) ==
  IF nexp = 0 \/ fuel = 0 THEN [live |-> live, last |-> last, bad |-> bad \/ (nexp > 0), dir |-> dir]
  ELSE LET p == DirPass(dir, exp, last, FALSE, nexp, prefix)
       IN ValidLoop(p.dir, exp, live \o p.live, p.nexp, KeepCursor(last, p.last), bad \/ p.bad, prefix, fuel - 1)
Valid(dir, exp, start, incl, limit, prefix) ==
  LET p == DirPass(dir, exp, start, incl, limit, prefix)
  IN ValidLoop(p.dir, exp, p.live, p.nexp, p.last, p.bad, prefix, Cardinality(dir) + 2)

(* splitPattern (with its two known findings left in: a pattern without wildcard
   is dropped, `*` is looked for before `?`; the requests of ImplRefines avoid both) *)
FirstOf(p, c) == IF \E i \in 1..Len(p) : p[i] = c
                 THEN CHOOSE i \in 1..Len(p) : p[i] = c /\ \A j \in 1..(i - 1) : p[j] # c ELSE 0
SplitAt(p) == IF FirstOf(p, STAR) > 0 THEN FirstOf(p, STAR) ELSE FirstOf(p, QM)
PatPrefix(p) == IF SplitAt(p) > 0 THEN SubSeq(p, 1, SplitAt(p) - 1) ELSE <<>>
PatRest(p) == IF SplitAt(p) > 0 THEN SubSeq(p, SplitAt(p), Len(p)) ELSE <<>>

Passes(n, prefix, rest, excl) ==
  /\ (excl = <<>> \/ ~Match(excl, n))
  /\ (rest = <<>> \/ Match(rest, SubSeq(n, Len(prefix) + 1, Len(n))))

(* doListPatternMatchedEntries + the loop of StreamListDirectoryEntries *)
RECURSIVE StreamLoop(_, _, _, _, _, _, _, _, _, _)
StreamLoop(dir, exp, out, missed, last, bad, prefix, rest, excl, fuel) ==
  IF missed = 0 \/ fuel = 0 THEN [res |-> out, last |-> last, bad |-> bad \/ (missed > 0)]
  ELSE LET v == Valid(dir, exp, last, FALSE, missed, prefix)
           ok == SelectSeq(v.live, LAMBDA n : Passes(n, prefix, rest, excl))
       IN StreamLoop(v.dir, exp, out \o ok, Len(v.live) - Len(ok), KeepCursor(last, v.last), bad \/ v.bad,
                     prefix, rest, excl, fuel - 1)
Stream(dir, exp, r) ==
  LET prefix == IF PatPrefix(r.pattern) # <<>> THEN PatPrefix(r.pattern) ELSE r.prefix
      rest == PatRest(r.pattern)
      v == Valid(dir, exp, r.start, r.incl, r.limit, prefix)
      ok == SelectSeq(v.live, LAMBDA n : Passes(n, prefix, rest, r.excl))
  IN StreamLoop(v.dir, exp, ok, Len(v.live) - Len(ok), v.last, v.bad, prefix, rest, r.excl, Cardinality(dir) + 2)

(* Filer.ListDirectoryEntries: one more than asked, cut, hasMore *)
Page(dir, exp, r) ==
  LET s == Stream(dir, exp, [r EXCEPT !.limit = @ + 1])
  IN [res |-> Take(s.res, r.limit), more |-> Len(s.res) >= r.limit + 1, bad |-> s.bad]

(* ---- refinement: the procedures answer what layer A asks for ---- *)
InScope(r) == ~Silent(r) /\ ~LiteralPattern(r.pattern) /\ ~QBeforeStar(r.pattern)
ImplRefines ==
  (req # NoReq /\ InScope(req)) =>
    LET s == Stream(names, expired, req)
        p == Page(names, expired, req)
    IN /\ ~s.bad /\ s.res = res /\ CursorOK(names, expired, req, s.res, s.last)
       /\ ~p.bad /\ p.res = res /\ (MoreExist(names, expired, req) <=> p.more)
(* the store interface alone (no TTL, no pattern) *)
StoreRefines ==
  (req # NoReq /\ req.pattern = <<>> /\ req.excl = <<>>) =>
    LET s == StoreList(names, req.start, req.incl, req.limit, req.prefix)
        want == List(names, {}, req)
    IN ~s.bad /\ s.res = want /\ CursorOK(names, {}, req, s.res, s.last)
=============================================================================
