SPECIFICATION Spec
INVARIANT UniqueFids
INVARIANT GivenIsHistory
INVARIANT ReplicationSatisfied
INVARIANT BlobsOnFids
INVARIANT FidsOnVolumes
INVARIANT PlaceConsistent
PROPERTY HoldersFixed
VIEW MCView
CHECK_DEADLOCK FALSE
