----------------------------- MODULE ClusterSpec -----------------------------
(* X06 (spec growth), layer A: a whole small cluster - one master, a few volume servers in
   data centers / racks - seen through its public interfaces only: Assign (gRPC) and /dir/assign,
   /vol/grow, upload / read / delete on the volume servers, LookupVolume and /dir/lookup,
   /vol/vacuum, /col/delete, restarts of the master and of volume servers.

   Composed of what the single-component specifications say, restated small:
     BlobStore   what a volume stores: a file id reads as the last successful upload, a deleted or
                 never written one is not found                       (blob)
     KeyAlloc    a file id (volume, key) is handed out once           (given; Range / Fresh)
     MasterView  a lookup answers with the servers that hold the volume (ObsOK in ClusterTrace)
     ReplWrite   an upload that succeeded is on every copy            (one blob per file id, read on
                 every holder)
     VacuumRound compaction changes no content; afterwards the garbage is gone on every copy

   State
     topo   server -> [dc, rack]                                  (static per execution)
     up     servers that are running
     vols   volume id -> [c, rep, ttl, hold, deg, part, gone]     every volume ever seen in the execution
              hold  the servers it was created on (never changes; a stopped holder still holds it)
              deg   a write / delete was attempted while a holder was down or failed: the copies may differ
              part  created by a request that failed (not all copies exist): no placement claim
              gone  deleted with its collection
     fids   sequence of assignments [ok, vid, key, cnt] (failed ones keep their position)
     given  set of <<vid, key>> handed out so far
     blob   <<f, sub>> -> data token, the live blobs (f = index into fids)
     fuzzy  <<f, sub>> whose upload / delete failed: content not promised
     clash  <<vid, key>> handed out twice (known findings): two file ids with different cookies name one
            needle; nothing is promised about uploads, deletes and reads of either
     wrote  <<vid, key>> uploaded successfully at least once
     dead   <<vid, key>> deleted;  purged: deleted and a vacuum ran afterwards
     stale  <<vid, key>> handed out by an earlier master process and not written when it ended
     forgot <<vid, key>> purged and not live when a master process ended
     ep     number of master restarts

   Every operator Op(args, res) is true exactly for the results the statements admit in the
   current state.  The generator (Next) picks inputs and, for the results, what the statements
   admit. *)
EXTENDS Integers, Sequences, FiniteSets, TLC, Json

CONSTANTS MTopo,      \* model / generator only: server -> [dc, rack]
          MColls, MReps, MTtls, MDatas, MCounts, MaxOps, MaxVols,
          Canon,      \* TRUE: the generator picks one canonical placement / volume (the real code decides anyway)
          MOps        \* operations the generator may use

VARIABLES topo, up, vols, fids, given, blob, fuzzy, clash, wrote, dead, purged, stale, forgot, ep, hist

vars == <<topo, up, vols, fids, given, blob, fuzzy, clash, wrote, dead, purged, stale, forgot, ep, hist>>
core == <<topo, up, vols, fids, given, blob, fuzzy, clash, wrote, dead, purged, stale, forgot, ep>>

Servers == DOMAIN topo
SetOf(s) == {s[i] : i \in 1..Len(s)}

(* ------------------------------------------------------------ replication "xyz" *)
XYZ(rep) == CASE rep = "000" -> <<0, 0, 0>> [] rep = "001" -> <<0, 0, 1>> [] rep = "002" -> <<0, 0, 2>>
              [] rep = "010" -> <<0, 1, 0>> [] rep = "011" -> <<0, 1, 1>> [] rep = "020" -> <<0, 2, 0>>
              [] rep = "100" -> <<1, 0, 0>> [] rep = "110" -> <<1, 1, 0>> [] rep = "200" -> <<2, 0, 0>>
              [] rep = "101" -> <<1, 0, 1>>
              [] OTHER -> <<9, 9, 9>>
Copies(rep) == XYZ(rep)[1] + XYZ(rep)[2] + XYZ(rep)[3] + 1

(* H satisfies xyz: x other data centers with one copy each; in the main data center y other racks
   with one copy each; in the main rack z other servers; all servers distinct (H is a set) *)
Placed(H, rep) ==
  TRUE =
  LET x == XYZ(rep)[1]  y == XYZ(rep)[2]  z == XYZ(rep)[3]
      dcs == {topo[s].dc : s \in H}
  IN /\ Cardinality(H) = x + y + z + 1
     /\ Cardinality(dcs) = x + 1
     /\ \E md \in dcs :
          LET inmd == {s \in H : topo[s].dc = md}
              racks == {topo[s].rack : s \in inmd}
          IN /\ Cardinality(inmd) = y + z + 1
             /\ \A d \in dcs \ {md} : Cardinality({s \in H : topo[s].dc = d}) = 1
             /\ Cardinality(racks) = y + 1
             /\ \E mr \in racks :
                  /\ Cardinality({s \in inmd : topo[s].rack = mr}) = z + 1
                  /\ \A r \in racks \ {mr} : Cardinality({s \in inmd : topo[s].rack = r}) = 1
CanPlace(rep, S) == TRUE = (\E H \in SUBSET S : Placed(H, rep))
(* when a request for a replication must not be refused: the servers S offer it with room to spare -
   x+1 data centers, one of them with y+1 racks of z+1 servers each (the master's own sufficient
   test in findEmptySlotsForOneVolume; e.g. 011 on {r1: 2 servers, r2: 1 server} can be placed but
   need not be granted) *)
SurePlace(rep, S) ==
  TRUE =
  LET x == XYZ(rep)[1]  y == XYZ(rep)[2]  z == XYZ(rep)[3]
      dcs == {topo[s].dc : s \in S}
      racks(d) == {topo[s].rack : s \in {t \in S : topo[t].dc = d}}
      big(d) == {r \in racks(d) : Cardinality({s \in S : topo[s].dc = d /\ topo[s].rack = r}) >= z + 1}
  IN /\ Cardinality(dcs) >= x + 1
     /\ \E d \in dcs : Cardinality(big(d)) >= y + 1 /\ Cardinality({s \in S : topo[s].dc = d}) >= y + z + 1

(* ------------------------------------------------------------ helpers *)
VolRec(c, rep, ttl, H, part) == [c |-> c, rep |-> rep, ttl |-> ttl, hold |-> H, deg |-> FALSE, part |-> part, gone |-> FALSE]
Range(vid, key, n) == {<<vid, key + j>> : j \in 0..(n - 1)}
Pair(k) == <<fids[k[1]].vid, fids[k[1]].key + k[2]>>          \* k = <<f, sub>>
ValidK(f, sub) == f \in 1..Len(fids) /\ fids[f].ok /\ sub \in 0..(fids[f].cnt - 1)
AllUp == up = Servers
Put(fn, k, d) == [x \in DOMAIN fn \cup {k} |-> IF x = k THEN d ELSE fn[x]]
Drop(fn, k) == [x \in DOMAIN fn \ {k} |-> fn[x]]
LivePairs == {Pair(k) : k \in DOMAIN blob}
LiveCount(vid) == Cardinality({k \in DOMAIN blob : fids[k[1]].vid = vid})
SetDeg(vid) == [vols EXCEPT ![vid].deg = TRUE]

(* nv: the volumes that exist after the request and did not before, [vid, c, rep, ttl, hold] *)
NewVolsShape(nv) ==
  /\ \A e \in nv : e.vid \notin DOMAIN vols /\ e.hold # {} /\ e.hold \subseteq up
  /\ \A e1, e2 \in nv : e1.vid = e2.vid => e1 = e2
AddVols(nv, part) ==
  [v \in DOMAIN vols \cup {e.vid : e \in nv} |->
     IF v \in DOMAIN vols THEN vols[v]
     ELSE LET e == CHOOSE e \in nv : e.vid = v IN VolRec(e.c, e.rep, e.ttl, e.hold, part)]

(* ------------------------------------------------------------ Assign *)
(* how the handed out range relates to what was handed out before *)
Fresh(R) == R \cap given = {}
(* C13-memory-leader-change-reissue: the memory sequencer of a new master process starts from the
   largest key the volume servers report; keys handed out before and not written then come again *)
ReissueStale(R) == R \cap given # {} /\ (R \cap given) \subseteq stale
(* X06-reissue-after-vacuum: same root cause; the largest key was written, deleted and compacted
   away before the master process ended, so no volume server reports it any more *)
ReissuePurged(R) == (R \cap given) \subseteq (stale \cup forgot) /\ R \cap forgot # {}

(* res = [ok, vid, key, cnt, url]; nv = new volumes; how \in {"fresh", "stale", "purged"}.
   AssignPre: the result is one the statements admit;  AssignEff: what it does to the state. *)
AssignPre(c, rep, ttl, n, res, nv, how) ==
  /\ NewVolsShape(nv)
  /\ \A e \in nv : e.c = c /\ e.rep = rep /\ e.ttl = ttl
  /\ IF ~res.ok
     THEN ~(AllUp /\ SurePlace(rep, Servers))     \* with every server running and room to spare it must succeed
     ELSE LET R == Range(res.vid, res.key, n) V == AddVols(nv, FALSE) IN
          /\ res.cnt = n /\ res.key >= 1
          /\ CASE how = "fresh" -> Fresh(R) [] how = "stale" -> ReissueStale(R) [] how = "purged" -> ReissuePurged(R)
          /\ \A e \in nv : Placed(e.hold, rep)
          /\ res.vid \in DOMAIN V
          /\ LET v == V[res.vid] IN
               /\ v.c = c /\ v.rep = rep /\ v.ttl = ttl /\ ~v.gone /\ ~v.part
               /\ v.hold \subseteq up                 \* every copy of a volume that takes writes is reachable
               /\ res.url \in v.hold
AssignEff(n, res, nv) ==
  /\ LET V == AddVols(nv, ~res.ok) again == IF res.ok THEN Range(res.vid, res.key, n) \cap given ELSE {} IN
       /\ vols' = IF again = {} THEN V ELSE [V EXCEPT ![res.vid].deg = TRUE]
       /\ clash' = clash \cup again
  /\ given' = IF res.ok THEN given \cup Range(res.vid, res.key, n) ELSE given
  /\ fids' = Append(fids, IF res.ok THEN [ok |-> TRUE, vid |-> res.vid, key |-> res.key, cnt |-> n]
                                    ELSE [ok |-> FALSE, vid |-> 0, key |-> 0, cnt |-> 0])
  /\ UNCHANGED <<topo, up, blob, fuzzy, wrote, dead, purged, stale, forgot, ep>>
Assign(c, rep, ttl, n, res, nv, how) == AssignPre(c, rep, ttl, n, res, nv, how) /\ AssignEff(n, res, nv)

(* /vol/grow: count new volumes of the class, each placed as the replication says *)
Grow(c, rep, ttl, count, res, nv) ==
  /\ NewVolsShape(nv)
  /\ \A e \in nv : e.c = c /\ e.rep = rep /\ e.ttl = ttl
  /\ IF res.ok
     THEN /\ Cardinality(nv) = count /\ res.cnt = count * Copies(rep)
          /\ \A e \in nv : Placed(e.hold, rep)
          /\ vols' = AddVols(nv, FALSE)
     ELSE /\ ~(AllUp /\ SurePlace(rep, Servers))
          /\ vols' = AddVols(nv, TRUE)
  /\ UNCHANGED <<topo, up, fids, given, blob, fuzzy, clash, wrote, dead, purged, stale, forgot, ep>>

(* ------------------------------------------------------------ upload / delete *)
(* calm: nothing stands in the way of the replicated operation *)
Calm(vid, to) == LET v == vols[vid] IN ~v.gone /\ ~v.part /\ ~v.deg /\ v.hold \subseteq up /\ to \in v.hold

Upload(f, sub, d, to, st) ==
  IF st = "noassign" THEN ~ValidK(f, sub) /\ UNCHANGED core
  ELSE
  /\ ValidK(f, sub) /\ st \in {"ok", "err"}
  /\ LET k == <<f, sub>> vid == fids[f].vid calm == Calm(vid, to) /\ Pair(<<f, sub>>) \notin clash IN
     /\ calm => st = "ok"
     /\ IF st = "ok"
        THEN blob' = Put(blob, k, d) /\ fuzzy' = fuzzy \ {k} /\ wrote' = wrote \cup {Pair(k)}
        ELSE blob' = blob /\ fuzzy' = fuzzy \cup {k} /\ wrote' = wrote
     /\ vols' = IF calm /\ st = "ok" THEN vols ELSE SetDeg(vid)
  /\ UNCHANGED <<topo, up, fids, given, clash, dead, purged, stale, forgot, ep>>

Delete(f, sub, to, st) ==
  IF st = "noassign" THEN ~ValidK(f, sub) /\ UNCHANGED core
  ELSE
  /\ ValidK(f, sub) /\ st \in {"ok", "notfound", "err"}
  /\ LET k == <<f, sub>> vid == fids[f].vid calm == Calm(vid, to) /\ Pair(<<f, sub>>) \notin clash
         live == k \in DOMAIN blob /\ k \notin fuzzy IN
     /\ (calm /\ live) => st = "ok"
     /\ IF st = "ok"
        THEN /\ blob' = Drop(blob, k) /\ fuzzy' = fuzzy \ {k}
             /\ dead' = IF k \in DOMAIN blob THEN dead \cup {Pair(k)} ELSE dead
        ELSE /\ blob' = blob /\ dead' = dead
             /\ fuzzy' = IF k \in DOMAIN blob /\ st = "err" THEN fuzzy \cup {k} ELSE fuzzy
     /\ vols' = IF calm THEN vols ELSE SetDeg(vid)
  /\ UNCHANGED <<topo, up, fids, given, clash, wrote, purged, stale, forgot, ep>>

(* ------------------------------------------------------------ vacuum, collection delete *)
Vacuum(st) ==
  /\ st = "ok"
  /\ purged' = purged \cup dead
  /\ UNCHANGED <<topo, up, vols, fids, given, blob, fuzzy, clash, wrote, dead, stale, forgot, ep>>

VolsOf(c) == {v \in DOMAIN vols : vols[v].c = c /\ ~vols[v].gone}
ColDel(c, st) ==
  /\ st \in {"ok", "err"}
  /\ (AllUp /\ VolsOf(c) # {}) => st = "ok"
  /\ IF st = "ok"
     THEN vols' = [v \in DOMAIN vols |->
                     IF v \in VolsOf(c)
                     THEN [vols[v] EXCEPT !.hold = vols[v].hold \ up, !.gone = (vols[v].hold \subseteq up), !.part = TRUE]
                     ELSE vols[v]]
     ELSE vols' = vols
  /\ UNCHANGED <<topo, up, fids, given, blob, fuzzy, clash, wrote, dead, purged, stale, forgot, ep>>

(* ------------------------------------------------------------ restarts *)
MRestart(settled) ==
  /\ settled = TRUE
  /\ stale' = given \ wrote
  /\ forgot' = purged \ LivePairs
  /\ ep' = ep + 1
  /\ UNCHANGED <<topo, up, vols, fids, given, blob, fuzzy, clash, wrote, dead, purged>>
VStop(s, settled) == settled = TRUE /\ s \in up /\ up' = up \ {s}
                     /\ UNCHANGED <<topo, vols, fids, given, blob, fuzzy, clash, wrote, dead, purged, stale, forgot, ep>>
VStart(s, settled) == settled = TRUE /\ s \in Servers \ up /\ up' = up \cup {s}
                     /\ UNCHANGED <<topo, vols, fids, given, blob, fuzzy, clash, wrote, dead, purged, stale, forgot, ep>>
VRestart(s, settled) == settled = TRUE /\ s \in up /\ UNCHANGED core

(* ------------------------------------------------------------ generator / model *)
Init ==
  /\ topo = MTopo /\ up = DOMAIN MTopo
  /\ vols = <<>> /\ fids = <<>> /\ given = {} /\ blob = <<>> /\ fuzzy = {} /\ clash = {} /\ wrote = {}
  /\ dead = {} /\ purged = {} /\ stale = {} /\ forgot = {} /\ ep = 0 /\ hist = <<>>

Log(op) == hist' = Append(hist, op)
NextVid == Cardinality(DOMAIN vols) + 1
Keys == 1..(MaxOps * 3 + 3)
SmallestFresh(vid, n) == CHOOSE k \in Keys : Fresh(Range(vid, k, n)) /\ \A j \in 1..(k - 1) : ~Fresh(Range(vid, j, n))
Usable(c, rep, ttl) == {v \in DOMAIN vols : vols[v].c = c /\ vols[v].rep = rep /\ vols[v].ttl = ttl /\ ~vols[v].gone
                                           /\ ~vols[v].part /\ vols[v].hold \subseteq up}
Placements(rep) == {H \in SUBSET up : Placed(H, rep)}
Pick(S) == IF Canon THEN {CHOOSE x \in S : TRUE} ELSE S

MAssign ==
  \E c \in MColls, rep \in MReps, ttl \in MTtls, n \in MCounts :
    /\ Log([ev |-> "assign", c |-> c, rep |-> rep, ttl |-> ttl, n |-> n])
    /\ \/ \E v \in (IF Usable(c, rep, ttl) = {} THEN {} ELSE Pick(Usable(c, rep, ttl))) :
             Assign(c, rep, ttl, n, [ok |-> TRUE, vid |-> v, key |-> SmallestFresh(v, n), cnt |-> n,
                                      url |-> CHOOSE s \in vols[v].hold : TRUE], {}, "fresh")
       \/ /\ Usable(c, rep, ttl) = {} /\ Cardinality(DOMAIN vols) < MaxVols
          /\ \E H \in (IF Placements(rep) = {} THEN {} ELSE Pick(Placements(rep))) :
               Assign(c, rep, ttl, n, [ok |-> TRUE, vid |-> NextVid, key |-> SmallestFresh(NextVid, n), cnt |-> n,
                                        url |-> CHOOSE s \in H : TRUE],
                      {[vid |-> NextVid, c |-> c, rep |-> rep, ttl |-> ttl, hold |-> H]}, "fresh")
       \/ Assign(c, rep, ttl, n, [ok |-> FALSE, vid |-> 0, key |-> 0, cnt |-> 0, url |-> ""], {}, "fresh")
MGrow ==
  \E c \in MColls, rep \in MReps, ttl \in MTtls :
    /\ Log([ev |-> "grow", c |-> c, rep |-> rep, ttl |-> ttl, count |-> 1])
    /\ Cardinality(DOMAIN vols) < MaxVols
    /\ \/ \E H \in (IF Placements(rep) = {} THEN {} ELSE Pick(Placements(rep))) :
            Grow(c, rep, ttl, 1, [ok |-> TRUE, cnt |-> Copies(rep)], {[vid |-> NextVid, c |-> c, rep |-> rep, ttl |-> ttl, hold |-> H]})
       \/ Grow(c, rep, ttl, 1, [ok |-> FALSE, cnt |-> 0], {})
Target(f) == CHOOSE s \in vols[fids[f].vid].hold : TRUE
MUpload ==
  \E f \in 1..Len(fids), d \in MDatas : \E sub \in 0..(fids[f].cnt - 1) :
    /\ fids[f].ok /\ ~vols[fids[f].vid].gone
    /\ Log([ev |-> "upload", f |-> f, sub |-> sub, d |-> d])
    /\ \E st \in {"ok", "err"} : Upload(f, sub, d, Target(f), st)
MDelete ==
  \E k \in DOMAIN blob :
    /\ ~vols[fids[k[1]].vid].gone
    /\ Log([ev |-> "delete", f |-> k[1], sub |-> k[2]])
    /\ \E st \in {"ok", "err"} : Delete(k[1], k[2], Target(k[1]), st)
MVacuum == DOMAIN vols # {} /\ Log([ev |-> "vacuum"]) /\ Vacuum("ok")
MColDel == \E c \in MColls : AllUp /\ VolsOf(c) # {} /\ Log([ev |-> "coldel", c |-> c]) /\ ColDel(c, "ok")
MMRestart == fids # <<>> /\ Log([ev |-> "mrestart"]) /\ MRestart(TRUE)
MVStop == \E s \in up : Cardinality(up) = Cardinality(Servers) /\ DOMAIN vols # {} /\ Log([ev |-> "vstop", s |-> s]) /\ VStop(s, TRUE)
MVStart == \E s \in Servers \ up : Log([ev |-> "vstart", s |-> s]) /\ VStart(s, TRUE)
MVRestart == \E s \in up : DOMAIN vols # {} /\ Log([ev |-> "vrestart", s |-> s]) /\ VRestart(s, TRUE)

Next ==
  /\ Len(hist) < MaxOps
  /\ UNCHANGED topo
  /\ \/ ("assign" \in MOps /\ MAssign) \/ ("grow" \in MOps /\ MGrow) \/ ("upload" \in MOps /\ MUpload)
     \/ ("delete" \in MOps /\ MDelete) \/ ("vacuum" \in MOps /\ MVacuum) \/ ("coldel" \in MOps /\ MColDel)
     \/ ("mrestart" \in MOps /\ MMRestart) \/ ("vstop" \in MOps /\ (MVStop \/ MVStart)) \/ ("vrestart" \in MOps /\ MVRestart)
Spec == Init /\ [][Next]_vars

(* ------------------------------------------------------------ design-level properties *)
OkFids == {f \in 1..Len(fids) : fids[f].ok}
FRange(f) == Range(fids[f].vid, fids[f].key, fids[f].cnt)
(* uniqueness, stated over the history of assignments (not over the bookkeeping set) *)
UniqueFids == \A f, g \in OkFids : f # g => FRange(f) \cap FRange(g) = {}
GivenIsHistory == given = UNION {FRange(f) : f \in OkFids}
(* every volume that was created by a successful request keeps a placement its replication asks for *)
ReplicationSatisfied == \A v \in DOMAIN vols : (~vols[v].part) => (Placed(vols[v].hold, vols[v].rep) /\ Cardinality(vols[v].hold) = Copies(vols[v].rep))
(* blobs live on assigned file ids of volumes that exist; a written pair was handed out *)
BlobsOnFids == /\ \A k \in DOMAIN blob \cup fuzzy : ValidK(k[1], k[2])
               /\ clash \subseteq given
               /\ wrote \subseteq given /\ dead \subseteq wrote /\ purged \subseteq dead /\ stale \subseteq given /\ forgot \subseteq purged
(* an assignment names a volume of the execution *)
FidsOnVolumes == \A f \in OkFids : fids[f].vid \in DOMAIN vols
(* the failure rule is not vacuous: what CanPlace says is what Placements finds *)
PlaceConsistent == \A rep \in MReps : (CanPlace(rep, up) <=> (Placements(rep) # {})) /\ (SurePlace(rep, up) => CanPlace(rep, up))
HoldersFixed == [][\A v \in DOMAIN vols : v \in DOMAIN vols' /\ (vols'[v].hold \subseteq vols[v].hold) /\ (~vols[v].gone => vols'[v].c = vols[v].c)]_vars

(* ------------------------------------------------------------ emitting histories *)
Last == IF hist = <<>> THEN <<>> ELSE hist[Len(hist)]
View == <<up, vols, fids, blob, fuzzy, clash, dead, purged, stale, forgot, Last>>
MCView == <<core>>
EmitW == hist = <<>> \/ PrintT(<<"W", ToJson(hist)>>)
Emit == Len(hist) < MaxOps \/ PrintT(<<"W", ToJson(hist)>>)
=============================================================================
