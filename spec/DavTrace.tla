------------------------------- MODULE DavTrace -------------------------------
EXTENDS DavFS, TraceKit
CONSTANT Probe
tvars == <<vars, kitvars>>
TraceInit == Init /\ KitInit
TraceReset == IsReset /\ tree' = <<>> /\ UNCHANGED hist
TraceSkip == SkipStep /\ UNCHANGED vars
TMkcol == IsEvent("mkcol") /\ Strict /\ Mkcol(Ev.p, Ev.ok, tree') /\ UNCHANGED hist
TPut == IsEvent("put") /\ Strict /\ Put(Ev.p, Ev.d, Ev.ok, tree') /\ UNCHANGED hist
TDelete == IsEvent("delete") /\ Strict /\ Delete(Ev.p, Ev.ok, tree') /\ UNCHANGED hist
TMove == IsEvent("move") /\ Strict /\ Move(Ev.o, Ev.n, Ev.ow, Ev.ok, tree') /\ UNCHANGED hist
(* snapshot: GET of every probe path: "none", "dir" or the content token *)
TSnap == /\ IsEvent("snap") /\ Strict /\ Len(Ev.got) = Len(Probe)
         /\ \A i \in 1..Len(Probe) : Ev.got[i] = Look(tree, Probe[i])
         /\ UNCHANGED vars
TraceNext == TraceReset \/ TraceSkip \/ TMkcol \/ TPut \/ TDelete \/ TMove \/ TSnap
TraceSpec == TraceInit /\ [][TraceNext]_tvars
=============================================================================
