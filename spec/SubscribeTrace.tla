--------------------------- MODULE SubscribeTrace ---------------------------
(* C22 judge: consumes what harness/cmd/c22 recorded from the real LogBuffer.
   Only appends, subscriber starts, deliveries and ends carry obligations;
   the other events are the schedule (rotations, flusher progress) and are
   admitted as they come.  One appender per execution: the order of the
   "append" lines is the order of the log.

   End-to-end executions (harness/cmd/c22e: a real filer, changes through its gRPC,
   SubscribeMetadata / SubscribeLocalMetadata streams, real flushes into segment
   files) use, instead of "append":
     logged  id, ts, old, new    an entry the filer put into its metadata log (ts = 10 * rank)
     ch      k, a, b, n, err     the operation that did it; n = how many entries it logged
     stall   r                   r has not been handed the final marker change within the first
                                 deadline (a second marker follows); "timeout": nor the second
   and the same start / rd / end / tflush / drain lines. *)
EXTENDS Subscribe, TraceKit
VARIABLES desc,   \* end-to-end executions: <<old name, new name>> of every logged change, parallel to log
          ag      \* per subscriber, for the finding C22-agg-arrival-time: [lag, anom] (see AggWalk)
ext == <<desc, ag>>
tvars == <<avars, ext, kitvars>>
NoAg == [r \in Readers |-> [lag |-> 0, anom |-> FALSE]]
TraceInit == AInit /\ desc = <<>> /\ ag = NoAg /\ KitInit
TraceReset == IsReset /\ log' = <<>> /\ sub' = [r \in Readers |-> NoSub] /\ disk' = {} /\ desc' = <<>> /\ ag' = NoAg
TraceSkip == SkipStep /\ UNCHANGED <<avars, ext>>

Ids(seq) == {Id(seq[i]) : i \in 1..Len(seq)}

(* ts = the timestamp the buffer is seen to have given (0: not seen yet, an "appended" line follows) *)
TAppend == /\ IsEvent("append") /\ Strict
           /\ \E ts \in Assignable(Ev.req) : (Ev.ts = 0 \/ Ev.ts = ts) /\ AAppend(Ev.id, Ev.req, ts)
           /\ UNCHANGED <<sub, disk, ext>>
TAppended == /\ IsEvent("appended") /\ Strict
             /\ log # <<>> /\ log[Len(log)] = <<Ev.id, Ev.ts>>
             /\ UNCHANGED <<avars, ext>>
TStart == /\ IsEvent("start") /\ Strict
          /\ Ev.r \in Readers /\ ~sub[Ev.r].on
          /\ AStart(Ev.r, Ev.t0) /\ UNCHANGED <<log, disk, ext>>
(* the subscriber ran up to its next callback / wait; got = what its callback was handed on the way *)
(* ---- known finding C22-agg-arrival-time (SubscribeMetadata, the aggregated stream) ----
   The filer's aggregated buffer stamps every change with the time it ARRIVED there, a
   subscriber's position is the ORIGIN time of a change.  So the in-memory part of an
   aggregated subscription starts at the first change that ARRIVED later than the
   subscriber's position: up to a few changes too early.  Seen from outside: once per
   subscription the stream steps back - at the very start to changes at or before the
   requested time, or after the persisted part to changes it has handed out already - and
   runs on from there without a gap.  Nothing is ever skipped.
   hw = index in the log of the latest change handed out so far (the changes up to the start
   time count as handed out), the run is at hw - lag; anom: the step back has happened. *)
LogIdx(e) == IF \E i \in 1..Len(log) : log[i] = e THEN CHOOSE i \in 1..Len(log) : log[i] = e ELSE 0
RECURSIVE AggWalk(_, _)
AggWalk(st, seq) ==       \* st = [hw, cur, anom, ok]
  IF seq = <<>> \/ ~st.ok THEN st
  ELSE LET i == LogIdx(Head(seq)) IN
       IF i = 0 THEN [st EXCEPT !.ok = FALSE]
       ELSE IF i = st.cur + 1 THEN AggWalk([st EXCEPT !.cur = i, !.hw = IF i > @ THEN i ELSE @], Tail(seq))
       ELSE IF ~st.anom /\ i <= st.cur THEN AggWalk([st EXCEPT !.cur = i, !.anom = TRUE], Tail(seq))
       ELSE [st EXCEPT !.ok = FALSE]
ADeliverAgg(r, seq) ==
  LET base == Len(log) - Len(Expected(r))          \* the changes at or before the start time
      hw0 == base + Len(sub[r].got)
      st == AggWalk([hw |-> hw0, cur |-> hw0 - ag[r].lag, anom |-> ag[r].anom, ok |-> TRUE], seq)
  IN /\ sub[r].on /\ sub[r].skip = {} /\ seq # <<>>
     /\ st.ok /\ st.anom
     /\ sub' = [sub EXCEPT ![r].got = SubSeq(log, base + 1, st.hw)]
     /\ ag' = [ag EXCEPT ![r] = [lag |-> st.hw - st.cur, anom |-> TRUE]]
TRead == /\ IsEvent("rd") /\ Ev.r \in Readers
         /\ \/ Strict /\ ADeliver(Ev.r, Ev.got) /\ UNCHANGED ag
            \/ Deviate("C22-flush-lag-gap") /\ ADeliverLag(Ev.r, Ev.got, Ev.pend > 3) /\ UNCHANGED ag
            \/ /\ Has(Ev, "kind") /\ Ev.kind = "agg"
               /\ Deviate("C22-agg-arrival-time") /\ ADeliverAgg(Ev.r, Ev.got)
         /\ UNCHANGED <<log, disk, desc>>
TEnd == /\ IsEvent("end") /\ Strict /\ Ev.r \in Readers
        /\ AEnd(Ev.r) /\ UNCHANGED <<avars, ext>>
(* fl2: a flush has completed (flushFn has returned and the buffer has published it) *)
TFlush2 == /\ IsEvent("fl2") /\ Strict
           /\ AFlushed(Ids(Ev.got)) /\ UNCHANGED <<log, sub, ext>>
TQuiesce == /\ IsEvent("quiesce") /\ Strict
            /\ AFlushed(Ids(Ev.disk)) /\ UNCHANGED <<log, sub, ext>>
TSilent == /\ (IsEvent("tflush") \/ IsEvent("fl1") \/ IsEvent("drain")) /\ Strict
           /\ UNCHANGED <<avars, ext>>
(* a report of the Go race detector (a, b = the two accessing functions, sorted): no
   execution with one is admitted, except for the listed finding *)
TRace == /\ IsEvent("race")
         /\ Deviate("C22-race-lastflushtime")
         /\ <<Ev.a, Ev.b>> = <<"log_buffer.(*LogBuffer).ReadFromBuffer", "log_buffer.(*LogBuffer).loopFlush">>
         /\ UNCHANGED <<avars, ext>>
(* end to end: an entry of the filer's log; the operation that logged the last n entries *)
TLogged == /\ IsEvent("logged") /\ Strict
           /\ AAppend(Ev.id, Ev.ts, Ev.ts)
           /\ desc' = Append(desc, <<Ev.old, Ev.new>>)
           /\ UNCHANGED <<sub, disk, ag>>
TChange == /\ IsEvent("ch") /\ Strict
           /\ Ev.err = "" => /\ Ev.n <= Len(desc)
                              /\ ChangeLogged(Ev.k, Ev.a, Ev.b, SubSeq(desc, Len(desc) - Ev.n + 1, Len(desc)))
           /\ UNCHANGED <<avars, ext>>
(* r has not been handed the final marker change within the first deadline; the driver publishes a second
   marker.  Nothing is said about how fast a change is handed out (a subscriber that is only woken by the
   NEXT change is the multi-filer check's finding X05-lost-wakeup): admitted.  A client that is not handed
   the second marker either is a "timeout" line, which nothing admits. *)
TStall == /\ IsEvent("stall") /\ Strict /\ Ev.r \in Readers
          /\ UNCHANGED <<avars, ext>>
TraceNext == TraceReset \/ TraceSkip \/ TAppend \/ TAppended \/ TStart \/ TRead \/ TEnd \/ TFlush2 \/ TQuiesce \/ TSilent \/ TRace
             \/ TLogged \/ TChange \/ TStall
TraceSpec == TraceInit /\ [][TraceNext]_tvars
=============================================================================
