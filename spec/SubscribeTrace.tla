--------------------------- MODULE SubscribeTrace ---------------------------
(* C22 judge: consumes what harness/cmd/c22 recorded from the real LogBuffer.
   Only appends, subscriber starts, deliveries and ends carry obligations;
   the other events are the schedule (rotations, flusher progress) and are
   admitted as they come.  One appender per execution: the order of the
   "append" lines is the order of the log. *)
EXTENDS Subscribe, TraceKit
tvars == <<avars, kitvars>>
TraceInit == AInit /\ KitInit
TraceReset == IsReset /\ log' = <<>> /\ sub' = [r \in Readers |-> NoSub] /\ disk' = {}
TraceSkip == SkipStep /\ UNCHANGED avars

Ids(seq) == {Id(seq[i]) : i \in 1..Len(seq)}

(* ts = the timestamp the buffer is seen to have given (0: not seen yet, an "appended" line follows) *)
TAppend == /\ IsEvent("append") /\ Strict
           /\ \E ts \in Assignable(Ev.req) : (Ev.ts = 0 \/ Ev.ts = ts) /\ AAppend(Ev.id, Ev.req, ts)
           /\ UNCHANGED <<sub, disk>>
TAppended == /\ IsEvent("appended") /\ Strict
             /\ log # <<>> /\ log[Len(log)] = <<Ev.id, Ev.ts>>
             /\ UNCHANGED avars
TStart == /\ IsEvent("start") /\ Strict
          /\ Ev.r \in Readers /\ ~sub[Ev.r].on
          /\ AStart(Ev.r, Ev.t0) /\ UNCHANGED <<log, disk>>
(* the subscriber ran up to its next callback / wait; got = what its callback was handed on the way *)
TRead == /\ IsEvent("rd") /\ Ev.r \in Readers
         /\ \/ Strict /\ ADeliver(Ev.r, Ev.got)
            \/ Deviate("C22-flush-lag-gap") /\ ADeliverLag(Ev.r, Ev.got, Ev.pend > 3)
         /\ UNCHANGED <<log, disk>>
TEnd == /\ IsEvent("end") /\ Strict /\ Ev.r \in Readers
        /\ AEnd(Ev.r) /\ UNCHANGED avars
(* fl2: a flush has completed (flushFn has returned and the buffer has published it) *)
TFlush2 == /\ IsEvent("fl2") /\ Strict
           /\ AFlushed(Ids(Ev.got)) /\ UNCHANGED <<log, sub>>
TQuiesce == /\ IsEvent("quiesce") /\ Strict
            /\ AFlushed(Ids(Ev.disk)) /\ UNCHANGED <<log, sub>>
TSilent == /\ (IsEvent("tflush") \/ IsEvent("fl1") \/ IsEvent("drain")) /\ Strict
           /\ UNCHANGED avars
(* a report of the Go race detector (a, b = the two accessing functions, sorted): no
   execution with one is admitted, except for the listed finding *)
TRace == /\ IsEvent("race")
         /\ Deviate("C22-race-lastflushtime")
         /\ <<Ev.a, Ev.b>> = <<"log_buffer.(*LogBuffer).ReadFromBuffer", "log_buffer.(*LogBuffer).loopFlush">>
         /\ UNCHANGED avars
TraceNext == TraceReset \/ TraceSkip \/ TAppend \/ TAppended \/ TStart \/ TRead \/ TEnd \/ TFlush2 \/ TQuiesce \/ TSilent \/ TRace
TraceSpec == TraceInit /\ [][TraceNext]_tvars
=============================================================================
