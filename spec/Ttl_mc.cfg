SPECIFICATION Spec
INVARIANT ReadsAgree
PROPERTY RemovalOnlyWhenExpired
VIEW MCView
CHECK_DEADLOCK FALSE
