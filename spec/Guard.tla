------------------------------- MODULE Guard -------------------------------
(* C34 - access control of the volume server's HTTP interface with signed tokens.

   cfg      [w |-> key name or "", r |-> key name or ""]: the write / read signing key the
            server was started with ("" = none configured)
   op       "upload" (PUT) | "post" (multipart POST, as operation.Upload does) | "delete"  (class "w")
            "read" | "head"  (class "r")
   form     how the request names the target file: "plain" /vid,keycookie  "suffix" .._1
            "ext" ...jpg  "path" /vid/keycookie  "pathname" /vid/keycookie/pic.jpg  "lzvid" /0vid,keycookie
   via      how the token travels: "query" ?jwt=  "bearer" Authorization: Bearer  "bearerlower"
   tok      a structured description of the token; the driver builds exactly that token as text:
              shape  "jwt" three well-formed parts | "missing" | "empty" | "garbage" | "truncated"
                     | "badsig" (signature altered) | "twoparts" (signature part cut off)
              alg    "HS256" "HS384" "HS512" (HMAC) | "none" | "RS256" (real RSA signature)
                     | "RS256hmac" (header says RS256, signature is an HMAC with the key bytes)
              key    name of the key it was signed with
              exp    "future" | "past" | "absent"        nbf  "absent" | "past" | "future"
              claim  what the fid claim says relative to the target file:
                     "same" the canonical id | "samesuffix" the id with _1 | "lzvid" "upper" the same
                     file written differently | "otherkey" "othercookie" "othervid" another file
                     | "vidonly" | "empty" | "nofid"
   res      [cls |-> "ok" (2xx/3xx) | "denied" (401/403) | "other", data |-> the answer carried the
             blob or its metadata, changed |-> the volume (target needle, its neighbour, file
             sizes) differs from before the request, present |-> the target exists afterwards]

   Statement: with a key configured for the class of the operation, the operation succeeds ONLY
   with an unexpired HMAC token signed with that key whose fid claim names the target file (sub-file
   suffix ignored).  Everything else is rejected before any data is touched: no success status,
   nothing returned, nothing changed.  What happens to an allowed request is not this property's
   business (every outcome admitted). *)
EXTENDS Integers, Sequences, FiniteSets, TLC, Json
CONSTANTS Configs,     \* set of cfg records explored by the generator / model checker
          TokDims,     \* how many dimensions of the valid token are varied at once (1 or 2)
          Forms, Vias, \* generator universes
          MaxOps
VARIABLES cfg, present, last, hist
vars == <<cfg, present, last, hist>>

Class(op) == IF op \in {"upload", "post", "delete"} THEN "w" ELSE "r"
Hmac == {"HS256", "HS384", "HS512"}
NamesTarget(claim) == claim \in {"same", "samesuffix", "lzvid", "upper"}

Allowed(c, op, tok) ==
  LET k == c[Class(op)] IN
  \/ k = ""
  \/ /\ tok.shape = "jwt"
     /\ tok.alg \in Hmac
     /\ tok.key = k
     /\ tok.exp # "past"
     /\ tok.nbf # "future"
     /\ NamesTarget(tok.claim)

Rejected(res) == res.cls # "ok" /\ ~res.data /\ ~res.changed

(* the judged action: one HTTP request and what was observed *)
Op(op, form, via, tok, res) ==
  /\ ~Allowed(cfg, op, tok) => Rejected(res) /\ res.present = present
  /\ present' = res.present
  /\ UNCHANGED cfg

(* ---------------- generator / model-checking view ---------------- *)
Ops == {"upload", "post", "delete", "read", "head"}
Keys == {"k1", "k2", "k3"}
BaseKey(c, op) == IF c[Class(op)] # "" THEN c[Class(op)] ELSE "k1"
Valid(k) == [shape |-> "jwt", alg |-> "HS256", key |-> k, exp |-> "future", nbf |-> "absent", claim |-> "same"]
Dim == [shape |-> {"jwt", "missing", "empty", "garbage", "truncated", "badsig", "twoparts"},
        alg |-> {"HS256", "HS384", "HS512", "none", "RS256", "RS256hmac"},
        key |-> Keys,
        exp |-> {"future", "past", "absent"},
        nbf |-> {"absent", "past", "future"},
        claim |-> {"same", "samesuffix", "lzvid", "upper", "otherkey", "othercookie", "othervid", "vidonly", "empty", "nofid"}]
Fields == DOMAIN Dim
Vary1(t) == {t} \cup UNION {{[t EXCEPT ![f] = x] : x \in Dim[f]} : f \in Fields}
(* the valid token for this operation and everything that differs from it in <= TokDims dimensions *)
Tokens(c, op) == LET v == Valid(BaseKey(c, op)) IN
                 IF TokDims <= 1 THEN Vary1(v) ELSE UNION {Vary1(t) : t \in Vary1(v)}

None == [op |-> "none"]
(* the history starts with the reset line of the script: configuration and whether the blob exists *)
Init == /\ cfg \in Configs /\ present \in BOOLEAN /\ last = None
        /\ hist = <<[ev |-> "reset", cfg |-> cfg, present |-> present]>>
(* a by-the-book server: an allowed request takes effect, anything else is refused untouched *)
GenNext ==
  /\ Len(hist) <= MaxOps
  /\ \E op \in Ops, form \in Forms, via \in Vias :
       \E tok \in Tokens(cfg, op) :
         /\ last' = [op |-> op, tok |-> tok, allowed |-> Allowed(cfg, op, tok)]
         /\ hist' = Append(hist, [ev |-> "op", op |-> op, form |-> form, via |-> via, tok |-> tok])
         /\ present' = IF ~Allowed(cfg, op, tok) THEN present
                       ELSE IF op \in {"upload", "post"} /\ form # "suffix" THEN TRUE
                       ELSE IF op = "delete" /\ form # "suffix" THEN FALSE ELSE present
  /\ UNCHANGED cfg
Spec == Init /\ [][GenNext]_vars
Emit == Len(hist) <= MaxOps \/ PrintT(<<"W", ToJson(hist)>>)

(* ---------------- design-level properties (model-checked) ---------------- *)
(* an operation that is not allowed changes nothing *)
UnauthorizedIsNoop == [][(last' # last /\ ~last'.allowed) => present' = present]_vars
(* the following four depend on cfg only (cfg never changes): evaluated in the initial states *)
(* without a key for the class every request is allowed; with one, only a complete proof is *)
NoKeyNoCheck == last # None \/ (\A op \in Ops : cfg[Class(op)] = "" => \A t \in Tokens(cfg, op) : Allowed(cfg, op, t))
ProofNeeded == last # None \/ \A op \in Ops : cfg[Class(op)] # "" => \A t \in Tokens(cfg, op) :
                 Allowed(cfg, op, t) => /\ t.shape = "jwt" /\ t.alg \notin {"none", "RS256", "RS256hmac"}
                                        /\ t.key = cfg[Class(op)] /\ t.exp # "past" /\ t.nbf # "future"
                                        /\ t.claim \notin {"otherkey", "othercookie", "othervid", "vidonly", "empty", "nofid"}
(* a token signed with the read key never authorises a write (and vice versa) when the keys differ *)
KeySeparation == last # None \/ ((cfg.w # "" /\ cfg.r # "" /\ cfg.w # cfg.r) =>
                   (/\ \A op \in {"upload", "post", "delete"} : \A t \in Tokens(cfg, op) : t.key = cfg.r => ~Allowed(cfg, op, t)
                    /\ \A op \in {"read", "head"} : \A t \in Tokens(cfg, op) : t.key = cfg.w => ~Allowed(cfg, op, t)))
(* the valid token is allowed (the table is not vacuous) *)
ValidAllowed == last # None \/ \A op \in Ops : Allowed(cfg, op, Valid(BaseKey(cfg, op)))
=============================================================================
