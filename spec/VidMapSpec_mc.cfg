SPECIFICATION Spec
INVARIANT ListIsSet
INVARIANT SomeAnswerAdmitted
PROPERTY ExactlyTheAdded
CHECK_DEADLOCK FALSE
