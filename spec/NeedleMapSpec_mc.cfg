SPECIFICATION Spec
INVARIANT TypeOK
INVARIANT CountersAreLiveSet
INVARIANT ReplayRebuilds
INVARIANT WalkAgrees
PROPERTY DeleteReturns
CHECK_DEADLOCK FALSE
