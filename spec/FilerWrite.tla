---------------------------- MODULE FilerWrite ----------------------------
(* C25 - filer HTTP writes store exactly the request body.

   file[p] = [ex |-> does p exist, c |-> its content].  A content is not a byte string but
   says WHICH bytes must come back: a sequence of slices [s, a, b] = bytes
   [a, b) of the uploaded body ("segment") s, in normal form (no empty slice,
   adjacent slices of one segment that continue each other are merged).  The
   body of a write is segment s of n bytes, i.e. <<[s, 0, n]>> (<<>> when
   n = 0).  The driver reports what the filer's GET returns cut into slices of
   the segments it uploaded, by exact byte comparison.

     Write(p, "set", s, n, fail, st)     PUT / POST:  success => file'[p] = body
     Write(p, "append", ...)             ?op=append:  success => file'[p] = file[p] \o body
                                         (an absent file counts as empty)
     fail >= 0: the body's reader failed after `fail` bytes:
                                         st is not a success /\ file' = file
     a complete body answered with an error: the statement promises nothing
     about availability; the file is then the old or the new content, never
     something else (a request reported as failed commits no mangled file).
     Create(p, segs)                     set-up through the filer's gRPC API
     Get(p, st, c)                       200 and exactly file[p], or not 2xx when absent *)
EXTENDS Integers, Sequences, FiniteSets, TLC, Json
CONSTANTS Paths, Sizes, Fails, MaxOps
VARIABLES file, nseg, hist
vars == <<file, nseg, hist>>

Absent == [ex |-> FALSE, c |-> <<>>]
Have(c) == [ex |-> TRUE, c |-> c]
Piece(s, a, b) == [s |-> s, a |-> a, b |-> b]
Body(s, n) == IF n = 0 THEN <<>> ELSE <<Piece(s, 0, n)>>
Last(x) == x[Len(x)]
Cat(x, y) ==
  IF x = <<>> THEN y ELSE IF y = <<>> THEN x
  ELSE IF Last(x).s = y[1].s /\ Last(x).b = y[1].a
       THEN SubSeq(x, 1, Len(x) - 1) \o <<Piece(y[1].s, Last(x).a, y[1].b)>> \o SubSeq(y, 2, Len(y))
       ELSE x \o y
RECURSIVE CatAll(_)
CatAll(xs) == IF xs = <<>> THEN <<>> ELSE Cat(xs[1], CatAll(Tail(xs)))
RECURSIVE Bytes(_)
Bytes(x) == IF x = <<>> THEN 0 ELSE (x[1].b - x[1].a) + Bytes(Tail(x))
Normal(x) == /\ \A i \in 1..Len(x) : x[i].a < x[i].b /\ x[i].a >= 0
             /\ \A i \in 1..(Len(x) - 1) : ~(x[i].s = x[i + 1].s /\ x[i].b = x[i + 1].a)

Cur(p) == file[p].c
Ok(st) == st \in 200..299
Target(p, op, s, n) == IF op = "append" THEN Cat(Cur(p), Body(s, n)) ELSE Body(s, n)
With(p, c) == [file EXCEPT ![p] = Have(c)]

Write(p, op, s, n, fail, st) ==
  IF fail >= 0
  THEN ~Ok(st) /\ file' = file
  ELSE \/ Ok(st) /\ file' = With(p, Target(p, op, s, n))
       \/ ~Ok(st) /\ file' \in {file, With(p, Target(p, op, s, n))}

Create(p, segs) == file' = With(p, CatAll([i \in 1..Len(segs) |-> Body(segs[i].s, segs[i].n)]))

Get(p, st, c) == /\ IF ~file[p].ex THEN ~Ok(st) ELSE st = 200 /\ c = file[p].c
                 /\ UNCHANGED file

Init == file = [p \in Paths |-> Absent] /\ nseg = 1 /\ hist = <<>>

(* ------------- generator / model-checking view ------------- *)
Log(op) == hist' = Append(hist, op)
GenNext ==
  /\ Len(hist) < MaxOps
  /\ nseg' = nseg + 1
  /\ \/ \E p \in Paths, op \in {"set", "append"}, n \in Sizes, fail \in {-1} \cup Fails, st \in {201, 500} :
          /\ fail <= n
          /\ Write(p, op, nseg, n, fail, st)
          /\ Log([ev |-> "write", p |-> p, op |-> op, s |-> nseg, n |-> n, fail |-> fail, st |-> st])
     \/ \E p \in Paths, n \in Sizes :
          /\ Create(p, <<[s |-> nseg, n |-> n]>>)
          /\ Log([ev |-> "create", p |-> p, segs |-> <<[s |-> nseg, n |-> n]>>])
Spec == Init /\ [][GenNext]_vars

(* ---- design-level laws ---- *)
TypeOK == \A p \in Paths : Normal(file[p].c) /\ (~file[p].ex => file[p].c = <<>>)
LastOp == hist'[Len(hist')]
(* a write whose body failed leaves every file as it was, and is not reported as a success *)
FailedWriteLeavesState ==
  [][(hist' # hist /\ LastOp.ev = "write" /\ LastOp.fail >= 0) => (file' = file /\ ~Ok(LastOp.st))]_vars
(* a successful write determines the content from the previous content and the body alone *)
SuccessStoresBody ==
  [][(hist' # hist /\ LastOp.ev = "write" /\ Ok(LastOp.st)) =>
       /\ file'[LastOp.p].ex
       /\ LastOp.op = "set" => file'[LastOp.p].c = Body(LastOp.s, LastOp.n)
       /\ LastOp.op = "append" => /\ Bytes(file'[LastOp.p].c) = Bytes(Cur(LastOp.p)) + LastOp.n
                                  /\ file'[LastOp.p].c = Cur(LastOp.p) \o Body(LastOp.s, LastOp.n)
       /\ \A q \in Paths \ {LastOp.p} : file'[q] = file[q]]_vars
(* concatenation of contents: associative, <<>> neutral, lengths add up, normal form kept
   (so "append b then c" and "append b \o c" are the same file); evaluated once *)
SmallPieces == {q \in [s : 1..2, a : 0..1, b : 1..2] : q.a < q.b}
SmallContents == {x \in {<<>>} \cup {<<q>> : q \in SmallPieces} \cup {<<q, r>> : q \in SmallPieces, r \in SmallPieces} : Normal(x)}
CatLaws ==
  hist = <<>> =>
    \A x \in SmallContents, y \in SmallContents :
      /\ Normal(Cat(x, y)) /\ Bytes(Cat(x, y)) = Bytes(x) + Bytes(y)
      /\ Cat(x, <<>>) = x /\ Cat(<<>>, x) = x
      /\ \A z \in SmallContents : Cat(Cat(x, y), z) = Cat(x, Cat(y, z))

Emit == Len(hist) < MaxOps \/ PrintT(<<"W", ToJson(hist)>>)
View == <<file, IF hist = <<>> THEN <<>> ELSE hist[Len(hist)]>>
EmitW == hist = <<>> \/ PrintT(<<"W", ToJson(hist)>>)
=============================================================================
