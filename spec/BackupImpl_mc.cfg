SPECIFICATION Spec
INVARIANT ConvergesAfterBackup
INVARIANT IdxInDat
VIEW MCView
CHECK_DEADLOCK FALSE
