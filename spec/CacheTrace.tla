----------------------------- MODULE CacheTrace -----------------------------
(* C31 judge: every recorded SetChunk / GetChunk / GetChunkSlice / restart of the real
   TieredChunkCache against CacheSpec.tla.  snap = the driver looked up every probe
   file id with every probe minSize right after an operation: got[i][j] is the answer
   for ProbeFids[i], ProbeMins[j]. *)
EXTENDS CacheSpec, TraceKit
CONSTANTS ProbeFids, ProbeMins
tvars == <<avars, kitvars>>
(* P = TRUE makes TLC evaluate P as a plain expression: the existential quantifiers inside the
   predicates would otherwise be enumerated as (identical) successor states, once per witness *)
Is(P) == P = TRUE
TraceInit == Init /\ KitInit
TraceReset == IsReset /\ stored' = {} /\ UNCHANGED hist
TraceSkip == SkipStep /\ UNCHANGED avars
TSet == IsEvent("set") /\ Strict /\ Set(Ev.fid, Ev.d, Ev.n) /\ UNCHANGED hist
TRestart == IsEvent("restart") /\ Strict /\ Restart /\ UNCHANGED hist
TGet == /\ IsEvent("get")
        /\ \/ Strict /\ Is(GetOk(Ev.fid, Ev.min, Ev.res))
           \/ Deviate("C31-disk-key-only") /\ Is(GetAliased(Ev.fid, Ev.min, Ev.res))
        /\ UNCHANGED avars
TSlice == /\ IsEvent("slice")
          /\ \/ Strict /\ Is(SliceOk(Ev.fid, Ev.off, Ev.len, Ev.res))
             \/ Deviate("C31-disk-key-only") /\ Is(SliceAliased(Ev.fid, Ev.off, Ev.len, Ev.res))
          /\ UNCHANGED avars
Cells == {<<i, j>> : i \in 1..Len(ProbeFids), j \in 1..Len(ProbeMins)}
SnapStrict == \A c \in Cells : GetOk(ProbeFids[c[1]], ProbeMins[c[2]], Ev.got[c[1]][c[2]])
SnapDev == /\ \A c \in Cells : \/ GetOk(ProbeFids[c[1]], ProbeMins[c[2]], Ev.got[c[1]][c[2]])
                               \/ GetAliased(ProbeFids[c[1]], ProbeMins[c[2]], Ev.got[c[1]][c[2]])
           /\ ~SnapStrict
TSnap == /\ IsEvent("snap")
         /\ Len(Ev.got) = Len(ProbeFids) /\ \A i \in 1..Len(ProbeFids) : Len(Ev.got[i]) = Len(ProbeMins)
         /\ \/ Strict /\ Is(SnapStrict)
            \/ Deviate("C31-disk-key-only") /\ Is(SnapDev)
         /\ UNCHANGED avars
TraceNext == TraceReset \/ TraceSkip \/ TSet \/ TRestart \/ TGet \/ TSlice \/ TSnap
TraceSpec == TraceInit /\ [][TraceNext]_tvars
=============================================================================
