---------------------------- MODULE MetaCacheImpl ----------------------------
(* Spec growth X04, layer B: the mount's metadata cache as the code builds it, with the layer-A state as ghost.

   cache   the local store (leveldb): path -> "dir" | token; may hold entries below directories that are gone
   leaf / inner   the "visited boundary" (weed/util/bounded_tree): a node that is a leaf is a directory NOT yet
           read; an inner node or NO node at all counts as read (a directory created after its parent was read
           is known from events alone).  A read directory without sub-directories is cut out of the tree.
   queue   the filer's change stream not yet applied by the subscription (events carrying the mount's own
           signature are never sent: filer_grpc_server_sub_meta.go)

   Event shapes as this filer emits them (filer.go CreateEntry, filer_delete_entry.go, filer_grpc_server_rename.go):
     create / update   [o |-> <<>> or the path itself, n |-> path, v |-> value]; implicitly created parents first,
                       those without any signature
     recursive delete  depth first, children in name order, then the directory; only the entry named in the
                       request carries the caller's signature
     rename            per entry: create (or update) at the new path, then the children, then delete of the old
                       path - all with the caller's signature
   EnsureVisited (meta_cache_init.go + bounded_tree.go) walks from the root: an unread node is read (every entry
   of the filer's CURRENT listing inserted, nothing removed) and gets a leaf per sub-directory.
   AtomicUpdateEntryFromFiler (meta_cache.go): delete the old path if its directory counts as read (unless it
   is the new path), insert the new entry if its directory counts as read.
   The mount's own operations follow weed/filesys/dir.go, dir_rename.go, file.go, driven as the kernel does:
   a lookup per path component (each an EnsureVisited + a look into the cache), a lookup of the name, the call.

   Checked here (Refines): in every reachable state the layer-A judgement of the state's own listings holds -
   i.e. at quiescence every served listing of an existing directory equals the filer's except at paths that
   layer A excuses by a known-finding id; with both switches off nothing is excused and nothing differs. *)
EXTENDS MetaCache
CONSTANTS Paths,        \* universe of paths (prefix closed)
          NameSeq,      \* the names in listing order
          Datas, MaxOps, QMax,
          OwnRaces,     \* generate own changes while an event related to their paths is queued
          OwnMvUnvisited, \* generate own renames of directories that are partly unread
          LogHist,      \* FALSE: no history is kept (exhaustive exploration of the reachable states)
          InitTrees     \* sequence of initial trees, each a set of <<path, value>> (built by another client before
                        \* the mount looks anywhere; the history starts with [ev |-> "init", i |-> index])
VARIABLES cache, leaf, inner, queue,
          bad           \* layer A could not explain a step of this model
vars == <<avars, cache, leaf, inner, queue, bad>>

NoPath == <<>>
Evt(o, n, v) == [o |-> o, n |-> n, v |-> v]
RECURSIVE Cat(_)
Cat(ss) == IF ss = <<>> THEN <<>> ELSE Head(ss) \o Cat(Tail(ss))
KidSeq(t, p) == SelectSeq(NameSeq, LAMBDA k : Append(p, k) \in DOMAIN t)

(* ---------------- the filer's event emission ---------------- *)
MissAnc(t, p) == SelectSeq([i \in 1..(Len(p) - 1) |-> Pre(p, i)], LAMBDA a : a \notin DOMAIN t)
AncEvs(t, p) == [i \in 1..Len(MissAnc(t, p)) |-> Evt(NoPath, MissAnc(t, p)[i], "dir")]
OneEv(t, p, v) == Evt(IF p \in DOMAIN t THEN p ELSE NoPath, p, v)
CreateEvs(t, p, v, signed) == AncEvs(t, p) \o (IF signed THEN <<>> ELSE <<OneEv(t, p, v)>>)
RECURSIVE DelEvs(_, _, _)
DelEvs(t, p, signedTop) ==
  IF p \notin DOMAIN t THEN <<>>
  ELSE (IF t[p] = "dir" THEN Cat([i \in 1..Len(KidSeq(t, p)) |-> DelEvs(t, Append(p, KidSeq(t, p)[i]), FALSE)]) ELSE <<>>)
       \o (IF signedTop THEN <<>> ELSE <<Evt(p, NoPath, "")>>)
RECURSIVE MvKidEvs(_, _, _)
MvKidEvs(t, o, n) ==
  <<OneEv(t, n, t[o])>> \o Cat([i \in 1..Len(KidSeq(t, o)) |-> MvKidEvs(t, Append(o, KidSeq(t, o)[i]), Append(n, KidSeq(t, o)[i]))])
  \o <<Evt(o, NoPath, "")>>
MvEvs(t, o, n, signed) == AncEvs(t, n) \o (IF signed THEN <<>> ELSE MvKidEvs(t, o, n))
Emitted(t, k, p, n, d, signed) ==
  CASE k = "put" -> CreateEvs(t, p, d, signed)
    [] k = "mkdir" -> CreateEvs(t, p, "dir", signed)
    [] k = "del" -> DelEvs(t, p, signed)
    [] k = "mv" -> IF p = n THEN <<>> ELSE MvEvs(t, p, n, signed)

(* ---------------- the visited boundary ---------------- *)
Bt(s) == s.leaf \cup s.inner
HasVisited(s, p) ==
  LET ni == {i \in 0..Len(p) : Pre(p, i) \notin s.inner} IN
  IF ni = {} THEN TRUE ELSE LET i == CHOOSE i \in ni : \A j \in ni : i <= j IN Pre(p, i) \notin s.leaf
KidsOf(t, q) == {r \in DOMAIN t : Len(r) = Len(q) + 1 /\ Parent(r) = q}
ScanInto(c, t, q) == [r \in DOMAIN c \cup KidsOf(t, q) |-> IF r \in KidsOf(t, q) THEN t[r] ELSE c[r]]
(* s = [leaf, inner, cache]; t = the filer's tree now; result [s, del]: del = the node q can be cut out *)
RECURSIVE Ens(_, _, _, _)
Ens(s, t, q, p) ==
  IF q \notin Bt(s) THEN [s |-> s, del |-> FALSE]
  ELSE LET wasLeaf == q \in s.leaf
           kd == {r \in KidsOf(t, q) : t[r] = "dir"}
           s1 == IF wasLeaf
                 THEN [leaf |-> IF kd = {} THEN s.leaf ELSE (s.leaf \ {q}) \cup kd,
                       inner |-> IF kd = {} THEN s.inner ELSE s.inner \cup {q},
                       cache |-> ScanInto(s.cache, t, q)]
                 ELSE s
       IN IF wasLeaf /\ kd = {} THEN [s |-> s1, del |-> TRUE]
          ELSE IF Len(q) >= Len(p) THEN [s |-> s1, del |-> FALSE]
          ELSE LET c == Append(q, p[Len(q) + 1]) IN
               IF c \notin Bt(s1) THEN [s |-> s1, del |-> FALSE]
               ELSE LET r == Ens(s1, t, c, p) IN
                    IF r.del
                    THEN LET s2 == [r.s EXCEPT !.leaf = @ \ {c}, !.inner = @ \ {c}] IN
                         [s |-> s2, del |-> ~\E k \in Bt(s2) : Len(k) = Len(q) + 1 /\ Parent(k) = q]
                    ELSE [s |-> r.s, del |-> FALSE]
EnsTop(s, t, p) == LET r == Ens(s, t, <<>>, p) IN
                   IF r.del THEN [r.s EXCEPT !.leaf = @ \ {<<>>}, !.inner = @ \ {<<>>}] ELSE r.s
(* lookups down to the directory p: [s, ok, vis] *)
RECURSIVE Walk(_, _, _, _)
Walk(s, t, p, i) ==
  IF i > Len(p) THEN [s |-> s, ok |-> TRUE, vis |-> Len(p)]
  ELSE LET s1 == EnsTop(s, t, Pre(p, i - 1)) IN
       IF Look(s1.cache, Pre(p, i)) = "dir" THEN Walk(s1, t, p, i + 1) ELSE [s |-> s1, ok |-> FALSE, vis |-> i]

(* ---------------- the subscription ---------------- *)
Apply1(s, e) ==
  LET c1 == IF e.o # NoPath /\ e.o # e.n /\ HasVisited(s, Parent(e.o)) THEN Del1(s.cache, e.o) ELSE s.cache
  IN [s EXCEPT !.cache = IF e.n # NoPath /\ HasVisited(s, Parent(e.n)) THEN Put1(c1, e.n, e.v) ELSE c1]
RECURSIVE ApplyN(_, _, _)
ApplyN(s, q, k) == IF k = 0 \/ q = <<>> THEN s ELSE ApplyN(Apply1(s, Head(q)), Tail(q), k - 1)

(* ---------------- the mount's local rename (dir_rename.go moveEntry) ---------------- *)
RECURSIVE LMv(_, _, _, _)
RECURSIVE LMvKids(_, _, _, _, _)
LMv(c, s, o, n) ==
  LET c1 == Put1(c, n, c[o]) IN
  IF c[o] # "dir" THEN [c |-> Del1(c1, o), ok |-> TRUE]
  ELSE IF ~HasVisited(s, o) THEN [c |-> c1, ok |-> FALSE]
  ELSE LET r == LMvKids(c1, s, o, n, KidSeq(c1, o)) IN
       IF r.ok THEN [c |-> Del1(r.c, o), ok |-> TRUE] ELSE r
LMvKids(c, s, o, n, ks) ==
  IF ks = <<>> THEN [c |-> c, ok |-> TRUE]
  ELSE LET r == LMv(c, s, Append(o, Head(ks)), Append(n, Head(ks))) IN
       IF r.ok THEN LMvKids(r.c, s, o, n, Tail(ks)) ELSE r

(* ---------------- actions ---------------- *)
S0 == [leaf |-> leaf, inner |-> inner, cache |-> cache]
SetS(s) == leaf' = s.leaf /\ inner' = s.inner /\ cache' = s.cache
Log(op) == hist' = IF LogHist THEN Append(hist, op) ELSE hist
OpRec(who, k, p, n, d) == [ev |-> "op", who |-> who, k |-> k, p |-> p, n |-> n, d |-> d]
(* the layer-A state follows by layer A's own rules; bad records a step that layer A would not admit *)
Ghost(who, k, p, n, d, ok, vis, vis2, dev, t2) ==
  LET e == [who |-> who, k |-> k, p |-> p, n |-> n, d |-> d, ok |-> ok, vis |-> vis, vis2 |-> vis2, q |-> Len(queue')] IN
  /\ tree' = t2
  /\ visited' = VisAfter(visited, e)
  /\ pend' = PendAfter(e, tree, t2)
  /\ exc' = ExcAfter(e, t2, dev)
  /\ bad' = (bad \/ ~(IF dev THEN OpRenameDev(e, t2) ELSE OpStrict(e, t2)))

(* what the generator lets a client ask for: requests whose outcome on this filer is clear *)
Sane(t, k, p, n) ==
  CASE k = "put" -> AncFree(t, p) /\ Look(t, p) # "dir"      \* missing parents are created implicitly
    [] k = "mkdir" -> AncFree(t, p) /\ Look(t, p) = "none"
    [] k = "del" -> p \in DOMAIN t
    [] k = "mv" -> /\ p \in DOMAIN t /\ p # n /\ ~IsPrefix(p, n) /\ IsDir(t, Parent(n))
                   /\ (Look(t, n) = "none" \/ (Look(t, p) # "dir" /\ Look(t, n) # "dir"))
                   /\ \A q \in Under(t, p) : Image(q, p, n) \in Paths

Other(k, p, n, d) ==
  /\ Sane(tree, k, p, n)
  /\ Len(queue) + Len(Emitted(tree, k, p, n, d, FALSE)) <= QMax
  /\ queue' = queue \o Emitted(tree, k, p, n, d, FALSE)
  /\ Ghost("o", k, p, n, d, TRUE, 0, 0, FALSE, Apply(tree, k, p, n, d))
  /\ UNCHANGED <<cache, leaf, inner>>
  /\ Log(OpRec("o", k, p, n, d))

(* the mount: lookups, then the call; fin = [s, t, evs, ok, dev] *)
MineResult(k, p, n, d) ==
  LET w == Walk(S0, tree, Parent(p), 1)
      fail(s) == [s |-> s, t |-> tree, evs |-> <<>>, ok |-> FALSE, dev |-> FALSE, vis |-> 0, vis2 |-> 0]
  IN IF ~w.ok THEN [fail(w.s) EXCEPT !.vis = w.vis]
     ELSE LET s1 == EnsTop(w.s, tree, Parent(p))
              cur == Look(s1.cache, p)
              v1 == Len(p)
              filer(kk, vv, s) ==    \* a create / update / delete sent with the mount's signature, cache updated on success
                IF Can(tree, kk, p, n)
                THEN [s |-> s, t |-> Apply(tree, kk, p, n, vv), evs |-> Emitted(tree, kk, p, n, vv, TRUE), ok |-> TRUE, dev |-> FALSE, vis |-> v1, vis2 |-> 0]
                ELSE [fail(s1) EXCEPT !.vis = v1]
          IN CASE k = "put" ->
                    IF cur = "dir" THEN [fail(s1) EXCEPT !.vis = v1]
                    ELSE IF cur = d THEN [fail(s1) EXCEPT !.vis = v1, !.ok = TRUE]
                    ELSE filer("put", d, [s1 EXCEPT !.cache = Put1(@, p, d)])
               [] k = "mkdir" ->
                    IF cur # "none" THEN [fail(s1) EXCEPT !.vis = v1]
                    ELSE filer("mkdir", "dir", [s1 EXCEPT !.cache = Put1(@, p, "dir")])
               [] k = "del" ->
                    IF cur = "none" THEN [fail(s1) EXCEPT !.vis = v1]
                    ELSE filer("del", "", [s1 EXCEPT !.cache = Del1(@, p)])
               [] k = "mv" ->
                    IF cur = "none" THEN [fail(s1) EXCEPT !.vis = v1]
                    ELSE LET w2 == Walk(s1, tree, Parent(n), 1) IN
                         IF ~w2.ok THEN [fail(w2.s) EXCEPT !.vis = v1, !.vis2 = w2.vis]
                         ELSE LET s2 == EnsTop(w2.s, tree, Parent(n)) IN
                              IF ~Can(tree, "mv", p, n) THEN [fail(s2) EXCEPT !.vis = v1, !.vis2 = Len(n)]
                              ELSE LET m == LMv(s2.cache, s2, p, n) IN
                                   [s |-> [s2 EXCEPT !.cache = m.c], t |-> Apply(tree, "mv", p, n, d),
                                    evs |-> Emitted(tree, "mv", p, n, d, TRUE), ok |-> m.ok, dev |-> ~m.ok,
                                    vis |-> v1, vis2 |-> Len(n)]

Mine(k, p, n, d) ==
  /\ Sane(tree, k, p, n)        \* the generator asks the mount only for what makes sense on the filer's present tree
  /\ k \in {"mv", "del"} => Look(cache, p) = "none" \/ Kinded(Look(cache, p)) = Kinded(Look(tree, p))
  /\ k = "mv" => Look(cache, p) = "none" \/ \A q \in Under(cache, p) : Image(q, p, n) \in Paths
  /\ OwnRaces \/ ~Racy(pend, Roots(k, p, n))
  /\ OwnMvUnvisited \/ k # "mv" \/ (\A q \in Under(tree, p) : tree[q] = "dir" => HasVisited(S0, q)) = TRUE
  /\ LET f == MineResult(k, p, n, d) IN
     /\ Len(queue) + Len(f.evs) <= QMax
     /\ queue' = queue \o f.evs
     /\ SetS(f.s)
     /\ Ghost("m", k, p, n, d, f.ok, f.vis, f.vis2, f.dev, f.t)
  /\ Log(OpRec("m", k, p, n, d))

Visit(p) ==
  /\ LET w == Walk(S0, tree, p, 1)
         s == IF w.ok THEN EnsTop(w.s, tree, p) ELSE w.s
     IN SetS(s) /\ VisitA([p |-> p, vis |-> IF w.ok THEN Len(p) + 1 ELSE w.vis])
  /\ UNCHANGED <<queue, bad>>
  /\ Log([ev |-> "visit", p |-> p])

Deliver(k) ==
  /\ queue # <<>>
  /\ SetS(ApplyN(S0, queue, k))
  /\ queue' = SubSeq(queue, (IF k > Len(queue) THEN Len(queue) ELSE k) + 1, Len(queue))
  /\ DeliverA([q |-> Len(queue')]) /\ UNCHANGED bad
  /\ Log([ev |-> "deliver", n |-> k])

Dirs == {p \in Paths \cup {<<>>} : \E q \in Paths : Len(q) = Len(p) + 1 /\ Parent(q) = p}
Next ==
  /\ Len(hist) < MaxOps
  /\ \/ \E k \in {"put", "mkdir", "del", "mv"}, p \in Paths, n \in Paths, d \in Datas :
          /\ (k # "mv" => n = p) /\ (k # "put" => d = CHOOSE x \in Datas : TRUE)
          /\ (Other(k, p, n, d) \/ Mine(k, p, n, d))
     \/ \E p \in Dirs : Visit(p)
     \/ \E k \in {1, 100} : Deliver(k)
TreeOf(S) == [p \in {x[1] : x \in S} |-> (CHOOSE x \in S : x[1] = p)[2]]
ImplInit == /\ \E i \in 1..Len(InitTrees) : tree = TreeOf(InitTrees[i]) /\ hist = IF LogHist THEN <<[ev |-> "init", i |-> i]>> ELSE <<>>
            /\ visited = {} /\ pend = {} /\ exc = {}
            /\ cache = <<>> /\ leaf = {<<>>} /\ inner = {} /\ queue = <<>> /\ bad = FALSE
Spec == ImplInit /\ [][Next]_vars

(* ---------------- what is checked ---------------- *)
ListingOf(d) == [st |-> IF HasVisited(S0, d) THEN "ok" ELSE "unsync",
                 es |-> LET ks == KidSeq(cache, d) IN [i \in 1..Len(ks) |-> <<ks[i], cache[Append(d, ks[i])]>>]]
ProbeSeq == CHOOSE s \in [1..Cardinality(Dirs) -> Dirs] : \A a, b \in DOMAIN s : a # b => s[a] # s[b]
CsNow == [i \in 1..Len(ProbeSeq) |-> ListingOf(ProbeSeq[i])]
(* the layer-A judgement of this state's own listings *)
Refines ==
  /\ ~bad
  /\ \A i \in 1..Len(ProbeSeq) : ProbeSeq[i] \in visited => CsNow[i].st = "ok"
  /\ \A q \in BadPaths(Len(queue), CsNow, ProbeSeq) : ExcIds(q) # {}
NothingExcused == exc = {}
TypeOK == WellFormed /\ (\A p \in DOMAIN cache : Len(p) >= 1) /\ leaf \cap inner = {}
          /\ (\A q \in leaf \cup inner : q = <<>> \/ Parent(q) \in inner)
          /\ (Len(queue) = 0 => pend = {})
View == <<tree, visited, pend, exc, cache, leaf, inner, queue, IF hist = <<>> THEN <<>> ELSE hist[Len(hist)]>>
MCView == <<tree, visited, pend, exc, cache, leaf, inner, queue, bad, Len(hist)>>
EmitW == Len(hist) <= 1 \/ PrintT(<<"W", ToJson(hist)>>)
Emit == Len(hist) < MaxOps \/ PrintT(<<"W", ToJson(hist)>>)
=============================================================================
