---------------------------- MODULE S3ObjectImpl ----------------------------
(* Layer B for C28: what the gateway does to the filer's tree, request by request, as read from
   weed/s3api (s3api_object_handlers.go, s3api_object_copy_handlers.go, filer_multipart.go) and the filer's upload
   handler - and confirmed on the real gateway:

     PUT / copy to k   k is a FOLDER of the filer -> 200, stored inside the folder under the folder's own name;
                       the parent of k is a FILE -> 500; else stored, the parent folder comes into being
     DELETE k          recursive: a file k, or the folder k with everything below; parent folders stay behind
     batch delete      each named key non-recursively (a non-empty folder is skipped, reported as deleted), then the
                       PARENT path of every named key is deleted if that works non-recursively: an emptied folder -
                       or a file of that name
     complete          the parts in ascending part-number order (name order %04d.part before the fix: NameOrder),
                       only the parts stored as chunks (a part smaller than the filer's SaveToFilerLimit is inline);
                       target is a folder, or below a file -> 500, the upload stays
     copy source       must be a file (before the fix: anything - CopyUnchecked: a missing source gave an empty object)

   The abstract state is the tree's files: obj (shared with layer A), folders = the filer's folders. Every step
   computes the result of the procedure, then asks layer A whether the strict action admits it (with the observed
   status and key set); if not, which known deviation does. ImplOK: no step is unexplained, and only deviations in
   BKF are needed. With BKF = {} TLC exhibits the defects; the histories it visits (EmitW over a view that includes
   the folders) are used as scripts: they reach tree shapes the strict generator cannot tell apart (left-over
   empty folders). *)
EXTENDS S3Object

CONSTANTS Parent,        \* key -> parent folder key, "" for a key at the top of the bucket
          BKF, NameOrder, CopyUnchecked
VARIABLES devs
ivars == <<obj, ups, folders, hist, devs>>

KFFolder == "C28-write-onto-folder-lands-inside"
KFSubtree == "C28-delete-removes-subtree"
KFInline == "C28-inline-parts-dropped"
KFParent == "C28-batch-delete-removes-parent-object"

IsFile(b, k) == <<b, k>> \in DOMAIN obj
IsFolder(b, k) == <<b, k>> \in folders
Par(k) == IF k \in DOMAIN Parent THEN Parent[k] ELSE ""
UnderF(b, k) == {x \in DOMAIN obj : x[1] = b /\ <<k, x[2]>> \in Under}      \* files below folder k
SubFolders(b, k) == {x \in folders : x[1] = b /\ <<k, x[2]>> \in Under}
EmptyFolder(o, fs, b, k) == <<b, k>> \in fs /\ ~\E x \in DOMAIN o : x[1] = b /\ <<k, x[2]>> \in Under

(* where a write to <<b, k>> ends up: [st, o, f] *)
WriteRes(b, k, c) ==
  IF IsFolder(b, k) /\ k \in DOMAIN FT
  THEN [st |-> 200, o |-> Set(obj, <<b, FT[k]>>, c), f |-> folders]
  ELSE IF IsFolder(b, k) \/ (Par(k) # "" /\ IsFile(b, Par(k)))
  THEN [st |-> 500, o |-> obj, f |-> folders]
  ELSE [st |-> 200, o |-> Set(obj, <<b, k>>, c), f |-> folders \cup (IF Par(k) # "" THEN {<<b, Par(k)>>} ELSE {})]

Classify(strict, cands) == IF strict THEN {} ELSE LET hit == {d \in DOMAIN cands : cands[d]} IN IF hit = {} THEN {"UNEXPLAINED"} ELSE hit
Step(op, r) == /\ Len(hist) < MaxOps /\ hist' = Append(hist, op)
               /\ obj' = r.o /\ folders' = r.f

IPut == \E x \in GenBK, s \in GenSegs :
   LET r == WriteRes(x[1], x[2], Norm(<<s>>)) IN
   /\ Step([ev |-> "put", b |-> x[1], k |-> x[2], seg |-> s, mode |-> "plain", chunk |-> 3], r)
   /\ ups' = ups
   /\ devs' = Classify(Put(x[1], x[2], s, r.st, DOMAIN obj'),
                       KFFolder :> PutOntoFolder(x[1], x[2], s, r.st, DOMAIN obj'))
ICopy == \E x \in GenBK \cup DOMAIN obj, y \in GenDst :
   LET ok == x \in DOMAIN obj /\ x # y
       r == IF ok THEN WriteRes(y[1], y[2], obj[x])
            ELSE IF CopyUnchecked /\ x # y THEN WriteRes(y[1], y[2], <<>>)
            ELSE [st |-> 400, o |-> obj, f |-> folders] IN
   /\ Step([ev |-> "copy", sb |-> x[1], sk |-> x[2], b |-> y[1], k |-> y[2]], r)
   /\ ups' = ups
   /\ devs' = Classify(Copy(x[1], x[2], y[1], y[2], r.st, DOMAIN obj'),
                       KFFolder :> CopyOntoFolder(x[1], x[2], y[1], y[2], r.st, DOMAIN obj'))
IDel == \E x \in GenBK :
   LET gone == {x} \cup UnderF(x[1], x[2])
       r == [st |-> 204, o |-> Drop(obj, gone), f |-> folders \ ({x} \cup SubFolders(x[1], x[2]))] IN
   /\ Step([ev |-> "del", b |-> x[1], k |-> x[2]], r)
   /\ ups' = ups
   /\ devs' = Classify(Delete(x[1], x[2], r.st, DOMAIN obj'),
                       KFSubtree :> DeleteSubtree(x[1], x[2], r.st, DOMAIN obj'))
(* the two phases of a batch delete over the sequence ks *)
RECURSIVE BDelEntries(_, _, _, _)
BDelEntries(o, fs, b, ks) ==
  IF ks = <<>> THEN [o |-> o, f |-> fs]
  ELSE LET k == Head(ks) IN
       IF <<b, k>> \in DOMAIN o THEN BDelEntries(Drop(o, {<<b, k>>}), fs, b, Tail(ks))
       ELSE IF EmptyFolder(o, fs, b, k) THEN BDelEntries(o, fs \ {<<b, k>>}, b, Tail(ks))
       ELSE BDelEntries(o, fs, b, Tail(ks))
RECURSIVE BDelPurge(_, _, _, _)
BDelPurge(o, fs, b, ps) ==       \* ps: the parent paths, deepest first (here: one level)
  IF ps = <<>> THEN [o |-> o, f |-> fs]
  ELSE LET p == Head(ps) IN
       IF <<b, p>> \in DOMAIN o THEN BDelPurge(Drop(o, {<<b, p>>}), fs, b, Tail(ps))      \* a file of that name goes too
       ELSE IF EmptyFolder(o, fs, b, p) THEN BDelPurge(o, fs \ {<<b, p>>}, b, Tail(ps))
       ELSE BDelPurge(o, fs, b, Tail(ps))
IBDel == \E b \in {x[1] : x \in GenBK}, ks \in GenBDel :
   LET r1 == BDelEntries(obj, folders, b, ks)
       ps == SetToSeq({Par(ks[i]) : i \in 1..Len(ks)} \ {""})
       r2 == BDelPurge(r1.o, r1.f, b, ps)
       r == [st |-> 200, o |-> r2.o, f |-> r2.f] IN
   /\ Step([ev |-> "bdel", b |-> b, keys |-> ks], r)
   /\ ups' = ups
   /\ devs' = Classify(BatchDelete(b, ToSet(ks), 200, {}, DOMAIN obj'),
                       KFParent :> BatchDeleteParent(b, ToSet(ks), 200, DOMAIN obj'))
IGet == \E x \in DOMAIN obj :
   /\ Step([ev |-> "get", b |-> x[1], k |-> x[2], ranges |-> Ranges(obj[x])], [o |-> obj, f |-> folders])
   /\ ups' = ups /\ devs' = {}
IInit == \E b \in {x[1] : x \in GenBK}, k \in {x[2] : x \in GenBK} :
   LET u == Cardinality({i \in 1..Len(hist) : hist[i].ev = "init"}) + 1 IN
   /\ u <= MaxUploads
   /\ Step([ev |-> "init", u |-> u, b |-> b, k |-> k], [o |-> obj, f |-> folders])
   /\ ups' = Set(ups, u, [b |-> b, k |-> k, parts |-> Empty])
   /\ devs' = {}
IPart == \E u \in DOMAIN ups, n \in GenParts, s \in GenSegs :
   /\ Step([ev |-> "part", u |-> u, b |-> ups[u].b, k |-> ups[u].k, n |-> n, seg |-> s, mode |-> "plain", chunk |-> 0],
           [o |-> obj, f |-> folders])
   /\ ups' = [ups EXCEPT ![u].parts = Set(@, n, Norm(<<s>>))]
   /\ devs' = {}
(* file name order of %04d.part *)
NameKey(n) == IF n < 10000 THEN n * 10 ELSE n
NameLess(m, n) == NameKey(m) < NameKey(n) \/ (NameKey(m) = NameKey(n) /\ m < n)
IComplete == \E u \in DOMAIN ups :
   LET p == ups[u].parts
       stored == Chunked(p) \cap {n \in DOMAIN p : Size(p[n]) > 0}
       ns == IF NameOrder THEN SetToSortSeq(stored, NameLess) ELSE Asc(stored)
       b == ups[u].b
       k == ups[u].k
       w == WriteRes(b, k, Cat(p, ns))
       r == IF DOMAIN p = {} THEN [st |-> 404, o |-> obj, f |-> folders]
            ELSE IF IsFolder(b, k) THEN [st |-> 500, o |-> obj, f |-> folders]
            ELSE w IN
   /\ Step([ev |-> "complete", u |-> u, b |-> b, k |-> k, parts |-> Asc(DOMAIN p)], r)
   /\ ups' = IF r.st = 200 THEN Drop(ups, {u}) ELSE ups
   /\ devs' = Classify(Complete(u, DOMAIN p, r.st, DOMAIN obj'),
                       KFInline :> CompleteInline(u, r.st, DOMAIN obj'))
IAbort == \E u \in DOMAIN ups :
   /\ Step([ev |-> "abort", u |-> u, b |-> ups[u].b, k |-> ups[u].k], [o |-> obj, f |-> folders])
   /\ ups' = Drop(ups, {u}) /\ devs' = {}

IInitState == Init /\ devs = {}
INext == IPut \/ ICopy \/ IDel \/ IBDel \/ IGet \/ IInit \/ IPart \/ IComplete \/ IAbort
ImplSpec == IInitState /\ [][INext]_ivars

ImplOK == devs \subseteq BKF
IView == <<obj, ups, folders, devs, IF hist = <<>> THEN <<>> ELSE hist[Len(hist)], Len(hist)>>
=============================================================================
