---------------------------- MODULE S3Containment ----------------------------
(* C29 - S3 keys never escape their bucket.

   A request addressed to bucket B carries adversarial text in four places: the
   object key (URL path after /B/), the upload id (query), the copy source (header)
   and the keys of a batch delete (XML body). Each is given as a sequence of TOKENS
   (joined with "/" on the wire); Dec maps a token to the plain path segments it
   stands for after the one URL-decoding the gateway applies ("%2e%2e" -> <<"..">>,
   "a%2Fb" -> <<"a","b">>); other tokens stand for themselves.

   Observation per request (recorded from the real gateway + filer):
     touched  every filer call made while the request was in flight:
              [via, m, p, st]; p = the entry path the filer handler resolves the call to,
              component-wise (for gRPC: computed with the same helper the handler uses, so
              ".." is already cleaned where the handler cleans); st = filer HTTP status
              (301 = the filer mux redirected an unclean path, nothing accessed)
     outch    paths OUTSIDE /buckets/B whose entry appeared, vanished or changed
              (diff of the whole namespace; the ground truth for mutations)
     leak     the response body contains the content of a sentinel file outside B

   Property (strict): every effective touch is inside /buckets/B (reads of a copy
   source: inside the bucket the source names), nothing outside B changed, nothing
   leaked, and routes that address ordinary objects never touch a .uploads area.

   The specification does not predict where a key resolves; it only judges what was
   touched. Path algebra (Clean) is used to state the PRECONDITIONS of the named
   deviations narrowly (an input whose cleaned path leaves its base directory /
   an input that resolves into .uploads). *)
EXTENDS Integers, Sequences, FiniteSets, TLC, Json
CONSTANTS B, Dec, Dec2, Keys, Uids, Srcs, DKeySets, Prefixes, Alphabet, MaxLen, MaxOps
VARIABLES hist
vars == <<hist>>

DecTok(t) == IF t \in DOMAIN Dec THEN Dec[t] ELSE <<t>>
RECURSIVE DecSeq(_)
DecSeq(s) == IF s = <<>> THEN <<>> ELSE DecTok(Head(s)) \o DecSeq(Tail(s))
(* a SECOND decoding: Dec2 maps a once-decoded segment that still contains the literal text of a percent
   escape ("%2e%2e", sent by the client as %252e%252e) to what a further URL-decoding makes of it. The
   gateway owes such a name no second decoding: it is a literal name inside the bucket. Only handlers that
   paste a decoded name into a filer URL without re-escaping it (copy destination and source, the upload id
   of part uploads) let the filer decode it again. *)
Dec2Tok(t) == IF t \in DOMAIN Dec2 THEN Dec2[t] ELSE <<t>>
RECURSIVE Flat2(_)
Flat2(s) == IF s = <<>> THEN <<>> ELSE Dec2Tok(Head(s)) \o Flat2(Tail(s))
DecSeq2(s) == Flat2(DecSeq(s))
RECURSIVE CleanStack(_, _)
CleanStack(st, rest) ==
  IF rest = <<>> THEN st
  ELSE LET h == Head(rest) IN
       IF h = "" \/ h = "." THEN CleanStack(st, Tail(rest))
       ELSE IF h = ".." THEN CleanStack(IF st = <<>> THEN <<>> ELSE SubSeq(st, 1, Len(st) - 1), Tail(rest))
       ELSE CleanStack(Append(st, h), Tail(rest))
Clean(p) == CleanStack(<<>>, p)          \* path.Clean on an absolute path, component-wise
Range(s) == {s[i] : i \in 1..Len(s)}
Under(root, p) == Len(p) >= Len(root) /\ SubSeq(p, 1, Len(root)) = root

BRoot == <<"buckets", B>>
UpRoot == <<"buckets", B, ".uploads">>
InUploads(p) == Len(p) >= 3 /\ p[1] = "buckets" /\ p[3] = ".uploads"

KeyRoutes == {"HeadObject", "GetObject", "PutObject", "DeleteObject", "GetObjectTagging", "PutObjectTagging",
              "DeleteObjectTagging", "CopyObject", "NewMultipartUpload", "PostPolicy", "CompleteMultipartUpload"}
UidRoutes == {"PutObjectPart", "CopyObjectPart", "CompleteMultipartUpload", "AbortMultipartUpload", "ListObjectParts"}
CopyRoutes == {"CopyObject", "CopyObjectPart"}
BucketRoutes == {"HeadBucket", "ListMultipartUploads", "PutBucket", "DeleteBucket", "ListObjectsV1", "ListObjectsV2"}
(* routes whose key / source / batch keys address ORDINARY objects *)
ObjAddrRoutes == {"HeadObject", "GetObject", "PutObject", "DeleteObject", "GetObjectTagging", "PutObjectTagging",
                  "DeleteObjectTagging", "CopyObject", "PostPolicy", "DeleteMultipleObjects"}
UsesKey(rt) == rt \in KeyRoutes
UsesUid(rt) == rt \in UidRoutes
UsesSrc(rt) == rt \in CopyRoutes

KeyPath(k) == Clean(BRoot \o DecSeq(k))
UidPath(u) == Clean(UpRoot \o u)
SrcPlain(s) == LET d == DecSeq(s)
                   d1 == IF d # <<>> /\ Head(d) = "" THEN Tail(d) ELSE d     \* one leading "/" is trimmed
               IN d1
SrcB(s) == LET d == SrcPlain(s) IN IF d # <<>> /\ Head(d) \notin {"..", ".", ""} THEN Head(d) ELSE ""
SrcPath(s) == Clean(<<"buckets">> \o SrcPlain(s))
DKeyPath(k) == Clean(BRoot \o k)            \* batch keys are XML text: no URL decoding

EscK(e) == UsesKey(e.route) /\ ~Under(BRoot, KeyPath(e.ktok))
EscU(e) == UsesUid(e.route) /\ ~Under(UpRoot, UidPath(e.utok))
EscS(e) == UsesSrc(e.route) /\ (SrcB(e.stok) = "" \/ ~Under(<<"buckets", SrcB(e.stok)>>, SrcPath(e.stok)))
EscD(e) == e.route = "DeleteMultipleObjects" /\ \E i \in 1..Len(e.dtok) : ~Under(BRoot, DKeyPath(e.dtok[i]))
(* the same for the places where the handler pastes the decoded text into a filer URL unescaped *)
SrcPlain2(s) == LET d == DecSeq2(s) IN IF d # <<>> /\ Head(d) = "" THEN Tail(d) ELSE d
SrcB2(s) == LET d == SrcPlain2(s) IN IF d # <<>> /\ Head(d) \notin {"..", ".", ""} THEN Head(d) ELSE ""
EscK2(e) == e.route = "CopyObject" /\ ~Under(BRoot, Clean(BRoot \o DecSeq2(e.ktok)))
EscS2(e) == UsesSrc(e.route) /\ (SrcB2(e.stok) = "" \/ ~Under(<<"buckets", SrcB2(e.stok)>>, Clean(<<"buckets">> \o SrcPlain2(e.stok))))
EscU2(e) == e.route \in {"PutObjectPart", "CopyObjectPart"} /\ ~Under(UpRoot, Clean(UpRoot \o Flat2(e.utok)))
Esc2(e) == EscK2(e) \/ EscS2(e) \/ EscU2(e)
(* a list prefix is a key prefix: the gateway splits it into directory + name prefix and hands the
   directory to the filer (ListEntries is literal, but the empty-folder purge that a delimiter listing
   performs deletes through the cleaning DeleteEntry) *)
EscP(e) == e.ptok # <<>> /\ ~Under(BRoot, Clean(BRoot \o DecSeq(e.ptok)))
Esc(e) == EscK(e) \/ EscU(e) \/ EscS(e) \/ EscD(e) \/ EscP(e)
(* an input that names the internal directory: it resolves into a .uploads area, or one of its
   (decoded) segments is ".uploads" (handlers split directory / name before the filer cleans) *)
Names(segs) == ".uploads" \in Range(segs)
UploadsAddr(e) == \/ UsesKey(e.route) /\ (InUploads(KeyPath(e.ktok)) \/ Names(DecSeq(e.ktok)))
                  \/ UsesSrc(e.route) /\ (InUploads(SrcPath(e.stok)) \/ Names(DecSeq(e.stok)))
                  \/ e.route = "DeleteMultipleObjects" /\ \E i \in 1..Len(e.dtok) :
                        InUploads(DKeyPath(e.dtok[i])) \/ Names(e.dtok[i])

(* ---------------- the judge ---------------- *)
Eff(e) == {t \in Range(e.touched) : t.st # 301 /\ t.p # <<>>}
IsRead(t) == \/ t.via = "http" /\ t.m \in {"GET", "HEAD"}
             \/ t.via = "grpc" /\ t.m \in {"LookupDirectoryEntry", "ListEntries"}
Contained(e, t) ==
  \/ Under(BRoot, t.p)
  \/ UsesSrc(e.route) /\ IsRead(t) /\ SrcB(e.stok) # "" /\ Under(<<"buckets", SrcB(e.stok)>>, t.p)
UploadsOK(e, t) ==
  CASE e.route \in ObjAddrRoutes -> ~InUploads(t.p)
    [] e.route = "CompleteMultipartUpload" -> t.m = "CreateEntry" => ~InUploads(t.p)   \* the assembled object
    [] e.route = "CopyObjectPart" -> (IsRead(t) /\ t.p = SrcPath(e.stok)) => ~InUploads(t.p)   \* the source object
    [] OTHER -> TRUE
DevHttp == "C29-dotdot-http-follow"
DevGrpc == "C29-dotdot-grpc-clean"
DevUpl == "C29-uploads-addressable"
DevIds == {DevHttp, DevGrpc, DevUpl}
Explained(e, t, D) ==
  \/ Contained(e, t) /\ UploadsOK(e, t)
  \/ DevHttp \in D /\ (Esc(e) \/ Esc2(e)) /\ t.via = "http" /\ t.m \in {"GET", "HEAD"}
  \/ DevGrpc \in D /\ Esc(e) /\ t.via = "grpc"
       /\ t.m \in {"LookupDirectoryEntry", "DeleteEntry", "UpdateEntry.find", "UpdateEntry"}
  \/ DevUpl \in D /\ UploadsAddr(e) /\ Contained(e, t)
Judge(e, D) ==
  /\ \A t \in Eff(e) : Explained(e, t, D)
  /\ e.outch # <<>> => (DevGrpc \in D /\ Esc(e))
  /\ e.leak => (DevHttp \in D /\ (Esc(e) \/ Esc2(e)))
StrictOK(e) == Judge(e, {})

(* ---------------- generator ---------------- *)
RECURSIVE SeqsUpTo(_, _)
SeqsUpTo(S, n) == IF n = 0 THEN {<<>>} ELSE LET r == SeqsUpTo(S, n - 1) IN r \cup {Append(s, x) : s \in r, x \in S}
AllKeys == Keys \cup (SeqsUpTo(Alphabet, MaxLen) \ {<<>>})
DefK == <<"k">>
DefU == <<"u1">>
DefS == <<B, "obj">>
DefD == <<DefK>>
Req(rt, k, u, s, d) == [ev |-> "req", route |-> rt, ktok |-> k, utok |-> u, stok |-> s, dtok |-> d,
                        ptok |-> <<>>, delim |-> ""]
(* list routes with a hostile prefix: judged by the strict rule only (a prefix is not an excuse for any deviation) *)
ListReq(rt, p, dl) == [Req(rt, DefK, DefU, DefS, DefD) EXCEPT !.ptok = p, !.delim = dl]
Init == hist = <<>>
GenNext ==
  /\ Len(hist) < MaxOps
  /\ \/ \E rt \in KeyRoutes, k \in AllKeys : hist' = Append(hist, Req(rt, k, DefU, DefS, DefD))
     \/ \E rt \in UidRoutes, u \in Uids : hist' = Append(hist, Req(rt, DefK, u, DefS, DefD))
     \/ \E rt \in CopyRoutes, s \in Srcs : hist' = Append(hist, Req(rt, <<"cp">>, DefU, s, DefD))
     \/ \E d \in DKeySets : hist' = Append(hist, Req("DeleteMultipleObjects", DefK, DefU, DefS, d))
     \/ \E rt \in BucketRoutes : hist' = Append(hist, Req(rt, DefK, DefU, DefS, DefD))
     \/ \E rt \in {"ListObjectsV1", "ListObjectsV2"}, p \in Prefixes, dl \in {"", "/"} :
          hist' = Append(hist, ListReq(rt, p, dl))
Spec == Init /\ [][GenNext]_vars

(* ---------------- design-level properties over the generated request space ---------------- *)
Reqs == Range(hist)
DotDotIn(segs) == ".." \in Range(segs)
(* the deviations' precondition is confined to inputs that contain a dot-dot segment (after decoding) *)
EscNeedsDotDot == \A e \in Reqs :
  /\ EscK(e) => DotDotIn(DecSeq(e.ktok))
  /\ EscU(e) => DotDotIn(e.utok)
  /\ EscS(e) => DotDotIn(DecSeq(e.stok)) \/ SrcB(e.stok) = ""
  /\ EscD(e) => \E i \in 1..Len(e.dtok) : DotDotIn(e.dtok[i])
  /\ EscP(e) => DotDotIn(DecSeq(e.ptok))
  /\ EscK2(e) => DotDotIn(DecSeq2(e.ktok))
  /\ EscS2(e) => DotDotIn(DecSeq2(e.stok)) \/ SrcB2(e.stok) = ""
  /\ EscU2(e) => DotDotIn(Flat2(e.utok))
(* a key whose segments merely CONTAIN the text of a percent escape is an ordinary name for every route
   that escapes it again: no deviation's precondition holds for it *)
LiteralEscapeIsOrdinary == \A e \in Reqs :
  (UsesKey(e.route) /\ e.route # "CopyObject" /\ ~DotDotIn(DecSeq(e.ktok)) /\ e.utok = DefU /\ e.stok = DefS)
     => ~Esc(e) /\ ~Esc2(e)
CleanSane == \A e \in Reqs : LET p == KeyPath(e.ktok) IN
  /\ Range(p) \cap {"..", ".", ""} = {}
  /\ Clean(p) = p
(* the defaults are harmless: a request that varies one input is never judged for another *)
DefaultsInside == \A e \in Reqs : (e.ktok = DefK => ~EscK(e)) /\ (e.utok = DefU => ~EscU(e)) /\ (e.stok = DefS => ~EscS(e))
(* the strict rule is satisfiable for every request: a reference gateway that refuses inputs which
   leave their base directory or address .uploads, and otherwise touches exactly the resolved entry *)
RefObs(e) ==
  LET refuse == Esc(e) \/ (e.route \in ObjAddrRoutes /\ UploadsAddr(e))
      t1 == IF UsesKey(e.route) THEN <<[via |-> "http", m |-> "GET", p |-> KeyPath(e.ktok), st |-> 200]>> ELSE <<>>
      t2 == IF UsesUid(e.route) THEN <<[via |-> "grpc", m |-> "LookupDirectoryEntry", p |-> UidPath(e.utok), st |-> 0]>> ELSE <<>>
      t3 == IF UsesSrc(e.route) /\ ~InUploads(SrcPath(e.stok))
            THEN <<[via |-> "http", m |-> "GET", p |-> SrcPath(e.stok), st |-> 200]>> ELSE <<>>
  IN [route |-> e.route, ktok |-> e.ktok, utok |-> e.utok, stok |-> e.stok, dtok |-> e.dtok, ptok |-> e.ptok,
      touched |-> IF refuse \/ (e.route = "CompleteMultipartUpload" /\ InUploads(KeyPath(e.ktok))) THEN <<>> ELSE t1 \o t2 \o t3,
      outch |-> <<>>, leak |-> FALSE]
RefSatisfiable == \A e \in Reqs : StrictOK(RefObs(e))
(* and it is not vacuous: an observation that touches a sentinel outside B is rejected *)
BadObs(e) == [RefObs(e) EXCEPT !.touched = <<[via |-> "grpc", m |-> "CreateEntry", p |-> <<"outside", "secret">>, st |-> 0]>>]
BadRejected == \A e \in Reqs : \A D \in SUBSET DevIds : ~Judge(BadObs(e), D)

Emit == Len(hist) < MaxOps \/ PrintT(<<"W", ToJson(hist)>>)
=============================================================================
