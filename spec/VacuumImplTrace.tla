---------------------------- MODULE VacuumImplTrace ----------------------------
(* C14 advisory judge (model drift): the same recorded executions against layer B.  The
   master's own steps are silent; call / ret events are the Serve / Reply steps of the
   scripted servers; pre / post / wc compare the layout's writable list with the model's.
   Volume 2 (the bystander, never vacuumed: its garbage is always low) is only watched:
   writable iff the copy count is right, before, during and after.  An execution that this
   module cannot explain means layer B is not the code (reported as model_drift, no verdict). *)
EXTENDS VacuumImpl, TraceKit
VARIABLE hasBy
tvars == <<vars, hasBy, kitvars>>
Range(s) == {s[k] : k \in DOMAIN s}
TraceInit == Init /\ hasBy = FALSE /\ KitInit
Enough(e) == e.n = e.need \/ (e.minok /\ e.n > e.need)
Primed(nn, en, big, ro) ==
  /\ n' = nn /\ kind' = "trace" /\ enough' = en /\ isbig' = big /\ isro' = ro
  /\ writable' = (en /\ ~big /\ ~ro)
  /\ pc' = "start"
  /\ st' = [r \in Reps |-> IdleRec]
  /\ script' = [r \in Reps |-> NaRec]
  /\ ch' = <<>> /\ errCount' = 0 /\ got' = 0 /\ vlist' = <<>> /\ allOk' = TRUE /\ i' = 1
  /\ isRO' = FALSE /\ commitOk' = TRUE /\ bad' = FALSE /\ round' = 1
  /\ shadow' = Const(Vols, Const(Reps, "none"))
  /\ live' = Const(Vols, Const(Reps, "C"))
  /\ open' = {}
  /\ wBefore' = [v \in Vols |-> IF v = V THEN (en /\ ~big /\ ~ro) ELSE en]
  /\ bigVols' = IF big THEN {V} ELSE {}
  /\ roSeen' = Const(Vols, FALSE) /\ shrunk' = Const(Vols, FALSE) /\ cFailed' = Const(Vols, FALSE)
  /\ compactedV' = Const(Vols, FALSE) /\ commitV' = Const(Vols, FALSE) /\ cleanedV' = Const(Vols, FALSE)
  /\ phase' = "run"
TraceReset == IsReset /\ Primed(Ev.n, Enough(Ev), Ev.large, Ev.ro) /\ hasBy' = (Ev.with = 1)
TraceSkip == SkipStep /\ UNCHANGED <<vars, hasBy>>
WNow == (IF writable THEN {V} ELSE {}) \cup (IF hasBy /\ enough THEN {2} ELSE {})
TPre == IsEvent("pre") /\ Strict /\ pc = "start" /\ Range(Ev.w) = WNow /\ UNCHANGED <<vars, hasBy>>
TCall == /\ IsEvent("call") /\ Strict /\ Ev.v = V /\ Ev.r \in Live /\ Ev.op \in Ops
         /\ Ev.wc = Cardinality(WNow)
         /\ \E out \in BOuts(Ev.op) : Serve(Ev.r, Ev.op, out)
         /\ UNCHANGED hasBy
TRet == /\ IsEvent("ret") /\ Strict /\ Ev.v = V /\ Ev.r \in Live /\ Ev.op \in Ops
        /\ script[Ev.r][Ev.op] = Ev.out
        /\ Reply(Ev.r, Ev.op)
        /\ UNCHANGED hasBy
(* the bystander: checked (answer "lo"), never anything else *)
TBy == /\ (IsEvent("call") \/ IsEvent("ret")) /\ Strict /\ Ev.v = 2 /\ hasBy /\ Ev.op = "check"
       /\ (Has(Ev, "wc") => Ev.wc = Cardinality(WNow))
       /\ UNCHANGED <<vars, hasBy>>
TInternal == ok /\ l <= N /\ l > 1 /\ Trace[l].ev # "reset" /\ Internal /\ UNCHANGED <<hasBy, kitvars>>
TPost == /\ IsEvent("post") /\ Strict
         /\ Ev.done = (pc = "done")
         /\ ~Ev.done => ~ENABLED Internal    \* Vacuum has not returned: the master must be blocked on an RPC
         /\ Range(Ev.w) = WNow
         /\ UNCHANGED <<vars, hasBy>>
TRound == IsEvent("round") /\ Strict /\ MNextRound /\ UNCHANGED hasBy
TraceNext == TraceReset \/ TraceSkip \/ TPre \/ TCall \/ TRet \/ TBy \/ TInternal \/ TPost \/ TRound
TraceSpec == TraceInit /\ [][TraceNext]_tvars
=============================================================================
