---------------------------- MODULE PlanCheckTrace ----------------------------
(* Judge for C15 / C16: consumes the steps recorded from the real planners.
     {"ev":"reset","mode":..,"servers":[{id,dc,rack,hdd,ssd}],"reps":[{vid,srv,dt,rp,..}],"shards":[{vid,srv,bits,..}],"opt":{..}}
     {"ev":"move","vid":..,"from":..,"to":..,"dt":..}        observer in moveVolume
     {"ev":"copy","vid":..,"from":..,"to":..}                volume.fix.replication plan line
     {"ev":"delete","vid":..,"from":..}                      volume.fix.replication plan line
     {"ev":"ecmove","vid":..,"shard":..,"from":..,"to":..,   observer in moveMountedShardToEcNode; tofree/tohas/fromhas =
      "tofree":..,"tohas":..,"fromhas":..}                   the planner's own bookkeeping at that moment
     {"ev":"phase","name":"volumes"|"racks"}                 which part of ec.balance starts
     {"ev":"final","err":..,"shards":[{srv,vid,bits}],"free":[{srv,n}]}   planner bookkeeping after planning
   A step is consumed only if PlanCheck allows it in the state reached so far.
   Named deviations (known findings) waive exactly one clause for one planner. *)
EXTENDS PlanCheck, TraceKit
tvars == <<vars, kitvars>>

SrvFrom(S) == [s \in {S[i].id : i \in DOMAIN S} |->
                LET i == CHOOSE j \in DOMAIN S : S[j].id = s IN
                [dc |-> S[i].dc, rack |-> S[i].rack, hdd |-> S[i].hdd, ssd |-> S[i].ssd]]
VolFrom(R) == [v \in {R[i].vid : i \in DOMAIN R} |-> R[CHOOSE j \in DOMAIN R : R[j].vid = v].rp]
RepFrom(R) == {Replica(R[i].vid, R[i].srv, R[i].dt) : i \in DOMAIN R}
EcFrom(E) == UNION {{Shard(E[i].vid, E[i].bits[j], E[i].srv) : j \in DOMAIN E[i].bits} : i \in DOMAIN E}

TraceInit == Init /\ KitInit
TraceReset ==
  /\ IsReset
  /\ srv' = SrvFrom(Ev.servers) /\ vol' = VolFrom(Ev.reps) /\ rep' = RepFrom(Ev.reps) /\ rep0' = RepFrom(Ev.reps)
  /\ ec' = EcFrom(Ev.shards) /\ ec0' = EcFrom(Ev.shards) /\ mode' = Ev.mode /\ phase' = "plan"
  /\ hist' = <<>>     \* in the judge: <<target, counter - real free slots>> of every move excused by C16-shard-dropped
  /\ UNCHANGED steps
TraceSkip == SkipStep /\ UNCHANGED vars
Rest == UNCHANGED <<phase, steps, hist>>
Rest0 == UNCHANGED <<phase, steps>>

(* Known findings: the deviation that excuses a failing clause of a planned volume move, if any.
   A move may need several (e.g. evacuate moving a 120 volume to a full server). *)
MoveExcuse(c) ==
  CASE c = "cap" /\ mode = "balance" -> "C15-balance-full"      \* S20: capacity test counts only the selected volumes of the target
    [] c = "cap" /\ mode = "evacuate" -> "C15-evacuate-full"    \* evacuate never looks at free slots (and sorts full servers first)
    [] c = "nodup" /\ mode = "balance" /\ RpOf(Ev.vid) = <<0, 0, 0>> -> "C15-000-dup"
         \* isGoodMove is skipped for 000: a surplus replica on the target outside the selected volumes is not seen
    [] c = "sat" /\ mode \in {"balance", "evacuate"} /\ RpOf(Ev.vid)[1] >= 1 /\ RpOf(Ev.vid)[2] >= 2 /\ RpOf(Ev.vid)[3] = 0
         -> "C15-rack-split"   \* isGoodMove counts racks over all data centers: the main one can lose a rack to another
    [] OTHER -> "none"
TMove ==
  /\ IsEvent("move") /\ Rest
  /\ Ev.vid \in DOMAIN vol
  /\ \E W \in SUBSET {"cap", "nodup", "sat"} :
       /\ Move(Ev.vid, Ev.from, Ev.to, Ev.dt, W)
       /\ {MoveExcuse(c) : c \in W} \subseteq KF
       /\ used' = used \cup {MoveExcuse(c) : c \in W}
TCopy ==
  /\ IsEvent("copy") /\ Rest
  /\ \/ Strict /\ Copy(Ev.vid, Ev.from, Ev.to, {})
     (* the free slot taken by an earlier copy of the same plan is not subtracted: the target had a
        free slot in the snapshot, but not any more *)
     \/ Deviate("C15-fix-overfill") /\ mode = "fix"
          /\ \E dt \in DTs : Replica(Ev.vid, Ev.from, dt) \in rep /\ Free(rep0, Ev.to, dt) > 0
          /\ Copy(Ev.vid, Ev.from, Ev.to, {"cap"})
TDelete == IsEvent("delete") /\ Rest /\ Strict /\ Delete(Ev.vid, Ev.from, {})

(* Known findings that excuse a failing clause of a planned shard move, if any *)
EcExcuse(c) ==
  CASE c = "nodup" /\ mode = "ecbalance" /\ Copies16(ec0, Ev.vid, Ev.shard) >= 2 -> "C16-dup-target"
         \* without -force the duplicated shards are not removed from the bookkeeping first, so a
         \* duplicate is planned onto the server that holds the other copy
    [] c = "slot" /\ mode = "ecbalance" /\ Ev.tofree > 0 -> "C16-shard-dropped"
         \* S21 consequence: shards dropped from the bookkeeping still occupy slots, but the planner's
         \* own free-slot counter for the target (tofree) is positive.  The counter may exceed the real
         \* number of free slots only by the number of forgotten shards on the target: checked at final
    [] c = "slot" /\ mode = "ecbalance" /\ phase = "racks" /\ Ev.tofree <= 0 /\ RackOf(Ev.from) = RackOf(Ev.to) -> "C16-rack-full"
         \* balanceEcRacks moves to the server with the most free slots of the rack without testing
         \* that it has any (the planner's own counter is <= 0)
    [] OTHER -> "none"
TEcMove ==
  /\ IsEvent("ecmove") /\ Rest0
  /\ \E W \in SUBSET {"held", "nodup", "slot", "rack"} :
       /\ EcMove(Ev.vid, Ev.shard, Ev.from, Ev.to, W)
       /\ {EcExcuse(c) : c \in W} \subseteq KF
       /\ used' = used \cup {EcExcuse(c) : c \in W}
       /\ hist' = IF "slot" \in W /\ EcExcuse("slot") = "C16-shard-dropped"
                  THEN Append(hist, <<Ev.to, Ev.tofree - EcFree(ec, Ev.to)>>) ELSE hist

(* the planner starts its next part: "volumes" (per-volume balancing), "racks" (balanceEcRacks) *)
TPhase == IsEvent("phase") /\ Strict /\ phase' = Ev.name /\ UNCHANGED <<srv, vol, rep, ec, ec0, rep0, mode, steps, hist>>

EcModes == {"ecbalance", "ecevacuate"}
TFinal ==
  /\ IsEvent("final") /\ UNCHANGED vars
  /\ \/ Strict /\ hist = <<>> /\ (mode \in EcModes => (Preserved(ec) /\ Preserved(EcFrom(Ev.shards))))
     (* S21: shards picked for a move across racks are removed from the planner's bookkeeping and
        stay removed when no destination is found *)
     \/ Deviate("C16-shard-dropped") /\ mode = "ecbalance"
          /\ Preserved(ec)
          /\ LET B == EcFrom(Ev.shards) IN
             /\ Keys(B) \subseteq Keys(ec0) /\ B # ec
             /\ \A k \in Keys(B) : Copies16(B, k[1], k[2]) <= Copies16(ec0, k[1], k[2])
             /\ B \subseteq ec     \* what is left in the bookkeeping is where the plan says it is
             /\ (ec \ B) \subseteq ec0   \* what was forgotten was never moved: it is where the snapshot had it
             (* every full target that was excused above really holds at least as many forgotten shards as
                the planner's counter exceeded the real number of free slots (from the snapshot + moves) *)
             /\ \A i \in DOMAIN hist : Card({e \in ec \ B : e.srv = hist[i][1]}) >= hist[i][2]

TraceNext == TraceReset \/ TraceSkip \/ TMove \/ TCopy \/ TDelete \/ TEcMove \/ TPhase \/ TFinal
TraceSpec == TraceInit /\ [][TraceNext]_tvars
=============================================================================
