----------------------------- MODULE ClusterTrace -----------------------------
(* Judge for driver ccluster (X06): every recorded operation must be one that ClusterSpec admits,
   and the picture of the cluster recorded with it (vols, rs) must be the one the abstract state
   describes:
     - every volume of the execution is held by exactly the servers it was created on that are
       running (none after its collection was deleted), with the class it was created with;
     - LookupVolume (gRPC, by volume id and by file id + collection) and /dir/lookup (by volume id
       and by file id + collection) answer with exactly these servers;
     - GET of every file id handed out, on EVERY running server: a holder answers with the bytes of
       the last successful upload, or not found if there is none / it was deleted; a server that does
       not hold the volume never answers with data (read mode "local");
     - after /vol/vacuum every volume whose copies are all running and never missed an operation is
       listed writable and has no deleted entry left on any copy (file count = live blobs). *)
EXTENDS ClusterSpec, TraceKit

tvars == <<vars, kitvars>>

TopoOf(ss) == [s \in {ss[i].s : i \in 1..Len(ss)} |->
                 LET r == CHOOSE r \in SetOf(ss) : r.s = s IN [dc |-> r.dc, rack |-> r.rack]]
Fresh0(t) == /\ topo' = t /\ up' = DOMAIN t
             /\ vols' = <<>> /\ fids' = <<>> /\ given' = {} /\ blob' = <<>> /\ fuzzy' = {} /\ clash' = {} /\ wrote' = {}
             /\ dead' = {} /\ purged' = {} /\ stale' = {} /\ forgot' = {} /\ ep' = 0 /\ hist' = <<>>

TraceInit == Init /\ KitInit
TraceReset == IsReset /\ Fresh0(TopoOf(Ev.servers))
TraceSkip == SkipStep /\ UNCHANGED vars

(* volumes in the picture that the state does not know yet *)
SnapNew == {[vid |-> e.vid, c |-> e.c, rep |-> e.rep, ttl |-> e.ttl, hold |-> SetOf(e.hold)] :
              e \in {x \in SetOf(Ev.vols) : x.vid \notin DOMAIN vols}}

(* the same predicates on the state AFTER the step, with the state passed explicitly: priming an
   expression would also prime the line counter inside Ev *)
ValidIn(F, f, sub) == f \in 1..Len(F) /\ F[f].ok /\ sub \in 0..(F[f].cnt - 1)
LiveCountIn(B, F, vid) == Cardinality({k \in DOMAIN B : F[k[1]].vid = vid})
HoldNow(v) == IF vols'[v].gone THEN {} ELSE vols'[v].hold \cap up'
VolOK(e) ==
  /\ e.vid \in DOMAIN vols'
  /\ LET H == HoldNow(e.vid) v == vols'[e.vid] IN
       /\ SetOf(e.hold) = H /\ Len(e.hold) = Cardinality(H)
       /\ (H # {}) => (e.c = v.c /\ e.rep = v.rep /\ e.ttl = v.ttl)
       /\ SetOf(e.look) = H /\ SetOf(e.lookh) = H
ReadOK(q) ==
  /\ ValidIn(fids', q.f, q.sub)
  /\ LET k == <<q.f, q.sub>> H == HoldNow(fids'[q.f].vid) IN
       /\ SetOf(q.lf) = H /\ SetOf(q.lg) = H
       /\ {q.r[i].s : i \in 1..Len(q.r)} = up'
       /\ \A i \in 1..Len(q.r) :
            LET o == q.r[i] IN
            IF o.s \notin H THEN o.st # "data"
            ELSE IF k \in fuzzy' \/ <<fids'[q.f].vid, fids'[q.f].key + q.sub>> \in clash' THEN o.st # "data" \/ o.d # "?"
            ELSE IF k \in DOMAIN blob' THEN o.st = "data" /\ o.d = blob'[k]
            ELSE o.st = "notfound"
AllKs == {<<f, sub>> \in (1..Len(fids')) \X (0..3) : ValidIn(fids', f, sub)}
ObsOK ==
  TRUE =
  (/\ \A i \in 1..Len(Ev.vols) : VolOK(Ev.vols[i])
   /\ {Ev.vols[i].vid : i \in 1..Len(Ev.vols)} = DOMAIN vols'
   /\ \A i \in 1..Len(Ev.rs) : ReadOK(Ev.rs[i])
   /\ {<<Ev.rs[i].f, Ev.rs[i].sub>> : i \in 1..Len(Ev.rs)} = AllKs)
VacOK(e) ==
  LET v == vols'[e.vid] IN
  (~v.gone /\ ~v.part /\ ~v.deg /\ v.hold \subseteq up') =>
     /\ e.wr = TRUE
     /\ \A i \in 1..Len(e.st) : e.st[i].dc = 0 /\ e.st[i].fc = LiveCountIn(blob', fids', e.vid)
AfterVacuum == TRUE = (\A i \in 1..Len(Ev.vols) : VacOK(Ev.vols[i]))

Res == [ok |-> Ev.ok, vid |-> Ev.vid, key |-> Ev.key, cnt |-> Ev.cnt, url |-> Ev.url]
A(how) == Assign(Ev.c, Ev.rep, Ev.ttl, Ev.n, Res, SnapNew, how) /\ UNCHANGED hist /\ ObsOK
NeedsC13 == IF Range(Ev.vid, Ev.key, Ev.n) \cap stale # {} THEN {"C13-memory-leader-change-reissue"} ELSE {}
TAssign == /\ IsEvent("assign")
           /\ \/ (Strict /\ A("fresh"))
              \/ (Deviate("C13-memory-leader-change-reissue") /\ Ev.ok /\ A("stale"))
              \/ (Ev.ok /\ DeviateAll({"X06-reissue-after-vacuum"} \cup NeedsC13) /\ A("purged"))
TGrow == IsEvent("grow") /\ Strict /\ Grow(Ev.c, Ev.rep, Ev.ttl, Ev.count, [ok |-> Ev.ok, cnt |-> Ev.cnt], SnapNew)
         /\ UNCHANGED hist /\ ObsOK
TUpload == IsEvent("upload") /\ Strict /\ Upload(Ev.f, Ev.sub, Ev.d, Ev.to, Ev.st) /\ UNCHANGED hist /\ ObsOK
TDelete == IsEvent("delete") /\ Strict /\ Delete(Ev.f, Ev.sub, Ev.to, Ev.st) /\ UNCHANGED hist /\ ObsOK
TVacuum == IsEvent("vacuum") /\ Strict /\ Vacuum(Ev.st) /\ UNCHANGED hist /\ ObsOK /\ AfterVacuum
TColDel == IsEvent("coldel") /\ Strict /\ ColDel(Ev.c, Ev.st) /\ UNCHANGED hist /\ ObsOK
TMRestart == IsEvent("mrestart") /\ Strict /\ MRestart(Ev.settled) /\ UNCHANGED hist /\ ObsOK
TVStop == IsEvent("vstop") /\ Strict /\ VStop(Ev.s, Ev.settled) /\ UNCHANGED hist /\ ObsOK
TVStart == IsEvent("vstart") /\ Strict /\ VStart(Ev.s, Ev.settled) /\ UNCHANGED hist /\ ObsOK
TVRestart == IsEvent("vrestart") /\ Strict /\ VRestart(Ev.s, Ev.settled) /\ UNCHANGED hist /\ ObsOK

TraceNext == TraceReset \/ TraceSkip \/ TAssign \/ TGrow \/ TUpload \/ TDelete \/ TVacuum \/ TColDel
             \/ TMRestart \/ TVStop \/ TVStart \/ TVRestart
TraceSpec == TraceInit /\ [][TraceNext]_tvars
=============================================================================
