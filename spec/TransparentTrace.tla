--------------------------- MODULE TransparentTrace ---------------------------
(* Judge for executions recorded by driver c33: uploads through operation.UploadData / operation.Upload or through a
   raw HTTP request (PUT body / hand-made multipart form) to the volume server,
   fetches through util.ReadUrlAsStream / util.ReadUrl / util.Get / filer.StreamContent / filer.ChunkReadAt /
   util.ReadUrlAsReaderCloser / util.DownloadFile / util.Head,
   gzip streams stored flagged as compressed (valid or corrupted), decompression helpers on corrupted input.
   A "panic" event is consumed by no action: an execution that contains one is a violation. *)
EXTENDS Transparent, TraceKit
CONSTANT Advisory   \* TRUE: uploads are also compared with the decision table's prediction (model drift, never a verdict)
VARIABLES up
vars == <<up, row, hist>>
tvars == <<vars, kitvars>>
Ids == 0..8

TraceInit == up = [i \in Ids |-> NoUpload] /\ row = <<>> /\ hist = <<>> /\ KitInit
TraceReset == IsReset /\ up' = [i \in Ids |-> NoUpload] /\ UNCHANGED <<row, hist>>
TraceSkip == SkipStep /\ UNCHANGED vars

(* any upload result is admitted; a successful one obliges the fetches *)
EvRow == [ext |-> Ev.ext, mime |-> Ev.mime, size |-> Ev.size, kind |-> Ev.kind, cipher |-> Ev.cipher, gzin |-> Ev.gzin,
          fn |-> Ev.fn, md5 |-> "none", nameat |-> "part"]
EvRawRow == [ext |-> Ev.ext, mime |-> Ev.mime, size |-> Ev.size, kind |-> Ev.kind, cipher |-> FALSE, gzin |-> Ev.gzin,
             fn |-> Ev.fn, md5 |-> Ev.md5, nameat |-> Ev.nameat]
(* one random byte sniffs as text or as binary depending on the byte: no prediction for it *)
AsPredicted == (Ev.res = "ok" /\ ~Malformed(EvRow) /\ ~(Ev.kind \in {"rand", "gzprefix"} /\ Ev.size = "s1" /\ Ev.mime = "none")) =>
                 (Ev.gzip = Stored(EvRow).rgzip /\ Ev.haskey = Stored(EvRow).key /\ Ev.rsize = Ev.len)
TUpload == /\ IsEvent("upload") /\ Strict
           /\ Advisory => AsPredicted
           /\ up' = [up EXCEPT ![Ev.id] = UploadRec(Ev.res, Ev.len, Ev.validgz, PlainName(Ev.ext))]
           /\ UNCHANGED <<row, hist>>
(* a raw HTTP upload: a digest that does not fit must be refused; any other answer is admitted and 2xx obliges the
   fetches.  Advisory: does the table predict the answer, the reported size and the digest the server reports *)
PutAsPredicted == /\ Accepted(Ev.status) = ~RawRefused(EvRawRow)
                  /\ (Accepted(Ev.status) /\ Ev.validgz) => (Ev.rsize = Ev.len /\ Ev.rmd5 = "d")
TPut == /\ IsEvent("put") /\ Strict
        /\ PutOK(Ev.md5, Ev.status)
        /\ Advisory => PutAsPredicted
        /\ up' = [up EXCEPT ![Ev.id] = PutRec(Ev.md5, Ev.status, Ev.len, Ev.validgz, Ev.nameat # "none" /\ PlainName(Ev.ext))]
        /\ UNCHANGED <<row, hist>>
(* a gzip stream stored as a compressed needle: an uncorrupted one obliges the fetches like an upload *)
TStore == /\ IsEvent("store") /\ Strict
          /\ up' = [up EXCEPT ![Ev.id] = UploadRec(Ev.res, Ev.len, Ev.case = "valid", FALSE)]
          /\ UNCHANGED <<row, hist>>
TFetch == /\ IsEvent("fetch") /\ Strict
          /\ Ev.applicable =>
               IF Ev.via = "head" THEN HeadOK(up[Ev.id], Ev.res, Ev.clen, Ev.cenc)
               ELSE /\ FetchOK(up[Ev.id], Ev.via, Ev.full, Ev.off, Ev.size, Ev.res, Ev.seg)
                    /\ Ev.via = "download" => NameOK(up[Ev.id], Ev.res, Ev.fname)
          /\ UNCHANGED vars
TDecomp == /\ IsEvent("decomp") /\ Strict
           /\ DecompOK(Ev.fn, Ev.case, Ev.isgz, Ev.res, Ev.same)
           /\ UNCHANGED vars

TraceNext == TraceReset \/ TraceSkip \/ TUpload \/ TPut \/ TStore \/ TFetch \/ TDecomp
TraceSpec == TraceInit /\ [][TraceNext]_tvars
=============================================================================
