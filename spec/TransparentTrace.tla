--------------------------- MODULE TransparentTrace ---------------------------
(* Judge for executions recorded by driver c33: uploads through operation.UploadData / operation.Upload,
   fetches through util.ReadUrlAsStream / util.ReadUrl / util.Get / filer.StreamContent / filer.ChunkReadAt,
   gzip streams stored flagged as compressed (valid or corrupted), decompression helpers on corrupted input.
   A "panic" event is consumed by no action: an execution that contains one is a violation. *)
EXTENDS Transparent, TraceKit
CONSTANT Advisory   \* TRUE: uploads are also compared with the decision table's prediction (model drift, never a verdict)
VARIABLES up
vars == <<up, row, hist>>
tvars == <<vars, kitvars>>
Ids == 0..8

TraceInit == up = [i \in Ids |-> NoUpload] /\ row = <<>> /\ hist = <<>> /\ KitInit
TraceReset == IsReset /\ up' = [i \in Ids |-> NoUpload] /\ UNCHANGED <<row, hist>>
TraceSkip == SkipStep /\ UNCHANGED vars

(* any upload result is admitted; a successful one obliges the fetches *)
EvRow == [ext |-> Ev.ext, mime |-> Ev.mime, size |-> Ev.size, kind |-> Ev.kind, cipher |-> Ev.cipher, gzin |-> Ev.gzin,
          fn |-> Ev.fn]
(* one random byte sniffs as text or as binary depending on the byte: no prediction for it *)
AsPredicted == (Ev.res = "ok" /\ ~Malformed(EvRow) /\ ~(Ev.kind \in {"rand", "gzprefix"} /\ Ev.size = "s1" /\ Ev.mime = "none")) =>
                 (Ev.gzip = Stored(EvRow).rgzip /\ Ev.haskey = Stored(EvRow).key /\ Ev.rsize = Ev.len)
TUpload == /\ IsEvent("upload") /\ Strict
           /\ Advisory => AsPredicted
           /\ up' = [up EXCEPT ![Ev.id] = UploadRec(Ev.res, Ev.len, Ev.validgz)]
           /\ UNCHANGED <<row, hist>>
(* a gzip stream stored as a compressed needle: an uncorrupted one obliges the fetches like an upload *)
TStore == /\ IsEvent("store") /\ Strict
          /\ up' = [up EXCEPT ![Ev.id] = UploadRec(Ev.res, Ev.len, Ev.case = "valid")]
          /\ UNCHANGED <<row, hist>>
TFetch == /\ IsEvent("fetch") /\ Strict
          /\ Ev.applicable => FetchOK(up[Ev.id], Ev.full, Ev.off, Ev.size, Ev.res, Ev.seg)
          /\ UNCHANGED vars
TDecomp == /\ IsEvent("decomp") /\ Strict
           /\ DecompOK(Ev.fn, Ev.case, Ev.isgz, Ev.res, Ev.same)
           /\ UNCHANGED vars

TraceNext == TraceReset \/ TraceSkip \/ TUpload \/ TStore \/ TFetch \/ TDecomp
TraceSpec == TraceInit /\ [][TraceNext]_tvars
=============================================================================
