---------------------------- MODULE MasterViewTrace ----------------------------
(* Judge for C11 and C12: consumes the heartbeat history fed to a real
   topology.Topology (harness/cmd/c11) and the snapshot recorded after every
   step.  Prop selects which property's conjuncts a snapshot must satisfy, so a
   capacity-accounting defect never shows up as a C11 alarm and vice versa. *)
EXTENDS MasterView, TraceKit
CONSTANT Prop      \* "C11" | "C12"
tvars == <<avars, kitvars>>
NoCfg == [asmin |-> FALSE, nodes |-> <<>>, vols |-> <<>>, ecs |-> <<>>]
TraceInit == AInit(NoCfg) /\ KitInit
TraceReset ==
  /\ IsReset
  /\ cfg' = [asmin |-> Ev.min, nodes |-> Ev.nodes, vols |-> Ev.vols, ecs |-> Ev.vecs]
  /\ conn' = {}
  /\ exp' = [n \in {r.id : r \in Range(Ev.nodes)} |-> <<>>]
  /\ expEc' = [n \in {r.id : r \in Range(Ev.nodes)} |-> <<>>]
  /\ expMax' = [n \in {r.id : r \in Range(Ev.nodes)} |-> <<>>]
  /\ ghostEc' = [v \in {r.id : r \in Range(Ev.vecs)} |-> {}]
  /\ fresh' = FALSE
TraceSkip == SkipStep /\ UNCHANGED avars
TFull == IsEvent("full") /\ Strict /\ Full(Ev.n, Ev.max, Ev.vols)
TInc == IsEvent("inc") /\ Strict /\ Ev.n \in conn /\ Inc(Ev.n, Ev.newv, Ev.delv)
TEcFull == IsEvent("ecfull") /\ Strict /\ Ev.n \in conn /\ EcFull(Ev.n, Ev.ecs)
TEcInc == IsEvent("ecinc") /\ Strict /\ Ev.n \in conn /\ EcInc(Ev.n, Ev.newec, Ev.delec)
TClose == IsEvent("close") /\ Strict /\ Close(Ev.n)
TCollect == IsEvent("collect") /\ Strict /\ Collect
TSnap ==
  /\ IsEvent("snap") /\ UNCHANGED avars
  /\ LET s == Ev IN
     \/ Prop = "C12" /\ Strict /\ C12OK(s)
     \/ Prop = "C11" /\ Strict /\ C11OK(s)
     \/ /\ Prop = "C11" /\ Deviate("C11-ec-lookup-after-disconnect")
        /\ C11Base(s) /\ LookupEcStale(s) /\ ~LookupEcOK(s)
TraceNext == TraceReset \/ TraceSkip \/ TFull \/ TInc \/ TEcFull \/ TEcInc \/ TClose \/ TCollect \/ TSnap
TraceSpec == TraceInit /\ [][TraceNext]_tvars
=============================================================================
