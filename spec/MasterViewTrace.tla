---------------------------- MODULE MasterViewTrace ----------------------------
(* Judge for C11 and C12: consumes the heartbeat history fed to a real
   topology.Topology (harness/cmd/c11) and the snapshot recorded after every
   step.  Prop selects which property's conjuncts a snapshot must satisfy, so a
   capacity-accounting defect never shows up as a C11 alarm and vice versa. *)
EXTENDS MasterView, TraceKit
CONSTANT Prop      \* "C11" | "C12"
VARIABLE lastwr   \* the writable lists of the previous snapshot
tvars == <<avars, lastwr, kitvars>>
NoCfg == [asmin |-> FALSE, nodes |-> <<>>, vols |-> <<>>, ecs |-> <<>>]
TraceInit == AInit(NoCfg) /\ lastwr = {} /\ KitInit
TraceReset ==
  /\ IsReset
  /\ cfg' = [asmin |-> Ev.min, nodes |-> Ev.nodes, vols |-> Ev.vols, ecs |-> Ev.vecs]
  /\ conn' = {}
  /\ exp' = [n \in {r.id : r \in Range(Ev.nodes)} |-> <<>>]
  /\ expEc' = [n \in {r.id : r \in Range(Ev.nodes)} |-> <<>>]
  /\ expMax' = [n \in {r.id : r \in Range(Ev.nodes)} |-> <<>>]
  /\ ghostEc' = [v \in {r.id : r \in Range(Ev.vecs)} |-> {}]
  /\ fresh' = FALSE /\ zomb' = {} /\ lost' = {} /\ lastwr' = {}
TraceSkip == SkipStep /\ UNCHANGED <<avars, lastwr>>
Op(name) == IsEvent(name) /\ UNCHANGED lastwr
TFull == Op("full") /\ Strict /\ (Full(Ev.n, Ev.max, Ev.vols) \/ LostMsg(Ev.n))
TInc == Op("inc") /\ Strict /\ (Inc(Ev.n, Ev.newv, Ev.delv) \/ LostMsg(Ev.n))
TEcFull == Op("ecfull") /\ Strict /\ (EcFull(Ev.n, Ev.ecs) \/ LostMsg(Ev.n))
TEcInc == Op("ecinc") /\ Strict /\ (EcInc(Ev.n, Ev.newec, Ev.delec) \/ LostMsg(Ev.n))
TClose == Op("close") /\ Strict /\ (Close(Ev.n) \/ LostClose(Ev.n))
\* a new stream of a server whose previous stream the master still holds, and the master dropping the previous one.
\* C11: the server stays registered (its stream is open); the code forgets it (named deviation).  C12 is silent
\* about which servers are registered: either way the counters must add up.
TReopen == Op("reopen") /\ Strict /\ Reopen(Ev.n, Ev.max, Ev.vols)
TZClose == /\ Op("zclose")
           /\ \/ Strict /\ ZCloseKeep(Ev.n)
              \/ Prop = "C12" /\ Strict /\ ZCloseForget(Ev.n)
              \/ Prop = "C11" /\ Deviate("C11-reconnect-race") /\ ZCloseForget(Ev.n)
TCollect == Op("collect") /\ Strict /\ Collect
\* A snapshot.  C11: the base predicates always; the two conjuncts with an open finding either hold strictly or in
\* their weakened form, and then the finding's name goes into `used` (it must be enabled in KF).
TSnap ==
  /\ IsEvent("snap") /\ UNCHANGED avars
  /\ LET s == Ev IN
     /\ lastwr' = Range(s.wr)
     /\ \/ Prop = "C12" /\ Strict /\ C12OK(s)
        \/ /\ Prop = "C11" /\ C11Base(s) /\ LookupEcStale(s) /\ RegBigStale(s, lastwr)
           /\ LET need == (IF LookupEcOK(s) THEN {} ELSE {"C11-ec-lookup-after-disconnect"})
                           \cup (IF RegBigOK(s) THEN {} ELSE {"C11-oversized-joins-writable"})
              IN need \subseteq KF /\ used' = used \cup need
TraceNext == TraceReset \/ TraceSkip \/ TFull \/ TInc \/ TEcFull \/ TEcInc \/ TClose \/ TReopen \/ TZClose \/ TCollect \/ TSnap
TraceSpec == TraceInit /\ [][TraceNext]_tvars
=============================================================================
