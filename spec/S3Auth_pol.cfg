SPECIFICATION PolSpec
INVARIANT RefPolicyOK
INVARIANT DenyNamesNothing
CHECK_DEADLOCK FALSE
