SPECIFICATION ASpec
INVARIANT ATypeOK
INVARIANT LiveAgree
PROPERTY CommitOnlyOnGood
PROPERTY LiveNeverChanges
CHECK_DEADLOCK FALSE
