---------------------------- MODULE LogBufferImpl ----------------------------
(* C22 - layer B: weed/util/log_buffer as implemented (log_buffer.go,
   sealed_buffer.go, log_read.go) plus the subscriber loop of
   weed/server/filer_grpc_server_sub_meta.go (SubscribeLocalMetadata), with the
   layer-A state (log, sub, disk of Subscribe.tla) as ghost.

   Memory identity is explicit: mem[b] is the content of byte buffer b (entries
   of one size unit each; what was written stays until overwritten), the current
   buffer and the sealed buffers only hold the NAME of their memory.  SealBuffer
   hands the current buffer a memory to reuse: with SealFix = FALSE the one the
   code at the pinned commit returned (read from the oldest sealed slot AFTER the
   shift, so it is still referenced by that slot), with SealFix = TRUE the one of
   the oldest slot before the shift.

   Time: -1 is the zero time.Time, 0 is time.Unix(0,0) (what copyToFlush resets
   start/stop to), changes have timestamps >= 1.

   Processes: one appender (AddToBuffer), the timer (loopInterval's body), the
   flusher (loopFlush: FlushBegin = flushFn is handed the data, FlushEnd = the
   unlocked lastFlushTime write), readers running the subscriber loop
   (disk replay, LoopProcessLogData with ReadFromBuffer, one callback per step). *)
EXTENDS Subscribe
CONSTANTS NSealed, Interval, Cap, MaxEvents, Deltas, MaxPending, SealFix, KFB, MaxOps
VARIABLES lastTsNs, cur, mem, sealed, flushQ, infl, lft, dlog, rs, hist
bvars == <<lastTsNs, cur, mem, sealed, flushQ, infl, lft, dlog, rs>>
vars == <<avars, bvars, hist>>

Bufs == 1..(NSealed + 1)
Pending == Len(flushQ) + Len(infl)
Lagging(p) == "C22-flush-lag-gap" \in KFB /\ p > NSealed

NoReader == [pc |-> "off", lrt |-> 0, batch |-> <<>>, memErr |-> "", rp |-> 0, seen |-> 0]
Init == /\ AInit
        /\ lastTsNs = 0
        /\ cur = [buf |-> NSealed + 1, pos |-> 0, start |-> -1, stop |-> -1]
        /\ mem = [b \in Bufs |-> <<>>]
        /\ sealed = [i \in 1..NSealed |-> [buf |-> i, size |-> 0, start |-> -1, stop |-> -1]]
        /\ flushQ = <<>> /\ infl = <<>> /\ lft = -1 /\ dlog = <<>>
        /\ rs = [r \in Readers |-> NoReader]
        /\ hist = <<>>

WriteAt(s, i, e) == IF i <= Len(s) THEN [s EXCEPT ![i] = e] ELSE Append(s, e)

(* sealed_buffer.go SealBuffer *)
Seal(start, stop, buf, pos) ==
  LET shifted == [i \in 1..NSealed |-> IF i < NSealed THEN sealed[i + 1]
                                       ELSE [buf |-> buf, size |-> pos, start |-> start, stop |-> stop]]
  IN [sealed |-> shifted, ret |-> IF SealFix THEN sealed[1].buf ELSE shifted[1].buf]

FlushItem(start) == [start |-> start, stop |-> cur.stop, data |-> SubSeq(mem[cur.buf], 1, cur.pos)]

(* log_buffer.go AddToBuffer *)
Add(id, req) ==
  LET ts == IF lastTsNs >= req THEN lastTsNs + 1 ELSE req
      start1 == IF cur.pos = 0 THEN ts ELSE cur.start
      rot == (start1 + Interval < ts) \/ (Cap - cur.pos < 1)
      s == Seal(start1, cur.stop, cur.buf, cur.pos)
      buf2 == IF rot THEN s.ret ELSE cur.buf
      pos2 == IF rot THEN 0 ELSE cur.pos
  IN /\ rot => Pending < MaxPending
     /\ lastTsNs' = ts
     /\ flushQ' = IF rot THEN Append(flushQ, FlushItem(start1)) ELSE flushQ
     /\ sealed' = IF rot THEN s.sealed ELSE sealed
     /\ mem' = [mem EXCEPT ![buf2] = WriteAt(@, pos2 + 1, <<id, ts>>)]
     /\ cur' = [buf |-> buf2, pos |-> pos2 + 1, start |-> IF rot THEN ts ELSE start1, stop |-> ts]
     /\ log' = Append(log, <<id, ts>>)

(* loopInterval's body: copyToFlush of a non-empty current buffer *)
TimerFlush ==
  LET s == Seal(cur.start, cur.stop, cur.buf, cur.pos)
  IN /\ cur.pos > 0 /\ Pending < MaxPending
     /\ flushQ' = Append(flushQ, FlushItem(cur.start))
     /\ sealed' = s.sealed
     /\ cur' = [buf |-> s.ret, pos |-> 0, start |-> 0, stop |-> 0]
     /\ UNCHANGED <<lastTsNs, mem, log>>

(* loopFlush *)
FlushBegin == /\ infl = <<>> /\ flushQ # <<>>
              /\ infl' = <<Head(flushQ)>> /\ flushQ' = Tail(flushQ)
              /\ dlog' = dlog \o Head(flushQ).data          \* readable from disk from now on
FlushEnd == /\ infl # <<>>
            /\ lft' = infl[1].stop /\ infl' = <<>>
            /\ disk' = disk \cup {Id(e) : e \in Range(infl[1].data)}   \* layer A: this flush has completed

(* Shutdown followed by the flusher finishing everything: the current buffer is rotated
   if it holds anything, every queued buffer reaches the disk, lastFlushTime is that of the last *)
RECURSIVE AllData(_)
AllData(q) == IF q = <<>> THEN <<>> ELSE Head(q).data \o AllData(Tail(q))
Quiesce ==
  LET s == Seal(cur.start, cur.stop, cur.buf, cur.pos)
      q1 == IF cur.pos > 0 THEN Append(flushQ, FlushItem(cur.start)) ELSE flushQ
      rest == AllData(q1)
  IN /\ sealed' = IF cur.pos > 0 THEN s.sealed ELSE sealed
     /\ cur' = IF cur.pos > 0 THEN [buf |-> s.ret, pos |-> 0, start |-> 0, stop |-> 0] ELSE cur
     /\ flushQ' = <<>> /\ infl' = <<>>
     /\ dlog' = dlog \o rest
     /\ disk' = disk \cup {Id(e) : e \in Range(rest)} \cup (IF infl # <<>> THEN {Id(e) : e \in Range(infl[1].data)} ELSE {})
     /\ lft' = IF q1 # <<>> THEN q1[Len(q1)].stop ELSE IF infl # <<>> THEN infl[1].stop ELSE lft
     /\ UNCHANGED <<lastTsNs, mem, log>>

(* dlog = what is on disk, in flush order: the entries handed to flushFn so far
   (the layer-A ghost disk only has their ids) *)
DiskAfter(t) == SelectSeq(dlog, LAMBDA e : Ts(e) > t)

(* sealed_buffer.go locateByTs: first entry of the WHOLE memory later than r *)
Locate(s, r) == IF \E i \in 1..Len(s) : Ts(s[i]) > r
                THEN CHOOSE i \in 1..Len(s) : Ts(s[i]) > r /\ \A j \in 1..(i - 1) : Ts(s[j]) <= r
                ELSE Len(s) + 2
Data(d) == [kind |-> "data", data |-> d]
RECURSIVE SealedScan(_, _)
SealedScan(r, i) ==
  IF i > NSealed THEN Data(SubSeq(mem[cur.buf], 1, cur.pos))
  ELSE LET b == sealed[i] IN
       IF b.start > r THEN Data(SubSeq(mem[b.buf], 1, b.size))
       ELSE IF b.stop > r
            THEN LET p == Locate(mem[b.buf], r)
                 IN IF p > b.size + 1 THEN [kind |-> "panic", data |-> <<>>]   \* buf[pos:size] with pos > size
                    ELSE Data(SubSeq(mem[b.buf], p, b.size))
            ELSE SealedScan(r, i + 1)
RECURSIVE BSearch(_, _, _, _)
BSearch(s, l, h, r) ==       \* l, h are the 0-based bounds of the code
  IF l > h THEN [kind |-> "nil", data |-> <<>>]
  ELSE LET mid == (l + h) \div 2
           t == Ts(s[mid + 1])
       IN IF t <= r THEN BSearch(s, mid + 1, h, r)
          ELSE LET prevT == IF mid > 0 THEN Ts(s[mid]) ELSE 0
               IN IF prevT <= r THEN Data(SubSeq(s, mid + 1, Len(s)))
                  ELSE BSearch(s, l, mid, r)
(* log_buffer.go ReadFromBuffer *)
ReadFromBuffer(r) ==
  IF lft # -1 /\ lft > r THEN [kind |-> "rfd", data |-> <<>>]
  ELSE IF r = cur.stop THEN [kind |-> "nil", data |-> <<>>]
  ELSE IF r > cur.stop THEN [kind |-> "nil", data |-> <<>>]
  ELSE IF r < cur.start THEN SealedScan(r, 1)
  ELSE BSearch(SubSeq(mem[cur.buf], 1, cur.pos), 0, cur.pos - 1, r)

(* ghost: the callback of reader r is handed e (what layer A calls a delivery);
   the only thing not taken at face value is a listed deviation's bookkeeping *)
Got(s, r, e, lagging) == [s EXCEPT ![r].skip = @ \cup LagSkip(r, e, lagging), ![r].got = Append(@, e)]
RECURSIVE GotAll(_, _, _)
GotAll(s, r, seq) == IF seq = <<>> THEN s ELSE GotAll([s EXCEPT ![r].got = Append(@, Head(seq))], r, Tail(seq))

StartReader(r, t0) ==
  /\ rs[r].pc = "off"
  /\ rs' = [rs EXCEPT ![r] = [NoReader EXCEPT !.pc = "disk", !.lrt = t0]]
  /\ AStart(r, t0)

(* one scheduled step of reader r: from one callback (or loop head) to the next *)
ReaderStep(r) ==
  LET me == rs[r] IN
  \/ /\ me.pc = "disk"          \* ReadPersistedLogBuffer(lastReadTime) then the processedTsNs logic
     /\ LET d == DiskAfter(me.lrt)
            processed == IF d = <<>> THEN 0 ELSE Ts(d[Len(d)])
        IN /\ sub' = GotAll(sub, r, d)
           /\ rs' = [rs EXCEPT ![r].lrt = IF processed # 0 THEN processed ELSE @,
                               ![r].pc = IF processed = 0 /\ me.memErr = "rfd" THEN "disk" ELSE "mem"]
  \/ /\ me.pc = "cb" /\ me.batch # <<>>      \* next entry of the copied buffer
     /\ sub' = Got(sub, r, Head(me.batch), FALSE)
     /\ rs' = [rs EXCEPT ![r].batch = Tail(@), ![r].lrt = Ts(Head(me.batch))]
  \/ /\ me.pc \in {"mem", "wait"} \/ (me.pc = "cb" /\ me.batch = <<>>)
     /\ LET res == ReadFromBuffer(me.lrt)
            m2 == [me EXCEPT !.rp = Pending, !.seen = Len(log)]
        IN CASE res.kind = "rfd" -> /\ rs' = [rs EXCEPT ![r] = [m2 EXCEPT !.pc = "disk", !.memErr = "rfd", !.batch = <<>>]]
                                    /\ UNCHANGED sub
             [] res.kind = "nil" -> /\ rs' = [rs EXCEPT ![r] = [m2 EXCEPT !.pc = "wait", !.batch = <<>>]]
                                    /\ UNCHANGED sub
             [] res.kind = "panic" -> /\ rs' = [rs EXCEPT ![r] = [m2 EXCEPT !.pc = "panic", !.batch = <<>>]]
                                      /\ UNCHANGED sub
             [] res.kind = "data" /\ res.data = <<>> ->
                                    /\ rs' = [rs EXCEPT ![r] = [m2 EXCEPT !.pc = "spin", !.batch = <<>>]]
                                    /\ UNCHANGED sub
             [] OTHER -> /\ sub' = Got(sub, r, Head(res.data), Lagging(Pending))
                         /\ rs' = [rs EXCEPT ![r] = [m2 EXCEPT !.pc = "cb", !.batch = Tail(res.data),
                                                               !.lrt = Ts(Head(res.data))]]

Log(op) == hist' = Append(hist, op)
Next ==
  /\ Len(hist) < MaxOps
  /\ \/ \E d \in Deltas :
          /\ Len(log) < MaxEvents /\ lastTsNs + d >= 1
          /\ Add(Len(log) + 1, lastTsNs + d)
          /\ Log([ev |-> "append", id |-> Len(log) + 1, req |-> lastTsNs + d])
          /\ UNCHANGED <<sub, disk, dlog, infl, lft, rs>>
     \/ TimerFlush /\ Log([ev |-> "tflush"]) /\ UNCHANGED <<sub, disk, dlog, infl, lft, rs>>
     \/ /\ FlushBegin /\ Log([ev |-> "fl1"])
        /\ UNCHANGED <<log, sub, disk, lastTsNs, cur, mem, sealed, lft, rs>>
     \/ FlushEnd /\ Log([ev |-> "fl2"]) /\ UNCHANGED <<log, sub, dlog, lastTsNs, cur, mem, sealed, flushQ, rs>>
     \/ \E r \in Readers, t0 \in 0..(lastTsNs + 1) :
          /\ \A q \in Readers : q < r => rs[q].pc # "off"        \* readers are interchangeable: start them in order
          /\ StartReader(r, t0) /\ Log([ev |-> "start", r |-> r, t0 |-> t0])
          /\ UNCHANGED <<log, disk, dlog, lastTsNs, cur, mem, sealed, flushQ, infl, lft>>
     \/ \E r \in Readers :
          /\ ReaderStep(r) /\ Log([ev |-> "rd", r |-> r])
          /\ UNCHANGED <<log, disk, dlog, lastTsNs, cur, mem, sealed, flushQ, infl, lft>>
Spec == Init /\ [][Next]_vars

(* ------------------------- the property, on the ghost ------------------------- *)
Safety == \A r \in Readers : PrefixOK(r)
(* a reader that found nothing more while the flusher was idle had everything that
   was appended by then *)
CaughtUp == \A r \in Readers :
   (rs[r].pc = "wait" /\ rs[r].rp = 0) =>
       sub[r].got = ExpectedOf(SubSeq(log, 1, rs[r].seen), sub[r].t0, sub[r].skip)
NoPanic == \A r \in Readers : rs[r].pc \notin {"panic", "spin"}
(* the flushed data is the log, in order, without repetition *)
DiskIsLogPrefix == IsPrefix(dlog, log)
TypeOK == /\ cur.buf \in Bufs /\ cur.pos \in 0..Cap
          /\ \A i \in 1..NSealed : sealed[i].buf \in Bufs
(* the memory the appender writes into is not one a sealed slot still shows to readers *)
NoAlias == \A i \in 1..NSealed : sealed[i].size > 0 => sealed[i].buf # cur.buf

(* model checking: the schedule so far is not part of the state *)
MCView == <<avars, bvars>>

(* ------------------------------- generators ------------------------------- *)
LastOp == IF hist = <<>> THEN <<>> ELSE hist[Len(hist)]
(* G2: one shortest schedule per (shape of the implementation state, incoming step) *)
Rel(a, b) == IF a < b THEN "lt" ELSE IF a = b THEN "eq" ELSE "gt"
ReaderShape(r) == <<rs[r].pc, Len(rs[r].batch), rs[r].memErr, Rel(rs[r].lrt, cur.start), Rel(rs[r].lrt, cur.stop),
                    Rel(rs[r].lrt, lft), [i \in 1..NSealed |-> <<Rel(rs[r].lrt, sealed[i].start), Rel(rs[r].lrt, sealed[i].stop)>>],
                    Len(sub[r].got) = Len(Expected(r))>>
View == <<cur.pos, cur.start = 0, [i \in 1..NSealed |-> <<sealed[i].size, sealed[i].buf = cur.buf>>],
          Len(flushQ), Len(infl), lft = -1, [r \in Readers |-> ReaderShape(r)],
          IF LastOp = <<>> THEN "" ELSE LastOp.ev>>
EmitW == hist = <<>> \/ PrintT(<<"W", ToJson(hist)>>)
Emit == Len(hist) < MaxOps \/ PrintT(<<"W", ToJson(hist)>>)
(* schedules that end in a state where the property is broken (the search stops there) *)
Good == Safety /\ NoPanic
EmitBad == Good \/ PrintT(<<"W", ToJson(hist)>>)
=============================================================================
