----------------------------- MODULE ReplBytes -----------------------------
(* C36 - what the bytes of a chunked source file are (what must arrive at a sink).

   A file entry carries a list of chunks [off, len, k, ts] (len bytes of alphabet
   k written at file offset off at logical time ts; byte j of the chunk is
   Alpha[k][j mod 10]) and a size attribute sz.  Its content:
     - position i holds the byte of the LATEST chunk (largest ts) that covers i;
     - a position no chunk covers (a hole, or the tail up to the size attribute)
       reads as a zero byte, written "0" here;
     - the length is the larger of the size attribute and the extent of the chunks.
   Write times within one entry are distinct (the generators guarantee it; the
   content with equal times is not defined).
   Contents are strings; the driver renders the bytes of a sink file the same way
   (letters as they are, a zero byte as "0").

   Replay(chs, sz) is the operational reading of the same thing (the writes applied
   in time order to a zero-extended buffer); ReplBytesMC.tla model-checks that the
   two agree on every small layout. *)
EXTENDS Integers, Sequences, FiniteSets
Alpha == << <<"a","b","c","d","e","f","g","h","i","j">>, <<"A","B","C","D","E","F","G","H","I","J">>,
            <<"q","r","s","t","u","v","w","x","y","z">>, <<"K","L","M","N","O","P","Q","R","S","T">> >>
Max2(a, b) == IF a >= b THEN a ELSE b
ChunkByte(ch, i) == Alpha[((ch.k - 1) % 4) + 1][((i - ch.off) % 10) + 1]      \* i = file offset, 0-based
Ends(chs) == {chs[j].off + chs[j].len : j \in 1..Len(chs)}
Extent(chs) == IF chs = <<>> THEN 0 ELSE CHOOSE m \in Ends(chs) : \A n \in Ends(chs) : n <= m
SizeOf(chs, sz) == Max2(sz, Extent(chs))
Covering(chs, i) == {j \in 1..Len(chs) : chs[j].off <= i /\ i < chs[j].off + chs[j].len}
Top(chs, i) == CHOOSE j \in Covering(chs, i) : \A m \in Covering(chs, i) : chs[m].ts <= chs[j].ts
ByteAt(chs, i) == IF Covering(chs, i) = {} THEN "0" ELSE ChunkByte(chs[Top(chs, i)], i)
RECURSIVE BytesFrom(_, _, _)
BytesFrom(chs, i, n) == IF i >= n THEN "" ELSE ByteAt(chs, i) \o BytesFrom(chs, i + 1, n)
ContentOf(chs, sz) == BytesFrom(chs, 0, SizeOf(chs, sz))

(* the covered positions only, in order: what a copy produces that writes the visible
   pieces one after the other without looking at their offsets (named deviation) *)
RECURSIVE SqueezedFrom(_, _, _)
SqueezedFrom(chs, i, n) == IF i >= n THEN ""
                           ELSE (IF Covering(chs, i) = {} THEN "" ELSE ByteAt(chs, i)) \o SqueezedFrom(chs, i + 1, n)
Squeezed(chs, sz) == SqueezedFrom(chs, 0, SizeOf(chs, sz))
HasHole(chs, sz) == \E i \in 0..(SizeOf(chs, sz) - 1) : Covering(chs, i) = {}

(* ------------------------------------------------------------ operational reading *)
WriteAt(buf, ch) == LET n == Max2(Len(buf), ch.off + ch.len)
                    IN [i \in 1..n |-> IF ch.off < i /\ i <= ch.off + ch.len THEN ChunkByte(ch, i - 1)
                                       ELSE IF i <= Len(buf) THEN buf[i] ELSE "0"]
RECURSIVE ApplyInTimeOrder(_, _)
ApplyInTimeOrder(buf, S) ==        \* S = set of chunks not yet written
  IF S = {} THEN buf
  ELSE LET c == CHOOSE c \in S : \A d \in S : c.ts <= d.ts
       IN ApplyInTimeOrder(WriteAt(buf, c), S \ {c})
Replay(chs, sz) == LET b == ApplyInTimeOrder(<<>>, {chs[j] : j \in 1..Len(chs)})
                   IN IF Len(b) < sz THEN b \o [i \in 1..(sz - Len(b)) |-> "0"] ELSE b
RECURSIVE Flat(_)
Flat(s) == IF s = <<>> THEN "" ELSE Head(s) \o Flat(Tail(s))
=============================================================================
