----------------------------- MODULE PosixFile -----------------------------
(* C30 - the mount's write buffering preserves POSIX byte semantics
   (weed/filesys: filehandle.go, file.go Setattr, dirty_pages_*.go, dirty_page_interval.go).

   data    the file as POSIX defines it: a sequence of bytes (small integers).
           Write(off, bytes) overlays bytes at off (a gap between the old end and off
           reads as zeros), Truncate(n) cuts or zero-extends to n bytes, Read(off, n)
           returns the bytes off .. min(off+n, size)-1, the size is Len(data).
   dirty   the offsets written since the last flush and not yet handed to storage
           (what the dirty-page buffer has to hold; the bytes there are data[i]).
   asize   the size attribute the open file carries (= Len(data) unless the one
           listed deviation has happened).

   After a flush the file's stored chunks have to resolve to data: the resolution is the
   last-writer-wins overlay by modification time of spec/ChunkOverlay.tla (C17), whose
   definitions are instantiated here; the stored size is the larger of the chunks' end
   and the stored size attribute.

   The same state serves the interval structures driven alone (events add / take /
   dsnap / lists): there `add` is a write and `take` hands one buffered run to storage. *)
EXTENDS Integers, Sequences, FiniteSets, TLC, Json
CONSTANTS MaxOps
VARIABLES data, dirty, asize, hist
avars == <<data, dirty, asize, hist>>

Max2(a, b) == IF a > b THEN a ELSE b
Min2(a, b) == IF a < b THEN a ELSE b
MaxOf(S) == CHOOSE x \in S : \A y \in S : y <= x

(* ---------------- POSIX ---------------- *)
At(d, i) == IF i < Len(d) THEN d[i + 1] ELSE 0            \* byte at offset i (from 0)
WriteOf(d, off, bs) ==
  [i \in 1..Max2(Len(d), off + Len(bs)) |->
     IF off < i /\ i <= off + Len(bs) THEN bs[i - off] ELSE At(d, i - 1)]
TruncOf(d, n) == [i \in 1..n |-> At(d, i - 1)]
ReadOf(d, off, n) == IF off >= Len(d) THEN <<>> ELSE SubSeq(d, off + 1, Min2(off + n, Len(d)))

Init == data = <<>> /\ dirty = {} /\ asize = 0 /\ hist = <<>>

Write(off, bs) ==
  /\ data' = WriteOf(data, off, bs)
  /\ dirty' = dirty \cup (off..(off + Len(bs) - 1))
  /\ asize' = Max2(asize, off + Len(bs))
Truncate(n) ==
  /\ data' = TruncOf(data, n)
  /\ dirty' = {i \in dirty : i < n}
  /\ asize' = n
Read(off, n, res) == res = ReadOf(data, off, n) /\ UNCHANGED <<data, dirty, asize>>
Attr(size) == size = Len(data) /\ UNCHANGED <<data, dirty, asize>>
Flush == dirty' = {} /\ UNCHANGED <<data, asize>>
Reopen == dirty' = {} /\ asize' = Len(data) /\ UNCHANGED data

(* KNOWN FINDING C30-truncate-keeps-dirty-pages: File.Setattr shortens the chunk list and the
   size attribute but never the dirty-page buffer.  Bytes written since the last flush at
   or beyond the new size survive the truncation: they are read back, and the next flush
   stores them, so the file is again as long as the last buffered byte (zeros between the
   new size and the surviving bytes where nothing is buffered).  Only the size attribute of
   the open file says n, until the file is opened again. *)
KeepsDirtyApplies(n) == \E i \in dirty : i >= n
TruncKeepsDirtyOf(d, D, n) ==
  [i \in 1..Max2(n, MaxOf(D) + 1) |-> IF (i - 1) < n \/ (i - 1) \in D THEN At(d, i - 1) ELSE 0]
TruncateKeepsDirty(n) ==
  /\ KeepsDirtyApplies(n)
  /\ data' = TruncKeepsDirtyOf(data, dirty, n)
  /\ asize' = n
  /\ UNCHANGED dirty
AttrStale(size) == asize # Len(data) /\ size = asize /\ UNCHANGED <<data, dirty, asize>>
(* ... and while the attribute is smaller than the content (until a write or a re-open makes
   them agree) a read may come back short: the chunk part of a read stops at the attribute
   size and the buffered part at the last buffered byte inside the read window.  The bytes
   that are returned are the right ones, and there are at least those below the attribute. *)
IsPrefix(p, q) == Len(p) <= Len(q) /\ SubSeq(q, 1, Len(p)) = p
ShortReadOk(off, n, res) ==
  /\ asize < Len(data)
  /\ IsPrefix(res, ReadOf(data, off, n)) /\ Len(res) < Len(ReadOf(data, off, n))
  /\ Len(res) >= Len(ReadOf(TruncOf(data, asize), off, n))
ReadShort(off, n, res) == ShortReadOk(off, n, res) /\ UNCHANGED <<data, dirty, asize>>

(* ---------------- stored chunks resolve to data ---------------- *)
(* S: set of [id, off, size, mtime]; B: function id -> bytes; definitions of C17 *)
CO(B) == INSTANCE ChunkOverlay WITH data <- B, top <- <<>>, fsize <- 0, hist <- <<>>, rd <- <<>>, old <- <<>>,
                                    Offs <- {}, Sizes <- {}, Mtimes <- {}, MaxChunks <- 0, Canon <- FALSE, MaxOps <- 0
ResolvesTo(S, B, fattr, d) ==
  /\ \A c \in S : Len(B[c.id]) >= c.size /\ c.size > 0
  /\ Max2(CO(B)!MaxEnd(S), fattr) = Len(d)
  /\ \A i \in 0..(Len(d) - 1) : d[i + 1] \in CO(B)!Allowed(S, i)
(* chunks: sequence of records [id, off, size, mtime, bytes] as recorded from the stored entry *)
ChunkSet(chunks) == {[id |-> chunks[k].id, off |-> chunks[k].off, size |-> chunks[k].size, mtime |-> chunks[k].mtime] : k \in 1..Len(chunks)}
ChunkBytes(chunks) == [k \in 1..Len(chunks) |-> chunks[k].bytes]
StoredOk(chunks, fattr) ==
  /\ \A k \in 1..Len(chunks) : chunks[k].id = k
  /\ ResolvesTo(ChunkSet(chunks), ChunkBytes(chunks), fattr, data)

(* ---------------- the dirty-page buffer alone ---------------- *)
Hole == 255                                    \* the driver pre-fills its read buffer with 255
(* ReadDataAt(buf[0..n), off): buffered offsets get their bytes, the rest of buf is untouched;
   maxStop = end of the last buffered offset inside the window, 0 when there is none *)
DirtyIn(off, n) == {i \in dirty : off <= i /\ i < off + n}
DirtyReadOk(off, n, got, stop) ==
  /\ Len(got) = n
  /\ \A j \in 1..n : got[j] = IF (off + j - 1) \in dirty THEN At(data, off + j - 1) ELSE Hole
  /\ stop = IF DirtyIn(off, n) = {} THEN 0 ELSE MaxOf(DirtyIn(off, n)) + 1
(* the interval lists: disjoint runs that together are exactly the buffered offsets, with their bytes *)
RunOk(r) == /\ r.size > 0 /\ Len(r.bytes) = r.size
            /\ \A i \in r.off..(r.off + r.size - 1) : i \in dirty /\ r.bytes[i - r.off + 1] = At(data, i)
ListsOk(ls) ==
  /\ \A k \in 1..Len(ls) : RunOk(ls[k])
  /\ \A k, m \in 1..Len(ls) : k # m => (ls[k].off + ls[k].size <= ls[m].off \/ ls[m].off + ls[m].size <= ls[k].off)
  /\ \A i \in dirty : \E k \in 1..Len(ls) : ls[k].off <= i /\ i < ls[k].off + ls[k].size
(* RemoveLargestIntervalLinkedList: some buffered run leaves the buffer (nothing only when it is empty) *)
Take(r) ==
  /\ IF r.size < 0 THEN dirty = {} /\ dirty' = dirty
     ELSE RunOk(r) /\ dirty' = dirty \ (r.off..(r.off + r.size - 1))
  /\ UNCHANGED <<data, asize>>
=============================================================================
