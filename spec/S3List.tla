------------------------------- MODULE S3List -------------------------------
(* C27 - S3 object listings are complete and paginate correctly.

   A key is a sequence of single-character tokens (<<"a","/","b">>), so prefixes and
   the roll-up into common prefixes are computed here. The bucket content is `present`
   (the keys an S3 HEAD finds; candidates = every key that was put plus every file the
   filer holds below the bucket outside .uploads) and `dirs` (the folders the filer
   holds, as prefixes ending in "/": they only serve to tell an existing empty folder
   from an invented common prefix).

   A request r = [style, prefix, delim, maxkeys, after]:
     style   "marker" (V1, continue with NextMarker), "lastkey" (V1, continue with the last
             key of the page), "token" (V2, continue with NextContinuationToken),
             "startafter" (V2, continue with start-after = last key of the page)
     after   the marker / start-after of the FIRST page (<<>> = none)
   A response = [status, keys, cps, trunc, next] as parsed from the XML.

   What a page must satisfy (PageOK) - only what the statement says:
     * status 200; at most maxkeys Contents entries (whether common prefixes count
       towards max-keys is left open); no entry twice
     * every key: is in the bucket, is under the prefix, is not a multipart-upload
       internal (.uploads), has no delimiter after the prefix when delimiter = "/"
       (such keys belong into a common prefix), was not delivered by an earlier page of
       this loop, and lies after the marker / start-after the loop started with
     * common prefixes only with delimiter "/"; each is prefix + segment + "/" of some
       key or folder (as the filer holds them just before the page) under the prefix, is not .uploads, was not delivered before
     * a page that says "not truncated" ends the enumeration: every key of the bucket
       that is under the prefix (and after the initial marker) has been delivered by
       then - itself, or, with delimiter "/", rolled up in a delivered common prefix
   Nothing is said about order inside a page, about full pages, or about what the
   continuation token looks like. A loop that does not end (driver's page cap) or that
   cannot be continued (truncated without anything to continue from) has no accepting
   action.

   The module also contains the S3 reference listing (RefPage: sorted, first maxkeys
   items after the marker, NextMarker = last item) and the four client continuation
   rules (NextAfter). Model checking runs the reference server under every client
   style over all small buckets: every reference page is admitted by PageOK, loops
   terminate, and the pages enumerate exactly the item set (RefAdmitted, Terminates,
   ExactAtEnd). The same run emits the request grid (Emit). *)
EXTENDS Integers, Sequences, FiniteSets, TLC, Json, SequencesExt

CONSTANTS Alpha,       \* sequence of all single-character tokens in byte order
          Keys,        \* key universe of the generator
          PrefixSet, Delims, MaxKeysSet, Styles, Afters,
          MaxBucket, MaxOps

VARIABLES present, dirs,          \* bucket content
          allowEmpty,             \* the gateway shows empty folders (S3ApiServerOption.AllowEmptyFolder)
          devs,                   \* known deviations taken by pages of the running loop
          phase,                  \* "idle" | "loop" (last page truncated) | "done" (last page final)
          req, seenK, seenP, prev, pageNo,
          okv,                    \* ghost: the last page applied satisfied PageOK
          hist
vars == <<present, dirs, allowEmpty, devs, phase, req, seenK, seenP, prev, pageNo, okv, hist>>

---------------------------------------------------------------------------
(* order and prefixes *)
OrdMap == [t \in {Alpha[i] : i \in 1..Len(Alpha)} |-> CHOOSE i \in 1..Len(Alpha) : Alpha[i] = t]
Ord(t) == IF t \in DOMAIN OrdMap THEN OrdMap[t] ELSE 0
RECURSIVE Lt(_, _)
Lt(a, b) == IF b = <<>> THEN FALSE
            ELSE IF a = <<>> THEN TRUE
            ELSE IF a[1] = b[1] THEN Lt(Tail(a), Tail(b))
            ELSE Ord(a[1]) < Ord(b[1])
HasPrefix(k, p) == Len(k) >= Len(p) /\ SubSeq(k, 1, Len(p)) = p
StrictPrefixOf(p, k) == Len(k) > Len(p) /\ SubSeq(k, 1, Len(p)) = p
Uploads == <<".", "u", "p", "l", "o", "a", "d", "s">>
Internal(k) == HasPrefix(k, Uploads) /\ (Len(k) = Len(Uploads) \/ k[Len(Uploads) + 1] = "/")
DelimAt(k, p) == {i \in (Len(p) + 1)..Len(k) : k[i] = "/"}
HasDelim(k, p) == DelimAt(k, p) # {}
Rollup(k, p) == LET i == CHOOSE i \in DelimAt(k, p) : \A j \in DelimAt(k, p) : i <= j IN SubSeq(k, 1, i)
After(a, k) == a = <<>> \/ Lt(a, k)

RollsUp(k, r) == r.delim = "/" /\ HasDelim(k, r.prefix)
(* the keys an enumeration that started after r.after has to deliver. A key that rolls up is owed only if its
   common prefix lies after the marker: what a marker inside (or equal to) a common prefix means for the rest of
   that group is not said (S3 itself skips the group when the marker is the common prefix) *)
Matching(B, r) == {k \in B : /\ HasPrefix(k, r.prefix) /\ ~Internal(k)
                             /\ After(r.after, IF RollsUp(k, r) THEN Rollup(k, r.prefix) ELSE k)}

---------------------------------------------------------------------------
(* the judge *)
NoDup(s) == \A i, j \in 1..Len(s) : i # j => s[i] # s[j]
PageOK(r, sK, sP, DS, resp) ==
  /\ resp.status = 200
  /\ Len(resp.keys) <= r.maxkeys
  /\ NoDup(resp.keys) /\ NoDup(resp.cps)
  /\ \A i \in 1..Len(resp.keys) : LET k == resp.keys[i] IN
        /\ k \in present
        /\ HasPrefix(k, r.prefix)
        /\ ~Internal(k)
        /\ ~RollsUp(k, r)
        /\ k \notin sK
        /\ After(r.after, k)
  /\ r.delim = "" => resp.cps = <<>>
  /\ \A i \in 1..Len(resp.cps) : LET p == resp.cps[i] IN
        /\ ~Internal(p)
        /\ p \notin sP
        /\ \E k \in present \cup DS : HasPrefix(k, r.prefix) /\ ~Internal(k) /\ RollsUp(k, r) /\ Rollup(k, r.prefix) = p
  /\ ~resp.trunc =>
        \A k \in Matching(present, r) :
           \/ k \in sK \cup ToSet(resp.keys)
           \/ RollsUp(k, r) /\ Rollup(k, r.prefix) \in sP \cup ToSet(resp.cps)

(* what the client sends with the next page *)
NextAfter(style, resp) ==
  IF style \in {"marker", "token"} THEN resp.next
  ELSE IF resp.cps = <<>> /\ resp.keys # <<>> THEN resp.keys[Len(resp.keys)] ELSE resp.next

Apply(r, first, DS, resp) ==
  LET sK == IF first THEN {} ELSE seenK
      sP == IF first THEN {} ELSE seenP IN
  /\ okv' = PageOK(r, sK, sP, DS, resp)
  /\ dirs' = DS
  /\ seenK' = sK \cup ToSet(resp.keys)
  /\ seenP' = sP \cup ToSet(resp.cps)
  /\ req' = r
  /\ prev' = resp
  /\ pageNo' = IF first THEN 1 ELSE pageNo + 1
  /\ phase' = IF resp.trunc THEN "loop" ELSE "done"
  /\ UNCHANGED <<present, allowEmpty>>

(* the judged actions: a first page starts a loop; a further page must belong to the
   running loop and carry the continuation the client rule yields *)
InLoop(r, sent) == phase = "loop" /\ r = req /\ sent = NextAfter(req.style, prev) /\ sent # <<>>
FirstPage(r, DS, resp) == Apply(r, TRUE, DS, resp) /\ okv' /\ devs' = {}
NextPage(r, sent, DS, resp) == InLoop(r, sent) /\ Apply(req, FALSE, DS, resp) /\ okv' /\ UNCHANGED devs
EndLoop == phase = "done" /\ phase' = "idle" /\ UNCHANGED <<present, dirs, allowEmpty, devs, req, seenK, seenP, prev, pageNo, okv>>

---------------------------------------------------------------------------
(* the S3 reference listing *)
KeyItems(B, r) == {k \in B : HasPrefix(k, r.prefix) /\ ~Internal(k) /\ ~RollsUp(k, r)}
Rolled(B, r) == {k \in B : HasPrefix(k, r.prefix) /\ ~Internal(k) /\ RollsUp(k, r)}
CPItems(B, r) == {Rollup(k, r.prefix) : k \in Rolled(B, r)}
ItemsAfter(B, r, a) ==
  {[t |-> "k", v |-> k] : k \in {k \in KeyItems(B, r) : After(a, k)}} \cup
  {[t |-> "p", v |-> p] : p \in {p \in CPItems(B, r) :
        \/ After(a, p)
        \/ StrictPrefixOf(p, a) /\ \E k \in Rolled(B, r) : Rollup(k, r.prefix) = p /\ Lt(a, k)}}
Sel(s, t) == LET f == SelectSeq(s, LAMBDA x : x.t = t) IN [i \in 1..Len(f) |-> f[i].v]
RefPage(B, r, a) ==
  LET s == SetToSortSeq(ItemsAfter(B, r, a), LAMBDA x, y : Lt(x.v, y.v))
      n == IF Len(s) < r.maxkeys THEN Len(s) ELSE r.maxkeys
      pg == SubSeq(s, 1, n) IN
  [status |-> 200, keys |-> Sel(pg, "k"), cps |-> Sel(pg, "p"), trunc |-> Len(s) > n,
   next |-> IF Len(s) > n THEN pg[n].v ELSE <<>>]

---------------------------------------------------------------------------
(* generator and design-level model *)
Reqs == [style : Styles, prefix : PrefixSet, delim : Delims, maxkeys : MaxKeysSet, after : Afters]
Init == /\ present \in {B \in SUBSET Keys : Cardinality(B) <= MaxBucket}
        /\ dirs = {} /\ allowEmpty = FALSE /\ devs = {}
        /\ phase = "idle" /\ req = [style |-> "marker", prefix |-> <<>>, delim |-> "", maxkeys |-> 1, after |-> <<>>]
        /\ seenK = {} /\ seenP = {} /\ pageNo = 0 /\ okv = TRUE
        /\ prev = [status |-> 200, keys |-> <<>>, cps |-> <<>>, trunc |-> FALSE, next |-> <<>>]
        /\ hist = <<>>
GBegin(r) == /\ phase = "idle" /\ Len(hist) < MaxOps
             /\ hist' = Append(hist, [ev |-> "loop", style |-> r.style, prefix |-> r.prefix, delim |-> r.delim,
                                      maxkeys |-> r.maxkeys, after |-> r.after, keys |-> SetToSeq(present)])
             /\ Apply(r, TRUE, dirs, RefPage(present, r, r.after)) /\ UNCHANGED devs
GCont == /\ phase = "loop"
         /\ Apply(req, FALSE, dirs, RefPage(present, req, NextAfter(req.style, prev)))
         /\ UNCHANGED <<hist, devs>>
GEnd == EndLoop /\ UNCHANGED hist
Next == (\E r \in Reqs : GBegin(r)) \/ GCont \/ GEnd
Spec == Init /\ [][Next]_vars

RefAdmitted == okv
Terminates == pageNo <= Cardinality(present) + 1
Continuable == phase = "loop" => NextAfter(req.style, prev) # <<>>
ExactAtEnd == phase = "done" =>
   /\ seenK = {k \in KeyItems(present, req) : After(req.after, k)}
   /\ seenP \subseteq CPItems(present, req)
   /\ \A k \in Matching(present, req) : RollsUp(k, req) => Rollup(k, req.prefix) \in seenP
(* pages of the reference are full until the last one *)
FullPages == phase = "loop" => Len(prev.keys) + Len(prev.cps) = req.maxkeys

Emit == Len(hist) < MaxOps \/ PrintT(<<"W", ToJson(hist)>>)
=============================================================================
