SPECIFICATION Spec
INVARIANT TypeOK
INVARIANT Refines
INVARIANT NothingExcused
CHECK_DEADLOCK FALSE
