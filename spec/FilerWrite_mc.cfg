SPECIFICATION Spec
INVARIANT TypeOK
INVARIANT CatLaws
PROPERTY FailedWriteLeavesState
PROPERTY SuccessStoresBody
CHECK_DEADLOCK FALSE
