------------------------------ MODULE TraceKit ------------------------------
(* Common part of every trace specification (the judge).

   A recorded trace is an ndjson file: executions, each starting with a line
   {"ev":"reset", ...cfg}; lib/vf.py adds to every line  x  (ordinal of the
   execution) and  nr  (line number of the next reset, or Len+1).

   Variables: l  = next line to consume;  ok = the current execution has been
   explained so far;  used = names of known-finding deviations taken on this
   path.  A property trace spec EXTENDS this module and its layer-A module and
   defines   TraceNext == TraceReset(...) \/ TraceSkip \/ <one disjunct per event>.

   Verdict protocol: AccLog (a CONSTRAINT) prints <<"ACC", x, used>> whenever an
   execution has been consumed completely with ok = TRUE.  An execution for which
   no ACC line appears cannot be explained by the specification: a violation.
   TraceSkip lets the judge carry on with the next execution after a rejection, so
   one TLC run judges thousands of executions.  HW tracks the furthest line
   explained (used when one execution is re-judged alone to localise the
   rejection). *)
EXTENDS Integers, Sequences, FiniteSets, TLC, Json
CONSTANTS TraceFile, KF
VARIABLES l, ok, used

Trace == ndJsonDeserialize(TraceFile)
N == Len(Trace)
Ev == Trace[l]

kitvars == <<l, ok, used>>

KitInit == l = 1 /\ ok = TRUE /\ used = {} /\ TLCSet(1, 0)

(* consume the current line as event `name`, no deviation *)
IsEvent(name) == l <= N /\ ok /\ Trace[l].ev = name /\ l' = l + 1 /\ ok' = ok
Strict == used' = used
Deviate(d) == d \in KF /\ used' = used \cup {d}
DeviateAll(S) == S \subseteq KF /\ used' = used \cup S   \* S = {} is the strict case

IsReset == l <= N /\ Trace[l].ev = "reset" /\ l' = l + 1 /\ ok' = TRUE /\ used' = {}

(* give up on the current execution, jump to the next one; the property
   variables are left as they are (the reset re-initialises them) *)
SkipStep == l <= N /\ ok /\ Trace[l].ev # "reset" /\ l' = Trace[l].nr /\ ok' = FALSE /\ used' = used

AtExecEnd == l > 1 /\ (l = N + 1 \/ Trace[l].ev = "reset")
AccLog == (ok /\ AtExecEnd) => PrintT(<<"ACC", Trace[l - 1].x, used>>)
HW == IF ok /\ l > TLCGet(1) THEN TLCSet(1, l) ELSE TRUE
Done == PrintT(<<"HIGHWATER", TLCGet(1)>>)

Has(r, f) == f \in DOMAIN r
=============================================================================
