------------------------------ MODULE FilerNS ------------------------------
(* C18 / C20 / C21 - the filer namespace, its hard links and its chunk garbage
   collection, as seen through the filer's gRPC API.

   A path is a non-empty sequence of names below the root of one execution.
     tree  : [path -> node]; node = [kind, chunks, attr, link].  kind "d" is a directory,
             "f" a file.  A plain file carries its content itself (chunks = set of chunk
             ids, attr = an attribute token); a hard-linked name has link = L # 0 and its
             content lives in links[L] (its own chunks/attr fields are {} / 0).
     links : [link id -> [chunks, attr, cnt]] - the shared records of the hard links.
     gc    : chunk ids the filer has scheduled for deletion so far.
     due   : (ghost) chunk ids that stopped being referenced by an operation that asked
             for data deletion.
     taint : chunk ids about which the statement is silent because a CLIENT gave the same
             chunk to two different file identities or re-used a chunk id that had been
             scheduled already (chunks are owned by one file; only hard links share).

   Every operation is described by the set of outcomes the property statements admit:
   XxxOuts(args) is a set of records [res, t, l, F] - the answer, the tree and the link
   records afterwards, and F, the set of named deviations (known findings) this outcome
   relies on; F = {} is what the statements ask for.  Reading of the statements: an
   operation that answers "ok" has its complete effect, an operation that answers with an
   error has none; where a statement says an operation is refused / fails, "ok" is not
   admitted; where the statements are silent every answer is admitted.  The generator
   (GenNext) drives the strict outcomes, the judge (FilerNSTrace) looks the observed
   answer, snapshot and scheduled chunks up in the same sets. *)
EXTENDS Integers, Sequences, FiniteSets, TLC, Json

CONSTANTS Paths,      \* generator: path universe
          Chunks,     \* generator: chunk ids
          Attrs,      \* generator: attribute tokens
          MaxLinks,   \* generator: hard-link ids it may create
          MaxOps,     \* generator: history length
          Mix,        \* generator: set of operation kinds / options it uses
          Dev         \* generator: FALSE = follow the strict outcomes; TRUE = follow what the unchanged code
                      \* does (every applicable known-finding deviation, the chunk ids the code schedules)
VARIABLES tree, links, gc, due, taint, nextLid, last, hist
vars == <<tree, links, gc, due, taint, nextLid, last, hist>>

(* names of the known-finding deviations *)
D1 == "C21-rename-drops-link"
D2 == "C21-overwrite-keeps-counter"
D3 == "C21-recursive-delete-keeps-counter"
D4 == "C20-delete-linked-name-collects-shared"
D5 == "C20-overwrite-linked-name-collects-shared"
D6 == "C20-recursive-delete-leaks-link-chunks"
D7 == "C20-collects-chunk-of-rename-copy"

(* ------------------------------ paths and trees ------------------------------ *)
IsPrefix(p, q) == Len(p) <= Len(q) /\ SubSeq(q, 1, Len(p)) = p
Ancestors(p) == {SubSeq(p, 1, i) : i \in 1..(Len(p) - 1)}
Suffix(q, n) == SubSeq(q, n + 1, Len(q))
Under(t, p) == {q \in DOMAIN t : IsPrefix(p, q)}
Without(t, S) == [q \in DOMAIN t \ S |-> t[q]]
Dir == [kind |-> "d", chunks |-> {}, attr |-> 0, link |-> 0]
Plain(c, a) == [kind |-> "f", chunks |-> c, attr |-> a, link |-> 0]
Linked(L) == [kind |-> "f", chunks |-> {}, attr |-> 0, link |-> L]
IsFile(t, p) == p \in DOMAIN t /\ t[p].kind = "f"
IsDir(t, p) == p \in DOMAIN t /\ t[p].kind = "d"
Files(t) == {p \in DOMAIN t : t[p].kind = "f"}
FileAbove(t, p) == \E a \in Ancestors(p) : IsFile(t, a)
WithAncestors(t, p) == [q \in DOMAIN t \cup Ancestors(p) |-> IF q \in DOMAIN t THEN t[q] ELSE Dir]
Put(t, p, n) == [q \in DOMAIN t \cup {p} |-> IF q = p THEN n ELSE t[q]]

(* what a name shows *)
HasRec(t, l, p) == t[p].link # 0 /\ t[p].link \in DOMAIN l
ChunksOf(t, l, p) == IF HasRec(t, l, p) THEN l[t[p].link].chunks ELSE t[p].chunks
AttrOf(t, l, p) == IF HasRec(t, l, p) THEN l[t[p].link].attr ELSE t[p].attr
CntOf(t, l, p) == IF HasRec(t, l, p) THEN l[t[p].link].cnt ELSE 0
Names(t, L) == {p \in DOMAIN t : t[p].link = L}
Ident(t, p) == IF t[p].link = 0 THEN {p} ELSE Names(t, t[p].link)
RefOf(t, l, S) == UNION {ChunksOf(t, l, p) : p \in S \cap Files(t)}
Ref(t, l) == RefOf(t, l, DOMAIN t)     \* chunks referenced by a live entry, directly or through a hard link

(* k names leave hard link L: the record goes with the last one *)
DecBy(l, L, k) == IF L \notin DOMAIN l \/ k = 0 THEN l
                  ELSE IF l[L].cnt - k <= 0 THEN [x \in DOMAIN l \ {L} |-> l[x]]
                  ELSE [l EXCEPT ![L].cnt = @ - k]
(* the names in S (of tree t) leave their hard links *)
DecAll(l, t, S) == LET K(L) == Cardinality({p \in S : t[p].link = L})
                       keep == {L \in DOMAIN l : K(L) = 0 \/ l[L].cnt - K(L) > 0}
                   IN [L \in keep |-> [l[L] EXCEPT !.cnt = @ - K(L)]]

(* ------------------------------ outcomes ------------------------------ *)
Out(res, t, l, F) == [res |-> res, t |-> t, l |-> l, F |-> F]
Same(res) == Out(res, tree, links, {})

(* an existing file p is replaced by a fresh plain entry: a hard-linked name leaves its link *)
OverwriteOuts(p, new) ==
  LET L == tree[p].link
      t2 == Put(tree, p, new)
  IN IF L = 0 THEN {Out("ok", t2, links, {})}
     ELSE {Out("ok", t2, DecBy(links, L, 1), {}), Out("ok", t2, links, {D2})}

(* CreateEntry with a fresh entry e = [kind, chunks, attr] (missing ancestors become directories) *)
CreateOuts(p, e) ==
  LET new == IF e.kind = "d" THEN Dir ELSE Plain(e.chunks, e.attr) IN
  IF FileAbove(tree, p) THEN {Same("err")}                  \* ancestors are directories
  ELSE IF p \notin DOMAIN tree
       THEN {Same("err"), Out("ok", Put(WithAncestors(tree, p), p, new), links, {})}
  ELSE IF tree[p].kind # e.kind THEN {Same("err")}          \* a file is never replaced by a directory or vice versa
  ELSE IF e.kind = "d" THEN {Same("err"), Same("ok")}       \* directory attributes are not modelled
  ELSE {Same("err")} \cup OverwriteOuts(p, new)             \* (o_excl: the statements are silent)

(* UpdateEntry with a fresh entry *)
UpdateOuts(p, e) ==
  IF p \notin DOMAIN tree THEN {Same("err"), Same("ok")} ELSE CreateOuts(p, e)

(* the mount's write-back: the looked-up entry with new chunks and attributes, hard link kept *)
WriteOuts(p, c, a) ==
  IF ~IsFile(tree, p) THEN {Same("skip")}
  ELSE {Same("err")} \cup
       IF HasRec(tree, links, p)
       THEN {Out("ok", tree, [links EXCEPT ![tree[p].link].chunks = c, ![tree[p].link].attr = a], {})}
       ELSE IF tree[p].link = 0 THEN {Out("ok", Put(tree, p, Plain(c, a)), links, {})} ELSE {}

(* the mount's link(old, new): UpdateEntry(old as hard link, counter+1), CreateEntry(new name) *)
LinkOuts(o, n, lid) ==
  IF ~IsFile(tree, o) \/ n \in DOMAIN tree THEN {Same("skip")}
  ELSE IF tree[o].link # 0 /\ ~HasRec(tree, links, o) THEN {}
  ELSE LET L == IF tree[o].link # 0 THEN tree[o].link ELSE lid
           rec == [chunks |-> ChunksOf(tree, links, o), attr |-> AttrOf(tree, links, o),
                   cnt |-> (IF tree[o].link # 0 THEN links[L].cnt ELSE 1) + 1]
           l2 == [x \in DOMAIN links \cup {L} |-> IF x = L THEN rec ELSE links[x]]
           t1 == Put(tree, o, Linked(L))
       IN \* the two calls are not atomic: "err2" = the first took effect, the second failed
          {Same("err1"), Out("err2", t1, l2, {})} \cup
          IF FileAbove(tree, n) THEN {} ELSE {Out("ok", Put(WithAncestors(t1, n), n, Linked(L)), l2, {})}

DeleteOuts(p, rec, data) ==
  IF p \notin DOMAIN tree THEN {Same("ok"), Same("err")}
  ELSE LET S == Under(tree, p)
           t2 == Without(tree, S)
       IN IF tree[p].kind = "d" /\ S # {p} /\ ~rec
          THEN {Same("err")}                                \* non-recursive delete of a non-empty directory fails, nothing changes
          ELSE {Same("err"), Out("ok", t2, DecAll(links, tree, S), {})} \cup
               IF tree[p].kind = "d" /\ ~data /\ (\E q \in S : tree[q].link # 0)
               THEN {Out("ok", t2, links, {D3})} ELSE {}

(* AtomicRenameEntry; a directory onto an existing directory is RenameMerge (statements silent) *)
IsMerge(o, n) == /\ o \in DOMAIN tree /\ o # n /\ ~IsPrefix(o, n) /\ ~FileAbove(tree, n)
                 /\ IsDir(tree, o) /\ IsDir(tree, n)
RenameOuts(o, n) ==
  IF o \notin DOMAIN tree THEN {Same("err"), Same("ok")}
  ELSE IF o = n THEN {Same("ok"), Same("err")}
  ELSE IF IsPrefix(o, n) THEN {Same("err")}                 \* into itself or a descendant: refused
  ELSE IF FileAbove(tree, n) THEN {Same("err")}
  ELSE IF n \in DOMAIN tree /\ tree[n].kind # tree[o].kind THEN {Same("err")}
  ELSE IF IsDir(tree, n) THEN {}
  ELSE
   LET S == Under(tree, o)
       moved == {n \o Suffix(q, Len(o)) : q \in S}
       src(q) == o \o Suffix(q, Len(n))
       t1 == WithAncestors(Without(tree, S), n)
       strictT == [q \in DOMAIN t1 \cup moved |-> IF q \in moved THEN tree[src(q)] ELSE t1[q]]
       copyT == [q \in DOMAIN t1 \cup moved |->
                   IF q \in moved
                   THEN IF tree[src(q)].link # 0
                        THEN Plain(ChunksOf(tree, links, src(q)), AttrOf(tree, links, src(q)))
                        ELSE tree[src(q)]
                   ELSE t1[q]]
       destL == IF n \in DOMAIN tree THEN tree[n].link ELSE 0
       hasLN == \E q \in S : tree[q].link # 0
       lDest(F) == IF D2 \in F THEN links ELSE DecBy(links, destL, 1)
       lAll(F) == IF D1 \in F THEN DecAll(lDest(F), tree, S) ELSE lDest(F)
       Fs == {F \in SUBSET {D1, D2} : (D1 \in F => hasLN) /\ (D2 \in F => destL # 0)}
   IN {Same("err")} \cup {Out("ok", IF D1 \in F THEN copyT ELSE strictT, lAll(F), F) : F \in Fs}

(* ---------------- chunk garbage collection: judging the ids g scheduled by one operation ----------------
   t2, l2: the state afterwards; req: the operation asked for data deletion; tn: taint afterwards;
   drop: chunks the operated names showed before and do not show afterwards; hl: those of them
   that other names of the same hard link still show (deviation hlFlag); lost: chunks of hard-link
   records whose names a recursive delete removed. *)
PlainChunks(t) == UNION {t[q].chunks : q \in {f \in DOMAIN t : t[f].kind = "f" /\ t[f].link = 0}}
GcOver(g, t2, l2, tn) == (g \cap Ref(t2, l2)) \ tn
GcUnder(g, t2, l2, req, tn) == IF req THEN ((Ref(tree, links) \ Ref(t2, l2)) \ (g \cup gc)) \ tn ELSE {}
GcExplained(g, t2, l2, req, tn, drop, lost) ==
  GcOver(g, t2, l2, tn) \subseteq drop /\ GcUnder(g, t2, l2, req, tn) \subseteq lost
GcFlags(g, t2, l2, req, tn, hl, hlFlag) ==
  (IF GcOver(g, t2, l2, tn) \cap hl # {} THEN {hlFlag} ELSE {})
  \cup (IF GcOver(g, t2, l2, tn) \ hl # {} THEN {D7} ELSE {})
  \cup (IF GcUnder(g, t2, l2, req, tn) # {} THEN {D6} ELSE {})

OthersOf(p) == IF IsFile(tree, p) THEN Files(tree) \ Ident(tree, p) ELSE Files(tree)   \* for a write-back through p
TaintBy(p, c) == taint \cup (c \cap (RefOf(tree, links, OthersOf(p)) \cup gc))
TaintByFresh(p, c) == taint \cup (c \cap (RefOf(tree, links, Files(tree) \ {p}) \cup gc))   \* for a fresh plain entry at p
SharedWithNames(p) ==   \* chunks of p's hard-link record while other names of it remain
  IF IsFile(tree, p) /\ HasRec(tree, links, p) /\ Names(tree, tree[p].link) # {p}
  THEN links[tree[p].link].chunks ELSE {}
ShownBy(p) == IF IsFile(tree, p) THEN ChunksOf(tree, links, p) ELSE {}
LinkChunksIn(S) == UNION {links[L].chunks : L \in {tree[q].link : q \in S} \cap DOMAIN links}

(* ------------------------------ generator / model-checking view ------------------------------ *)
Init == /\ tree = <<>> /\ links = <<>> /\ gc = {} /\ due = {} /\ taint = {} /\ nextLid = 1
        /\ last = [op |-> [ev |-> "none"], res |-> "none"] /\ hist = <<>>

(* the outcome the generator follows: the complete effect if the statements admit one; with Dev the
   outcome that relies on every applicable deviation (what the unchanged code does) *)
Strictest(outs) == {o \in outs : /\ o.F = {}
                                 /\ \/ o.res = "ok"
                                    \/ /\ ~\E o2 \in outs : o2.F = {} /\ o2.res = "ok"
                                       /\ o.t = tree /\ o.l = links}
Best(outs) == IF Dev /\ (\E o \in outs : o.res = "ok")
              THEN {o \in outs : o.res = "ok" /\ \A o2 \in outs : o2.res = "ok" => o2.F \subseteq o.F}
              ELSE Strictest(outs)
(* codeG: the chunk ids the unchanged code schedules for this operation (used with Dev only) *)
Apply(op, o, req, nl, codeG) ==
  LET dropped == Ref(tree, links) \ Ref(o.t, o.l) IN
  /\ tree' = o.t /\ links' = o.l
  /\ gc' = gc \cup (IF Dev THEN (IF o.res = "ok" THEN codeG ELSE {})
                    ELSE IF req \/ op.ev = "rename" THEN dropped ELSE {})   \* (a rename may collect what it overwrote)
  /\ due' = due \cup (IF req THEN dropped ELSE {})
  /\ taint' = taint /\ nextLid' = nl
  /\ last' = [op |-> op, res |-> o.res]
  /\ hist' = Append(hist, op)
Owned(p, c) == c \cap (RefOf(tree, links, OthersOf(p)) \cup gc) = {}   \* a chunk belongs to one file
OwnedFresh(p, c) == c \cap (RefOf(tree, links, Files(tree) \ {p}) \cup gc) = {}
Kinds == IF "mkdir" \in Mix THEN {"d", "f"} ELSE {"f"}
Bools(opt) == IF opt \in Mix THEN {FALSE, TRUE} ELSE {FALSE}
Entries == (IF "d" \in Kinds THEN {[kind |-> "d", chunks |-> {}, attr |-> 0]} ELSE {})
           \cup {[kind |-> "f", chunks |-> c, attr |-> a] : c \in SUBSET Chunks, a \in Attrs}

GenCreate == "create" \in Mix /\ \E p \in Paths, e \in Entries, x \in Bools("oexcl") :
               /\ OwnedFresh(p, e.chunks)
               /\ \E o \in Best(CreateOuts(p, e)) :
                    Apply([ev |-> "create", p |-> p, kind |-> e.kind, chunks |-> e.chunks, attr |-> e.attr, oexcl |-> x],
                          IF x /\ p \in DOMAIN tree THEN Same("err") ELSE o, TRUE, nextLid, ShownBy(p) \ e.chunks)
GenUpdate == "update" \in Mix /\ \E p \in Paths, e \in Entries :
               /\ OwnedFresh(p, e.chunks)
               /\ \E o \in Best(UpdateOuts(p, e)) :
                    Apply([ev |-> "update", p |-> p, kind |-> e.kind, chunks |-> e.chunks, attr |-> e.attr], o, TRUE, nextLid,
                          ShownBy(p) \ e.chunks)
GenWrite == "write" \in Mix /\ \E p \in Paths, c \in SUBSET Chunks, a \in Attrs, via \in {"create", "update"} :
               /\ Owned(p, c) /\ IsFile(tree, p)
               /\ \E o \in Best(WriteOuts(p, c, a)) :
                    Apply([ev |-> "write", p |-> p, chunks |-> c, attr |-> a, via |-> via], o, TRUE, nextLid, ShownBy(p) \ c)
GenLink == "link" \in Mix /\ \E o \in Paths, n \in Paths :
               /\ IsFile(tree, o) /\ n \notin DOMAIN tree /\ ~FileAbove(tree, n)
               /\ (tree[o].link = 0 => nextLid <= MaxLinks)
               /\ \E x \in Best(LinkOuts(o, n, nextLid)) :
                    Apply([ev |-> "link", o |-> o, n |-> n], x, FALSE, IF tree[o].link = 0 THEN nextLid + 1 ELSE nextLid, {})
GenDelete == "delete" \in Mix /\ \E p \in Paths, rec \in BOOLEAN, data \in (IF "nodata" \in Mix THEN BOOLEAN ELSE {TRUE}) :
               \E o \in Best(DeleteOuts(p, rec, data)) :
                    Apply([ev |-> "delete", p |-> p, rec |-> rec, data |-> data, ign |-> FALSE], o, data, nextLid,
                          IF ~data \/ p \notin DOMAIN tree THEN {}
                          ELSE IF IsFile(tree, p) THEN ShownBy(p)
                          ELSE RefOf(tree, links, {q \in Under(tree, p) : tree[q].link = 0}))
GenRename == "rename" \in Mix /\ \E o \in Paths, n \in Paths :
               /\ ~IsMerge(o, n)
               /\ \E x \in Best(RenameOuts(o, n)) :
                    Apply([ev |-> "rename", o |-> o, n |-> n], x, FALSE, nextLid,
                          IF IsFile(tree, n) /\ IsFile(tree, o) /\ o # n THEN ShownBy(n) \ ShownBy(o) ELSE {})
GenNext == Len(hist) < MaxOps /\ (GenCreate \/ GenUpdate \/ GenWrite \/ GenLink \/ GenDelete \/ GenRename)
Spec == Init /\ [][GenNext]_vars

(* ---------------- the statements at design level (checked over every strict history) ---------------- *)
(* C18 *)
WellFormed(t) == \A p \in DOMAIN t : \A a \in Ancestors(p) : IsDir(t, a)
KindStable(t, t2) == \A p \in DOMAIN t \cap DOMAIN t2 : t[p].kind = t2[p].kind
TreeWellFormed == WellFormed(tree)
KindNeverFlips == [][KindStable(tree, tree')]_vars
LastIs(kind) == last'.op.ev = kind /\ hist' # hist
NonRecursiveDeleteOfNonEmptyFails ==
  [][(LastIs("delete") /\ ~last'.op.rec /\ IsDir(tree, last'.op.p) /\ Under(tree, last'.op.p) # {last'.op.p})
       => (last'.res = "err" /\ tree' = tree /\ links' = links)]_vars
RecursiveDeleteRemovesSubtree ==
  [][(LastIs("delete") /\ last'.res = "ok")
       => (/\ Under(tree', last'.op.p) = {}
           /\ \A q \in DOMAIN tree \ Under(tree, last'.op.p) : q \in DOMAIN tree' /\ tree'[q] = tree[q]
           /\ DOMAIN tree' \subseteq DOMAIN tree)]_vars
RenameMovesSubtree ==
  [][(LastIs("rename") /\ last'.res = "ok" /\ last'.op.o # last'.op.n /\ last'.op.o \in DOMAIN tree)
       => LET o == last'.op.o
              n == last'.op.n
              S == Under(tree, o)
              img(q) == n \o Suffix(q, Len(o))
          IN /\ Under(tree', o) = {}                                        \* nothing stays behind
             /\ Under(tree', n) = {img(q) : q \in S}                        \* nothing lost, nothing extra
             /\ \A q \in S : tree'[img(q)] = tree[q]                        \* every entry arrives unchanged
             /\ \A q \in DOMAIN tree \ (S \cup {n}) : q \in DOMAIN tree' /\ tree'[q] = tree[q]
             /\ DOMAIN tree' \subseteq (DOMAIN tree \ S) \cup {img(q) : q \in S} \cup Ancestors(n)
             /\ Cardinality(Files(tree')) = Cardinality(Files(tree)) - (IF IsFile(tree, n) THEN 1 ELSE 0)]_vars
RenameIntoOwnSubtreeRefused ==
  [][(LastIs("rename") /\ last'.op.o \in DOMAIN tree /\ last'.op.o # last'.op.n /\ IsPrefix(last'.op.o, last'.op.n))
       => (last'.res = "err" /\ tree' = tree /\ links' = links)]_vars
(* C20 *)
GcSafe == (gc \ taint) \cap Ref(tree, links) = {}
GcComplete == (due \ taint) \subseteq gc
(* C21 *)
LinkCounterIsNames == \A L \in DOMAIN links : links[L].cnt = Cardinality(Names(tree, L))
RecordIffNames == /\ \A L \in DOMAIN links : Names(tree, L) # {}
                  /\ \A p \in DOMAIN tree : tree[p].link # 0 => tree[p].link \in DOMAIN links
NamesShowSame == \A p, q \in Files(tree) :
                   (tree[p].link # 0 /\ tree[p].link = tree[q].link)
                   => (ChunksOf(tree, links, p) = ChunksOf(tree, links, q) /\ AttrOf(tree, links, p) = AttrOf(tree, links, q))
WriteReachesAllNames ==
  [][(LastIs("write") /\ last'.res = "ok" /\ IsFile(tree, last'.op.p))
       => \A q \in Ident(tree, last'.op.p) :
            ChunksOf(tree', links', q) = last'.op.chunks /\ AttrOf(tree', links', q) = last'.op.attr]_vars

(* ---------------- generators ---------------- *)
Emit == Len(hist) < MaxOps \/ PrintT(<<"W", ToJson(hist)>>)
View == <<tree, links, gc, last>>
ViewMC == <<tree, links, gc, due, last>>
ViewS == <<tree, links, gc, due>>
EmitW == hist = <<>> \/ PrintT(<<"W", ToJson(hist)>>)
=============================================================================
