---------------------------- MODULE ChunkOverlay ----------------------------
(* C17 - the content of a file is the last-writer-wins overlay of its chunks
   (weed/filer/filechunks.go, reader_at.go, filechunk_manifest.go, stream.go).

   The file is described by `top`, the top-level chunk list: a sequence of
   entries [id, off, size, mtime, m, sub].  m = FALSE: a data chunk holding the
   bytes data[id] for the file range [off, off+size).  m = TRUE: a manifest chunk;
   sub is the entry list stored in it (entries of sub may be manifests again).
   Only the data chunks reachable through manifests count (Flat); a manifest's
   own off/size/mtime mean nothing for the content.

   Allowed(S, i) = the values byte i of the file may have:
     - some chunk of S covers i : the byte of a covering chunk with maximal mtime
                                  (equal mtimes: the statement does not rank them,
                                  every tied chunk is admitted);
     - no chunk covers i        : 0 (a hole).
   The file size fsize is at least the end of the last chunk; bytes at or
   beyond fsize do not exist.

   Compact, Manifestize (any batch) and Nest replace the chunk list by another
   one with the same content (ContentPreserved). *)
EXTENDS Integers, Sequences, FiniteSets, TLC, Json
CONSTANTS Offs, Sizes, Mtimes,   \* generator universe
          MaxChunks,             \* generator: number of data chunks
          Canon,                 \* generator: TRUE = only lists in ascending (off, size, mtime) order
          MaxOps                 \* generator: reorganisation steps after the chunks
VARIABLES top, data, fsize, hist,
          rd,    \* the sequential reader (ChunkStreamReader): [on, S = the chunks it was opened over, pos, lost]
          old    \* an earlier chunk list of the file (what MinusChunks compares the current one with)
vars == <<top, data, fsize, hist, rd, old>>
aux == <<rd, old>>

RECURSIVE Flat(_)
Flat(es) ==
  IF es = <<>> THEN {}
  ELSE LET e == Head(es) IN
       (IF e.m THEN Flat(e.sub) ELSE {[id |-> e.id, off |-> e.off, size |-> e.size, mtime |-> e.mtime]})
       \cup Flat(Tail(es))

Max(S) == CHOOSE x \in S : \A y \in S : y <= x
MaxEnd(S) == IF S = {} THEN 0 ELSE Max({c.off + c.size : c \in S})
Covers(c, i) == c.off <= i /\ i < c.off + c.size
Covering(S, i) == {c \in S : Covers(c, i)}
Newest(S, i) == LET C == Covering(S, i) IN {c \in C : \A d \in C : d.mtime <= c.mtime}
ByteOf(c, i) == data[c.id][i - c.off + 1]
Allowed(S, i) == IF Covering(S, i) = {} THEN {0} ELSE {ByteOf(c, i) : c \in Newest(S, i)}

(* T has the content of S (where S leaves a choice between tied chunks, T may have decided) *)
ContentPreserved(S, T) ==
  /\ MaxEnd(T) = MaxEnd(S)
  /\ \A i \in 0..(MaxEnd(S) - 1) : Allowed(T, i) \subseteq Allowed(S, i)
ContentEqual(S, T) ==
  /\ MaxEnd(T) = MaxEnd(S)
  /\ \A i \in 0..(MaxEnd(S) - 1) : Allowed(T, i) = Allowed(S, i)

(* ---------------- observations ---------------- *)
(* a chunk view list for the window [off, off+size) (size < 0: to the end of the file).
   Every view [id, coff, size, lo] says: file bytes lo .. lo+size-1 are bytes
   coff .. of chunk id.  Views are consumed in order (streaming), so they ascend. *)
InWindow(i, off, size) == off <= i /\ (size < 0 \/ i < off + size)
ViewOk(S, off, size, views) ==
  /\ \A k \in 1..Len(views) :
        LET v == views[k] IN
        /\ v.size > 0
        /\ \A i \in v.lo..(v.lo + v.size - 1) :
              /\ InWindow(i, off, size)
              /\ \E c \in Newest(S, i) : c.id = v.id /\ v.coff + (i - v.lo) = i - c.off
  /\ \A k \in 1..(Len(views) - 1) : views[k].lo + views[k].size <= views[k + 1].lo
  /\ \A i \in 0..(MaxEnd(S) - 1) :
        (InWindow(i, off, size) /\ Covering(S, i) # {})
        => \E k \in 1..Len(views) : views[k].lo <= i /\ i < views[k].lo + views[k].size

(* ReadAt(p, off) with len(p) = n on a file of size fsize: the bytes below the file
   size are returned (nret counts at least them) and each has an allowed value.
   err is "" or "EOF"; any other error means the read did not deliver the data.
   What lies in the buffer beyond the file size is not constrained. *)
Avail(off, n) == IF off >= fsize THEN 0 ELSE IF fsize - off < n THEN fsize - off ELSE n
ReadOk(S, off, n, got, nret, err) ==
  /\ err \in {"", "EOF"}
  /\ Avail(off, n) <= nret /\ nret <= n
  /\ Len(got) = n
  /\ \A j \in 1..Avail(off, n) : got[j] \in Allowed(S, off + j - 1)

(* a sequential stream of the window [off, off+size): exactly the bytes of the
   window below the end of the last chunk, holes as zeros *)
StreamLen(S, off, size) ==
  LET stop == IF size < 0 \/ off + size > MaxEnd(S) THEN MaxEnd(S) ELSE off + size
  IN IF stop > off THEN stop - off ELSE 0
StreamOk(S, off, size, got) ==
  /\ Len(got) = StreamLen(S, off, size)
  /\ \A j \in 1..Len(got) : got[j] \in Allowed(S, off + j - 1)

(* KNOWN FINDING C17-stream-skips-holes: StreamContent writes the bytes of the chunk
   views one after the other and nothing for the holes between / after them, so a
   window that contains a hole yields a shorter stream with the later bytes shifted *)
RECURSIVE CoveredFrom(_, _, _)
CoveredFrom(S, i, stop) ==
  IF i >= stop THEN <<>>
  ELSE (IF Covering(S, i) # {} THEN <<i>> ELSE <<>>) \o CoveredFrom(S, i + 1, stop)
StreamSkipsHoles(S, off, size, got) ==
  LET P == CoveredFrom(S, off, off + StreamLen(S, off, size)) IN
  /\ Len(P) < StreamLen(S, off, size)            \* only when the window has a hole
  /\ Len(got) = Len(P)
  /\ \A j \in 1..Len(P) : got[j] \in Allowed(S, P[j])
(* the same finding in ChunkStreamReader.Read: when the n bytes from the position on contain
   a hole, the reader hands out the next n COVERED bytes instead (fewer + "EOF" when the
   chunks run out) and its position is then behind the last byte it handed out *)
SReadSkipsHoles(S, pos, n, got, nret, err) ==
  LET end == MaxEnd(S)
      P == CoveredFrom(S, pos, end)
      k == IF n < Len(P) THEN n ELSE Len(P) IN
  /\ (\E i \in pos..((IF pos + n < end THEN pos + n ELSE end) - 1) : Covering(S, i) = {}) = TRUE
  /\ nret = k /\ Len(got) = k
  /\ \A j \in 1..k : got[j] \in Allowed(S, P[j])
  /\ err \in {"", "EOF"} /\ (err = "EOF" => k = Len(P)) /\ ((n > 0 /\ k = 0) => err = "EOF")
SReadSkipsHolesPos(S, pos, n) ==
  LET P == CoveredFrom(S, pos, MaxEnd(S))
      k == IF n < Len(P) THEN n ELSE Len(P) IN
  IF k > 0 THEN P[k] + 1 ELSE pos

(* ---------------- actions ---------------- *)
NoReader == [on |-> FALSE, S |-> {}, pos |-> 0, lost |-> FALSE]
Init == top = <<>> /\ data = <<>> /\ fsize = 0 /\ hist = <<>> /\ rd = NoReader /\ old = <<>>

View(off, size, views) == ViewOk(Flat(top), off, size, views) /\ UNCHANGED <<top, data, fsize, aux>>
ReadAt(off, n, got, nret, err) == ReadOk(Flat(top), off, n, got, nret, err) /\ UNCHANGED <<top, data, fsize, aux>>
Stream(off, size, got) == StreamOk(Flat(top), off, size, got) /\ UNCHANGED <<top, data, fsize, aux>>
StreamDev(off, size, got) == StreamSkipsHoles(Flat(top), off, size, got) /\ UNCHANGED <<top, data, fsize, aux>>

(* ---------------- the sequential reader (io.ReadSeeker over a chunk list) ----------------
   It is opened over the chunk list of that moment (S) at position 0 and knows no file
   size: the stream ends at the end of the last chunk.  Read(p), len(p) = n, hands out
   nret <= n bytes from the position on, each with an allowed value (holes: zeros), and
   moves the position; "EOF" only once the end is reached, and a read that hands out
   nothing although n > 0 must say "EOF" (which it may only at / behind the end).  A
   short read without "EOF" is admitted (io.Reader).  Seek(off, whence) moves the
   position to off counted from the start / the position / the end of the last chunk
   and returns it.  Targets behind the end: the statement does not say whether that is
   an error; if the reader reports one, nothing is known about its position afterwards
   (lost) until the next absolute Seek.  Negative targets are not part of the statement
   (whatever the reader answers, its position is unknown afterwards). *)
Min2(a, b) == IF a < b THEN a ELSE b
SOpen == rd' = [on |-> TRUE, S |-> Flat(top), pos |-> 0, lost |-> FALSE] /\ UNCHANGED <<top, data, fsize, old>>
SeekTarget(off, whence) == CASE whence = 0 -> off [] whence = 1 -> rd.pos + off [] OTHER -> MaxEnd(rd.S) + off
SSeek(off, whence, res, err) ==
  /\ rd.on /\ whence \in 0..2
  /\ IF rd.lost /\ whence = 1 THEN rd' = rd
     ELSE LET t == SeekTarget(off, whence) IN
          \/ t < 0 /\ rd' = [rd EXCEPT !.lost = TRUE]
          \/ t >= 0 /\ err = "" /\ res = t /\ rd' = [rd EXCEPT !.pos = t, !.lost = FALSE]
          \/ t > MaxEnd(rd.S) /\ err # "" /\ rd' = [rd EXCEPT !.lost = TRUE]
  /\ UNCHANGED <<top, data, fsize, old>>
SRead(n, got, nret, err) ==
  /\ rd.on /\ Len(got) = nret /\ 0 <= nret /\ nret <= n
  /\ IF rd.lost THEN rd' = rd
     ELSE LET end == MaxEnd(rd.S) IN
          /\ nret = 0 \/ rd.pos + nret <= end
          /\ \A j \in 1..nret : got[j] \in Allowed(rd.S, rd.pos + j - 1)
          /\ err \in {"", "EOF"}
          /\ (err = "EOF") => rd.pos + nret >= end
          /\ (n > 0 /\ nret = 0) => err = "EOF"
          /\ rd' = [rd EXCEPT !.pos = @ + nret]
  /\ UNCHANGED <<top, data, fsize, old>>

(* compaction of the data chunks of the top level: kept and garbage partition
   them, the manifests stay, the content is the same *)
TopData == {k \in 1..Len(top) : ~top[k].m}
IdsOf(ks) == {top[k].id : k \in ks}
SelectIdx(s, keep) ==
  LET F[k \in 0..Len(s)] == IF k = 0 THEN <<>> ELSE IF k \in keep THEN Append(F[k - 1], s[k]) ELSE F[k - 1]
  IN F[Len(s)]
Compact(kept, garbage) ==
  /\ kept \cup garbage = IdsOf(TopData) /\ kept \cap garbage = {}
  /\ LET keep == {k \in 1..Len(top) : top[k].m \/ top[k].id \in kept}
         new == SelectIdx(top, keep)
     IN ContentPreserved(Flat(top), Flat(new)) /\ top' = new
  /\ UNCHANGED <<data, fsize, aux>>
(* any reorganisation into manifests: the new list has the same content *)
Reorganize(new) ==
  /\ ContentPreserved(Flat(top), Flat(new))
  /\ top' = new /\ UNCHANGED <<data, fsize, aux>>
(* more chunks are written: cs are data entries, ds their bytes (ids continue the numbering) *)
Append_(cs, ds, fs) ==
  /\ \A k \in 1..Len(cs) : ~cs[k].m /\ cs[k].id = Len(data) + k /\ Len(ds[k]) = cs[k].size
  /\ top' = top \o cs /\ data' = data \o ds
  /\ fs >= MaxEnd(Flat(top \o cs)) /\ fs >= fsize /\ fsize' = fs
  /\ UNCHANGED aux

SReadDev(n, got, nret, err) ==
  /\ rd.on /\ ~rd.lost
  /\ SReadSkipsHoles(rd.S, rd.pos, n, got, nret, err)
  /\ rd' = [rd EXCEPT !.pos = SReadSkipsHolesPos(rd.S, rd.pos, n)]
  /\ UNCHANGED <<top, data, fsize, old>>

(* ---------------- the length of the content, and which chunks a newer list no longer needs ----------------
   TotalSize(chunks) is the end of the last byte any data chunk covers; FileSize(entry) is
   that or the recorded size attribute, whichever is larger (the attribute records
   trailing holes).  MinusChunks(as, bs): the chunks of as - data chunks and manifest chunks,
   through every level of manifests - that bs does not contain (by id): what may be
   deleted when bs replaces as.  Each such chunk once. *)
SeqRange(s) == {s[k] : k \in 1..Len(s)}
RECURSIVE AllIds(_)
AllIds(es) ==
  IF es = <<>> THEN {}
  ELSE LET e == Head(es) IN ({e.id} \cup (IF e.m THEN AllIds(e.sub) ELSE {})) \cup AllIds(Tail(es))
MinusOf(A, B) == AllIds(A) \ AllIds(B)
TotalSize_(res) == res = MaxEnd(Flat(top)) /\ UNCHANGED <<top, data, fsize, aux>>
FileSize_(attr, res) ==
  /\ res = (IF attr > MaxEnd(Flat(top)) THEN attr ELSE MaxEnd(Flat(top)))
  /\ UNCHANGED <<top, data, fsize, aux>>
Snap == old' = top /\ UNCHANGED <<top, data, fsize, rd>>
Minus(dir, res) ==
  /\ LET A == IF dir = 0 THEN old ELSE top
         B == IF dir = 0 THEN top ELSE old IN
     SeqRange(res) = MinusOf(A, B) /\ Len(res) = Cardinality(MinusOf(A, B))
  /\ UNCHANGED <<top, data, fsize, aux>>

(* ---------------- generator / design level ---------------- *)
(* a chunk strictly older than what covers each of its bytes is invisible *)
Invisible(S) == {c \in S : \A i \in c.off..(c.off + c.size - 1) : \E d \in S : Covers(d, i) /\ d.mtime > c.mtime}
Entry(id, o, s, t) == [id |-> id, off |-> o, size |-> s, mtime |-> t, m |-> FALSE, sub |-> <<>>]
Pack(es, id) == [id |-> id, off |-> 0, size |-> 0, mtime |-> 0, m |-> TRUE, sub |-> es]
(* what MaybeManifestize does with batch b: every b consecutive data chunks become one manifest *)
RECURSIVE Batches(_, _, _)
Batches(ds, b, id) ==
  IF Len(ds) < b THEN ds
  ELSE <<Pack(SubSeq(ds, 1, b), id)>> \o Batches(SubSeq(ds, b + 1, Len(ds)), b, id + 1)
Log(op) == hist' = Append(hist, op)
Key(e) == e.off * 10000 + e.size * 100 + e.mtime
NChunks == Len(data)
NReorg == Len(SelectSeq(hist, LAMBDA h : h.ev # "add"))
GenNext ==
  \/ /\ NChunks < MaxChunks /\ NReorg = 0
     /\ \E o \in Offs, s \in Sizes, t \in Mtimes :
          LET id == NChunks + 1
              e == Entry(id, o, s, t) IN
          /\ (Canon /\ top # <<>>) => Key(top[Len(top)]) <= Key(e)
          /\ top' = Append(top, e)
          /\ data' = Append(data, [j \in 1..s |-> 16 * id + j])
          /\ fsize' = MaxEnd(Flat(top'))
          /\ Log([ev |-> "add", c |-> e])
          /\ UNCHANGED aux
  \/ /\ NChunks > 0 /\ NReorg < MaxOps
     /\ \/ /\ LET inv == {c.id : c \in Invisible(Flat(SelectIdx(top, TopData)))}
                  keep == {k \in 1..Len(top) : top[k].m \/ top[k].id \notin inv}
              IN top' = SelectIdx(top, keep)
           /\ Log([ev |-> "compact"])
        \/ \E b \in 2..3 :
             /\ top' = SelectIdx(top, {k \in 1..Len(top) : top[k].m})
                       \o Batches(SelectIdx(top, TopData), b, 100 + 10 * NReorg)
             /\ Log([ev |-> "manifestize", batch |-> b])
        \/ /\ top' = <<Pack(top, 200 + NReorg)>>
           /\ Log([ev |-> "nest"])
     /\ old' = top
     /\ UNCHANGED <<data, fsize, rd>>
Spec == Init /\ [][GenNext]_vars

(* design-level statements, model-checked *)
TypeOK == fsize = MaxEnd(Flat(top)) /\ \A c \in Flat(top) : Len(data[c.id]) = c.size
(* dropping every invisible chunk leaves exactly the same content *)
DropInvisible == LET S == Flat(top) IN ContentEqual(S, S \ Invisible(S))
(* a hole reads as zero, a covered byte never reads as a hole (generated bytes are non-zero) *)
HolesAreZero == \A i \in 0..(fsize - 1) : (0 \in Allowed(Flat(top), i)) <=> Covering(Flat(top), i) = {}
(* with pairwise distinct mtimes the content is a function *)
Deterministic ==
  (\A c, d \in Flat(top) : c # d => c.mtime # d.mtime)
  => \A i \in 0..(fsize - 1) : Cardinality(Allowed(Flat(top), i)) = 1
(* every reorganisation step of the generator keeps content and chunk set *)
ReorgPreserves ==
  [][(hist' # hist /\ hist'[Len(hist')].ev # "add")
     => /\ ContentEqual(Flat(top), Flat(top'))
        /\ (hist'[Len(hist')].ev # "compact" => Flat(top') = Flat(top))]_vars

(* what MinusChunks reports when a reorganised list replaces the one before: never a chunk the
   new list still refers to, and every chunk of the old list is either still referred to or
   reported (nothing leaks); the data chunks compaction dropped are exactly the reported data chunks *)
MinusSafe == MinusOf(old, top) \cap AllIds(top) = {}
MinusComplete == AllIds(old) \subseteq (MinusOf(old, top) \cup AllIds(top))
MinusKeepsContent ==
  LET gone == MinusOf(old, top) IN
  old # <<>> => ContentEqual(Flat(old), {c \in Flat(old) : c.id \notin gone} \cup (Flat(top) \ Flat(old)))

Emit == (NChunks = 0) \/ PrintT(<<"W", ToJson(hist)>>)
=============================================================================
