SPECIFICATION Spec
INVARIANT HolderViewOK
CHECK_DEADLOCK FALSE
