---------------------------- MODULE BlobLinTrace ----------------------------
(* C38 - concurrent volume operations are linearizable per file id.

   The driver logs  call{p, op, k, c, d, m}  before an operation is sent and
   ret{p, ...observed result}  after its response arrived, ordered by one
   mutex.  Between the two the specification takes a silent step Lin(p) that
   applies the operation atomically to the layer-A state (BlobStore.tla) and
   remembers what it must return; TLC searches for an assignment of
   linearization points that explains every return value and the final
   sequential reads.  No deviation is admitted here: the driver avoids empty
   payloads and metadata changes (the listed C01 findings). *)
EXTENDS BlobStore, TraceKit
VARIABLES live, pend
vars == <<live, pend>>
tvars == <<vars, kitvars>>
AllKeys == 1..6
Idle == [st |-> "idle"]

TraceInit == live = [k \in AllKeys |-> None] /\ pend = <<>> /\ KitInit
TraceReset == IsReset /\ live' = [k \in AllKeys |-> None] /\ pend' = [p \in 1..Ev.procs |-> Idle]
TraceSkip == SkipStep /\ UNCHANGED vars

(* A "burst" is a compact record of one process writing ds[1], reading, writing ds[2], reading, ... on a key that
   no other process touches meanwhile (exclusive use is a precondition of the two call actions, so a script that
   breaks it is not explained). With exclusive use linearizability leaves no choice: the i-th read returns ds[i]. *)
Busy(k, p) == \E q \in DOMAIN pend : q # p /\ pend[q].st # "idle" /\ pend[q].k = k
Excl == {"burst", "delrace"}
BurstOn(k, p) == \E q \in DOMAIN pend : q # p /\ pend[q].st # "idle" /\ pend[q].k = k /\ pend[q].op \in Excl
TCall ==
  /\ IsEvent("call") /\ Strict
  /\ pend[Ev.p].st = "idle"
  /\ IF Ev.op \in Excl THEN ~Busy(Ev.k, Ev.p) /\ Len(Ev.ds) > 0 ELSE ~BurstOn(Ev.k, Ev.p)
  /\ pend' = [pend EXCEPT ![Ev.p] = [st |-> "called", op |-> Ev.op, k |-> Ev.k, c |-> Ev.c, d |-> Ev.d, m |-> Ev.m,
                                      ds |-> IF Ev.op \in Excl THEN Ev.ds ELSE <<>>]]
  /\ UNCHANGED live

(* silent: the operation of process p takes effect *)
Lin(p) ==
  /\ l <= N /\ ok /\ pend[p].st = "called"
  /\ UNCHANGED kitvars
  /\ LET o == pend[p] IN
     \/ /\ o.op = "write"
        /\ \E res \in {"ok", "err"} :
             /\ WriteStrict(live, FALSE, o.k, o.c, o.d, o.m, res, live')
             /\ pend' = [pend EXCEPT ![p] = [st |-> "done", op |-> "write", k |-> o.k, res |-> res]]
     \/ /\ o.op = "delete"
        /\ \E res \in {"ok", "notfound", "err"} :
             /\ DeleteStrict(live, o.k, o.c, res, live')
             /\ pend' = [pend EXCEPT ![p] = [st |-> "done", op |-> "delete", k |-> o.k, res |-> res]]
     \/ /\ o.op = "sdelete"    \* Store-level delete: reports whether it removed something
        /\ \/ /\ live[o.k] # None /\ live' = [live EXCEPT ![o.k] = None]
              /\ pend' = [pend EXCEPT ![p] = [st |-> "done", op |-> "delete", k |-> o.k, res |-> "removed"]]
           \/ /\ live[o.k] = None /\ live' = live
              /\ pend' = [pend EXCEPT ![p] = [st |-> "done", op |-> "delete", k |-> o.k, res |-> "noop"]]
           \/ /\ live' = live
              /\ pend' = [pend EXCEPT ![p] = [st |-> "done", op |-> "delete", k |-> o.k, res |-> "err"]]
     \/ /\ o.op = "read"
        /\ pend' = [pend EXCEPT ![p] = [st |-> "done", op |-> "read", k |-> o.k, c |-> o.c, snap |-> live]]
        /\ UNCHANGED live
     \/ /\ o.op = "burst"
        /\ WriteStrict(live, FALSE, o.k, o.c, o.ds[Len(o.ds)], o.m, "ok", live')
        /\ pend' = [pend EXCEPT ![p] = [st |-> "done", op |-> "burst", k |-> o.k, ds |-> o.ds]]
     \* "delrace": for each ds[i] the process writes ds[i] to its key and then lets several Store-level deletes of
     \* that key run at the same time (no one else uses the key): they linearize in some order, so exactly ONE of
     \* them finds the blob and reports that it removed it; obs[i] = how many reported a removal
     \/ /\ o.op = "delrace"
        /\ live' = [live EXCEPT ![o.k] = None]
        /\ pend' = [pend EXCEPT ![p] = [st |-> "done", op |-> "delrace", k |-> o.k, ds |-> o.ds]]

TRet ==
  /\ IsEvent("ret") /\ Strict
  /\ pend[Ev.p].st = "done"
  /\ LET o == pend[Ev.p] IN
       IF o.op = "read" THEN ReadObsStrict(o.snap, o.k, o.c, Ev)
       ELSE IF o.op = "burst" THEN Ev.res = "ok" /\ Ev.obs = o.ds
       ELSE IF o.op = "delrace" THEN Ev.res = "ok" /\ Len(Ev.obs) = Len(o.ds) /\ \A i \in 1..Len(Ev.obs) : Ev.obs[i] = 1
       ELSE Ev.res = o.res
  /\ pend' = [pend EXCEPT ![Ev.p] = Idle]
  /\ UNCHANGED live

TraceNext == TraceReset \/ TraceSkip \/ TCall \/ TRet \/ (\E p \in DOMAIN pend : Lin(p))
TraceSpec == TraceInit /\ [][TraceNext]_tvars
=============================================================================
