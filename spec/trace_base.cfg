SPECIFICATION TraceSpec
CONSTRAINT AccLog
CONSTRAINT HW
POSTCONDITION Done
CHECK_DEADLOCK FALSE
