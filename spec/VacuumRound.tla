---------------------------- MODULE VacuumRound ----------------------------
(* C14 - layer A: what a master vacuum round may do to the replicas of a volume.

   Observables (what the scripted volume servers and the volume layout show):
     Call(v, r, op)       the RPC op in {check, compact, commit, cleanup} for volume v
                          arrives at replica r
     Ret(v, r, op, out)   replica r answers: check hi|lo|err, compact ok|err,
                          commit ok|ro|err, cleanup ok|err, any op "hung" (given up)
     Pre(w) / Post(w, done)  the layout's writable list before / after the round;
                          done = Topology.Vacuum has returned
     NextRound            Topology.Vacuum is called again on the same topology

   The statement forbids exactly three things:
   (1) a commit arriving at a replica that does not hold a COMPLETED compaction of its
       current content (shadow = "good"): never compacted, compaction failed / still
       running / timed out, already cleaned up, or already committed;
   (2) replicas ending with different LIVE content.  The ghost `live` follows the
       volume server's semantics (commit swaps in the shadow copy): committing a good
       shadow keeps the live content, committing anything else damages it.  Committing
       on a SUBSET of the replicas whose compaction succeeded changes physical layout
       only, not live content, and is admitted.  (2) is therefore implied by (1): that
       implication is what TLC checks on this module (LiveAgree; and with
       Guarded = FALSE it fails);
   (3) after a finished round a volume is writable iff it was writable before.  Both
       answers are admitted when a replica reported read-only at commit, and when the
       volume was at/above the size limit before and a commit succeeded (the vacuum
       changed the very size that made it unwritable).  Nothing is required while the
       round has not returned.
   Everything else (which replicas are compacted, order, repeated checks, cleanup at any
   time, writability DURING the round) is admitted.

   Named deviations (guarded in the trace specification by the known-findings set):
     C14-unwritable-after-failed-round   compaction was started, did not succeed everywhere
          (error or timeout), the round cleaned up (no commit) - and the volume, writable before,
          stays out of the writable list for good (S19; repaired by a fix: commit);
     C14-unwritable-after-failed-commit  a commit answered with an error and the volume,
          writable before, stays out of the writable list for good. *)
EXTENDS Integers, Sequences, FiniteSets, TLC, Json
CONSTANTS MaxN,      \* replicas are 1..MaxN
          Vols,      \* the volume ids of the layout
          Guarded    \* TRUE: rule (1) is part of Call (the specification proper)
VARIABLES shadow,    \* [Vols -> [Reps -> {"none", "partial", "good"}]]  the .cpd/.cpx copy
          live,      \* [Vols -> [Reps -> {"C", "damaged"}]]             ghost live content
          open,      \* set of <<v, r, op>>: calls not yet answered
          wBefore,   \* [Vols -> BOOLEAN]   writable before the round
          bigVols,   \* volumes reported at/above the size limit before the round
          roSeen,    \* [Vols -> BOOLEAN]   a commit answered "read-only"
          shrunk,    \* [Vols -> BOOLEAN]   a commit succeeded (the volume's size changed)
          cFailed,   \* [Vols -> BOOLEAN]   a commit answered with an error
          compactedV,\* [Vols -> BOOLEAN]   a compaction was started on some replica
          commitV,   \* [Vols -> BOOLEAN]   a commit was started on some replica
          cleanedV,  \* [Vols -> BOOLEAN]   a cleanup was started on some replica
          phase      \* "new" (before pre), "run", "over"
avars == <<shadow, live, open, wBefore, bigVols, roSeen, shrunk, cFailed, compactedV, commitV, cleanedV, phase>>

Reps == 1..MaxN
Ops == {"check", "compact", "commit", "cleanup"}
Outs(op) == CASE op = "check" -> {"hi", "lo", "err", "hung"}
              [] op = "compact" -> {"ok", "err", "hung"}
              [] op = "commit" -> {"ok", "ro", "err", "hung"}
              [] op = "cleanup" -> {"ok", "err", "hung"}
Const(S, x) == [v \in S |-> x]

AInit == /\ shadow = Const(Vols, Const(Reps, "none"))
         /\ live = Const(Vols, Const(Reps, "C"))
         /\ open = {}
         /\ wBefore = Const(Vols, FALSE)
         /\ bigVols = {}
         /\ roSeen = Const(Vols, FALSE)
         /\ shrunk = Const(Vols, FALSE)
         /\ cFailed = Const(Vols, FALSE)
         /\ compactedV = Const(Vols, FALSE)
         /\ commitV = Const(Vols, FALSE)
         /\ cleanedV = Const(Vols, FALSE)
         /\ phase = "new"

(* rule (1) *)
CallGuard(v, r, op) == op = "commit" => shadow[v][r] = "good"

CallEffect(v, r, op) ==
  /\ open' = open \cup {<<v, r, op>>}
  /\ shadow' = [shadow EXCEPT ![v][r] = CASE op = "compact" -> "partial"
                                          [] op \in {"commit", "cleanup"} -> "none"
                                          [] OTHER -> @]
  /\ live' = [live EXCEPT ![v][r] = IF op = "commit" /\ shadow[v][r] # "good" THEN "damaged" ELSE @]
  /\ compactedV' = [compactedV EXCEPT ![v] = @ \/ op = "compact"]
  /\ commitV' = [commitV EXCEPT ![v] = @ \/ op = "commit"]
  /\ cleanedV' = [cleanedV EXCEPT ![v] = @ \/ op = "cleanup"]
  /\ UNCHANGED <<wBefore, bigVols, roSeen, shrunk, cFailed, phase>>

Call(v, r, op) == (Guarded => CallGuard(v, r, op)) /\ CallEffect(v, r, op)

RetEffect(v, r, op, out) ==
  /\ open' = open \ {<<v, r, op>>}
  /\ shadow' = [shadow EXCEPT ![v][r] = IF op = "compact" /\ out = "ok" /\ @ = "partial" THEN "good" ELSE @]
  /\ roSeen' = [roSeen EXCEPT ![v] = @ \/ (op = "commit" /\ out = "ro")]
  /\ shrunk' = [shrunk EXCEPT ![v] = @ \/ (op = "commit" /\ out \in {"ok", "ro"})]
  /\ cFailed' = [cFailed EXCEPT ![v] = @ \/ (op = "commit" /\ out \in {"err", "hung"})]
  /\ UNCHANGED <<live, wBefore, bigVols, compactedV, commitV, cleanedV, phase>>

Ret(v, r, op, out) == <<v, r, op>> \in open /\ out \in Outs(op) /\ RetEffect(v, r, op, out)

Pre(w, bigs) == /\ phase = "new"
                /\ phase' = "run"
                /\ wBefore' = [v \in Vols |-> v \in w]
                /\ bigVols' = bigs
                /\ UNCHANGED <<shadow, live, open, roSeen, shrunk, cFailed, compactedV, commitV, cleanedV>>

LiveAgree == \A v \in Vols : \A r1, r2 \in Reps : live[v][r1] = live[v][r2]

(* rule (3) for one volume *)
WritableOk(v, w) == \/ (v \in w) = wBefore[v]
                    \/ roSeen[v]
                    \/ (v \in bigVols /\ shrunk[v])
(* the named deviation, as narrow as the defect *)
DevFailedRound(v, w) == wBefore[v] /\ v \notin w /\ (compactedV[v] \/ cleanedV[v]) /\ ~commitV[v]
DevFailedCommit(v, w) == wBefore[v] /\ v \notin w /\ cFailed[v]
DevIds == {"C14-unwritable-after-failed-round", "C14-unwritable-after-failed-commit"}

(* D = the deviations this post-state needs *)
PostAdmits(w, done, D) ==
  /\ LiveAgree
  /\ done => \A v \in Vols : \/ WritableOk(v, w)
                             \/ ("C14-unwritable-after-failed-round" \in D /\ DevFailedRound(v, w))
                             \/ ("C14-unwritable-after-failed-commit" \in D /\ DevFailedCommit(v, w))
Post(w, done, D) == /\ phase = "run"
                    /\ PostAdmits(w, done, D)
                    /\ phase' = "over"
                    /\ UNCHANGED <<shadow, live, open, wBefore, bigVols, roSeen, shrunk, cFailed, compactedV, commitV, cleanedV>>

(* the master starts another round on the same topology: the baseline of (3) stays the state
   before the FIRST round (nothing else changes in between); what replicas answered so far
   (read-only, a successful or failed commit) stays true *)
NextRound == /\ phase = "over"
             /\ phase' = "run"
             /\ compactedV' = Const(Vols, FALSE) /\ commitV' = Const(Vols, FALSE) /\ cleanedV' = Const(Vols, FALSE)
             /\ UNCHANGED <<shadow, live, open, wBefore, bigVols, roSeen, shrunk, cFailed>>

(* ---------- model-checking view: any environment that respects rule (1) ---------- *)
ANext == \/ \E w \in SUBSET Vols, b \in SUBSET Vols : Pre(w, b)
         \/ /\ phase = "run"
            /\ \/ \E v \in Vols, r \in Reps, op \in Ops :
                    /\ \A o \in Ops : <<v, r, o>> \notin open     \* one RPC per replica at a time
                    /\ Call(v, r, op)
               \/ \E c \in open : \E out \in Outs(c[3]) : Ret(c[1], c[2], c[3], out)
         \/ \E w \in SUBSET Vols, done \in BOOLEAN : Post(w, done, {})
         \/ NextRound
ASpec == AInit /\ [][ANext]_avars

ATypeOK == /\ \A v \in Vols, r \in Reps : shadow[v][r] \in {"none", "partial", "good"} /\ live[v][r] \in {"C", "damaged"}
           /\ open \subseteq (Vols \X Reps \X Ops)
           /\ phase \in {"new", "run", "over"}
(* (1) as an action property: a commit only ever starts on a completed compaction *)
CommitOnlyOnGood == [][\A v \in Vols, r \in Reps :
                         (<<v, r, "commit">> \in open' \ open) => shadow[v][r] = "good"]_avars
(* a completed compaction is never of stale content: nothing here changes live content *)
LiveNeverChanges == [][live' = live]_avars
=============================================================================
