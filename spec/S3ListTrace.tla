---------------------------- MODULE S3ListTrace ----------------------------
(* Judge for C27: pages recorded from the real S3 gateway (harness/cmd/c27).
   reset : present (bucket content as observed: S3 HEAD per candidate key), gw ("allowempty" = the gateway shows
           empty folders)
   page  : zdirs (folders the filer holds just before the page), i (1 = first page of a loop), style, prefix, delim, maxkeys, after (what was sent as marker /
           start-after / continuation-token), status, keys, cps, trunc, next
   end   : why = "done" | "cap" | "stuck" | "error"  (only "done" after a final page is accepted) *)
EXTENDS S3ListImpl, TraceKit

TraceInit == /\ present = {} /\ dirs = {} /\ allowEmpty = FALSE /\ devs = {}
             /\ phase = "idle" /\ req = [style |-> "marker", prefix |-> <<>>, delim |-> "", maxkeys |-> 1, after |-> <<>>]
             /\ seenK = {} /\ seenP = {} /\ pageNo = 0 /\ okv = TRUE
             /\ prev = [status |-> 200, keys |-> <<>>, cps |-> <<>>, trunc |-> FALSE, next |-> <<>>]
             /\ hist = <<>>
             /\ KitInit

TraceReset == /\ IsReset
              /\ present' = ToSet(Ev.present) /\ dirs' = {} /\ allowEmpty' = (Ev.gw = "allowempty") /\ devs' = {}
              /\ phase' = "idle" /\ seenK' = {} /\ seenP' = {} /\ pageNo' = 0 /\ okv' = TRUE
              \* every variable is re-initialised: paths that skipped the previous execution merge here
              /\ req' = [style |-> "marker", prefix |-> <<>>, delim |-> "", maxkeys |-> 1, after |-> <<>>]
              /\ prev' = [status |-> 200, keys |-> <<>>, cps |-> <<>>, trunc |-> FALSE, next |-> <<>>]
              /\ hist' = <<>>
TraceSkip == SkipStep /\ UNCHANGED vars

EvReq == [style |-> Ev.style, prefix |-> Ev.prefix, delim |-> Ev.delim, maxkeys |-> Ev.maxkeys, after |-> Ev.after]
EvResp == [status |-> Ev.status, keys |-> Ev.keys, cps |-> Ev.cps, trunc |-> Ev.trunc, next |-> Ev.next]

EvDirs == ToSet(Ev.zdirs)
LoopReq == IF Ev.i = 1 THEN EvReq ELSE [EvReq EXCEPT !.after = req.after]
TPage == /\ IsEvent("page")
         /\ \/ Strict /\ IF Ev.i = 1 THEN FirstPage(EvReq, EvDirs, EvResp)
                                    ELSE NextPage(LoopReq, Ev.after, EvDirs, EvResp)
            \/ \E S \in SUBSET {KFHidden, KFMarker} :
                  DeviateAll(S) /\ DevPage(LoopReq, Ev.i = 1, Ev.after, EvDirs, EvResp, S)
         /\ UNCHANGED hist
TEnd == /\ IsEvent("end")
        /\ \/ Strict /\ Ev.why = "done" /\ EndLoop
           \/ Deviate(KFMarker) /\ Ev.why \in {"cap", "stuck"} /\ EndlessLoop
        /\ UNCHANGED hist

TraceNext == TraceReset \/ TraceSkip \/ TPage \/ TEnd
TraceSpec == TraceInit /\ [][TraceNext]_<<vars, kitvars>>
=============================================================================
