---------------------------- MODULE S3ListTrace ----------------------------
(* Judge for C27: pages recorded from the real S3 gateway (harness/cmd/c27).
   reset : present, zdirs (bucket content as observed: S3 HEAD per candidate key; folders from the filer)
   page  : i (1 = first page of a loop), style, prefix, delim, maxkeys, after (what was sent as marker /
           start-after / continuation-token), status, keys, cps, trunc, next
   end   : why = "done" | "cap" | "stuck" | "error"  (only "done" after a final page is accepted) *)
EXTENDS S3List, TraceKit

TraceInit == Init /\ KitInit

TraceReset == /\ IsReset
              /\ present' = ToSet(Ev.present) /\ dirs' = ToSet(Ev.zdirs)
              /\ phase' = "idle" /\ seenK' = {} /\ seenP' = {} /\ pageNo' = 0 /\ okv' = TRUE
              /\ UNCHANGED <<req, prev, hist>>
TraceSkip == SkipStep /\ UNCHANGED vars

EvReq == [style |-> Ev.style, prefix |-> Ev.prefix, delim |-> Ev.delim, maxkeys |-> Ev.maxkeys, after |-> Ev.after]
EvResp == [status |-> Ev.status, keys |-> Ev.keys, cps |-> Ev.cps, trunc |-> Ev.trunc, next |-> Ev.next]

TPage == /\ IsEvent("page") /\ Strict
         /\ IF Ev.i = 1 THEN FirstPage(EvReq, EvResp)
            ELSE NextPage([EvReq EXCEPT !.after = req.after], Ev.after, EvResp)
         /\ UNCHANGED hist
TEnd == IsEvent("end") /\ Strict /\ Ev.why = "done" /\ EndLoop /\ UNCHANGED hist

TraceNext == TraceReset \/ TraceSkip \/ TPage \/ TEnd
TraceSpec == TraceInit /\ [][TraceNext]_<<vars, kitvars>>
=============================================================================
