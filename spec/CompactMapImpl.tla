---------------------------- MODULE CompactMapImpl ----------------------------
(* C05 layer B - weed/storage/needle_map/compact_map.go as it is written, with the
   reference map of NeedleMapSpec as ghost state and the refinement as invariant.

   CompactMap.list   sequence of sections sorted by start
   CompactSection    start, end, values (sorted slice of at most Batch entries, `counter`
                     = its length), overflow (sorted slice)
   entry             k = uint32(key - start)  (modelled as (key - start) % Wrap),
                     lo/hi = the 4 low bytes / the 5th byte of the offset, s = size
                     (negative = deleted)
   Set decision tree update in place / append / insertion inside the look-back window /
                     overflow;  section choice by binarySearchCompactSection;  a new
                     section when there is none or key - start > Wrap - 1.
   Constants scale the code's batch = 100000, look-back = 128, 2^32 down to Batch,
   LookBack, Wrap.  Keys are small naturals here (they are their own tokens); an offset
   token o stands for the pair lo = o % 10, hi = o \div 10.

   FixS5 / FixS8 = FALSE give the code before the two repairs (overflow update keeps the
   old 5th byte; second delete of an overflow entry returns its negative size): TLC then
   finds the counterexamples.  KFB = the open deviations admitted by the refinement
   ("C05-key-alias": uint32 wrap makes Get/Delete of key + j*Wrap hit key). *)
EXTENDS NeedleMapSpec
CONSTANTS Batch, LookBack, Wrap, BKeys, KFB, FixS5, FixS8
VARIABLES list, bad
bvars == <<vars, list, bad>>

Lo(o) == o % 10
Hi(o) == o \div 10
Off(lo, hi) == hi * 10 + lo
Entry(sk, o, s) == [k |-> sk, lo |-> Lo(o), hi |-> Hi(o), s |-> s]
NewSection(start) == [start |-> start, end |-> 0, vals |-> <<>>, ovf |-> <<>>]
SKey(key, sec) == (key - sec.start) % Wrap                 \* SectionalNeedleId(key - cs.start)

(* sort.Search + equality test on a sorted slice: index of the entry with key sk, 0 if none *)
IdxIn(seq, sk) == IF \E i \in 1..Len(seq) : seq[i].k = sk THEN CHOOSE i \in 1..Len(seq) : seq[i].k = sk ELSE 0
InsertSorted(seq, e) ==
  LET p == Cardinality({i \in 1..Len(seq) : seq[i].k < e.k})
  IN SubSeq(seq, 1, p) \o <<e>> \o SubSeq(seq, p + 1, Len(seq))

(* binarySearchCompactSection: 1-based index, negative = none *)
FindSection(lst, key) ==
  LET h == Len(lst) IN
  IF h = 0 THEN -5
  ELSE IF lst[h].start <= key
       THEN (IF Len(lst[h].vals) < Batch \/ key <= lst[h].end THEN h ELSE -4)
       ELSE IF key < lst[1].start THEN -3
            ELSE CHOOSE x \in 1..(h - 1) : lst[x].start <= key /\ key < lst[x + 1].start

(* setOverflowEntry *)
OvfSet(ovf, e) ==
  LET i == IdxIn(ovf, e.k) IN
  IF i > 0 THEN [ovf EXCEPT ![i] = IF FixS5 THEN e ELSE [e EXCEPT !.hi = ovf[i].hi]]
  ELSE InsertSorted(ovf, e)

(* CompactSection.Set *)
SecSet(sec, key, o, s) ==
  LET sec1 == [sec EXCEPT !.end = Max(@, key)]
      sk == SKey(key, sec)
      n == Len(sec.vals)
      i == IdxIn(sec.vals, sk)
      e == Entry(sk, o, s)
  IN IF i > 0 THEN [sec1 EXCEPT !.vals[i] = e]
     ELSE IF ~(n >= Batch \/ (n > 0 /\ sec.vals[n].k > sk))
          THEN [sec1 EXCEPT !.vals = Append(@, e)]
          ELSE LET lb == Max(n - LookBack, 0) + 1
               IN IF n < Batch /\ sec.vals[lb].k < sk
                  THEN [sec1 EXCEPT !.vals = InsertSorted(@, e)]   \* bubble down inside the window
                  ELSE [sec1 EXCEPT !.ovf = OvfSet(@, e)]

(* CompactMap.Set *)
MapSet(lst, key, o, s) ==
  LET x == FindSection(lst, key) IN
  IF x < 0 \/ key - lst[x].start > Wrap - 1
  THEN LET p == Cardinality({i \in 1..Len(lst) : lst[i].start <= key})
       IN SubSeq(lst, 1, p) \o <<SecSet(NewSection(key), key, o, s)>> \o SubSeq(lst, p + 1, Len(lst))
  ELSE [lst EXCEPT ![x] = SecSet(lst[x], key, o, s)]

(* CompactSection.Delete / CompactMap.Delete: [lst, ret] *)
Neg(s) == IF s > 0 THEN -s ELSE s
MapDelete(lst, key) ==
  LET x == FindSection(lst, key) IN
  IF x < 0 THEN [lst |-> lst, ret |-> 0]
  ELSE LET sec == lst[x]
           sk == SKey(key, sec)
           i == IdxIn(sec.vals, sk)
           j == IdxIn(sec.ovf, sk)
           r1 == IF i > 0 /\ sec.vals[i].s > 0 THEN sec.vals[i].s ELSE 0
           r2 == IF j = 0 THEN r1
                 ELSE IF FixS8 THEN (IF sec.ovf[j].s > 0 THEN sec.ovf[j].s ELSE r1) ELSE sec.ovf[j].s
           v1 == IF i > 0 THEN [sec.vals EXCEPT ![i].s = Neg(@)] ELSE sec.vals
           o1 == IF j > 0 THEN [sec.ovf EXCEPT ![j].s = Neg(@)] ELSE sec.ovf
       IN [lst |-> [lst EXCEPT ![x] = [sec EXCEPT !.vals = v1, !.ovf = o1]], ret |-> r2]

(* CompactSection.Get / CompactMap.Get, in the shape of a recorded lookup *)
NotFound == [f |-> FALSE, o |-> -1, s |-> 0, k |-> -1]
MapGet(lst, key) ==
  LET x == FindSection(lst, key) IN
  IF x < 0 THEN NotFound
  ELSE LET sec == lst[x]
           sk == SKey(key, sec)
           i == IdxIn(sec.vals, sk)
           j == IdxIn(sec.ovf, sk)
           e == IF j > 0 THEN sec.ovf[j] ELSE sec.vals[i]
       IN IF i = 0 /\ j = 0 THEN NotFound
          ELSE [f |-> TRUE, o |-> Off(e.lo, e.hi), s |-> e.s, k |-> e.k + sec.start]

(* ---------------- behaviour: the code steps, the ghost follows layer A ---------------- *)
AllKeys == 0..(NKeys - 1)
AliasB(k) == IF "C05-key-alias" \in KFB THEN {a \in AllKeys : a < k /\ (k - a) % Wrap = 0} ELSE {}
GhostDelete(k, target) ==
  /\ m' = IF IsLive(target) THEN [m EXCEPT ![target] = Deleted] ELSE m
  /\ cnt' = CountDel(cnt, m[target])
  /\ log' = Append(log, TombEntry(k, target))
  /\ UNCHANGED env

BInit == Init /\ list = <<>> /\ bad = FALSE
BPut(k, o, s) == /\ Put(k, o, s) /\ list' = MapSet(list, k, o, s) /\ UNCHANGED bad
                 /\ Say([ev |-> "put", k |-> k, o |-> o, s |-> s])
BDelete(k) ==
  LET r == MapDelete(list, k)
      x == FindSection(list, k)
      hit == IF x < 0 THEN k ELSE list[x].start + SKey(k, list[x])     \* the key whose entry is consulted
      al == {a \in AliasB(k) : a = hit /\ m[k].st = "absent" /\ IsLive(a) /\ r.ret = m[a].s}
  IN /\ list' = r.lst
     /\ Say([ev |-> "del", k |-> k, o |-> 1])
     /\ IF r.ret = Removed(k) THEN GhostDelete(k, k) /\ UNCHANGED bad
        ELSE IF al # {} THEN GhostDelete(k, CHOOSE a \in al : TRUE) /\ UNCHANGED bad
        ELSE GhostDelete(k, k) /\ bad' = TRUE      \* a removed size layer A does not admit
BNext == /\ Len(hist) < MaxOps
         /\ \/ \E k \in BKeys, o \in Offs, s \in Sizes : BPut(k, o, s)
            \/ \E k \in BKeys : BDelete(k)
BSpec == BInit /\ [][BNext]_bvars

(* ---------------- refinement and structure ---------------- *)
DeleteResult == ~bad
Refines == \A k \in AllKeys :
             LET g == MapGet(list, k)
             IN \/ GetAs(k, g)
                \/ m[k].st = "absent" /\ \E a \in AliasB(k) : m[a].st # "absent" /\ GetAs(a, g)
Sorted(seq) == \A i \in 1..(Len(seq) - 1) : seq[i].k < seq[i + 1].k
Structure == /\ \A x \in 1..(Len(list) - 1) : list[x].start < list[x + 1].start
             /\ \A x \in 1..Len(list) :
                  LET sec == list[x] IN
                  /\ Len(sec.vals) <= Batch /\ Len(sec.vals) >= 1
                  /\ Sorted(sec.vals) /\ Sorted(sec.ovf)
                  /\ sec.vals[1].k = 0 /\ sec.start <= sec.end
                  /\ \A i \in 1..Len(sec.vals), j \in 1..Len(sec.ovf) : sec.vals[i].k # sec.ovf[j].k
                  /\ \A i \in 1..Len(sec.vals) : sec.vals[i].k \in 0..(Wrap - 1)
(* every stored entry belongs to exactly the key it was stored for: start + k is a key
   of the ghost map that is not absent *)
NoStrayEntries == \A x \in 1..Len(list) : \A i \in 1..Len(list[x].vals) :
                     LET key == list[x].start + list[x].vals[i].k IN key \in AllKeys /\ m[key].st # "absent"
BView == <<list, m, cnt, bad>>
=============================================================================
