------------------------- MODULE S3ContainmentTrace -------------------------
(* Judge for C29: one "req" event per request sent to the real (unauthenticated)
   gateway; the driver restores the namespace after every change, so requests are
   independent. D = the set of known-finding deviations needed to explain the
   observation ({} = the strict rule). *)
EXTENDS S3Containment, TraceKit
tvars == <<vars, kitvars>>
TraceInit == Init /\ KitInit
TraceReset == IsReset /\ UNCHANGED vars
TraceSkip == SkipStep /\ UNCHANGED vars
TReq == /\ IsEvent("req") /\ UNCHANGED vars
        /\ \E D \in SUBSET (DevIds \cap KF) : Judge(Ev, D) /\ used' = used \cup D
TraceNext == TraceReset \/ TraceSkip \/ TReq
TraceSpec == TraceInit /\ [][TraceNext]_tvars
=============================================================================
