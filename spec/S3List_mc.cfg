SPECIFICATION Spec
INVARIANT RefAdmitted
INVARIANT Terminates
INVARIANT Continuable
INVARIANT ExactAtEnd
INVARIANT FullPages
CHECK_DEADLOCK FALSE
