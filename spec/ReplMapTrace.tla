---------------------------- MODULE ReplMapTrace ----------------------------
(* Judge for C36: one "apply" line = one change event handed to the real code,
   with the sink calls it made (raw keys) and, for the local sink, the directory
   tree afterwards.  tree = the local sink's file tree before the event. *)
EXTENDS ReplMap, TraceKit
VARIABLE tree
tvars == <<vars, tree, kitvars>>

FilesOf(t) == LET I == {i \in 1..Len(t) : t[i].k = "f"}
              IN [p \in {t[i].p : i \in I} |-> t[CHOOSE i \in I : t[i].p = p].c]
CfgOf(r) == [mode |-> r.mode, sink |-> r.sink, sname |-> r.sname, src |-> r.src, srcslash |-> r.srcslash,
             dst |-> r.to, dstslash |-> r.toslash, incr |-> r.incr, d1 |-> r.oday, d2 |-> r.nday]

TraceInit == /\ cfg = <<>> /\ srcT = <<>> /\ dstT = <<>> /\ last = <<>> /\ hist = <<>> /\ tree = <<>>
             /\ KitInit
TraceReset == IsReset /\ cfg' = CfgOf(Ev) /\ tree' = <<>> /\ UNCHANGED <<srcT, dstT, last, hist>>
TraceSkip == SkipStep /\ UNCHANGED <<vars, tree>>

TApply == /\ IsEvent("apply") /\ Ev.err = ""
          /\ LET T2 == FilesOf(Ev.tree)
                 local == cfg.sink = "local"
             IN /\ tree' = T2
                /\ \/ /\ Strict
                      /\ Admit(cfg, Ev, Ev.calls)
                      /\ local => TreeOk(cfg, Ev, tree, T2)
                   \/ /\ Deviate("C36-sync-rename-into-dropped")
                      /\ RenameIntoDropped(cfg, Ev, Ev.calls)
                      /\ local => T2 = tree
                   \/ /\ Deviate("C36-localsink-rename-rewrites-old")
                      /\ Admit(cfg, Ev, Ev.calls)
                      /\ LocalRenameRewritesOld(cfg, Ev, tree, T2)
          /\ UNCHANGED vars
TraceNext == TraceReset \/ TraceSkip \/ TApply
TraceSpec == TraceInit /\ [][TraceNext]_tvars
=============================================================================
