---------------------------- MODULE ReplMapTrace ----------------------------
(* Judge for C36: one "apply" line = one change event handed to the real code,
   with the sink calls it made (raw keys) and, for the local sink, the directory
   tree afterwards.  tree = the local sink's file tree before the event. *)
EXTENDS ReplMap, ReplBytes, TraceKit
VARIABLE tree
tvars == <<vars, tree, kitvars>>

FilesOf(t) == LET I == {i \in 1..Len(t) : t[i].k = "f"}
              IN [p \in {t[i].p : i \in I} |-> t[CHOOSE i \in I : t[i].p = p].c]
CfgOf(r) == [mode |-> r.mode, sink |-> r.sink, sname |-> r.sname, src |-> r.src, srcslash |-> r.srcslash,
             dst |-> r.to, dstslash |-> r.toslash, incr |-> r.incr, d1 |-> r.oday, d2 |-> r.nday]

TraceInit == /\ cfg = <<>> /\ srcT = <<>> /\ dstT = <<>> /\ last = <<>> /\ hist = <<>> /\ tree = <<>>
             /\ KitInit
TraceReset == IsReset /\ cfg' = CfgOf(Ev) /\ tree' = <<>> /\ UNCHANGED <<srcT, dstT, last, hist>>
TraceSkip == SkipStep /\ UNCHANGED <<vars, tree>>

TApply == /\ IsEvent("apply") /\ Ev.err = ""
          /\ LET T2 == FilesOf(Ev.tree)
                 local == cfg.sink = "local"
             IN /\ tree' = T2
                /\ \/ /\ Strict
                      /\ Admit(cfg, Ev, Ev.calls)
                      /\ local => TreeOk(cfg, Ev, tree, T2)
                   \/ /\ Deviate("C36-sync-rename-into-dropped")
                      /\ RenameIntoDropped(cfg, Ev, Ev.calls)
                      /\ local => T2 = tree
                   \/ /\ Deviate("C36-localsink-rename-rewrites-old")
                      /\ Admit(cfg, Ev, Ev.calls)
                      /\ LocalRenameRewritesOld(cfg, Ev, tree, T2)
          /\ UNCHANGED vars
(* "capply": the same, but the entries of the event carry real chunks on a real volume server
   (Ev.nch / Ev.nsz: chunk list and size attribute of the new entry) and no inline content:
   the mirrored file must hold the bytes ReplBytes.tla gives that chunk list *)
TCApply == /\ IsEvent("capply") /\ Ev.err = "" /\ cfg.sink = "local"
           /\ LET T2 == FilesOf(Ev.tree)
                  content == IF Ev.new = <<>> THEN "" ELSE ContentOf(Ev.nch, Ev.nsz)
                  eC == [oc |-> "", nc |-> ""] @@ Ev
                  eT == [oc |-> "", nc |-> content] @@ Ev
              IN /\ tree' = T2
                 /\ \/ /\ Strict
                       /\ Admit(cfg, eC, Ev.calls)
                       /\ TreeOk(cfg, eT, tree, T2)
                    \/ /\ Deviate("C36-sync-rename-into-dropped")
                       /\ RenameIntoDropped(cfg, eC, Ev.calls)
                       /\ T2 = tree
                    \/ /\ Deviate("C36-localsink-rename-rewrites-old")
                       /\ Admit(cfg, eC, Ev.calls)
                       /\ LocalRenameRewritesOld(cfg, eT, tree, T2)
           /\ UNCHANGED vars

(* "bop": one mutation of the source through the real filer while the real filer.backup round
   runs; Ev.src = the source entries as the filer lists them afterwards, Ev.tree = the sink
   directory once everything published before the marker has been applied *)
SrcFilesOf(s) == LET I == {i \in 1..Len(s) : s[i].k = "f"}
                 IN [p \in {s[i].p : i \in I} |->
                       LET r == s[CHOOSE i \in I : s[i].p = p]
                       IN IF r.c # "" THEN r.c ELSE ContentOf(r.ch, r.sz)]
TBop == /\ IsEvent("bop") /\ ~Ev.timeout /\ cfg.mode = "backup"
        /\ LET T2 == FilesOf(Ev.tree)
           IN /\ tree' = T2
              /\ Strict
              /\ MirrorOk(cfg, SrcFilesOf(Ev.src), T2)
        /\ UNCHANGED vars

(* "pre": a mutation of the source that is not observed on its own (before the round starts) *)
TPre == IsEvent("pre") /\ Strict /\ cfg.mode = "backup" /\ UNCHANGED <<vars, tree>>

TraceNext == TraceReset \/ TraceSkip \/ TApply \/ TCApply \/ TBop \/ TPre
TraceSpec == TraceInit /\ [][TraceNext]_tvars
=============================================================================
