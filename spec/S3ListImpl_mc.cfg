SPECIFICATION ImplSpec
INVARIANT ImplOK
INVARIANT ImplLoops
CHECK_DEADLOCK FALSE
