SPECIFICATION FairSpec
PROPERTY Termination
CHECK_DEADLOCK FALSE
