---------------------------- MODULE NeedleMapTrace ----------------------------
(* Judge for C05: every line recorded by harness/cmd/c05 from the real needle maps
   must be a step of NeedleMapSpec.  Named deviations (only with their id in KF):

   C05-key-alias        compact map (kinds cm, mem): Get/Delete of a never-inserted key
                        that is a multiple of 2^32 above a stored key of the same section
                        hits that key's entry (uint32(key - start) wraps).
   C05-replay-tombstone in-memory map: index replay counts every tombstone as a deletion
                        (also one that removed nothing) and raises the max key with it.
   C05-derived-metric   LevelDB / sorted-file maps: on load the counters are recomputed from
                        the .idx with another definition (files = distinct keys by a Bloom
                        filter, deletions = all further entries), so they are not the
                        running ones. *)
EXTENDS NeedleMapSpec, TraceKit
VARIABLE rebase     \* the map kind recomputes its counters on load and has just been loaded
tvars == <<vars, kitvars, rebase>>
Range(s) == {s[i] : i \in 1..Len(s)}

TraceInit == Init /\ KitInit /\ rebase = FALSE
TraceReset ==
  /\ IsReset
  /\ m' = [k \in 0..(Len(Ev.keys) - 1) |-> Absent]
  /\ cnt' = Cnt0 /\ log' = <<>> /\ rebase' = FALSE
  /\ env' = [kind |-> Ev.kind, alias |-> Range(Ev.pairs)]
  /\ UNCHANGED hist
TraceSkip == SkipStep /\ UNCHANGED <<vars, rebase>>

Compact == env.kind \in {"cm", "mem"}
AliasOf(k) == {p[2] : p \in {q \in env.alias : q[1] = k}}
AliasGet(k, g) == /\ Compact /\ m[k].st = "absent"
                  /\ \E a \in AliasOf(k) : m[a].st # "absent" /\ GetAs(a, g)

TPut == IsEvent("put") /\ Strict /\ Ev.err = "" /\ Put(Ev.k, Ev.o, Ev.s) /\ UNCHANGED <<hist, rebase>>
TFill == IsEvent("fill") /\ Strict /\ Ev.err = "" /\ Fill(Ev.n, Ev.o, Ev.s, Range(Ev.hit), Ev.top)
         /\ UNCHANGED <<hist, rebase>>
TDel == /\ IsEvent("del") /\ Ev.err = ""
        /\ \/ Strict /\ Delete(Ev.k, Ev.res, Ev.hasres)
           \/ /\ Deviate("C05-key-alias") /\ Compact /\ m[Ev.k].st = "absent"
              /\ \E a \in AliasOf(Ev.k) : IsLive(a) /\ DeleteAs(Ev.k, a, Ev.res, Ev.hasres)
        /\ UNCHANGED <<hist, rebase>>
TGet == /\ IsEvent("get")
        /\ LET g == [f |-> Ev.found, o |-> Ev.o, s |-> Ev.s, k |-> Ev.key]
           IN \/ Strict /\ Get(Ev.k, g)
              \/ Deviate("C05-key-alias") /\ AliasGet(Ev.k, g)
        /\ UNCHANGED <<vars, rebase>>
(* snap: the driver looked up every token key after a state-changing operation *)
TSnap == /\ IsEvent("snap")
         /\ Len(Ev.got) = Cardinality(Keys)
         /\ \A k \in Keys : Get(k, Ev.got[k + 1]) \/ AliasGet(k, Ev.got[k + 1])
         /\ IF \A k \in Keys : Get(k, Ev.got[k + 1]) THEN Strict ELSE Deviate("C05-key-alias")
         /\ UNCHANGED <<vars, rebase>>

Obs == [fc |-> Ev.fc, dc |-> Ev.dc, fb |-> Ev.fb, db |-> Ev.db, maxk |-> Ev.maxk]
TCnt == /\ IsEvent("cnt")
        /\ \/ Strict /\ Obs = cnt /\ UNCHANGED vars
           \/ /\ Deviate("C05-derived-metric") /\ rebase /\ Obs # cnt
              /\ LET w == Walk(log)
                 IN /\ Obs.fb = w.fb /\ Obs.maxk = w.maxk /\ Obs.fc + Obs.dc = w.fc + w.dc
                    /\ Obs.fc <= w.fc /\ Obs.fc >= 0        \* fewer only through Bloom false positives
                    /\ IF Obs.fc = w.fc THEN Obs.db = w.db ELSE Obs.db >= w.db /\ Obs.db <= w.fb
              /\ cnt' = Obs /\ UNCHANGED <<m, log, env, hist>>
        /\ rebase' = FALSE

Loaded(kind) == kind \in {"ldb", "sorted"}
TReload == /\ IsEvent("reload") /\ Ev.err = ""
           /\ \/ Strict /\ Reload
              \/ /\ Deviate("C05-replay-tombstone") /\ env.kind = "mem"
                 /\ LET r == Replay(log, Keys) IN r.c # cnt /\ cnt' = r.c
                 /\ UNCHANGED <<m, log, env>>
           /\ rebase' = Loaded(env.kind) /\ UNCHANGED hist
(* the in-memory map's volume becomes read-only: same .idx served from a sorted file *)
(* C05-key-alias, continued: a tombstone written for an aliased delete carries the key that was
   asked for, not the key that was hit; a loader with exact lookups ignores it and the entry
   that the compact map had deleted is live again *)
Resurrected == {k \in Keys : ~IsLive(k) /\ ExactLast(log, k).st = "live"}
TFreeze == /\ IsEvent("freeze") /\ Ev.err = "" /\ env.kind = "mem"
           /\ \/ Strict /\ UNCHANGED m
              \/ /\ Deviate("C05-key-alias") /\ Resurrected # {}
                 /\ \E i \in 1..Len(log) : log[i].t = "tomb" /\ log[i].eff # log[i].k
                 /\ m' = [k \in Keys |-> IF k \in Resurrected THEN ExactLast(log, k) ELSE m[k]]
           /\ env' = [env EXCEPT !.kind = "sorted"] /\ rebase' = TRUE
           /\ UNCHANGED <<cnt, log, hist>>

TVisit == /\ IsEvent("visit") /\ Strict /\ Ev.err = "" /\ VisitOK(Ev.ents, Ev.other, Ev.asc)
          /\ UNCHANGED <<vars, rebase>>

TraceNext == TraceReset \/ TraceSkip \/ TVisit \/ TPut \/ TFill \/ TDel \/ TGet \/ TSnap \/ TCnt \/ TReload \/ TFreeze
TraceSpec == TraceInit /\ [][TraceNext]_tvars
=============================================================================
