SPECIFICATION CSpec
INVARIANT ReadsAgree
INVARIANT WritableAfterCrash
INVARIANT IdxPointsIntoDat
VIEW CView
CHECK_DEADLOCK FALSE
