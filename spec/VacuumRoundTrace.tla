---------------------------- MODULE VacuumRoundTrace ----------------------------
(* C14 judge: one execution = reset (configuration), pre (writable list before), the RPCs
   as they arrived at / were answered by the scripted replicas, post (writable list after,
   and whether Topology.Vacuum had returned).  Events:
     {"ev":"pre","w":[vids]}   {"ev":"call","v","r","op","wc"}   {"ev":"ret","v","r","op","out"}
     {"ev":"post","w":[vids],"done":bool}   {"ev":"round","s":[...]} (Vacuum is called again)
   `wc` (number of writable volumes when the call arrived) is recorded but not judged here:
   the statement is silent about writability during the round (layer B predicts it). *)
EXTENDS VacuumRound, TraceKit
tvars == <<avars, kitvars>>
Range(s) == {s[k] : k \in DOMAIN s}
TraceInit == AInit /\ KitInit
TraceReset == /\ IsReset
              /\ shadow' = Const(Vols, Const(Reps, "none"))
              /\ live' = Const(Vols, Const(Reps, "C"))
              /\ open' = {}
              /\ wBefore' = Const(Vols, FALSE)
              /\ bigVols' = IF Ev.large THEN {1} ELSE {}
              /\ roSeen' = Const(Vols, FALSE) /\ shrunk' = Const(Vols, FALSE) /\ cFailed' = Const(Vols, FALSE)
              /\ compactedV' = Const(Vols, FALSE) /\ commitV' = Const(Vols, FALSE) /\ cleanedV' = Const(Vols, FALSE)
              /\ phase' = "new"
TraceSkip == SkipStep /\ UNCHANGED avars
TPre == IsEvent("pre") /\ Strict /\ Pre(Range(Ev.w) \cap Vols, bigVols)
TCall == IsEvent("call") /\ Strict /\ phase = "run" /\ Ev.v \in Vols /\ Ev.r \in Reps /\ Ev.op \in Ops
         /\ Call(Ev.v, Ev.r, Ev.op)
TRet == IsEvent("ret") /\ Strict /\ Ret(Ev.v, Ev.r, Ev.op, Ev.out)
(* the smallest sets of open known-finding deviations that explain the post-state *)
TPost == /\ IsEvent("post")
         /\ \E D \in SUBSET (DevIds \cap KF) :
              /\ Post(Range(Ev.w) \cap Vols, Ev.done, D)
              /\ \A d \in D : ~PostAdmits(Range(Ev.w) \cap Vols, Ev.done, D \ {d})
              /\ used' = used \cup D
TRound == IsEvent("round") /\ Strict /\ NextRound
TraceNext == TraceReset \/ TraceSkip \/ TPre \/ TCall \/ TRet \/ TPost \/ TRound
TraceSpec == TraceInit /\ [][TraceNext]_tvars
=============================================================================
