----------------------------- MODULE GuardTrace -----------------------------
(* judge for C34: every recorded request/answer of the real volume server (one process per key
   configuration) must be admitted by Guard!Op. *)
EXTENDS Guard, TraceKit
tvars == <<vars, kitvars>>
TraceInit == /\ cfg = [w |-> "", r |-> ""] /\ present = FALSE /\ last = None /\ hist = <<>>
             /\ KitInit
TraceReset == /\ IsReset
              /\ cfg' = Ev.cfg /\ present' = Ev.present
              /\ UNCHANGED <<last, hist>>
TraceSkip == SkipStep /\ UNCHANGED vars
TOp == /\ IsEvent("op") /\ Strict
       /\ Op(Ev.op, Ev.form, Ev.via, Ev.tok, Ev.res)
       /\ UNCHANGED <<last, hist>>
TraceNext == TraceReset \/ TraceSkip \/ TOp
TraceSpec == TraceInit /\ [][TraceNext]_tvars
=============================================================================
