------------------------- MODULE MasterBroadcastModel -------------------------
(* Design-level check of the broadcast extension (see MasterBroadcast.tla): a small registry of normal volumes
   and ec shards per server, the message every handler step queues for the clients under a message rule, one
   client connected from the start and one that connects later (its first batch is the full list).

   BRule = "code"     the rule of SendHeartbeat: an incremental volume heartbeat announces its ids as they
                      are, a full one the difference computed by the registry, an ec heartbeat the ids of the
                      volumes that gained a shard and of those that lost a shard unless the server still has
                      the volume (HasVolumesById); the deferred unregistration everything the server had
           "nofilter" the same without the HasVolumesById filter: a server that loses one of two shards is
                      announced as gone (the invariant must break)
   Invariant InSync: every client's map = the registry. *)
EXTENDS MasterBroadcast, FiniteSetsExt, SequencesExt
CONSTANTS BNodes, BVols, BEcs, BShards, BRule, BMaxOps
VARIABLES reg,    \* reg[n]: normal volumes registered for server n
          ecs,    \* ecs[n][v]: shards of ec volume v registered for server n
          up,     \* servers with an open stream
          v1, v2, \* the clients' maps
          on2,    \* the second client has connected
          nops
mvars == <<reg, ecs, up, v1, v2, on2, nops>>

Holds(r, e, n) == r[n] \cup {v \in BEcs : e[n][v] # {}}
Holders(r, e, id) == {n \in BNodes : id \in Holds(r, e, n)}
Msg(n, new, del) == [n |-> n, newv |-> SetToSeq(new), delv |-> SetToSeq(del)]
Tell(m) == /\ v1' = (IF m.newv = <<>> /\ m.delv = <<>> THEN v1 ELSE ApplyMsg(v1, m))
           /\ v2' = (IF ~on2 \/ (m.newv = <<>> /\ m.delv = <<>>) THEN v2 ELSE ApplyMsg(v2, m))
           /\ UNCHANGED on2
Step == nops < BMaxOps /\ nops' = nops + 1

Init == /\ reg = [n \in BNodes |-> {}] /\ ecs = [n \in BNodes |-> [v \in BEcs |-> {}]]
        /\ up = {} /\ v1 = <<>> /\ v2 = <<>> /\ on2 = FALSE /\ nops = 0

\* first message of a stream and every later full volume heartbeat: the registry's difference
VolFull(n, S) == /\ Step /\ up' = up \cup {n} /\ reg' = [reg EXCEPT ![n] = S] /\ UNCHANGED ecs
                 /\ Tell(Msg(n, S \ reg[n], reg[n] \ S))
\* incremental: ids as announced (also when the registry already has / does not have them)
VolInc(n, new, del) == /\ Step /\ n \in up /\ new \cap del = {}
                       /\ reg' = [reg EXCEPT ![n] = (@ \cup new) \ del] /\ UNCHANGED <<ecs, up>>
                       /\ Tell(Msg(n, new, del))
EcMsg(n, e2) ==
  LET gained == {v \in BEcs : e2[n][v] \ ecs[n][v] # {}}
      lost == {v \in BEcs : ecs[n][v] \ e2[n][v] # {}}
      gone == IF BRule = "code" THEN {v \in lost : v \notin Holds(reg, e2, n)} ELSE lost
  IN Msg(n, gained, gone)
\* full and incremental ec heartbeats differ in how the new shard sets are given, not in what is announced
EcSet(n, v, S) == /\ Step /\ n \in up
                  /\ LET e2 == [ecs EXCEPT ![n][v] = S] IN ecs' = e2 /\ Tell(EcMsg(n, e2))
                  /\ UNCHANGED <<reg, up>>
Close(n) == /\ Step /\ n \in up /\ up' = up \ {n}
            /\ reg' = [reg EXCEPT ![n] = {}] /\ ecs' = [ecs EXCEPT ![n] = [v \in BEcs |-> {}]]
            /\ Tell(Msg(n, {}, Holds(reg, ecs, n)))
\* the second client connects: one message per server with everything it has (Topology.ToVolumeLocations)
RECURSIVE Listing(_)
Listing(ns) == IF ns = {} THEN <<>> ELSE LET n == CHOOSE x \in ns : TRUE
                                         IN <<Msg(n, Holds(reg, ecs, n), {})>> \o Listing(ns \ {n})
Join == /\ Step /\ ~on2 /\ on2' = TRUE /\ v2' = ApplyAll(<<>>, Listing(up)) /\ UNCHANGED <<reg, ecs, up, v1>>

Next == \/ \E n \in BNodes, S \in SUBSET BVols : VolFull(n, S)
        \/ \E n \in BNodes, a, b \in SUBSET BVols : VolInc(n, a, b)
        \/ \E n \in BNodes, v \in BEcs, S \in SUBSET BShards : EcSet(n, v, S)
        \/ \E n \in BNodes : Close(n)
        \/ Join
Spec == Init /\ [][Next]_mvars

MapOK(v) == \A id \in BVols \cup BEcs \cup DOMAIN v : Locs(v, id) = Holders(reg, ecs, id)
InSync == MapOK(v1) /\ (on2 => MapOK(v2))
=============================================================================
