----------------------------- MODULE VolumeImpl -----------------------------
(* Layer B for the volume family: an implementation-shaped model of ONE volume
   as weed/storage keeps it, seen through the volume server's HTTP handlers.

     dat    the append-only data file: sequence of records (offset = position)
     idx    the append-only index file: sequence of [k, off, size]
     nm     the in-memory needle map  k -> [off, size]
            size: 1 = non-empty needle, 0 = size-0 needle, -1 = deleted
     ro     MarkVolumeReadonly
     phase  "idle" | "compacted" (a .cpd/.cpx pair exists, mark = index length
            when the compaction started)
     live   ghost: the layer-A state (BlobStore.tla), updated per the statements

   One action per critical section of the code: doWriteRequest (with the
   isFileUnchanged shortcut and the cookie check against the record at the
   mapped offset), the DELETE handler (read, cookie check, doDeleteRequest),
   index replay (doLoading), both compaction algorithms
   (copyDataAndGenerateIndexFile = scan based, copyDataBasedOnIndexFile = index
   based), CommitCompact (makeupDiff + rename + reload), cleanup.

   ReadsAgree is the refinement invariant: what the GET handler would answer for
   every (key, cookie) is admitted by layer A - strictly, or through a
   known-finding deviation whose id is in KF. *)
EXTENDS BlobStore, Json
CONSTANTS Keys, Cookies, Datas, MetaSet, VTtl, MaxOps, KF, Algos, WithRestart, WithRo, KeyOrderedScanIdx
VARIABLES dat, idx, nm, ro, phase, cpd, cpx, mark, live, hist
vars == <<dat, idx, nm, ro, phase, cpd, cpx, mark, live, hist>>

SizeOf(d, m) == IF d = "e" /\ ~Gz(m) THEN 0 ELSE 1
Valid(s) == s > 0
Deleted(s) == s < 0
Has(f, k) == k \in DOMAIN f
Put(f, k, v) == [x \in DOMAIN f \cup {k} |-> IF x = k THEN v ELSE f[x]]
Drop(f, k) == [x \in DOMAIN f \ {k} |-> f[x]]
Rec(k, c, d, m) == [k |-> k, c |-> c, d |-> d, m |-> m, kind |-> "put"]
Tomb(k) == [k |-> k, c |-> "tomb", d |-> "e", m |-> "m0", kind |-> "tomb"]
RecBlob(r) == Blob(r.c, r.d, r.m)
RecHasTtl(r) == MetaTable[r.m].ttl # "" \/ VTtl # ""
RecLmOld(r) == MetaTable[r.m].ts = "old"
(* the compaction filter:  n.HasTtl() && now >= n.LastModified + volumeTtl*60 *)
Filtered(r) == RecHasTtl(r) /\ (VTtl = "" \/ RecLmOld(r))

Init == /\ dat = <<>> /\ idx = <<>> /\ nm = <<>> /\ ro = FALSE /\ phase = "idle"
        /\ cpd = <<>> /\ cpx = <<>> /\ mark = 0
        /\ live = [k \in Keys |-> None] /\ hist = <<>>

(* ---------------- GET handler: readNeedle + cookie comparison ---------------- *)
ReadRes(k, c) ==
  IF ~Has(nm, k) \/ nm[k].off = 0 \/ nm[k].off > Len(dat) THEN [st |-> "notfound", d |-> "e", m |-> "m0"]
  ELSE IF Deleted(nm[k].size) THEN [st |-> "notfound", d |-> "e", m |-> "m0"]
  ELSE IF nm[k].size = 0 THEN [st |-> "data", d |-> "e", m |-> "m0"]     \* record never read
  ELSE IF dat[nm[k].off].c # c THEN [st |-> "notfound", d |-> "e", m |-> "m0"]
  ELSE [st |-> "data", d |-> dat[nm[k].off].d, m |-> dat[nm[k].off].m]

(* ---------------- POST handler: doWriteRequest ---------------- *)
Write(k, c, d, m) ==
  LET ok == Has(nm, k)
      nv == IF ok THEN nm[k] ELSE [off |-> 0, size |-> 0]
      old == IF ok /\ nv.off # 0 THEN dat[nv.off] ELSE Tomb(k)
      \* isFileUnchanged: same cookie and same stored bytes (metadata is not compared)
      unchanged == VTtl = "" /\ ok /\ nv.off # 0 /\ Valid(nv.size) /\ old.c = c /\ old.d = d /\ Gz(old.m) = Gz(m)
      \* cookie check against the header at the mapped offset (also for deleted entries)
      mismatch == ok /\ nv.off # 0 /\ old.c # c
      newoff == Len(dat) + 1
  IN IF ro THEN UNCHANGED <<dat, idx, nm, live>>
     ELSE IF unchanged
       THEN /\ UNCHANGED <<dat, idx, nm>>
            /\ live' = IF "C01-unchanged-keeps-metadata" \in KF THEN live
                       ELSE [live EXCEPT ![k] = Blob(c, d, m)]
     ELSE IF mismatch THEN UNCHANGED <<dat, idx, nm, live>>
     ELSE /\ dat' = Append(dat, Rec(k, c, d, m))
          /\ nm' = Put(nm, k, [off |-> newoff, size |-> SizeOf(d, m)])
          /\ idx' = Append(idx, [k |-> k, off |-> newoff, size |-> SizeOf(d, m)])
          /\ live' = [live EXCEPT ![k] = Blob(c, d, m)]

(* ---------------- DELETE handler: read, cookie check, doDeleteRequest ---------------- *)
Delete(k, c) ==
  LET r == ReadRes(k, c) IN
  IF ro \/ r.st # "data" THEN UNCHANGED <<dat, idx, nm, live>>
  ELSE IF Valid(nm[k].size)
    THEN /\ dat' = Append(dat, Tomb(k))
         /\ nm' = Put(nm, k, [off |-> nm[k].off, size |-> -1])
         /\ idx' = Append(idx, [k |-> k, off |-> Len(dat) + 1, size |-> -1])
         /\ live' = [live EXCEPT ![k] = None]
    ELSE \* size-0 needle: doDeleteRequest does nothing and reports success
         /\ UNCHANGED <<dat, idx, nm>>
         /\ live' = IF "C01-empty-delete-noop" \in KF THEN live
                    ELSE IF live[k] # None /\ live[k].c = c THEN [live EXCEPT ![k] = None] ELSE live

(* ---------------- index replay (doLoading) ---------------- *)
RECURSIVE Load(_, _)
Load(ix, f) ==
  IF ix = <<>> THEN f
  ELSE LET e == Head(ix) IN
       IF e.off # 0 /\ Valid(e.size) THEN Load(Tail(ix), Put(f, e.k, [off |-> e.off, size |-> e.size]))
       ELSE IF Has(f, e.k) /\ Valid(f[e.k].size)
            THEN Load(Tail(ix), Put(f, e.k, [off |-> f[e.k].off, size |-> -1]))
            ELSE Load(Tail(ix), f)
(* CheckAndFixVolumeDataIntegrity: the record of the last index entry is verified and the
   data file is truncated right after it *)
FixDat(d, ix) ==
  IF ix = <<>> THEN d
  ELSE LET e == ix[Len(ix)] IN
       IF e.off # 0 /\ e.size >= 0 /\ e.off < Len(d) THEN SubSeq(d, 1, e.off) ELSE d
ReloadGhost(l) == IF "C01-empty-lost-on-reload" \in KF THEN DropEmpties(l) ELSE l
Restart == /\ phase = "idle" /\ ~ro
           /\ nm' = Load(idx, <<>>) /\ dat' = FixDat(dat, idx)
           /\ live' = ReloadGhost(live)
           /\ UNCHANGED <<idx, ro, phase, cpd, cpx, mark>>

(* ---------------- compaction ---------------- *)
SortedKeys(S) == CHOOSE s \in [1..Cardinality(S) -> S] : \A i, j \in 1..Cardinality(S) : i < j => s[i] < s[j]
(* scan based: visit every record of the data file in order; the new index is written
   in the order of the copied records (KeyOrderedScanIdx = TRUE models the index sorted by
   key, as the code did before the fix "scan-based compaction writes the index in
   data-file order": with it TLC finds the data loss at the reload after commit) *)
RECURSIVE Scan(_, _, _)
Scan(i, nd, nx) ==
  IF i > Len(dat) THEN <<nd, nx>>
  ELSE LET r == dat[i] IN
       IF r.kind = "put" /\ ~Filtered(r) /\ Has(nm, r.k) /\ nm[r.k].off = i /\ nm[r.k].size > 0
       THEN Scan(i + 1, Append(nd, r), Append(nx, [k |-> r.k, off |-> Len(nd) + 1, size |-> nm[r.k].size]))
       ELSE Scan(i + 1, nd, nx)
SortByKey(ix) == LET ks == SortedKeys({ix[i].k : i \in 1..Len(ix)})
                 IN [j \in 1..Len(ks) |-> CHOOSE e \in {ix[i] : i \in 1..Len(ix)} : e.k = ks[j]]
(* index based: replay the index into a MemDb, visit ascending *)
RECURSIVE MemLoad(_, _)
MemLoad(ix, f) == IF ix = <<>> THEN f
                  ELSE LET e == Head(ix) IN
                       IF e.off = 0 \/ Deleted(e.size) THEN MemLoad(Tail(ix), Drop(f, e.k))
                       ELSE MemLoad(Tail(ix), Put(f, e.k, [off |-> e.off, size |-> e.size]))
RECURSIVE CopyAll(_, _, _, _)
CopyAll(ks, f, nd, nx) ==
  IF ks = <<>> THEN <<nd, nx>>
  ELSE LET k == Head(ks)  e == f[k]  r == dat[e.off] IN
       IF Filtered(r) THEN CopyAll(Tail(ks), f, nd, nx)
       ELSE CopyAll(Tail(ks), f, Append(nd, r), Append(nx, [k |-> k, off |-> Len(nd) + 1, size |-> e.size]))
Compact(algo) ==
  /\ phase = "idle" /\ ~ro
  /\ IF algo = 1
     THEN LET r == Scan(1, <<>>, <<>>) IN cpd' = r[1] /\ cpx' = IF KeyOrderedScanIdx THEN SortByKey(r[2]) ELSE r[2]
     ELSE LET f == MemLoad(idx, <<>>)
              r == CopyAll(SortedKeys(DOMAIN f), f, <<>>, <<>>)
          IN cpd' = r[1] /\ cpx' = r[2]
  /\ mark' = Len(idx) /\ phase' = "compacted"
  /\ UNCHANGED <<dat, idx, nm, ro, live>>

(* CommitCompact: makeupDiff (reverse walk from the end of the old index down to
   the mark, first seen wins), rename, reload *)
RECURSIVE Newest(_, _, _)
Newest(i, seen, acc) ==
  IF i <= mark THEN acc
  ELSE LET e == idx[i] IN IF e.k \in seen THEN Newest(i - 1, seen, acc)
                           ELSE Newest(i - 1, seen \cup {e.k}, Append(acc, e))
RECURSIVE Apply(_, _, _)
Apply(es, nd, nx) ==
  IF es = <<>> THEN <<nd, nx>>
  ELSE LET e == Head(es) IN
       IF e.off # 0 /\ e.size # 0 /\ Valid(e.size)
       THEN Apply(Tail(es), Append(nd, dat[e.off]), Append(nx, [k |-> e.k, off |-> Len(nd) + 1, size |-> e.size]))
       ELSE Apply(Tail(es), Append(nd, Tomb(e.k)), Append(nx, [k |-> e.k, off |-> 0, size |-> e.size]))
CommitGhost(l) ==
  LET l1 == IF "C04-empty-dropped" \in KF THEN DropEmpties(l) ELSE l
  IN IF "C04-ttl-filter" \in KF THEN DropTtl(l1, VTtl, {idx[i].k : i \in (mark + 1)..Len(idx)}) ELSE l1
Commit == /\ phase = "compacted"
          /\ LET r == Apply(Newest(Len(idx), {}, <<>>), cpd, cpx)
             IN dat' = FixDat(r[1], r[2]) /\ idx' = r[2] /\ nm' = Load(r[2], <<>>)
          /\ phase' = "idle" /\ cpd' = <<>> /\ cpx' = <<>> /\ mark' = 0
          /\ live' = CommitGhost(live)
          /\ UNCHANGED ro
Cleanup == /\ phase = "compacted" /\ phase' = "idle" /\ cpd' = <<>> /\ cpx' = <<>> /\ mark' = 0
           /\ UNCHANGED <<dat, idx, nm, ro, live>>
SetRo(b) == ro' = b /\ ro # b /\ UNCHANGED <<dat, idx, nm, phase, cpd, cpx, mark, live>>

(* ---------------- generator / exploration ---------------- *)
Log(op) == hist' = Append(hist, op)
Rest == UNCHANGED <<phase, cpd, cpx, mark, ro>>
Next ==
  /\ Len(hist) < MaxOps
  /\ \/ \E k \in Keys, c \in Cookies, d \in Datas, m \in MetaSet :
          Write(k, c, d, m) /\ Rest /\ Log([ev |-> "write", k |-> k, c |-> c, d |-> d, m |-> m])
     \/ \E k \in Keys, c \in Cookies : Delete(k, c) /\ Rest /\ Log([ev |-> "delete", k |-> k, c |-> c])
     \/ (WithRestart /\ Restart /\ Log([ev |-> "restart"]))
     \/ \E a \in Algos : Compact(a) /\ Log([ev |-> "compact", algo |-> a])
     \/ (Commit /\ Log([ev |-> "commit"]))
     \/ (Cleanup /\ Log([ev |-> "cleanup"]))
     \/ (WithRo /\ \E b \in BOOLEAN : SetRo(b) /\ Log([ev |-> "ro", on |-> b]))
Spec == Init /\ [][Next]_vars

(* ---------------- refinement: reads agree with layer A ---------------- *)
ReadsAgree ==
  \A k \in Keys, c \in Cookies :
    LET res == ReadRes(k, c) IN
      \/ ReadStrict(live, k, c, res)
      \/ ("C01-empty-any-cookie" \in KF /\ DevReadEmpty(live, k, c, res))
(* structural invariants of the files *)
IdxPointsIntoDat == \A i \in 1..Len(idx) : idx[i].off <= Len(dat)
NmFromIdx == phase = "idle" => \A k \in DOMAIN nm : \E i \in 1..Len(idx) : idx[i].k = k
(* compaction never resurrects: a key that reads notfound before Commit and was
   not written since reads notfound after *)
NoResurrect == [][(phase = "compacted" /\ phase' = "idle" /\ dat' # dat) =>
                    \A k \in Keys, c \in Cookies : (live[k] = None) => ReadRes(k, c)'.st # "data"]_vars

Emit == Len(hist) < MaxOps \/ PrintT(<<"W", ToJson(hist)>>)
View == <<dat, idx, nm, ro, phase, cpd, cpx, mark, live, IF hist = <<>> THEN <<>> ELSE hist[Len(hist)]>>
MCView == <<dat, idx, nm, ro, phase, cpd, cpx, mark, live>>
EmitW == hist = <<>> \/ PrintT(<<"W", ToJson(hist)>>)
=============================================================================
