---------------------------- MODULE SortedIndexTrace ----------------------------
(* Judge for C07: what harness/cmd/c07 recorded from the real erasure_coding / sorted-file
   needle map code must be a behaviour of SortedIndex.

   reset   {keys, offs, present:[{k,o,s}..]}      the sorted file the driver had the real code build
   del     {k, err}                                DeleteNeedleFromEcx / SortedFileNeedleMap.Delete
   snap    {got:[{f,o,s}..] (a lookup of every token key), raw:[{k,o,s}..] (the entries of the
            sorted file as they are on disk; k = -2: not a token key), other (number of non-token
            bulk entries whose bytes differ from their original), jr:[k..] (journal keys)}
   rebuild {raw, other}         journal applied to the file as of the last in-place rebuild
   rebuildinplace {}            RebuildEcxFile on the volume's own files / regenerating .sdx
   toidx   {got}                WriteIdxFileFromEcIndex + MemDb.LoadFromIdx
   reopen  {}                   close and open again *)
EXTENDS SortedIndex, TraceKit
tvars == <<vars, kitvars>>
Range(s) == {s[i] : i \in 1..Len(s)}

TraceInit == Init /\ KitInit
TraceReset ==
  /\ IsReset
  /\ LET P == Range(Ev.present)
     IN /\ ent' = [k \in 0..(Len(Ev.keys) - 1) |->
                     IF \E p \in P : p.k = k
                     THEN LET p == CHOOSE p \in P : p.k = k IN [st |-> "live", o |-> p.o, s |-> p.s]
                     ELSE Absent]
        /\ base' = {p.k : p \in P}
  /\ jr' = {} /\ UNCHANGED hist
TraceSkip == SkipStep /\ UNCHANGED vars

TDel == IsEvent("del") /\ Strict /\ Ev.err = "" /\ Delete(Ev.k) /\ UNCHANGED hist
TSnap == /\ IsEvent("snap") /\ Strict
         /\ Len(Ev.got) = Cardinality(Keys)
         /\ \A k \in Keys : FindOK(k, Ev.got[k + 1])
         /\ RawOK(Ev.raw) /\ Ev.other = 0
         /\ Range(Ev.jr) = jr
         /\ UNCHANGED vars
(* a file built from sorted file + journal: token entries {k,o,s}; its live entries are exactly the live set *)
BuiltOK(raw) == /\ {raw[i].k : i \in {j \in 1..Len(raw) : raw[j].s >= 0}} = LiveSet
                /\ \A i \in 1..Len(raw) : IsLive(raw[i].k) => raw[i].o = ent[raw[i].k].o /\ raw[i].s = ent[raw[i].k].s
TRebuild == IsEvent("rebuild") /\ Strict /\ Ev.err = "" /\ BuiltOK(Ev.raw) /\ Ev.other = 0 /\ UNCHANGED vars
TRebuildInPlace == IsEvent("rebuildinplace") /\ Strict /\ Ev.err = "" /\ RebuildInPlace /\ UNCHANGED hist
(* the .idx written from .ecx + .ecj, loaded by needle_map.MemDb: a lookup of every token key *)
TToIdx == /\ IsEvent("toidx") /\ Strict /\ Ev.err = ""
          /\ Len(Ev.got) = Cardinality(Keys) /\ \A k \in Keys : FindOK(k, Ev.got[k + 1])
          /\ UNCHANGED vars
TReopen == IsEvent("reopen") /\ Strict /\ Ev.err = "" /\ UNCHANGED vars

TraceNext == TraceReset \/ TraceSkip \/ TDel \/ TSnap \/ TRebuild \/ TRebuildInPlace \/ TToIdx \/ TReopen
TraceSpec == TraceInit /\ [][TraceNext]_tvars
=============================================================================
