SPECIFICATION MCSpec
INVARIANT BruteLocateExact
INVARIANT BruteOrigWindow
INVARIANT LocateExact
INVARIANT OrigLocateOutsideWindow
CHECK_DEADLOCK FALSE
