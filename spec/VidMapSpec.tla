----------------------------- MODULE VidMapSpec -----------------------------
(* C35 - a client's volume location cache (weed/wdclient vidMap, embedded in
   MasterClient) mirrors the master's add / remove notifications.

     loc[v]   the set of locations (urls) currently added for volume v
     cdc      the client's data center;  dcof[u] the data center of location u
   A lookup of v returns exactly loc[v], each location once; through the url
   returning paths (LookupVolumeServerUrl, LookupFileId) the locations of the
   client's own data center come first.  For an empty set both "not found" and
   an empty list are admitted.  The order is otherwise free.

   Concurrent runs: call and return are separate events; between them a silent
   Lin(p) step applies the update / takes the snapshot the lookup must return.

   A caller may also keep the list a lookup returned and read it later (hold /
   reread).  What it reads then must still be free of duplicates and must not
   have lost a location that was in the returned list and is still live (it may
   or may not reflect later updates): "never observe duplicated, lost or torn
   entries".

   Ghost state for the one named deviation, C35-delete-shifts-shared-slice:
   GetLocations hands out the cache's own slice and deleteLocation removes an
   element by shifting the tail of that very backing array in place.  lst[v] is
   the list in the cache's order; a reader that took its snapshot when the list
   had n entries reads positions 1..n of the shared array, and win[i] collects
   every value position i has held since.  The deviation admits a list of the
   snapshot's length whose i-th element is one of win[i] - and nothing else. *)
EXTENDS Integers, Sequences, FiniteSets, TLC, Json
CONSTANTS Vids, Urls, DcOf, ClientDc, MaxOps      \* generator / model-checking view
VARIABLES loc, lst, cdc, dcof, holds, pend, hist
vars == <<loc, lst, cdc, dcof, holds, pend, hist>>

Range(s) == {s[i] : i \in 1..Len(s)}
NoDup(s) == \A i, j \in 1..Len(s) : i # j => s[i] # s[j]
Same(u) == cdc # "" /\ u \in DOMAIN dcof /\ dcof[u] = cdc
DcFirst(s) == \A i, j \in 1..Len(s) : (i < j /\ Same(s[j])) => Same(s[i])
UrlApi(api) == api \in {"urls", "fileid"}
Remove(s, u) == SelectSeq(s, LAMBDA x : x # u)
Win0(s) == [i \in 1..Len(s) |-> {s[i]}]
PhysUpd(ph, new) == [i \in 1..Len(ph) |-> IF i <= Len(new) THEN new[i] ELSE ph[i]]
WinUpd(w, new) == [i \in 1..Len(w) |-> IF i <= Len(new) THEN w[i] \cup {new[i]} ELSE w[i]]

(* ---- what the statement admits for a lookup that saw the set S ---- *)
LookupOK(api, found, res, S) ==
  \/ ~found /\ S = {} /\ res = <<>>
  \/ found /\ Range(res) = S /\ Len(res) = Cardinality(S) /\ (UrlApi(api) => DcFirst(res))
(* ---- the deviation: positions of the shared backing array read while deletes shift it ---- *)
Perms(n) == {f \in [1..n -> 1..n] : \A i, j \in 1..n : i # j => f[i] # f[j]}
TornOK(api, found, res, w) ==
  /\ found /\ Len(res) = Len(w) /\ Len(w) <= 5
  /\ IF UrlApi(api)
     THEN \E f \in Perms(Len(w)) : \A i \in 1..Len(w) : res[f[i]] \in w[i]   \* the url paths reorder what they read
     ELSE \A i \in 1..Len(w) : res[i] \in w[i]
RereadOK(hd, res) == /\ NoDup(res)
                     /\ (hd.snap \cap loc[hd.v]) \subseteq Range(res)
                     /\ Range(res) \subseteq hd.all
RereadTorn(hd, res) == Len(res) = Len(hd.win) /\ \A i \in 1..Len(res) : res[i] \in hd.win[i]

(* ---- updates: the effect on loc / lst and on every reader that already took its snapshot ---- *)
Touch(v, newlst, added) ==
  /\ holds' = [h \in DOMAIN holds |->
                 IF holds[h].v = v
                 THEN [holds[h] EXCEPT !.win = WinUpd(@, newlst), !.all = @ \cup added, !.phys = PhysUpd(@, newlst)]
                 ELSE holds[h]]
AddEff(v, u) ==
  LET newlst == IF u \in loc[v] THEN lst[v] ELSE Append(lst[v], u) IN
  /\ loc' = [loc EXCEPT ![v] = @ \cup {u}] /\ lst' = [lst EXCEPT ![v] = newlst]
  /\ Touch(v, newlst, {u})
DelEff(v, u) ==
  LET newlst == Remove(lst[v], u) IN
  /\ loc' = [loc EXCEPT ![v] = @ \ {u}] /\ lst' = [lst EXCEPT ![v] = newlst]
  /\ Touch(v, newlst, {})
TouchPend(P, v, newlst) ==
  {IF r.lin /\ r.op = "lookup" /\ r.v = v THEN [r EXCEPT !.win = WinUpd(@, newlst)] ELSE r : r \in P}

(* ---- sequential operations ---- *)
Add(v, u) == AddEff(v, u) /\ UNCHANGED <<cdc, dcof, pend>>
Delete(v, u) == DelEff(v, u) /\ UNCHANGED <<cdc, dcof, pend>>
Lookup(v, api, found, res) == LookupOK(api, found, res, loc[v]) /\ UNCHANGED <<loc, lst, cdc, dcof, holds, pend>>
Hold(h, v, found, res) ==
  /\ LookupOK("locs", found, res, loc[v])
  /\ holds' = [x \in DOMAIN holds \cup {h} |->
                 IF x = h THEN [v |-> v, snap |-> loc[v], all |-> loc[v], win |-> Win0(lst[v]), phys |-> lst[v]] ELSE holds[x]]
  /\ UNCHANGED <<loc, lst, cdc, dcof, pend>>

(* ---- concurrent operations ---- *)
Pending(p) == {r \in pend : r.p = p}
Call(p, op, v, u, api) ==
  /\ Pending(p) = {}
  /\ pend' = pend \cup {[p |-> p, op |-> op, v |-> v, u |-> u, api |-> api, lin |-> FALSE, snap |-> {}, win |-> <<>>]}
  /\ UNCHANGED <<loc, lst, cdc, dcof, holds>>
Lin(p) ==
  \E r \in Pending(p) :
    /\ ~r.lin
    /\ LET rest == pend \ {r} IN
       CASE r.op = "add" ->
              /\ AddEff(r.v, r.u)
              /\ pend' = TouchPend(rest, r.v, lst'[r.v]) \cup {[r EXCEPT !.lin = TRUE]}
         [] r.op = "del" ->
              /\ DelEff(r.v, r.u)
              /\ pend' = TouchPend(rest, r.v, lst'[r.v]) \cup {[r EXCEPT !.lin = TRUE]}
         [] OTHER ->
              /\ pend' = rest \cup {[r EXCEPT !.lin = TRUE, !.snap = loc[r.v], !.win = Win0(lst[r.v])]}
              /\ UNCHANGED <<loc, lst, holds>>
    /\ UNCHANGED <<cdc, dcof>>
(* Ret(p, ..): adm(api, found, res, r) is the admission predicate for a lookup *)
RetWith(p, found, res, adm(_, _, _, _)) ==
  \E r \in Pending(p) :
    /\ r.lin /\ pend' = pend \ {r}
    /\ r.op = "lookup" => adm(r.api, found, res, r)
    /\ UNCHANGED <<loc, lst, cdc, dcof, holds>>
StrictAdm(api, found, res, r) == LookupOK(api, found, res, r.snap)
TornAdm(api, found, res, r) == ~LookupOK(api, found, res, r.snap) /\ TornOK(api, found, res, r.win)

(* ------------- generator / model-checking view ------------- *)
Log(op) == hist' = Append(hist, op)
Init == /\ loc = [v \in Vids |-> {}] /\ lst = [v \in Vids |-> <<>>] /\ cdc = ClientDc /\ dcof = DcOf
        /\ holds = <<>> /\ pend = {} /\ hist = <<>>
GenNext ==
  /\ Len(hist) < MaxOps
  /\ \/ \E v \in Vids, u \in Urls : Add(v, u) /\ Log([ev |-> "add", v |-> v, u |-> u])
     \/ \E v \in Vids, u \in Urls : Delete(v, u) /\ Log([ev |-> "del", v |-> v, u |-> u])
     \/ \E v \in Vids : /\ holds = <<>> /\ lst[v] # <<>>
                        /\ Hold(1, v, TRUE, lst[v]) /\ Log([ev |-> "hold", h |-> 1, v |-> v])
Spec == Init /\ [][GenNext]_vars

(* design-level checks of the reference itself *)
ListIsSet == \A v \in Vids : Range(lst[v]) = loc[v] /\ NoDup(lst[v])
ExactlyTheAdded == [][\A v \in Vids, u \in Urls :
                        (hist' # hist /\ hist'[Len(hist')].ev \in {"add", "del"} /\ hist'[Len(hist')].v = v /\ hist'[Len(hist')].u = u)
                        => /\ (hist'[Len(hist')].ev = "add" => loc'[v] = loc[v] \cup {u})
                           /\ (hist'[Len(hist')].ev = "del" => loc'[v] = loc[v] \ {u})
                           /\ \A w \in Vids \ {v} : loc'[w] = loc[w]]_vars
(* the code's own list order satisfies the strict lookup relation after reordering: a sanity check of LookupOK *)
SomeAnswerAdmitted == \A v \in Vids : LookupOK("locs", TRUE, lst[v], loc[v])
(* what the shared backing array shows to a holder, if every update happens in place.  The model
   violates this (expected: it is suspect S36 at design level); the check is used with expect_violation *)
HolderViewOK == \A h \in DOMAIN holds : RereadOK(holds[h], holds[h].phys)
Emit == Len(hist) < MaxOps \/ PrintT(<<"W", ToJson(hist)>>)
View == <<loc, lst, holds, IF hist = <<>> THEN <<>> ELSE hist[Len(hist)]>>
EmitW == hist = <<>> \/ PrintT(<<"W", ToJson(hist)>>)
=============================================================================
