SPECIFICATION ISpec
INVARIANT IamSound
INVARIANT KeysSound
VIEW IView
CHECK_DEADLOCK FALSE
