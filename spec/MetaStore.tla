----------------------------- MODULE MetaStore -----------------------------
(* C24 - filer metadata stores return what was stored.

   The store is a map  kv : (directory, name) -> token.  A token stands for one
   complete entry (all attributes, the chunk list with source / cipher fields
   and file ids in text form, extended attributes, hard-link fields, inline
   content, remote info): the harness computes it as a hash of a canonical
   serialization (DESIGN section 8: hashing and protobuf are outside TLA+; the
   specification decides WHICH token has to come back WHERE, and equality of
   tokens is equality of strings).

     Insert / Update (p, tok)  ->  kv[p] = tok
     Find(p)                   ->  found iff p is stored, and then exactly kv[p]
     List(d)                   ->  exactly the children of d, each once, each with kv
     Delete(p)                 ->  p is gone, nothing else changes
     DeleteChildren(d)         ->  the children of d are gone; entries outside d's
                                   subtree do not change; entries deeper inside the
                                   subtree may or may not go (the statement is silent;
                                   the embedded stores keep them)

   A directory is a sequence of names (TLC cannot look into strings); the key of
   an entry is <<directory, name>>.

   Update of a path that is not stored: the statement is silent (the embedded
   stores create it); both outcomes are admitted.  The order of a listing is
   C19's subject and not judged here. *)
EXTENDS Integers, Sequences, FiniteSets, TLC, Json
CONSTANTS Paths,     \* generator: set of <<dir, name>>
          Entries,   \* generator: entry ids (the harness maps an id to a rich random entry)
          MaxOps
VARIABLES kv, hist
vars == <<kv, hist>>

Put(m, p, t) == [q \in DOMAIN m \cup {p} |-> IF q = p THEN t ELSE m[q]]
Drop(m, p) == [q \in DOMAIN m \ {p} |-> m[q]]
Children(m, d) == {p \in DOMAIN m : p[1] = d}

Init == kv = <<>> /\ hist = <<>>

Insert(p, tok) == kv' = Put(kv, p, tok)
Update(p, tok) == IF p \in DOMAIN kv THEN kv' = Put(kv, p, tok)
                  ELSE kv' = Put(kv, p, tok) \/ kv' = kv
Delete(p) == kv' = Drop(kv, p)
IsUnder(d, q) == Len(q) > Len(d) /\ SubSeq(q, 1, Len(d)) = d
DeleteChildren(d) ==
  \E S \in SUBSET {p \in DOMAIN kv : IsUnder(d, p[1])} :
    kv' = [q \in DOMAIN kv \ (Children(kv, d) \cup S) |-> kv[q]]
(* a failed write (the store answered an error): nothing may have changed *)
Failed == UNCHANGED kv

FindAnswer(p, found, got) == /\ found = (p \in DOMAIN kv)
                             /\ found => got = kv[p]
(* items: sequence of [n |-> name, got |-> token] *)
ListAnswer(d, items) ==
  /\ Len(items) = Cardinality(Children(kv, d))
  /\ \A p \in Children(kv, d) : \E i \in 1..Len(items) : items[i].n = p[2] /\ items[i].got = kv[p]

(* ---------------- generator / design-level model ---------------- *)
Log(op) == hist' = Append(hist, op)
GenNext ==
  /\ Len(hist) < MaxOps
  /\ \/ \E p \in Paths, e \in Entries :
          Insert(p, e) /\ Log([ev |-> "insert", dir |-> p[1], name |-> p[2], e |-> e])
     \/ \E p \in Paths, e \in Entries :
          /\ p \in DOMAIN kv      \* the generator only updates what exists (see Update)
          /\ Update(p, e) /\ Log([ev |-> "update", dir |-> p[1], name |-> p[2], e |-> e])
     \/ \E p \in Paths :
          Delete(p) /\ Log([ev |-> "delete", dir |-> p[1], name |-> p[2], e |-> 0])
     \/ \E d \in {p[1] : p \in Paths} :
          DeleteChildren(d) /\ Log([ev |-> "deltree", dir |-> d, name |-> "", e |-> 0])
Spec == Init /\ [][GenNext]_vars

(* "what was stored", independently of kv: the entry of the most recent write
   to p in the history, unless a delete of p came later *)
RECURSIVE LastWrite(_, _)
LastWrite(h, p) ==
  IF h = <<>> THEN 0
  ELSE LET o == h[Len(h)] IN
       IF o.ev = "deltree" /\ o.dir = p[1] THEN 0
       ELSE IF o.ev # "deltree" /\ <<o.dir, o.name>> = p THEN (IF o.ev = "delete" THEN 0 ELSE o.e)
       ELSE LastWrite(SubSeq(h, 1, Len(h) - 1), p)
ReadsLastWrite == \A p \in Paths : (IF p \in DOMAIN kv THEN kv[p] ELSE 0) = LastWrite(hist, p)
OnlyWritten == DOMAIN kv \subseteq Paths
(* a write to one path never changes what another path reads *)
Isolation == [][\A p \in Paths :
                  (hist' # hist /\ <<hist'[Len(hist')].dir, hist'[Len(hist')].name>> # p
                     /\ ~(hist'[Len(hist')].ev = "deltree" /\ (hist'[Len(hist')].dir = p[1] \/ IsUnder(hist'[Len(hist')].dir, p[1]))))
                  => ((p \in DOMAIN kv) = (p \in DOMAIN kv') /\ (p \in DOMAIN kv => kv'[p] = kv[p]))]_vars

Emit == Len(hist) < MaxOps \/ PrintT(<<"W", ToJson(hist)>>)
View == <<kv, IF hist = <<>> THEN <<>> ELSE hist[Len(hist)]>>
EmitW == hist = <<>> \/ PrintT(<<"W", ToJson(hist)>>)
=============================================================================
