---------------------------- MODULE FilerWriteImpl ----------------------------
(* C25, layer B: the filer's auto-chunk write procedure
   (weed/server/filer_server_handlers_write_autochunk.go, ..._write_upload.go) at byte level,
   with the layer-A state (FilerWrite.tla: path -> exact content) as ghost.

   A byte is <<s, i>> = byte i of uploaded body s; <<0, 0>> is a zero byte (a hole).
   entry[p] = what the filer store holds: the FileSize attribute, the chunk list
   (offset + data, list order = age) and the inline content.  A read (ViewOf) returns
   Size = max(chunk extent, FileSize, inline length) bytes: the inline content when it
   covers the range, otherwise per byte the newest chunk covering it.

   One request at a time runs through the handler's steps:
     Start      uploadReaderToChunks begins
     ReadPiece  one round of the loop: read up to C bytes; a piece cut short by the
                body's failure is dropped and ends the loop; the first piece of a
                non-append request is kept inline when it is shorter than the limit L
                (or the path is below /etc), which also ends the loop
     Save       saveMetaData: a new entry, or - ?op=append onto an existing entry - the
                new chunks shifted behind the existing data; reply
   Bugs switches the behaviours of the code that broke the property:
     "S29"     the read error is dropped: what was read before is saved, reply 201   (fixed in /repo)
     "S30"     the append offset is the FileSize attribute, not the size a read sees (fixed in /repo)
     "inline1" the inline branch is also taken by a first piece of full chunk size,
               i.e. when more of the body may follow                      (open: C25-inline-first-chunk-only)
   Refines: between requests every path reads back as the ghost says, and a request
   whose body failed was answered with an error. *)
EXTENDS Integers, Sequences, FiniteSets, TLC, Json
CONSTANTS Paths, Sizes, Fails, C, L, Etc, MaxOps, Bugs
VARIABLES entry, req, ghost, lastSt, nseg, hist
vars == <<entry, req, ghost, lastSt, nseg, hist>>

Max(S) == CHOOSE m \in S : \A x \in S : x <= m
Min2(a, b) == IF a < b THEN a ELSE b
Zero == <<0, 0>>
BodyBytes(s, from, to) == [i \in 1..(to - from) |-> <<s, from + i>>]   \* bytes from+1 .. to of body s

NoEntry == [ex |-> FALSE, fsize |-> 0, chunks |-> <<>>, content |-> <<>>]
NoReq == [active |-> FALSE]
GAbsent == [ex |-> FALSE, c |-> <<>>]

ChunkEnd(ch) == ch.off + Len(ch.data)
ChunkTotal(e) == Max({0} \cup {ChunkEnd(e.chunks[k]) : k \in 1..Len(e.chunks)})
SizeOf(e) == Max({ChunkTotal(e), e.fsize, Len(e.content)})
ViewOf(e) ==
  LET n == SizeOf(e) IN
  IF n <= Len(e.content) THEN e.content
  ELSE [i \in 1..n |->
         LET cov == {k \in 1..Len(e.chunks) : e.chunks[k].off < i /\ i <= ChunkEnd(e.chunks[k])} IN
         IF cov = {} THEN Zero
         ELSE LET k == Max(cov) IN e.chunks[k].data[i - e.chunks[k].off]]

Init == /\ entry = [p \in Paths |-> NoEntry] /\ ghost = [p \in Paths |-> GAbsent]
        /\ req = NoReq /\ lastSt = "none" /\ nseg = 1 /\ hist = <<>>

Log(op) == hist' = Append(hist, op)

Start(p, op, n, fail) ==
  /\ ~req.active /\ Len(hist) < MaxOps /\ fail <= n
  /\ req' = [active |-> TRUE, p |-> p, op |-> op, s |-> nseg, n |-> n, fail |-> fail, pos |-> 0,
             chunks |-> <<>>, content |-> <<>>, err |-> FALSE, done |-> FALSE]
  /\ nseg' = nseg + 1
  /\ Log([ev |-> "write", p |-> p, op |-> op, s |-> nseg, n |-> n, fail |-> fail])
  /\ UNCHANGED <<entry, ghost, lastSt>>

ReadPiece ==
  /\ req.active /\ ~req.done
  /\ LET avail == (IF req.fail >= 0 THEN req.fail ELSE req.n) - req.pos
         d == Min2(avail, C)
         piece == BodyBytes(req.s, req.pos, req.pos + d)
     IN IF req.fail >= 0 /\ avail < C
        THEN req' = [req EXCEPT !.done = TRUE, !.err = TRUE]           \* ReadFrom returned an error
        ELSE IF d = 0
        THEN req' = [req EXCEPT !.done = TRUE]
        ELSE IF /\ req.pos = 0 /\ req.op # "append" /\ (d < L \/ Etc)
                /\ ("inline1" \in Bugs \/ d < C)
        THEN req' = [req EXCEPT !.content = piece, !.pos = d, !.done = TRUE]
        ELSE req' = [req EXCEPT !.chunks = Append(@, [off |-> req.pos, data |-> piece]),
                                !.pos = req.pos + d, !.done = (d < C)]
  /\ UNCHANGED <<entry, ghost, lastSt, nseg, hist>>

Shift(chs, by) == [k \in 1..Len(chs) |-> [off |-> chs[k].off + by, data |-> chs[k].data]]

(* the layer-A rule applied to the ghost with the status the procedure answers *)
GhostAfter(st) ==
  IF req.fail >= 0 \/ st # "ok" THEN ghost
  ELSE [ghost EXCEPT ![req.p] = [ex |-> TRUE, c |-> (IF req.op = "append" THEN ghost[req.p].c ELSE <<>>)
                                                     \o BodyBytes(req.s, 0, req.n)]]

Reply(st, ent) == /\ lastSt' = st /\ entry' = ent /\ ghost' = GhostAfter(st) /\ req' = NoReq
                  /\ UNCHANGED <<nseg, hist>>

Save ==
  /\ req.active /\ req.done
  /\ LET e == entry[req.p] IN
     IF req.err /\ "S29" \notin Bugs
     THEN Reply("err", entry)
     ELSE IF req.op = "append" /\ e.ex
     THEN IF Len(e.content) > 0
          THEN Reply("err", entry)                                  \* "append to small file is not supported yet"
          ELSE LET off == IF "S30" \in Bugs THEN e.fsize ELSE SizeOf(e) IN
               Reply("ok", [entry EXCEPT ![req.p] = [ex |-> TRUE, fsize |-> off + req.pos,
                                                     chunks |-> e.chunks \o Shift(req.chunks, off),
                                                     content |-> <<>>]])
     ELSE Reply("ok", [entry EXCEPT ![req.p] = [ex |-> TRUE, fsize |-> req.pos, chunks |-> req.chunks,
                                                content |-> req.content]])

(* entries made through the filer's gRPC API: chunk list with / without the FileSize attribute, inline content *)
RECURSIVE Layout(_, _, _)
Layout(segs, k, off) ==
  IF k > Len(segs) THEN <<>>
  ELSE (IF segs[k].n = 0 THEN <<>> ELSE <<[off |-> off, data |-> BodyBytes(segs[k].s, 0, segs[k].n)]>>)
       \o Layout(segs, k + 1, off + segs[k].n)
RECURSIVE AllBytes(_, _)
AllBytes(segs, k) == IF k > Len(segs) THEN <<>> ELSE BodyBytes(segs[k].s, 0, segs[k].n) \o AllBytes(segs, k + 1)

Create(p, how, n) ==
  /\ ~req.active /\ Len(hist) < MaxOps
  /\ LET segs == <<[s |-> nseg, n |-> n]>>
         bytes == AllBytes(segs, 1)
     IN /\ entry' = [entry EXCEPT ![p] =
                       IF how = "inline" THEN [ex |-> TRUE, fsize |-> 0, chunks |-> <<>>, content |-> bytes]
                       ELSE [ex |-> TRUE, fsize |-> (IF how = "chunks" THEN Len(bytes) ELSE 0),
                             chunks |-> Layout(segs, 1, 0), content |-> <<>>]]
        /\ ghost' = [ghost EXCEPT ![p] = [ex |-> TRUE, c |-> bytes]]
        /\ Log([ev |-> "create", p |-> p, how |-> how, segs |-> segs])
  /\ nseg' = nseg + 1
  /\ UNCHANGED <<req, lastSt>>

Next ==
  \/ \E p \in Paths, op \in {"set", "append"}, n \in Sizes, fail \in {-1} \cup Fails : Start(p, op, n, fail)
  \/ ReadPiece
  \/ Save
  \/ \E p \in Paths, how \in {"chunks", "nosize", "inline"}, n \in Sizes : Create(p, how, n)
Spec == Init /\ [][Next]_vars

(* ---- the property, at design level ---- *)
LastFailed == hist # <<>> /\ hist[Len(hist)].ev = "write" /\ hist[Len(hist)].fail >= 0
Refines ==
  ~req.active =>
    /\ \A p \in Paths : /\ entry[p].ex = ghost[p].ex
                        /\ entry[p].ex => ViewOf(entry[p]) = ghost[p].c
    /\ LastFailed => lastSt = "err"
(* the chunk list of an entry written only through the handler has no overlap and no gap *)
Tiled(e) == \A i \in 1..SizeOf(e) :
              Len(e.content) > 0 \/ Cardinality({k \in 1..Len(e.chunks) : e.chunks[k].off < i /\ i <= ChunkEnd(e.chunks[k])}) = 1
NoOverlap == ~req.active => \A p \in Paths : entry[p].ex => Tiled(entry[p])

(* ---- generators ---- *)
Shape(e) == [ex |-> e.ex, fsize |-> e.fsize, clen |-> Len(e.content),
             chunks |-> [k \in 1..Len(e.chunks) |-> <<e.chunks[k].off, Len(e.chunks[k].data)>>]]
LastIn == IF hist = <<>> THEN <<>> ELSE LET h == hist[Len(hist)] IN
          IF h.ev = "write" THEN <<h.p, h.op, h.n, h.fail>> ELSE <<h.p, h.how, h.segs[1].n>>
ReqShape == IF req.active THEN <<req.pos, Len(req.chunks), Len(req.content), req.err, req.done>> ELSE <<>>
View == <<[p \in Paths |-> Shape(entry[p])], ReqShape, lastSt, LastIn, Len(hist)>>
MCView == <<entry, req, ghost, lastSt, nseg, Len(hist), LastFailed>>
Emit == (req.active \/ Len(hist) < MaxOps) \/ PrintT(<<"W", ToJson(hist)>>)
EmitW == (req.active \/ hist = <<>>) \/ PrintT(<<"W", ToJson(hist)>>)
(* histories after which the MODEL (with Bugs switched on) reads back something else than the ghost *)
EmitDiv == Refines \/ PrintT(<<"W", ToJson(hist)>>)
=============================================================================
