--------------------------- MODULE PosixFileTrace ---------------------------
(* C30 judge.  Two kinds of executions, both against PosixFile.tla:

   mount executions (driver mode wfs): write / read / trunc / attr / flush / reopen on a real
     FileHandle + File; after every flush or re-open `stored` = the entry as the filer has it
     (chunk list with the bytes of every chunk fetched from the volume server, size attribute)
     and `body` = what the filer's HTTP GET returns for the file.
   buffer executions (driver mode ivl): add / dread / dsnap / lists / take on the interval
     structures of the two dirty-page buffers. *)
EXTENDS PosixFile, TraceKit
tvars == <<avars, kitvars>>
D2 == "C30-truncate-keeps-dirty-pages"
(* P = TRUE makes TLC evaluate P as a plain expression (no enumeration of witnesses as successors) *)
Is(P) == P = TRUE
TraceInit == Init /\ KitInit
TraceReset == IsReset /\ data' = <<>> /\ dirty' = {} /\ asize' = 0 /\ UNCHANGED hist
TraceSkip == SkipStep /\ UNCHANGED avars

TWrite == /\ IsEvent("write") /\ Strict /\ Ev.err = "" /\ Ev.n = Len(Ev.data)
          /\ Write(Ev.off, Ev.data) /\ UNCHANGED hist
TRead == /\ IsEvent("read") /\ Ev.err = ""
         /\ \/ Strict /\ Read(Ev.off, Ev.n, Ev.got)
            \/ Deviate(D2) /\ ReadShort(Ev.off, Ev.n, Ev.got)
         /\ UNCHANGED hist
TTrunc == /\ IsEvent("trunc") /\ Ev.err = ""
          /\ \/ Strict /\ Truncate(Ev.size)
             \/ Deviate(D2) /\ TruncateKeepsDirty(Ev.size)
          /\ UNCHANGED hist
TAttr == /\ IsEvent("attr") /\ Ev.err = ""
         /\ \/ Strict /\ Attr(Ev.size)
            \/ Deviate(D2) /\ AttrStale(Ev.size)
         /\ UNCHANGED hist
TFlush == IsEvent("flush") /\ Strict /\ Ev.err = "" /\ Flush /\ UNCHANGED hist
TReopen == IsEvent("reopen") /\ Strict /\ Ev.err = "" /\ Reopen /\ UNCHANGED hist

(* the filer's GET of the stored file.  Two defects of the filer's streaming path show on
   files the mount stores (both outside the dirty-page code): holes are skipped (the finding
   C17-stream-skips-holes), and a chunk that the mount's truncate shortened in the entry is
   streamed with all the bytes of its needle (StreamContent takes a view as long as the entry's
   chunk size for "the full chunk" and fetches it without a range). *)
HasHole(chunks) == \E i \in 0..(Len(data) - 1) : \A k \in 1..Len(chunks) : ~(chunks[k].off <= i /\ i < chunks[k].off + chunks[k].size)
HasShrunk(chunks) == \E k \in 1..Len(chunks) : Len(chunks[k].bytes) > chunks[k].size
BodyDevs(chunks) == (IF HasHole(chunks) THEN {"C30-filer-get-skips-holes"} ELSE {})
                    \cup (IF HasShrunk(chunks) THEN {"C30-filer-get-streams-whole-shrunk-chunk"} ELSE {})
TStored == /\ IsEvent("stored")
           /\ Ev.found /\ Ev.content = <<>>
           /\ \A k \in 1..Len(Ev.chunks) : Ev.chunks[k].st = 200 /\ ~Ev.chunks[k].manifest
           /\ Is(StoredOk(Ev.chunks, Ev.fsize))
           /\ \/ Strict /\ Ev.status = 200 /\ Ev.body = data
              \/ Ev.body # data /\ Is(BodyDevs(Ev.chunks) # {}) /\ DeviateAll(BodyDevs(Ev.chunks))
           /\ UNCHANGED avars

(* ---- the buffers alone ---- *)
TAdd == IsEvent("add") /\ Strict /\ Write(Ev.off, Ev.data) /\ UNCHANGED hist
TDread == IsEvent("dread") /\ Strict /\ Is(DirtyReadOk(Ev.off, Ev.n, Ev.got, Ev.stop)) /\ UNCHANGED avars
TLists == IsEvent("lists") /\ Strict /\ Is(ListsOk(Ev.ls)) /\ UNCHANGED avars
TTake == IsEvent("take") /\ Strict /\ Take([off |-> Ev.off, size |-> Ev.size, bytes |-> Ev.bytes]) /\ UNCHANGED hist

TraceNext == TraceReset \/ TraceSkip \/ TWrite \/ TRead \/ TTrunc \/ TAttr \/ TFlush \/ TReopen \/ TStored
             \/ TAdd \/ TDread \/ TLists \/ TTake
TraceSpec == TraceInit /\ [][TraceNext]_tvars
=============================================================================
