SPECIFICATION SSpec
INVARIANT StreamSound
INVARIANT ReachOnlyAllowed
CHECK_DEADLOCK FALSE
