------------------------------- MODULE Codecs -------------------------------
(* C08 - persistent identifiers and headers round-trip exactly.

   Every codec of the property is DEFINED here as a TLA+ function / relation
   over small-integer sequences (bytes 0..255, text as code points):

     TTL            (count, unit)  <->  2 bytes  <->  uint32  <->  text "<count><unit>"
     placement      (dc, rack, same) in (0..2)^3  <->  byte  <->  3 characters
     file id        (vid[4], key[8], cookie[4])  <->  "<vid decimal>,<key hex, leading zero
                    bytes stripped><cookie, 8 hex>"   (numbers never enter the spec as
                    integers wider than 16 bits: vid is 4 bytes, its decimal numeral is
                    computed digit by digit)
     index entry    (key[8], offset units, size[4])  <->  12+OffsetSize bytes
     super block    (version, placement, ttl, revision, extra)  <->  8 + n bytes

   For text input the spec classifies every string as
     exact    the image of the encoder: must decode to exactly that value;
     lenient  not produced by the encoder but with one natural reading (leading
              zeros, upper-case hex, '+' sign, count without unit, count 0 ...):
              the statement is silent, the decoder may reject it or return the
              natural reading - never anything else;
     open     placement strings shorter than 3 characters: no reading is fixed
              by the statement, every outcome is admitted;
     invalid  everything else: must be rejected.

   TLC (a) model-checks the laws below over the enumerated domains
   (Decode(Encode(v)) = v; the structural "exact" test coincides with image
   membership; invalid strings are outside every image), (b) emits every element
   of the domain as a script operation for the real code, (c) judges what the
   real codecs returned (CodecsTrace.tla). *)
EXTENDS Integers, Sequences, FiniteSets, TLC, Json
CONSTANTS OffsetSize,   \* 4 (default build) or 5 (build tag 5BytesOffset)
          Level         \* 1 quick, 2 thorough: size of the enumerated domains
VARIABLES cur, hist
vars == <<cur, hist>>

(* ------------------------------------------------------------------ helpers *)
Byte == 0..255
RECURSIVE Rep(_, _)
Rep(x, n) == IF n <= 0 THEN <<>> ELSE <<x>> \o Rep(x, n - 1)
Front(s) == SubSeq(s, 1, Len(s) - 1)
IsDigit(c) == c \in 48..57
AllIn(s, S) == \A i \in 1..Len(s) : s[i] \in S
RECURSIVE StripLeading(_, _)
StripLeading(s, x) == IF s # <<>> /\ s[1] = x THEN StripLeading(Tail(s), x) ELSE s
RECURSIVE DecR(_)
DecR(n) == IF n = 0 THEN <<>> ELSE DecR(n \div 10) \o <<48 + (n % 10)>>
Dec(n) == IF n = 0 THEN <<48>> ELSE DecR(n)          \* decimal numeral (code points) of a small n
RECURSIVE NumVal(_)
NumVal(s) == IF s = <<>> THEN 0 ELSE NumVal(Front(s)) * 10 + (s[Len(s)] - 48)   \* only for Len(s) <= 4

HexDigit(d) == IF d < 10 THEN 48 + d ELSE 87 + d     \* lower case
HexVal(c) == IF c \in 48..57 THEN c - 48 ELSE IF c \in 97..102 THEN c - 87 ELSE IF c \in 65..70 THEN c - 55 ELSE -1
IsHex(c) == HexVal(c) >= 0
IsLowerHex(c) == c \in 48..57 \/ c \in 97..102
RECURSIVE HexBytes(_)
HexBytes(bs) == IF bs = <<>> THEN <<>> ELSE <<HexDigit(bs[1] \div 16), HexDigit(bs[1] % 16)>> \o HexBytes(Tail(bs))
RECURSIVE UnHex(_)     \* even number of hex characters -> bytes
UnHex(cs) == IF cs = <<>> THEN <<>> ELSE <<HexVal(cs[1]) * 16 + HexVal(cs[2])>> \o UnHex(SubSeq(cs, 3, Len(cs)))

(* decimal numerals of multi-byte numbers, digit by digit (TLC integers are 32 bit) *)
RECURSIVE MulAdd(_, _)      \* digits (values, most significant first) * 256 + carry
MulAdd(ds, carry) ==
  IF ds = <<>> THEN (IF carry = 0 THEN <<>> ELSE MulAdd(<<>>, carry \div 10) \o <<carry % 10>>)
  ELSE LET x == ds[Len(ds)] * 256 + carry IN MulAdd(Front(ds), x \div 10) \o <<x % 10>>
RECURSIVE DecOfBytesR(_, _)
DecOfBytesR(bs, acc) == IF bs = <<>> THEN acc ELSE DecOfBytesR(Tail(bs), MulAdd(acc, bs[1]))
DecOfBytes(bs) == LET d == DecOfBytesR(bs, <<>>) IN     \* code points, canonical
                  IF d = <<>> THEN <<48>> ELSE [i \in 1..Len(d) |-> 48 + d[i]]
RECURSIVE DivR(_, _, _)     \* long division of a digit sequence by 256: <<quotient digits, remainder>>
DivR(ds, r, q) == IF ds = <<>> THEN <<q, r>>
                  ELSE LET c == r * 10 + ds[1] IN DivR(Tail(ds), c % 256, Append(q, c \div 256))
RECURSIVE BytesOfDecR(_, _, _)
BytesOfDecR(ds, n, acc) == IF n = 0 THEN <<acc, ds>>
                           ELSE LET d == DivR(ds, 0, <<>>) IN BytesOfDecR(d[1], n - 1, <<d[2]>> \o acc)
(* digits (code points) -> [fits, bytes]: the n-byte big-endian value of the numeral *)
BytesOfDec(cs, n) == LET r == BytesOfDecR([i \in 1..Len(cs) |-> cs[i] - 48], n, <<>>)
                     IN [fits |-> AllIn(r[2], {0}), bytes |-> r[1]]

(* --------------------------------------------------------------------- TTL *)
UnitChar == <<109, 104, 100, 119, 77, 121>>            \* m h d w M y  = stored units 1..6
UnitOf(ch) == IF \E u \in 1..6 : UnitChar[u] = ch THEN CHOOSE u \in 1..6 : UnitChar[u] = ch ELSE 0
EmptyTtl == <<0, 0>>
TTLDom == {EmptyTtl} \cup ((1..255) \X (1..6))         \* the values the system writes
TtlString(t) == IF t[1] = 0 \/ t[2] \notin 1..6 THEN <<>> ELSE Dec(t[1]) \o <<UnitChar[t[2]]>>
TtlBytes(t) == <<t[1], t[2]>>
TtlFromBytes(b) == <<b[1], b[2]>>
TtlU32(t) == IF t[1] = 0 THEN 0 ELSE t[1] * 256 + t[2]
TtlFromU32(n) == <<(n \div 256) % 256, n % 256>>

Invalid == [cls |-> "invalid"]
TtlClass(s) ==
  IF s = <<>> THEN [cls |-> "exact", c |-> 0, u |-> 0]
  ELSE LET last == s[Len(s)]
           nounit == IsDigit(last)
           body == IF nounit THEN s ELSE Front(s)
           u == IF nounit THEN 1 ELSE UnitOf(last)
           plus == body # <<>> /\ body[1] \in {43, 45}          \* a sign; "-0" still reads as zero
           minus == body # <<>> /\ body[1] = 45
           digs == IF plus THEN Tail(body) ELSE body
           sig == StripLeading(digs, 48)
       IN IF u = 0 \/ digs = <<>> \/ ~AllIn(digs, 48..57) \/ Len(sig) > 3 THEN Invalid
          ELSE IF NumVal(sig) > 255 \/ (minus /\ sig # <<>>) THEN Invalid
          ELSE [cls |-> IF ~nounit /\ ~plus /\ sig = digs THEN "exact" ELSE "lenient", c |-> NumVal(sig), u |-> u]
(* res = [err, c, u] as returned by the decoder *)
TtlStrOk(s, res) ==
  LET k == TtlClass(s) IN
  CASE k.cls = "exact" -> ~res.err /\ res.c = k.c /\ res.u = k.u
    [] k.cls = "lenient" -> res.err \/ (IF k.c = 0 THEN res.c = 0 ELSE res.c = k.c /\ res.u = k.u)
    [] OTHER -> res.err
(* the same text as the ttl parameter of an upload: the stored needle carries that TTL (a count of 0 = none);
   text that is no TTL is refused, not stored as some other TTL *)
UpTtlOk(s, res) ==
  LET k == TtlClass(s)
      same == ~res.err /\ (IF k.c = 0 THEN res.c = 0 ELSE res.c = k.c /\ res.u = k.u) IN
  CASE k.cls = "exact" -> same
    [] k.cls = "lenient" -> res.err \/ same
    [] OTHER -> res.err
(* everything observed for one TTL value *)
TtlValOk(c, u, r) ==
  LET t == <<c, u>> IN
  /\ r.by = TtlBytes(t) /\ r.fb = t                              \* bytes: every pair round-trips
  /\ (t \in TTLDom => /\ r.str = TtlString(t)
                      /\ r.u32 = TtlU32(t) /\ r.fu = t
                      /\ ~r.fs.err /\ <<r.fs.c, r.fs.u>> = t)

(* --------------------------------------------------------------- placement *)
RpDom == (0..2) \X (0..2) \X (0..2)                    \* <<other data centres, other racks, same rack>>
RpByte(p) == p[1] * 100 + p[2] * 10 + p[3]
RpString(p) == <<48 + p[1], 48 + p[2], 48 + p[3]>>
RpByteValid(b) == b \div 100 <= 2 /\ (b \div 10) % 10 <= 2 /\ b % 10 <= 2
RpOfByte(b) == <<b \div 100, (b \div 10) % 10, b % 10>>
RpClass(s) ==
  IF ~AllIn(s, 48..50) THEN Invalid
  ELSE IF Len(s) = 3 THEN [cls |-> "exact", p |-> <<s[1] - 48, s[2] - 48, s[3] - 48>>]
  ELSE IF Len(s) < 3 THEN [cls |-> "open"] ELSE Invalid
RpStrOk(s, res) ==
  LET k == RpClass(s) IN
  CASE k.cls = "exact" -> ~res.err /\ res.p = k.p
    [] k.cls = "open" -> TRUE
    [] OTHER -> res.err
(* C08-rp-overlong: more than three characters, all of them 0..2, are accepted and the tail ignored *)
RpStrOverlongAccepted(s, res) ==
  /\ Len(s) > 3 /\ AllIn(s, 48..50)
  /\ ~res.err /\ res.p = <<s[1] - 48, s[2] - 48, s[3] - 48>>
RpByteOk(b, res) == IF RpByteValid(b) THEN ~res.err /\ res.p = RpOfByte(b) ELSE res.err
RpValOk(p, r) ==
  /\ r.str = RpString(p) /\ r.by = RpByte(p)
  /\ ~r.fs.err /\ r.fs.p = p
  /\ ~r.fb.err /\ r.fb.p = p

(* ----------------------------------------------------------------- file id *)
Zero(n) == Rep(0, n)
FidText(vid, key, ck) == DecOfBytes(vid) \o <<44>> \o HexBytes(StripLeading(key, 0)) \o HexBytes(ck)
FirstComma(s) == IF \E i \in 1..Len(s) : s[i] = 44 THEN CHOOSE i \in 1..Len(s) : s[i] = 44 /\ \A j \in 1..(i - 1) : s[j] # 44 ELSE 0
FidClass(s) ==
  LET ci == FirstComma(s) IN
  IF ci <= 1 THEN Invalid
  ELSE LET vs == SubSeq(s, 1, ci - 1)
           rest == SubSeq(s, ci + 1, Len(s))
       IN IF ~AllIn(vs, 48..57) \/ Len(rest) < 9 \/ Len(rest) > 24 \/ ~(\A i \in 1..Len(rest) : IsHex(rest[i])) THEN Invalid
          ELSE LET v == BytesOfDec(vs, 4)
                   kc == UnHex(Rep(48, 24 - Len(rest)) \o rest)
                   canon == /\ (vs = <<48>> \/ vs[1] # 48)
                            /\ \A i \in 1..Len(rest) : IsLowerHex(rest[i])
                            /\ Len(rest) % 2 = 0
                            /\ ~(rest[1] = 48 /\ rest[2] = 48)
               IN IF ~v.fits THEN Invalid
                  ELSE [cls |-> IF canon THEN "exact" ELSE "lenient",
                        vid |-> v.bytes, key |-> SubSeq(kc, 1, 8), ck |-> SubSeq(kc, 9, 12)]
FidStrOk(s, res) ==
  LET k == FidClass(s)
      same == ~res.err /\ res.vid = k.vid /\ res.key = k.key /\ res.ck = k.ck IN
  CASE k.cls = "exact" -> same
    [] k.cls = "lenient" -> res.err \/ same
    [] OTHER -> res.err
(* key 0 is never handed out (sequencers start at 1): outside the statement *)
FidValOk(vid, key, ck, r) ==
  key # Zero(8) => /\ r.str = FidText(vid, key, ck)
                   /\ ~r.back.err /\ r.back.vid = vid /\ r.back.key = key /\ r.back.ck = ck

(* URL form of a needle id: "<key hex><cookie hex>[_<delta>]" means key + delta (Needle.ParsePath);
   deltas of more than 4 significant digits and sums beyond 2^64 are left open *)
RECURSIVE AddC(_, _)
AddC(bs, c) == IF bs = <<>> THEN <<>> ELSE LET x == bs[Len(bs)] + c IN AddC(Front(bs), x \div 256) \o <<x % 256>>
RECURSIVE Carry(_, _)
Carry(bs, c) == IF bs = <<>> THEN c ELSE Carry(Front(bs), (bs[Len(bs)] + c) \div 256)
LastUnderscore(s) == IF \E i \in 1..Len(s) : s[i] = 95 THEN CHOOSE i \in 1..Len(s) : s[i] = 95 /\ \A j \in (i + 1)..Len(s) : s[j] # 95 ELSE 0
PathClass(s) ==
  LET ui == LastUnderscore(s)
      base == IF ui > 1 THEN SubSeq(s, 1, ui - 1) ELSE s
      delta == IF ui > 1 THEN SubSeq(s, ui + 1, Len(s)) ELSE <<>>
      sig == StripLeading(delta, 48)
  IN IF Len(base) < 9 \/ Len(base) > 24 \/ ~(\A i \in 1..Len(base) : IsHex(base[i])) \/ ~AllIn(delta, 48..57) THEN Invalid
     ELSE IF Len(sig) > 4 THEN [cls |-> "open"]
     ELSE LET kc == UnHex(Rep(48, 24 - Len(base)) \o base)
              d == NumVal(sig)
              canon == /\ \A i \in 1..Len(base) : IsLowerHex(base[i])
                       /\ Len(base) % 2 = 0 /\ ~(base[1] = 48 /\ base[2] = 48)
                       /\ (ui > 1 => delta # <<>> /\ delta[1] # 48)
          IN IF Carry(SubSeq(kc, 1, 8), d) # 0 THEN [cls |-> "open"]
             ELSE [cls |-> IF canon THEN "exact" ELSE "lenient", key |-> AddC(SubSeq(kc, 1, 8), d), ck |-> SubSeq(kc, 9, 12)]
(* the same text in an upload path, where a trailing .<ext> is not part of the id *)
LastDotIx(s) == IF \E i \in 1..Len(s) : s[i] = 46 THEN CHOOSE i \in 1..Len(s) : s[i] = 46 /\ \A j \in (i + 1)..Len(s) : s[j] # 46 ELSE 0
StripExt(s) == IF LastDotIx(s) > 0 THEN SubSeq(s, 1, LastDotIx(s) - 1) ELSE s
PathOk(s, res) ==
  LET k == PathClass(s)
      same == ~res.err /\ res.key = k.key /\ res.ck = k.ck IN
  CASE k.cls = "exact" -> same
    [] k.cls = "lenient" -> res.err \/ same
    [] k.cls = "open" -> TRUE
    [] OTHER -> res.err

(* ------------------------------------------------------------- index entry *)
(* off = the offset in units of 8 bytes as a 5-byte big-endian number; the stored
   form is the low four bytes big-endian, followed by the fifth (highest) byte
   when OffsetSize = 5 *)
OffEnc(off) == <<off[2], off[3], off[4], off[5]>> \o (IF OffsetSize = 5 THEN <<off[1]>> ELSE <<>>)
OffDec(b) == <<IF OffsetSize = 5 THEN b[5] ELSE 0, b[1], b[2], b[3], b[4]>>
EntrySize == 12 + OffsetSize
IdxEncode(key, off, size) == key \o OffEnc(off) \o size
IdxDecode(b) == [key |-> SubSeq(b, 1, 8), off |-> OffDec(SubSeq(b, 9, 8 + OffsetSize)),
                 size |-> SubSeq(b, 9 + OffsetSize, EntrySize)]
OffInRange(off) == OffsetSize = 5 \/ off[1] = 0
IdxOk(key, off, size, r) ==
  OffInRange(off) => /\ r.by = IdxEncode(key, off, size) /\ r.nv = r.by
                     /\ r.back = [key |-> key, off |-> off, size |-> size]
IdxRawOk(by, r) ==
  Len(by) = EntrySize => /\ [key |-> r.key, off |-> r.off, size |-> r.size] = IdxDecode(by)
                         /\ r.re = by
WalkOk(ents, r) == ~r.err /\ r.got = ents

(* ------------------------------------------------------------- super block *)
SbHeader(ver, p, ttl, rev, es) ==
  <<ver, RpByte(p), ttl[1], ttl[2], rev \div 256, rev % 256, es \div 256, es % 256>>
SbValOk(a, r) ==
  LET es == Len(r.by) - 8 IN
  /\ Len(r.by) >= 8
  /\ SubSeq(r.by, 1, 8) = SbHeader(a.ver, a.p, a.ttl, a.rev, es)
  /\ (~a.extra.present => es = 0)
  /\ (a.ver \in {2, 3} => r.bs = 8 + es)
  /\ ~r.back.err
  /\ r.back.ver = a.ver /\ r.back.p = a.p /\ r.back.ttl = a.ttl /\ r.back.rev = a.rev /\ r.back.es = es
  /\ (es > 0 => r.back.extra = a.extra)
SbRawOk(by, r) ==
  IF Len(by) < 8 THEN r.err
  ELSE LET es == by[7] * 256 + by[8]
           good == /\ ~r.err /\ r.ver = by[1] /\ r.p = RpOfByte(by[2]) /\ r.ttl = <<by[3], by[4]>>
                   /\ r.rev = by[5] * 256 + by[6] /\ r.es = es
       IN IF ~RpByteValid(by[2]) \/ es > Len(by) - 8 THEN r.err      \* bad placement byte, truncated extra
          ELSE IF es = 0 /\ by[1] \in {1, 2, 3} THEN good
          ELSE good \/ r.err       \* unknown version or opaque extra bytes: may be refused

(* ------------------------------------------------ enumerated domains, laws *)
TtlAlphabet == IF Level = 1 THEN {48, 49, 50, 53, 54, 109, 121, 120, 45, 43}
               ELSE {48, 49, 50, 53, 54, 57, 109, 104, 121, 120, 45, 43, 32}
StrsUpTo(A, n) == UNION {[1..k -> A] : k \in 0..n}
TtlStrU == StrsUpTo(TtlAlphabet, IF Level = 1 THEN 3 ELSE 4) \cup
           {s \o <<109>> : s \in [1..4 -> {48, 50, 53, 54}]}        \* 4-digit counts around 255/256
RpStrU == StrsUpTo({48, 49, 50, 51, 97}, 4)
VidU == {<<0,0,0,0>>, <<0,0,0,1>>, <<0,0,0,10>>, <<0,0,0,255>>, <<0,0,1,0>>, <<127,255,255,255>>,
         <<128,0,0,0>>, <<255,255,255,255>>}
KeyU == {Zero(i) \o <<a>> \o Rep(b, 7 - i) : i \in 0..7, a \in (IF Level = 1 THEN {1, 255} ELSE {1, 15, 16, 255}),
                                              b \in (IF Level = 1 THEN {0, 171} ELSE {0, 171, 255})}
CkU == {<<0,0,0,0>>, <<255,255,255,255>>, <<0,255,0,16>>} \cup (IF Level = 1 THEN {} ELSE {<<0,0,0,1>>, <<10,11,12,13>>})
T(str) == CASE str = "" -> <<>>                                   \* small text constants as code points
  [] str = "0" -> <<48>> [] str = "3" -> <<51>> [] str = "03" -> <<48,51>> [] str = "-3" -> <<45,51>>
  [] str = "+3" -> <<43,51>> [] str = "3x" -> <<51,120>> [] str = " 3" -> <<32,51>>
  [] str = "4294967295" -> <<52,50,57,52,57,54,55,50,57,53>>
  [] str = "4294967296" -> <<52,50,57,52,57,54,55,50,57,54>>
  [] str = "4294967297" -> <<52,50,57,52,57,54,55,50,57,55>>
  [] str = "99999999999" -> Rep(57, 11)
  [] str = "," -> <<44>> [] str = ",," -> <<44,44>> [] str = "_" -> <<95>>
  [] str = "1" -> <<49>> [] str = "01" -> <<48,49>> [] str = "0001" -> <<48,48,48,49>> [] str = "00" -> <<48,48>>
  [] str = "ab" -> <<97,98>> [] str = "AB" -> <<65,66>> [] str = "aB" -> <<97,66>> [] str = "g1" -> <<103,49>>
  [] str = "+1" -> <<43,49>> [] str = "0x" -> <<48,120>>
  [] str = "z16" -> Rep(48, 15) \o <<49>> [] str = "z17" -> Rep(48, 16) \o <<49>> [] str = "f16" -> Rep(102, 16)
  [] str = "deadbeef" -> <<100,101,97,100,98,101,101,102>>
  [] str = "DEADBEEF" -> <<68,69,65,68,66,69,69,70>>
  [] str = "00000000" -> Rep(48, 8) [] str = "0000000g" -> Rep(48, 7) \o <<103>>
  [] str = "deadbee" -> <<100,101,97,100,98,101,101>>
  [] str = "+eadbeef" -> <<43,101,97,100,98,101,101,102>>
  [] str = "dead_eef" -> <<100,101,97,100,95,101,101,102>>
FidStrU == {T(v) \o T(sep) \o T(k) \o T(c) :
              v \in {"", "0", "3", "03", "4294967295", "4294967296", "-3", "3x"} \cup
                    (IF Level = 1 THEN {} ELSE {"4294967297", "99999999999", "+3", " 3"}),
              sep \in {",", "", ",,"} \cup (IF Level = 1 THEN {} ELSE {"_"}),
              k \in {"", "1", "01", "00", "aB", "z16", "z17", "g1"} \cup
                    (IF Level = 1 THEN {} ELSE {"0001", "ab", "AB", "f16", "+1", "0x"}),
              c \in {"deadbeef", "DEADBEEF", "0000000g", "deadbee", "+eadbeef"} \cup
                    (IF Level = 1 THEN {} ELSE {"00000000", "dead_eef"})}
OffU == {<<0,0,0,0,0>>, <<0,0,0,0,1>>, <<0,0,0,1,0>>, <<0,1,2,3,4>>, <<0,255,255,255,255>>, <<0,128,0,0,0>>} \cup
        (IF OffsetSize = 5 THEN {<<1,0,0,0,0>>, <<255,255,255,255,255>>, <<9,1,2,3,4>>} ELSE {})
SizeU == {<<0,0,0,0>>, <<0,0,0,1>>, <<255,255,255,255>>, <<127,255,255,255>>, <<128,0,0,0>>, <<1,2,3,4>>}
ExtraU == {[present |-> FALSE, data |-> 0, parity |-> 0, ids |-> <<>>],
           [present |-> TRUE, data |-> 0, parity |-> 0, ids |-> <<>>],
           [present |-> TRUE, data |-> 10, parity |-> 4, ids |-> <<>>],
           [present |-> TRUE, data |-> 10, parity |-> 4, ids |-> <<1, 2, 300>>]}
SbU == [ver : {1, 2, 3}, p : {<<0,0,0>>, <<0,0,1>>, <<1,1,0>>, <<2,2,2>>}, ttl : {<<0,0>>, <<3,1>>, <<255,6>>},
        rev : {0, 256, 65535} \cup (IF Level = 1 THEN {} ELSE {1, 255}), extra : ExtraU]

PathU == {HexBytes(StripLeading(key, 0)) \o HexBytes(ck) \o suf :
            key \in {Zero(7) \o <<1>>, Zero(6) \o <<1, 255>>, Zero(4) \o <<255, 255, 255, 255>>, Rep(255, 8), <<1>> \o Zero(7), Zero(8)},
            ck \in {<<0,0,0,0>>, <<222,173,190,239>>},
            suf \in {<<>>, <<95>>, <<95,49>>, <<95,50,53,53>>, <<95,57,57,57,57>>, <<95,48,49>>, <<95,48>>, <<95,49,48,48,48,48>>,
                     <<95,120>>, <<95,45,49>>, <<95,49,95,50>>, <<95,95,49>>}}
Domain ==
  [k : {"ttlval"}, c : 0..255, u : 0..6] \cup
  [k : {"ttlstr"}, s : TtlStrU] \cup
  [k : {"rpval"}, p : RpDom] \cup
  [k : {"rpbyte"}, b : 0..255] \cup
  [k : {"rpstr"}, s : RpStrU] \cup
  [k : {"fidval"}, vid : VidU, key : KeyU, ck : CkU] \cup
  [k : {"fidstr"}, s : FidStrU] \cup
  [k : {"idx"}, key : KeyU, off : OffU, size : SizeU] \cup
  [k : {"path"}, s : PathU] \cup
  [k : {"sbval"}, a : SbU]

TtlImage == {TtlString(t) : t \in TTLDom}
RpImage == {RpString(p) : p \in RpDom}
Exactly(k, f) == k.cls = "exact" /\ f
Laws(x) ==
  CASE x.k = "ttlval" ->
         LET t == <<x.c, x.u>> IN
         /\ TtlFromBytes(TtlBytes(t)) = t
         /\ (t \in TTLDom => /\ TtlFromU32(TtlU32(t)) = t
                             /\ LET k == TtlClass(TtlString(t)) IN k.cls = "exact" /\ <<k.c, k.u>> = t)
    [] x.k = "ttlstr" ->
         LET k == TtlClass(x.s) IN
         /\ (k.cls = "exact") = (x.s \in TtlImage)                       \* structural test = image membership
         /\ (k.cls = "exact" => TtlString(<<k.c, k.u>>) = x.s)
         /\ (k.cls = "lenient" => (k.c = 0 \/ <<k.c, k.u>> \in TTLDom))
    [] x.k = "rpval" ->
         /\ RpByteValid(RpByte(x.p)) /\ RpOfByte(RpByte(x.p)) = x.p
         /\ LET k == RpClass(RpString(x.p)) IN k.cls = "exact" /\ k.p = x.p
    [] x.k = "rpbyte" -> RpByteValid(x.b) = (\E p \in RpDom : RpByte(p) = x.b)
    [] x.k = "rpstr" -> (RpClass(x.s).cls = "exact") = (x.s \in RpImage)
    [] x.k = "fidval" ->
         LET k == FidClass(FidText(x.vid, x.key, x.ck)) IN
         k.cls = "exact" /\ k.vid = x.vid /\ k.key = x.key /\ k.ck = x.ck
    [] x.k = "fidstr" ->
         LET k == FidClass(x.s) IN
         /\ (k.cls = "exact" => FidText(k.vid, k.key, k.ck) = x.s)
         /\ (k.cls = "lenient" => FidText(k.vid, k.key, k.ck) # x.s)
    [] x.k = "path" ->
         LET k == PathClass(x.s) IN
         /\ k.cls \in {"exact", "lenient", "open", "invalid"}
         /\ (k.cls = "exact" /\ LastUnderscore(x.s) = 0 =>            \* without delta: the text of a file id behind the comma
               LET f == FidClass(<<51, 44>> \o x.s) IN f.cls = "exact" /\ f.key = k.key /\ f.ck = k.ck)
         /\ (k.cls \in {"exact", "lenient"} => Len(k.key) = 8 /\ AllIn(k.key, Byte))
    [] x.k = "idx" ->
         OffInRange(x.off) =>
           /\ Len(IdxEncode(x.key, x.off, x.size)) = EntrySize
           /\ IdxDecode(IdxEncode(x.key, x.off, x.size)) = [key |-> x.key, off |-> x.off, size |-> x.size]
    [] x.k = "sbval" ->
         LET h == SbHeader(x.a.ver, x.a.p, x.a.ttl, x.a.rev, 0) IN
         /\ Len(h) = 8 /\ AllIn(h, Byte)
         /\ SbRawOk(h, [err |-> FALSE, ver |-> x.a.ver, p |-> x.a.p, ttl |-> x.a.ttl, rev |-> x.a.rev, es |-> 0])
    [] OTHER -> FALSE
LawsHold == Laws(cur)

(* ------------------------------------------------ generator (one op per behaviour) *)
OpOf(x) == [ev |-> x.k] @@ [f \in DOMAIN x \ {"k"} |-> x[f]]
Init == cur \in Domain /\ hist = <<>>
Next == hist = <<>> /\ hist' = <<OpOf(cur)>> /\ UNCHANGED cur
Spec == Init /\ [][Next]_vars
Emit == hist = <<>> \/ PrintT(<<"W", ToJson(hist)>>)
=============================================================================
