--------------------------- MODULE PathRulesTrace ---------------------------
(* judge for C23: executions recorded by harness/cmd/c23 from the real
   filer.FilerConf.  Events:
     add   p (token seq), c (rule record), err ("" when AddLocationConf returned nil)
     del   p
     match path, res (record returned by MatchStorageRule)
     snap  got  = results of MatchStorageRule for every path of Probe, in order
     dump  rules = ToProto().Locations as [p (token seq), c (rule record)]
     reload err  = ToText into a buffer, LoadFromBytes into a fresh FilerConf which replaces the old one *)
EXTENDS PathRules, TraceKit
CONSTANT Probe
tvars == <<vars, kitvars>>
TraceInit == Init /\ KitInit
TraceReset == IsReset /\ rules' = <<>> /\ UNCHANGED hist
TraceSkip == SkipStep /\ UNCHANGED vars
(* the statement does not say that adding a rule may fail: a reported error is not explained *)
TAdd == IsEvent("add") /\ Strict /\ Ev.err = "" /\ Add(Ev.p, Ev.c) /\ UNCHANGED hist
TDel == IsEvent("del") /\ Strict /\ Delete(Ev.p) /\ UNCHANGED hist
TMatch == IsEvent("match") /\ Strict /\ Match(Ev.path, Ev.res) /\ UNCHANGED hist
TSnap == /\ IsEvent("snap") /\ Strict
         /\ Len(Ev.got) = Len(Probe)
         /\ \A i \in 1..Len(Probe) : SameConf(Ev.got[i], Resolve(rules, Probe[i]))
         /\ UNCHANGED vars
TDump == IsEvent("dump") /\ Strict /\ Dump(Ev.rules) /\ UNCHANGED hist
TReload == IsEvent("reload") /\ Strict /\ Ev.err = "" /\ Reload /\ UNCHANGED hist
TraceNext == TraceReset \/ TraceSkip \/ TAdd \/ TDel \/ TMatch \/ TSnap \/ TDump \/ TReload
TraceSpec == TraceInit /\ [][TraceNext]_tvars
=============================================================================
