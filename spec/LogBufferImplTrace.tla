------------------------- MODULE LogBufferImplTrace -------------------------
(* C22 - conformance of layer B: the schedules generated from LogBufferImpl are
   replayed on the real LogBuffer with a snapshot of its unexported state after
   every step (verif hook VerifSnapshot); this module replays the recorded trace
   on the model and demands the same state, the same flusher hand-overs and the
   same deliveries.  Advisory (a mismatch is reported as model drift, it is not
   a verdict about the property). *)
EXTENDS LogBufferImpl, TraceKit
tvars == <<vars, kitvars>>
TraceInit == Init /\ KitInit
TraceReset == /\ IsReset
              /\ log' = <<>> /\ sub' = [r \in Readers |-> NoSub] /\ disk' = {}
              /\ lastTsNs' = 0
              /\ cur' = [buf |-> NSealed + 1, pos |-> 0, start |-> -1, stop |-> -1]
              /\ mem' = [b \in Bufs |-> <<>>]
              /\ sealed' = [i \in 1..NSealed |-> [buf |-> i, size |-> 0, start |-> -1, stop |-> -1]]
              /\ flushQ' = <<>> /\ infl' = <<>> /\ lft' = -1 /\ dlog' = <<>>
              /\ rs' = [r \in Readers |-> NoReader]
              /\ UNCHANGED hist
TraceSkip == SkipStep /\ UNCHANGED vars

(* the real state after the step (s = the recorded snapshot) is the model's *)
SnapOK(s) ==
  /\ cur'.buf = s.cur.mem /\ cur'.pos = s.cur.n /\ s.cur.rem = 0
  /\ cur'.start = s.cur.start /\ cur'.stop = s.cur.stop
  /\ Len(s.sealed) = NSealed
  /\ \A i \in 1..NSealed :
       /\ sealed'[i].buf = s.sealed[i].mem /\ sealed'[i].size = s.sealed[i].n /\ s.sealed[i].rem = 0
       /\ sealed'[i].start = s.sealed[i].start /\ sealed'[i].stop = s.sealed[i].stop
  /\ lft' = s.lft /\ lastTsNs' = s.last
  /\ Len(flushQ') + Len(infl') = s.pend

TAppend == /\ IsEvent("append") /\ Strict
           /\ Add(Ev.id, Ev.req)
           /\ UNCHANGED <<sub, disk, dlog, infl, lft, rs, hist>>
           /\ SnapOK(Ev.snap)
TTimer == /\ IsEvent("tflush") /\ Strict
          /\ IF cur.pos > 0 THEN TimerFlush ELSE UNCHANGED <<flushQ, sealed, cur, lastTsNs, mem, log>>
          /\ UNCHANGED <<sub, disk, dlog, infl, lft, rs, hist>>
          /\ SnapOK(Ev.snap)
TFlush1 == /\ IsEvent("fl1") /\ Strict
           /\ IF Ev.res = "ok"
              THEN /\ FlushBegin
                   /\ Ev.got = Head(flushQ).data /\ Ev.start = Head(flushQ).start /\ Ev.stop = Head(flushQ).stop
              ELSE /\ ~(infl = <<>> /\ flushQ # <<>>)
                   /\ UNCHANGED <<infl, flushQ, dlog>>
           /\ UNCHANGED <<log, sub, disk, lastTsNs, cur, mem, sealed, lft, rs, hist>>
           /\ SnapOK(Ev.snap)
TFlush2 == /\ IsEvent("fl2") /\ Strict
           /\ IF Ev.res = "ok" THEN FlushEnd /\ Ev.got = infl[1].data
                            ELSE infl = <<>> /\ UNCHANGED <<lft, infl, disk>>
           /\ UNCHANGED <<log, sub, dlog, lastTsNs, cur, mem, sealed, flushQ, rs, hist>>
           /\ SnapOK(Ev.snap)
TStart == /\ IsEvent("start") /\ Strict /\ Ev.r \in Readers
          /\ StartReader(Ev.r, Ev.t0)
          /\ UNCHANGED <<log, disk, dlog, lastTsNs, cur, mem, sealed, flushQ, infl, lft, hist>>
          /\ SnapOK(Ev.snap)
TRead == /\ IsEvent("rd") /\ Strict /\ Ev.r \in Readers
         /\ ReaderStep(Ev.r)
         /\ rs'[Ev.r].pc = Ev.pc
         /\ sub'[Ev.r].got = sub[Ev.r].got \o Ev.got
         /\ UNCHANGED <<log, disk, dlog, lastTsNs, cur, mem, sealed, flushQ, infl, lft, hist>>
         /\ SnapOK(Ev.snap)
TQuiesce == /\ IsEvent("quiesce") /\ Strict
            /\ Quiesce /\ dlog' = Ev.disk
            /\ UNCHANGED <<sub, rs, hist>>
            /\ SnapOK(Ev.snap)
TSilent == /\ (IsEvent("drain") \/ IsEvent("end")) /\ Strict
           /\ UNCHANGED vars
TraceNext == TraceReset \/ TraceSkip \/ TAppend \/ TTimer \/ TFlush1 \/ TFlush2 \/ TStart \/ TRead \/ TQuiesce \/ TSilent
TraceSpec == TraceInit /\ [][TraceNext]_tvars
=============================================================================
