SPECIFICATION Spec
INVARIANT CausalConverge
INVARIANT SomeLastWriter
INVARIANT VcOwn
CHECK_DEADLOCK FALSE
