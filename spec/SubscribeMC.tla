----------------------------- MODULE SubscribeMC -----------------------------
EXTENDS Subscribe
(* a small closed system over layer A alone, to model-check the wording above *)
CONSTANTS AMaxLog, AMaxTs
ANext == \/ \E req \in 1..AMaxTs, ts \in 1..AMaxTs :
              Len(log) < AMaxLog /\ AAppend(Len(log) + 1, req, ts) /\ UNCHANGED <<sub, disk>>
         \/ \E r \in Readers, t0 \in 0..AMaxTs : ~sub[r].on /\ AStart(r, t0) /\ UNCHANGED <<log, disk>>
         \/ \E r \in Readers, n \in 1..2 :
              /\ Len(sub[r].got) + n <= Len(Expected(r))
              /\ ADeliver(r, SubSeq(Expected(r), Len(sub[r].got) + 1, Len(sub[r].got) + n))
              /\ UNCHANGED <<log, disk>>
         \/ \E i \in 1..Len(log) : AFlushed({Id(log[j]) : j \in 1..i}) /\ UNCHANGED <<log, sub>>
         \/ \E r \in Readers, i \in 1..Len(log) :     \* any delivery at all that ADeliver / ADeliverLag admit
              /\ \/ ADeliver(r, <<log[i]>>)
                 \/ ADeliverLag(r, <<log[i]>>, TRUE)
              /\ UNCHANGED <<log, disk>>
ASpec == AInit /\ [][ANext]_avars
=============================================================================
