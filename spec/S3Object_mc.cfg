SPECIFICATION Spec
INVARIANT TypeOK
PROPERTY DeleteExact
PROPERTY WriteExact
PROPERTY CompleteAscending
CHECK_DEADLOCK FALSE
