SPECIFICATION Spec
INVARIANT ImplRefines
INVARIANT StoreRefines
CHECK_DEADLOCK FALSE
