----------------------------- MODULE VolumeCrash -----------------------------
(* Layer B for C03: VolumeImpl plus a crash-and-reopen step.

   Crash(nd, torn, ni): the data file keeps its first nd records (plus, when torn,
   a partial record), the index file its first ni entries, ni not beyond the entries
   whose record is among the first nd.  Reopening runs CheckAndFixVolumeDataIntegrity
   as the code does: the record of the last index entry is verified; for a live entry
   the data file is truncated right after it; for a tombstone entry the LAST record of
   the data file is read and must be that tombstone - a torn or foreign tail makes the
   check fail and the volume comes up read-only (deviation C03-tombstone-torn-readonly).
   Then the index is replayed.

   snaps[n] = the layer-A state right after the operation that appended index entry n;
   after a crash the volume must serve snaps[ni] (everything durable in both files,
   nothing else) - CrashRecover.tla also admits later complete operations, which this
   implementation never keeps. *)
EXTENDS VolumeImpl
VARIABLES snaps, crashed
cvars == <<vars, snaps, crashed>>

CInit == Init /\ snaps = <<>> /\ crashed = FALSE
Step == /\ Next
        /\ snaps' = IF Len(idx') > Len(idx) THEN Append(snaps, live') ELSE snaps
        /\ UNCHANGED crashed
IdxWithin(nd) == {n \in 0..Len(idx) : \A j \in 1..n : idx[j].off <= nd}
Crash(nd, torn, ni) ==
  /\ phase = "idle" /\ ~ro /\ ~crashed /\ Len(idx) > 0
  /\ nd \in 0..Len(dat) /\ ni \in IdxWithin(nd) /\ (torn => nd < Len(dat))
  /\ LET d1 == SubSeq(dat, 1, nd)
         x1 == SubSeq(idx, 1, ni)
         last == IF ni = 0 THEN [k |-> 0, off |-> 0, size |-> 0] ELSE x1[ni]
         tombLast == ni > 0 /\ last.off # 0 /\ last.size < 0
         tombOk == tombLast /\ ~torn /\ nd > 0 /\ d1[nd].kind = "tomb" /\ d1[nd].k = last.k
         liveLast == ni > 0 /\ last.off # 0 /\ last.size >= 0
     IN /\ dat' = IF liveLast THEN SubSeq(d1, 1, last.off) ELSE d1   \* a torn tail is cut with the truncation
        /\ idx' = x1
        /\ nm' = Load(x1, <<>>)
        /\ ro' = (tombLast /\ ~tombOk)
        /\ live' = IF ni = 0 THEN [k \in Keys |-> None] ELSE snaps[ni]
        /\ snaps' = SubSeq(snaps, 1, ni)
  /\ crashed' = TRUE
  /\ hist' = Append(hist, [ev |-> "crash", nd |-> nd, torn |-> torn, ni |-> ni])
  /\ UNCHANGED <<phase, cpd, cpx, mark>>
CNext == Step \/ \E nd \in 0..Len(dat), torn \in BOOLEAN, ni \in 0..Len(idx) : Crash(nd, torn, ni)
CSpec == CInit /\ [][CNext]_cvars

(* the recovered volume accepts writes (C03), unless the listed deviation applies *)
WritableAfterCrash == crashed => (~ro \/ "C03-tombstone-torn-readonly" \in KF)
CView == <<dat, idx, nm, ro, phase, cpd, cpx, mark, live, snaps, crashed>>
=============================================================================
