-------------------------- MODULE S3AuthStreamImpl --------------------------
(* C26, layer B for streaming-signed uploads (STREAMING-AWS4-HMAC-SHA256-PAYLOAD): the shape of
   weed/s3api/chunked_reader_v4.go + the consumer behind it.

     seed      the Auth wrapper and calculateSeedSignature: signature of the headers, identity may write
     hdr       readS3ChunkHeader: "<hex size>;chunk-signature=<sig>\r\n"; size 0 = the final chunk
     data      the chunk's bytes are handed to the consumer (the filer upload) as they are read -
               BEFORE the chunk is verified (a chunk larger than the consumer's buffer)
     trailer   the CRLF after the chunk
     verify    the chunk's signature, chained from the previous one, is compared; a mismatch is a
               read error
     eof/err   the consumer commits what it was given only when the reader ends with a clean EOF;
               a read error aborts the upload (filer: "read input" -> nothing is stored)

   Ghost = the layer-A vocabulary of S3Auth.tla (AllowedS, StreamValid, SentBody). StreamSound is the
   statement at design level; with NoVerify (the verify step does not compare) TLC exhibits a stored
   body that was never signed. The same module is the generator of the "sreq" scripts (PickS / EmitS). *)
EXTENDS S3Auth
CONSTANTS NoVerify,      \* BOOLEAN: model of a reader that does not compare chunk signatures
          MaxChunks,     \* data chunks per upload
          ChunkSizes,    \* bytes per data chunk (small: delivered after verification, large: streamed before)
          SActs          \* identity action sets used for the full chunk-shape family
VARIABLES sq, pc, ci, last, delivered, committed
svars == <<sq, pc, ci, last, delivered, committed>>
allvars == <<vars, svars>>

Lower == <<"a", "b", "c", "d">>
ChunkSeqs == UNION {[1..k -> [n : ChunkSizes, k : SKinds]] : k \in 0..MaxChunks}
SmallShapes == {<<>>} \cup {<<[n |-> s, k |-> kd]>> : s \in ChunkSizes, kd \in {"ok", "baddata"}}
(* family 1: every chunk shape x final chunk x declaration, valid seed of identities that may write;
   family 2: every seed kind x identity x bucket, a few shapes *)
InFamily(s) ==
  \/ s.cred = "valid" /\ s.acts \in SActs /\ s.bucket = "b1"
  \/ s.chunks \in SmallShapes /\ s.fin = "ok" /\ s.decl = "exact"
WellFormed(s) ==
  /\ s.fin = "cut" => Len(s.chunks) >= 1
  /\ s.decl = "less" => Len(s.chunks) >= 1

SInit == Init /\ sq = [ev |-> "none"] /\ pc = "idle" /\ ci = 0 /\ last = FALSE /\ delivered = <<>> /\ committed = FALSE
PickS ==
  /\ pc = "idle"
  /\ \E rt \in {"PutObject", "PutObjectPart"}, cr \in SCreds, ac \in ActNames, bk \in {"b1", "b1x"},
        ch \in ChunkSeqs, fn \in SFins, dc \in SDecls :
       LET s == [ev |-> "sreq", route |-> rt, cred |-> cr, acts |-> ac, anon |-> "absent", bucket |-> bk,
                 chunks |-> ch, fin |-> fn, decl |-> dc] IN
       /\ InFamily(s) /\ WellFormed(s)
       /\ sq' = s /\ hist' = <<s>>
  /\ pc' = "seed" /\ ci' = 1
  /\ UNCHANGED <<named, live, last, delivered, committed>>
Seed == /\ pc = "seed"
        /\ pc' = IF AllowedS(sq) THEN "hdr" ELSE "rejected"
        /\ UNCHANGED <<vars, sq, ci, last, delivered, committed>>
Hdr == /\ pc = "hdr"
       /\ IF ci <= Len(sq.chunks) THEN pc' = "data" /\ last' = FALSE
          ELSE IF sq.fin \in {"absent", "cut"} THEN pc' = "err" /\ UNCHANGED last   \* unexpected EOF instead of a header
          ELSE pc' = "trailer" /\ last' = TRUE
       /\ UNCHANGED <<vars, sq, ci, delivered, committed>>
SentLetter(i) == IF sq.chunks[i].k = "baddata" THEN Lower[i] ELSE Letters[i]
Data == /\ pc = "data"
        /\ IF sq.fin = "cut" /\ ci = Len(sq.chunks)
           THEN /\ delivered' = Append(delivered, [c |-> SentLetter(ci), n |-> sq.chunks[ci].n \div 2])
                /\ pc' = "err"                                       \* the body ends inside the chunk
           ELSE /\ delivered' = Append(delivered, [c |-> SentLetter(ci), n |-> sq.chunks[ci].n])
                /\ pc' = "trailer"
        /\ UNCHANGED <<vars, sq, ci, last, committed>>
Trailer == pc = "trailer" /\ pc' = "verify" /\ UNCHANGED <<vars, sq, ci, last, delivered, committed>>
Verify == /\ pc = "verify"
          /\ LET good == IF last THEN sq.fin = "ok" ELSE sq.chunks[ci].k = "ok" IN
             IF good \/ NoVerify
             THEN IF last THEN pc' = "eof" /\ UNCHANGED ci ELSE pc' = "hdr" /\ ci' = ci + 1
             ELSE pc' = "err" /\ UNCHANGED ci
          /\ UNCHANGED <<vars, sq, last, delivered, committed>>
Commit == pc = "eof" /\ committed' = TRUE /\ pc' = "done" /\ UNCHANGED <<vars, sq, ci, last, delivered>>
Abort == pc = "err" /\ pc' = "done" /\ UNCHANGED <<vars, sq, ci, last, delivered, committed>>
SNext == PickS \/ Seed \/ Hdr \/ Data \/ Trailer \/ Verify \/ Commit \/ Abort
SSpec == SInit /\ [][SNext]_allvars

(* the statement at design level *)
StreamSound == committed => (AllowedS(sq) /\ StreamValid(sq) /\ delivered = SentBody(sq))
ReachOnlyAllowed == pc \in {"hdr", "data", "trailer", "verify", "eof", "err"} => AllowedS(sq)
(* not vacuous: a valid upload is committed (checked as a violated invariant in the thorough tier) *)
NeverCommitted == ~committed
EmitS == pc # "seed" \/ PrintT(<<"W", ToJson(hist)>>)
=============================================================================
