------------------------------ MODULE Subscribe ------------------------------
(* C22 - layer A: what a metadata subscriber must receive.

   log   = the changes appended so far, in append order, each a pair <<id, ts>>:
           id is the unique payload the appender supplied, ts the timestamp the
           buffer assigned to it (the requested one if it is later than the last
           assigned one, otherwise a bumped one: only "strictly later than the
           last" is demanded of a bump, MaxBump bounds the judge's search).
   sub[r] = subscriber r: on (started), t0 (it asked for everything later than
           t0), got (what its callback has been handed so far, in order), skip
           (ids lost through a listed known-finding deviation; empty otherwise).
   disk  = ids of the changes whose flush has completed ("already-flushed log
           data"); only used to keep a deviation narrow.

   The property: at every moment got is a PREFIX of the subsequence of log with
   ts > t0  (no gap, no duplicate, no reordering, nothing older than asked for),
   however the reads were served; and a subscriber that has caught up after the
   log went quiet (AEnd) has got all of it.  Nothing is said about how fast. *)
EXTENDS Integers, Sequences, FiniteSets, TLC, Json
CONSTANTS Readers, MaxBump
VARIABLES log, sub, disk
avars == <<log, sub, disk>>

Id(e) == e[1]
Ts(e) == e[2]
LastTs == IF log = <<>> THEN 0 ELSE Ts(log[Len(log)])
IsPrefix(p, q) == Len(p) <= Len(q) /\ SubSeq(q, 1, Len(p)) = p

NoSub == [on |-> FALSE, t0 |-> 0, got |-> <<>>, skip |-> {}]
AInit == log = <<>> /\ sub = [r \in Readers |-> NoSub] /\ disk = {}

ExpectedOf(l, t0, skip) == SelectSeq(l, LAMBDA e : Ts(e) > t0 /\ Id(e) \notin skip)
Expected(r) == ExpectedOf(log, sub[r].t0, sub[r].skip)
PrefixOK(r) == IsPrefix(sub[r].got, Expected(r))

(* the timestamps the buffer may assign to a change requested at req *)
Assignable(req) == IF req > LastTs THEN {req} ELSE (LastTs + 1)..(LastTs + MaxBump)

AAppend(id, req, ts) == /\ ts \in Assignable(req)
                        /\ log' = Append(log, <<id, ts>>)
AStart(r, t0) == sub' = [sub EXCEPT ![r] = [on |-> TRUE, t0 |-> t0, got |-> <<>>, skip |-> {}]]
AFlushed(ids) == disk' = disk \cup ids

(* seq was handed to r's callback: allowed iff the result is still a prefix *)
ADeliver(r, seq) == /\ sub[r].on
                    /\ IsPrefix(sub[r].got \o seq, Expected(r))
                    /\ sub' = [sub EXCEPT ![r].got = @ \o seq]

(* r has caught up on a quiet log: it must have everything *)
AEnd(r) == sub[r].on /\ sub[r].got = Expected(r)

(* ---- known finding C22-flush-lag-gap -------------------------------------
   When the flusher is more than the number of sealed buffers behind, the oldest
   rotated buffer is neither in memory nor yet readable from disk, and a
   subscriber that still needs it is silently moved on to newer changes.  The
   deviation admits exactly that: the first delivered change e is not the next
   expected one but a later one, the flush of every change skipped has not completed, and
   the flusher was at least minPending buffers behind.  The skipped ids are
   remembered so that the rest of the execution is judged strictly. *)
Range(s) == {s[i] : i \in 1..Len(s)}
SkippedBy(r, e) ==      \* ids between the next expected change and e; {} if e is not ahead
  LET exp == Expected(r)
      n == Len(sub[r].got)
      js == {j \in (n + 2)..Len(exp) : exp[j] = e}
  IN IF js = {} THEN {}
     ELSE LET j == CHOOSE j \in js : TRUE IN {Id(exp[i]) : i \in (n + 1)..(j - 1)}
LagSkip(r, e, lagging) ==   \* the ids this deviation gives up for delivery of e
  IF lagging /\ SkippedBy(r, e) # {} /\ SkippedBy(r, e) \cap disk = {} THEN SkippedBy(r, e) ELSE {}
ADeliverLag(r, seq, lagging) ==
  /\ sub[r].on /\ seq # <<>>
  /\ LagSkip(r, seq[1], lagging) # {}
  /\ LET sk == LagSkip(r, seq[1], lagging)
         s2 == [sub EXCEPT ![r].skip = @ \cup sk]
     IN /\ IsPrefix(sub[r].got \o seq, ExpectedOf(log, sub[r].t0, s2[r].skip))
        /\ sub' = [s2 EXCEPT ![r].got = @ \o seq]

(* ---- which changes a namespace operation puts into the log (end-to-end executions) ----
   "Every namespace change" reaches the log: a successful create / update / delete of one
   entry is exactly one change about that name, old and new name as they are ("" = no
   entry on that side).  A rename of a to b is one or more changes about a and b only,
   in which a goes and b comes (whether as one change or as a creation and a removal is
   not prescribed).  ds = <<old, new>> of the changes the operation logged, in order. *)
ChangeLogged(k, a, b, ds) ==
  CASE k = "create" -> ds = << <<"", a>> >>
    [] k = "update" -> ds = << <<a, a>> >>
    [] k = "delete" -> ds = << <<a, "">> >>
    [] k = "rename" -> /\ ds # <<>>
                       /\ \A i \in 1..Len(ds) : /\ ds[i][1] \in {"", a, b} /\ ds[i][2] \in {"", a, b}
                                                /\ ds[i] # <<"", "">>
                       /\ \E i \in 1..Len(ds) : ds[i][1] = a
                       /\ \E i \in 1..Len(ds) : ds[i][2] = b
    [] OTHER -> FALSE

(* ---- the statement's wording follows from the prefix formulation ---------- *)
StrictlyIncreasing(s) == \A i \in 1..(Len(s) - 1) : Ts(s[i]) < Ts(s[i + 1])
LogOrdered == StrictlyIncreasing(log) /\ \A i, j \in 1..Len(log) : Id(log[i]) = Id(log[j]) => i = j
GotOrdered == \A r \in Readers : StrictlyIncreasing(sub[r].got)
GotOnce == \A r \in Readers : \A i, j \in 1..Len(sub[r].got) : sub[r].got[i] = sub[r].got[j] => i = j
GotLater == \A r \in Readers : \A i \in 1..Len(sub[r].got) : Ts(sub[r].got[i]) > sub[r].t0
GotNoGap == \A r \in Readers : sub[r].skip = {} =>
              \A i \in 1..Len(log) :
                 (Ts(log[i]) > sub[r].t0 /\ sub[r].got # <<>> /\ Ts(log[i]) <= Ts(sub[r].got[Len(sub[r].got)]))
                   => log[i] \in Range(sub[r].got)

=============================================================================
