------------------------------ MODULE Listing ------------------------------
(* C19 - directory listings are exact, ordered and paginate completely.

   A name is a non-empty sequence of bytes (TLC cannot index strings; the
   harness passes names, prefixes and patterns as arrays of byte values).  A
   directory is a set of names; some of them are expired (their TTL has run
   out).  A request is

     [start, incl, limit, prefix, pattern, excl]      (+ sem = "glob", see PMatch)

   and the answer the property statement asks for is

     List(dir, req) = the first `limit` elements, in byte-lexicographic order,
                      of the names that are wanted (have the prefix, match the
                      pattern, do not match the exclusion pattern, are not
                      expired) and lie after `start` (or at it, if inclusive).

   Expired names never count against the limit ("skipped without shortening
   the page").  Pattern language: `*` any (possibly empty) run of characters,
   `?` exactly one character, anything else itself; a pattern is matched
   against the whole name.  Names are ASCII in every generator, so "character"
   and "byte" coincide.

   The returned cursor (the listing functions also return a "last file name"
   which the filer's own loops and the gRPC server use as the next start): the
   statement only asks that following it enumerates every match exactly once,
   so CursorOK admits ANY name from the last delivered one up to (excluding)
   the next wanted name that was not delivered; nothing is demanded of it when
   no entry was delivered.

   Model-checked at design level (Listing_mc.cfg): for every directory over a
   small universe and every request, the constructive List agrees with the
   declarative reading of the statement, and paginating - by the last
   delivered name or by any admissible cursor - delivers every wanted name
   after the start exactly once, in order. *)
EXTENDS Integers, Sequences, FiniteSets, TLC, Json, SequencesExt

CONSTANTS Universe,   \* names a model-checked directory is drawn from
          Starts,     \* start names tried
          Limits,     \* limits tried
          PrefixSet, PatternSet, ExclSet,
          MaxOps      \* generator bound (unused by the judge)

VARIABLES names,      \* the directory: a set of names
          expired,    \* subset of names whose TTL has run out
          level,      \* "store" (TTL is not interpreted, no patterns) or "filer"
          req, res,   \* model checking only: the last request and List's answer
          hist

vars == <<names, expired, level, req, res, hist>>

STAR == 42
QM == 63

RECURSIVE Less(_, _)
Less(a, b) == IF a = <<>> THEN b # <<>>
              ELSE IF b = <<>> THEN FALSE
              ELSE IF Head(a) < Head(b) THEN TRUE
              ELSE IF Head(a) > Head(b) THEN FALSE
              ELSE Less(Tail(a), Tail(b))
Leq(a, b) == a = b \/ Less(a, b)

HasPrefix(n, p) == Len(p) <= Len(n) /\ SubSeq(n, 1, Len(p)) = p

(* glob matching of the whole name *)
RECURSIVE Match(_, _)
Match(pat, n) ==
  IF pat = <<>> THEN n = <<>>
  ELSE IF Head(pat) = STAR THEN Match(Tail(pat), n) \/ (n # <<>> /\ Match(pat, Tail(n)))
  ELSE IF n = <<>> THEN FALSE
  ELSE IF Head(pat) = QM THEN Match(Tail(pat), Tail(n))
  ELSE Head(pat) = Head(n) /\ Match(Tail(pat), Tail(n))

(* "qlit": the reading of a pattern that a known finding of the unchanged tree
   implements (C19-qmark-before-star): every `?` in front of the first `*` is
   taken literally.  Only reachable through that named deviation. *)
RECURSIVE MatchQLit(_, _)
MatchQLit(pat, n) ==
  IF pat = <<>> THEN n = <<>>
  ELSE IF Head(pat) = STAR THEN Match(pat, n)
  ELSE n # <<>> /\ Head(pat) = Head(n) /\ MatchQLit(Tail(pat), Tail(n))
PMatch(sem, pat, n) == IF sem = "qlit" THEN MatchQLit(pat, n) ELSE Match(pat, n)

HasWild(p) == \E i \in 1..Len(p) : p[i] \in {STAR, QM}
LiteralPattern(p) == p # <<>> /\ ~HasWild(p)
QBeforeStar(p) == \E i, j \in 1..Len(p) : i < j /\ p[i] = QM /\ p[j] = STAR

Wanted(exp, r, n) ==
  /\ n \notin exp
  /\ HasPrefix(n, r.prefix)
  /\ (r.pattern = <<>> \/ PMatch(r.sem, r.pattern, n))
  /\ (r.excl = <<>> \/ ~Match(r.excl, n))

After(start, incl, n) == Less(start, n) \/ (incl /\ n = start)

WantedAfter(dir, exp, r, start, incl) ==
  {n \in dir : Wanted(exp, r, n) /\ After(start, incl, n)}

Sorted(S) == SortSeq(SetToSeq(S), Less)
Take(s, k) == SubSeq(s, 1, IF Len(s) < k THEN Len(s) ELSE k)
Drop(s, k) == SubSeq(s, k + 1, Len(s))

AllFrom(dir, exp, r) == Sorted(WantedAfter(dir, exp, r, r.start, r.incl))
List(dir, exp, r) == Take(AllFrom(dir, exp, r), r.limit)

(* the cursor returned together with a non-empty page `page` of request r *)
CursorOK(dir, exp, r, page, cur) ==
  IF page = <<>> THEN TRUE
  ELSE /\ Leq(page[Len(page)], cur)
       /\ \A m \in WantedAfter(dir, exp, r, r.start, r.incl) :
            (\A i \in 1..Len(page) : page[i] # m) => Less(cur, m)

(* more matches exist than were delivered *)
MoreExist(dir, exp, r) == Len(AllFrom(dir, exp, r)) > r.limit

(* the two ways of using both a prefix and a pattern are documented as mutually
   exclusive in filer_search.go ("For now, prefix and namePattern are mutually
   exclusive"): the statement is silent there and every answer is admitted *)
Silent(r) == r.prefix # <<>> /\ r.pattern # <<>>

(* TTL is interpreted by the filer, not by a metadata store *)
EffExpired == IF level = "filer" THEN expired ELSE {}

(* ---------------- what one listing call may answer ---------------- *)
(* paged = the call answers (entries, hasMore) and no cursor; otherwise it
   answers a cursor and no hasMore *)
ListAnswer(r, page, cur, more, paged) ==
  IF Silent(r) THEN TRUE
  ELSE /\ page = List(names, EffExpired, r)
       /\ paged \/ CursorOK(names, EffExpired, r, page, cur)
       /\ (paged /\ MoreExist(names, EffExpired, r)) => more

(* A walk: the client repeats the request, each time starting (exclusively)
   after the cursor of the previous page, until a page comes back empty.
   pages[i] = [res, last, more]; mode "emitted": cursor = last delivered name;
   mode "returned": cursor = the returned last-file-name; mode "more": cursor =
   last delivered name, and the client stops as soon as `more` is false (the
   stopping rule is the driver's; the specification judges what was delivered).
   Every page has to be the right page for its cursor and, all together, every
   wanted name after the start has to be delivered exactly once, in order. *)
RECURSIVE Concat(_)
Concat(ss) == IF ss = <<>> THEN <<>> ELSE Head(ss) \o Concat(Tail(ss))

CursorOf(mode, pg) == IF mode = "returned" THEN pg.last
                      ELSE IF pg.res = <<>> THEN <<>> ELSE pg.res[Len(pg.res)]

WalkAnswer(r, mode, pages, end) ==
  IF Silent(r) THEN TRUE
  ELSE
     /\ end = "done"
     /\ Len(pages) >= 1
     /\ \A i \in 1..Len(pages) :
          LET ri == IF i = 1 THEN r
                    ELSE [r EXCEPT !.start = CursorOf(mode, pages[i - 1]), !.incl = FALSE]
          IN /\ i > 1 => pages[i - 1].res # <<>>
             /\ pages[i].res = List(names, EffExpired, ri)
     /\ Concat([i \in 1..Len(pages) |-> pages[i].res]) = AllFrom(names, EffExpired, r)

(* ---------------- design-level model ---------------- *)
Requests == [start : Starts, incl : BOOLEAN, limit : Limits,
             prefix : PrefixSet, pattern : PatternSet, excl : ExclSet, sem : {"glob"}]
NoReq == [start |-> <<>>, incl |-> FALSE, limit |-> 0, prefix |-> <<>>, pattern |-> <<>>, excl |-> <<>>,
          sem |-> "glob"]

Init == /\ names \in SUBSET Universe
        /\ expired \in SUBSET names
        /\ level = "filer"
        /\ req = NoReq /\ res = <<>> /\ hist = <<>>

Ask == /\ req = NoReq
       /\ \E r \in Requests : req' = r /\ res' = List(names, expired, r)
       /\ UNCHANGED <<names, expired, level, hist>>
Spec == Init /\ [][Ask]_vars

StrictlyIncreasing(s) == \A i \in 1..(Len(s) - 1) : Less(s[i], s[i + 1])
ToSetOf(s) == {s[i] : i \in 1..Len(s)}
Smaller(a, b) == IF a < b THEN a ELSE b

(* the statement, read declaratively *)
InOrderNoDup == StrictlyIncreasing(res)
OnlyWanted == ToSetOf(res) \subseteq WantedAfter(names, expired, req, req.start, req.incl)
FullPage == Len(res) = Smaller(req.limit, Cardinality(WantedAfter(names, expired, req, req.start, req.incl)))
Earliest == \A m \in WantedAfter(names, expired, req, req.start, req.incl) \ ToSetOf(res) :
              \A i \in 1..Len(res) : Less(res[i], m)

(* paginating by the last delivered name *)
RECURSIVE PagesByName(_, _, _, _)
PagesByName(dir, exp, r, fuel) ==
  LET pg == List(dir, exp, r) IN
  IF pg = <<>> \/ fuel = 0 THEN <<>>
  ELSE pg \o PagesByName(dir, exp, [r EXCEPT !.start = pg[Len(pg)], !.incl = FALSE], fuel - 1)
PaginationComplete ==
  req.limit >= 1 => PagesByName(names, expired, req, Cardinality(Universe) + 1) = AllFrom(names, expired, req)

(* ... and by any admissible cursor: the rest of the walk is the same *)
CursorSound ==
  \A cur \in Universe \cup Starts :
    (res # <<>> /\ CursorOK(names, expired, req, res, cur)) =>
      AllFrom(names, expired, [req EXCEPT !.start = cur, !.incl = FALSE])
        = Drop(AllFrom(names, expired, req), Len(res))
(* the last delivered name is always an admissible cursor *)
LastNameIsCursor == res # <<>> => CursorOK(names, expired, req, res, res[Len(res)])
=============================================================================
