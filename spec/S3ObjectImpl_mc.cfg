SPECIFICATION ImplSpec
INVARIANT ImplOK
INVARIANT TypeOK
CHECK_DEADLOCK FALSE
