SPECIFICATION Spec
INVARIANT NoCredNoEntry
INVARIANT NoneNeverAllowed
INVARIANT AdminAlwaysAllowed
INVARIANT GwSound
INVARIANT CodeAtLeastNeed
CHECK_DEADLOCK FALSE
