SPECIFICATION Spec
INVARIANT InOrderNoDup
INVARIANT OnlyWanted
INVARIANT FullPage
INVARIANT Earliest
INVARIANT PaginationComplete
INVARIANT CursorSound
INVARIANT LastNameIsCursor
CHECK_DEADLOCK FALSE
