--------------------------- MODULE SequencerImpl ---------------------------
(* C13 layer B: the three sequencers of weed/sequence behind the master's
   heartbeat / assign / leader-change protocol, with the layer-A state
   (KeyAlloc: given, inuse, reg, ...) carried as ghost variables.

   memory     per master object: counter mem[m]; NextFileId(n) returns it and adds n;
              SetMax(v): counter <= v => counter = v + 1.   A fresh object starts at 1.
   etcd       shared register etcd (first unallocated id) changed only by compare-and-swap;
              per master window [cur[m], max[m]).  NextFileId(n): if cur+n >= max then
              refill: Get prev; CAS(prev -> prev+req) (on conflict read again and retry; RefillCas = FALSE:
              a blind write instead of the CAS); window = [prev, prev+req);
              then return cur, cur += n.   SetMax(v) (SetMaxShape):
                "old"   v > max:  Get prev; prev >= v => cur=max=prev, else CAS(prev -> v) and cur=max=v
                "fixed" cur <= v < max => cur = v+1;  v >= max: the same with v+1
              CasRetry = FALSE: a failed CAS in SetMax is an error that the code only logs (the
              call has no effect); TRUE: the register is read again (the repaired code).
              With Split = TRUE another master's operations may run between the Get and the CAS.
   snowflake  id = now*TB + index(m)*NB + sq[m]; the count is ignored; SetMax does nothing.

   Counts are records [c, s] meaning c + s*Steps, so that a schedule found with a
   small Steps replays with the same shape on the real code (Steps = 500).

   The protocol: Assign at master m only if m is the leader and the volume is
   registered at m; registration only by a heartbeat, which calls SetMax(largest
   key in use in the volume) first; a leader change unregisters everything.

   MSplit: the heartbeat handler of the master (weed/server SendHeartbeat) is two steps, parked between them at
   the entry of Sequence.SetMax; while it is parked the master serves assignments for whatever is registered.
   With the order of the code nothing of the heartbeat is registered yet; with HbOrder = "register-first" the
   volume is already offered while the sequencer has not been told its largest key.

   bad # "" as soon as an assignment is not admitted by layer A (with the open
   known findings KFm admitted).  Histories (inputs only) are logged in hist in
   the script format of harness/cmd/c13. *)
EXTENDS KeyAlloc
CONSTANTS Kind, Counts, Steps, Pre, SetMaxShape, CasRetry, RefillCas, Split, KFm, MaxTicks, WithVids, Fresh, GDepth,
          MSplit,    \* the master's heartbeat handler is split at the entry of Sequence.SetMax (memory / snowflake)
          HbOrder    \* "setmax-first": SendHeartbeat as it is (SetMax, then the volumes are registered);
                     \* "register-first": a plausible breakage (the volumes are registered, SetMax comes later)
VARIABLES etcd, cur, max, mem, now, last, sq, leader, fly, asgs, maxvid, bad
ivars == <<etcd, cur, max, mem, now, last, sq, leader, fly, asgs, maxvid, bad>>
bvars == <<vars, ivars>>

TB == 64
NB == 16
None == [op |-> "none"]
Ord == CHOOSE f \in [Masters -> 1..Cardinality(Masters)] : \A a, b \in Masters : a # b => f[a] # f[b]
Cnt(n) == n.c + n.s * Steps

BInit == /\ kind = Kind /\ given = {} /\ inuse = Pre /\ reg = {}
         /\ gen = [m \in Masters |-> 0] /\ smax = [m \in Masters |-> 0]
         /\ vgiven = {} /\ vreg = {} /\ pend = {} /\ hist = <<>>
         /\ etcd = 1 /\ cur = [m \in Masters |-> 1] /\ max = [m \in Masters |-> 1]
         /\ mem = [m \in Masters |-> 1] /\ now = 1 /\ last = [m \in Masters |-> 0] /\ sq = [m \in Masters |-> 0]
         /\ leader \in Masters /\ fly = [m \in Masters |-> None] /\ asgs = <<>>
         /\ maxvid = [m \in Masters |-> 0] /\ bad = ""

(* ghost bookkeeping of one assignment that returned lo *)
Hand(m, vol, n, lo) ==
  /\ GiveEff(m, vol, n, lo)
  /\ asgs' = Append(asgs, [vol |-> vol, lo |-> lo, n |-> n, nr |-> CHOOSE r \in Counts : Cnt(r) = n])
  /\ bad' = IF bad = "" /\ ~AssignAdmitted(KFm, m, vol, n, lo) THEN "reuse" ELSE bad

(* ---------------- memory ---------------- *)
MemNext(m, vol, n) == /\ Hand(m, vol, n, mem[m]) /\ mem' = [mem EXCEPT ![m] = @ + n]
                      /\ UNCHANGED <<etcd, cur, max, now, last, sq>>
MemSetMax(m, v) == /\ mem' = [mem EXCEPT ![m] = IF @ <= v THEN v + 1 ELSE @]
                   /\ UNCHANGED <<etcd, cur, max, now, last, sq>>

(* ---------------- snowflake ---------------- *)
SnowNext(m, vol, n) ==
  LET s == IF last[m] = now THEN sq[m] + 1 ELSE 0 IN
  /\ s < NB
  /\ Hand(m, vol, n, now * TB + Ord[m] * NB + s)
  /\ sq' = [sq EXCEPT ![m] = s] /\ last' = [last EXCEPT ![m] = now]
  /\ UNCHANGED <<etcd, cur, max, mem, now>>

(* ---------------- etcd ---------------- *)
Req(n) == IF n > Steps THEN Steps + n ELSE Steps
NeedsRefill(m, n) == cur[m] + n >= max[m]
(* refill with the register value prev read earlier; fails if the register moved *)
EtcdNextAt(m, vol, n, prev) ==
  IF NeedsRefill(m, n)
  THEN /\ etcd' = prev + Req(n) /\ max' = [max EXCEPT ![m] = prev + Req(n)]
       /\ cur' = [cur EXCEPT ![m] = prev + n] /\ Hand(m, vol, n, prev)
  ELSE /\ Hand(m, vol, n, cur[m]) /\ cur' = [cur EXCEPT ![m] = @ + n] /\ UNCHANGED <<etcd, max>>
EtcdNext(m, vol, n) == EtcdNextAt(m, vol, n, etcd) /\ UNCHANGED <<mem, now, last, sq>>
SetMaxTarget(v) == IF SetMaxShape = "fixed" THEN v + 1 ELSE v
SetMaxGoesToEtcd(m, v) == IF SetMaxShape = "fixed" THEN v >= max[m] ELSE v > max[m]
(* casok: the compare-and-swap (if one is needed) succeeds *)
EtcdSetMaxAt(m, v, prev, casok) ==
  IF SetMaxGoesToEtcd(m, v)
  THEN IF prev >= SetMaxTarget(v)
       THEN cur' = [cur EXCEPT ![m] = prev] /\ max' = [max EXCEPT ![m] = prev] /\ UNCHANGED etcd
       ELSE IF casok
            THEN /\ etcd' = SetMaxTarget(v) /\ cur' = [cur EXCEPT ![m] = SetMaxTarget(v)]
                 /\ max' = [max EXCEPT ![m] = SetMaxTarget(v)]
            ELSE UNCHANGED <<etcd, cur, max>>
  ELSE IF SetMaxShape = "fixed" /\ v >= cur[m]
       THEN cur' = [cur EXCEPT ![m] = v + 1] /\ UNCHANGED <<etcd, max>>
       ELSE UNCHANGED <<etcd, cur, max>>
EtcdSetMax(m, v) == EtcdSetMaxAt(m, v, etcd, TRUE) /\ UNCHANGED <<mem, now, last, sq>>

NextImpl(m, vol, n) == CASE Kind = "memory" -> MemNext(m, vol, n)
                         [] Kind = "snowflake" -> SnowNext(m, vol, n)
                         [] OTHER -> EtcdNext(m, vol, n)
SetMaxImpl(m, v) == CASE Kind = "memory" -> MemSetMax(m, v)
                      [] Kind = "snowflake" -> UNCHANGED <<etcd, cur, max, mem, now, last, sq>>
                      [] OTHER -> EtcdSetMax(m, v)

(* ---------------- protocol actions (atomic) ---------------- *)
Idle(m) == fly[m] = None
BAssign(m, vol, n) ==
  /\ m = leader /\ <<m, vol>> \in reg /\ Idle(m)
  /\ NextImpl(m, vol, Cnt(n))
  /\ Log([ev |-> "next", m |-> m, vol |-> vol, n |-> n])
  /\ UNCHANGED <<kind, inuse, reg, gen, smax, vgiven, vreg, pend, leader, fly, maxvid>>
BHb(m, vol) ==
  /\ Idle(m) /\ <<m, vol>> \notin reg
  /\ SetMaxImpl(m, MaxUsed(vol)) /\ HbEff(m, vol, MaxUsed(vol))
  /\ Log([ev |-> "hb", m |-> m, vol |-> vol])
  /\ UNCHANGED <<kind, given, inuse, gen, vgiven, vreg, pend, leader, fly, asgs, maxvid, bad>>
BWrite(a, j) ==
  /\ a \in 1..Len(asgs) /\ j \in {0, asgs[a].n - 1} /\ <<asgs[a].vol, asgs[a].lo + j>> \notin inuse
  /\ inuse' = inuse \cup {<<asgs[a].vol, asgs[a].lo + j>>}
  /\ Log([ev |-> "write", a |-> a - 1,          \* the offset in the [c, s] form of the counts
          j |-> IF j = 0 THEN [c |-> 0, s |-> 0] ELSE [c |-> asgs[a].nr.c - 1, s |-> asgs[a].nr.s]])
  /\ UNCHANGED <<kind, given, reg, gen, smax, vgiven, vreg, pend, ivars>>
NoHandlerParked == \A x \in Masters : fly[x] = None \/ fly[x].op # "mhb"
BLeader(m, fresh) ==
  /\ m # leader \/ fresh
  /\ fresh => Idle(m)
  /\ NoHandlerParked          \* a leader change breaks every stream; a parked handler is released first
  /\ leader' = m /\ LeaderEff(m, fresh)
  /\ IF fresh
     THEN /\ mem' = [mem EXCEPT ![m] = 1]
          /\ cur' = [cur EXCEPT ![m] = etcd] /\ max' = [max EXCEPT ![m] = etcd]
          /\ now' = IF Kind = "snowflake" THEN now + 1 ELSE now
     ELSE UNCHANGED <<mem, cur, max, now>>
  /\ Log([ev |-> "leader", m |-> m, fresh |-> fresh])
  /\ UNCHANGED <<kind, given, inuse, vgiven, vreg, pend, etcd, last, sq, fly, asgs, maxvid, bad>>
BTick == /\ Kind = "snowflake" /\ now < MaxTicks /\ now' = now + 1 /\ Log([ev |-> "tick"])
         /\ UNCHANGED <<avars, etcd, cur, max, mem, last, sq, leader, fly, asgs, maxvid, bad>>

(* ---------------- etcd operations split at the register access ---------------- *)
(* Begin: the operation has done its Get (value remembered) and is parked before its CAS *)
BBeginNext(m, vol, n) ==
  /\ Kind = "etcd" /\ Split /\ m = leader /\ <<m, vol>> \in reg /\ Idle(m) /\ NeedsRefill(m, Cnt(n))
  /\ fly' = [fly EXCEPT ![m] = [op |-> "next", vol |-> vol, n |-> Cnt(n), prev |-> etcd]]
  /\ Log([ev |-> "call", p |-> Ord[m], op |-> "next", m |-> m, vol |-> vol, n |-> n, v |-> 0, gate |-> TRUE])
  /\ UNCHANGED <<avars, etcd, cur, max, mem, now, last, sq, leader, asgs, maxvid, bad>>
BBeginHb(m, vol) ==
  /\ Kind = "etcd" /\ Split /\ Idle(m) /\ <<m, vol>> \notin reg /\ SetMaxGoesToEtcd(m, MaxUsed(vol))
  /\ fly' = [fly EXCEPT ![m] = [op |-> "hb", vol |-> vol, n |-> MaxUsed(vol), prev |-> etcd]]
  /\ Log([ev |-> "call", p |-> Ord[m], op |-> "hb", m |-> m, vol |-> vol, n |-> [c |-> 0, s |-> 0], v |-> 0, gate |-> TRUE])
  /\ UNCHANGED <<avars, etcd, cur, max, mem, now, last, sq, leader, asgs, maxvid, bad>>
(* End: the parked operation continues with its write.
   refill (NextFileId -> batchGetSequenceFromEtcd): RefillCas = TRUE is the code: Set(PrevValue = the value
   read) - if the register moved, the write fails and the loop reads again (BRetry: a new Get, parked
   again, so further operations of other masters may interleave); RefillCas = FALSE is a plausible
   breakage (a write that is not a compare-and-swap): the stale value is used. *)
BEnd(m) ==
  /\ fly[m] # None /\ fly[m].op \in {"next", "hb"}
  /\ (fly[m].op = "next" /\ RefillCas) => fly[m].prev = etcd
  /\ fly' = [fly EXCEPT ![m] = None]
  /\ IF fly[m].op = "next"
     THEN /\ EtcdNextAt(m, fly[m].vol, fly[m].n, fly[m].prev)
          /\ UNCHANGED <<kind, inuse, reg, gen, smax, vgiven, vreg, pend>>
     ELSE /\ LET prev == IF CasRetry THEN etcd ELSE fly[m].prev    \* CasRetry: a failed CAS reads the register again
             IN EtcdSetMaxAt(m, fly[m].n, prev, prev = etcd)
          /\ HbEff(m, fly[m].vol, fly[m].n)
          /\ UNCHANGED <<kind, given, inuse, gen, vgiven, vreg, pend, asgs, bad>>
  /\ Log([ev |-> "release", p |-> Ord[m], again |-> FALSE])
  /\ UNCHANGED <<mem, now, last, sq, leader, maxvid>>
(* the compare-and-swap of a refill fails: read the register again and park before the next attempt *)
BRetry(m) ==
  /\ fly[m] # None /\ fly[m].op = "next" /\ RefillCas /\ fly[m].prev # etcd
  /\ fly' = [fly EXCEPT ![m].prev = etcd]
  /\ Log([ev |-> "release", p |-> Ord[m], again |-> TRUE])
  /\ UNCHANGED <<avars, etcd, cur, max, mem, now, last, sq, leader, asgs, maxvid, bad>>

(* ---------------- the master's heartbeat handler split at the entry of Sequence.SetMax ---------------- *)
BBeginMHb(m, vol) ==
  /\ MSplit /\ Kind # "etcd" /\ Idle(m) /\ <<m, vol>> \notin reg
  /\ fly' = [fly EXCEPT ![m] = [op |-> "mhb", vol |-> vol, n |-> MaxUsed(vol), prev |-> 0]]
  /\ reg' = IF HbOrder = "register-first" THEN reg \cup {<<m, vol>>} ELSE reg
  /\ Log([ev |-> "call", p |-> Ord[m], op |-> "hb", m |-> m, vol |-> vol, n |-> [c |-> 0, s |-> 0], v |-> 0, gate |-> TRUE])
  /\ UNCHANGED <<kind, given, inuse, gen, smax, vgiven, vreg, pend, etcd, cur, max, mem, now, last, sq, leader, asgs, maxvid, bad>>
(* an assignment served by master m while its heartbeat handler is parked *)
BAssignDuring(m, vol, n) ==
  /\ fly[m] # None /\ fly[m].op = "mhb" /\ m = leader /\ <<m, vol>> \in reg
  /\ NextImpl(m, vol, Cnt(n))
  /\ Log([ev |-> "call", p |-> Ord[m] + Cardinality(Masters), op |-> "next", m |-> m, vol |-> vol, n |-> n, v |-> 0,
          gate |-> FALSE, bg |-> TRUE])
  /\ UNCHANGED <<kind, inuse, reg, gen, smax, vgiven, vreg, pend, leader, fly, maxvid>>
BEndM(m) ==
  /\ fly[m] # None /\ fly[m].op = "mhb"
  /\ fly' = [fly EXCEPT ![m] = None]
  /\ SetMaxImpl(m, fly[m].n) /\ HbEff(m, fly[m].vol, fly[m].n)
  /\ Log([ev |-> "release", p |-> Ord[m], again |-> FALSE])
  /\ UNCHANGED <<kind, given, inuse, gen, vgiven, vreg, pend, leader, asgs, maxvid, bad>>

(* ---------------- volume ids: topology.NextVolumeId through raft ---------------- *)
BNextVid(m) ==
  /\ WithVids /\ m = leader
  /\ LET id == maxvid[m] + 1 IN
       /\ maxvid' = [x \in Masters |-> Max2(maxvid[x], id)]      \* the committed command is applied everywhere
       /\ vgiven' = vgiven \cup {id}
       /\ bad' = IF bad = "" /\ (id \in vgiven \/ <<m, id>> \in vreg) THEN "vid" ELSE bad
  /\ Log([ev |-> "nextvid", m |-> m])
  /\ UNCHANGED <<kind, given, inuse, reg, gen, smax, vreg, pend, etcd, cur, max, mem, now, last, sq, leader, fly, asgs>>
BVolReg(m, id) ==
  /\ WithVids /\ <<m, id>> \notin vreg
  /\ maxvid' = [maxvid EXCEPT ![m] = Max2(@, id)] /\ vreg' = vreg \cup {<<m, id>>}
  /\ Log([ev |-> "volreg", m |-> m, id |-> id])
  /\ UNCHANGED <<kind, given, inuse, reg, gen, smax, vgiven, pend, etcd, cur, max, mem, now, last, sq, leader, fly, asgs, bad>>

BNext ==
  /\ Len(hist) < MaxOps /\ bad = ""
  /\ \/ \E m \in Masters, vol \in Vols, n \in Counts : BAssign(m, vol, n)
     \/ \E m \in Masters, vol \in Vols : BHb(m, vol)
     \/ \E a \in 1..Len(asgs), j \in 0..(2 * Steps + 2) : BWrite(a, j)
     \/ \E m \in Masters, f \in Fresh : BLeader(m, f)
     \/ BTick
     \/ \E m \in Masters, vol \in Vols, n \in Counts : BBeginNext(m, vol, n)
     \/ \E m \in Masters, vol \in Vols : BBeginHb(m, vol)
     \/ \E m \in Masters : BEnd(m)
     \/ \E m \in Masters : BRetry(m)
     \/ \E m \in Masters, vol \in Vols : BBeginMHb(m, vol)
     \/ \E m \in Masters, vol \in Vols, n \in Counts : BAssignDuring(m, vol, n)
     \/ \E m \in Masters : BEndM(m)
     \/ \E m \in Masters : BNextVid(m)
     \/ \E m \in Masters, id \in {1, 3} : BVolReg(m, id)
BSpec == BInit /\ [][BNext]_bvars

(* ---------------- what TLC checks ---------------- *)
NoReuse == bad = ""
RangesDisjointOrKnown == KFm = {} => RangesDisjoint
(* every sequencer's local state stays ahead of what it was told and what it gave *)
MemAhead == Kind = "memory" => \A m \in Masters : mem[m] > smax[m] /\
              \A g \in given : g.obj = Obj(m) => mem[m] >= g.lo + g.n
EtcdWindows == Kind = "etcd" => \A m \in Masters : cur[m] <= max[m] /\ max[m] <= etcd
EtcdAhead == (Kind = "etcd" /\ SetMaxShape = "fixed" /\ ~Split) =>
               \A m \in Masters : cur[m] > smax[m] \/ (cur[m] = max[m] /\ etcd > smax[m])
(* generator outputs *)
BEmit == Len(hist) < MaxOps \/ PrintT(<<"W", ToJson(hist)>>)
BEmitBad == bad = "" \/ PrintT(<<"W", ToJson(hist)>>)
BView == <<avars, ivars, IF hist = <<>> THEN <<>> ELSE hist[Len(hist)]>>
BViewMC == <<avars, ivars, Len(hist)>>     \* model checking: histories that reach the same state are merged
BEmitW == hist = <<>> \/ PrintT(<<"W", ToJson(hist)>>)
(* one witness per distinct (state, last operation) up to depth GDepth, and every state in which the
   model itself breaks the property (the counterexample schedules), at any depth *)
BEmitG == (hist # <<>> /\ (bad # "" \/ Len(hist) <= GDepth)) => PrintT(<<"W", ToJson(hist)>>)
=============================================================================
