---------------------------- MODULE CodecsTrace ----------------------------
(* Judge for C08: every line is one call of a real codec with what it returned.
   The codecs are pure, so the specification has no property state; an execution
   is a batch of independent calls. *)
EXTENDS Codecs, TraceKit
tvars == <<vars, kitvars>>
TraceInit == cur = 0 /\ hist = <<>> /\ KitInit
TraceReset == IsReset /\ UNCHANGED vars
TraceSkip == SkipStep /\ UNCHANGED vars
On(name) == IsEvent(name) /\ UNCHANGED vars
TTtlVal == On("ttlval") /\ Strict /\ TtlValOk(Ev.c, Ev.u, Ev.res)
TTtlStr == On("ttlstr") /\ Strict /\ TtlStrOk(Ev.s, Ev.res)
TRpVal  == On("rpval")  /\ Strict /\ RpValOk(Ev.p, Ev.res)
TRpByte == On("rpbyte") /\ Strict /\ RpByteOk(Ev.b, Ev.res)
TRpStr  == On("rpstr")  /\ ( (Strict /\ RpStrOk(Ev.s, Ev.res))
                          \/ (Deviate("C08-rp-overlong") /\ RpStrOverlongAccepted(Ev.s, Ev.res)) )
TFidVal == On("fidval") /\ Strict /\ FidValOk(Ev.vid, Ev.key, Ev.ck, Ev.res)
TFidStr == On("fidstr") /\ Strict /\ FidStrOk(Ev.s, Ev.res)
TPath   == On("path")   /\ Strict /\ PathOk(Ev.s, Ev.res)
TUpTtl  == On("upttl")  /\ Strict /\ UpTtlOk(Ev.s, Ev.res)
TUpFid  == On("upfid")  /\ Strict /\ PathOk(StripExt(Ev.s), Ev.res)
TIdx    == On("idx")    /\ Strict /\ IdxOk(Ev.key, Ev.off, Ev.size, Ev.res)
TIdxRaw == On("idxraw") /\ Strict /\ IdxRawOk(Ev.by, Ev.res)
TWalk   == On("walk")   /\ Strict /\ WalkOk(Ev.ents, Ev.res)
TSbVal  == On("sbval")  /\ Strict /\ SbValOk(Ev, Ev.res)
TSbRaw  == On("sbraw")  /\ Strict /\ SbRawOk(Ev.by, Ev.res)
TraceNext == TraceReset \/ TraceSkip \/ TTtlVal \/ TTtlStr \/ TRpVal \/ TRpByte \/ TRpStr \/ TFidVal
             \/ TFidStr \/ TPath \/ TUpTtl \/ TUpFid \/ TIdx \/ TIdxRaw \/ TWalk \/ TSbVal \/ TSbRaw
TraceSpec == TraceInit /\ [][TraceNext]_tvars
=============================================================================
