SPECIFICATION BSpec
INVARIANT Refines
INVARIANT LookupIsHolders
INVARIANT CopiesAgree
INVARIANT SeqAhead
INVARIANT VidsFresh
INVARIANT ReplicationSatisfied
INVARIANT BlobsOnFids
VIEW BView
CHECK_DEADLOCK FALSE
