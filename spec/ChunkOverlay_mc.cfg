SPECIFICATION Spec
INVARIANT TypeOK
INVARIANT DropInvisible
INVARIANT HolesAreZero
INVARIANT Deterministic
PROPERTY ReorgPreserves
CHECK_DEADLOCK FALSE
