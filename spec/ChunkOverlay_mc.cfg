SPECIFICATION Spec
INVARIANT TypeOK
INVARIANT DropInvisible
INVARIANT HolesAreZero
INVARIANT Deterministic
INVARIANT MinusSafe
INVARIANT MinusComplete
INVARIANT MinusKeepsContent
PROPERTY ReorgPreserves
CHECK_DEADLOCK FALSE
