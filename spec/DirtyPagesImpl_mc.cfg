SPECIFICATION Spec
INVARIANT NoUnlistedDeviation
INVARIANT AttrRefines
INVARIANT DirtyFaithful
INVARIANT ListsFaithful
INVARIANT ListsShape
INVARIANT ReadRefines
INVARIANT FlushRefines
CHECK_DEADLOCK FALSE
