---------------------------- MODULE MasterBroadcast ----------------------------
(* Spec growth next to C11 (advisory, never a C11 verdict): what the master tells its
   KeepConnected clients (weed/server/master_grpc_server.go: the VolumeLocation
   messages SendHeartbeat queues for every client, the list a client gets when it
   connects, and the message of the deferred unregistration).

   Statement: a client that applies the messages in the order it receives them, the
   way weed/wdclient/masterclient.go does (additions first, then deletions), knows
   after every step of a heartbeat history, for every volume id, exactly the servers
   the master itself answers with.  For ec volumes, where the master's own answer has
   open findings, the reference for the servers of the tree is the shards listed in
   the same snapshot (see EntryOK).

   This module: the client side (location map + message application) and the
   comparison with a snapshot.  MasterBroadcastModel.tla model-checks the statement
   on a small registry with the message rule of the code and with an exact rule;
   MasterBroadcastTrace.tla judges what a real master sent (harness/cmd/c11 --mode
   master records it in the snapshot fields bc / bc2on / bc2). *)
EXTENDS Integers, Sequences, FiniteSets, TLC

BGet(f, k, d) == IF k \in DOMAIN f THEN f[k] ELSE d
BRange(s) == {s[i] : i \in DOMAIN s}

\* a location map: [volume id -> set of servers]; a message: [n, newv, delv, ..]
ApplyMsg(v, m) ==
  [id \in DOMAIN v \cup BRange(m.newv) \cup BRange(m.delv) |->
     LET a == BGet(v, id, {}) \cup (IF id \in BRange(m.newv) THEN {m.n} ELSE {})
     IN IF id \in BRange(m.delv) THEN a \ {m.n} ELSE a]
RECURSIVE ApplyFrom(_, _, _)
ApplyFrom(v, msgs, i) == IF i > Len(msgs) THEN v ELSE ApplyFrom(ApplyMsg(v, msgs[i]), msgs, i + 1)
ApplyAll(v, msgs) == ApplyFrom(v, msgs, 1)
Locs(v, id) == BGet(v, id, {})

\* against a snapshot S of harness/cmd/c11: S.look = the master's lookup answers, S.ecs = the shards listed per
\* server of the tree, S.tree = the servers of the tree.  Normal volume: exactly the master's answer.  Ec volume:
\* among the servers of the tree exactly those listed with a shard; a server that is not in the tree (its stream
\* broke, or the master forgot it: findings C11-ec-lookup-after-disconnect, C11-reconnect-race) may be known to
\* the client only if the master itself still answers with it.
ShardHolders(S, id) == {S.ecs[i].n : i \in {j \in DOMAIN S.ecs : S.ecs[j].id = id}}
TreeNodes(S) == {S.tree[i].n : i \in DOMAIN S.tree}
EntryOK(v, S, i, ecids) ==
  LET id == S.look[i].id  L == Locs(v, id) IN
  IF id \in ecids THEN /\ L \cap TreeNodes(S) = ShardHolders(S, id)
                        /\ L \ TreeNodes(S) \subseteq BRange(S.look[i].ns)
  ELSE L = BRange(S.look[i].ns)
ViewOK(v, S, ecids) ==
  /\ \A i \in DOMAIN S.look : EntryOK(v, S, i, ecids)
  /\ \A id \in DOMAIN v : (\A i \in DOMAIN S.look : S.look[i].id # id) => v[id] = {}
=============================================================================
