----------------------------- MODULE ReplWrite -----------------------------
(* Layer A for C40: replicated writes leave every replica with the same blob.

   The statement: when an upload or a delete addressed to a replicated volume
   is reported successful, every replica of the volume holds the same outcome
   for that file id - the same decoded content, name, mime, pairs,
   last-modified time and TTL, or the same deletion.  A reported failure
   admits anything.

   The specification is a monitor over what the replicas are OBSERVED to hold.
   An outcome is a record with at least the fields  st ("data" | "gone" | ...),
   c (cookie; "?" when the replica answers without reading the record) and d
   (decoded content); the trace specification adds name, mime, pairs, lm, ttl
   and the client's HTTP view, layer B uses the BlobStore tokens.  Outcomes are
   only ever compared for equality.

     member    replicas that have a copy of the volume (VolumeDelete removes one)
     mounted   replicas whose copy is in service
     val[r][k] the last outcome observed on replica r for key k
     need[k]   the last operation on k was reported successful: the replicas
               have to agree on k
     alt[r][k] known-finding alternatives for replica r: outcomes that a listed
               defect of the unchanged tree makes r hold instead of the agreed
               one, each labelled with the deviation ids that have to be in KF
     want[k]   what the last successful operation on k promises about the
               outcome itself (not only that the replicas agree): ds = the
               decoded contents it may be (the uploaded bytes; either blob of a
               concurrent pair; {} = nothing promised), fix = <<field, value>>
               pairs every replica's outcome carries (a delete: st = "gone";
               the trace specification adds the uploaded pairs, the client's
               timestamp; for an encrypted upload dec = the key it returned)

   An upload enters by one of several ways - a multipart POST typed by the
   client, operation.Upload (reader; the client library sniffs the mime type,
   compresses or passes a compressed input on), operation.UploadData - with or
   without client-side encryption (cipher).  The way changes nothing in what is
   promised: every replica decodes to the uploaded bytes; for an encrypted
   upload "decoded" = decrypted with the key the upload returned (field dec of
   the outcome names the key that opens the stored bytes - "k1", "k2", ... in the
   order the keys were returned for this file id, "plain" when they are not
   encrypted with any of them; ct = identity of the stored ciphertext, compared
   like every other field: the replicas hold the SAME ciphertext).  An encrypted
   upload never finds a copy unchanged (fresh key and nonce) and never stores
   a size-0 needle, so those two alternatives are not offered to it.

   Replicas are the volume's copies, also while one is unmounted: an unmounted
   copy cannot be observed (outcome st = "novol"), it is compared again as
   soon as it is mounted.  Reloading a copy (unmount + mount) is invisible.

   BlobStore supplies the token tables (MetaTable, Gz, StoredEmpty) for the
   generators and layer B. *)
EXTENDS BlobStore
VARIABLES member, mounted, val, need, alt, want
avars == <<member, mounted, val, need, alt, want>>

AllR == {0, 1, 2}
AllK == {1, 2, 3}
NoOutcome == [st |-> "unknown", c |-> "", d |-> ""]

IsData(v) == v.st = "data"
(* a size-0 needle: served without reading the record - no cookie, no metadata *)
IsSize0(v) == v.st = "data" /\ v.c = "?" /\ v.d = "e"
(* the stored bytes are ciphertext (they decrypt with a key an upload of this file id returned) *)
IsCiphered(v) == "dec" \in DOMAIN v /\ v.dec # "plain"

NoWant == [ds |-> {}, fix |-> {}]
Want(ds, fix) == [ds |-> ds, fix |-> fix]
Meets(w, o) ==
  /\ w.ds # {} => (o.st = "data" /\ o.d \in w.ds)
  /\ \A p \in w.fix : p[1] \in DOMAIN o /\ o[p[1]] = p[2]

(* an execution starts with a fresh volume: every copy holds nothing (outcome `gone`) *)
AInit(n, gone) ==
  /\ member = {r \in AllR : r < n} /\ mounted = {r \in AllR : r < n}
  /\ val = [r \in AllR |-> [k \in AllK |-> gone]]
  /\ need = [k \in AllK |-> FALSE]
  /\ alt = [r \in AllR |-> [k \in AllK |-> {}]]
  /\ want = [k \in AllK |-> NoWant]

(* an alternative: the deviation ids it relies on, what it admits for the copy (kind, ob, ds) *)
Alt(ids, kind, ob, ds) == [ids |-> ids, kind |-> kind, ob |-> ob, ds |-> ds]
Matches(a, v) ==
  CASE a.kind \in {"keep", "keep-unchanged", "keep-noop"} -> v = a.ob
    [] a.kind \in {"gone", "gone-free"} -> v.st = "gone"
    [] a.kind = "size0" -> IsSize0(v)
    [] a.kind = "oneof" -> v.st = "data" /\ v.d \in a.ds
    [] OTHER -> FALSE

(* ---------------------------------------------------------------- upload *)
(* C01-unchanged-keeps-metadata: a replica whose needle already has this cookie
   and these bytes acknowledges without writing, so it keeps its old metadata
   while another replica (one that missed an earlier write) stores the new one.
   C01-empty-any-cookie: an empty payload is stored as a size-0 needle that
   comes back without cookie and metadata (a replica that received the payload
   gzip-wrapped holds a regular needle with all of it).
   C40-forwarder-skips-copies: a server whose own copy is unmounted forwards
   the request to the locations it knows of (the master's list when it first
   asked, cached for 10 minutes) and reports their success without comparing
   their number with the copy count; its own copy and every copy missing from
   that list - unmounted, or mounted again since - keep what they had. *)
UploadAlts(r, to, k, c, d, vttl, cipher) ==
  LET v == val[r][k] IN
     (IF vttl = "" /\ ~cipher /\ IsData(v) /\ ~IsSize0(v) /\ ~IsCiphered(v) /\ v.c = c /\ v.d = d
        THEN {Alt({"C01-unchanged-keeps-metadata"}, "keep-unchanged", v, {})} ELSE {})
  \cup (IF d = "e" /\ ~cipher THEN {Alt({"C01-empty-any-cookie"}, "size0", NoOutcome, {})} ELSE {})
  \cup (IF to \in member \ mounted /\ r \in member
          THEN {Alt({"C40-forwarder-skips-copies"}, "keep", v, {})} ELSE {})

(* cipher: the client encrypts; fix: what else the outcome carries (see want) *)
AUpload(to, k, c, d, vttl, res, cipher, fix) ==
  /\ need' = [need EXCEPT ![k] = (res = "ok")]
  /\ alt' = [r \in AllR |-> [alt[r] EXCEPT ![k] = IF res = "ok" THEN UploadAlts(r, to, k, c, d, vttl, cipher) ELSE {}]]
  /\ want' = [want EXCEPT ![k] = IF res = "ok" THEN Want({d}, fix) ELSE NoWant]
  /\ UNCHANGED <<member, mounted, val>>

(* ---------------------------------------------------------------- two uploads at the same time *)
(* Two uploads for one file id issued concurrently (through the same or different copies).  When both are
   reported successful the statement applies to both: the copies agree (on either of the two).
   C40-concurrent-overwrites-diverge: every copy applies the two writes in the order in which they happen
   to reach it - the primary's local write and its fan-out are not ordered against the other request - so
   each copy ends up with either of the two blobs, independently of the others. *)
ARace(k, c, d1, d2, res1, res2) ==
  LET ok == res1 = "ok" /\ res2 = "ok" IN
  /\ need' = [need EXCEPT ![k] = ok]
  /\ alt' = [r \in AllR |-> [alt[r] EXCEPT ![k] =
               IF ok THEN {Alt({"C40-concurrent-overwrites-diverge"}, "oneof", NoOutcome, {d1, d2})} ELSE {}]]
  /\ want' = [want EXCEPT ![k] = IF ok THEN Want({d1, d2}, {}) ELSE NoWant]
  /\ UNCHANGED <<member, mounted, val>>

(* ---------------------------------------------------------------- delete *)
(* C01-empty-delete-noop: deleting a size-0 needle is acknowledged and removes
   nothing, so a replica holding the empty payload as a size-0 needle keeps it
   while a replica holding it gzip-wrapped deletes it. *)
DeleteAlts(r, k) ==
  IF IsSize0(val[r][k]) THEN {Alt({"C01-empty-delete-noop"}, "keep-noop", val[r][k], {})} ELSE {}

ADelete(to, k, c, res) ==
  /\ need' = [need EXCEPT ![k] = (res = "ok")]
  /\ alt' = [r \in AllR |-> [alt[r] EXCEPT ![k] = IF res = "ok" THEN DeleteAlts(r, k) ELSE {}]]
  /\ want' = [want EXCEPT ![k] = IF res = "ok" THEN Want({}, {<<"st", "gone">>}) ELSE NoWant]
  /\ UNCHANGED <<member, mounted, val>>

(* ---------------------------------------------------------------- replica faults *)
(* Marking a copy read-only / writable, unmounting and mounting it change
   nothing any replica holds.  C01-empty-lost-on-reload: index replay drops
   size-0 needles, so a reloaded copy loses its empty payloads. *)
AFault(kind, r, res) ==
  /\ member' = IF kind = "voldelete" /\ res = "ok" THEN member \ {r} ELSE member
  /\ mounted' = IF kind \in {"unmount", "voldelete"} /\ res = "ok" THEN mounted \ {r}
                ELSE IF kind = "mount" /\ res = "ok" THEN mounted \cup {r} ELSE mounted
  (* a copy that an alternative lets keep a size-0 needle loses that one on reload as well: both deviations *)
  /\ alt' = IF kind = "mount" /\ res = "ok"
            THEN [alt EXCEPT ![r] = [k \in AllK |->
                    alt[r][k]
                    \cup (IF IsSize0(val[r][k]) THEN {Alt({"C01-empty-lost-on-reload"}, "gone", NoOutcome, {})} ELSE {})
                    \cup {Alt(a.ids \cup {"C01-empty-lost-on-reload"}, "gone-free", NoOutcome, {}) :
                             a \in {x \in alt[r][k] : x.kind \in {"keep", "keep-noop"} /\ IsSize0(x.ob)}}]]
            ELSE alt
  /\ UNCHANGED <<val, need, want>>

(* ---------------------------------------------------------------- what the replicas hold *)
(* obs[r] = the outcome observed on replica r for key k (st = "novol": no copy in
   service on r).  Admitted with deviation set S iff the replicas that are not
   excused by an alternative agree whenever agreement is needed and hold what
   the operation promised (want), and S is exactly the set of deviation ids the
   excused replicas rely on. *)
Readable(obs) == {r \in member : obs[r].st # "novol"}
(* An alternative excuses one copy for what the defect does to it, never the others: a copy v that is excused
   through alternative a is still bound to every copy w that is not excused -
     kept its old needle on an unchanged rewrite: w holds the same cookie and content (only metadata may differ);
     holds the empty payload as a size-0 needle: w holds the empty payload;
     kept its size-0 needle through a delete: w is deleted;
     lost its size-0 needle on reload: w is deleted or holds the empty payload. *)
Compatible(a, v, w) ==
  CASE a.kind = "keep-unchanged" -> w.st = "data" /\ w.c = v.c /\ w.d = v.d
    [] a.kind = "size0" -> w.st = "data" /\ w.d = "e"
    [] a.kind = "keep-noop" -> w.st = "gone"
    [] a.kind = "gone" -> w.st = "gone" \/ (w.st = "data" /\ w.d = "e")
    [] OTHER -> TRUE
SnapOK(k, obs, S) ==
  \E E \in SUBSET Readable(obs) :
    \E pick \in [E -> UNION {alt[r][k] : r \in AllR}] :
      /\ \A r \in E : pick[r] \in alt[r][k] /\ Matches(pick[r], obs[r])
      /\ S = UNION {pick[r].ids : r \in E}
      /\ need[k] => /\ \A r1, r2 \in Readable(obs) \ E : obs[r1] = obs[r2]
                    /\ \A r \in Readable(obs) \ E : Meets(want[k], obs[r])
                    /\ \A r \in E : \A w \in Readable(obs) \ E : Compatible(pick[r], obs[r], obs[w])
ASnap(k, obs) ==
  /\ val' = [r \in AllR |-> IF r \in Readable(obs) THEN [val[r] EXCEPT ![k] = obs[r]] ELSE val[r]]
  /\ UNCHANGED <<member, mounted, need, alt, want>>
=============================================================================
