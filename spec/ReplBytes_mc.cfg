SPECIFICATION Spec
INVARIANT Agree
INVARIANT LengthOk
INVARIANT SqueezeOk
INVARIANT LatestWins
CHECK_DEADLOCK FALSE
