----------------------------- MODULE ClusterImpl -----------------------------
(* X06, layer B: the cluster as the code runs it, with the layer-A state (ClusterSpec) as ghost.

   master      reg     volume id -> servers in its location list (VolumeLayout.vid2location), filled by
                       the registration inside grow() and by heartbeats, emptied by a restart
               seq     the sequencer's next key.  "memory" (the code): a new master process starts at 1
                       and is pushed by every heartbeat to 1 + the largest key the server reports
                       (SendHeartbeat: Sequence.SetMax(MaxFileKey));  "persistent": survives the restart
               maxvid  largest volume id handed out (committed through raft, survives a restart)
   servers     idx     <<server, vid>> -> keys in the volume's index, tombstones included: what
                       MaxFileKey is computed from; compaction drops the tombstones
               live    <<server, vid>> -> keys that read back

   Assign as the code does it: shouldVolumeGrow (no writable volume of the class) -> AutomaticGrowByType
   -> findEmptySlots over the servers the master lists (a placement the replication asks for) ->
   AllocateVolume on each chosen server and registration -> PickForWrite among the writable volumes
   (location list complete) -> key = NextFileId(count).
   Upload / delete: ReplicatedWrite on the receiving server - local operation first, then the other
   locations the master's lookup names; refused (after the local operation) when the lookup names
   fewer locations than the volume's copy count.
   Vacuum: every volume with a complete location list is compacted on every copy.

   Every step computes the result the code would produce and hands it to the layer-A operator; a
   result layer A does not admit sets `bad` (Refines).  Admit = the known-finding deviations of
   layer A that are admitted ("stale" = C13-memory-leader-change-reissue, "purged" =
   X06-reissue-after-vacuum). *)
EXTENDS ClusterSpec

CONSTANTS GrowCount, SeqKind, Admit

VARIABLES reg, seq, maxvid, idx, live, bad, lasthow

ivars == <<reg, seq, maxvid, idx, live, bad, lasthow>>
allvars == <<vars, ivars>>

Max(S) == IF S = {} THEN 0 ELSE CHOOSE x \in S : \A y \in S : y <= x
RegOf(v) == IF v \in DOMAIN reg THEN reg[v] ELSE {}
SrvVols(s) == {sv[2] : sv \in {x \in DOMAIN idx : x[1] = s}}
MaxKeyOf(s) == Max(UNION {idx[<<s, v>>] : v \in SrvVols(s)})
(* the master's registry after the servers in S have reported *)
Report(S) == LET vs == UNION {SrvVols(s) : s \in S} IN [v \in vs |-> {s \in S : <<s, v>> \in DOMAIN idx}]
WithKey(fn, sv, k) == [fn EXCEPT ![sv] = fn[sv] \cup {k}]
WithoutKey(fn, sv, k) == [fn EXCEPT ![sv] = fn[sv] \ {k}]

BInit ==
  /\ Init
  /\ reg = <<>> /\ seq = 1 /\ maxvid = 0 /\ idx = <<>> /\ live = <<>> /\ bad = FALSE /\ lasthow = "fresh"

(* ------------------------------------------------------------ assign *)
Writable(c, rep) == {v \in DOMAIN reg : v \in DOMAIN vols /\ vols[v].c = c /\ vols[v].rep = rep /\ ~vols[v].gone
                                        /\ Cardinality(reg[v]) = Copies(rep)}
(* findEmptySlotsForOneVolume: the main data center must pass the master's test (y+1 racks with z+1 free servers
   each, SurePlace); then a placement among the servers the master lists (= the running ones, settled) *)
Slots(rep) == IF SurePlace(rep, up) THEN {H \in SUBSET up : Placed(H, rep)} ELSE {}
How(c, rep, n, res, nv) ==
  IF AssignPre(c, rep, "", n, res, nv, "fresh") THEN "fresh"
  ELSE IF "stale" \in Admit /\ AssignPre(c, rep, "", n, res, nv, "stale") THEN "stale"
  ELSE IF "purged" \in Admit /\ AssignPre(c, rep, "", n, res, nv, "purged") THEN "purged"
  ELSE "bad"
BAssign ==
  \E c \in MColls, rep \in MReps, n \in MCounts :
    /\ Log([ev |-> "assign", c |-> c, rep |-> rep, ttl |-> "", n |-> n])
    /\ LET grow == Writable(c, rep) = {}
           canGrow == Slots(rep) # {} /\ Cardinality(DOMAIN vols) + GrowCount <= MaxVols
           H == CHOOSE H \in Slots(rep) : TRUE
           newIds == IF grow /\ canGrow THEN (maxvid + 1)..(maxvid + GrowCount) ELSE {}
           nv == {[vid |-> v, c |-> c, rep |-> rep, ttl |-> "", hold |-> H] : v \in newIds}
           reg2 == [v \in DOMAIN reg \cup newIds |-> IF v \in newIds THEN H ELSE reg[v]]
           W == IF grow THEN newIds ELSE Writable(c, rep)
       IN
       /\ (grow /\ ~canGrow /\ Slots(rep) # {}) => FALSE           \* the bound of the model, not a refusal of the code
       /\ IF W = {}
          THEN \* "no free volumes left" / growth failed: nothing changes
               LET res == [ok |-> FALSE, vid |-> 0, key |-> 0, cnt |-> 0, url |-> ""] h == How(c, rep, n, res, {}) IN
               /\ AssignEff(n, res, {})
               /\ bad' = (bad \/ h = "bad") /\ lasthow' = "fresh"
               /\ UNCHANGED <<reg, seq, maxvid, idx, live>>
          ELSE \E v \in W :
               LET res == [ok |-> TRUE, vid |-> v, key |-> seq, cnt |-> n, url |-> CHOOSE s \in reg2[v] : TRUE]
                   h == How(c, rep, n, res, nv) IN
               /\ AssignEff(n, res, nv)
               /\ bad' = (bad \/ h = "bad") /\ lasthow' = h
               /\ reg' = reg2 /\ seq' = seq + n /\ maxvid' = maxvid + Cardinality(newIds)
               /\ idx' = [sv \in DOMAIN idx \cup (H \X newIds) |-> IF sv \in DOMAIN idx THEN idx[sv] ELSE {}]
               /\ live' = [sv \in DOMAIN live \cup (H \X newIds) |-> IF sv \in DOMAIN live THEN live[sv] ELSE {}]

(* ------------------------------------------------------------ upload / delete *)
UploadPre(f, sub, to, st) == ValidK(f, sub) /\ (Calm(fids[f].vid, to) => st = "ok")
DeletePre(f, sub, to, st) == ValidK(f, sub) /\ ((Calm(fids[f].vid, to) /\ <<f, sub>> \in DOMAIN blob /\ <<f, sub>> \notin fuzzy) => st = "ok")
BWrite(del) ==
  \E f \in 1..Len(fids) : \E sub \in 0..(fids[f].cnt - 1) :
    /\ fids[f].ok /\ ~vols[fids[f].vid].gone
    /\ del => <<f, sub>> \in DOMAIN blob
    /\ LET vid == fids[f].vid key == fids[f].key + sub
           H == vols[vid].hold
           to == CHOOSE s \in H \cap up : TRUE
           locs == RegOf(vid)                                   \* what /dir/lookup answers
           st == IF Cardinality(locs) < Copies(vols[vid].rep) THEN "err" ELSE "ok"
           touched == IF st = "ok" THEN locs ELSE {to}           \* the local operation happens first
           apply(fn, keep) == [sv \in DOMAIN fn |-> IF sv[2] = vid /\ sv[1] \in touched
                                                    THEN (IF keep THEN fn[sv] \cup {key} ELSE fn[sv] \ {key}) ELSE fn[sv]]
       IN
       /\ H \cap up # {}
       /\ Log(IF del THEN [ev |-> "delete", f |-> f, sub |-> sub] ELSE [ev |-> "upload", f |-> f, sub |-> sub, d |-> "a"])
       /\ idx' = apply(idx, TRUE)
       /\ live' = apply(live, ~del)
       /\ IF del
          THEN IF DeletePre(f, sub, to, st) THEN Delete(f, sub, to, st) /\ bad' = bad ELSE bad' = TRUE /\ UNCHANGED core
          ELSE IF UploadPre(f, sub, to, st) THEN Upload(f, sub, "a", to, st) /\ bad' = bad ELSE bad' = TRUE /\ UNCHANGED core
       /\ lasthow' = "fresh"
       /\ UNCHANGED <<reg, seq, maxvid>>

(* ------------------------------------------------------------ vacuum, collection delete *)
BVacuum ==
  /\ DOMAIN vols # {} /\ Log([ev |-> "vacuum"])
  /\ LET full == {v \in DOMAIN reg : v \in DOMAIN vols /\ Cardinality(reg[v]) = Copies(vols[v].rep)} IN
     idx' = [sv \in DOMAIN idx |-> IF sv[2] \in full /\ sv[1] \in reg[sv[2]] THEN live[sv] ELSE idx[sv]]
  /\ Vacuum("ok")
  /\ lasthow' = "fresh"
  /\ UNCHANGED <<reg, seq, maxvid, live, bad>>
BColDel ==
  \E c \in MColls :
    /\ AllUp /\ VolsOf(c) # {} /\ Log([ev |-> "coldel", c |-> c])
    /\ LET D == VolsOf(c) IN
       /\ reg' = [v \in DOMAIN reg \ D |-> reg[v]]
       /\ idx' = [sv \in {x \in DOMAIN idx : x[2] \notin D} |-> idx[sv]]
       /\ live' = [sv \in {x \in DOMAIN live : x[2] \notin D} |-> live[sv]]
    /\ ColDel(c, "ok")
    /\ lasthow' = "fresh"
    /\ UNCHANGED <<seq, maxvid, bad>>

(* ------------------------------------------------------------ restarts *)
Pushed(s0, S) == Max({s0} \cup {MaxKeyOf(s) + 1 : s \in S})
BMRestart ==
  /\ fids # <<>> /\ Log([ev |-> "mrestart"])
  /\ reg' = Report(up)
  /\ seq' = Pushed(IF SeqKind = "memory" THEN 1 ELSE seq, up)
  /\ MRestart(TRUE)
  /\ lasthow' = "fresh"
  /\ UNCHANGED <<maxvid, idx, live, bad>>
BVStop ==
  \E s \in up :
    /\ AllUp /\ DOMAIN vols # {} /\ Log([ev |-> "vstop", s |-> s])
    /\ reg' = LET r == [v \in DOMAIN reg |-> reg[v] \ {s}] IN [v \in {x \in DOMAIN r : r[x] # {}} |-> r[v]]
    /\ VStop(s, TRUE)
    /\ lasthow' = "fresh"
    /\ UNCHANGED <<seq, maxvid, idx, live, bad>>
BVStart ==
  \E s \in Servers \ up :
    /\ Log([ev |-> "vstart", s |-> s])
    /\ reg' = Report(up \cup {s})
    /\ seq' = Pushed(seq, {s})
    /\ VStart(s, TRUE)
    /\ lasthow' = "fresh"
    /\ UNCHANGED <<maxvid, idx, live, bad>>

(* the periodic heartbeat of the running servers (not an operation of the history): SetMax *)
BHeartbeat ==
  /\ Pushed(seq, up) # seq
  /\ seq' = Pushed(seq, up)
  /\ UNCHANGED <<vars, reg, maxvid, idx, live, bad, lasthow>>

BNext ==
  /\ Len(hist) < MaxOps /\ ~bad
  /\ UNCHANGED topo
  /\ BAssign \/ BWrite(FALSE) \/ BWrite(TRUE) \/ BVacuum \/ BColDel \/ BMRestart \/ BVStop \/ BVStart \/ BHeartbeat
BSpec == BInit /\ [][BNext]_allvars

(* ------------------------------------------------------------ what TLC checks *)
(* every result the model of the code produces is one layer A admits *)
Refines == ~bad
(* the master's location lists are the holders that are running *)
LookupIsHolders == \A v \in DOMAIN vols : RegOf(v) = (IF vols[v].gone THEN {} ELSE vols[v].hold \cap up)
(* every copy of a volume that never missed an operation has exactly the live blobs *)
CopiesAgree == \A v \in DOMAIN vols : (~vols[v].gone /\ ~vols[v].deg) =>
                 \A s \in vols[v].hold : live[<<s, v>>] = {fids[k[1]].key + k[2] : k \in {x \in DOMAIN blob : fids[x[1]].vid = v}}
(* a sequencer that survives restarts is ahead of every key a running server reports; the memory sequencer is not
   (a key handed out before the restart and written after it) until the next heartbeat *)
SeqAhead == (SeqKind = "persistent") => \A s \in up : seq > MaxKeyOf(s)
(* volume ids are never reused *)
VidsFresh == \A v \in DOMAIN vols : v <= maxvid

BView == <<core, ivars>>
EmitReissue == lasthow = "fresh" \/ PrintT(<<"W", ToJson(hist)>>)
=============================================================================
