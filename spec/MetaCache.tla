------------------------------ MODULE MetaCache ------------------------------
(* Spec growth X04, layer A: the mount's local metadata cache (weed/filesys/meta_cache) follows the filer.

   tree     the filer's namespace below the mount's root: path (sequence of names) -> "dir" | content token
   visited  the directories the mount has looked into (a lookup or a listing: EnsureVisited)
   pend     paths that undelivered events of the filer's change stream may concern
   exc      excused subtrees: [r |-> root path, id |-> known-finding id] (see the deviations below)

   Statement.  At quiescence (every event emitted so far has been delivered to the mount) every listing
   that the cache serves equals the filer's listing of that directory - same names, kinds, content tokens -
   and the cache serves (does not refuse as "unsynchronized") every directory the mount has looked into.
   This holds for every history of creates, updates, recursive deletes and renames (files and directories,
   within / into / out of visited directories, onto existing files) done by ANOTHER client, interleaved in
   every way with deliveries, with the mount looking into further directories, and with the mount's own
   changes (applied to the cache directly, their events suppressed by signature).
   Nothing is demanded between quiescence points, of directories that do not exist, or about which own
   operation fails when the mount acts on a stale view.

   Known deviations of the unchanged tree (named, excused as narrowly as A can see them):
     X04-own-rename-unvisited-dir   the mount renames a directory some part of which it has not looked into
     X04-own-change-overtaken       the mount changes a path for which an older foreign event is still queued *)
EXTENDS Integers, Sequences, FiniteSets, TLC, Json
VARIABLES tree, visited, pend, exc, hist
avars == <<tree, visited, pend, exc, hist>>

RN == "X04-own-rename-unvisited-dir"
OV == "X04-own-change-overtaken"

Pre(p, i) == SubSeq(p, 1, i)
Parent(p) == SubSeq(p, 1, Len(p) - 1)
IsPrefix(p, q) == Len(p) <= Len(q) /\ SubSeq(q, 1, Len(p)) = p
Suffix(q, n) == SubSeq(q, n + 1, Len(q))
Look(t, p) == IF p \in DOMAIN t THEN t[p] ELSE "none"
IsDir(t, p) == p = <<>> \/ Look(t, p) = "dir"
Under(t, p) == {q \in DOMAIN t : IsPrefix(p, q)}
Without(t, S) == [q \in DOMAIN t \ S |-> t[q]]
Put1(t, p, v) == [q \in DOMAIN t \cup {p} |-> IF q = p THEN v ELSE t[q]]
Del1(t, p) == [q \in DOMAIN t \ {p} |-> t[q]]
Ancestors(p) == {Pre(p, i) : i \in 1..(Len(p) - 1)}
AncFree(t, p) == \A a \in Ancestors(p) : Look(t, a) \in {"none", "dir"}
MkAnc(t, p) == [q \in DOMAIN t \cup Ancestors(p) |-> IF q \in DOMAIN t THEN t[q] ELSE "dir"]
Image(q, o, n) == n \o Suffix(q, Len(o))
(* the filer moves entry by entry: what is at the destination and not overwritten stays *)
MoveT(t, o, n) ==
  LET sub == Under(t, o)
      moved == {Image(q, o, n) : q \in sub}
      t1 == Without(t, sub)
  IN [q \in DOMAIN t1 \cup moved |-> IF q \in moved THEN t[o \o Suffix(q, Len(n))] ELSE t1[q]]
Kinded(v) == IF v \in {"none", "dir"} THEN v ELSE "file"
MvCompat(t, o, n) == \A q \in Under(t, o) : Kinded(Look(t, Image(q, o, n))) \in {"none", Kinded(t[q])}

(* what the filer does with a request it accepts *)
Can(t, k, p, n) ==
  CASE k = "put" -> AncFree(t, p) /\ Look(t, p) # "dir"
    [] k = "mkdir" -> AncFree(t, p) /\ Look(t, p) \in {"none", "dir"}
    [] k = "del" -> TRUE
    [] k = "mv" -> p \in DOMAIN t /\ (p = n \/ ~IsPrefix(p, n)) /\ AncFree(t, n) /\ MvCompat(t, p, n)
Apply(t, k, p, n, d) ==
  CASE k = "put" -> Put1(MkAnc(t, p), p, d)
    [] k = "mkdir" -> Put1(MkAnc(t, p), p, "dir")
    [] k = "del" -> Without(t, Under(t, p))
    [] k = "mv" -> IF p = n THEN t ELSE MoveT(MkAnc(t, n), p, n)

Roots(k, p, n) == IF k = "mv" THEN {p, n} ELSE {p}
Diff(t, t2) == {q \in DOMAIN t \cup DOMAIN t2 : Look(t, q) # Look(t2, q)}
Related(q, R) == \E r \in R : IsPrefix(r, q) \/ IsPrefix(q, r)
Racy(pd, R) == \E q \in pd : Related(q, R)
(* some directory of the subtree at o has not been looked into by the mount *)
PartUnvisited(t, v, o) == Look(t, o) = "dir" /\ \E q \in Under(t, o) : t[q] = "dir" /\ q \notin v

ExcIds(q) == {x.id : x \in {y \in exc : IsPrefix(y.r, q)}}
(* the mount's view of p may be stale: an event concerning it is queued, or a known deviation has hit it *)
Stale(p) == Racy(pend, {p}) \/ ExcIds(p) # {}

(* ---- outcomes admitted for an operation e = [who, k, p, n, d, ok, vis, vis2, q] ---- *)
(* strict: a refused operation changes nothing; an accepted one does what the filer does.  A mount acting on a
   stale view (an event concerning the path is still queued) may also find nothing to send (put of the token its
   cache already shows). *)
OpStrict(e, t2) ==
  IF e.ok THEN \/ Can(tree, e.k, e.p, e.n) /\ t2 = Apply(tree, e.k, e.p, e.n, e.d)
               \/ e.who = "m" /\ e.k = "put" /\ Stale(e.p) /\ t2 = tree
  ELSE t2 = tree
(* X04-own-rename-unvisited-dir: the filer has renamed, the mount answers EIO, its cache keeps the old name next to
   the new one and serves the new directory as synchronized although it never read it (dir_rename.go:134) *)
OpRenameDev(e, t2) ==
  /\ e.who = "m" /\ e.k = "mv" /\ ~e.ok
  /\ PartUnvisited(tree, visited, e.p) /\ Can(tree, "mv", e.p, e.n) /\ e.p # e.n
  /\ t2 = Apply(tree, "mv", e.p, e.n, e.d)

VisAfter(v, e) == v \cup {Pre(e.p, i) : i \in 0..(e.vis - 1)} \cup {Pre(e.n, i) : i \in 0..(e.vis2 - 1)}
(* paths whose events the mount will still receive: everything a foreign change touched; of an own change only what
   the filer emits without the mount's signature (children of a deleted directory, implicitly created parents) *)
NewPend(e, t, t2) ==
  IF e.who = "o" THEN (IF e.ok THEN Diff(t, t2) \cup Roots(e.k, e.p, e.n) ELSE {})
  ELSE Diff(t, t2) \ (IF e.k = "mv" THEN Under(t, e.p) \cup Under(t2, e.n) ELSE {e.p})
PendAfter(e, t, t2) == IF e.q = 0 THEN {} ELSE pend \cup NewPend(e, t, t2)
ExcAfter(e, t2, dev) ==
  exc \cup (IF e.who = "m" /\ (e.ok \/ dev) /\ Racy(pend, Roots(e.k, e.p, e.n))
            THEN {[r |-> r, id |-> OV] : r \in Roots(e.k, e.p, e.n)} ELSE {})
      \cup (IF dev THEN {[r |-> e.p, id |-> RN], [r |-> e.n, id |-> RN]} ELSE {})
      \* the mount moves what its cache shows: a deviation at the source travels to the destination
      \cup (IF e.who = "m" /\ e.k = "mv" /\ (e.ok \/ dev) THEN {[r |-> e.n, id |-> x.id] : x \in {y \in exc : Related(y.r, {e.p})}} ELSE {})

OpA(e, dev) ==
  /\ IF dev THEN OpRenameDev(e, tree') ELSE OpStrict(e, tree')
  /\ visited' = VisAfter(visited, e)
  /\ pend' = PendAfter(e, tree, tree')
  /\ exc' = ExcAfter(e, tree', dev)
VisitA(e) == visited' = VisAfter(visited, [p |-> e.p, vis |-> e.vis, n |-> <<>>, vis2 |-> 0]) /\ UNCHANGED <<tree, pend, exc>>
DeliverA(e) == pend' = (IF e.q = 0 THEN {} ELSE pend) /\ UNCHANGED <<tree, visited, exc>>

(* ---- the observation: listings l = [st |-> "ok" | "unsync", es |-> <<<<name, kind-or-token>>, ...>>] ---- *)
TSet(t, d) == {<<q[Len(q)], t[q]>> : q \in {r \in DOMAIN t : Len(r) = Len(d) + 1 /\ Parent(r) = d}}
CSet(l) == {<<l.es[i][1], l.es[i][2]>> : i \in 1..Len(l.es)}
BadNames(l, t, d) == {x[1] : x \in (CSet(l) \ TSet(t, d)) \cup (TSet(t, d) \ CSet(l))}
(* the paths at which a served listing of an existing directory differs from the filer's, at quiescence *)
BadPaths(q, cs, Probe) ==
  IF q # 0 THEN {}
  ELSE UNION {IF cs[i].st = "ok" /\ IsDir(tree, Probe[i])
              THEN {Append(Probe[i], nm) : nm \in BadNames(cs[i], tree, Probe[i])} ELSE {} : i \in 1..Len(Probe)}
(* always: the filer has the tree (binds the execution to the model), the cache serves or refuses, and it serves
   what the mount has looked into *)
SnapBase(fs, cs, Probe) ==
  /\ Len(fs) = Len(Probe) /\ Len(cs) = Len(Probe)
  /\ \A i \in 1..Len(Probe) : fs[i].st = "ok" /\ CSet(fs[i]) = TSet(tree, Probe[i])
  /\ \A i \in 1..Len(Probe) : cs[i].st \in {"ok", "unsync"} /\ (Probe[i] \in visited => cs[i].st = "ok")

Init == tree = <<>> /\ visited = {} /\ pend = {} /\ exc = {} /\ hist = <<>>
WellFormed == \A p \in DOMAIN tree : Len(p) >= 1 /\ IsDir(tree, Parent(p))
=============================================================================
