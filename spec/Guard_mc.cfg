SPECIFICATION Spec
INVARIANT NoKeyNoCheck
INVARIANT ProofNeeded
INVARIANT KeySeparation
INVARIANT ValidAllowed
PROPERTY UnauthorizedIsNoop
CHECK_DEADLOCK FALSE
