--------------------------- MODULE S3AuthIamImpl ---------------------------
(* C26, layer B for the IAM API (weed/iamapi/iamapi_management_handlers.go): the shape of the
   handlers' procedure over the stored identity list, with the layer-A state (named, live of
   S3Auth.tla) as ghost.

     ids = <<[name, acts, keys]>>            the identities of /etc/iam/identity.json, in order
     CreateUser        appends an identity (no check for an existing one of that name)
     DeleteUser        removes the FIRST identity of that name
     PutUserPolicy     appends CodeOut(document) to the action list of the FIRST identity of that
                       name (never replaces what an earlier document of the same name gave)
     DeleteUserPolicy  removes the FIRST identity of that name (the whole identity, keys included)
     CreateAccessKey   adds a key to the first identity of that name, or appends a new identity
     DeleteAccessKey   removes the key from the first identity of that name

   CodeOut is GetActions: Deny statements skipped; a resource must split into six ":" fields
   starting arn:aws:s3; its last field "*" -> the global action, "<bucket>/*" -> "<action>:<bucket>",
   anything else skipped; an action must be "s3:<x>" and <x> maps through a five-entry table, every
   other <x> to the empty action. IamSound / KeysSound are model-checked over every history of
   MaxOps calls; IamSound holds only with the named deviation C26-putuserpolicy-accumulates in KFM
   (the ghost then accumulates like the code); without it TLC exhibits the over-grant. *)
EXTENDS S3Auth
CONSTANTS MUsers, KeyToks
VARIABLES ids
ivars == <<vars, ids>>

CodeAct(tok) ==        \* "skip": not of the form s3:<x>
  CASE tok = "s3:Get*" -> "Read"
    [] tok = "s3:Put*" -> "Write"
    [] tok = "s3:List*" -> "List"
    [] tok = "s3:Tagging*" -> "Tagging"
    [] tok = "s3:*" -> "Admin"
    [] tok \in {"*", "iam:Get*"} -> "skip"
    [] OTHER -> ""     \* s3:get*, s3:DeleteObject, s3:Bogus*
CodeRes(tok) ==        \* "skip" | "global" | a bucket pattern
  CASE tok = "arn:aws:s3:::*" -> "global"
    [] tok = "arn:aws:s3:::b1/*" -> "b1"
    [] tok = "arn:aws:s3:::b2/*" -> "b2"
    [] tok = "arn:aws:s3:::b1*/*" -> "b1*"
    [] tok = "arn:aws:s3:::*/*" -> "*"
    [] tok = "arn:aws:s3:::/*" -> ""
    [] OTHER -> "skip"
RECURSIVE Flat(_)
Flat(ss) == IF ss = <<>> THEN <<>> ELSE Head(ss) \o Flat(Tail(ss))
CodeOutStmt(st) ==
  IF st.eff # "Allow" THEN <<>> ELSE
  Flat([i \in 1..Len(st.res) |->
    IF CodeRes(st.res[i]) = "skip" THEN <<>> ELSE
    Flat([j \in 1..Len(st.acts) |->
      IF CodeAct(st.acts[j]) = "skip" THEN <<>> ELSE
      <<[a |-> CodeAct(st.acts[j]),
         b |-> IF CodeRes(st.res[i]) = "global" THEN "" ELSE CodeRes(st.res[i]),
         g |-> CodeRes(st.res[i]) = "global"]>>])])
CodeOut(stmts) == Flat([i \in 1..Len(stmts) |-> CodeOutStmt(stmts[i])])

First(name) == IF \E i \in 1..Len(ids) : ids[i].name = name
               THEN CHOOSE i \in 1..Len(ids) : ids[i].name = name /\ \A j \in 1..(i - 1) : ids[j].name # name
               ELSE 0
Without(i) == [j \in 1..(Len(ids) - 1) |-> IF j < i THEN ids[j] ELSE ids[j + 1]]
CodeOp(e) ==
  LET f == First(e.user) IN
  CASE e.op = "CreateUser" -> ids' = Append(ids, [name |-> e.user, acts |-> <<>>, keys |-> {}])
    [] e.op \in {"DeleteUser", "DeleteUserPolicy"} -> ids' = IF f = 0 THEN ids ELSE Without(f)
    [] e.op = "PutUserPolicy" ->
         ids' = IF f = 0 THEN ids ELSE [ids EXCEPT ![f].acts = @ \o CodeOut(e.stmts)]
    [] e.op = "CreateAccessKey" ->
         ids' = IF f = 0 THEN Append(ids, [name |-> e.user, acts |-> <<>>, keys |-> {e.key}])
                ELSE [ids EXCEPT ![f].keys = @ \cup {e.key}]
    [] e.op = "DeleteAccessKey" -> ids' = IF f = 0 THEN ids ELSE [ids EXCEPT ![f].keys = @ \ {e.key}]
    [] OTHER -> UNCHANGED ids

Docs == {<<s>> : s \in Stmts1}
IInit == Init /\ ids = <<>>
GenIam ==
  /\ Len(hist) < MaxOps
  /\ \E op \in {"CreateUser", "DeleteUser", "PutUserPolicy", "DeleteUserPolicy", "CreateAccessKey", "DeleteAccessKey",
                "CreatePolicy"},
        u \in MUsers, pn \in PNames, k \in KeyToks, d \in Docs \cup {<<>>} :
       LET e == [ev |-> "iamop", op |-> op, user |-> u, pname |-> pn, key |-> k, stmts |-> d] IN
       /\ (d # <<>>) <=> op \in {"PutUserPolicy", "CreatePolicy"}
       /\ op = "CreateAccessKey" => \A i \in 1..Len(hist) : ~(hist[i].op = "CreateAccessKey" /\ hist[i].key = k)
       /\ op \notin {"CreateAccessKey", "DeleteAccessKey"} => k = CHOOSE x \in KeyToks : TRUE
       /\ op \notin {"PutUserPolicy", "DeleteUserPolicy", "CreatePolicy"} => pn = CHOOSE x \in PNames : TRUE
       /\ hist' = Append(hist, e)
       /\ IamOp(e, "C26-putuserpolicy-accumulates" \in KFM)
       /\ CodeOp(e)
ISpec == IInit /\ [][GenIam]_ivars

(* states that agree on everything but the order of the calls made so far are explored once *)
CreatedKeys == {hist[i].key : i \in {j \in 1..Len(hist) : hist[j].op = "CreateAccessKey"}}
IView == <<named, live, ids, Len(hist), CreatedKeys>>

(* the statement at design level: the stored action lists grant no more than the documents name,
   and no key outlives its deletion or its user's *)
IamSound == \A i \in 1..Len(ids) : Grants(ids[i].acts) \subseteq NamedOf(named, ids[i].name)
KeysSound == \A i \in 1..Len(ids) : \A k \in ids[i].keys : <<ids[i].name, k>> \in live
(* not vacuous (violated on purpose in the thorough tier): some identity is granted something *)
NothingGranted == \A i \in 1..Len(ids) : Grants(ids[i].acts) = {}
=============================================================================
