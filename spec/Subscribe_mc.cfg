SPECIFICATION ASpec
INVARIANT LogOrdered
INVARIANT GotOrdered
INVARIANT GotOnce
INVARIANT GotLater
INVARIANT GotNoGap
CHECK_DEADLOCK FALSE
