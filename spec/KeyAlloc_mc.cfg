SPECIFICATION Spec
INVARIANT RangesDisjoint
INVARIANT WritesAreGiven
PROPERTY NeverAKeyInUse
PROPERTY OnlyRegistered
PROPERTY VidsFresh
CHECK_DEADLOCK FALSE
