SPECIFICATION ESpec
INVARIANT EReadsAgree
INVARIANT WritableAfterDecode
VIEW EMCView
CHECK_DEADLOCK FALSE
