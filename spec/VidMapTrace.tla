----------------------------- MODULE VidMapTrace -----------------------------
(* Judge for C35: one trace action per event recorded by harness/cmd/c35. *)
EXTENDS VidMapSpec, TraceKit
tvars == <<vars, kitvars>>
KFID == "C35-delete-shifts-shared-slice"

TraceInit == /\ loc = <<>> /\ lst = <<>> /\ cdc = "" /\ dcof = <<>> /\ holds = <<>> /\ pend = {} /\ hist = <<>> /\ KitInit
TraceReset == /\ IsReset
              /\ loc' = [v \in Range(Ev.vids) |-> {}] /\ lst' = [v \in Range(Ev.vids) |-> <<>>]
              /\ cdc' = Ev.dc
              /\ dcof' = [u \in {Ev.locs[i].u : i \in 1..Len(Ev.locs)} |->
                            Ev.locs[CHOOSE i \in 1..Len(Ev.locs) : Ev.locs[i].u = u].dc]
              /\ holds' = <<>> /\ pend' = {} /\ UNCHANGED hist
TraceSkip == SkipStep /\ UNCHANGED vars
Quiet == pend = {}     \* sequential events only between storms

TAdd == IsEvent("add") /\ Strict /\ Quiet /\ Add(Ev.v, Ev.u) /\ UNCHANGED hist
TDel == IsEvent("del") /\ Strict /\ Quiet /\ Delete(Ev.v, Ev.u) /\ UNCHANGED hist
TLookup == IsEvent("lookup") /\ Strict /\ Quiet /\ Lookup(Ev.v, Ev.api, Ev.found, Ev.list) /\ UNCHANGED hist
THold == IsEvent("hold") /\ Strict /\ Quiet /\ Hold(Ev.h, Ev.v, Ev.found, Ev.list) /\ UNCHANGED hist
TSnap == /\ IsEvent("snap") /\ Strict /\ Quiet
         /\ \A i \in 1..Len(Ev.res) : LookupOK(Ev.res[i].api, Ev.res[i].found, Ev.res[i].list, loc[Ev.res[i].v])
         /\ UNCHANGED vars
TReread == /\ IsEvent("reread") /\ Ev.h \in DOMAIN holds
           /\ \/ Strict /\ RereadOK(holds[Ev.h], Ev.list)
              \/ Deviate(KFID) /\ ~RereadOK(holds[Ev.h], Ev.list) /\ RereadTorn(holds[Ev.h], Ev.list)
           /\ UNCHANGED vars
(* public path (a real MasterClient against a stand-in master): the master dropped the stream, the client
   reconnected and was sent the whole registry again.  Nothing changes for the statement: the same
   locations are added, the client's data center is what it was configured with. *)
TReconnect == IsEvent("reconnect") /\ Strict /\ Quiet /\ UNCHANGED vars
TCall == IsEvent("call") /\ Strict /\ Call(Ev.p, Ev.op, Ev.v, Ev.u, Ev.api) /\ UNCHANGED hist
TLin == /\ l <= N /\ ok /\ Trace[l].ev \in {"call", "ret"}
        /\ \E r \in pend : Lin(r.p)
        /\ UNCHANGED <<hist, kitvars>>
TRet == /\ IsEvent("ret")
        /\ \/ Strict /\ RetWith(Ev.p, Ev.found, Ev.list, StrictAdm)
           \/ Deviate(KFID) /\ (\E r \in Pending(Ev.p) : r.op = "lookup") /\ RetWith(Ev.p, Ev.found, Ev.list, TornAdm)
        /\ UNCHANGED hist
(* a data race report (thorough tier, race detector): only the known one is explained *)
TRace == /\ IsEvent("race") /\ Deviate(KFID)
         /\ \E i \in 1..Len(Ev.funcs) : Ev.funcs[i] = "weed/wdclient.(*vidMap).deleteLocation"
         /\ UNCHANGED vars
TraceNext == \/ TraceReset \/ TraceSkip \/ TAdd \/ TDel \/ TLookup \/ THold \/ TSnap \/ TReread
             \/ TCall \/ TLin \/ TRet \/ TRace \/ TReconnect
TraceSpec == TraceInit /\ [][TraceNext]_tvars
=============================================================================
