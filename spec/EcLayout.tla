------------------------------ MODULE EcLayout ------------------------------
(* C06 - erasure coding reconstructs and serves the exact original volume.

   Layer A (what the judge uses, bottom of the file): a volume data file of n
   bytes with known content Dat(0..n-1) was encoded into 14 shards.  Every
   read (offset, size) through the EC read path returns Dat(offset ..
   offset+size-1); rebuilding after the loss of <= 4 shards gives back 14
   shards with the hashes they had after encoding; decoding the data shards
   gives a file with the hash of the original data file.

   Layer B (top of the file, model-checked): WHY that holds - the arithmetic of
     weed/storage/erasure_coding/ec_encoder.go  encodeDatFile     (EncLarge/EncSmall, Place)
     weed/storage/erasure_coding/ec_locate.go   LocateData, locateOffset,
                                                 Interval.ToShardIdAndOffset   (LocateData, ToShard)
     weed/storage/erasure_coding/ec_volume.go   LocateEcShardNeedle passes
                                                 DataShards * <shard file size> as dat size  (DerivedDatSize)
     weed/storage/erasure_coding/ec_decoder.go  WriteDatFile      (DecLarge/DecSmall)
   for block sizes L (large) and S (small).  Positions are abstract: the
   content of a shard position is the INDEX of the dat byte stored there (-1 =
   zero padding, -2 = beyond the end of the shard file), so "the read returns
   the right bytes" is "the indices addressed are offset, offset+1, ...".

   Variants: "tree" is the arithmetic of the tree as it is now, "orig" that of the pinned
   commit, before the two repairs made for this property:
     locator  - orig: row count datSize/(D*L) resp. (datSize+D*S)/(D*L) (suspect S9);
                tree: (datSize-1)/(D*L) in both places (commit `fix: ec LocateData ...`);
     decoder  - orig: large rows while remaining >= D*L; tree: > D*L, as the encoder
                (commit `fix: ec WriteDatFile ...`).
   The invariants state exactly for which dat sizes each variant is right. *)
EXTENDS Integers, Sequences, FiniteSets, TLC, Json

CONSTANTS DataShards,   \* 10 in the code (DataShardsCount)
          Blocks,       \* model checking: set of <<L, S>> pairs
          MaxRows,      \* model checking: dat sizes 0..MaxN (MaxRows large rows and a bit)
          GenNear       \* generator: distances from a row boundary that count as "around" it

VARIABLES L, S,         \* large and small block size
          n,            \* size of the data file
          ka, kb,       \* content key: Dat(i) below
          sh, dh,       \* hashes of the 14 shards after encoding (<<>> before) / of the data file
          ex,           \* the mounted EC index: needle id -> <<offset / 8, size>>  (<<>>: not mounted)
          lc,           \* model checking only: state of the locator's loop (NoLoc: no read under way)
          vol           \* the life cycle of a real volume (executions with "vol": true), see the bottom of the file
vars == <<L, S, n, ka, kb, sh, dh, ex, lc, vol>>

(* the volume life cycle is not under way (every execution over a data file of known content) *)
None == "none"
NoVol == [ph |-> "off", blob |-> <<>>, encb |-> <<>>, ecd |-> {}, cyc |-> 0, fsz |-> 0]

D == DataShards
RowL == D * L
RowS == D * S
Min(a, b) == IF a < b THEN a ELSE b
Max(a, b) == IF a > b THEN a ELSE b
GoDiv(a, b) == IF a >= 0 THEN a \div b ELSE -((-a) \div b)    \* Go's / truncates toward zero

(* ------------------------------------------------------------------ encoder *)
(* encodeDatFile: rows of D large blocks while remaining > D*L (strict), then
   rows of D small blocks while remaining > 0; a row that reaches beyond the end
   of the file is zero padded.  A row is [start |-> dat offset, blk |-> block size]. *)
RECURSIVE EncLarge(_, _), EncSmall(_, _)
EncLarge(rem, done) == IF rem > RowL THEN <<[start |-> done, blk |-> L]>> \o EncLarge(rem - RowL, done + RowL)
                       ELSE EncSmall(rem, done)
EncSmall(rem, done) == IF rem > 0 THEN <<[start |-> done, blk |-> S]>> \o EncSmall(rem - RowS, done + RowS)
                       ELSE <<>>
EncRows == EncLarge(n, 0)

(* the same in closed form *)
NLarge == IF n = 0 THEN 0 ELSE (n - 1) \div RowL
Rest == n - NLarge * RowL                    \* bytes in the small rows: 1..RowL (0 iff n = 0)
NSmall == (Rest + RowS - 1) \div RowS
ShardSize == NLarge * L + NSmall * S

(* where the encoder puts dat byte i *)
Place(i) ==
  IF i < NLarge * RowL
  THEN [shard |-> (i % RowL) \div L, off |-> (i \div RowL) * L + (i % L)]
  ELSE LET j == i - NLarge * RowL
       IN [shard |-> (j % RowS) \div S, off |-> NLarge * L + (j \div RowS) * S + (j % S)]

(* what is stored at offset o of data shard s (index of the dat byte) *)
ShardIdx(s, o) ==
  IF o < 0 \/ o >= ShardSize THEN -2
  ELSE IF o < NLarge * L THEN (o \div L) * RowL + s * L + (o % L)
  ELSE LET p == o - NLarge * L
           i == NLarge * RowL + (p \div S) * RowS + s * S + (p % S)
       IN IF i < n THEN i ELSE -1

RECURSIVE SumBlk(_, _)
SumBlk(rows, k) == IF k = 0 THEN 0 ELSE SumBlk(rows, k - 1) + rows[k].blk

(* the closed form is the row loop *)
EncoderClosedForm ==
  lc.v = "none" =>
  LET rows == EncRows IN
  /\ SumBlk(rows, Len(rows)) = ShardSize
  /\ \A r \in 1..Len(rows) : \A s \in 0..(D - 1) : \A k \in 0..(rows[r].blk - 1) :
       LET i == rows[r].start + s * rows[r].blk + k
       IN ShardIdx(s, SumBlk(rows, r - 1) + k) = IF i < n THEN i ELSE -1
(* every dat byte is stored exactly once, inside the shard *)
PlaceInverse ==
  lc.v = "none" =>
  /\ \A i \in 0..(n - 1) : LET p == Place(i) IN p.shard \in 0..(D - 1) /\ ShardIdx(p.shard, p.off) = i
  /\ \A s \in 0..(D - 1) : \A o \in 0..(ShardSize - 1) :
       LET i == ShardIdx(s, o) IN i >= 0 => Place(i) = [shard |-> s, off |-> o]

(* ------------------------------------------------------------------ locator *)
(* the dat size LocateEcShardNeedle passes: derived from the shard file size *)
DerivedDatSize == D * ShardSize

(* number of large rows as locateOffset (A) and LocateData (B) compute it *)
LocRowsA(v, dz) == IF v = "orig" THEN dz \div RowL ELSE GoDiv(dz - 1, RowL)
LocRowsB(v, dz) == IF v = "orig" THEN (dz + RowS) \div RowL ELSE GoDiv(dz - 1, RowL)

(* The state of LocateData's loop: block index, large/small area, offset inside the block,
   nlr = the row count every interval carries (LargeBlockRowsCount); at = the dat offset the next
   interval is meant to address (ghost).  v, dz: locator variant and the dat size it was given. *)
NoLoc == [v |-> "none", dz |-> 0, nlr |-> 0, bi |-> 0, large |-> FALSE, inner |-> 0, at |-> 0]
LocateOffset(v, dz, off) ==          \* locateOffset + the first lines of LocateData
  LET nl == LocRowsA(v, dz) IN
  IF off < nl * RowL
  THEN [v |-> v, dz |-> dz, nlr |-> LocRowsB(v, dz), bi |-> off \div L, large |-> TRUE, inner |-> off % L, at |-> off]
  ELSE [v |-> v, dz |-> dz, nlr |-> LocRowsB(v, dz), bi |-> (off - nl * RowL) \div S, large |-> FALSE,
        inner |-> (off - nl * RowL) % S, at |-> off]
Remaining(c) == (IF c.large THEN L ELSE S) - c.inner          \* blockRemaining
NextBlock(c) ==                                                \* the tail of the loop body
  LET sw == c.large /\ c.bi + 1 = c.nlr * D IN
  [c EXCEPT !.bi = IF sw THEN 0 ELSE @ + 1, !.large = IF sw THEN FALSE ELSE @, !.inner = 0, !.at = @ + Remaining(c)]
Iv(c, m) == [bi |-> c.bi, inner |-> c.inner, size |-> m, large |-> c.large, nlr |-> c.nlr]

(* the loop of LocateData: the intervals of a read of `size` bytes *)
RECURSIVE LocLoop(_, _)
LocLoop(c, size) ==
  IF size <= 0 THEN <<>>
  ELSE IF size <= Remaining(c) THEN <<Iv(c, size)>>
  ELSE <<Iv(c, Remaining(c))>> \o LocLoop(NextBlock(c), size - Remaining(c))
LocateData(v, dz, off, size) == LocLoop(LocateOffset(v, dz, off), size)

(* Interval.ToShardIdAndOffset *)
ToShard(iv) ==
  [shard |-> iv.bi % D,
   off |-> iv.inner + (IF iv.large THEN (iv.bi \div D) * L ELSE iv.nlr * L + (iv.bi \div D) * S)]

(* indices of the bytes a read (off, size) returns: the concatenation of the intervals *)
RECURSIVE Flatten(_, _)
Flatten(ivs, k) ==
  IF k > Len(ivs) THEN <<>>
  ELSE LET p == ToShard(ivs[k])
       IN [j \in 1..ivs[k].size |-> ShardIdx(p.shard, p.off + j - 1)] \o Flatten(ivs, k + 1)
ReadIdx(v, dz, off, size) == Flatten(LocateData(v, dz, off, size), 1)
Range(off, size) == [j \in 1..size |-> off + j - 1]

(* the dat sizes for which the original locator is wrong (S9): the bytes in the small rows
   fill more than L/S - 2 of them, i.e. the shard size is within two small blocks of the next
   multiple of L *)
InWindow == n > 0 /\ Rest > RowL - 2 * RowS

(* --- the property, stated by brute force (affordable on small models only) --- *)
AllReadsExact(v, dz) == \A o \in 0..(n - 1) : \A size \in 1..(n - o) : ReadIdx(v, dz, o, size) = Range(o, size)
BruteLocateExact == lc.v = "none" => AllReadsExact("tree", DerivedDatSize) /\ AllReadsExact("tree", n)
BruteOrigWindow == lc.v = "none" => (AllReadsExact("orig", DerivedDatSize) <=> ~InWindow)

(* --- the same, stated on the loop as a transition system (model checking, any size) ---
   MCNext starts a read at any offset and runs the loop block by block for as long as some
   read of the file would (a read stops inside the block where its size runs out; the interval
   it emits there is a prefix of the one examined here).  In every loop state the interval up to
   the end of the block, cut at the end of the file, must address dat[at ..]. *)
IntervalExact(c) ==
  LET m == Min(Remaining(c), n - c.at)
      p == ToShard(Iv(c, m))
  IN \A j \in 0..(m - 1) : ShardIdx(p.shard, p.off + j) = c.at + j
LocateExact == lc.v = "tree" => IntervalExact(lc)        \* with the derived and with the true dat size
OrigLocateOutsideWindow == (lc.v = "orig" /\ ~InWindow) => IntervalExact(lc)
(* inside the window some single byte is always misread *)
OrigLocateInsideWindow ==
  (lc.v = "none" /\ InWindow) => \E o \in 0..(n - 1) : ReadIdx("orig", DerivedDatSize, o, 1) # Range(o, 1)

(* ------------------------------------------------------------------ decoder *)
(* WriteDatFile(datFileSize): copies sequentially from each data shard file; rows of
   D large blocks while remaining > D*L ("tree") or >= D*L ("orig"), then small rows, the
   last blocks cut to what remains.  cur = read position of the shard files. *)
RECURSIVE DecLarge(_, _, _), DecSmall(_, _)
DecSmall(rem, cur) ==
  IF rem <= 0 THEN <<>>
  ELSE [s \in 1..D |-> [shard |-> s - 1, off |-> cur, len |-> Min(Max(rem - (s - 1) * S, 0), S)]]
       \o DecSmall(rem - RowS, cur + S)
DecLarge(v, rem, cur) ==
  IF (IF v = "orig" THEN rem >= RowL ELSE rem > RowL)
  THEN [s \in 1..D |-> [shard |-> s - 1, off |-> cur, len |-> L]] \o DecLarge(v, rem - RowL, cur + L)
  ELSE DecSmall(rem, cur)
RECURSIVE FlattenSegs(_, _)
FlattenSegs(segs, k) ==
  IF k > Len(segs) THEN <<>>
  ELSE [j \in 1..segs[k].len |-> ShardIdx(segs[k].shard, segs[k].off + j - 1)] \o FlattenSegs(segs, k + 1)
DecodeIdx(v, size) == FlattenSegs(DecLarge(v, size, 0), 1)

(* the dat sizes for which the original decoder is wrong *)
ExactMultiple == n > 0 /\ n % RowL = 0
DecodeExact == lc.v = "none" => DecodeIdx("tree", n) = Range(0, n)
OrigDecodeExactIffNotMultiple == lc.v = "none" => (DecodeIdx("orig", n) = Range(0, n) <=> ~ExactMultiple)

(* --------------------------------------------------- model checking / generator *)
MaxN == MaxRows * RowL + S + 1
MCInit == /\ \E b \in Blocks : L = b[1] /\ S = b[2]
          /\ n \in 0..MaxN
          /\ ka = 1 /\ kb = 0 /\ sh = <<>> /\ dh = "" /\ ex = <<>> /\ lc = NoLoc /\ vol = NoVol
LocStart == /\ lc.v = "none"
            /\ \E o \in 0..(n - 1) : \E m \in {<<"tree", DerivedDatSize>>, <<"tree", n>>, <<"orig", DerivedDatSize>>} :
                  lc' = LocateOffset(m[1], m[2], o)
LocStep == lc.v # "none" /\ lc.at + Remaining(lc) < n /\ lc' = NextBlock(lc)
MCNext == (LocStart \/ LocStep) /\ UNCHANGED <<L, S, n, ka, kb, sh, dh, ex, vol>>
MCSpec == MCInit /\ [][MCNext]_vars

GenSpec == MCInit /\ [][FALSE]_vars
(* generator: the dat sizes on and around every small/large row boundary and window edge *)
AroundBoundary == \E k \in 0..(n \div RowS + 1) : \E d \in GenNear : n = k * RowS + d
EmitSize == ~AroundBoundary \/ PrintT(<<"W", ToJson([large |-> L, small |-> S, n |-> n, window |-> InWindow,
                                                     rows |-> <<NLarge, NSmall>>])>>)

(* ---------------------------------------------------------------- layer A *)
(* content of the data file: byte i.  ka in 1..250; consecutive bytes differ by ka (mod 251),
   values 1..251, so zero padding can never be taken for data. *)
Dat(i) == ((ka * (i % 251) + kb) % 251) + 1

(* Observed byte strings are run-length coded by the driver: a run <<b, m>> is m bytes;
   b = 0: zeros; otherwise b followed by the bytes that follow b in the Dat progression. *)
RunAt(r, k) == IF r[1] = 0 THEN 0 ELSE IF k = 0 THEN r[1] ELSE ((r[1] - 1 + ka * (k % 251)) % 251) + 1
Mergeable(r1, r2) == (r1[1] = 0 /\ r2[1] = 0) \/ (r1[1] # 0 /\ r2[1] = RunAt(r1, r1[2]))
RECURSIVE Canon(_, _, _)   \* canonical form: no empty runs, adjacent mergeable runs merged
Canon(runs, k, acc) ==
  IF k > Len(runs) THEN acc
  ELSE IF runs[k][2] <= 0 THEN Canon(runs, k + 1, acc)
  ELSE IF acc # <<>> /\ Mergeable(acc[Len(acc)], runs[k])
       THEN Canon(runs, k + 1, [acc EXCEPT ![Len(acc)] = <<acc[Len(acc)][1], acc[Len(acc)][2] + runs[k][2]>>])
       ELSE Canon(runs, k + 1, Append(acc, <<runs[k][1], runs[k][2]>>))
SameBytes(r1, r2) == Canon(r1, 1, <<>>) = Canon(r2, 1, <<>>)
DatRuns(off, size) == <<<<Dat(off), size>>>>     \* Dat(off .. off+size-1)

Init == L = 0 /\ S = 0 /\ n = 0 /\ ka = 1 /\ kb = 0 /\ sh = <<>> /\ dh = "" /\ ex = <<>> /\ lc = NoLoc /\ vol = NoVol

(* encoding succeeds; remember what the shards and the data file look like *)
Encode(err, hashes, dathash) ==
  /\ err = "" /\ Len(hashes) = 14
  /\ sh' = hashes /\ dh' = dathash /\ UNCHANGED <<L, S, n, ka, kb, ex, lc, vol>>

(* reads at one offset through LocateData / ToShardIdAndOffset / shard file ReadAt *)
ReadOk(off, size, err, got) == err = "" /\ SameBytes(got, DatRuns(off, size))
Reads(off, sizes, errs, got) ==
  /\ sh # <<>>
  /\ \A k \in 1..Len(sizes) : (off >= 0 /\ sizes[k] > 0 /\ off + sizes[k] <= n) => ReadOk(off, sizes[k], errs[k], got[k])
  /\ UNCHANGED vars

(* any <= 4 shards removed, rebuilt: the 14 shard files are what they were *)
Rebuild(lost, err, after) ==
  /\ sh # <<>> /\ vol.ph \in {"off", "ec"}
  /\ Cardinality({lost[k] : k \in 1..Len(lost)}) <= 4 => (err = "" /\ after = sh)
  /\ UNCHANGED vars

(* the data shards decode back to the data file (size = the dat size handed to the decoder) *)
Decode(size, err, hash) ==
  /\ sh # <<>>
  /\ size = n => (err = "" /\ hash = dh)
  /\ UNCHANGED vars

(* The real EcVolume is opened over the shard files with an index holding the entries
   needles[k] = <<id, offset / 8, size>>; a needle is then located (LocateEcShardNeedle) and its
   intervals read from the EcVolumeShards: the bytes are those of the data file at the entry's
   offset, for the record length the locator derived (at least the entry's size). *)
Mount(needles, err) ==
  /\ sh # <<>> /\ err = ""
  /\ ex' = [id \in {needles[k][1] : k \in 1..Len(needles)} |->
              LET k == CHOOSE k \in 1..Len(needles) : needles[k][1] = id IN <<needles[k][2], needles[k][3]>>]
  /\ UNCHANGED <<L, S, n, ka, kb, sh, dh, lc, vol>>
Needle(id, err, off, asize, got) ==
  /\ (id \in DOMAIN ex /\ 8 * ex[id][1] + ex[id][2] + 64 <= n) =>
        /\ err = "" /\ off = 8 * ex[id][1] /\ asize >= ex[id][2]
        /\ off + asize <= n => SameBytes(got, DatRuns(off, asize))
  /\ UNCHANGED vars

(* layer-B observation, advisory (model drift, not a verdict): the data shards are laid
   out as Place says.  size = the 14 shard file sizes, runs = content of the data shards *)
RECURSIVE ShardRuns(_, _, _)
ShardRuns(rows, r, s) ==
  IF r > Len(rows) THEN <<>>
  ELSE LET i0 == rows[r].start + s * rows[r].blk
           m == Min(Max(n - i0, 0), rows[r].blk)
       IN <<<<(IF m > 0 THEN Dat(i0) ELSE 0), m>>, <<0, rows[r].blk - m>>>> \o ShardRuns(rows, r + 1, s)
LayoutAsModelled(sizes, runs) ==
  /\ \A k \in 1..Len(sizes) : sizes[k] = ShardSize
  /\ Len(runs) = D
  /\ \A s \in 0..(D - 1) : SameBytes(runs[s + 1], ShardRuns(EncRows, 1, s))

(* ------------------------------------------------- layer A: the life cycle of a real volume
   (executions whose reset line says "vol": true).  A real volume (storage.Store / Volume) is
   written and deleted from, closed, turned into an .ecx (WriteSortedFileFromIdx) and 14 shards
   (WriteEcFiles); the real EcVolume serves reads (LocateEcShardNeedle + shard ReadAt + needle
   parsing) and deletions (DeleteNeedleFromEcx: mark in the .ecx + append to the .ecj journal);
   shards are lost and rebuilt (Rebuild above); the journal is folded into the .ecx
   (RebuildEcxFile) or not; the volume is decoded (FindDatFileSize + WriteDatFile +
   WriteIdxFileFromEcIndex) and loaded by the real volume loader.

   vol.ph   "off"  no volume life cycle in this execution
            "vol"  a normal, writable volume     "ec"  erasure coded
            "dec"  decoded files written, not loaded yet
            "void" a set-up step failed where the statement promises nothing: nothing is judged any more
   vol.blob key -> content token / None: what the volume holds (the property state);
   vol.encb = blob at encode time, vol.ecd = keys deleted while erasure coded (ghosts for the
   design-level invariants), vol.cyc = completed encode/decode cycles, vol.fsz = decoded size.
   n = size of the .dat at encode time, dh / sh = its hash / the 14 shard hashes.

   The statement is silent about WHICH size FindDatFileSize computes: any prefix of the original
   data file is admitted, as long as everything live is readable afterwards. *)
VFresh == [NoVol EXCEPT !.ph = "vol"]
VGet(f, k) == IF k \in DOMAIN f THEN f[k] ELSE None
VPut(f, k, d) == [j \in DOMAIN f \cup {k} |-> IF j = k THEN d ELSE f[j]]
VLive(f) == {k \in DOMAIN f : f[k] # None}
VOther == <<L, S, n, ka, kb, sh, dh, ex, lc>>

(* a write must work on a volume that came out of a decode; before the first encoding it is set-up *)
VWrite(k, d, res) ==
  /\ vol.ph = "vol"
  /\ IF res = "ok" THEN vol' = [vol EXCEPT !.blob = VPut(@, k, d)]
     ELSE vol.cyc = 0 /\ vol' = [vol EXCEPT !.ph = "void"]
  /\ UNCHANGED VOther
VDelete(k, res) ==
  /\ vol.ph = "vol"
  /\ vol' = IF res = "ok" THEN [vol EXCEPT !.blob = VPut(@, k, None)] ELSE [vol EXCEPT !.ph = "void"]
  /\ UNCHANGED VOther
(* .ecx from the .idx, 14 shards from the .dat: must work for any volume *)
VEncode(err, xerr, size, hashes, dathash) ==
  /\ vol.ph = "vol" /\ err = "" /\ xerr = "" /\ Len(hashes) = 14
  /\ sh' = hashes /\ dh' = dathash /\ n' = size
  /\ vol' = [vol EXCEPT !.ph = "ec", !.encb = vol.blob, !.ecd = {}]
  /\ UNCHANGED <<L, S, ka, kb, ex, lc>>
(* the EC read path serves what the volume held; a key that is not live never yields data *)
VReadOk(k, st, d) == IF VGet(vol.blob, k) # None THEN st = "data" /\ d = vol.blob[k] ELSE st # "data"
VEcRead(k, st, d) == vol.ph = "ec" /\ VReadOk(k, st, d) /\ UNCHANGED vars
VEcDelete(k, err) ==
  /\ vol.ph = "ec" /\ err = ""
  /\ vol' = [vol EXCEPT !.blob = VPut(@, k, None), !.ecd = IF VGet(vol.blob, k) # None THEN @ \cup {k} ELSE @]
  /\ UNCHANGED VOther
(* folding the journal into the .ecx (stale: into an .ecx that has not seen the deletions) changes nothing *)
VFold(stale, err) == vol.ph = "ec" /\ err = "" /\ UNCHANGED vars
(* decode: no error; the decoded .dat is a prefix of the original one (the driver hashed that prefix) *)
VDecodeOk(ferr, fsize, derr, ierr, dsize, hash, phash) ==
  /\ ferr = "" /\ derr = "" /\ ierr = ""
  /\ fsize >= 0 /\ fsize <= n /\ dsize = fsize /\ hash = phash
  /\ fsize = n => hash = dh
VDecode(stale, ferr, fsize, derr, ierr, dsize, hash, phash) ==
  /\ vol.ph = "ec"
  /\ VDecodeOk(ferr, fsize, derr, ierr, dsize, hash, phash)
  /\ vol' = [vol EXCEPT !.ph = "dec", !.fsz = fsize]
  /\ UNCHANGED VOther
(* the real loader takes the decoded volume: no error, writable *)
VLoad(res, ro) ==
  /\ vol.ph = "dec" /\ res = "ok" /\ ro = FALSE
  /\ vol' = [vol EXCEPT !.ph = "vol", !.cyc = @ + 1]
  /\ UNCHANGED VOther
(* reads of the loaded volume (before the first encoding a read is set-up: nothing is demanded) *)
VRead(k, st, d) == vol.ph = "vol" /\ (vol.cyc > 0 => VReadOk(k, st, d)) /\ UNCHANGED vars
VVoid == vol.ph = "void" /\ UNCHANGED vars
=============================================================================
