----------------------------- MODULE PathRules -----------------------------
(* C23 - path-specific storage rules (weed/filer/filer_conf.go FilerConf).

   A path and a location prefix are sequences of single-character tokens
   ("/a/b" = <<"/", "a", "/", "b">>), so that "is a prefix of" is computed here
   and not by the harness.  The configuration is a function from location
   prefix to a rule; a rule is a record over Fields.  A field of a rule is
   *set* when it differs from the empty value ("" / FALSE / 0).

   Resolve(rules, path).f  =  the value of f in the LONGEST location prefix that
   is a prefix of the path and whose rule sets f; the empty value when no
   matching rule sets f.  (Statement: "field-wise combination of all rules that
   prefix the path, a longer matching rule overrides a shorter one for each
   field it sets".)  Deleting a location removes its rule: everything resolves
   as if it had never been added.  Adding a location that is already configured
   replaces its rule. *)
EXTENDS Integers, Sequences, FiniteSets, TLC, Json
CONSTANTS Prefixes,   \* generator: location prefixes (token sequences)
          Masks,      \* generator: sets of fields a generated rule sets
          Vals,       \* generator: Vals[k] = the set values used by the k-th add
          MaxOps
VARIABLES rules, hist
vars == <<rules, hist>>

Fields == {"collection", "replication", "ttl", "diskType", "fsync", "growth", "readOnly"}
Empty == [collection |-> "", replication |-> "", ttl |-> "", diskType |-> "",
          fsync |-> FALSE, growth |-> 0, readOnly |-> FALSE]
IsSetF(c, f) == c[f] # Empty[f]

IsPrefix(p, q) == Len(p) <= Len(q) /\ SubSeq(q, 1, Len(p)) = p
Matching(rs, path) == {p \in DOMAIN rs : IsPrefix(p, path)}

(* the statement, field by field *)
Longest(S) == CHOOSE p \in S : \A q \in S : Len(q) <= Len(p)
Resolve(rs, path) ==
  LET M == Matching(rs, path) IN
  [f \in Fields |-> LET S == {p \in M : IsSetF(rs[p], f)}    \* the matching rules that set f
                    IN IF S = {} THEN Empty[f] ELSE rs[Longest(S)][f]]

(* the same as a fold over the matching rules in increasing prefix length
   (what an implementation walking a trie does); model-checked to be equal *)
Merge(a, b) == [f \in Fields |-> IF IsSetF(b, f) THEN b[f] ELSE a[f]]
RECURSIVE FoldTo(_, _, _)
FoldTo(rs, path, n) ==
  LET below == IF n = 0 THEN Empty ELSE FoldTo(rs, path, n - 1)
      p == SubSeq(path, 1, n)
  IN IF p \in DOMAIN rs THEN Merge(below, rs[p]) ELSE below
FoldResolve(rs, path) == FoldTo(rs, path, Len(path))

SameConf(a, b) == \A f \in Fields : a[f] = b[f]
Without(rs, p) == [q \in DOMAIN rs \ {p} |-> rs[q]]
With(rs, p, c) == [q \in DOMAIN rs \cup {p} |-> IF q = p THEN c ELSE rs[q]]

Init == rules = <<>> /\ hist = <<>>
Add(p, c) == rules' = With(rules, p, c)
Delete(p) == rules' = Without(rules, p)
Match(path, res) == SameConf(res, Resolve(rules, path)) /\ UNCHANGED rules
(* the configuration as the code lists it (what is persisted after a change):
   exactly the configured locations with their rules, in any order *)
Dump(rs) ==
  /\ Len(rs) = Cardinality(DOMAIN rules)
  /\ \A k \in 1..Len(rs) : rs[k].p \in DOMAIN rules /\ SameConf(rs[k].c, rules[rs[k].p])
  /\ \A p \in DOMAIN rules : \E k \in 1..Len(rs) : rs[k].p = p
  /\ UNCHANGED rules
(* writing the configuration out and loading it again changes nothing *)
Reload == UNCHANGED rules

(* ------------- generator / model checking ------------- *)
MkConf(k, m) == [f \in Fields |-> IF f \in m THEN Vals[k][f] ELSE Empty[f]]
Log(op) == hist' = Append(hist, op)
GenNext ==
  /\ Len(hist) < MaxOps
  /\ \/ \E p \in Prefixes, m \in Masks :
          LET c == MkConf(Len(hist) + 1, m) IN
          Add(p, c) /\ Log([ev |-> "add", p |-> p, c |-> c])
     \/ \E p \in Prefixes : Delete(p) /\ Log([ev |-> "del", p |-> p])
Spec == Init /\ [][GenNext]_vars

(* paths against which the design invariants are evaluated: every generator
   prefix, also extended by one token and by "/" and a token *)
Tokens == {"/", "a", "b"}
McPaths == Prefixes \cup {p \o <<t>> : p \in Prefixes, t \in Tokens}
                    \cup {p \o <<"/", t>> : p \in Prefixes, t \in {"a", "b"}}

FoldAgrees == \A path \in McPaths : SameConf(Resolve(rules, path), FoldResolve(rules, path))
OnlyMatchingCount ==
  \A path \in McPaths :
     SameConf(Resolve(rules, path), Resolve([p \in Matching(rules, path) |-> rules[p]], path))
NoRuleNoSetting == \A path \in McPaths : Matching(rules, path) = {} => SameConf(Resolve(rules, path), Empty)
(* a field resolved non-empty comes from a matching rule, and no longer matching rule sets it *)
LongestWins ==
  \A path \in McPaths :
     LET res == Resolve(rules, path)
         M == Matching(rules, path) IN
     \A f \in Fields :
        res[f] # Empty[f] => \E p \in M : /\ rules[p][f] = res[f]
                                          /\ \A q \in M : Len(q) > Len(p) => ~IsSetF(rules[q], f)
(* delete restores: adding a rule at an unconfigured location and deleting it
   again gives back the same resolution for every path; in general a delete
   gives the resolution of the configuration without that location *)
DeleteRestores ==
  [][\A p \in Prefixes :
       (hist' # hist /\ hist'[Len(hist')].ev = "del" /\ hist'[Len(hist')].p = p)
       => /\ p \notin DOMAIN rules'
          /\ \A q \in DOMAIN rules \ {p} : q \in DOMAIN rules' /\ rules'[q] = rules[q]
          /\ \A path \in McPaths : ~IsPrefix(p, path) => SameConf(Resolve(rules', path), Resolve(rules, path))]_vars
AddThenDelete ==
  \A p \in Prefixes, m \in Masks :
     p \notin DOMAIN rules => Without(With(rules, p, MkConf(1, m)), p) = rules

Emit == hist = <<>> \/ PrintT(<<"W", ToJson(hist)>>)
=============================================================================
