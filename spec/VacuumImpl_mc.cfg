SPECIFICATION Spec
INVARIANT TypeOK
INVARIANT NoBadCommit
INVARIANT LiveAgree
INVARIANT PostOK
INVARIANT UnwritableWhileCompacting
INVARIANT OnlyGarbageCompacted
INVARIANT CommitXorCleanup
CHECK_DEADLOCK FALSE
