SPECIFICATION Spec
INVARIANT TypeOK
INVARIANT SnapsAdmitted
INVARIANT Agreement
CHECK_DEADLOCK FALSE
