SPECIFICATION Spec
INVARIANT TypeOK
INVARIANT SnapsAdmitted
INVARIANT Agreement
VIEW MCView
CHECK_DEADLOCK FALSE
