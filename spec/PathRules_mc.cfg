SPECIFICATION Spec
INVARIANT FoldAgrees
INVARIANT OnlyMatchingCount
INVARIANT NoRuleNoSetting
INVARIANT LongestWins
INVARIANT AddThenDelete
PROPERTY DeleteRestores
CHECK_DEADLOCK FALSE
