SPECIFICATION GSpec
INVARIANT MarksAreJournal
INVARIANT DecodeKeepsLive
INVARIANT DecodeCoversLive
INVARIANT ReplayAgrees
INVARIANT LoadedInsideLog
INVARIANT NeverVoid
CHECK_DEADLOCK FALSE
