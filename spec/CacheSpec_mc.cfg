SPECIFICATION ASpec
INVARIANT IdealAdmitted
INVARIANT NoAliasAtDesignLevel
CHECK_DEADLOCK FALSE
