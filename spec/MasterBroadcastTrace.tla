------------------------- MODULE MasterBroadcastTrace -------------------------
(* Advisory judge of the broadcast extension: consumes the executions harness/cmd/c11 recorded in master mode.
   view = the location map of the client that connected before the first heartbeat, view2 = the one of the client
   that connected in the middle of the execution (its first batch is the master's full list). *)
EXTENDS MasterBroadcast, TraceKit
VARIABLES view, view2, ecids
bvars == <<view, view2, ecids>>
tvars == <<bvars, kitvars>>
TraceInit == view = <<>> /\ view2 = <<>> /\ ecids = {} /\ KitInit
TraceReset == /\ IsReset /\ view' = <<>> /\ view2' = <<>>
              /\ ecids' = {Ev.vecs[i].id : i \in DOMAIN Ev.vecs}
TraceSkip == SkipStep /\ UNCHANGED bvars
Inputs == {"full", "inc", "ecfull", "ecinc", "close", "reopen", "zclose", "collect"}
TInput == /\ l <= N /\ ok /\ Trace[l].ev \in Inputs /\ l' = l + 1 /\ ok' = ok /\ Strict /\ UNCHANGED bvars
NoRedirect(msgs) == \A i \in DOMAIN msgs : msgs[i].leader = ""
TSnap == /\ IsEvent("snap") /\ Strict /\ UNCHANGED ecids
         /\ LET S == Ev
                v1 == ApplyAll(view, S.bc)
                v2 == IF S.bc2on THEN ApplyAll(view2, S.bc2) ELSE view2
            IN /\ view' = v1 /\ view2' = v2
               /\ NoRedirect(S.bc) /\ NoRedirect(S.bc2)
               /\ ViewOK(v1, S, ecids) = TRUE
               /\ (S.bc2on => ViewOK(v2, S, ecids)) = TRUE
TraceNext == TraceReset \/ TraceSkip \/ TInput \/ TSnap
TraceSpec == TraceInit /\ [][TraceNext]_tvars
=============================================================================
