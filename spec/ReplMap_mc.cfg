SPECIFICATION Spec
INVARIANT RefAdmitted
INVARIANT RefTreeAdmitted
INVARIANT KeysUnderDst
INVARIANT OutsideNoCall
INVARIANT TargetOriginNoCall
INVARIANT AdmitRejectsForeignKeys
INVARIANT AdmitRejectsDroppedEvent
INVARIANT RenameNet
INVARIANT Mirror
INVARIANT RefMirrorOk
PROPERTY IncrementalKeeps
VIEW MCView
CHECK_DEADLOCK FALSE
