SPECIFICATION Spec
INVARIANT LawsHold
INVARIANT Emit
CHECK_DEADLOCK FALSE
