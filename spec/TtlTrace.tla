------------------------------ MODULE TtlTrace ------------------------------
(* Judge for driver c09 (real storage.Store with timestamps aged by rewriting the
   files).  Only layer-A state plus the inputs needed to state the two deviations as
   narrowly as the code's formulas: lm/own per blob, volLm/mtime of the volume. *)
EXTENDS TraceKit, TtlAssign
(* Tight = TRUE only in the advisory run: additionally asks for what the statement does not
   demand (some TTL for every positive number of seconds, alternate ttl = primary ttl);
   executions it cannot explain are counted in the evidence, never a verdict *)
CONSTANT Tight
None == [none |-> TRUE]
Min(t) == CASE t = "" -> 0 [] t = "3m" -> 3 [] t = "1h" -> 60 [] t = "2h" -> 120 [] OTHER -> 0
OldDelta == 10000
VARIABLES now, live, vttl, volLm, mtime, dirty, gone
vars == <<now, live, vttl, volLm, mtime, dirty, gone>>
tvars == <<vars, kitvars>>
Keys == {1, 2, 3}
Empty == [k \in Keys |-> None]
Readable(b) == b.ttl = 0 \/ now < b.at + b.ttl
Delay == IF Min(vttl) \div 10 > 10 THEN 10 ELSE Min(vttl) \div 10

TraceInit == now = 20000 /\ live = Empty /\ vttl = "" /\ volLm = 0 /\ mtime = 20000 /\ dirty = {} /\ gone = FALSE /\ KitInit
TraceReset == IsReset /\ now' = 20000 /\ live' = Empty /\ vttl' = Ev.vttl /\ volLm' = 0 /\ mtime' = 20000
              /\ dirty' = {} /\ gone' = FALSE
TraceSkip == SkipStep /\ UNCHANGED vars

(* C01-unchanged-keeps-metadata: same cookie and bytes as the stored needle => acknowledged
   but not written, so a new TTL (or timestamp) is silently dropped *)
TWriteUnch ==
  /\ IsEvent("write") /\ Deviate("C01-unchanged-keeps-metadata")
  /\ Ev.res = "ok" /\ Ev.unch /\ vttl = "" /\ live[Ev.k] # None /\ live[Ev.k].d = Ev.d
  /\ UNCHANGED vars
TWrite ==
  /\ IsEvent("write") /\ Strict
  /\ IF Ev.res = "ok"
     THEN LET lm == IF Ev.ts = "old" THEN now - OldDelta ELSE now
              t == IF Ev.bt # "" THEN Min(Ev.bt) ELSE Min(vttl) IN
          /\ ~gone
          /\ live' = [live EXCEPT ![Ev.k] = [d |-> Ev.d, at |-> now, ttl |-> t, lm |-> lm, own |-> Ev.bt]]
          /\ volLm' = IF volLm < lm THEN lm ELSE volLm
          /\ mtime' = now /\ dirty' = dirty \cup {Ev.k}
     ELSE UNCHANGED <<live, volLm, mtime, dirty>>
  /\ UNCHANGED <<now, vttl, gone>>
TAge == /\ IsEvent("age") /\ Strict /\ Ev.res = "ok"
        /\ now' = now + Ev.min /\ volLm' = mtime
        /\ UNCHANGED <<live, vttl, mtime, dirty, gone>>
(* readable exactly while the TTL has not elapsed *)
TRead == /\ IsEvent("read") /\ Strict
         /\ IF live[Ev.k] # None /\ Readable(live[Ev.k]) THEN Ev.st = "data" /\ Ev.d = live[Ev.k].d
            ELSE Ev.st # "data"
         /\ UNCHANGED vars
TCompact == IsEvent("compact") /\ Strict /\ dirty' = {} /\ UNCHANGED <<now, live, vttl, volLm, mtime, gone>>
Expired == {k \in Keys : live[k] # None /\ ~Readable(live[k])}
(* C04-ttl-filter as the code computes it: hasTtl /\ now >= LastModified + volume TTL, for
   needles copied by the compaction proper *)
Filtered == {k \in Keys : live[k] # None /\ k \notin dirty /\ (live[k].own # "" \/ vttl # "")
                          /\ now >= live[k].lm + Min(vttl)}
Drop(S) == [k \in Keys |-> IF k \in S THEN None ELSE live[k]]
TCommit ==
  /\ IsEvent("commit") /\ Ev.res = "ok"
  /\ \/ Strict /\ \E S \in SUBSET Expired : live' = Drop(S)
     \/ Deviate("C04-ttl-filter") /\ \E S \in SUBSET Expired : live' = Drop(S \cup Filtered)
  /\ mtime' = now
  /\ UNCHANGED <<now, vttl, volLm, dirty, gone>>
(* expiry-driven removal of the whole volume: only when nothing in it is readable *)
CodeRemovable == Min(vttl) # 0 /\ Min(vttl) < now - volLm /\ volLm + Min(vttl) + Delay < now
THb ==
  /\ IsEvent("hb")
  /\ \/ Ev.res = "kept" /\ Strict /\ UNCHANGED <<live, gone>>
     \/ Ev.res = "deleted" /\ Strict /\ (Expired = {k \in Keys : live[k] # None})
        /\ live' = Empty /\ gone' = TRUE
     \/ Ev.res = "deleted" /\ Deviate("C09-volume-expiry-uses-last-modified") /\ CodeRemovable
        /\ live' = Empty /\ gone' = TRUE
  /\ UNCHANGED <<now, vttl, volLm, mtime, dirty>>
(* ---- the filer clause (TtlAssign.tla: VolumeTtlFor is stated there and only there) ---- *)
(* SecondsToTTL: the volume TTL chosen for a filer entry's TTL is never shorter *)
TSec == /\ IsEvent("sec2ttl") /\ Strict
        /\ VolumeTtlFor(Ev.sec, Ev.minutes) = TRUE
        /\ UNCHANGED vars
(* StorageOption.ToAssignRequests: both requests built for an entry of Ev.sec seconds *)
TightReqs(sec, p, a) == /\ (sec > 0 => p.present /\ p.ttlok /\ p.minutes > 0)
                        /\ (a.present => p.present /\ a.ttl = p.ttl)
TToReq == /\ IsEvent("toreq") /\ Strict
          /\ (ReqTtlFor(Ev.sec, Ev.pri) /\ ReqTtlFor(Ev.sec, Ev.alt)) = TRUE
          /\ (Tight => TightReqs(Ev.sec, Ev.pri, Ev.alt)) = TRUE
          /\ UNCHANGED vars
(* operation.Assign against a master with scripted answers; Ev.sec >= 0: the requests were built
   for an entry of that many seconds, so whatever arrives at the master has to cover it *)
TAssign == /\ IsEvent("assign") /\ Strict
           /\ AssignA(Ev.reqs, Ev.ans, Ev.seen, Ev.res) = TRUE
           /\ (Ev.sec >= 0 => \A j \in 1..Len(Ev.seen) : TtlOkFor(Ev.sec, Ev.seen[j])) = TRUE
           /\ (Tight /\ Ev.sec > 0 => \A j \in 1..Len(Ev.seen) : Ev.seen[j].ttlok /\ Ev.seen[j].minutes > 0) = TRUE
           /\ UNCHANGED vars
(* end to end: the volume a file id was really assigned from, as the volume server reports it, against
   the entry's TTL (esec: what was asked for, or - via post - the TtlSec of the entry the filer stored).
   via post: the file was written with ?ttl=<ttl> (reqmin minutes), so it has to live exactly that
   long (first sentence of the statement): the stored entry's TTL is the one asked for. *)
EntryTtlAsAsked(e) == ~e.reqok \/ (e.esec >= 0 /\ e.esec % 60 = 0 /\ e.esec \div 60 = e.reqmin)
TE2E == /\ IsEvent("e2e")
        /\ (~Ev.res.err /\ Ev.vol.found => VolumeTtlFor(Ev.esec, Ev.vol.minutes)) = TRUE
        /\ (Tight /\ Ev.esec > 0 /\ ~Ev.res.err => Ev.vol.found /\ Ev.vol.minutes > 0) = TRUE
        /\ \/ Strict /\ (Ev.via = "post" /\ ~Ev.res.err => EntryTtlAsAsked(Ev)) = TRUE
           \* detectStorageOption0: int32(minutes) * 60 wraps for a ttl above 2^31-1 seconds (68 years)
           \/ /\ Deviate("C09-filer-ttl-wraps-int32")
              /\ (Ev.via = "post" /\ ~Ev.res.err /\ Ev.reqok /\ Ev.reqmin > MaxSec \div 60 /\ ~EntryTtlAsAsked(Ev)) = TRUE
        /\ UNCHANGED vars
TraceNext == TraceReset \/ TraceSkip \/ TWrite \/ TWriteUnch \/ TAge \/ TRead \/ TCompact \/ TCommit \/ THb \/ TSec
             \/ TToReq \/ TAssign \/ TE2E
TraceSpec == TraceInit /\ [][TraceNext]_tvars
=============================================================================
