------------------------------ MODULE TtlTrace ------------------------------
(* Judge for driver c09 (real storage.Store with timestamps aged by rewriting the
   files).  Only layer-A state plus the inputs needed to state the two deviations as
   narrowly as the code's formulas: lm/own per blob, volLm/mtime of the volume. *)
EXTENDS TraceKit
None == [none |-> TRUE]
Min(t) == CASE t = "" -> 0 [] t = "3m" -> 3 [] t = "1h" -> 60 [] t = "2h" -> 120 [] OTHER -> 0
OldDelta == 10000
VARIABLES now, live, vttl, volLm, mtime, dirty, gone
vars == <<now, live, vttl, volLm, mtime, dirty, gone>>
tvars == <<vars, kitvars>>
Keys == {1, 2, 3}
Empty == [k \in Keys |-> None]
Readable(b) == b.ttl = 0 \/ now < b.at + b.ttl
Delay == IF Min(vttl) \div 10 > 10 THEN 10 ELSE Min(vttl) \div 10

TraceInit == now = 20000 /\ live = Empty /\ vttl = "" /\ volLm = 0 /\ mtime = 20000 /\ dirty = {} /\ gone = FALSE /\ KitInit
TraceReset == IsReset /\ now' = 20000 /\ live' = Empty /\ vttl' = Ev.vttl /\ volLm' = 0 /\ mtime' = 20000
              /\ dirty' = {} /\ gone' = FALSE
TraceSkip == SkipStep /\ UNCHANGED vars

(* C01-unchanged-keeps-metadata: same cookie and bytes as the stored needle => acknowledged
   but not written, so a new TTL (or timestamp) is silently dropped *)
TWriteUnch ==
  /\ IsEvent("write") /\ Deviate("C01-unchanged-keeps-metadata")
  /\ Ev.res = "ok" /\ Ev.unch /\ vttl = "" /\ live[Ev.k] # None /\ live[Ev.k].d = Ev.d
  /\ UNCHANGED vars
TWrite ==
  /\ IsEvent("write") /\ Strict
  /\ IF Ev.res = "ok"
     THEN LET lm == IF Ev.ts = "old" THEN now - OldDelta ELSE now
              t == IF Ev.bt # "" THEN Min(Ev.bt) ELSE Min(vttl) IN
          /\ ~gone
          /\ live' = [live EXCEPT ![Ev.k] = [d |-> Ev.d, at |-> now, ttl |-> t, lm |-> lm, own |-> Ev.bt]]
          /\ volLm' = IF volLm < lm THEN lm ELSE volLm
          /\ mtime' = now /\ dirty' = dirty \cup {Ev.k}
     ELSE UNCHANGED <<live, volLm, mtime, dirty>>
  /\ UNCHANGED <<now, vttl, gone>>
TAge == /\ IsEvent("age") /\ Strict /\ Ev.res = "ok"
        /\ now' = now + Ev.min /\ volLm' = mtime
        /\ UNCHANGED <<live, vttl, mtime, dirty, gone>>
(* readable exactly while the TTL has not elapsed *)
TRead == /\ IsEvent("read") /\ Strict
         /\ IF live[Ev.k] # None /\ Readable(live[Ev.k]) THEN Ev.st = "data" /\ Ev.d = live[Ev.k].d
            ELSE Ev.st # "data"
         /\ UNCHANGED vars
TCompact == IsEvent("compact") /\ Strict /\ dirty' = {} /\ UNCHANGED <<now, live, vttl, volLm, mtime, gone>>
Expired == {k \in Keys : live[k] # None /\ ~Readable(live[k])}
(* C04-ttl-filter as the code computes it: hasTtl /\ now >= LastModified + volume TTL, for
   needles copied by the compaction proper *)
Filtered == {k \in Keys : live[k] # None /\ k \notin dirty /\ (live[k].own # "" \/ vttl # "")
                          /\ now >= live[k].lm + Min(vttl)}
Drop(S) == [k \in Keys |-> IF k \in S THEN None ELSE live[k]]
TCommit ==
  /\ IsEvent("commit") /\ Ev.res = "ok"
  /\ \/ Strict /\ \E S \in SUBSET Expired : live' = Drop(S)
     \/ Deviate("C04-ttl-filter") /\ \E S \in SUBSET Expired : live' = Drop(S \cup Filtered)
  /\ mtime' = now
  /\ UNCHANGED <<now, vttl, volLm, dirty, gone>>
(* expiry-driven removal of the whole volume: only when nothing in it is readable *)
CodeRemovable == Min(vttl) # 0 /\ Min(vttl) < now - volLm /\ volLm + Min(vttl) + Delay < now
THb ==
  /\ IsEvent("hb")
  /\ \/ Ev.res = "kept" /\ Strict /\ UNCHANGED <<live, gone>>
     \/ Ev.res = "deleted" /\ Strict /\ (Expired = {k \in Keys : live[k] # None})
        /\ live' = Empty /\ gone' = TRUE
     \/ Ev.res = "deleted" /\ Deviate("C09-volume-expiry-uses-last-modified") /\ CodeRemovable
        /\ live' = Empty /\ gone' = TRUE
  /\ UNCHANGED <<now, vttl, volLm, mtime, dirty>>
(* SecondsToTTL: the volume TTL chosen for a filer entry's TTL is never shorter *)
TSec == /\ IsEvent("sec2ttl") /\ Strict
        /\ (Ev.sec = 0 => Ev.minutes = 0)
        /\ (Ev.sec > 0 => Ev.minutes >= (Ev.sec + 59) \div 60)
        /\ UNCHANGED vars
TraceNext == TraceReset \/ TraceSkip \/ TWrite \/ TWriteUnch \/ TAge \/ TRead \/ TCompact \/ TCommit \/ THb \/ TSec
TraceSpec == TraceInit /\ [][TraceNext]_tvars
=============================================================================
