---------------------------- MODULE MetaAggImpl ----------------------------
(* X05 layer B: the mechanism of weed/filer/meta_aggregator.go, with the layer-A state as ghost.

   Per filer f (durable: llog, st, kv;  volatile, lost by a stop: last, due, pend, agg, cur):
     llog[f]     the local metadata log: entries [o, i, p, v, ts] (o = origin, i = number in the origin's
                 own order).  SubscribeLocalMetadata(since) hands out the entries with ts > since, in order.
     st[f]       the store (name -> value, 0 = absent).
     kv[f][g]    the offset record "Meta"+signature(g): a timestamp (0 = no record).
     last[f][g]  lastTsNs of f's subscription loop to g (g = f: the loop to itself, which only feeds the
                 aggregated buffer).
     due[f][g]   "a minute has passed since the offset was last saved" (lastPersistTime + 1 min < now).
     pend[f][g]  the Replay of a change has returned and updateOffset is about to be called with this value.
     agg[f]      the aggregated log buffer: entries [e, at] (at = arrival time; the buffer stamps arrival time).
     cur[f], cl[f]  one SubscribeMetadata client of f: the server-side cursor into agg[f] and, client side,
                 since (timestamp of the last change it was handed - the ORIGIN's) and got.
   Every step takes time (now grows), so a change always arrives later than it was made.

   PersistMode  "minute": as the code (saved when a change arrives and the minute is over)
                "each":   saved after every change, but still as a second store write
                "atomic": saved together with the change (one store transaction)
   ReplayNotifies  Replay goes through the filer's CreateEntry/Delete (which publish a change) instead of
                the store: the counterfactual that shows what loop freedom rests on.
   SelfSince    "minute": the loop to itself starts a minute back (as the code); "exact": where it stopped.

   Ghost: hi[f][g] (highest number of g's changes applied by f), napp[f][g] (the numbers in the order
   applied), ast[f] (the store layer A prescribes: every change applied once, when first applied).        *)
EXTENDS Integers, Sequences, FiniteSets, TLC
CONSTANTS Filers, Paths, MaxChanges, MaxRestarts, PersistMode, ReplayNotifies, SelfSince, WithClient
VARIABLES now, llog, st, kv, up, last, due, pend, agg, cur, cl, hi, napp, ast, nchg, nrst
vars == <<now, llog, st, kv, up, last, due, pend, agg, cur, cl, hi, napp, ast, nchg, nrst>>

Zero == [f \in Filers |-> [g \in Filers |-> 0]]
Init == /\ now = 0 /\ nchg = 0 /\ nrst = 0
        /\ llog = [f \in Filers |-> <<>>]
        /\ st = [f \in Filers |-> [p \in Paths |-> 0]]
        /\ ast = [f \in Filers |-> [p \in Paths |-> 0]]
        /\ kv = Zero /\ last = Zero /\ pend = Zero /\ hi = Zero
        /\ due = [f \in Filers |-> [g \in Filers |-> FALSE]]
        /\ up = [f \in Filers |-> TRUE]
        /\ agg = [f \in Filers |-> <<>>]
        /\ cur = [f \in Filers |-> 0]
        /\ cl = [f \in Filers |-> [since |-> 0, got |-> <<>>]]
        /\ napp = [f \in Filers |-> [g \in Filers |-> <<>>]]

Own(f) == SelectSeq(llog[f], LAMBDA e : e.o = f)

(* a client of filer f writes (v > 0) or deletes (v = 0) name p *)
Change(f, p, del) ==
  /\ up[f] /\ nchg < MaxChanges
  /\ (del => st[f][p] # 0)
  /\ LET t == now + 1
         v == IF del THEN 0 ELSE t
         e == [o |-> f, i |-> Len(Own(f)) + 1, p |-> p, v |-> v, ts |-> t]
     IN /\ now' = t /\ nchg' = nchg + 1
        /\ llog' = [llog EXCEPT ![f] = Append(@, e)]
        /\ st' = [st EXCEPT ![f][p] = v]
        /\ ast' = [ast EXCEPT ![f][p] = v]
  /\ UNCHANGED <<kv, up, last, due, pend, agg, cur, cl, hi, napp, nrst>>

(* the entries of g's local log later than since *)
After(g, since) == SelectSeq(llog[g], LAMBDA e : e.ts > since)

(* f's loop to g receives the next entry: aggregated buffer, then (foreign store only) Replay + offset *)
Deliver(f, g) ==
  /\ up[f] /\ up[g] /\ After(g, last[f][g]) # <<>>
  /\ (g = f => WithClient)              \* the loop to itself only matters to subscribers
  /\ pend[f][g] = 0                     \* updateOffset of the previous change has been called
  /\ LET e == After(g, last[f][g])[1]
         t == IF WithClient THEN now + 1 ELSE now   \* arrival times only matter to subscribers
         first == e.i = hi[f][e.o] + 1
     IN /\ now' = t
        /\ agg' = [agg EXCEPT ![f] = Append(@, [e |-> e, at |-> t])]
        /\ last' = [last EXCEPT ![f][g] = e.ts]
        /\ IF g = f THEN UNCHANGED <<st, ast, hi, napp, llog, kv, pend, due>>
           ELSE /\ st' = [st EXCEPT ![f][e.p] = e.v]
                /\ napp' = [napp EXCEPT ![f][e.o] = Append(@, e.i)]
                /\ hi' = [hi EXCEPT ![f][e.o] = IF first THEN e.i ELSE @]
                /\ ast' = IF first THEN [ast EXCEPT ![f][e.p] = e.v] ELSE ast
                /\ llog' = IF ReplayNotifies THEN [llog EXCEPT ![f] = Append(@, [e EXCEPT !.ts = t])] ELSE llog
                /\ CASE PersistMode = "atomic" -> kv' = [kv EXCEPT ![f][g] = e.ts] /\ UNCHANGED <<pend, due>>
                     [] PersistMode = "each" -> pend' = [pend EXCEPT ![f][g] = e.ts] /\ UNCHANGED <<kv, due>>
                     [] OTHER -> IF due[f][g] THEN pend' = [pend EXCEPT ![f][g] = e.ts] /\ due' = [due EXCEPT ![f][g] = FALSE] /\ UNCHANGED kv
                                 ELSE UNCHANGED <<kv, pend, due>>
  /\ UNCHANGED <<up, cur, cl, nchg, nrst>>

Persist(f, g) == /\ up[f] /\ pend[f][g] # 0
                 /\ kv' = [kv EXCEPT ![f][g] = pend[f][g]]
                 /\ pend' = [pend EXCEPT ![f][g] = 0]
                 /\ UNCHANGED <<now, llog, st, up, last, due, agg, cur, cl, hi, napp, ast, nchg, nrst>>

Tick(f, g) == /\ PersistMode = "minute" /\ up[f] /\ f # g /\ ~due[f][g]
              /\ due' = [due EXCEPT ![f][g] = TRUE]
              /\ UNCHANGED <<now, llog, st, kv, up, last, pend, agg, cur, cl, hi, napp, ast, nchg, nrst>>

LastOwnTs(f) == IF Own(f) = <<>> THEN 0 ELSE Own(f)[Len(Own(f))].ts
Stop(f) == /\ up[f] /\ nrst < MaxRestarts
           /\ up' = [up EXCEPT ![f] = FALSE] /\ nrst' = nrst + 1
           /\ last' = [last EXCEPT ![f] = [g \in Filers |-> 0]]
           /\ due' = [due EXCEPT ![f] = [g \in Filers |-> FALSE]]
           /\ pend' = [pend EXCEPT ![f] = [g \in Filers |-> 0]]
           /\ agg' = [agg EXCEPT ![f] = <<>>]
           /\ cur' = [cur EXCEPT ![f] = 0]
           /\ UNCHANGED <<now, llog, st, kv, cl, hi, napp, ast, nchg>>
Start(f) == /\ ~up[f]
            /\ up' = [up EXCEPT ![f] = TRUE]
            /\ last' = [last EXCEPT ![f] = [g \in Filers |-> IF g = f THEN (IF SelfSince = "exact" THEN LastOwnTs(f) ELSE 0) ELSE kv[f][g]]]
            /\ UNCHANGED <<now, llog, st, kv, due, pend, agg, cur, cl, hi, napp, ast, nchg, nrst>>

(* the client of f is handed the next entry of the aggregated buffer that arrived later than its since *)
ClientRecv(f) ==
  /\ WithClient /\ up[f] /\ cur[f] < Len(agg[f])
  /\ LET x == agg[f][cur[f] + 1]
     IN /\ cur' = [cur EXCEPT ![f] = @ + 1]
        /\ IF x.at > cl[f].since
           THEN cl' = [cl EXCEPT ![f] = [since |-> x.e.ts, got |-> Append(@.got, <<x.e.o, x.e.i>>)]]
           ELSE UNCHANGED cl
  /\ UNCHANGED <<now, llog, st, kv, up, last, due, pend, agg, hi, napp, ast, nchg, nrst>>

Next == \/ \E f \in Filers, p \in Paths, del \in BOOLEAN : Change(f, p, del)
        \/ \E f \in Filers, g \in Filers : Deliver(f, g) \/ Persist(f, g) \/ Tick(f, g)
        \/ \E f \in Filers : Stop(f) \/ Start(f) \/ ClientRecv(f)
Spec == Init /\ [][Next]_vars

(* ---- the layer-A statement as invariants of the mechanism ------------------ *)
Iota(n) == [i \in 1..n |-> i]
(* (b) every change of a peer is applied once, in the peer's order *)
ExactlyOnce == \A f \in Filers, g \in Filers : napp[f][g] = Iota(Len(napp[f][g]))
(* the store is the one layer A prescribes *)
Refines == \A f \in Filers : st[f] = ast[f]
(* (c) changes never come back: a local log holds local changes only *)
NoLoop == \A f \in Filers : \A k \in 1..Len(llog[f]) : llog[f][k].o = f
(* the offset record is never ahead of what was applied (nothing can be lost by resuming from it) *)
OffsetSound == \A f \in Filers : \A g \in Filers \ {f} :
                 kv[f][g] = 0 \/ \E k \in 1..Len(llog[g]) : llog[g][k].ts = kv[f][g] /\ llog[g][k].i <= hi[f][g]
Quiet == /\ \A f \in Filers : up[f]
         /\ \A f \in Filers, g \in Filers : (f # g => After(g, last[f][g]) = <<>>) /\ pend[f][g] = 0
NoLoss == Quiet => \A f \in Filers : \A g \in Filers \ {f} : hi[f][g] = Len(Own(g))
(* two filers: with every change applied once, stores that are quiet and saw no concurrent writes agree -
   checked at layer A (CausalConverge); here: a quiet system agrees with its ghost *)
(* (a) what the client is handed from one origin: that origin's changes once, in order *)
FromOrigin(s, g) == SelectSeq(s, LAMBDA x : x[1] = g)
ClientOnce == \A f \in Filers, g \in Filers :
                LET s == FromOrigin(cl[f].got, g) IN \A k \in 1..Len(s) : s[k][2] = k
=============================================================================
