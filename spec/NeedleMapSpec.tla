---------------------------- MODULE NeedleMapSpec ----------------------------
(* C05 - the volume index (weed/storage needle maps) against a reference map.

   Keys are tokens 0..n-1 ordered like the real 64-bit needle ids they stand for
   (the driver holds the table), offsets are opaque tokens, sizes are small
   positive integers.  The reference map m sends every key to
       [st |-> "absent"] | [st |-> "live", o, s] | [st |-> "deleted"].
   The counters are functions of the operation history:
       fc   number of insertions/updates        fb   sum of the sizes inserted
       dc   number of live entries replaced or deleted,  db  sum of their sizes
       maxk greatest key ever inserted (-1: none)
   Put, Delete (returns the removed size, 0 if nothing was live), Get, and
   Reload (closing the index and loading it again from its index file - or turning
   it into a sorted read-only index, Freeze) which must reproduce m and the counters.

   `log` is the index log the statement speaks about ("reloading from its index
   file"): one entry per insertion and per deletion; whether a deletion that
   removed nothing is logged is left open (both admitted).  It is only read by the
   named deviations of the trace specification and by the design invariants below.

   Scope (assumptions recorded in the evidence): sizes >= 1 and offsets # 0 - empty
   needles are the subject of C01. *)
EXTENDS Integers, Sequences, FiniteSets, TLC, Json
CONSTANTS NKeys,      \* generator: keys 0..NKeys-1
          Offs,       \* generator: offset tokens
          Sizes,      \* generator: sizes
          MaxOps,     \* generator: history length
          Reachable   \* generator: TRUE = deletes only of live keys (what a volume does)
VARIABLES m, cnt, log, env, hist
vars == <<m, cnt, log, env, hist>>

Absent == [st |-> "absent"]
Deleted == [st |-> "deleted"]
Live(o, s) == [st |-> "live", o |-> o, s |-> s]
IsLive(k) == m[k].st = "live"
Cnt0 == [fc |-> 0, dc |-> 0, fb |-> 0, db |-> 0, maxk |-> -1]
Max(a, b) == IF a >= b THEN a ELSE b
Keys == DOMAIN m

(* ---------------- operations ---------------- *)
PutEntry(k, o, s) == [t |-> "put", k |-> k, eff |-> k, o |-> o, s |-> s, n |-> 1, hit |-> {}]
TombEntry(k, eff) == [t |-> "tomb", k |-> k, eff |-> eff, o |-> -1, s |-> 0, n |-> 1, hit |-> {}]
FillEntry(n, o, s, hit, top) == [t |-> "fill", k |-> top, eff |-> top, o |-> o, s |-> s, n |-> n, hit |-> hit]

CountPut(c, k, s, old) ==
  [fc |-> c.fc + 1, fb |-> c.fb + s,
   dc |-> c.dc + (IF old.st = "live" THEN 1 ELSE 0),
   db |-> c.db + (IF old.st = "live" THEN old.s ELSE 0),
   maxk |-> Max(c.maxk, k)]
CountDel(c, old) ==
  [c EXCEPT !.dc = @ + (IF old.st = "live" THEN 1 ELSE 0),
            !.db = @ + (IF old.st = "live" THEN old.s ELSE 0)]

Put(k, o, s) ==
  /\ k \in Keys
  /\ m' = [m EXCEPT ![k] = Live(o, s)]
  /\ cnt' = CountPut(cnt, k, s, m[k])
  /\ log' = Append(log, PutEntry(k, o, s))
  /\ UNCHANGED env

Removed(k) == IF IsLive(k) THEN m[k].s ELSE 0

(* Delete of key k as seen by the caller; `target` is the key whose entry goes
   away (= k; the alias deviation of the trace spec passes another key). *)
DeleteAs(k, target, res, hasres) ==
  /\ k \in Keys /\ target \in Keys
  /\ hasres => res = Removed(target)
  /\ m' = IF IsLive(target) THEN [m EXCEPT ![target] = Deleted] ELSE m
  /\ cnt' = CountDel(cnt, m[target])
  /\ \/ log' = Append(log, TombEntry(k, target))
     \/ ~IsLive(target) /\ log' = log        \* a delete that removed nothing need not be logged
  /\ UNCHANGED env
Delete(k, res, hasres) == DeleteAs(k, k, res, hasres)

(* what a lookup of key k may return when the entry consulted is that of key e *)
GetAs(e, g) ==
  CASE m[e].st = "live"    -> g.f /\ g.o = m[e].o /\ g.s = m[e].s /\ g.k = e
    [] m[e].st = "deleted" -> ~g.f \/ g.s < 0
    [] OTHER               -> ~g.f
Get(k, g) == k \in Keys /\ GetAs(k, g)

(* n fresh consecutive insertions of size s (bulk load used to shape the real
   structure); the token keys among them are `hit`, the greatest of them is `top` *)
Fill(n, o, s, hit, top) ==
  /\ hit \subseteq Keys /\ top \in hit
  /\ m' = [k \in Keys |-> IF k \in hit THEN Live(o, s) ELSE m[k]]
  /\ LET over == {k \in hit : IsLive(k)}
         RECURSIVE Sum(_)
         Sum(S) == IF S = {} THEN 0 ELSE LET x == CHOOSE x \in S : TRUE IN m[x].s + Sum(S \ {x})
     IN cnt' = [fc |-> cnt.fc + n, fb |-> cnt.fb + n * s, dc |-> cnt.dc + Cardinality(over),
                db |-> cnt.db + Sum(over), maxk |-> Max(cnt.maxk, top)]
  /\ log' = Append(log, FillEntry(n, o, s, hit, top))
  /\ UNCHANGED env

RECURSIVE SumF(_, _)
SumF(f, S) == IF S = {} THEN 0 ELSE LET x == CHOOSE x \in S : TRUE IN f[x] + SumF(f, S \ {x})
(* an ascending visit of the whole map: ents = the token entries in visiting order, other = the
   number of non-token (bulk) entries, asc = the keys came in strictly ascending order *)
BulkCount == LET F == {i \in 1..Len(log) : log[i].t = "fill"}
             IN SumF([i \in F |-> log[i].n - Cardinality(log[i].hit)], F)
VisitOK(ents, other, asc) ==
  /\ asc /\ other = BulkCount
  /\ \A i \in 1..(Len(ents) - 1) : ents[i].k < ents[i + 1].k
  /\ \A k \in Keys : IsLive(k) => \E i \in 1..Len(ents) : ents[i].k = k
  /\ \A i \in 1..Len(ents) :
       LET k == ents[i].k IN
       /\ k \in Keys /\ m[k].st # "absent"
       /\ IF IsLive(k) THEN ents[i].o = m[k].o /\ ents[i].s = m[k].s ELSE ents[i].s < 0

(* Reload / Freeze: nothing may change *)
Reload == UNCHANGED <<m, cnt, log, env>>

(* ---------------- what the two loaders of the code compute from the log --------
   (used by the named deviations and, for histories a volume can produce, by the
   design invariants: both must then agree with the running counters) *)
RECURSIVE ReplayFrom(_, _, _)
(* doLoading: replay in order; st = [c |-> counters, lv |-> key -> live size or 0] *)
ReplayFrom(lg, i, st) ==
  IF i > Len(lg) THEN st
  ELSE LET e == lg[i]
           c == st.c
           lv == st.lv
       IN CASE e.t = "put" ->
                 ReplayFrom(lg, i + 1,
                   [c |-> [fc |-> c.fc + 1, fb |-> c.fb + e.s,
                           dc |-> c.dc + (IF lv[e.k] > 0 THEN 1 ELSE 0), db |-> c.db + lv[e.k],
                           maxk |-> Max(c.maxk, e.k)],
                    lv |-> [lv EXCEPT ![e.k] = e.s]])
            [] e.t = "tomb" ->     \* counts every tombstone, also one that removes nothing
                 ReplayFrom(lg, i + 1,
                   [c |-> [c EXCEPT !.dc = @ + 1, !.db = @ + lv[e.eff], !.maxk = Max(@, e.k)],
                    lv |-> [lv EXCEPT ![e.eff] = 0]])
            [] OTHER ->            \* fill
                 LET over == {k \in e.hit : lv[k] > 0}
                     RECURSIVE Sum(_)
                     Sum(S) == IF S = {} THEN 0 ELSE LET x == CHOOSE x \in S : TRUE IN lv[x] + Sum(S \ {x})
                 IN ReplayFrom(lg, i + 1,
                      [c |-> [fc |-> c.fc + e.n, fb |-> c.fb + e.n * e.s, dc |-> c.dc + Cardinality(over),
                              db |-> c.db + Sum(over), maxk |-> Max(c.maxk, e.k)],
                       lv |-> [k \in DOMAIN lv |-> IF k \in e.hit THEN e.s ELSE lv[k]]])
Replay(lg, ks) == ReplayFrom(lg, 1, [c |-> Cnt0, lv |-> [k \in ks |-> 0]])

(* newNeedleMapMetricFromIndexFile: a walk that counts distinct keys as files and
   every further entry of a key as a deletion *)
SetMax(S) == CHOOSE x \in S : \A y \in S : y <= x
LaterSame(lg, i, k) == \E j \in (i + 1)..Len(lg) : lg[j].t # "fill" /\ lg[j].k = k
Walk(lg) ==
  LET I == 1..Len(lg)
      hits == UNION {lg[i].hit : i \in I}
      toks == {lg[i].k : i \in {j \in I : lg[j].t # "fill"}}
      total == SumF([i \in I |-> lg[i].n], I)
      files == SumF([i \in I |-> IF lg[i].t = "fill" THEN lg[i].n ELSE 0], I) + Cardinality(toks \ hits)
      bytes == [i \in I |-> IF lg[i].t = "fill" THEN lg[i].n * lg[i].s ELSE lg[i].s]
      dead == [i \in I |-> CASE lg[i].t = "put" -> IF LaterSame(lg, i, lg[i].k) THEN lg[i].s ELSE 0
                             [] lg[i].t = "fill" -> lg[i].s * Cardinality({k \in lg[i].hit : LaterSame(lg, i, k)})
                             [] OTHER -> 0]
  IN [fc |-> files, dc |-> total - files, fb |-> SumF(bytes, I), db |-> SumF(dead, I),
      maxk |-> SetMax({-1} \cup {lg[i].k : i \in I})]

(* what a loader that looks keys up exactly (MemDb: the sorted file, the LevelDB file) rebuilds
   for key k: the last log entry written under k decides *)
ExactLast(lg, k) ==
  LET I == {i \in 1..Len(lg) : IF lg[i].t = "fill" THEN k \in lg[i].hit ELSE lg[i].k = k}
  IN IF I = {} THEN Absent
     ELSE LET e == lg[SetMax(I)] IN IF e.t = "tomb" THEN Deleted ELSE Live(e.o, e.s)

(* ---------------- generator / model checking ---------------- *)
Init == /\ m = [k \in 0..(NKeys - 1) |-> Absent]
        /\ cnt = Cnt0 /\ log = <<>> /\ env = [kind |-> "gen", alias |-> {}] /\ hist = <<>>
Say(op) == hist' = Append(hist, op)
GenNext ==
  /\ Len(hist) < MaxOps
  /\ \/ \E k \in Keys, o \in Offs, s \in Sizes : Put(k, o, s) /\ Say([ev |-> "put", k |-> k, o |-> o, s |-> s])
     \/ \E k \in Keys, o \in {CHOOSE x \in Offs : TRUE} :   \* (the offset of a tombstone is immaterial)
          /\ Reachable => IsLive(k)
          /\ Delete(k, 0, FALSE) /\ Say([ev |-> "del", k |-> k, o |-> o])
     \/ Reload /\ Say([ev |-> "reload", how |-> "reopen"])
Spec == Init /\ [][GenNext]_vars

(* design-level statements, checked by TLC over every history up to the bound *)
LiveKeys == {k \in Keys : IsLive(k)}
RECURSIVE LiveBytes(_)
LiveBytes(S) == IF S = {} THEN 0 ELSE LET x == CHOOSE x \in S : TRUE IN m[x].s + LiveBytes(S \ {x})
NoNoopTomb(lg) == \A i \in 1..Len(lg) : lg[i].t = "tomb" =>
                     \E j \in 1..(i - 1) : lg[j].t = "put" /\ lg[j].k = lg[i].k
                                           /\ \A h \in (j + 1)..(i - 1) : lg[h].k # lg[i].k
TypeOK == /\ \A k \in Keys : m[k].st \in {"absent", "live", "deleted"}
          /\ cnt.fc >= cnt.dc /\ cnt.fb >= cnt.db /\ cnt.dc >= 0 /\ cnt.db >= 0
(* file count minus deleted count is the number of live needles; same for bytes *)
CountersAreLiveSet == /\ cnt.fc - cnt.dc = Cardinality(LiveKeys)
                      /\ cnt.fb - cnt.db = LiveBytes(LiveKeys)
                      /\ cnt.maxk = SetMax({-1} \cup {log[i].k : i \in {j \in 1..Len(log) : log[j].t = "put"}})
(* replaying the index log rebuilds the map; for logs without tombstones that removed
   nothing it also rebuilds the counters (this is what Reload relies on) *)
ReplayRebuilds == LET r == Replay(log, Keys)
                  IN /\ \A k \in Keys : (r.lv[k] > 0) = IsLive(k)
                     /\ \A k \in LiveKeys : r.lv[k] = m[k].s
                     /\ NoNoopTomb(log) => r.c = cnt
(* the byte totals and the greatest key of the derived metric agree with the running ones *)
WalkAgrees == LET w == Walk(log) IN w.fb = cnt.fb /\ (NoNoopTomb(log) => w.maxk = cnt.maxk) /\ w.fc + w.dc = Len(log)
(* (NoNoopTomb is meant for generator logs: no fill entries, no aliased tombstones) *)
DeleteReturns == [][\A k \in Keys : (hist' # hist /\ hist'[Len(hist')].ev = "del" /\ hist'[Len(hist')].k = k)
                      => /\ cnt'.db - cnt.db = Removed(k)
                         /\ \A q \in Keys \ {k} : m'[q] = m[q]
                         /\ m'[k].st # "live"]_vars
Emit == Len(hist) < MaxOps \/ PrintT(<<"W", ToJson(hist)>>)
View == <<m, cnt, IF hist = <<>> THEN <<>> ELSE hist[Len(hist)]>>
EmitW == hist = <<>> \/ PrintT(<<"W", ToJson(hist)>>)
=============================================================================
