------------------------------ MODULE MoveTrace ------------------------------
(* Judge for driver cmove: source reads follow the blob store; after the tail every key
   reads on the target exactly as on the source. *)
EXTENDS TraceKit
VARIABLES src
vars == <<src>>
tvars == <<vars, kitvars>>
Keys == {1, 2, 3}
None == "none"
TraceInit == src = [k \in Keys |-> None] /\ KitInit
TraceReset == IsReset /\ src' = [k \in Keys |-> None]
TraceSkip == SkipStep /\ UNCHANGED vars
TWrite == IsEvent("write") /\ Strict /\ src' = IF Ev.res = "ok" THEN [src EXCEPT ![Ev.k] = Ev.d] ELSE src
TDelete == IsEvent("delete") /\ Strict /\ src' = IF Ev.res = "ok" THEN [src EXCEPT ![Ev.k] = None] ELSE src
TStep == (IsEvent("compact") \/ IsEvent("copy") \/ IsEvent("tail")) /\ Strict /\ Ev.res = "ok" /\ UNCHANGED vars
Obs(v) == IF v = None THEN Ev.st = "notfound" ELSE Ev.st = "data" /\ Ev.d = v
TSread == IsEvent("sread") /\ Strict /\ Obs(src[Ev.k]) /\ UNCHANGED vars
TBread == IsEvent("bread") /\ Strict /\ Obs(src[Ev.k]) /\ UNCHANGED vars
TraceNext == TraceReset \/ TraceSkip \/ TWrite \/ TDelete \/ TStep \/ TSread \/ TBread
TraceSpec == TraceInit /\ [][TraceNext]_tvars
=============================================================================
