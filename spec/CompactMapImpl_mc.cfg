SPECIFICATION BSpec
INVARIANT DeleteResult
INVARIANT Refines
INVARIANT Structure
INVARIANT NoStrayEntries
VIEW BView
CHECK_DEADLOCK FALSE
