----------------------------- MODULE BackupTrace -----------------------------
(* C37 judge.  Strict: after every run of the backup procedure every key reads on the
   backup exactly as on the source.  The recorded operations also drive the layer-B model
   of the files (BackupImpl.tla), so that the one listed deviation is as narrow as the
   defect: a backup read that differs from the source is admitted only when it is exactly
   what the modelled procedure (binary search by append time over a key-ordered index)
   leaves in the backup. *)
EXTENDS BackupImpl, TraceKit
tvars == <<vars, kitvars>>
TraceInit == Init /\ KitInit
TraceReset == IsReset /\ sdat' = <<>> /\ sidx' = <<>> /\ srev' = 0 /\ bdat' = <<>> /\ bidx' = <<>> /\ brev' = 0
              /\ clock' = 1 /\ synced' = TRUE /\ UNCHANGED hist
TraceSkip == SkipStep /\ UNCHANGED vars
TWrite == /\ IsEvent("write") /\ Strict /\ Ev.res = "ok" /\ Write(Ev.k, Ev.d) /\ UNCHANGED hist
TDelete == /\ IsEvent("delete") /\ Strict
           /\ IF ReadOf(sdat, sidx, Ev.k) = "none" THEN Ev.res = "notfound" ELSE Ev.res = "ok"
           /\ Delete(Ev.k) /\ UNCHANGED hist
TCompact == IsEvent("compact") /\ Strict /\ Ev.res = "ok" /\ SourceCompact /\ UNCHANGED hist
TSread == /\ IsEvent("sread") /\ Strict
          /\ LET v == ReadOf(sdat, sidx, Ev.k) IN
               IF v = "none" THEN Ev.st = "notfound" ELSE Ev.st = "data" /\ Ev.d = v
          /\ UNCHANGED vars
TBackup == IsEvent("backup") /\ Strict /\ Backup /\ UNCHANGED hist
Obs(v) == IF v = "none" THEN Ev.st = "notfound" ELSE Ev.st = "data" /\ Ev.d = v
TBread == /\ IsEvent("bread")
          /\ \/ Strict /\ Obs(ReadOf(sdat, sidx, Ev.k))
             \/ /\ Deviate("C37-misses-after-source-compaction")
                /\ ReadOf(bdat, bidx, Ev.k) # ReadOf(sdat, sidx, Ev.k)
                /\ Obs(ReadOf(bdat, bidx, Ev.k))
          /\ UNCHANGED vars
TraceNext == TraceReset \/ TraceSkip \/ TWrite \/ TDelete \/ TCompact \/ TSread \/ TBackup \/ TBread
TraceSpec == TraceInit /\ [][TraceNext]_tvars
=============================================================================
