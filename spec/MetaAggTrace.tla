---------------------------- MODULE MetaAggTrace ----------------------------
(* X05 judge: consumes what harness/cmd/cagg recorded from n real filer servers.
   The aggregators' work is not observed directly: AApply steps are silent.  Since a
   change applied to f's store commutes with everything that does not read that store,
   silent steps are only tried right before a line that reads it (an operation or a
   restart at f, or the quiescence line). *)
EXTENDS MetaAgg, TraceKit
tvars == <<vars, kitvars>>
TraceInit == Init /\ KitInit
TraceReset == /\ IsReset
              /\ log' = [f \in Filers |-> <<>>] /\ store' = [f \in Filers |-> <<>>]
              /\ applied' = [f \in Filers |-> [g \in Filers |-> 0]]
              /\ half' = [f \in Filers |-> [g \in Filers |-> FALSE]]
              /\ pos' = <<>> /\ restarted' = {} /\ rotl' = {}
              /\ dep' = [f \in Filers |-> <<>>] /\ vc' = [f \in Filers |-> [g \in Filers |-> 0]]
              /\ UNCHANGED hist
TraceSkip == SkipStep /\ UNCHANGED vars

Rest == UNCHANGED <<applied, half, pos, restarted, rotl, hist>>
Same == UNCHANGED vars

Pending(f) == \E g \in Filers \ {f} : applied[f][g] < Len(log[g])
OpReads(f) == LET e == Trace[l] IN e.ev \in {"put", "upd", "del", "mv", "look", "await"} /\ e.f = f
OpNames == LET e == Trace[l] IN IF e.ev = "mv" THEN {e.p, e.q} ELSE {e.p}
(* some peer still has a change for f that touches a name the next line is about: only then does it matter what
   f has applied (otherwise everything pending commutes with the line, and applying it later only makes more
   writes count as concurrent, which the quiescence line treats more leniently, never less).  Then changes of
   EVERY peer may be applied: getting at the one that matters drags that peer's earlier changes along, and
   their order relative to other peers' changes to the same names is free. *)
PendTouch1(f, g) == \E k \in (applied[f][g] + 1)..Len(log[g]) : Touches(log[g][k]) \cap OpNames # {}
PendTouch(f, g) == \E g2 \in Filers \ {f} : PendTouch1(f, g2)
(* before the quiescence line everything pending is applied; changes applied to different stores commute, so
   the stores are brought up to date one after the other (the order WITHIN one store stays free) *)
MayApply(f, g) == LET e == Trace[l] IN
                  \/ (e.ev \in {"quiet", "timeout"} /\ Pending(f) /\ \A f2 \in Filers : f2 < f => ~Pending(f2))
                  \/ (OpReads(f) /\ PendTouch(f, g))
                  \/ (e.ev = "restart" /\ e.f = f)
TApply == /\ l <= N /\ ok /\ UNCHANGED kitvars
          /\ \E f \in Filers, g \in Filers : (f # g /\ MayApply(f, g)) = TRUE /\ AApply(f, g)
          /\ UNCHANGED <<pos, restarted, rotl, hist>>
(* known finding X05-segment-skip-loss: f never gets g's next change.  Only tried at a barrier, and only when the
   listing of f's store that follows the barrier line does not show the change's effect (otherwise skipping it and
   applying it cannot be told apart, and applying it is the strict reading). *)
LsOf(f) == LET js == {j \in (l + 1)..Min2(N, l + Cardinality(Filers) + 1) : Trace[j].ev = "ls" /\ Trace[j].f = f /\ Trace[j].x = Trace[l].x}
           IN IF js = {} THEN <<>> ELSE Trace[CHOOSE j \in js : \A k \in js : j <= k].ents
EffectShown(e, ents) == IF e.np # "" THEN \E i \in 1..Len(ents) : ents[i][1] = e.np /\ ents[i][2] = e.nid
                        ELSE \A i \in 1..Len(ents) : ents[i][1] # e.op
TSkipApply == /\ l <= N /\ ok /\ l' = l /\ ok' = ok /\ Deviate("X05-segment-skip-loss")
              /\ Trace[l].ev \in {"quiet", "timeout"}     \* (what an operation line needs can wait: applies are lazy)
              /\ \E f \in Filers, g \in Filers :
                   /\ (f # g /\ MayApply(f, g) /\ applied[f][g] < Len(log[g])) = TRUE
                   /\ (LsOf(f) = <<>> \/ ~EffectShown(log[g][applied[f][g] + 1], LsOf(f))) = TRUE
                   /\ ASkip(f, g)
              /\ UNCHANGED <<pos, restarted, rotl, hist>>
(* known finding X05-replay-not-atomic: the first half of the Replay of a replacing change, seen by the next line *)
TApplyRm == /\ l <= N /\ ok /\ l' = l /\ ok' = ok /\ Deviate("X05-replay-not-atomic")
            /\ \E f \in Filers, g \in Filers : (f # g /\ OpReads(f) /\ PendTouch(f, g)) = TRUE /\ AApplyRm(f, g)
            /\ UNCHANGED <<pos, restarted, rotl, hist>>

Rest2 == UNCHANGED <<pos, restarted, rotl, hist>>
(* the race variants guess which peer changes fell into the operation; a guess whose published change is handed to
   no subscriber anywhere later in the execution is dropped at once (it would be rejected at the reports anyway) *)
GotSet(f) == LET js == {j \in l..(Trace[l].nr - 1) : Trace[j].ev = "got"}
             IN UNION {{Evt(Trace[j].evs[i].op, Trace[j].evs[i].oid, Trace[j].evs[i].np, Trace[j].evs[i].nid) :
                          i \in {k \in 1..Len(Trace[j].evs) : Trace[j].evs[k].o = f}} : j \in js}
NewSeen(f) == \A k \in (Len(log[f]) + 1)..Len(log'[f]) : log'[f][k] \in GotSet(f)
(* the same for the plain variants, whose published change depends on which peer changes were applied before: only
   when the execution has reports at all *)
HasGot == /\ \E j \in l..(Trace[l].nr - 1) : Trace[j].ev = "got"
          /\ ~\E j \in l..(Trace[l].nr - 1) : Trace[j].ev = "timeout"    \* (stuck subscriptions: a change may reach nobody)
PlainSeen(f) == HasGot => NewSeen(f)
TPut == /\ IsEvent("put") /\ Strict /\ Ev.res = "ok"
        /\ \/ APut(Ev.f, Ev.p, Ev.id) /\ UNCHANGED <<applied, half>> /\ PlainSeen(Ev.f)
           \/ \E g \in Filers : APutRace(Ev.f, g, Ev.p, Ev.id) /\ NewSeen(Ev.f)
        /\ Rest2
TUpd == /\ IsEvent("upd") /\ Strict
        /\ \/ AUpd(Ev.f, Ev.p, Ev.id, Ev.res) /\ UNCHANGED <<applied, half>> /\ PlainSeen(Ev.f)
           \/ \E g \in Filers : AUpdRace(Ev.f, g, Ev.p, Ev.id, Ev.res) /\ NewSeen(Ev.f)
        /\ Rest2
TDel == /\ IsEvent("del") /\ Strict
        /\ \/ ADel(Ev.f, Ev.p, Ev.res) /\ UNCHANGED <<applied, half>> /\ PlainSeen(Ev.f)
           \/ \E g \in Filers : ADelRace(Ev.f, g, Ev.p, Ev.res) /\ NewSeen(Ev.f)
        /\ Rest2
TMv == /\ IsEvent("mv") /\ Strict
       /\ \/ AMv(Ev.f, Ev.p, Ev.q, Ev.res) /\ UNCHANGED <<applied, half>> /\ PlainSeen(Ev.f)
          \/ \E g \in Filers : AMvRace(Ev.f, g, Ev.p, Ev.q, Ev.res) /\ NewSeen(Ev.f)
       /\ Rest2
TLook == (IsEvent("look") \/ IsEvent("await")) /\ Strict /\ ALook(Ev.f, Ev.p, Ev.id) /\ Same

(* the barrier's marker changes: one put of a fresh name per filer *)
MarkOf(g) == LET is == {i \in 1..Len(Ev.marks) : Ev.marks[i].f = g} IN
             IF is = {} THEN <<>> ELSE <<Ev.marks[CHOOSE i \in is : TRUE]>>
TSync == /\ IsEvent("sync") /\ Strict
         /\ \A i \in 1..Len(Ev.marks) : Ev.marks[i].res = "ok" /\ Ev.marks[i].f \in Filers
         /\ \A i, j \in 1..Len(Ev.marks) : Ev.marks[i].f = Ev.marks[j].f => i = j
         /\ PushAll([g \in Filers |-> IF MarkOf(g) = <<>> THEN <<>> ELSE <<PutEv(store[g], MarkOf(g)[1].p, MarkOf(g)[1].id)>>])
         /\ store' = [g \in Filers |-> IF MarkOf(g) = <<>> THEN store[g] ELSE Set(store[g], MarkOf(g)[1].p, MarkOf(g)[1].id)]
         /\ Rest
(* every marker has arrived everywhere: every filer has applied every peer change, and (statement (b)) the
   stores agree on every name that was not written concurrently.  Once the stale replay after a restart has
   been taken, its consequence - stores that stay different - is part of that finding. *)
TQuiet == /\ IsEvent("quiet") /\ (Quiescent = TRUE)
          /\ IF QuietOK \/ "X05-stale-offset-replay" \in used \/ "X05-segment-skip-loss" \in used THEN Strict
             ELSE Deviate("X05-no-causal-delivery") /\ (QuietCrossed = TRUE)
          /\ Same
TLs == /\ IsEvent("ls") /\ Strict
       /\ AsSet(store[Ev.f]) = {<<Ev.ents[i][1], Ev.ents[i][2]>> : i \in 1..Len(Ev.ents)}
       /\ Same

TRestart == /\ IsEvent("restart")
            /\ \/ Strict /\ ARestart(Ev.f) /\ UNCHANGED applied
               \/ Deviate("X05-stale-offset-replay") /\ ARestartStale(Ev.f, Ev.off)
            /\ rotl' = rotl \cup {Ev.f}     \* the stop flushes the local log
            /\ UNCHANGED <<log, store, pos, dep, vc, hist>>

TSub == /\ IsEvent("sub") /\ Strict /\ Ev.c \notin DOMAIN pos
        /\ pos' = SetPos(Ev.c, P0)
        /\ UNCHANGED <<log, store, applied, half, restarted, rotl, dep, vc, hist>>
(* everything subscriber c was handed since its last report; reports follow a quiescence line *)
SeqRange(q) == {q[i] : i \in 1..Len(q)}
TGot == /\ IsEvent("got")
        /\ LET Ps == FoldGot(GetPos(Ev.c), Ev.evs, 1, Ev.f, Ev.kind, FALSE)
               Pl == FoldGot(GetPos(Ev.c), Ev.evs, 1, Ev.f, Ev.kind, TRUE)
               Pa == FoldGotAny(GetPos(Ev.c), Ev.evs, 1, Ev.f, Ev.kind)
               Pg == FoldGotGap(GetPos(Ev.c), Ev.evs, 1, Ev.f, Ev.kind)
               SkipOK == IF Ev.kind = "loc" THEN Ev.f \in rotl ELSE rotl # {}
           IN IF Complete(Ps, Ev.f, Ev.kind)
              THEN Strict /\ pos' = SetPos(Ev.c, Ps)
              ELSE \/ /\ Deviate("X05-restart-redelivers")
                      /\ Ev.kind = "agg" /\ Ev.f \in restarted
                      /\ Complete(Pl, Ev.f, Ev.kind)
                      /\ pos' = SetPos(Ev.c, Pl)
                   \/ /\ Deviate("X05-agg-rotation-gap")
                      /\ Ev.kind = "agg" /\ (Ev.f \in SeqRange(Ev.rot) \/ (Ev.f \in rotl /\ Ev.f \notin restarted))
                      /\ Genuine(Pa)
                      /\ pos' = SetPos(Ev.c, Pa)
                   \/ /\ Deviate("X05-segment-skip-loss")
                      /\ SkipOK /\ Genuine(Pg)
                      /\ pos' = SetPos(Ev.c, Pg)
                   \/ /\ DeviateAll({"X05-segment-skip-loss", "X05-restart-redelivers"})
                      /\ SkipOK /\ Ev.kind = "agg" /\ Ev.f \in restarted
                      /\ ~Complete(Pl, Ev.f, Ev.kind) /\ ~Genuine(Pg) /\ Genuine(Pa)
                      /\ pos' = SetPos(Ev.c, Pa)
        /\ UNCHANGED <<log, store, applied, half, restarted, rotl, dep, vc, hist>>
(* known finding X05-lost-wakeup: the barrier's first round did not complete in 10 s - a subscription loop (a
   subscriber's, or the one feeding a peer's aggregator) slept through the last change; the driver then makes
   a second round of marker changes, after which everything has to be there as if nothing had happened *)
TStall == /\ IsEvent("stall")
          /\ \/ Deviate("X05-lost-wakeup")
             \/ Deviate("X05-agg-rotation-gap") /\ Ev.kind = "agg" /\ (Ev.f \in SeqRange(Ev.rot) \/ Ev.f \in rotl)
             \/ Deviate("X05-segment-skip-loss") /\ rotl # {}     \* a subscription polling the persisted log
          /\ Same
(* both rounds failed.  X05-agg-rotation-gap: a subscriber of the aggregated stream stayed stuck, the stores are
   complete.  X05-segment-skip-loss: a subscription (a peer's aggregator or a subscriber) is still polling the
   persisted log for a file that will only appear with the next flush; what it has not got yet stays pending. *)
TTimeout == /\ IsEvent("timeout")
            /\ \/ /\ Deviate("X05-agg-rotation-gap")
                  /\ Ev.kind = "agg" /\ (Ev.f \in SeqRange(Ev.rot) \/ Ev.f \in rotl)
                  /\ (Quiescent = TRUE)
               \/ /\ Deviate("X05-segment-skip-loss")
                  /\ rotl # {} /\ Ev.kind \in {"store", "agg", "loc"}
            /\ Same
(* the schedule: deliveries of g's changes to f's aggregator held back / let go by the harness *)
TSched == (IsEvent("hold") \/ IsEvent("release") \/ IsEvent("holdc") \/ IsEvent("releasec") \/ IsEvent("waitsec") \/ IsEvent("waitmin"))
          /\ Strict /\ Same
(* the local (or aggregated) log buffer of f was rotated: by the script (rotate) or seen by the driver (flushed) *)
TRotate == /\ (IsEvent("rotate") \/ IsEvent("flushed")) /\ Strict
           /\ rotl' = IF Ev.buf = "loc" THEN rotl \cup {Ev.f} ELSE rotl
           /\ UNCHANGED <<log, store, applied, half, pos, restarted, dep, vc, hist>>

(* Filer.Shutdown as the filer command runs it on an interrupt (child process): it has to end cleanly *)
TShutdown == /\ IsEvent("shutdown")
             /\ \/ Strict /\ Ev.exit = "clean"
                \/ Deviate("X05-shutdown-flush-race") /\ Ev.exit = "panic"
             /\ Same

TraceNext == TraceReset \/ TraceSkip \/ TApply \/ TApplyRm \/ TSkipApply \/ TRotate \/ TPut \/ TUpd \/ TDel \/ TMv \/ TLook \/ TSync \/ TQuiet \/ TLs
             \/ TRestart \/ TSub \/ TGot \/ TSched \/ TShutdown \/ TStall \/ TTimeout
TraceSpec == TraceInit /\ [][TraceNext]_tvars
=============================================================================
