SPECIFICATION MCSpec
INVARIANT EncoderClosedForm
INVARIANT PlaceInverse
INVARIANT LocateExact
INVARIANT OrigLocateOutsideWindow
INVARIANT OrigLocateInsideWindow
INVARIANT DecodeStrictExact
INVARIANT DecodeTreeExact
CHECK_DEADLOCK FALSE
