SPECIFICATION MCSpec
INVARIANT EncoderClosedForm
INVARIANT PlaceInverse
INVARIANT LocateExact
INVARIANT OrigLocateOutsideWindow
INVARIANT OrigLocateInsideWindow
INVARIANT DecodeExact
INVARIANT OrigDecodeExactIffNotMultiple
CHECK_DEADLOCK FALSE
