---------------------------- MODULE KeyAllocTrace ----------------------------
(* Judge for C13: one trace action per event recorded by harness/cmd/c13. *)
EXTENDS KeyAlloc, TraceKit
CONSTANT RealSteps     \* sequence.DefaultEtcdSteps: a count is recorded as n = [c, s] and cnt = c + s*RealSteps
tvars == <<vars, kitvars>>

TraceInit == /\ kind = "" /\ given = {} /\ inuse = {} /\ reg = {} /\ gen = <<>> /\ smax = <<>>
             /\ vgiven = {} /\ vreg = {} /\ pend = {} /\ hist = <<>> /\ KitInit
TraceReset == /\ IsReset
              /\ kind' = Ev.kind /\ given' = {} /\ inuse' = {} /\ reg' = {}
              /\ gen' = [m \in Range(Ev.masters) |-> 0] /\ smax' = [m \in Range(Ev.masters) |-> 0]
              /\ vgiven' = {} /\ vreg' = {} /\ pend' = {} /\ UNCHANGED hist
TraceSkip == SkipStep /\ UNCHANGED vars

CountOK(e) == e.cnt = e.n.c + e.n.s * RealSteps

TPre == /\ IsEvent("pre") /\ Strict
        /\ inuse' = inuse \cup {<<Ev.vol, Ev.keys[i]>> : i \in 1..Len(Ev.keys)}
        /\ UNCHANGED <<kind, given, reg, gen, smax, vgiven, vreg, pend, hist>>
Frame == UNCHANGED <<kind, inuse, reg, gen, smax, vgiven, vreg, pend, hist>>
TNext == /\ IsEvent("next") /\ CountOK(Ev) /\ <<Ev.m, Ev.vol>> \in reg
         /\ \/ Strict /\ AssignOK(Ev.m, Ev.vol, Ev.cnt, Ev.start)
            \/ Deviate("C13-memory-leader-change-reissue") /\ ~AssignOK(Ev.m, Ev.vol, Ev.cnt, Ev.start)
                 /\ MemReissueOK(Ev.m, Ev.vol, Ev.cnt, Ev.start)
            \/ Deviate("C13-snowflake-count-ignored") /\ SnowTailOK(Ev.m, Ev.vol, Ev.cnt, Ev.start)
         /\ GiveEff(Ev.m, Ev.vol, Ev.cnt, Ev.start) /\ Frame
TWrite == IsEvent("write") /\ Strict /\ Write(Ev.vol, Ev.k) /\ UNCHANGED hist
THb == IsEvent("hb") /\ Strict /\ Hb(Ev.m, Ev.vol, Ev.v) /\ UNCHANGED hist
TSetMax == IsEvent("setmax") /\ Strict /\ SetMaxRaw(Ev.m, Ev.v) /\ UNCHANGED hist
TLeader == IsEvent("leader") /\ Strict /\ Leader(Ev.m, Ev.fresh) /\ UNCHANGED hist
TTick == (IsEvent("tick") \/ IsEvent("release")) /\ Strict /\ UNCHANGED vars
TNextVid == IsEvent("nextvid") /\ Strict /\ NextVid(Ev.m, Ev.id) /\ UNCHANGED hist
TVolReg == IsEvent("volreg") /\ Strict /\ VolReg(Ev.m, Ev.id) /\ UNCHANGED hist
TCall == /\ IsEvent("call") /\ Strict /\ (Ev.op = "next" => CountOK(Ev))
         /\ Call(Ev.p, Ev.op, Ev.m, Ev.vol, Ev.cnt, Ev.v) /\ UNCHANGED hist
StrictOK(m, vol, n, lo) == AssignOK(m, vol, n, lo)
MemOK(m, vol, n, lo) == ~AssignOK(m, vol, n, lo) /\ MemReissueOK(m, vol, n, lo)
IsNextRet == \E r \in Pending(Ev.p) : r.op = "next"
TRet == /\ IsEvent("ret")
        /\ \/ Ev.err /\ Strict /\ RetRefused(Ev.p)
           \/ ~Ev.err /\ Strict /\ RetWith(Ev.p, Ev.start, StrictOK)
           \/ ~Ev.err /\ Deviate("C13-memory-leader-change-reissue") /\ IsNextRet /\ RetWith(Ev.p, Ev.start, MemOK)
           \/ ~Ev.err /\ Deviate("C13-snowflake-count-ignored") /\ IsNextRet /\ RetWith(Ev.p, Ev.start, SnowTailOK)
        /\ UNCHANGED hist
(* "panic" and "race" events are consumed by no action: an execution containing one is rejected *)
TraceNext == \/ TraceReset \/ TraceSkip \/ TPre \/ TNext \/ TWrite \/ THb \/ TSetMax \/ TLeader
             \/ TTick \/ TNextVid \/ TVolReg \/ TCall \/ TRet
TraceSpec == TraceInit /\ [][TraceNext]_tvars
=============================================================================
