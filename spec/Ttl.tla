-------------------------------- MODULE Ttl --------------------------------
(* C09 - TTL data lives exactly as long as promised.

   Time is a logical clock in minutes (the driver ages a volume by shifting every
   stored timestamp and the data file's mtime back, never by waiting).

   Layer A (the statement):
     live[k] = None or [d, at, ttl]   at = minute of the append, ttl = effective TTL in
                                      minutes (the blob's own, else the volume's; 0 = none)
     a blob is readable exactly while  ttl = 0 \/ now < at + ttl;
     a committed compaction and an expiry-driven volume removal never take an
     unexpired blob away (expired ones may or may not disappear).

   Layer B (what weed/storage does), same module, ghost-coupled:
     every needle keeps  at  (AppendAtNs) and  lm  (LastModified: the client's ts or the
     upload time);  reads test   now < at + ownTtl          (volume_read.go)
     compaction drops   hasTtl /\ now >= lm + volumeTtl     (volume_vacuum.go)
     the heartbeat removes the volume when  volLm + volumeTtl + delay < now, where volLm
     is the largest LastModified written since the volume was opened (the data file's
     mtime after a reopen, 0 for a brand-new volume)        (volume.go, store.go)
   ReadsAgree: what B serves is what A admits, modulo the deviations in KF.

   The filer clause of the statement ("a filer entry with a TTL stores its data in volumes whose
   TTL is at least the entry's TTL") is the operator VolumeTtlFor(sec, minutes) of TtlAssign.tla,
   EXTENDed here; FilerClauseCovers / FilerClauseNeeded tie it to Readable. *)
EXTENDS Integers, Sequences, FiniteSets, TLC, Json, TtlAssign
CONSTANTS Keys, Datas, BlobTtls, VTtl, Ages, MaxOps, KF
VARIABLES now, live, gone, rec, volLm, mtime, phase, cp, dirty, hist
vars == <<now, live, gone, rec, volLm, mtime, phase, cp, dirty, hist>>

None == [none |-> TRUE]
(* TTL tokens -> minutes *)
Min(t) == CASE t = "" -> 0 [] t = "3m" -> 3 [] t = "1h" -> 60 [] t = "2h" -> 120 [] OTHER -> 0
OldDelta == 10000          \* ts = "old": a client timestamp 10000 minutes before the upload
EffTtl(bt) == IF bt # "" THEN Min(bt) ELSE Min(VTtl)
Readable(b, t) == b.ttl = 0 \/ t < b.at + b.ttl
Delay == IF Min(VTtl) \div 10 > 10 THEN 10 ELSE Min(VTtl) \div 10

(* An entry of s seconds is visible d minutes after its creation iff s = 0 \/ d * 60 < s.  A blob
   appended when the entry is created, in a volume whose TTL VolumeTtlFor admits, is readable at
   every minute at which the entry is visible; a volume TTL that VolumeTtlFor refuses is not. *)
FcSecs == {0, 1, 59, 60, 61, 119, 120, 121, 180, 3599, 3600, 3601}
FcMins == {0, 1, 2, 3, 59, 60, 61}
Visible(s, d) == s = 0 \/ d * 60 < s
ASSUME FilerClauseCovers ==
  \A s \in FcSecs, m \in FcMins, d \in 0..62 :
     VolumeTtlFor(s, m) /\ Visible(s, d) => Readable([at |-> 1000, ttl |-> m], 1000 + d)
ASSUME FilerClauseNeeded ==
  \A s \in FcSecs, m \in FcMins :
     ~VolumeTtlFor(s, m) => \E d \in 0..62 : Visible(s, d) /\ ~Readable([at |-> 1000, ttl |-> m], 1000 + d)

Init == /\ now = 20000 /\ live = [k \in Keys |-> None] /\ gone = FALSE
        /\ rec = [k \in Keys |-> None] /\ volLm = 0 /\ mtime = 20000
        /\ phase = "idle" /\ cp = [k \in Keys |-> None] /\ dirty = {} /\ hist = <<>>

(* ------------------------------------------------------------ layer A *)
ReadA(l, g, t, k, res) ==
  IF g THEN res.st # "data"
  ELSE IF l[k] = None THEN res.st # "data"
  ELSE IF Readable(l[k], t) THEN res.st = "data" /\ res.d = l[k].d
  ELSE res.st # "data"
(* after a commit: unexpired blobs unchanged, expired ones unchanged or gone *)
CommitA(l, t, l2) ==
  \A k \in DOMAIN l : \/ l2[k] = l[k]
                      \/ l[k] # None /\ ~Readable(l[k], t) /\ l2[k] = None
(* the volume may be removed only when nothing in it is still readable *)
RemoveA(l, t) == \A k \in DOMAIN l : l[k] = None \/ ~Readable(l[k], t)

(* ------------------------------------------------------------ layer B *)
HasTtlB(r) == r.own # "" \/ VTtl # ""
ReadB(k) ==
  IF gone \/ rec[k] = None THEN [st |-> "notfound", d |-> ""]
  ELSE LET r == rec[k]  t == EffTtl(r.own) IN
       IF ~HasTtlB(r) \/ t = 0 \/ now < r.at + t THEN [st |-> "data", d |-> r.d]
       ELSE [st |-> "notfound", d |-> ""]
FilterDrops(r) == HasTtlB(r) /\ now >= r.lm + Min(VTtl)

Write(k, d, bt, ts) ==
  /\ ~gone
  /\ LET lm == IF ts = "old" THEN now - OldDelta ELSE now IN
     /\ rec' = [rec EXCEPT ![k] = [d |-> d, at |-> now, lm |-> lm, own |-> bt]]
     /\ volLm' = IF volLm < lm THEN lm ELSE volLm
  /\ live' = [live EXCEPT ![k] = [d |-> d, at |-> now, ttl |-> EffTtl(bt)]]
  /\ mtime' = now /\ dirty' = dirty \cup {k}
  /\ UNCHANGED <<now, gone, phase, cp>>
(* ageing = close, shift every stored timestamp and the file mtime back, reopen:
   equivalent to the clock moving forward; volLm becomes the file's mtime = time of
   the last write to the data file (an append or a committed compaction) *)
Age(m) == /\ phase = "idle" /\ ~gone
          /\ now' = now + m /\ volLm' = mtime
          /\ UNCHANGED <<live, gone, rec, mtime, phase, cp, dirty>>
Compact == /\ phase = "idle" /\ ~gone
           /\ cp' = [k \in Keys |-> IF rec[k] # None /\ ~FilterDrops(rec[k]) THEN rec[k] ELSE None]
           /\ phase' = "compacted" /\ dirty' = {}
           /\ UNCHANGED <<now, live, gone, rec, volLm, mtime>>
DevTtlFilter(l) ==   \* C04-ttl-filter: unexpired blobs that the filter drops
  [k \in DOMAIN l |-> IF rec[k] # None /\ FilterDrops(rec[k]) THEN None ELSE l[k]]
Commit == /\ phase = "compacted" /\ ~gone
          \* makeupDiff carries over what was appended between compact and commit
          /\ rec' = [k \in Keys |-> IF k \in dirty THEN rec[k] ELSE cp[k]] /\ phase' = "idle"
          /\ live' = LET lost(k) == k \notin dirty /\ cp[k] = None
                         strict == [k \in Keys |-> IF live[k] # None /\ ~Readable(live[k], now) /\ lost(k)
                                                    THEN None ELSE live[k]]
                     IN IF "C04-ttl-filter" \in KF
                        THEN [k \in Keys |-> IF lost(k) THEN None ELSE strict[k]]
                        ELSE strict
          /\ mtime' = now
          /\ UNCHANGED <<now, gone, volLm, cp, dirty>>
(* CollectHeartbeat: expired() and expiredLongEnough() *)
VolExpired == Min(VTtl) # 0 /\ (\E k \in Keys : rec[k] # None) /\ Min(VTtl) < now - volLm
VolRemovable == VolExpired /\ volLm + Min(VTtl) + Delay < now
Heartbeat == /\ phase = "idle" /\ ~gone
             /\ gone' = VolRemovable
             /\ live' = IF VolRemovable /\ "C09-volume-expiry-uses-last-modified" \in KF
                        THEN [k \in Keys |-> None] ELSE live
             /\ UNCHANGED <<now, rec, volLm, mtime, phase, cp, dirty>>

Log(op) == hist' = Append(hist, op)
Next ==
  /\ Len(hist) < MaxOps
  /\ \/ \E k \in Keys, d \in Datas, bt \in BlobTtls, ts \in {"none", "old"} :
          Write(k, d, bt, ts) /\ Log([ev |-> "write", k |-> k, d |-> d, bt |-> bt, ts |-> ts])
     \/ \E m \in Ages : Age(m) /\ Log([ev |-> "age", min |-> m])
     \/ (Compact /\ Log([ev |-> "compact", algo |-> 1]))
     \/ (Compact /\ Log([ev |-> "compact", algo |-> 2]))
     \/ (Commit /\ Log([ev |-> "commit"]))
     \/ (Heartbeat /\ Log([ev |-> "hb"]))
Spec == Init /\ [][Next]_vars

ReadsAgree == \A k \in Keys : ReadA(live, FALSE, now, k, ReadB(k))
(* at design level: a volume removal without the deviation would only be admitted when
   nothing is readable *)
RemovalOnlyWhenExpired ==
  [][(gone' /\ ~gone) => (RemoveA(live, now) \/ "C09-volume-expiry-uses-last-modified" \in KF)]_vars
MCView == <<now, live, gone, rec, volLm, mtime, phase, cp, dirty>>
View == <<now, live, gone, rec, volLm, mtime, phase, cp, dirty, IF hist = <<>> THEN <<>> ELSE hist[Len(hist)]>>
Emit == Len(hist) < MaxOps \/ PrintT(<<"W", ToJson(hist)>>)
EmitW == hist = <<>> \/ PrintT(<<"W", ToJson(hist)>>)
=============================================================================
