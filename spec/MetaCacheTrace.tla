---------------------------- MODULE MetaCacheTrace ----------------------------
(* Judge for X04: executions recorded by harness/cmd/cmeta (a real mount object and its real metadata cache and
   subscription next to a real filer) against layer A.  Probe = the directories listed in every snap. *)
EXTENDS MetaCache, TraceKit
CONSTANT Probe
tvars == <<avars, kitvars>>
TraceInit == Init /\ KitInit
TraceReset == IsReset /\ tree' = <<>> /\ visited' = {} /\ pend' = {} /\ exc' = {} /\ UNCHANGED hist
TraceSkip == SkipStep /\ UNCHANGED avars
(* a change of the filer by another client or by the mount itself; the rename deviation shows in the operation's own
   outcome (EIO although the filer has renamed) *)
TOp == /\ IsEvent("op")
       /\ \/ Strict /\ OpA(Ev, FALSE)
          \/ Deviate(RN) /\ OpA(Ev, TRUE)
       /\ UNCHANGED hist
TVisit == IsEvent("visit") /\ Strict /\ VisitA(Ev) /\ UNCHANGED hist
TDeliver == IsEvent("deliver") /\ Strict /\ DeliverA(Ev) /\ UNCHANGED hist
(* the listings after every step; at quiescence a served listing may differ from the filer's only at excused paths,
   and the known findings that excuse them are the ones this execution is reported under *)
TSnap == /\ IsEvent("snap")
         /\ SnapBase(Ev.f, Ev.c, Probe) = TRUE
         /\ LET bp == BadPaths(Ev.q, Ev.c, Probe) IN
            /\ (\A q \in bp : ExcIds(q) \cap KF # {}) = TRUE
            /\ used' = used \cup UNION {ExcIds(q) \cap KF : q \in bp}
         /\ UNCHANGED avars
TraceNext == TraceReset \/ TraceSkip \/ TOp \/ TVisit \/ TDeliver \/ TSnap
TraceSpec == TraceInit /\ [][TraceNext]_tvars
=============================================================================
