----------------------------- MODULE CrashTrace -----------------------------
(* Judge for driver c03: reset, history (write/delete with dend/iend), then blocks
   crash{d,i} reopen{res,ro} read{k,...}* wnew rnew reread{k,...}*. *)
EXTENDS CrashRecover, TraceKit
VARIABLES ops, cr, first
vars == <<ops, cr, first>>
tvars == <<vars, kitvars>>
Keys == {1, 2, 3, 99}
NoCrash == [d |-> 0, i |-> 0, open |-> FALSE, ro |-> FALSE]

TraceInit == ops = <<>> /\ cr = NoCrash /\ first = <<>> /\ KitInit
TraceReset == IsReset /\ ops' = <<>> /\ cr' = NoCrash /\ first' = <<>>
TraceSkip == SkipStep /\ UNCHANGED vars

THist == /\ (IsEvent("write") \/ IsEvent("delete"))
         /\ ~cr.open /\ cr.d = 0
         /\ \/ Strict /\ ops' = Append(ops, Ev)
            \/ /\ Ev.ev = "write" /\ Ev.unch /\ Deviate("C01-unchanged-keeps-metadata")
               /\ LET cur == StateAfter(ops, Len(ops), Keys)[Ev.k] IN
                    /\ cur # None /\ cur.c = Ev.c /\ cur.d = Ev.d /\ cur.m # Ev.m
                    /\ ops' = Append(ops, [Ev EXCEPT !.m = cur.m])
         /\ UNCHANGED <<cr, first>>
TCrash == /\ IsEvent("crash") /\ Strict
          /\ cr' = [d |-> Ev.d, i |-> Ev.i, open |-> FALSE, ro |-> FALSE] /\ first' = <<>> /\ UNCHANGED ops
(* the operation that appended index entry n *)
OpOfEntry(n) == CHOOSE j \in 1..Len(ops) : ops[j].iend = n /\ (j = 1 \/ ops[j - 1].iend = n - 1)
(* C03-tombstone-torn-readonly: the last surviving index entry is a tombstone and the data
   file continues beyond that tombstone's record (torn or unindexed tail): the integrity
   check reads the last record of the data file instead of the indexed one, fails, and the
   volume comes up read-only *)
TombTail == cr.i > 0 /\ ops[OpOfEntry(cr.i)].ev = "delete" /\ cr.d > ops[OpOfEntry(cr.i)].dend
(* reopening succeeds and the volume accepts writes *)
TReopen == /\ IsEvent("reopen") /\ Ev.res = "ok"
           /\ \/ Strict /\ Ev.ro = FALSE
              \/ Deviate("C03-tombstone-torn-readonly") /\ TombTail /\ Ev.ro = TRUE
           /\ cr' = [cr EXCEPT !.open = TRUE, !.ro = Ev.ro] /\ UNCHANGED <<ops, first>>
TRead == /\ IsEvent("read") /\ Strict /\ cr.open
         /\ ReadAfterCrash(ops, Keys, cr.d, cr.i, Ev.k, Ev)
         /\ first' = [x \in DOMAIN first \cup {Ev.k} |-> IF x = Ev.k THEN [st |-> Ev.st, d |-> Ev.d, c |-> Ev.c] ELSE first[x]]
         /\ UNCHANGED <<ops, cr>>
TWnew == IsEvent("wnew") /\ Strict /\ cr.open /\ Ev.res = (IF cr.ro THEN "err" ELSE "ok") /\ UNCHANGED vars
TRnew == /\ IsEvent("rnew") /\ Strict /\ cr.open
         /\ IF cr.ro THEN Ev.st = "notfound" ELSE Ev.st = "data" /\ Ev.d = "n" /\ Ev.c = "c1"
         /\ UNCHANGED vars
(* a later write does not disturb what the recovered volume serves *)
TReread == /\ IsEvent("reread") /\ Strict /\ cr.open
           /\ Ev.k \in DOMAIN first /\ first[Ev.k] = [st |-> Ev.st, d |-> Ev.d, c |-> Ev.c]
           /\ UNCHANGED vars

TraceNext == TraceReset \/ TraceSkip \/ THist \/ TCrash \/ TReopen \/ TRead \/ TWnew \/ TRnew \/ TReread
TraceSpec == TraceInit /\ [][TraceNext]_tvars
=============================================================================
