---------------------------- MODULE SortedIndex ----------------------------
(* C07 - deleting from a sorted on-disk index: the .ecx of an erasure-coded volume
   with its deletion journal .ecj, and the .sdx of a read-only volume with the
   tombstones appended to its .idx.

   Keys are tokens 0..n-1 ordered like the real needle ids.  ent sends every key to
       [st |-> "absent"] | [st |-> "live", o, s] | [st |-> "deleted", o]
   (present keys never disappear from the file: a delete turns the size field of
   exactly that entry into a tombstone and leaves key, offset and every other entry
   as they were);  jr is the set of keys in the deletion journal.

   Delete(k)    live     -> that entry becomes a tombstone and k is journalled
                deleted  -> nothing changes (journalling it again is harmless: admitted)
                absent   -> nothing changes
   Find(k)      live -> its offset and size; deleted -> deleted or not found; absent -> not found
   Rebuild      applying the journal to a pristine copy of the sorted file (RebuildEcxFile /
                regenerating .sdx from .idx) gives exactly the live set; done in place it
                empties the journal
   ToIdx        the .idx written from sorted file + journal loads to the same live set *)
EXTENDS Integers, Sequences, FiniteSets, TLC, Json
CONSTANTS NKeys, MaxOps
VARIABLES ent, jr, base, hist
vars == <<ent, jr, base, hist>>

Keys == DOMAIN ent
Absent == [st |-> "absent"]
IsLive(k) == ent[k].st = "live"
LiveSet == {k \in Keys : IsLive(k)}
Present == {k \in Keys : ent[k].st # "absent"}

Delete(k) ==
  /\ k \in Keys
  /\ ent' = IF IsLive(k) THEN [ent EXCEPT ![k] = [st |-> "deleted", o |-> ent[k].o]] ELSE ent
  /\ \/ jr' = jr \cup {k}
     \/ jr' = jr /\ ~IsLive(k)          \* only the deletion of a live needle has to be journalled
  /\ UNCHANGED base

(* f: found, o: offset token, s: size (negative = deleted) *)
FindOK(k, g) ==
  CASE ent[k].st = "live"    -> g.f /\ g.o = ent[k].o /\ g.s = ent[k].s
    [] ent[k].st = "deleted" -> ~g.f \/ g.s < 0
    [] OTHER                 -> ~g.f

RECURSIVE Ascending(_)
Ascending(S) == IF S = {} THEN <<>>
                ELSE LET x == CHOOSE x \in S : \A y \in S : x <= y IN <<x>> \o Ascending(S \ {x})
(* the raw file: ascending entries of present keys, every live key among them, key and offset
   intact, size intact for live entries and negative for deleted ones (a regenerated file may
   drop deleted entries) *)
RawOK(raw) ==
  /\ \A i \in 1..(Len(raw) - 1) : raw[i].k < raw[i + 1].k
  /\ LiveSet \subseteq {raw[i].k : i \in 1..Len(raw)}
  /\ \A i \in 1..Len(raw) :
       LET k == raw[i].k IN
       /\ k \in Present /\ raw[i].o = ent[k].o
       /\ IF IsLive(k) THEN raw[i].s = ent[k].s ELSE raw[i].s < 0

(* base: the live set of the file when the journal was last applied in place *)
RebuildInPlace == jr' \in {{}, jr} /\ base' = LiveSet /\ UNCHANGED ent

(* ---------------- generator / model checking ---------------- *)
(* every sorted index over the keys: any subset present, one size/offset per key *)
Init == /\ ent \in [0..(NKeys - 1) -> {Absent} \cup {[st |-> "live", o |-> 1, s |-> 3]}]
        /\ jr = {} /\ base = LiveSet /\ hist = <<>>
Say(op) == hist' = Append(hist, op)
GenNext ==
  /\ Len(hist) < MaxOps
  /\ \/ \E k \in Keys : Delete(k) /\ Say([ev |-> "del", k |-> k])
     \/ RebuildInPlace /\ Say([ev |-> "rebuild"])
Spec == Init /\ [][GenNext]_vars

(* design-level statements *)
TypeOK == jr \subseteq Keys /\ base \subseteq Present
(* a journalled key is never live *)
JournalSound == jr \cap LiveSet = {}
ExactlyThat == [][\A k \in Keys : (hist' # hist /\ hist'[Len(hist')] = [ev |-> "del", k |-> k])
                    => /\ \A q \in Keys \ {k} : ent'[q] = ent[q]
                       /\ ~IsLive(k)'
                       /\ (IsLive(k) => k \in jr')
                       /\ Present' = Present]_vars
(* the live set only shrinks, and only by deleted keys *)
Monotone == [][LiveSet' \subseteq LiveSet /\ Present' = Present]_vars
(* THE statement about the journal: applying it to the file as it was when the journal was
   last empty gives exactly the current live set *)
RebuildGivesLiveSet == base \ jr = LiveSet
Emit == Len(hist) < MaxOps \/ PrintT(<<"W", ToJson([present |-> Ascending(Present), ops |-> hist])>>)
=============================================================================
