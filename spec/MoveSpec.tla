------------------------------ MODULE MoveSpec ------------------------------
(* Spec growth (X02): the live volume move of the shell - LiveMoveVolume = copy the volume
   files to the target server, then tail the source from the copy's last append time so that
   writes and deletes made meanwhile arrive too, then delete the source.  Layer A: after the
   tail, the target serves exactly the source's live blobs.  The model keeps the source's
   record log (append order) so that TLC can generate the schedules that matter: operations
   before the copy, a source compaction, operations between copy and tail (overwrites,
   deletions of copied blobs, re-creations). *)
EXTENDS Integers, Sequences, FiniteSets, TLC, Json
CONSTANTS Keys, Datas, MaxOps
VARIABLES src, tgt, phase, hist
vars == <<src, tgt, phase, hist>>
None == "none"
Init == src = [k \in Keys |-> None] /\ tgt = [k \in Keys |-> None] /\ phase = "before" /\ hist = <<>>
Write(k, d) == phase # "done" /\ src' = [src EXCEPT ![k] = d] /\ UNCHANGED <<tgt, phase>>
Delete(k) == phase # "done" /\ src' = [src EXCEPT ![k] = None] /\ UNCHANGED <<tgt, phase>>
Compact == phase = "before" /\ UNCHANGED <<src, tgt, phase>>
Copy == phase = "before" /\ (\E k \in Keys : src[k] # None) /\ tgt' = src /\ phase' = "copied" /\ UNCHANGED src
TailStep == phase = "copied" /\ tgt' = src /\ phase' = "done" /\ UNCHANGED src
Log(op) == hist' = Append(hist, op)
Next ==
  /\ Len(hist) < MaxOps
  /\ \/ \E k \in Keys, d \in Datas : Write(k, d) /\ Log([ev |-> "write", k |-> k, d |-> d])
     \/ \E k \in Keys : Delete(k) /\ Log([ev |-> "delete", k |-> k])
     \/ (Compact /\ Log([ev |-> "compact"]))
     \/ (Copy /\ Log([ev |-> "copy"]))
     \/ (TailStep /\ Log([ev |-> "tail"]))
Spec == Init /\ [][Next]_vars
TargetEqualsSourceWhenDone == phase = "done" => tgt = src
View == <<src, tgt, phase, IF hist = <<>> THEN <<>> ELSE hist[Len(hist)]>>
MCView == <<src, tgt, phase>>
EmitDone == phase # "done" \/ PrintT(<<"W", ToJson(hist)>>)
=============================================================================
