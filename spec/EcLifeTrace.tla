----------------------------- MODULE EcLifeTrace -----------------------------
(* Judge for driver cec: every read, in every phase, answers as the blob store does. *)
EXTENDS TraceKit
VARIABLES live, phase, complete
vars == <<live, phase, complete>>
tvars == <<vars, kitvars>>
Keys == {1, 2, 3}
None == "none"
Empty == [k \in Keys |-> None]
TraceInit == live = Empty /\ phase = "vol" /\ complete = TRUE /\ KitInit
TraceReset == IsReset /\ live' = Empty /\ phase' = "vol" /\ complete' = TRUE
TraceSkip == SkipStep /\ UNCHANGED vars
TWrite == /\ IsEvent("write") /\ Strict /\ phase = "vol"
          /\ live' = IF Ev.res = "ok" THEN [live EXCEPT ![Ev.k] = Ev.d] ELSE live
          /\ UNCHANGED <<phase, complete>>
(* a delete that reports success removes the blob, in both phases *)
TDelete == /\ IsEvent("delete") /\ Strict
           /\ live' = IF Ev.res = "ok" THEN [live EXCEPT ![Ev.k] = None] ELSE live
           /\ UNCHANGED <<phase, complete>>
(* phase changes must succeed and are invisible *)
TEncode == IsEvent("encode") /\ Strict /\ Ev.res = "ok" /\ phase = "vol" /\ phase' = "ec" /\ UNCHANGED <<live, complete>>
TLose == IsEvent("lose") /\ Strict /\ Ev.res = "ok" /\ phase = "ec" /\ complete' = FALSE /\ UNCHANGED <<live, phase>>
TRebuild == IsEvent("rebuild") /\ Strict /\ Ev.res = "ok" /\ phase = "ec" /\ complete' = TRUE /\ UNCHANGED <<live, phase>>
TDecode == IsEvent("decode") /\ Strict /\ Ev.res = "ok" /\ phase = "ec" /\ complete /\ phase' = "vol" /\ UNCHANGED <<live, complete>>
TRead == /\ IsEvent("read") /\ Strict
         /\ IF live[Ev.k] = None THEN Ev.st # "data"
            ELSE IF complete THEN Ev.st = "data" /\ Ev.d = live[Ev.k]
            ELSE (Ev.st = "data" => Ev.d = live[Ev.k])     \* shards missing: may fail, never wrong bytes
         /\ UNCHANGED vars
TraceNext == TraceReset \/ TraceSkip \/ TWrite \/ TDelete \/ TEncode \/ TLose \/ TRebuild \/ TDecode \/ TRead
TraceSpec == TraceInit /\ [][TraceNext]_tvars
=============================================================================
