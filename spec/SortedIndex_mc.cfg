SPECIFICATION Spec
INVARIANT TypeOK
INVARIANT JournalSound
INVARIANT RebuildGivesLiveSet
PROPERTY ExactlyThat
PROPERTY Monotone
CHECK_DEADLOCK FALSE
