SPECIFICATION Spec
INVARIANT NeverShorter
INVARIANT ChosenCovers
INVARIANT ArrivedCover
INVARIANT AssignContract
INVARIANT SomeTtl
INVARIANT Emit
CHECK_DEADLOCK FALSE
