---------------------------- MODULE NeedleLayout ----------------------------
(* C02 - the on-disk record of a blob ("needle"), versions 1, 2 and 3.

   The record layout IS this definition (bytes are 0..255, numbers big-endian):

     header   cookie[4] id[8] Size[4]
     body     v1: data
              v2/v3, data non-empty:
                 DataSize[4] data flags[1]
                 [NameSize[1] name]      if flags has 0x02
                 [MimeSize[1] mime]      if flags has 0x04
                 [LastModified[5]]       if flags has 0x08
                 [Ttl count, unit]       if flags has 0x10
                 [PairsSize[2] pairs]    if flags has 0x20
              v2/v3, data empty: nothing (Size = 0)
     tail     checksum[4]  (+ append timestamp[8] in v3)
     padding  1..8 bytes so that the record length is a multiple of 8
     Size     = length of the body

   A volume file is a start offset (the super block) followed by records; a scan
   from the start offset visits every record in order.  The checksum is an
   uninterpreted function of the data bytes that detects every alteration
   confined to a burst of at most 32 bits (CRC-32 guarantee): a record whose
   data bytes were altered within such a burst must be reported as an error by
   every later read.

   TLC model-checks the arithmetic laws over the boundary grid (LayoutLaws), the
   decode-of-encode and scan laws over small files (FileLaws), generates small
   histories (put / alter / get / scan) and judges what the real code did
   (NeedleLayoutTrace.tla).  The model also shows that the format cannot
   represent metadata of an empty blob (RoundTripIffRepresentable): the named
   deviation C02-empty-data-drops-meta.

   How a blob ENTERS a record (bottom part, "upload request -> blob"): an upload
   is an HTTP request - POST with one multipart part or PUT with a raw body; the
   path ends in <key hex><cookie, 8 hex>[_<delta>][.<ext>]; ts (seconds), ttl
   (<count><unit>) and cm in the query; Seaweed-<name> headers are the pairs;
   Content-Type / Content-Encoding of the part (POST) or of the request (PUT).
   ReqRel(q, nd, pm) relates a request to the needle built from it, field by
   field, and says nothing where the statement is silent (names and mimes of 256
   bytes and more, pairs whose JSON text reaches 64 KiB, ts beyond 5 bytes,
   cm on a PUT, a mime the name's extension implies).  ReqLaws is model-checked
   over ReqU (every request that differs from a base request in at most two
   dimensions): the relation is satisfiable (the ideal needle of a request is
   related to it), tight (a needle that differs from the ideal one in a
   determined field is not), inside the domain of the statement, and the ideal
   needle round-trips through the layout exactly when it is representable.  The
   same TLC run emits every element of ReqU as a script line (EmitReq). *)
EXTENDS Integers, Sequences, FiniteSets, TLC, Json
CONSTANTS MaxOps, Level
VARIABLES ver, start, file, recs, hist
vars == <<ver, start, file, recs, hist>>

(* ------------------------------------------------------------ layout *)
Bit(f, m) == (f \div m) % 2 = 1
HasName(f) == Bit(f, 2)
HasMime(f) == Bit(f, 4)
HasLm(f) == Bit(f, 8)
HasTtl(f) == Bit(f, 16)
HasPairs(f) == Bit(f, 32)
U16(n) == <<n \div 256, n % 256>>
U32(n) == <<n \div 16777216, (n \div 65536) % 256, (n \div 256) % 256, n % 256>>
U32Val(b) == ((b[1] * 256 + b[2]) * 256 + b[3]) * 256 + b[4]      \* only for values below 2^31
HeaderSize == 16
TailSize(v) == IF v = 3 THEN 12 ELSE 4
(* Size header field from the version, the flags and the field lengths *)
SizeOf(v, f, dn, nn, mn, pn) ==
  IF v = 1 THEN dn
  ELSE IF dn = 0 THEN 0
  ELSE 4 + dn + 1 + (IF HasName(f) THEN 1 + nn ELSE 0) + (IF HasMime(f) THEN 1 + mn ELSE 0)
       + (IF HasLm(f) THEN 5 ELSE 0) + (IF HasTtl(f) THEN 2 ELSE 0) + (IF HasPairs(f) THEN 2 + pn ELSE 0)
Pad(size, v) == 8 - ((HeaderSize + size + TailSize(v)) % 8)
RecLen(size, v) == HeaderSize + size + TailSize(v) + Pad(size, v)
DataOffset(v) == IF v = 1 THEN HeaderSize ELSE HeaderSize + 4       \* of the first data byte inside the record

(* a blob with explicit bytes: [cookie, id, flags, data, name, mime, lm, ttl, pairs, ts] *)
SizeOfBlob(b, v) == SizeOf(v, b.flags, Len(b.data), Len(b.name), Len(b.mime), Len(b.pairs))
Body(b, v) ==
  IF v = 1 THEN b.data
  ELSE IF b.data = <<>> THEN <<>>
  ELSE U32(Len(b.data)) \o b.data \o <<b.flags>>
       \o (IF HasName(b.flags) THEN <<Len(b.name)>> \o b.name ELSE <<>>)
       \o (IF HasMime(b.flags) THEN <<Len(b.mime)>> \o b.mime ELSE <<>>)
       \o (IF HasLm(b.flags) THEN b.lm ELSE <<>>)
       \o (IF HasTtl(b.flags) THEN b.ttl ELSE <<>>)
       \o (IF HasPairs(b.flags) THEN U16(Len(b.pairs)) \o b.pairs ELSE <<>>)
Header(b, size) == b.cookie \o b.id \o U32(size)
(* what a raw record must look like; checksum and padding bytes are not interpreted *)
MatchRaw(raw, b, v) ==
  LET size == SizeOfBlob(b, v) IN
  /\ Len(raw) = RecLen(size, v)
  /\ SubSeq(raw, 1, HeaderSize + size) = Header(b, size) \o Body(b, v)
  /\ (v = 3 => SubSeq(raw, HeaderSize + size + 5, HeaderSize + size + 12) = b.ts)

(* ------------------------------------------------------------ decoding (for the laws) *)
RECURSIVE Rep(_, _)
Rep(x, n) == IF n <= 0 THEN <<>> ELSE <<x>> \o Rep(x, n - 1)
Crc(d) == <<99, Len(d) % 256, IF d = <<>> THEN 0 ELSE d[1], IF d = <<>> THEN 0 ELSE d[Len(d)]>>   \* stand-in, never compared
Encode(b, v) ==
  LET size == SizeOfBlob(b, v) IN
  Header(b, size) \o Body(b, v) \o Crc(b.data) \o (IF v = 3 THEN b.ts ELSE <<>>) \o Rep(0, Pad(size, v))
(* the part of a blob that a version can represent *)
Stored(b, v) ==
  IF v = 1 THEN [cookie |-> b.cookie, id |-> b.id, data |-> b.data]
  ELSE [cookie |-> b.cookie, id |-> b.id, data |-> b.data, flags |-> b.flags,
        name |-> IF HasName(b.flags) THEN b.name ELSE <<>>, mime |-> IF HasMime(b.flags) THEN b.mime ELSE <<>>,
        lm |-> IF HasLm(b.flags) THEN b.lm ELSE <<>>, ttl |-> IF HasTtl(b.flags) THEN b.ttl ELSE <<>>,
        pairs |-> IF HasPairs(b.flags) THEN b.pairs ELSE <<>>] @@ (IF v = 3 THEN [ts |-> b.ts] ELSE <<>>)
Decode(raw, v) ==
  LET size == U32Val(SubSeq(raw, 13, 16))
      body == SubSeq(raw, 17, 16 + size)
      hd == [cookie |-> SubSeq(raw, 1, 4), id |-> SubSeq(raw, 5, 12)]
      ts == IF v = 3 THEN [ts |-> SubSeq(raw, 16 + size + 5, 16 + size + 12)] ELSE <<>>
  IN IF v = 1 THEN hd @@ [data |-> body]
     ELSE IF size = 0 THEN hd @@ ts @@ [data |-> <<>>, flags |-> 0, name |-> <<>>, mime |-> <<>>, lm |-> <<>>, ttl |-> <<>>, pairs |-> <<>>]
     ELSE LET dn == U32Val(SubSeq(body, 1, 4))
              f == body[5 + dn]
              p1 == 6 + dn
              nn == IF HasName(f) THEN body[p1] ELSE 0
              p2 == IF HasName(f) THEN p1 + 1 + nn ELSE p1
              mn == IF HasMime(f) THEN body[p2] ELSE 0
              p3 == IF HasMime(f) THEN p2 + 1 + mn ELSE p2
              p4 == IF HasLm(f) THEN p3 + 5 ELSE p3
              p5 == IF HasTtl(f) THEN p4 + 2 ELSE p4
              pn == IF HasPairs(f) THEN body[p5] * 256 + body[p5 + 1] ELSE 0
          IN hd @@ ts @@
             [data |-> SubSeq(body, 5, 4 + dn), flags |-> f,
              name |-> IF HasName(f) THEN SubSeq(body, p1 + 1, p1 + nn) ELSE <<>>,
              mime |-> IF HasMime(f) THEN SubSeq(body, p2 + 1, p2 + mn) ELSE <<>>,
              lm |-> IF HasLm(f) THEN SubSeq(body, p3, p3 + 4) ELSE <<>>,
              ttl |-> IF HasTtl(f) THEN SubSeq(body, p4, p4 + 1) ELSE <<>>,
              pairs |-> IF HasPairs(f) THEN SubSeq(body, p5 + 2, p5 + 1 + pn) ELSE <<>>]
(* scan: the records found from offset p (0-based) to the end of the file *)
RECURSIVE ScanFrom(_, _, _)
ScanFrom(f, p, v) ==
  IF p + HeaderSize > Len(f) THEN <<>>
  ELSE LET size == U32Val(SubSeq(f, p + 13, p + 16))
           n == RecLen(size, v)
       IN <<[off |-> p, blob |-> Decode(SubSeq(f, p + 1, p + n), v)]>> \o ScanFrom(f, p + n, v)

Representable(b, v) == v = 1 \/ b.data # <<>> \/ b.flags = 0

(* ------------------------------------------------------------ laws over the boundary grid *)
GridLens == IF Level = 1 THEN {0, 1, 8, 255} ELSE {0, 1, 7, 8, 9, 254, 255}
GridData == IF Level = 1 THEN {0, 1, 8, 9} ELSE {0, 1, 7, 8, 9, 4095, 4096, 65536}
GridPairs == IF Level = 1 THEN {0, 65535} ELSE {0, 1, 9, 65534, 65535}
LayoutLaws(g) ==
  LET size == SizeOf(g.v, g.f, g.dn, g.nn, g.mn, g.pn)
      n == RecLen(size, g.v) IN
  /\ Pad(size, g.v) \in 1..8
  /\ n % 8 = 0
  /\ n - (HeaderSize + size + TailSize(g.v)) \in 1..8
  /\ (g.dn > 0 /\ g.v # 1 => size >= g.dn + 5)
  /\ (g.dn = 0 => size = 0)
  /\ DataOffset(g.v) + g.dn <= HeaderSize + size \/ g.dn = 0

(* ------------------------------------------------------------ small files: model, generator *)
Fill(x, n) == [i \in 1..n |-> (x + i) % 256]
Blob(f, dn, nn, mn, pn, k) ==
  [cookie |-> <<1, 2, 3, k>>, id |-> <<0, 0, 0, 0, 0, 0, k, 9>>, flags |-> f, data |-> Fill(208, dn), name |-> Fill(160, nn),
   mime |-> Fill(176, mn), lm |-> <<1, 2, 3, 4, 5>>, ttl |-> <<3, 2>>, pairs |-> Fill(192, pn), ts |-> <<0, 1, 2, 3, 4, 5, 6, k>>]
GatingFlags == {a + b + c + d + e : a \in {0, 2}, b \in {0, 4}, c \in {0, 8}, d \in {0, 16}, e \in {0, 32}}
LawBlobs == {Blob(f + x, dn, nn, mn, pn, 1) : f \in GatingFlags, x \in (IF Level = 1 THEN {0} ELSE {0, 193}),
                                            dn \in (IF Level = 1 THEN {0, 1, 8} ELSE {0, 1, 3, 8}), nn \in {0, 1, 3},
                                            mn \in {0, 2}, pn \in {0, 1}}
GenBlobs == {Blob(0, 0, 0, 0, 0, 1), Blob(2, 0, 1, 0, 0, 2), Blob(0, 1, 0, 0, 0, 3), Blob(62, 3, 2, 1, 2, 4), Blob(129, 8, 0, 0, 0, 5)}
          \cup (IF Level = 1 THEN {} ELSE {Blob(6, 4, 3, 3, 0, 6), Blob(56, 12, 0, 0, 1, 7)})

(* ------------------------------------------------------------ upload request -> blob *)
(* A request q: [method, fid = [key, ck, delta, ext] (code points), data = [n, h], name = [n, h, b],
   ct = [n, h, b], pairs = sequence of [name (code points), v = [n, h]], ts = [has, v (8 bytes)],
   ttl = [has, c, u (code point of the unit)], ce, cm].  A needle nd: [cookie, id, flags, data, name,
   mime, pairs = [n, h], lm (8 bytes), ttl = <<count, unit>>]; pm = [ok, m]: the needle's pairs decoded
   as a JSON object, m = sequence of [name, v = [n, h]].  h is a content token (judge) or the bytes
   themselves (model); contents are equal iff (n, h) are. *)
Front(s) == SubSeq(s, 1, Len(s) - 1)
RECURSIVE StripLeading(_, _)
StripLeading(s, x) == IF s # <<>> /\ s[1] = x THEN StripLeading(Tail(s), x) ELSE s
RECURSIVE NumVal(_)
NumVal(s) == IF s = <<>> THEN 0 ELSE NumVal(Front(s)) * 10 + (s[Len(s)] - 48)   \* decimal digits, Len(s) <= 4
HexVal(c) == IF c \in 48..57 THEN c - 48 ELSE IF c \in 97..102 THEN c - 87 ELSE IF c \in 65..70 THEN c - 55 ELSE -1
RECURSIVE UnHex(_)     \* even number of hex characters -> bytes
UnHex(cs) == IF cs = <<>> THEN <<>> ELSE <<HexVal(cs[1]) * 16 + HexVal(cs[2])>> \o UnHex(SubSeq(cs, 3, Len(cs)))
RECURSIVE AddC(_, _)   \* big-endian bytes + small number
AddC(bs, c) == IF bs = <<>> THEN <<>> ELSE LET x == bs[Len(bs)] + c IN AddC(Front(bs), x \div 256) \o <<x % 256>>
RECURSIVE Carry(_, _)
Carry(bs, c) == IF bs = <<>> THEN c ELSE Carry(Front(bs), (bs[Len(bs)] + c) \div 256)

Same(x, y) == x.n = y.n /\ x.h = y.h
(* a field guarded by a flag bit holds `want` (an empty field may also simply be absent) *)
FieldIs(has, fld, want) == IF want.n = 0 THEN ~has \/ fld.n = 0 ELSE has /\ Same(fld, want)
NoField == [n |-> 0]

DataOk(q, nd) == Same(nd.data, q.data)
(* the file name of the multipart part; a raw body has none; 256 bytes and more: statement silent *)
WantName(q) == IF q.method = "POST" THEN q.name ELSE NoField
NameOk(q, nd) == WantName(q).n > 255 \/ FieldIs(HasName(nd.flags), nd.name, WantName(q))
(* the content type.  It may be left out where a reader can do without it: the default type, a chunk
   manifest (its own reader), a name whose extension may imply it (all extensions except made-up ones
   that no mime table knows) *)
OctetStream == <<97,112,112,108,105,99,97,116,105,111,110,47,111,99,116,101,116,45,115,116,114,101,97,109>>
LastDot(s) == IF \E i \in 1..Len(s) : s[i] = 46 THEN CHOOSE i \in 1..Len(s) : s[i] = 46 /\ \A j \in (i + 1)..Len(s) : s[j] # 46 ELSE 0
ExtOf(s) == IF LastDot(s) > 1 THEN SubSeq(s, LastDot(s), Len(s)) ELSE <<>>
UnknownExts == {<<46, 113, 55, 122, 120>>}             \* ".q7zx"
MimeOpen(q) == \/ q.ct.n = 0 \/ q.ct.b = OctetStream
               \/ q.method = "POST" /\ (q.cm \/ (ExtOf(q.name.b) # <<>> /\ ExtOf(q.name.b) \notin UnknownExts))
MimeOk(q, nd) == \/ q.ct.n > 255
                 \/ FieldIs(HasMime(nd.flags), nd.mime, q.ct)
                 \/ MimeOpen(q) /\ FieldIs(HasMime(nd.flags), nd.mime, NoField)
(* the Seaweed-* headers: stored as a JSON object name -> value as long as its text stays below 64 KiB *)
RECURSIVE SumPairs(_, _)
SumPairs(ps, k) == IF k = 0 THEN 0 ELSE SumPairs(ps, k - 1) + Len(ps[k].name) + ps[k].v.n + 5
JsonLen(ps) == IF ps = <<>> THEN 0 ELSE 1 + Len(ps) + SumPairs(ps, Len(ps))     \* {"name":"value",...}
PairSet(ps) == {[name |-> ps[k].name, n |-> ps[k].v.n, h |-> ps[k].v.h] : k \in 1..Len(ps)}
PairsOk(q, nd, pm) ==
  IF q.pairs = <<>> THEN ~HasPairs(nd.flags) \/ nd.pairs.n = 0
  ELSE \/ JsonLen(q.pairs) > 65535
       \/ /\ HasPairs(nd.flags) /\ nd.pairs.n \in 1..65535 /\ pm.ok
          /\ Len(pm.m) = Len(q.pairs) /\ PairSet(pm.m) = PairSet(q.pairs)
(* ts = seconds; absent or 0: the time of the upload (not judged); beyond 5 bytes: statement silent *)
TsUsable(q) == q.ts.has /\ q.ts.v # Rep(0, 8) /\ SubSeq(q.ts.v, 1, 3) = <<0, 0, 0>>
LmOk(q, nd) == TsUsable(q) => (HasLm(nd.flags) /\ nd.lm = q.ts.v)
UnitOfChar(c) == CASE c = 109 -> 1 [] c = 104 -> 2 [] c = 100 -> 3 [] c = 119 -> 4 [] c = 77 -> 5 [] c = 121 -> 6 [] OTHER -> 0
TtlValid(q) == q.ttl.c \in 0..255 /\ UnitOfChar(q.ttl.u) # 0
TtlOk(q, nd) ==
  LET eff == IF HasTtl(nd.flags) THEN nd.ttl ELSE <<0, 0>> IN
  IF q.ttl.has /\ q.ttl.c > 0 THEN TtlValid(q) => eff = <<q.ttl.c, UnitOfChar(q.ttl.u)>>
  ELSE eff[1] = 0                                                  \* no ttl, or a count of 0: none
CompressedOk(q, nd) == Bit(nd.flags, 1) = (q.ce = "gzip")          \* declared gzip, nothing else
ManifestOk(q, nd) == IF q.method = "POST" THEN Bit(nd.flags, 128) = q.cm ELSE (~q.cm => ~Bit(nd.flags, 128))
(* the file id in the path: key + delta, cookie; deltas of more than 4 significant digits and sums beyond 2^64 open *)
KeyBytes(f) == UnHex(Rep(48, 16 - Len(f.key)) \o f.key)
DeltaSig(f) == StripLeading(f.delta, 48)
FidDetermined(f) == Len(DeltaSig(f)) <= 4 /\ Carry(KeyBytes(f), NumVal(DeltaSig(f))) = 0
FidOk(q, nd) == /\ nd.cookie = UnHex(q.fid.ck)
                /\ FidDetermined(q.fid) => nd.id = AddC(KeyBytes(q.fid), NumVal(DeltaSig(q.fid)))
ReqRel(q, nd, pm) == /\ DataOk(q, nd) /\ NameOk(q, nd) /\ MimeOk(q, nd) /\ PairsOk(q, nd, pm) /\ LmOk(q, nd) /\ TtlOk(q, nd)
                     /\ CompressedOk(q, nd) /\ ManifestOk(q, nd) /\ FidOk(q, nd)

(* --- the requests of the model: explicit bytes, h = the bytes --- *)
Fld(s) == [n |-> Len(s), h |-> s, b |-> s]
Fl(s) == [n |-> Len(s), h |-> s]
RECURSIVE JoinPairs(_, _)
JoinPairs(ps, k) ==      \* "name":"value" entries joined by commas
  IF k > Len(ps) THEN <<>>
  ELSE (IF k > 1 THEN <<44>> ELSE <<>>) \o <<34>> \o ps[k].name \o <<34, 58, 34>> \o ps[k].v.h \o <<34>> \o JoinPairs(ps, k + 1)
JsonOf(ps) == IF ps = <<>> THEN <<>> ELSE <<123>> \o JoinPairs(ps, 1) \o <<125>>
IsPost(q) == q.method = "POST"
(* the needle an upload is meant to become (one choice where ReqRel leaves a choice) *)
IdealName(q) == IF IsPost(q) /\ q.name.n <= 255 THEN q.name.b ELSE <<>>
IdealMime(q) == IF q.ct.n <= 255 /\ q.ct.b # OctetStream /\ ~(IsPost(q) /\ q.cm) THEN q.ct.b ELSE <<>>
IdealFlags(q) ==
    (IF q.ce = "gzip" THEN 1 ELSE 0) + (IF IdealName(q) # <<>> THEN 2 ELSE 0) + (IF IdealMime(q) # <<>> THEN 4 ELSE 0) + 8
  + (IF q.ttl.has /\ q.ttl.c > 0 THEN 16 ELSE 0) + (IF q.pairs # <<>> THEN 32 ELSE 0) + (IF IsPost(q) /\ q.cm THEN 128 ELSE 0)
IdealBlob(q) ==
  [cookie |-> UnHex(q.fid.ck), id |-> AddC(KeyBytes(q.fid), NumVal(DeltaSig(q.fid))), flags |-> IdealFlags(q),
   data |-> q.data.h, name |-> IdealName(q), mime |-> IdealMime(q),
   lm |-> IF TsUsable(q) THEN SubSeq(q.ts.v, 4, 8) ELSE <<0, 96, 0, 0, 1>>,
   ttl |-> IF q.ttl.has /\ q.ttl.c > 0 THEN <<q.ttl.c, UnitOfChar(q.ttl.u)>> ELSE <<0, 0>>,
   pairs |-> JsonOf(q.pairs), ts |-> <<0, 1, 2, 3, 4, 5, 6, 7>>]
NeedleOf(b) == [cookie |-> b.cookie, id |-> b.id, flags |-> b.flags, data |-> Fl(b.data), name |-> Fl(b.name), mime |-> Fl(b.mime),
                pairs |-> Fl(b.pairs), lm |-> <<0, 0, 0>> \o b.lm, ttl |-> b.ttl]

F1 == [key |-> <<48, 49>>, ck |-> <<100, 101, 97, 100, 98, 101, 101, 102>>, delta |-> <<>>, ext |-> <<>>]
ReqBase == [method |-> "POST", fid |-> F1, data |-> Fl(Fill(208, 3)), name |-> Fld(<<97>>), ct |-> Fld(<<116, 47, 112>>),
            pairs |-> <<>>, ts |-> [has |-> FALSE, v |-> Rep(0, 8)], ttl |-> [has |-> FALSE, c |-> 0, u |-> 109], ce |-> "", cm |-> FALSE]
P1 == [name |-> <<65, 98>>, v |-> Fl(<<118, 49>>)]
P2 == [name |-> <<88, 45, 89, 50>>, v |-> Fl(<<>>)]
ReqVals ==
  [method |-> {"POST", "PUT"},
   fid |-> {F1, [F1 EXCEPT !.key = <<49>>, !.delta = <<50>>, !.ext = <<106, 112, 103>>],
            [F1 EXCEPT !.key = <<65, 98>>, !.delta = <<57, 57, 57, 57>>],
            [F1 EXCEPT !.key = Rep(48, 13) \o <<49, 102, 102>>, !.delta = <<48, 48, 49>>, !.ck = <<48, 48, 48, 48, 48, 48, 48, 49>>]}
           \cup (IF Level = 1 THEN {} ELSE {[F1 EXCEPT !.key = Rep(102, 15) \o <<101>>, !.delta = <<49>>, !.ext = <<122>>],
                                            [F1 EXCEPT !.ext = <<106, 112, 103>>]}),
   data |-> {Fl(<<>>), Fl(Fill(208, 1)), Fl(Fill(208, 3)), Fl(Fill(208, 9))},
   name |-> {Fld(<<>>), Fld(<<97>>), Fld(<<97, 46, 116, 120, 116>>), Fld(<<98, 46, 113, 55, 122, 120>>), Fld(<<46, 104>>),
             Fld(Rep(110, 255)), Fld(Rep(110, 256))} \cup (IF Level = 1 THEN {} ELSE {Fld(Rep(110, 254)), Fld(Rep(110, 250) \o <<46, 113, 55, 122, 120>>)}),
   ct |-> {Fld(<<>>), Fld(<<116, 47, 112>>), Fld(OctetStream), Fld(<<120, 47>> \o Rep(99, 253)), Fld(<<120, 47>> \o Rep(99, 254))},
   pairs |-> {<<>>, <<P1>>, <<P1, P2>>},
   ts |-> {[has |-> FALSE, v |-> Rep(0, 8)], [has |-> TRUE, v |-> Rep(0, 8)], [has |-> TRUE, v |-> <<0, 0, 0, 0, 0, 1, 2, 3>>],
           [has |-> TRUE, v |-> <<0, 0, 0>> \o Rep(255, 5)], [has |-> TRUE, v |-> <<0, 0, 1, 0, 0, 0, 0, 0>>]},
   ttl |-> {[has |-> FALSE, c |-> 0, u |-> 109], [has |-> TRUE, c |-> 0, u |-> 109], [has |-> TRUE, c |-> 3, u |-> 109],
            [has |-> TRUE, c |-> 255, u |-> 121]} \cup (IF Level = 1 THEN {} ELSE {[has |-> TRUE, c |-> 1, u |-> u] : u \in {104, 100, 119, 77}}),
   ce |-> {"", "gzip", "br"} \cup (IF Level = 1 THEN {} ELSE {"identity", "deflate"}),
   cm |-> {FALSE, TRUE}]
ReqDims == DOMAIN ReqVals
(* every request that differs from the base request in at most two dimensions *)
ReqU == {[[ReqBase EXCEPT ![p[1]] = p[2]] EXCEPT ![p[3]] = p[4]] :
           p \in UNION {{<<d1, v1, d2, v2>> : v1 \in ReqVals[d1], v2 \in ReqVals[d2]} : d1 \in ReqDims, d2 \in ReqDims}}

(* a needle that differs from the ideal one in a field the request determines is not related to the request *)
Tight(q) ==
  LET b == IdealBlob(q)
      nd == NeedleOf(b)
      pm == [ok |-> TRUE, m |-> q.pairs]
      no(x) == ~ReqRel(q, x, pm)
  IN /\ no([nd EXCEPT !.data = Fl(b.data \o <<0>>)])
     /\ no([nd EXCEPT !.flags = IF Bit(@, 1) THEN @ - 1 ELSE @ + 1])
     /\ no([nd EXCEPT !.cookie = AddC(@, 1)])
     /\ (FidDetermined(q.fid) => no([nd EXCEPT !.id = AddC(@, 1)]))
     /\ (IsPost(q) \/ ~q.cm => no([nd EXCEPT !.flags = IF Bit(@, 128) THEN @ - 128 ELSE @ + 128]))
     /\ (IsPost(q) /\ q.name.n <= 255 => no([nd EXCEPT !.name = Fl(b.name \o <<120>>), !.flags = IF Bit(@, 2) THEN @ ELSE @ + 2]))
     /\ (q.ct.n <= 255 => no([nd EXCEPT !.mime = Fl(b.mime \o <<120>>), !.flags = IF Bit(@, 4) THEN @ ELSE @ + 4]))
     /\ (q.ct.n \in 1..255 /\ ~MimeOpen(q) => no([nd EXCEPT !.flags = IF Bit(@, 4) THEN @ - 4 ELSE @]))
     /\ (TsUsable(q) => no([nd EXCEPT !.lm = AddC(@, 1)]))
     /\ (q.ttl.has /\ q.ttl.c > 0 => no([nd EXCEPT !.flags = @ - 16]) /\ no([nd EXCEPT !.ttl = <<@[1], (@[2] % 6) + 1>>]))
     /\ (~(q.ttl.has /\ q.ttl.c > 0) => no([nd EXCEPT !.flags = @ + 16, !.ttl = <<3, 1>>]))
     /\ (q.pairs # <<>> => /\ no([nd EXCEPT !.flags = @ - 32])
                           /\ ~ReqRel(q, nd, [ok |-> TRUE, m |-> Tail(q.pairs)])
                           /\ ~ReqRel(q, nd, [ok |-> FALSE, m |-> <<>>]))
ReqLaws(q) ==
  LET b == IdealBlob(q) IN
  /\ ReqRel(q, NeedleOf(b), [ok |-> TRUE, m |-> q.pairs])                        \* satisfiable
  /\ Len(b.name) <= 255 /\ Len(b.mime) <= 255 /\ Len(b.pairs) <= 65535          \* inside the statement's domain
  /\ Len(b.pairs) = JsonLen(q.pairs)
  /\ Tight(q)
  /\ \A v \in {2, 3} : /\ MatchRaw(Encode(b, v), b, v)
                       /\ (Decode(Encode(b, v), v) = Stored(b, v)) = Representable(b, v)
(* script form of a model request: long fields as [n, fill] *)
Wire(x) == IF x.n > 24 /\ x.h = Rep(x.h[1], x.n) THEN [n |-> x.n, fill |-> x.h[1]] ELSE [b |-> x.h]
ReqOp(q) == [ev |-> "req", method |-> q.method, fid |-> q.fid, data |-> Wire(q.data), name |-> Wire(q.name), ct |-> Wire(q.ct),
             pairs |-> [k \in 1..Len(q.pairs) |-> [name |-> q.pairs[k].name, v |-> Wire(q.pairs[k].v)]],
             ts |-> q.ts, ttl |-> q.ttl, ce |-> q.ce, cm |-> q.cm, ats |-> <<0, 1, 2, 3, 4, 5, 6, 7>>]

FileInit == ver \in {1, 2, 3} /\ start \in (IF Level = 1 THEN {8} ELSE {0, 8}) /\ file = Rep(0, start) /\ recs = <<>> /\ hist = <<>>
(* one more initial state per request of ReqU: nothing happens there, the laws of the request are checked and it is emitted *)
ReqInit == ver = 3 /\ start = 8 /\ file = Rep(0, 8) /\ recs = <<>> /\ hist \in {<<[ev |-> "reqq", q |-> q]>> : q \in ReqU}
IsReqState == hist # <<>> /\ hist[1].ev = "reqq"
Init == FileInit \/ ReqInit
Log(op) == hist' = Append(hist, op)
PutOp(b) == [ev |-> "put", cookie |-> b.cookie, id |-> b.id, flags |-> b.flags, data |-> [b |-> b.data], name |-> [b |-> b.name],
             mime |-> [b |-> b.mime], lm |-> b.lm, ttl |-> b.ttl, pairs |-> [b |-> b.pairs], ts |-> b.ts]
Put(b) == /\ file' = file \o Encode(b, ver)
          /\ recs' = Append(recs, [off |-> Len(file), blob |-> b])
          /\ UNCHANGED <<ver, start>>
GenNext ==
  /\ Len(hist) < MaxOps /\ ~IsReqState
  /\ \/ \E b \in GenBlobs : Put(b) /\ Log(PutOp(b))
     \/ \E i \in 1..Len(recs) : UNCHANGED <<ver, start, file, recs>> /\ Log([ev |-> "get", i |-> i])
     \/ \E i \in 1..Len(recs), m \in {1, 128} : \E pos \in {0, Len(recs[i].blob.data) - 1} :
          /\ pos >= 0
          /\ UNCHANGED <<ver, start, file, recs>> /\ Log([ev |-> "alter", i |-> i, pos |-> pos, mask |-> m])
     \/ recs # <<>> /\ UNCHANGED <<ver, start, file, recs>> /\ Log([ev |-> "scan", body |-> TRUE])
Spec == Init /\ [][GenNext]_vars

(* decode(encode) and scan laws on every reachable small file *)
FileLaws ==
  /\ Len(file) % 8 = 0
  /\ \A i \in 1..Len(recs) : recs[i].off % 8 = 0
  /\ LET sc == ScanFrom(file, start, ver) IN
     /\ Len(sc) = Len(recs)
     /\ \A i \in 1..Len(recs) :
          /\ sc[i].off = recs[i].off
          /\ (Representable(recs[i].blob, ver) => sc[i].blob = Stored(recs[i].blob, ver))
(* one record at a time over the larger blob family: the format round-trips exactly the representable blobs *)
RoundTripIffRepresentable ==
  \A b \in LawBlobs : \A v \in {1, 2, 3} :
    /\ MatchRaw(Encode(b, v), b, v)
    /\ (Decode(Encode(b, v), v) = Stored(b, v)) = Representable(b, v)
GridLawsHold == \A v \in {1, 2, 3}, f \in 0..255, dn \in GridData, nn \in GridLens, mn \in GridLens, pn \in GridPairs :
                  LayoutLaws([v |-> v, f |-> f, dn |-> dn, nn |-> nn, mn |-> mn, pn |-> pn])
(* the two laws above are constant formulas: evaluated in one initial state only *)
LawsOnce == (hist # <<>> \/ ver # 3 \/ start # 8) \/ (GridLawsHold /\ RoundTripIffRepresentable)
Emit == Len(hist) < MaxOps \/ PrintT(<<"W", ToJson([ver |-> ver, start |-> start, ops |-> hist])>>)
ReqLawsHold == IsReqState => ReqLaws(hist[1].q)
EmitReq == ~IsReqState \/ PrintT(<<"W", ToJson([ver |-> 0, start |-> 8, ops |-> <<ReqOp(hist[1].q)>>])>>)
=============================================================================
