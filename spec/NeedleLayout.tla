---------------------------- MODULE NeedleLayout ----------------------------
(* C02 - the on-disk record of a blob ("needle"), versions 1, 2 and 3.

   The record layout IS this definition (bytes are 0..255, numbers big-endian):

     header   cookie[4] id[8] Size[4]
     body     v1: data
              v2/v3, data non-empty:
                 DataSize[4] data flags[1]
                 [NameSize[1] name]      if flags has 0x02
                 [MimeSize[1] mime]      if flags has 0x04
                 [LastModified[5]]       if flags has 0x08
                 [Ttl count, unit]       if flags has 0x10
                 [PairsSize[2] pairs]    if flags has 0x20
              v2/v3, data empty: nothing (Size = 0)
     tail     checksum[4]  (+ append timestamp[8] in v3)
     padding  1..8 bytes so that the record length is a multiple of 8
     Size     = length of the body

   A volume file is a start offset (the super block) followed by records; a scan
   from the start offset visits every record in order.  The checksum is an
   uninterpreted function of the data bytes that detects every alteration
   confined to a burst of at most 32 bits (CRC-32 guarantee): a record whose
   data bytes were altered within such a burst must be reported as an error by
   every later read.

   TLC model-checks the arithmetic laws over the boundary grid (LayoutLaws), the
   decode-of-encode and scan laws over small files (FileLaws), generates small
   histories (put / alter / get / scan) and judges what the real code did
   (NeedleLayoutTrace.tla).  The model also shows that the format cannot
   represent metadata of an empty blob (RoundTripIffRepresentable): the named
   deviation C02-empty-data-drops-meta. *)
EXTENDS Integers, Sequences, FiniteSets, TLC, Json
CONSTANTS MaxOps, Level
VARIABLES ver, start, file, recs, hist
vars == <<ver, start, file, recs, hist>>

(* ------------------------------------------------------------ layout *)
Bit(f, m) == (f \div m) % 2 = 1
HasName(f) == Bit(f, 2)
HasMime(f) == Bit(f, 4)
HasLm(f) == Bit(f, 8)
HasTtl(f) == Bit(f, 16)
HasPairs(f) == Bit(f, 32)
U16(n) == <<n \div 256, n % 256>>
U32(n) == <<n \div 16777216, (n \div 65536) % 256, (n \div 256) % 256, n % 256>>
U32Val(b) == ((b[1] * 256 + b[2]) * 256 + b[3]) * 256 + b[4]      \* only for values below 2^31
HeaderSize == 16
TailSize(v) == IF v = 3 THEN 12 ELSE 4
(* Size header field from the version, the flags and the field lengths *)
SizeOf(v, f, dn, nn, mn, pn) ==
  IF v = 1 THEN dn
  ELSE IF dn = 0 THEN 0
  ELSE 4 + dn + 1 + (IF HasName(f) THEN 1 + nn ELSE 0) + (IF HasMime(f) THEN 1 + mn ELSE 0)
       + (IF HasLm(f) THEN 5 ELSE 0) + (IF HasTtl(f) THEN 2 ELSE 0) + (IF HasPairs(f) THEN 2 + pn ELSE 0)
Pad(size, v) == 8 - ((HeaderSize + size + TailSize(v)) % 8)
RecLen(size, v) == HeaderSize + size + TailSize(v) + Pad(size, v)
DataOffset(v) == IF v = 1 THEN HeaderSize ELSE HeaderSize + 4       \* of the first data byte inside the record

(* a blob with explicit bytes: [cookie, id, flags, data, name, mime, lm, ttl, pairs, ts] *)
SizeOfBlob(b, v) == SizeOf(v, b.flags, Len(b.data), Len(b.name), Len(b.mime), Len(b.pairs))
Body(b, v) ==
  IF v = 1 THEN b.data
  ELSE IF b.data = <<>> THEN <<>>
  ELSE U32(Len(b.data)) \o b.data \o <<b.flags>>
       \o (IF HasName(b.flags) THEN <<Len(b.name)>> \o b.name ELSE <<>>)
       \o (IF HasMime(b.flags) THEN <<Len(b.mime)>> \o b.mime ELSE <<>>)
       \o (IF HasLm(b.flags) THEN b.lm ELSE <<>>)
       \o (IF HasTtl(b.flags) THEN b.ttl ELSE <<>>)
       \o (IF HasPairs(b.flags) THEN U16(Len(b.pairs)) \o b.pairs ELSE <<>>)
Header(b, size) == b.cookie \o b.id \o U32(size)
(* what a raw record must look like; checksum and padding bytes are not interpreted *)
MatchRaw(raw, b, v) ==
  LET size == SizeOfBlob(b, v) IN
  /\ Len(raw) = RecLen(size, v)
  /\ SubSeq(raw, 1, HeaderSize + size) = Header(b, size) \o Body(b, v)
  /\ (v = 3 => SubSeq(raw, HeaderSize + size + 5, HeaderSize + size + 12) = b.ts)

(* ------------------------------------------------------------ decoding (for the laws) *)
RECURSIVE Rep(_, _)
Rep(x, n) == IF n <= 0 THEN <<>> ELSE <<x>> \o Rep(x, n - 1)
Crc(d) == <<99, Len(d) % 256, IF d = <<>> THEN 0 ELSE d[1], IF d = <<>> THEN 0 ELSE d[Len(d)]>>   \* stand-in, never compared
Encode(b, v) ==
  LET size == SizeOfBlob(b, v) IN
  Header(b, size) \o Body(b, v) \o Crc(b.data) \o (IF v = 3 THEN b.ts ELSE <<>>) \o Rep(0, Pad(size, v))
(* the part of a blob that a version can represent *)
Stored(b, v) ==
  IF v = 1 THEN [cookie |-> b.cookie, id |-> b.id, data |-> b.data]
  ELSE [cookie |-> b.cookie, id |-> b.id, data |-> b.data, flags |-> b.flags,
        name |-> IF HasName(b.flags) THEN b.name ELSE <<>>, mime |-> IF HasMime(b.flags) THEN b.mime ELSE <<>>,
        lm |-> IF HasLm(b.flags) THEN b.lm ELSE <<>>, ttl |-> IF HasTtl(b.flags) THEN b.ttl ELSE <<>>,
        pairs |-> IF HasPairs(b.flags) THEN b.pairs ELSE <<>>] @@ (IF v = 3 THEN [ts |-> b.ts] ELSE <<>>)
Decode(raw, v) ==
  LET size == U32Val(SubSeq(raw, 13, 16))
      body == SubSeq(raw, 17, 16 + size)
      hd == [cookie |-> SubSeq(raw, 1, 4), id |-> SubSeq(raw, 5, 12)]
      ts == IF v = 3 THEN [ts |-> SubSeq(raw, 16 + size + 5, 16 + size + 12)] ELSE <<>>
  IN IF v = 1 THEN hd @@ [data |-> body]
     ELSE IF size = 0 THEN hd @@ ts @@ [data |-> <<>>, flags |-> 0, name |-> <<>>, mime |-> <<>>, lm |-> <<>>, ttl |-> <<>>, pairs |-> <<>>]
     ELSE LET dn == U32Val(SubSeq(body, 1, 4))
              f == body[5 + dn]
              p1 == 6 + dn
              nn == IF HasName(f) THEN body[p1] ELSE 0
              p2 == IF HasName(f) THEN p1 + 1 + nn ELSE p1
              mn == IF HasMime(f) THEN body[p2] ELSE 0
              p3 == IF HasMime(f) THEN p2 + 1 + mn ELSE p2
              p4 == IF HasLm(f) THEN p3 + 5 ELSE p3
              p5 == IF HasTtl(f) THEN p4 + 2 ELSE p4
              pn == IF HasPairs(f) THEN body[p5] * 256 + body[p5 + 1] ELSE 0
          IN hd @@ ts @@
             [data |-> SubSeq(body, 5, 4 + dn), flags |-> f,
              name |-> IF HasName(f) THEN SubSeq(body, p1 + 1, p1 + nn) ELSE <<>>,
              mime |-> IF HasMime(f) THEN SubSeq(body, p2 + 1, p2 + mn) ELSE <<>>,
              lm |-> IF HasLm(f) THEN SubSeq(body, p3, p3 + 4) ELSE <<>>,
              ttl |-> IF HasTtl(f) THEN SubSeq(body, p4, p4 + 1) ELSE <<>>,
              pairs |-> IF HasPairs(f) THEN SubSeq(body, p5 + 2, p5 + 1 + pn) ELSE <<>>]
(* scan: the records found from offset p (0-based) to the end of the file *)
RECURSIVE ScanFrom(_, _, _)
ScanFrom(f, p, v) ==
  IF p + HeaderSize > Len(f) THEN <<>>
  ELSE LET size == U32Val(SubSeq(f, p + 13, p + 16))
           n == RecLen(size, v)
       IN <<[off |-> p, blob |-> Decode(SubSeq(f, p + 1, p + n), v)]>> \o ScanFrom(f, p + n, v)

Representable(b, v) == v = 1 \/ b.data # <<>> \/ b.flags = 0

(* ------------------------------------------------------------ laws over the boundary grid *)
GridLens == IF Level = 1 THEN {0, 1, 8, 255} ELSE {0, 1, 7, 8, 9, 254, 255}
GridData == IF Level = 1 THEN {0, 1, 8, 9} ELSE {0, 1, 7, 8, 9, 4095, 4096, 65536}
GridPairs == IF Level = 1 THEN {0, 65535} ELSE {0, 1, 9, 65534, 65535}
LayoutLaws(g) ==
  LET size == SizeOf(g.v, g.f, g.dn, g.nn, g.mn, g.pn)
      n == RecLen(size, g.v) IN
  /\ Pad(size, g.v) \in 1..8
  /\ n % 8 = 0
  /\ n - (HeaderSize + size + TailSize(g.v)) \in 1..8
  /\ (g.dn > 0 /\ g.v # 1 => size >= g.dn + 5)
  /\ (g.dn = 0 => size = 0)
  /\ DataOffset(g.v) + g.dn <= HeaderSize + size \/ g.dn = 0

(* ------------------------------------------------------------ small files: model, generator *)
Fill(x, n) == [i \in 1..n |-> (x + i) % 256]
Blob(f, dn, nn, mn, pn, k) ==
  [cookie |-> <<1, 2, 3, k>>, id |-> <<0, 0, 0, 0, 0, 0, k, 9>>, flags |-> f, data |-> Fill(208, dn), name |-> Fill(160, nn),
   mime |-> Fill(176, mn), lm |-> <<1, 2, 3, 4, 5>>, ttl |-> <<3, 2>>, pairs |-> Fill(192, pn), ts |-> <<0, 1, 2, 3, 4, 5, 6, k>>]
GatingFlags == {a + b + c + d + e : a \in {0, 2}, b \in {0, 4}, c \in {0, 8}, d \in {0, 16}, e \in {0, 32}}
LawBlobs == {Blob(f + x, dn, nn, mn, pn, 1) : f \in GatingFlags, x \in (IF Level = 1 THEN {0} ELSE {0, 193}),
                                            dn \in (IF Level = 1 THEN {0, 1, 8} ELSE {0, 1, 3, 8}), nn \in {0, 1, 3},
                                            mn \in {0, 2}, pn \in {0, 1}}
GenBlobs == {Blob(0, 0, 0, 0, 0, 1), Blob(2, 0, 1, 0, 0, 2), Blob(0, 1, 0, 0, 0, 3), Blob(62, 3, 2, 1, 2, 4), Blob(129, 8, 0, 0, 0, 5)}
          \cup (IF Level = 1 THEN {} ELSE {Blob(6, 4, 3, 3, 0, 6), Blob(56, 12, 0, 0, 1, 7)})

Init == ver \in {1, 2, 3} /\ start \in (IF Level = 1 THEN {8} ELSE {0, 8}) /\ file = Rep(0, start) /\ recs = <<>> /\ hist = <<>>
Log(op) == hist' = Append(hist, op)
PutOp(b) == [ev |-> "put", cookie |-> b.cookie, id |-> b.id, flags |-> b.flags, data |-> [b |-> b.data], name |-> [b |-> b.name],
             mime |-> [b |-> b.mime], lm |-> b.lm, ttl |-> b.ttl, pairs |-> [b |-> b.pairs], ts |-> b.ts]
Put(b) == /\ file' = file \o Encode(b, ver)
          /\ recs' = Append(recs, [off |-> Len(file), blob |-> b])
          /\ UNCHANGED <<ver, start>>
GenNext ==
  /\ Len(hist) < MaxOps
  /\ \/ \E b \in GenBlobs : Put(b) /\ Log(PutOp(b))
     \/ \E i \in 1..Len(recs) : UNCHANGED <<ver, start, file, recs>> /\ Log([ev |-> "get", i |-> i])
     \/ \E i \in 1..Len(recs), m \in {1, 128} : \E pos \in {0, Len(recs[i].blob.data) - 1} :
          /\ pos >= 0
          /\ UNCHANGED <<ver, start, file, recs>> /\ Log([ev |-> "alter", i |-> i, pos |-> pos, mask |-> m])
     \/ recs # <<>> /\ UNCHANGED <<ver, start, file, recs>> /\ Log([ev |-> "scan", body |-> TRUE])
Spec == Init /\ [][GenNext]_vars

(* decode(encode) and scan laws on every reachable small file *)
FileLaws ==
  /\ Len(file) % 8 = 0
  /\ \A i \in 1..Len(recs) : recs[i].off % 8 = 0
  /\ LET sc == ScanFrom(file, start, ver) IN
     /\ Len(sc) = Len(recs)
     /\ \A i \in 1..Len(recs) :
          /\ sc[i].off = recs[i].off
          /\ (Representable(recs[i].blob, ver) => sc[i].blob = Stored(recs[i].blob, ver))
(* one record at a time over the larger blob family: the format round-trips exactly the representable blobs *)
RoundTripIffRepresentable ==
  \A b \in LawBlobs : \A v \in {1, 2, 3} :
    /\ MatchRaw(Encode(b, v), b, v)
    /\ (Decode(Encode(b, v), v) = Stored(b, v)) = Representable(b, v)
GridLawsHold == \A v \in {1, 2, 3}, f \in 0..255, dn \in GridData, nn \in GridLens, mn \in GridLens, pn \in GridPairs :
                  LayoutLaws([v |-> v, f |-> f, dn |-> dn, nn |-> nn, mn |-> mn, pn |-> pn])
(* the two laws above are constant formulas: evaluated in one initial state only *)
LawsOnce == (hist # <<>> \/ ver # 3 \/ start # 8) \/ (GridLawsHold /\ RoundTripIffRepresentable)
Emit == Len(hist) < MaxOps \/ PrintT(<<"W", ToJson([ver |-> ver, start |-> start, ops |-> hist])>>)
=============================================================================
