---------------------------- MODULE PlanCheck ----------------------------
(* C15 / C16 - plans of the shell planners (volume.balance, volumeServer.evacuate,
   volume.fix.replication, ec.balance) judged step by step against a cluster
   snapshot.

   A snapshot: servers (data center, rack, max volume count per disk type; -1 =
   the server has no disk of that type), normal volume replicas (volume id,
   server, disk type) with the volume's replication setting xyz, and ec shards
   (volume id, shard id, server).  A plan is a sequence of steps; every step is
   applied to the snapshot and must be allowed in the state reached so far:

   move / copy of a normal volume v to server t (C15):
     nodup  t holds no replica of v                       (never two replicas on one server)
     cap    t has a free volume slot of the disk type     (max - volumes of that type on t > 0)
     sat    if v's replica set satisfied xyz before the step it satisfies it afterwards
     rep    (copy only) the copy satisfies xyz: if the replica set was compatible with xyz
            (extendable to a satisfying set) it still is after the copy
   delete of a replica: sat.
   move of ec shard (v, i) from f to t (C16):
     held   f holds the shard
     nodup  t does not hold shard (v, i)
     slot   t has a free shard slot: (max - volumes) * DataShards - shards on t > 0  (hdd disk)
     rack   if the shard changes rack, v's shard count on the target rack does not
            exceed ceil(TotalShards / number of racks) afterwards (>= 2 racks)
   final (C16): every shard of the snapshot is still present, at most as often as in
            the snapshot, in the planner's bookkeeping AND in the snapshot with the
            planned moves applied; no shard appears that was not there.

   Satisfies(xyz, L): x+y+z+1 replicas on distinct servers; one main data center and
   x other data centers with one replica each; in the main data center one main
   rack with z+1 replicas and y other racks with one replica each.

   The same module is the generator (build phase: TLC enumerates / samples small
   snapshots) and is model-checked (plan phase: every allowed step sequence keeps
   the design invariants; the code's own move/copy criteria - IsGoodMoveImpl,
   SatisfyImpl, transcribed from weed/shell - are compared with the property-level
   predicates).  Each clause can be waived by name: the trace specification uses
   that for named known-finding deviations only. *)
EXTENDS Integers, Sequences, FiniteSets, TLC, Json
CONSTANTS Servers,      \* generator topology: sequence of [id, dc, rack, ssd (BOOLEAN: has an ssd disk)]
          RPs,          \* replication settings <<x, y, z>> used by the generator / theorems
          MaxVols,      \* generator: number of normal volumes
          MaxEc,        \* generator: number of ec volumes
          MaxDup,       \* generator: number of duplicated ec shards
          Slacks,       \* generator: free volume slots left on a disk
          MaxSteps,     \* model checking: length of the explored plans (0 = generator only)
          TotalShards, DataShards
VARIABLES srv,    \* server id -> [dc, rack, hdd, ssd]
          vol,    \* volume id -> <<x, y, z>>
          rep,    \* set of [vid, srv, dt]
          ec,     \* set of [vid, sh, srv]   (snapshot with the planned moves applied)
          ec0,    \* ec of the snapshot
          rep0,   \* rep of the snapshot
          mode,   \* which planner produced the plan ("balance", "evacuate", "fix", "ecbalance", ..)
          phase, steps, hist
vars == <<srv, vol, rep, ec, ec0, rep0, mode, phase, steps, hist>>

DTs == {"hdd", "ssd"}
Card(S) == Cardinality(S)
CeilDiv(a, b) == (a + b - 1) \div b
MaxOf(a, b) == IF a > b THEN a ELSE b

(* ------------------------------ topology ------------------------------ *)
Ids == DOMAIN srv
DcOf(s) == srv[s].dc
RackOf(s) == <<srv[s].dc, srv[s].rack>>          \* a rack is identified within its data center
MaxVol(s, dt) == LET m == IF dt = "hdd" THEN srv[s].hdd ELSE srv[s].ssd IN IF m < 0 THEN 0 ELSE m
OnDisk(R, s, dt) == {r \in R : r.srv = s /\ r.dt = dt}
Free(R, s, dt) == MaxVol(s, dt) - Card(OnDisk(R, s, dt))
Racks == {RackOf(s) : s \in Ids}

(* ------------------------------ placement ------------------------------ *)
Copies(rp) == rp[1] + rp[2] + rp[3] + 1
DCs(L) == {DcOf(s) : s \in L}
InDc(L, d) == {s \in L : DcOf(s) = d}
RacksOf(L) == {RackOf(s) : s \in L}
InRack(L, k) == {s \in L : RackOf(s) = k}

Satisfies(rp, L) ==
  /\ Card(L) = Copies(rp)
  /\ Card(DCs(L)) = rp[1] + 1
  /\ \E d \in DCs(L) :
       /\ \A e \in DCs(L) \ {d} : Card(InDc(L, e)) = 1
       /\ LET M == InDc(L, d) IN
          /\ Card(RacksOf(M)) = rp[2] + 1
          /\ \E k \in RacksOf(M) :
               /\ \A j \in RacksOf(M) \ {k} : Card(InRack(M, j)) = 1
               /\ Card(InRack(M, k)) = rp[3] + 1

(* L can still be extended to a satisfying replica set (in some topology) *)
Compatible(rp, L) ==
  \/ L = {}
  \/ \E d \in DCs(L) :
       /\ Card(DCs(L) \ {d}) <= rp[1]
       /\ \A e \in DCs(L) \ {d} : Card(InDc(L, e)) = 1
       /\ LET M == InDc(L, d) IN
          \E k \in RacksOf(M) :
            /\ Card(RacksOf(M) \ {k}) <= rp[2]
            /\ \A j \in RacksOf(M) \ {k} : Card(InRack(M, j)) = 1
            /\ Card(InRack(M, k)) <= rp[3] + 1

Locs(R, v) == {r.srv : r \in {q \in R : q.vid = v}}
RpOf(v) == vol[v]

(* ------------------------------ C15 steps ------------------------------ *)
(* A clause named in `waived` must FAIL (the step is admitted only as that
   deviation); every other clause must hold. *)
Clause(name, waived, holds) == IF name \in waived THEN ~holds ELSE holds

Replica(v, s, dt) == [vid |-> v, srv |-> s, dt |-> dt]

PlaceOK(v, R2, to, dt, waived) ==
  /\ Clause("nodup", waived, to \notin Locs(rep, v))
  /\ Clause("cap", waived, Free(rep, to, dt) > 0)
  /\ Clause("sat", waived, Satisfies(RpOf(v), Locs(rep, v)) => Satisfies(RpOf(v), Locs(R2, v)))

Move(v, from, to, dt, waived) ==
  /\ to \in Ids /\ v \in DOMAIN vol
  /\ Replica(v, from, dt) \in rep
  /\ LET R2 == (rep \ {Replica(v, from, dt)}) \cup {Replica(v, to, dt)} IN
     /\ PlaceOK(v, R2, to, dt, waived)
     /\ rep' = R2
  /\ UNCHANGED <<srv, vol, ec, ec0, rep0, mode>>

Copy(v, from, to, waived) ==
  /\ to \in Ids /\ v \in DOMAIN vol
  /\ \E dt \in DTs :
       /\ Replica(v, from, dt) \in rep
       /\ LET R2 == rep \cup {Replica(v, to, dt)} IN
          /\ PlaceOK(v, R2, to, dt, waived)
          /\ Clause("rep", waived, Compatible(RpOf(v), Locs(rep, v)) => Compatible(RpOf(v), Locs(R2, v)))
          /\ rep' = R2
  /\ UNCHANGED <<srv, vol, ec, ec0, rep0, mode>>

Delete(v, from, waived) ==
  /\ v \in DOMAIN vol
  /\ \E dt \in DTs :
       /\ Replica(v, from, dt) \in rep
       /\ LET R2 == rep \ {Replica(v, from, dt)} IN
          /\ Clause("sat", waived, Satisfies(RpOf(v), Locs(rep, v)) => Satisfies(RpOf(v), Locs(R2, v)))
          /\ rep' = R2
  /\ UNCHANGED <<srv, vol, ec, ec0, rep0, mode>>

(* ------------------------------ C16 steps ------------------------------ *)
Shard(v, i, s) == [vid |-> v, sh |-> i, srv |-> s]
ShardsOn(E, s) == {e \in E : e.srv = s}
EcFree(E, s) == (MaxVol(s, "hdd") - Card(OnDisk(rep, s, "hdd"))) * DataShards - Card(ShardsOn(E, s))
RackCnt(E, v, k) == Card({e \in E : e.vid = v /\ RackOf(e.srv) = k})
Target == CeilDiv(TotalShards, Card(Racks))
Copies16(E, v, i) == Card({e \in E : e.vid = v /\ e.sh = i})
Keys(E) == {<<e.vid, e.sh>> : e \in E}

EcMove(v, i, from, to, waived) ==
  /\ to \in Ids /\ from \in Ids
  /\ Clause("held", waived, Shard(v, i, from) \in ec)
  /\ Clause("nodup", waived, Shard(v, i, to) \notin ec)
  /\ Clause("slot", waived, EcFree(ec, to) > 0)
  /\ LET E2 == (ec \ {Shard(v, i, from)}) \cup {Shard(v, i, to)} IN
     /\ Clause("rack", waived,
               (RackOf(from) # RackOf(to) /\ Card(Racks) >= 2) => RackCnt(E2, v, RackOf(to)) <= Target)
     /\ ec' = E2
  /\ UNCHANGED <<srv, vol, rep, ec0, rep0, mode>>

(* E = a shard layout (planner bookkeeping, or the snapshot with the moves applied) *)
Preserved(E) ==
  /\ \A k \in Keys(ec0) : Copies16(E, k[1], k[2]) >= 1 /\ Copies16(E, k[1], k[2]) <= Copies16(ec0, k[1], k[2])
  /\ Keys(E) \subseteq Keys(ec0)

(* ------------- the code's own criteria (transcribed; layer B) ------------- *)
(* weed/shell/command_volume_balance.go isGoodMove *)
IsGoodMoveImpl(rp, L, src, tgt) ==
  LET L2 == (L \ {src}) \cup {tgt} IN
  /\ tgt \notin L
  /\ Card(DCs(L2)) = rp[1] + 1
  /\ Card(RacksOf(L2)) = rp[2] + rp[1] + 1
  /\ \A k \in RacksOf(L2) : Card(InRack(L2, k)) = rp[3] + 1

(* weed/shell/command_volume_fix_replication.go satisfyReplicaPlacement *)
TopKeys(S, cnt(_)) == {k \in S : \A j \in S : cnt(j) <= cnt(k)}
SatisfyImpl(rp, L, c) ==
  IF c \in L THEN FALSE
  ELSE IF DcOf(c) \notin DCs(L) THEN Card(DCs(L)) < rp[1] + 1
  ELSE LET cntDc(d) == Card(InDc(L, d))
           M == InDc(L, DcOf(c))
           cntRack(k) == Card(InRack(M, k)) IN
       IF DcOf(c) \notin TopKeys(DCs(L), cntDc) THEN FALSE
       ELSE IF RackOf(c) \notin RacksOf(M) THEN Card(RacksOf(M)) < rp[2] + 1
       ELSE IF RackOf(c) \notin TopKeys(RacksOf(M), cntRack) THEN FALSE
       ELSE Card(InRack(M, RackOf(c))) < rp[3] + 1

SmallSets == {L \in SUBSET Ids : Card(L) <= 4}
(* the theorems are about the topology only: evaluated in the initial state *)
AtStart == phase = "build" /\ hist = <<>> /\ steps = 0
(* the placement predicates fit together *)
ThmCompat == AtStart => \A rp \in RPs : \A L \in SmallSets :
               /\ (Satisfies(rp, L) => \A K \in SUBSET L : Compatible(rp, K))
               /\ ((Compatible(rp, L) /\ Card(L) = Copies(rp)) => Satisfies(rp, L))
               /\ (Card(L) > Copies(rp) => ~Compatible(rp, L))
(* the balancer's move criterion implies the property's clauses nodup and sat - for the settings where
   its rack arithmetic is sound (x = 0 or y <= 1); ThmGoodMoveAll (all settings) is FALSE: with
   x >= 1, y >= 2 a replica of the main data center may move to a new rack of another data center
   (known finding C15-rack-split, reproduced on the real planner) *)
GoodMoveClaim(rp) == \A L \in SmallSets : \A src \in L : \A tgt \in Ids :
               IsGoodMoveImpl(rp, L, src, tgt) =>
                  (tgt \notin L /\ (Satisfies(rp, L) => Satisfies(rp, (L \ {src}) \cup {tgt})))
ThmGoodMove == AtStart => \A rp \in {r \in RPs : r[1] = 0 \/ r[2] <= 1} : GoodMoveClaim(rp)
ThmGoodMoveAll == AtStart => \A rp \in RPs : GoodMoveClaim(rp)
(* the repair criterion implies the property's clauses nodup and rep *)
ThmSatisfyImpl == AtStart => \A rp \in RPs : \A L \in SmallSets : \A c \in Ids :
               (L # {} /\ Card(L) < Copies(rp) /\ SatisfyImpl(rp, L, c)) =>
                  (c \notin L /\ (Compatible(rp, L) => Compatible(rp, L \cup {c})))

(* ------------------------------ generator ------------------------------ *)
SrvIdx(s) == CHOOSE i \in DOMAIN Servers : Servers[i].id = s
Init ==
  /\ srv = [s \in {Servers[i].id : i \in DOMAIN Servers} |->
              [dc |-> Servers[SrvIdx(s)].dc, rack |-> Servers[SrvIdx(s)].rack,
               hdd |-> 0, ssd |-> IF Servers[SrvIdx(s)].ssd THEN 0 ELSE -1]]
  /\ vol = <<>> /\ rep = {} /\ ec = {} /\ ec0 = {} /\ rep0 = {}
  /\ mode = "gen" /\ phase = "build" /\ steps = 0 /\ hist = <<>>

Log(op) == hist' = Append(hist, op)
HasDisk(dt) == {s \in Ids : IF dt = "hdd" THEN srv[s].hdd >= 0 ELSE srv[s].ssd >= 0}
Sizes(rp) == {n \in {Copies(rp) - 1, Copies(rp), Copies(rp) + 1} : n >= 1}

AddVol ==
  /\ phase = "build" /\ Card(DOMAIN vol) < MaxVols
  /\ \E rp \in RPs, dt \in DTs, ro \in BOOLEAN :
     \E L \in SUBSET HasDisk(dt) :
       /\ Card(L) \in Sizes(rp)
       /\ LET n == Card(DOMAIN vol) + 1 IN
          /\ vol' = [v \in DOMAIN vol \cup {n} |-> IF v = n THEN rp ELSE vol[v]]
          /\ rep' = rep \cup {Replica(n, s, dt) : s \in L}
          /\ Log([op |-> "vol", vid |-> n, rp |-> rp, on |-> L, dt |-> dt, ro |-> ro])
  /\ UNCHANGED <<srv, ec, ec0, rep0, mode, phase, steps>>

(* ec volumes are numbered 101, 102, ..; shards are placed one per step in order *)
EcPut ==
  /\ phase = "build" /\ Card(DOMAIN vol) = MaxVols
  /\ steps < MaxEc * TotalShards
  /\ \E s \in HasDisk("hdd") :
       LET v == 101 + (steps \div TotalShards)
           i == steps % TotalShards IN
       /\ ec' = ec \cup {Shard(v, i, s)}
       /\ Log([op |-> "ec", vid |-> v, sh |-> i, srv |-> s])
  /\ steps' = steps + 1
  /\ UNCHANGED <<srv, vol, rep, ec0, rep0, mode, phase>>
EcDup ==
  /\ phase = "build" /\ steps >= MaxEc * TotalShards /\ steps < MaxEc * TotalShards + MaxDup
  /\ \E e \in ec : \E s \in HasDisk("hdd") :
       /\ Shard(e.vid, e.sh, s) \notin ec
       /\ ec' = ec \cup {Shard(e.vid, e.sh, s)}
       /\ Log([op |-> "ec", vid |-> e.vid, sh |-> e.sh, srv |-> s])
  /\ steps' = steps + 1
  /\ UNCHANGED <<srv, vol, rep, ec0, rep0, mode, phase>>

Seal ==
  /\ phase = "build" /\ Card(DOMAIN vol) = MaxVols /\ steps >= MaxEc * TotalShards
  /\ phase' = "cap" /\ steps' = 0
  /\ UNCHANGED <<srv, vol, rep, ec, ec0, rep0, mode, hist>>

(* capacities, server by server: max = what is there + a chosen slack *)
Cap ==
  /\ phase = "cap" /\ steps < Len(Servers)
  /\ \E k \in Slacks :
       LET s == Servers[steps + 1].id
           h == Card(OnDisk(rep, s, "hdd")) + CeilDiv(Card(ShardsOn(ec, s)), DataShards) + k
           d == IF srv[s].ssd < 0 THEN -1 ELSE Card(OnDisk(rep, s, "ssd")) + k IN
       /\ srv' = [srv EXCEPT ![s].hdd = h, ![s].ssd = d]
       /\ Log([op |-> "cap", srv |-> s, hdd |-> h, ssd |-> d])
  /\ steps' = steps + 1
  /\ IF steps + 1 = Len(Servers)
       THEN phase' = "plan" /\ ec0' = ec /\ rep0' = rep
       ELSE UNCHANGED <<phase, ec0, rep0>>
  /\ UNCHANGED <<vol, rep, ec, mode>>

(* plan phase (model checking): every step the property allows *)
PlanStep ==
  /\ phase = "plan" /\ steps < Len(Servers) + MaxSteps
  /\ steps' = steps + 1
  /\ UNCHANGED <<phase, hist>>
  /\ \/ ec = {} /\ \E v \in DOMAIN vol, f \in Ids, t \in Ids, dt \in DTs : Move(v, f, t, dt, {})
     \/ ec = {} /\ \E v \in DOMAIN vol, f \in Ids, t \in Ids : Copy(v, f, t, {})
     \/ ec = {} /\ \E v \in DOMAIN vol, f \in Ids : Delete(v, f, {})
     \/ \E e \in ec, t \in Ids : EcMove(e.vid, e.sh, e.srv, t, {})

GenNext == AddVol \/ EcPut \/ EcDup \/ Seal \/ Cap \/ PlanStep
Spec == Init /\ [][GenNext]_vars

(* ------------------- design-level invariants of plans ------------------- *)
NoDup == \A v \in DOMAIN vol : \A s \in Ids : Card({r \in rep : r.vid = v /\ r.srv = s}) <= 1
CapInv == phase = "plan" => \A s \in Ids : \A dt \in DTs : Free(rep, s, dt) >= 0
SatKept == [][(phase = "plan" /\ phase' = "plan") =>
               \A v \in DOMAIN vol : Satisfies(RpOf(v), Locs(rep, v)) => Satisfies(RpOf(v), Locs(rep', v))]_vars
(* a volume is never copied beyond its copy count once it is compatible, and stays compatible *)
RepairKept == [][(phase = "plan" /\ phase' = "plan") =>
               \A v \in DOMAIN vol : (Card(Locs(rep', v)) > Card(Locs(rep, v)) /\ Compatible(RpOf(v), Locs(rep, v)))
                                       => (Compatible(RpOf(v), Locs(rep', v)) /\ Card(Locs(rep', v)) <= Copies(RpOf(v)))]_vars
EcPreserved == phase = "plan" => (Preserved(ec) /\ \A k \in Keys(ec0) : Copies16(ec, k[1], k[2]) = Copies16(ec0, k[1], k[2]))
EcSlotInv == phase = "plan" => \A s \in Ids : EcFree(ec, s) >= 0
EcRackBound == phase = "plan" => \A v \in {e.vid : e \in ec} : \A k \in Racks :
                 RackCnt(ec, v, k) <= MaxOf(RackCnt(ec0, v, k), IF Card(Racks) >= 2 THEN Target ELSE TotalShards)

(* model-checking runs do not distinguish snapshots by the way they were built *)
MCView == <<srv, vol, rep, ec, ec0, rep0, mode, phase, steps>>
Emit == phase # "plan" \/ steps > Len(Servers) \/ PrintT(<<"W", ToJson(hist)>>)
=============================================================================
