---------------------------- MODULE FilerNSTrace ----------------------------
(* Judge for C18 / C20 / C21: every event is one gRPC-level operation on the real filer
   with its answer (res), the chunk ids the filer scheduled for deletion during the call
   (gc), a snapshot of the whole subtree taken with recursive ListEntries (snap) and the
   hard-link records found with KvGet (kv).  An event is accepted iff the observed
   (answer, state afterwards, scheduled chunks) is one of the outcomes FilerNS admits. *)
EXTENDS FilerNS, TraceKit
CONSTANT Focus   \* the properties this run gives a verdict on: subset of {"C18", "C20", "C21"}
tvars == <<vars, kitvars>>

(* One specification serves three checks.  The state (tree, link records) always has to be
   explained by an outcome of FilerNS - otherwise the rest of the execution could not be
   followed.  A deviation that belongs to a property outside Focus is admitted without being
   counted (it is that other check's finding); the scheduled chunk ids are judged only when
   C20 is in Focus. *)
FlagProp(f) == IF f \in {D4, D5, D6, D7} THEN "C20" ELSE "C21"
Counted(F) == {f \in F : FlagProp(f) \in Focus}
GcJudged == "C20" \in Focus

SeqSet(s) == {s[i] : i \in DOMAIN s}

(* ---- observations against a state ---- *)
EntryMatches(s, t, lk) ==
  /\ s.p \in DOMAIN t
  /\ s.kind = t[s.p].kind
  /\ s.kind = "f" => /\ SeqSet(s.chunks) = ChunksOf(t, lk, s.p)
                     /\ s.attr = AttrOf(t, lk, s.p)
                     /\ s.link = t[s.p].link
                     /\ s.cnt = CntOf(t, lk, s.p)
(* every snapshot entry carries what ListEntries showed and, under lk, what LookupDirectoryEntry showed *)
SnapOK(snap, t, lk) ==
  /\ Cardinality(DOMAIN snap) = Cardinality(DOMAIN t)
  /\ {snap[i].p : i \in DOMAIN snap} = DOMAIN t
  /\ \A i \in DOMAIN snap :
        /\ EntryMatches(snap[i], t, lk)
        /\ EntryMatches([p |-> snap[i].p, kind |-> snap[i].lk.kind, chunks |-> snap[i].lk.chunks, attr |-> snap[i].lk.attr,
                         link |-> snap[i].lk.link, cnt |-> snap[i].lk.cnt], t, lk)
KvOK(kv, lk) ==
  /\ Cardinality(DOMAIN kv) = Cardinality(DOMAIN lk)
  /\ {kv[i].id : i \in DOMAIN kv} = DOMAIN lk
  /\ \A i \in DOMAIN kv : /\ SeqSet(kv[i].chunks) = lk[kv[i].id].chunks
                          /\ kv[i].attr = lk[kv[i].id].attr
                          /\ kv[i].cnt = lk[kv[i].id].cnt
(* the state a snapshot shows (used where the statements are silent about the outcome) *)
NodeOf(s) == IF s.kind = "d" THEN Dir
             ELSE IF s.link # 0 THEN Linked(s.link) ELSE Plain(SeqSet(s.chunks), s.attr)
SnapTree(snap) == [p \in {snap[i].p : i \in DOMAIN snap} |-> NodeOf(snap[CHOOSE i \in DOMAIN snap : snap[i].p = p])]
KvLinks(kv) == [L \in {kv[i].id : i \in DOMAIN kv} |->
                  LET r == kv[CHOOSE i \in DOMAIN kv : kv[i].id = L]
                  IN [chunks |-> SeqSet(r.chunks), attr |-> r.attr, cnt |-> r.cnt]]

G == SeqSet(Ev.gc)

(* one outcome o explains the current event *)
Judge(o, req, tn, drop, hl, hlFlag, lost, nl) ==
  LET eff == o.res = "ok"
      F == Counted(o.F \cup (IF GcJudged THEN GcFlags(G, o.t, o.l, req, tn, IF eff THEN hl ELSE {}, hlFlag) ELSE {}))
  IN /\ o.res = Ev.res
     /\ SnapOK(Ev.snap, o.t, o.l)
     /\ KvOK(Ev.kv, o.l)
     /\ GcJudged => GcExplained(G, o.t, o.l, req, tn, IF eff THEN drop ELSE {}, IF eff THEN lost ELSE {})
     \* C20-collects-chunk-of-rename-copy is as narrow as the defect: a scheduled chunk that is still referenced and is
     \* not the shared record of the operated name itself (hl) must involve a PLAIN entry showing it before or after
     \* (the plain copy a rename made of a linked name); chunks that only hard-link records show are never excused
     /\ GcJudged => (GcOver(G, o.t, o.l, tn) \ (IF eff THEN hl ELSE {})) \subseteq (PlainChunks(tree) \cup PlainChunks(o.t))
     /\ F \subseteq KF /\ used' = used \cup F
     /\ tree' = o.t /\ links' = o.l
     /\ gc' = gc \cup G
     /\ due' = due \cup (IF req THEN Ref(tree, links) \ Ref(o.t, o.l) ELSE {})
     /\ taint' = tn /\ nextLid' = nl
     /\ UNCHANGED <<last, hist>>

TraceInit == Init /\ KitInit
TraceReset == /\ IsReset
              /\ tree' = <<>> /\ links' = <<>> /\ gc' = {} /\ due' = {} /\ taint' = {} /\ nextLid' = 1
              /\ UNCHANGED <<last, hist>>
TraceSkip == SkipStep /\ UNCHANGED vars

TCreate == /\ IsEvent("create")
           /\ LET p == Ev.p
                  e == [kind |-> Ev.kind, chunks |-> SeqSet(Ev.chunks), attr |-> Ev.attr]
              IN \E o \in CreateOuts(p, e) :
                   Judge(o, TRUE, TaintByFresh(p, e.chunks), ShownBy(p) \ e.chunks, SharedWithNames(p) \ e.chunks, D5, {}, nextLid)
TUpdate == /\ IsEvent("update")
           /\ LET p == Ev.p
                  e == [kind |-> Ev.kind, chunks |-> SeqSet(Ev.chunks), attr |-> Ev.attr]
              IN \E o \in UpdateOuts(p, e) :
                   Judge(o, TRUE, TaintByFresh(p, e.chunks), ShownBy(p) \ e.chunks, SharedWithNames(p) \ e.chunks, D5, {}, nextLid)
TWrite == /\ IsEvent("write")
          /\ LET p == Ev.p
                 c == SeqSet(Ev.chunks)
             IN \E o \in WriteOuts(p, c, Ev.attr) :
                  Judge(o, TRUE, TaintBy(p, c), ShownBy(p) \ c, {}, D5, {}, nextLid)
TLink == /\ IsEvent("link")
         /\ LET fresh == IsFile(tree, Ev.o) /\ Ev.n \notin DOMAIN tree /\ tree[Ev.o].link = 0
            IN /\ Ev.lid = (IF fresh THEN nextLid ELSE 0)
               /\ \E o \in LinkOuts(Ev.o, Ev.n, Ev.lid) :
                    Judge(o, FALSE, taint, {}, {}, D5, {}, IF fresh THEN nextLid + 1 ELSE nextLid)
TDelete == /\ IsEvent("delete")
           /\ LET p == Ev.p
                  S == IF p \in DOMAIN tree THEN Under(tree, p) ELSE {}
              IN \E o \in DeleteOuts(p, Ev.rec, Ev.data) :
                   Judge(o, Ev.data, taint, RefOf(tree, links, S), SharedWithNames(p), D4,
                         IF IsDir(tree, p) THEN LinkChunksIn(S) ELSE {}, nextLid)
TRename == /\ IsEvent("rename")
           /\ LET n == Ev.n
                  o == Ev.o
                  src == IF IsFile(tree, o) THEN ChunksOf(tree, links, o) ELSE {}
              IN \E x \in RenameOuts(o, n) :
                   Judge(x, FALSE, taint, ShownBy(n) \ src, SharedWithNames(n) \ src, D5, {}, nextLid)
(* a directory renamed onto an existing directory: the statements say nothing about merging, so
   any answer is admitted and the observed state is adopted - provided the tree is still well
   formed, no path changed its kind, and no referenced chunk was scheduled *)
TRenameMerge == /\ IsEvent("rename") /\ Strict
                /\ IsMerge(Ev.o, Ev.n)
                /\ LET t2 == SnapTree(Ev.snap)
                       l2 == KvLinks(Ev.kv)
                   IN /\ Ev.res \in {"ok", "err"}
                      /\ SnapOK(Ev.snap, t2, l2)
                      /\ WellFormed(t2) /\ KindStable(tree, t2)
                      /\ GcJudged => GcOver(G, t2, l2, taint) = {}
                      /\ tree' = t2 /\ links' = l2 /\ gc' = gc \cup G
                      /\ UNCHANGED <<due, taint, nextLid, last, hist>>
TLookup == /\ IsEvent("lookup") /\ Strict
           /\ Ev.res \in {"ok", "none"}
           /\ LET p == Ev.p
                  got == Ev.got
              IN IF p \in DOMAIN tree
                 THEN /\ Ev.res = "ok"
                      /\ EntryMatches([p |-> p, kind |-> got.kind, chunks |-> got.chunks, attr |-> got.attr,
                                       link |-> got.link, cnt |-> got.cnt], tree, links)
                 ELSE Ev.res = "none" /\ got.kind = "n"
           /\ SnapOK(Ev.snap, tree, links) /\ KvOK(Ev.kv, links)
           /\ GcJudged => GcOver(G, tree, links, taint) = {}
           /\ gc' = gc \cup G
           /\ UNCHANGED <<tree, links, due, taint, nextLid, last, hist>>
TList == /\ IsEvent("list") /\ Strict
         /\ LET p == Ev.p
                kids == {q \in DOMAIN tree : Len(q) = Len(p) + 1 /\ IsPrefix(p, q)}
            IN IF p = <<>> \/ IsDir(tree, p)
               THEN /\ Ev.res = "ok"
                    /\ {p \o <<Ev.got[i]>> : i \in DOMAIN Ev.got} = kids
                    /\ Cardinality(DOMAIN Ev.got) = Cardinality(kids)
               ELSE Cardinality(DOMAIN Ev.got) = 0       \* listing a file or nothing: statements silent on the answer
         /\ SnapOK(Ev.snap, tree, links) /\ KvOK(Ev.kv, links)
         /\ GcJudged => GcOver(G, tree, links, taint) = {}
         /\ gc' = gc \cup G
         /\ UNCHANGED <<tree, links, due, taint, nextLid, last, hist>>

TraceNext == TraceReset \/ TraceSkip \/ TCreate \/ TUpdate \/ TWrite \/ TLink \/ TDelete
             \/ TRename \/ TRenameMerge \/ TLookup \/ TList
TraceSpec == TraceInit /\ [][TraceNext]_tvars
=============================================================================
