SPECIFICATION Spec
INVARIANT ReadsLastWrite
INVARIANT OnlyWritten
PROPERTY Isolation
CHECK_DEADLOCK FALSE
