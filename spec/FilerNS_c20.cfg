SPECIFICATION Spec
INVARIANT TreeWellFormed
INVARIANT GcSafe
INVARIANT GcComplete
INVARIANT RecordIffNames
CHECK_DEADLOCK FALSE
