--------------------------- MODULE BlobStoreTrace ---------------------------
(* Judge for executions recorded from a real volume server (driver cvol):
   C01 (read-your-writes / cookie / read-only), C04 (compaction invisible),
   reload through unmount+mount.  State = the layer-A variables only. *)
EXTENDS BlobStore, TraceKit
VARIABLES live, ro, vttl, dirty   \* dirty: keys appended to since the pending compaction started
vars == <<live, ro, vttl, dirty>>
tvars == <<vars, kitvars>>
AllKeys == {1, 2, 3}

TraceInit == live = [k \in AllKeys |-> None] /\ ro = FALSE /\ vttl = "" /\ dirty = {} /\ KitInit
TraceReset == IsReset /\ live' = [k \in AllKeys |-> None] /\ ro' = FALSE /\ vttl' = Ev.vttl /\ dirty' = {}
TraceSkip == SkipStep /\ UNCHANGED vars

TWrite ==
  /\ IsEvent("write")
  /\ \/ Strict /\ WriteStrict(live, ro, Ev.k, Ev.c, Ev.d, Ev.m, Ev.res, live')
     \/ Deviate("C01-unchanged-keeps-metadata") /\ Ev.unch
        /\ DevWriteUnchanged(live, ro, vttl, Ev.k, Ev.c, Ev.d, Ev.m, Ev.res, live')
  /\ dirty' = IF Ev.res = "ok" /\ ~Ev.unch THEN dirty \cup {Ev.k} ELSE dirty
  /\ UNCHANGED <<ro, vttl>>
TDelete ==
  /\ IsEvent("delete")
  /\ \/ Strict /\ DeleteStrict(live, Ev.k, Ev.c, Ev.res, live')
     \/ Deviate("C01-empty-delete-noop") /\ DevDeleteEmpty(live, Ev.k, Ev.c, Ev.res, live')
  /\ dirty' = IF Ev.res = "ok" THEN dirty \cup {Ev.k} ELSE dirty
  /\ UNCHANGED <<ro, vttl>>
TRead ==
  /\ IsEvent("read")
  /\ \/ Strict /\ ReadObsStrict(live, Ev.k, Ev.c, Ev)
     \/ Deviate("C01-empty-any-cookie") /\ DevReadEmptyObs(live, Ev.k, Ev.c, Ev)
  /\ UNCHANGED vars
TRo == IsEvent("ro") /\ Strict /\ Ev.res = "ok" /\ ro' = Ev.on /\ UNCHANGED <<live, vttl, dirty>>
(* reload (unmount + mount = index replay) is invisible *)
TRestart ==
  /\ IsEvent("restart") /\ Ev.res = "ok"
  /\ \/ Strict /\ live' = live
     \/ Deviate("C01-empty-lost-on-reload") /\ live' = DropEmpties(live)
  /\ UNCHANGED <<ro, vttl, dirty>>
(* compaction: starting one and cleaning up never change anything; a commit is invisible *)
TCompact == IsEvent("compact") /\ Strict /\ dirty' = {} /\ UNCHANGED <<live, ro, vttl>>
TCleanup == IsEvent("cleanup") /\ Strict /\ UNCHANGED vars
TCommit ==
  /\ IsEvent("commit")
  /\ \/ Ev.res = "ok" /\ \E S \in SUBSET {"C04-empty-dropped", "C04-ttl-filter"} :
          /\ DeviateAll(S)
          /\ LET l1 == IF "C04-empty-dropped" \in S THEN DropEmpties(live) ELSE live
             IN live' = IF "C04-ttl-filter" \in S THEN DropTtl(l1, vttl, dirty) ELSE l1
     \/ Ev.res # "ok" /\ Strict /\ live' = live
  /\ UNCHANGED <<ro, vttl, dirty>>

TraceNext == TraceReset \/ TraceSkip \/ TWrite \/ TDelete \/ TRead \/ TRo \/ TRestart \/ TCompact \/ TCleanup \/ TCommit
TraceSpec == TraceInit /\ [][TraceNext]_tvars
=============================================================================
