----------------------------- MODULE CacheImpl -----------------------------
(* C31 layer B - TieredChunkCache as it is built (weed/util/chunk_cache):

   mem        the ccache tier, keyed by the file id STRING, only chunks <= U bytes;
              its asynchronous pruning is over-approximated: every lookup is
              evaluated both with and without the memory entry.
   disk[t]    tier t = 1..3: a sequence of volumes, newest first (2, 3, 2 of them,
              each limited to Limit(t) bytes).  A volume is an append-only data file
              (`size` = bytes used, every record padded to 8) and a needle map
              key -> [d, n]; the key is the NEEDLE KEY of the file id alone
              (KeyOnly = TRUE, the code: chunk_cache.go doSetChunk / doGetChunk pass
              fid.Key) or the whole file id (KeyOnly = FALSE, the idealised repair).
   SetChunk   memory if n <= U; tier by size (<= U, <= 4U, else); when the front
              volume cannot take the record the LAST volume is emptied and becomes
              the front (on_disk_cache_layer.go setChunk).
   GetChunk   memory (minSize <= U), then tier 1 (minSize <= U), tier 2 (<= 4U),
              tier 3; in a tier the first volume that has a non-empty record for the
              key answers; an answer shorter than minSize is passed over.
   Restart    Shutdown + NewTieredChunkCache on the same directory: memory empty, the
              volumes of each tier re-ordered by file modification time (over-
              approximated: any order).

   The layer-A state `stored` is carried as ghost; GetRefines / SliceRefines say that
   whatever the implementation can answer is admitted by layer A (CacheSpec.tla). *)
EXTENDS CacheSpec
CONSTANTS U,        \* unit size in bytes (the code's unitSize)
          D,        \* diskSizeInUnit
          KeyOnly,  \* TRUE: disk tiers keyed by the needle key only (the code)
          Mins,     \* minSize values probed by the invariant
          SliceArgs, \* <<off, len>> pairs probed by the invariant
          BKF       \* deviation ids admitted by the invariants
VARIABLES mem, disk
vars == <<stored, hist, mem, disk>>

None == [d |-> 0, n |-> 0]
Limit(t) == CASE t = 1 -> ((D * U) \div 8) \div 2
              [] t = 2 -> ((D * U) \div 4 + (D * U) \div 8) \div 3
              [] t = 3 -> ((D * U) \div 2) \div 2
NVols(t) == IF t = 2 THEN 3 ELSE 2
EmptyVol == [m |-> <<>>, size |-> 0]
Pad(n) == n + ((8 - (n % 8)) % 8)
KeyOf(fid) == IF KeyOnly THEN fid.k ELSE fid
TierOf(n) == IF n <= U THEN 1 ELSE IF n <= 4 * U THEN 2 ELSE 3

Put(f, k, v) == [x \in DOMAIN f \cup {k} |-> IF x = k THEN v ELSE f[x]]
VolGet(vol, key) == IF key \in DOMAIN vol.m THEN vol.m[key] ELSE None

LayerSet(vols, key, e) ==
  LET rot == IF vols[1].size + e.n > Limit(TierOf(e.n))
             THEN <<EmptyVol>> \o SubSeq(vols, 1, Len(vols) - 1) ELSE vols
  IN [rot EXCEPT ![1] = [m |-> Put(rot[1].m, key, e), size |-> rot[1].size + Pad(e.n)]]

(* first volume, in order, with a non-empty record for the key *)
LayerGet(vols, key) ==
  LET H == {i \in 1..Len(vols) : VolGet(vols[i], key).n # 0} IN
  IF H = {} THEN None ELSE VolGet(vols[CHOOSE i \in H : \A j \in H : i <= j], key)

AsRes(e) == IF e.n = 0 THEN <<>> ELSE Ramp(e.d, e.n)

(* doGetChunk; me = the memory entry used (the real one or None when it has been pruned) *)
ImplGet(fid, min, me) ==
  LET k == KeyOf(fid)
      t1 == LayerGet(disk[1], k)
      t2 == LayerGet(disk[2], k)
      t3 == LayerGet(disk[3], k)
  IN IF min <= U /\ me.n >= min THEN me
     ELSE IF min <= U /\ t1.n >= min THEN t1
     ELSE IF min <= 4 * U /\ t2.n >= min THEN t2
     ELSE IF t3.n >= min THEN t3 ELSE None

(* doGetChunkSlice: every tier cuts [off, off+wanted) with wanted = min(len, n - off) out of the
   record and then demands wanted >= off + len *)
Wanted(e, off, len) == IF len < e.n - off THEN len ELSE e.n - off
LayerSlice(vols, key, off, len) ==
  LET H == {i \in 1..Len(vols) : key \in DOMAIN vols[i].m /\ Wanted(vols[i].m[key], off, len) > 0} IN
  IF H = {} THEN None
  ELSE LET e == vols[CHOOSE i \in H : \A j \in H : i <= j].m[key] IN [d |-> e.d + off, n |-> Wanted(e, off, len)]
ImplSlice(fid, off, len, me) ==
  LET k == KeyOf(fid)
      min == off + len
      ms == IF Wanted(me, off, len) > 0 THEN [d |-> me.d + off, n |-> Wanted(me, off, len)] ELSE None
      t1 == LayerSlice(disk[1], k, off, len)
      t2 == LayerSlice(disk[2], k, off, len)
      t3 == LayerSlice(disk[3], k, off, len)
  IN IF min <= U /\ ms.n >= min THEN ms
     ELSE IF min <= U /\ t1.n >= min THEN t1
     ELSE IF min <= 4 * U /\ t2.n >= min THEN t2
     ELSE IF t3.n >= min THEN t3 ELSE None

MemOpts(fid) == IF fid \in DOMAIN mem THEN {mem[fid], None} ELSE {None}

BInit == /\ Init /\ mem = <<>>
         /\ disk = [t \in 1..3 |-> [i \in 1..NVols(t) |-> EmptyVol]]

BSet(fid, d, n) ==
  LET e == [d |-> d, n |-> n] IN
  /\ Set(fid, d, n)
  /\ mem' = IF n <= U THEN Put(mem, fid, e) ELSE mem
  /\ disk' = [disk EXCEPT ![TierOf(n)] = LayerSet(disk[TierOf(n)], KeyOf(fid), e)]

Perms(s) == {p \in [1..Len(s) -> 1..Len(s)] : \A i, j \in 1..Len(s) : i # j => p[i] # p[j]}
BRestart ==
  /\ Restart
  /\ mem' = <<>>
  /\ \E p1 \in Perms(disk[1]), p2 \in Perms(disk[2]), p3 \in Perms(disk[3]) :
       disk' = <<[i \in 1..2 |-> disk[1][p1[i]]], [i \in 1..3 |-> disk[2][p2[i]]], [i \in 1..2 |-> disk[3][p3[i]]]>>

BNext ==
  /\ Len(hist) < MaxOps
  /\ \/ \E f \in Fids, n \in Sizes : BSet(f, FidNo(f), n) /\ Log([ev |-> "set", fid |-> f, d |-> FidNo(f), n |-> n])
     \/ BRestart /\ Log([ev |-> "restart"])
Spec == BInit /\ [][BNext]_vars

(* ---- refinement of layer A ---- *)
Dev == "C31-disk-key-only" \in BKF
GetRefines ==
  \A f \in Fids, min \in Mins : \A me \in MemOpts(f) :
    LET r == AsRes(ImplGet(f, min, me)) IN GetOk(f, min, r) \/ (Dev /\ GetAliased(f, min, r))
SliceRefines ==
  \A f \in Fids, a \in SliceArgs : \A me \in MemOpts(f) :
    LET r == AsRes(ImplSlice(f, a[1], a[2], me)) IN SliceOk(f, a[1], a[2], r) \/ (Dev /\ SliceAliased(f, a[1], a[2], r))
(* the memory tier alone never aliases: it is keyed by the whole id *)
MemExact == \A f \in DOMAIN mem : [fid |-> f, d |-> mem[f].d, n |-> mem[f].n] \in stored
(* a volume never holds more than its limit plus one record that was written into an empty volume *)
SizesSane == \A t \in 1..3 : \A i \in 1..NVols(t) :
               disk[t][i].size >= 0 /\ (Cardinality(DOMAIN disk[t][i].m) = 0 => disk[t][i].size = 0)
(* a slice at an offset > 0 is never served (doGetChunkSlice compares the length of the SLICE with
   off + len): stated so that a change of this behaviour shows up as a model difference *)
SliceOnlyAtZero ==
  \A f \in Fids, a \in SliceArgs : \A me \in MemOpts(f) : a[1] > 0 => ImplSlice(f, a[1], a[2], me) = None

MCView == <<stored, mem, disk>>
View == <<mem, disk, IF hist = <<>> THEN <<>> ELSE hist[Len(hist)]>>
Emit == Len(hist) < MaxOps \/ PrintT(<<"W", ToJson(hist)>>)
EmitW == hist = <<>> \/ PrintT(<<"W", ToJson(hist)>>)
(* histories after which the MODEL answers a lookup with another id's content *)
Aliases == \E f \in Fids, min \in Mins : \E me \in MemOpts(f) : ~GetOk(f, min, AsRes(ImplGet(f, min, me)))
EmitAlias == ~Aliases \/ PrintT(<<"W", ToJson(hist)>>)
=============================================================================
