SPECIFICATION Spec
INVARIANT GetRefines
INVARIANT SliceRefines
INVARIANT MemExact
INVARIANT SizesSane
INVARIANT SliceOnlyAtZero
VIEW MCView
CHECK_DEADLOCK FALSE
