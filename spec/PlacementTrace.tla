---------------------------- MODULE PlacementTrace ----------------------------
(* Judge for C10: the reset line describes the topology that harness/cmd/c10
   built on a real topology.Topology (servers with per-disk-type max / volume /
   remote / ec shard counts; "gone" servers connected and went away again, which
   leaves empty racks and data centers behind); "topo" is what the real nodes
   answer to AvailableSpaceFor; every "grow" is one call of the real
   findEmptySlotsForOneVolume with its result. *)
EXTENDS Placement, TraceKit
VARIABLE nodes       \* the reset line's servers
tvars == <<nodes, pvars, kitvars>>
Rng(s) == {s[i] : i \in DOMAIN s}
DiskOf(n, t) == IF \E d \in Rng(n.disks) : d.t = t THEN CHOOSE d \in Rng(n.disks) : d.t = t
                ELSE [t |-> t, max |-> 0, vc |-> 0, rem |-> 0, ec |-> 0]
\* the servers as the placement rule sees them for disk type t
TopoFor(t) == {[id |-> n.id, dc |-> n.dc, rack |-> n.rack, max |-> DiskOf(n, t).max, vc |-> DiskOf(n, t).vc,
                rem |-> DiskOf(n, t).rem, ec |-> DiskOf(n, t).ec] : n \in {m \in Rng(nodes) : ~m.gone}}
TraceInit == nodes = <<>> /\ kinds = <<>> /\ req = <<>> /\ KitInit
TraceReset == IsReset /\ nodes' = Ev.nodes /\ UNCHANGED pvars
TraceSkip == SkipStep /\ UNCHANGED <<nodes, pvars>>
\* the driver built what the reset line says: every server answers the free slots of its counters
TTopo == /\ IsEvent("topo") /\ Strict /\ UNCHANGED <<nodes, pvars>>
         /\ {a.id : a \in Rng(Ev.avail)} = {n.id : n \in {m \in Rng(nodes) : ~m.gone}}
         /\ \A a \in Rng(Ev.avail) : \E r \in TopoFor(a.t) : r.id = a.id /\ Free(r) = a.free
TGrow == /\ IsEvent("grow") /\ Strict /\ UNCHANGED <<nodes, pvars>>
         /\ Grow(TopoFor(Ev.disk), Ev.rp, [dc |-> Ev.pdc, rack |-> Ev.prack, node |-> Ev.pnode], Ev.err, Ev.servers)
TraceNext == TraceReset \/ TraceSkip \/ TTopo \/ TGrow
TraceSpec == TraceInit /\ [][TraceNext]_tvars
=============================================================================
