---------------------------- MODULE MasterView ----------------------------
(* C11 / C12, layer A: what the master REPORTS after every step of a heartbeat
   history, judged against (a) the heartbeat messages it received so far and
   (b) itself.

   A snapshot S is what one call of ToTopologyInfo(), the usage counters and
   AvailableSpaceFor of every node of the tree, Lookup of every known volume id
   and the writable lists of the volume layouts returned (driver: harness/cmd/c11;
   layer B computes the same record from its model state):

     S.tree  : <<[n, dc, rack]>>                 data nodes in the tree
     S.vols  : <<[n, t, id, ro, big, rem, ..]>>  volumes listed below disk t of node n
     S.ecs   : <<[n, t, id, bits]>>              ec shards listed below disk t of node n
     S.lv    : <<[k, dc, rack, n, t, vc, rem, ec, max, avail, hasi, ivc, imax, ifree, irem, ..]>>
               one entry per level (k = top | dc | rack | node | disk) and disk type t:
               usage counters, AvailableSpaceFor, and (hasi) the DiskInfo numbers
     S.look  : <<[id, ns]>>                      Topology.Lookup per volume id
     S.wr    : <<id>>                            union of the layouts' writable lists
     S.picks : <<[cls, dc, err, vid, node]>>     Topology.PickForWrite per volume class / data center wish
     S.pp    : BOOLEAN                           PickForWrite panicked

   C12 (Counts): every counter at every level equals a recount over the volumes
   and shards listed beneath that level IN THE SAME SNAPSHOT, free slots follow
   from the recounted numbers, and the max of a disk is the last non-zero max the
   server reported for it.  The oracle never asks how a message "should" have
   been interpreted.

   C11 (Registry, Writable, Lookup): the registry follows the messages (a full
   heartbeat replaces the server's volumes, an incremental one adds / removes,
   a broken stream removes the server); a volume is offered for writes only if
   every registered replica is writable, the number of replicas matches the
   replication (or exceeds it with replication-as-minimum) and - right after the
   master's size check ran - below the size limit; Lookup returns exactly the
   servers that list the volume.  The statement is "only if": a volume that could
   be writable but is not offered is not an alarm. *)
EXTENDS Integers, Sequences, FiniteSets, FiniteSetsExt, TLC, Json

VARIABLES cfg,      \* static: [asmin, nodes: <<[id,dc,rack]>>, vols: <<[id,copies,disk,..]>>, ecs: <<[id,disk,..]>>]
          conn,     \* servers with an open heartbeat stream
          exp,      \* exp[n][vid] = [ro, big, rem, known, regbig]: volumes the messages say server n has
          expEc,    \* expEc[n][vid] = set of shard ids
          expMax,   \* expMax[n][t] = last max volume count in force for disk type t of n
          ghostEc,  \* ghostEc[vid] = servers whose stream broke while they held shards of vid
          fresh,    \* TRUE iff the master's size check (collect) was the last step
          zomb,     \* servers that opened a new stream while the master still holds their previous one
          lost      \* finding C11-reconnect-race: servers the master forgot although their new stream is open
avars == <<cfg, conn, exp, expEc, expMax, ghostEc, fresh, zomb, lost>>

Get(f, k, d) == IF k \in DOMAIN f THEN f[k] ELSE d
NodeIds == {r.id : r \in Range(cfg.nodes)}
VolRec(v) == CHOOSE r \in Range(cfg.vols) : r.id = v
EcRec(v) == CHOOSE r \in Range(cfg.ecs) : r.id = v
VolIds == {r.id : r \in Range(cfg.vols)}
EcIds == {r.id : r \in Range(cfg.ecs)}
NodeRec(n) == CHOOSE r \in Range(cfg.nodes) : r.id = n

AInit(c) == /\ cfg = c
            /\ conn = {}
            /\ exp = [n \in {r.id : r \in Range(c.nodes)} |-> <<>>]
            /\ expEc = [n \in {r.id : r \in Range(c.nodes)} |-> <<>>]
            /\ expMax = [n \in {r.id : r \in Range(c.nodes)} |-> <<>>]
            /\ ghostEc = [v \in {r.id : r \in Range(c.ecs)} |-> {}]
            /\ fresh = FALSE
            /\ zomb = {} /\ lost = {}

(* ---------------- the messages (inputs) and what they say ---------------- *)
MaxTypes(mx) == {mx[i][1] : i \in DOMAIN mx}
MaxVal(mx, t) == (CHOOSE p \in Range(mx) : p[1] = t)[2]

\* a full volume heartbeat of server n: max = <<<<disktype, count>>>>, vols = <<[id, ro, big, rem]>>
FullCore(n, max, vols) ==
  /\ n \notin lost
  /\ conn' = conn \cup {n}
  /\ exp' = [exp EXCEPT ![n] = [id \in {r.id : r \in Range(vols)} |->
                LET x == CHOOSE y \in Range(vols) : y.id = id
                    \* regbig: at the size limit when the master registered this replica, and ever since
                    rb == IF id \in DOMAIN exp[n] /\ n \in conn THEN exp[n][id].regbig /\ x.big ELSE x.big
                IN [ro |-> x.ro, big |-> x.big, rem |-> x.rem, known |-> TRUE, regbig |-> rb]]]
  /\ expMax' = [expMax EXCEPT ![n] =
        IF n \notin conn
        THEN [t \in MaxTypes(max) |-> MaxVal(max, t)]     \* the server is created with what it reports
        ELSE [t \in DOMAIN @ \cup {u \in MaxTypes(max) : MaxVal(max, u) # 0} |->
                 IF t \in MaxTypes(max) /\ MaxVal(max, t) # 0 THEN MaxVal(max, t) ELSE @[t]]]   \* zero = "no news"
  /\ fresh' = FALSE
  /\ UNCHANGED <<cfg, expEc, ghostEc>>
Full(n, max, vols) == FullCore(n, max, vols) /\ UNCHANGED <<zomb, lost>>

\* an incremental volume heartbeat: ids of new and of deleted volumes (short form: no flags)
Inc(n, newv, delv) ==
  /\ n \in conn
  /\ exp' = [exp EXCEPT ![n] = [id \in (DOMAIN @ \ Range(delv)) \cup Range(newv) |->
                IF id \in Range(newv) THEN [ro |-> FALSE, big |-> FALSE, rem |-> FALSE, known |-> FALSE, regbig |-> FALSE] ELSE @[id]]]
  /\ fresh' = FALSE
  /\ UNCHANGED <<cfg, conn, expEc, expMax, ghostEc, zomb, lost>>

BitsOf(list, id) == UNION {Range(r.bits) : r \in {x \in Range(list) : x.id = id}}
EcFull(n, ecs) ==
  /\ n \in conn
  /\ expEc' = [expEc EXCEPT ![n] = [id \in {r.id : r \in {x \in Range(ecs) : x.bits # <<>>}} |-> BitsOf(ecs, id)]]
  /\ fresh' = FALSE
  /\ UNCHANGED <<cfg, conn, exp, expMax, ghostEc, zomb, lost>>
EcInc(n, newec, delec) ==
  /\ n \in conn
  /\ LET old == expEc[n]
         val(id) == (Get(old, id, {}) \cup BitsOf(newec, id)) \ BitsOf(delec, id)
         ids == DOMAIN old \cup {r.id : r \in Range(newec)}
     IN expEc' = [expEc EXCEPT ![n] = [id \in {i \in ids : val(i) # {}} |-> val(id)]]
  /\ fresh' = FALSE
  /\ UNCHANGED <<cfg, conn, exp, expMax, ghostEc, zomb, lost>>

\* the stream of server n broke
Close(n) ==
  /\ n \notin zomb /\ n \notin lost
  /\ conn' = conn \ {n}
  /\ exp' = [exp EXCEPT ![n] = <<>>]
  /\ expEc' = [expEc EXCEPT ![n] = <<>>]
  /\ expMax' = [expMax EXCEPT ![n] = <<>>]
  /\ ghostEc' = [v \in DOMAIN ghostEc |-> IF v \in DOMAIN expEc[n] THEN ghostEc[v] \cup {n} ELSE ghostEc[v]]
  /\ fresh' = FALSE
  /\ UNCHANGED <<cfg, zomb, lost>>

\* The server opens a new stream (first message: a full volume heartbeat) while the master has not yet noticed
\* that the previous one broke.  The message says what any full heartbeat says.
Reopen(n, max, vols) == n \in conn /\ n \notin zomb /\ FullCore(n, max, vols) /\ zomb' = zomb \cup {n} /\ UNCHANGED lost
\* The master notices that the previous stream broke.  The server is connected (its new stream is open), so
\* nothing about it changes ...
ZCloseKeep(n) == /\ n \in zomb /\ zomb' = zomb \ {n} /\ fresh' = FALSE
                 /\ UNCHANGED <<cfg, conn, exp, expEc, expMax, ghostEc, lost>>
\* ... finding C11-reconnect-race: the master forgets the server instead; whatever its open stream reports from
\* now on goes to an object that is no longer part of the topology
ZCloseForget(n) ==
  /\ n \in zomb /\ zomb' = zomb \ {n} /\ lost' = lost \cup {n}
  /\ conn' = conn \ {n}
  /\ exp' = [exp EXCEPT ![n] = <<>>] /\ expEc' = [expEc EXCEPT ![n] = <<>>] /\ expMax' = [expMax EXCEPT ![n] = <<>>]
  /\ ghostEc' = [v \in DOMAIN ghostEc |-> ghostEc[v] \cup {n}]
  /\ fresh' = FALSE /\ UNCHANGED cfg
\* a message on the open stream of a forgotten server, and that stream breaking
LostMsg(n) == n \in lost /\ fresh' = FALSE /\ UNCHANGED <<cfg, conn, exp, expEc, expMax, ghostEc, zomb, lost>>
LostClose(n) == /\ n \in lost /\ n \notin zomb /\ lost' = lost \ {n} /\ fresh' = FALSE
                /\ UNCHANGED <<cfg, conn, exp, expEc, expMax, ghostEc, zomb>>

\* the master's periodic size check ran over the registry
Collect == fresh' = TRUE /\ UNCHANGED <<cfg, conn, exp, expEc, expMax, ghostEc, zomb, lost>>

(* ---------------- C12: the snapshot recounts itself ---------------- *)
FreeSlots(max, rem, vc, ec) == max + rem - vc - (IF ec > 0 THEN (ec \div 10) + 1 ELSE 0)

\* is server record r (from S.tree) beneath level entry e
Beneath(e, r) == \/ e.k = "top"
                 \/ e.k = "dc" /\ r.dc = e.dc
                 \/ e.k = "rack" /\ r.dc = e.dc /\ r.rack = e.rack
                 \/ e.k \in {"node", "disk"} /\ r.n = e.n
ExpMaxOf(n, t) == IF n \in DOMAIN expMax THEN Get(expMax[n], t, 0) ELSE 0
\* level entry e against a recount over what the same snapshot lists beneath it (U = the servers beneath e)
LevelOK(S, e) ==
  LET U == {r.n : r \in {q \in Range(S.tree) : Beneath(e, q)}}
      mine == {i \in DOMAIN S.vols : S.vols[i].t = e.t /\ S.vols[i].n \in U}
      vc == Cardinality(mine)
      rem == Cardinality({i \in mine : S.vols[i].rem})
      ec == MapThenSumSet(LAMBDA i : Len(S.ecs[i].bits), {i \in DOMAIN S.ecs : S.ecs[i].t = e.t /\ S.ecs[i].n \in U})
      \* max of a disk = the last non-zero max its server reported; max of an inner level = sum over the disks beneath
      max == IF e.k = "disk" THEN ExpMaxOf(e.n, e.t)
             ELSE MapThenSumSet(LAMBDA i : S.lv[i].max,
                                {i \in DOMAIN S.lv : S.lv[i].k = "disk" /\ S.lv[i].t = e.t /\ S.lv[i].n \in U})
      free == FreeSlots(max, rem, vc, ec)
  IN /\ e.vc = vc /\ e.rem = rem /\ e.ec = ec /\ e.max = max
     /\ e.avail = free
     /\ e.hasi => /\ e.ivc = vc /\ e.imax = max /\ e.irem = rem
                  /\ e.ifree \in {max - vc, free}
CountsOK(S) == \A i \in DOMAIN S.lv : LevelOK(S, S.lv[i])

(* ---------------- C11: registry, writables, lookups ---------------- *)
TreeOK(S) == /\ {r.n : r \in Range(S.tree)} = conn
             /\ \A r \in Range(S.tree) : r.n \in NodeIds /\ r.dc = NodeRec(r.n).dc /\ r.rack = NodeRec(r.n).rack
             /\ Len(S.tree) = Cardinality(conn)
VolsAt(S, n) == {i \in DOMAIN S.vols : S.vols[i].n = n}
RegOK(S) == \A n \in conn :
  /\ {S.vols[i].id : i \in VolsAt(S, n)} = DOMAIN exp[n]
  /\ Cardinality(VolsAt(S, n)) = Cardinality(DOMAIN exp[n])          \* listed once
  /\ \A i \in VolsAt(S, n) : LET x == S.vols[i]  w == exp[n][x.id] IN
        /\ x.t = VolRec(x.id).disk
        /\ w.known => x.ro = w.ro /\ x.big = w.big /\ x.rem = w.rem
EcAt(S, n) == {i \in DOMAIN S.ecs : S.ecs[i].n = n}
EcRegOK(S) == \A n \in conn :
  /\ {S.ecs[i].id : i \in EcAt(S, n)} = DOMAIN expEc[n]
  /\ Cardinality(EcAt(S, n)) = Cardinality(DOMAIN expEc[n])
  /\ \A i \in EcAt(S, n) : Range(S.ecs[i].bits) = expEc[n][S.ecs[i].id] /\ S.ecs[i].t = EcRec(S.ecs[i].id).disk

Replicas(S, v) == {i \in DOMAIN S.vols : S.vols[i].id = v}
Holders(S, v) == {S.vols[i].n : i \in Replicas(S, v)}
EcHolders(S, v) == {S.ecs[i].n : i \in {j \in DOMAIN S.ecs : S.ecs[j].id = v}}
\* a forgotten server (C11-reconnect-race) can still be in a volume's location list without being in the tree
OnLost(S, v) == \E i \in DOMAIN S.look : S.look[i].id = v /\ Range(S.look[i].ns) \cap lost # {}
WritableOK(S) == \A v \in Range(S.wr) :
  LET k == Cardinality(Holders(S, v))  c == VolRec(v).copies IN
  /\ v \in VolIds
  /\ \A i \in Replicas(S, v) : ~S.vols[i].ro
  /\ k = c \/ (cfg.asmin /\ k > c) \/ OnLost(S, v)
  /\ fresh => \A i \in Replicas(S, v) : ~S.vols[i].big          \* the size check just ran: no replica at the limit
\* a replica that was at the size limit when the master registered it (and still is) keeps the volume out of the lists
HasRegBig(v) == \E n \in conn : v \in DOMAIN exp[n] /\ exp[n][v].regbig
RegBigOK(S) == \A v \in Range(S.wr) : ~HasRegBig(v)
\* finding C11-oversized-joins-writable: a volume that is already in a writable list stays there when such a replica
\* joins (possible with replication-as-minimum only); the next size check removes it.  prevwr = the previous lists.
RegBigStale(S, prevwr) == \A v \in Range(S.wr) : HasRegBig(v) => v \in prevwr
LookupVolOK(S) == \A i \in DOMAIN S.look : S.look[i].id \in VolIds => Range(S.look[i].ns) \ lost = Holders(S, S.look[i].id)
LookupEcOK(S) == \A i \in DOMAIN S.look : S.look[i].id \in EcIds \ VolIds => Range(S.look[i].ns) = EcHolders(S, S.look[i].id)
\* finding C11-ec-lookup-after-disconnect: servers that went away while holding shards stay in the answer
LookupEcStale(S) == \A i \in DOMAIN S.look : S.look[i].id \in EcIds \ VolIds =>
                       /\ EcHolders(S, S.look[i].id) \subseteq Range(S.look[i].ns)
                       /\ Range(S.look[i].ns) \subseteq EcHolders(S, S.look[i].id) \cup ghostEc[S.look[i].id]

\* what PickForWrite hands out (S.picks: one request per volume class cls and data center wish): a volume of the
\* requested class from the writable lists and one of the servers that list it; an error is always possible
SameClass(a, b) == a.col = b.col /\ a.rp = b.rp /\ a.disk = b.disk /\ a.ttl = b.ttl
\* S.pp: PickForWrite panicked - never admissible, except as a consequence of C11-reconnect-race (a forgotten
\* server that is in a location list has no data center to compare with the wish)
PickOK(S) == IF S.pp THEN lost # {} ELSE \A p \in Range(S.picks) :
  p.err \/ (/\ p.vid \in Range(S.wr) /\ p.vid \in VolIds /\ p.cls \in VolIds
            /\ SameClass(VolRec(p.vid), VolRec(p.cls))
            /\ p.node \in Holders(S, p.vid) \cup lost)

C11Base(S) == TreeOK(S) /\ RegOK(S) /\ EcRegOK(S) /\ WritableOK(S) /\ LookupVolOK(S) /\ PickOK(S)
C11OK(S) == C11Base(S) /\ LookupEcOK(S) /\ RegBigOK(S)
C12OK(S) == CountsOK(S)
=============================================================================
