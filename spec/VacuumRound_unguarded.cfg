SPECIFICATION ASpec
INVARIANT LiveAgree
CHECK_DEADLOCK FALSE
