--------------------------- MODULE TtlAssignImpl ---------------------------
(* C09 filer clause, implementation-shaped (layer B) and generator.

   The path of a filer write:  entry TTL in seconds
      -> needle.SecondsToTTL (CodeTtl: exact multiples of y, M, w, d, h first; otherwise the
         first of m, h, d, w, M, y whose rounded-up count is below 256; else no TTL)
      -> StorageOption.ToAssignRequests (primary request; an alternate one without the
         placement when a data center or rack was asked for; both carry the ttl)
      -> operation.Assign (the loop over the requests: nil skipped, a failed call or an
         answer with count 0 goes on with the next request, the first answer with a
         count ends it)
   with the clause of TtlAssign.tla as invariants:
     NeverShorter   every request built for an entry of sec seconds satisfies VolumeTtlFor
     ChosenCovers   the request whose answer Assign returns satisfies it (the TTL survives
                    the fallback): this is "the data volume's TTL is at least the entry's"
                    given that the master serves a request from a volume of the request's ttl
     AssignContract what the loop does is what AssignA admits
     SomeTtl        (design fact, not demanded of the code) every positive int32 number of
                    seconds has a volume TTL that covers it, and the mapping finds one
   Three kinds of initial states, all explored in one run:
     "map"    sec in BoundarySecs \cup 0..Dense, placement none / both: the requests only
     "pipe"   sec in PipeSecs (a handful; with PipeAll one second past every unit boundary), every
              placement, every pair of answers: the whole path
     "assign" every list of up to MaxReqs requests (present or nil) x every answer pattern
   Rounding = "floor" is the mapping before /repo 3944c296 (and the seeded change "ceil
   helper replaced by a plain division"): NeverShorter must fail for it. *)
EXTENDS TtlAssign, TLC, Json
CONSTANTS Dense, MaxReqs, Rounding, Kinds, PipeAll
VARIABLES mode, sec, place, reqs, ans, i, k, seen, ret, lasterr, pc, hist
vars == <<mode, sec, place, reqs, ans, i, k, seen, ret, lasterr, pc, hist>>

Places == {"none", "dc", "rack", "dcrack"}
AnsKinds == {"rpcerr", "zero", "ok"}

(* ---- needle.SecondsToTTL, in minutes ---- *)
ExactOrder == <<"y", "M", "w", "d", "h">>
CeilOrder == <<"m", "h", "d", "w", "M", "y">>
Cnt(s, u) == IF Rounding = "ceil" THEN CeilDiv(s, UnitSec(u)) ELSE s \div UnitSec(u)
FirstIn(order, P(_)) == LET I == {j \in 1..Len(order) : P(order[j])}
                        IN IF I = {} THEN "" ELSE order[MinOf(I)]
CodeTtl(s) ==
  IF s = 0 THEN 0
  ELSE LET e == FirstIn(ExactOrder, LAMBDA u : s % UnitSec(u) = 0 /\ s \div UnitSec(u) < 256) IN
       IF e # "" THEN (s \div UnitSec(e)) * UnitMin(e)
       ELSE LET c == FirstIn(CeilOrder, LAMBDA u : Cnt(s, u) < 256) IN
            IF c = "" THEN 0 ELSE Cnt(s, c) * UnitMin(c)

(* ---- StorageOption.ToAssignRequests ---- *)
Nil == [present |-> FALSE, coll |-> "", ttl |-> 0, ttlok |-> TRUE, minutes |-> 0, dc |-> "", rack |-> ""]
MkReq(tag, t, dc, rack) == [present |-> TRUE, coll |-> tag, ttl |-> t, ttlok |-> TRUE, minutes |-> t, dc |-> dc, rack |-> rack]
DcOf(pl) == IF pl \in {"dc", "dcrack"} THEN "dc1" ELSE ""
RackOf(pl) == IF pl \in {"rack", "dcrack"} THEN "r1" ELSE ""
ToReqs(s, pl) == <<MkReq("e", CodeTtl(s), DcOf(pl), RackOf(pl)),
                   IF pl # "none" THEN MkReq("e", CodeTtl(s), "", "") ELSE Nil>>
MkAns(kind, j) == [kind |-> kind, fid |-> j, count |-> IF kind = "ok" THEN j ELSE 0]
NoRet == [fid |-> 0, count |-> 0]

InitMap == /\ mode = "map" /\ sec \in BoundarySecs \cup 0..Dense /\ place \in {"none", "dcrack"}
           /\ reqs = <<>> /\ ans = <<>> /\ pc = "build"
           /\ hist = IF sec \in BoundarySecs THEN <<[ev |-> "toreq", sec |-> sec, place |-> place]>> ELSE <<>>
PipeSecs == IF PipeAll THEN {0, MaxSec} \cup UNION {{c * UnitSec(u) + 1 : c \in CountsOf(u)} : u \in UnitNames}
            ELSE {0, 1, 61, 15301, 22032001, MaxSec}
InitPipe == /\ mode = "pipe" /\ sec \in PipeSecs /\ place \in Places
            /\ reqs = <<>> /\ ans \in {<<MkAns(a, 1), MkAns(b, 2)>> : a, b \in Kinds} /\ pc = "build"
            /\ hist = <<[ev |-> "assign", sec |-> sec, place |-> place, pat |-> <<>>, kinds |-> <<ans[1].kind, ans[2].kind>>]>>
ReqLists == UNION {[1..n -> BOOLEAN] : n \in 1..MaxReqs}
InitAssign == /\ mode = "assign" /\ sec = -1 /\ place = "none"
              /\ \E p \in ReqLists :
                   /\ reqs = [j \in DOMAIN p |-> IF p[j] THEN MkReq(j, 10 + j, "", "") ELSE Nil]
                   /\ \E kk \in [1..Cardinality({j \in DOMAIN p : p[j]}) -> Kinds] :
                        /\ ans = [j \in DOMAIN kk |-> MkAns(kk[j], j)]
                        /\ hist = <<[ev |-> "assign", sec |-> -1, place |-> "none", pat |-> p, kinds |-> kk]>>
              /\ pc = "loop"
Init == /\ (InitMap \/ InitPipe \/ InitAssign)
        /\ i = 1 /\ k = 0 /\ seen = <<>> /\ ret = NoRet /\ lasterr = FALSE

Build == /\ pc = "build"
         /\ reqs' = ToReqs(sec, place)
         /\ pc' = IF mode = "map" THEN "done" ELSE "loop"
         /\ UNCHANGED <<mode, sec, place, ans, i, k, seen, ret, lasterr, hist>>
(* one turn of the loop in operation.Assign *)
Loop == /\ pc = "loop"
        /\ IF i > Len(reqs) THEN pc' = "done" /\ UNCHANGED <<i, k, seen, ret, lasterr>>
           ELSE IF ~reqs[i].present THEN i' = i + 1 /\ UNCHANGED <<k, seen, ret, lasterr, pc>>
           ELSE LET a == ans[k + 1] IN
                /\ seen' = Append(seen, reqs[i]) /\ k' = k + 1
                /\ IF a.kind = "rpcerr" THEN lasterr' = TRUE /\ i' = i + 1 /\ UNCHANGED <<ret, pc>>
                   ELSE /\ ret' = [fid |-> a.fid, count |-> a.count]
                        /\ IF a.count <= 0 THEN lasterr' = TRUE /\ i' = i + 1 /\ pc' = pc
                           ELSE lasterr' = FALSE /\ pc' = "done" /\ i' = i
        /\ UNCHANGED <<mode, sec, place, reqs, ans, hist>>
Next == Build \/ Loop
Spec == Init /\ [][Next]_vars

Res == [err |-> lasterr, fid |-> ret.fid, count |-> ret.count]
NeverShorter == pc # "build" /\ mode # "assign" => \A j \in 1..Len(reqs) : ReqTtlFor(sec, reqs[j])
ChosenCovers == mode = "pipe" /\ pc = "done" /\ ~lasterr => TtlOkFor(sec, seen[Len(seen)])
ArrivedCover == mode = "pipe" => \A j \in 1..Len(seen) : TtlOkFor(sec, seen[j])
AssignContract == pc = "done" /\ mode # "map" => AssignA(reqs, ans, seen, Res)
SomeTtl == pc # "build" /\ mode # "assign" /\ sec > 0 =>
             /\ Ideal(sec) \in Ladder
             /\ reqs[1].minutes \in Ladder /\ Ideal(sec) <= reqs[1].minutes
(* the ladder itself *)
Probe == {1, 2, 59, 60, 61, 255, 256, 257, 1439, 1440, 1441, 15300, 15301, 367200, 367201, 2570400, 2570401,
          11016000, 11016001, 35791395, MaxTtlMin - 1, MaxTtlMin, MaxTtlMin + 1, MaxTtlMin + 525600}
ASSUME LadderTop == \A n \in Probe : (\E m \in Ladder : m >= n) <=> n <= MaxTtlMin
ASSUME LadderIdeal == \A n \in Probe : IdealMin(n) = IdealBrute(n)
ASSUME Int32Covered == Need(MaxSec) <= MaxTtlMin /\ Cardinality(Ladder) <= 6 * MaxCount
Emit == pc # "done" \/ hist = <<>> \/ PrintT(<<"W", ToJson(hist)>>)
=============================================================================
