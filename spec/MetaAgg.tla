------------------------------ MODULE MetaAgg ------------------------------
(* X05 (spec growth) - several filers with separate stores kept in step by the
   metadata aggregator (weed/filer/meta_aggregator.go, meta_replay.go,
   weed/server/filer_grpc_server_sub_meta.go).  Layer A: what the statement asks.

   log[f]     the changes ACCEPTED by filer f, in the order f accepted them.  A
              change is the record the filer publishes:  op/oid = name and payload
              id of the entry it replaced or removed ("" = none),  np/nid = name and
              payload id of the entry it wrote ("" = none).  A rename is two changes
              (write the new name, remove the old one), as the code publishes it.
   store[f]   f's namespace: name -> payload id (one directory; names are opaque).
   applied[f][g]  how many of g's changes f has applied to its own store: ALWAYS a
              prefix of log[g], every change once, in g's order (statement (b)).
   half[f][g] only TRUE through the listed deviation X05-replay-not-atomic: f has removed the old entry of
              g's next change but not yet written the new one.
   pos[c]     subscriber c: for every origin g the set of possible numbers of g's
              changes it has been handed (a singleton unless a listed deviation made
              the position ambiguous).  Statement (a): what c is handed from origin g
              is log[g] from the start, nothing twice, nothing missing, in order; the
              interleaving of different origins is free.
   restarted  the filers that were restarted (new server object over the same store).
              Statement (c): a restart changes nothing above - no change applied twice,
              none lost, nothing handed out twice.
   rotl       the filers whose LOCAL metadata log buffer was flushed to the persisted log during the execution
              (timer, script, or the stop before a restart): only used to keep a deviation narrow.
   dep, vc    ghost vector clocks (only for the design-level convergence invariant).

   The statement allows concurrent writes to one name on different filers to end in
   different orders on different stores: Apply(f, g) is a separate, silent step, and
   the stores are only ever compared with what THEIR OWN interleaving produces.      *)
EXTENDS Integers, Sequences, FiniteSets, TLC, Json
CONSTANTS Filers,                      \* 1..n
          GPaths, GIds, MaxOps, GenRestart   \* generator / model checking only
VARIABLES log, store, applied, half, pos, restarted, rotl, dep, vc, hist
avars == <<log, store, applied, half, pos, restarted, rotl, dep, vc>>
vars == <<avars, hist>>

Evt(op, oid, np, nid) == [op |-> op, oid |-> oid, np |-> np, nid |-> nid]
Max(S) == CHOOSE x \in S : \A y \in S : y <= x

(* ---- a namespace: a function from the names present to payload ids ---------- *)
Get(s, p) == IF p \in DOMAIN s THEN s[p] ELSE ""
Set(s, p, v) == [x \in (DOMAIN s) \cup {p} |-> IF x = p THEN v ELSE s[x]]
Rm(s, p) == [x \in (DOMAIN s) \ {p} |-> s[x]]
(* what a peer does with a change (Replay): remove the old name, write the new one; blind *)
ApplyEv(s, e) == LET s1 == IF e.op # "" THEN Rm(s, e.op) ELSE s
                 IN IF e.np # "" THEN Set(s1, e.np, e.nid) ELSE s1
(* the change a filer publishes when it writes id under name p *)
PutEv(s, p, id) == Evt(IF p \in DOMAIN s THEN p ELSE "", Get(s, p), p, id)
AsSet(s) == {<<p, s[p]>> : p \in DOMAIN s}
Touches(e) == {e.op, e.np} \ {""}

Init == /\ log = [f \in Filers |-> <<>>]
        /\ store = [f \in Filers |-> <<>>]
        /\ applied = [f \in Filers |-> [g \in Filers |-> 0]]
        /\ half = [f \in Filers |-> [g \in Filers |-> FALSE]]
        /\ pos = <<>>
        /\ restarted = {}
        /\ rotl = {}
        /\ dep = [f \in Filers |-> <<>>]
        /\ vc = [f \in Filers |-> [g \in Filers |-> 0]]
        /\ hist = <<>>

(* fn[g] = the changes filer g accepts in this step (usually one filer, one change) *)
PushAll(fn) ==
  /\ log' = [g \in Filers |-> log[g] \o fn[g]]
  /\ dep' = [g \in Filers |-> dep[g] \o [i \in 1..Len(fn[g]) |-> [vc[g] EXCEPT ![g] = Len(log[g]) + i]]]
  /\ vc' = [g \in Filers |-> [vc[g] EXCEPT ![g] = Len(log[g]) + Len(fn[g])]]
Push(f, evs) == PushAll([g \in Filers |-> IF g = f THEN evs ELSE <<>>])
NoPush == UNCHANGED <<log, dep, vc>>

(* ---- the operations of a client of filer f ----------------------------------- *)
APut(f, p, id) == /\ Push(f, <<PutEv(store[f], p, id)>>)
                  /\ store' = [store EXCEPT ![f] = Set(@, p, id)]
AUpd(f, p, id, res) == IF p \in DOMAIN store[f] THEN res = "ok" /\ APut(f, p, id)
                       ELSE res = "nf" /\ NoPush /\ UNCHANGED store
ADel(f, p, res) == /\ res = "ok"
                   /\ IF p \in DOMAIN store[f]
                      THEN Push(f, <<Evt(p, store[f][p], "", "")>>) /\ store' = [store EXCEPT ![f] = Rm(@, p)]
                      ELSE NoPush /\ UNCHANGED store
AMv(f, p, q, res) == IF p \notin DOMAIN store[f] THEN res = "err" /\ NoPush /\ UNCHANGED store
                     ELSE IF p = q THEN res = "ok" /\ NoPush /\ UNCHANGED store
                     ELSE /\ res = "ok"
                          /\ LET v == store[f][p]
                             IN /\ Push(f, <<PutEv(store[f], q, v), Evt(p, v, "", "")>>)
                                /\ store' = [store EXCEPT ![f] = Rm(Set(@, q, v), p)]
ALook(f, p, id) == id = Get(store[f], p)

(* ---- the aggregator of f applies the next change of peer g (silent) ---------- *)
PMax(a, b) == [g \in Filers |-> IF a[g] >= b[g] THEN a[g] ELSE b[g]]
AApply(f, g) == /\ f # g /\ applied[f][g] < Len(log[g])
                /\ LET k == applied[f][g] + 1
                   IN /\ store' = [store EXCEPT ![f] = ApplyEv(@, log[g][k])]
                      /\ applied' = [applied EXCEPT ![f][g] = k]
                      /\ vc' = [vc EXCEPT ![f] = PMax(@, dep[g][k])]
                /\ half' = [half EXCEPT ![f][g] = FALSE]
                /\ UNCHANGED <<log, dep>>
(* known finding X05-segment-skip-loss: g's local log buffer was flushed while f's subscription was behind, and the
   persisted log file that holds the unread tail is named by an earlier minute than f's position: f resumes past it -
   the change is never applied by f (nor handed to f's subscribers) *)
ASkip(f, g) == /\ f # g /\ applied[f][g] < Len(log[g]) /\ g \in rotl
               /\ applied' = [applied EXCEPT ![f][g] = @ + 1]
               /\ half' = [half EXCEPT ![f][g] = FALSE]
               /\ UNCHANGED <<log, dep, vc, store>>
(* known finding X05-replay-not-atomic: Replay of a change that replaces an entry is a store delete followed by
   a store insert; in between the name is absent from f's store although no filer ever removed it *)
AApplyRm(f, g) == /\ f # g /\ applied[f][g] < Len(log[g]) /\ ~half[f][g]
                  /\ LET e == log[g][applied[f][g] + 1]
                     IN /\ e.op # "" /\ e.np # ""
                        /\ store' = [store EXCEPT ![f] = Rm(@, e.op)]
                  /\ half' = [half EXCEPT ![f][g] = TRUE]
                  /\ UNCHANGED <<log, dep, vc, applied>>

(* ---- a local write is "look the entry up, then write": peer changes that the aggregator applies in between are
   admitted (the statement says nothing about it).  The change f publishes then carries the entry f looked up, the
   store ends with f's write on top of the peer changes.  Up to three changes of one peer g per operation. *)
Min2(a, b) == IF a <= b THEN a ELSE b
Pend(f, g) == Len(log[g]) - applied[f][g]
RECURSIVE ApplyN(_, _, _, _)
ApplyN(s, g, a, n) == IF n = 0 THEN s ELSE ApplyN(ApplyEv(s, log[g][a + 1]), g, a + 1, n - 1)
RECURSIVE PMaxN(_, _, _, _)
PMaxN(v, g, a, n) == IF n = 0 THEN v ELSE PMaxN(PMax(v, dep[g][a + 1]), g, a + 1, n - 1)
BatchTouches(f, g, n, names) == \E k \in (applied[f][g] + 1)..(applied[f][g] + n) : Touches(log[g][k]) \cap names # {}
ARaceDo(f, g, n, evs, s2) ==
  LET m == Len(log[f])
  IN /\ log' = [log EXCEPT ![f] = @ \o evs]
     /\ dep' = [dep EXCEPT ![f] = @ \o [i \in 1..Len(evs) |-> [vc[f] EXCEPT ![f] = m + i]]]
     /\ vc' = [vc EXCEPT ![f] = [PMaxN(vc[f], g, applied[f][g], n) EXCEPT ![f] = m + Len(evs)]]
     /\ applied' = [applied EXCEPT ![f][g] = @ + n]
     /\ half' = [half EXCEPT ![f][g] = FALSE]
     /\ store' = [store EXCEPT ![f] = s2]
RaceN(f, g, names) == {n \in 1..Min2(3, Pend(f, g)) : BatchTouches(f, g, n, names)}
APutRace(f, g, p, id) == /\ f # g
                         /\ \E n \in RaceN(f, g, {p}) :
                              ARaceDo(f, g, n, <<PutEv(store[f], p, id)>>, Set(ApplyN(store[f], g, applied[f][g], n), p, id))
AUpdRace(f, g, p, id, res) == /\ f # g /\ p \in DOMAIN store[f] /\ res = "ok"
                              /\ \E n \in RaceN(f, g, {p}) :
                                   ARaceDo(f, g, n, <<PutEv(store[f], p, id)>>, Set(ApplyN(store[f], g, applied[f][g], n), p, id))
ADelRace(f, g, p, res) == /\ f # g /\ p \in DOMAIN store[f] /\ res = "ok"
                          /\ \E n \in RaceN(f, g, {p}) :
                               ARaceDo(f, g, n, <<Evt(p, store[f][p], "", "")>>, Rm(ApplyN(store[f], g, applied[f][g], n), p))
(* a rename is "look up p, look up q, insert q, look up p, delete p" without a store transaction; peer changes may
   fall before the look-up of q (t[1] of them), before the insert (t[2]) and before the removal of p (t[3]; p looked
   up before or after them).  If they removed p the rename answers with an error AFTER having written q. *)
MvTail(s, ev1, p, pre, n) ==
  IF pre # "" THEN [evs |-> <<ev1, Evt(p, pre, "", "")>>, st |-> Rm(s, p), res |-> "ok", n |-> n]
  ELSE IF p \in DOMAIN s THEN [evs |-> <<ev1, Evt(p, s[p], "", "")>>, st |-> Rm(s, p), res |-> "ok", n |-> n]
  ELSE [evs |-> <<ev1>>, st |-> s, res |-> "err", n |-> n]
Splits(m) == {t \in (0..m) \X (0..m) \X (0..m) : t[1] + t[2] + t[3] >= 1 /\ t[1] + t[2] + t[3] <= m}
MvOut(f, g, p, q, t) ==
  LET a == applied[f][g]
      s0 == store[f]
      v == s0[p]
      sA1 == ApplyN(s0, g, a, t[1])
      ev1 == PutEv(sA1, q, v)
      sA2 == Set(ApplyN(sA1, g, a + t[1], t[2]), q, v)
      sB == ApplyN(sA2, g, a + t[1] + t[2], t[3])
      n == t[1] + t[2] + t[3]
  IN {MvTail(sB, ev1, p, "", n), MvTail(sB, ev1, p, IF p \in DOMAIN sA2 THEN sA2[p] ELSE "", n)}
AMvRace(f, g, p, q, res) ==
  /\ f # g /\ p \in DOMAIN store[f] /\ p # q /\ Pend(f, g) >= 1
  /\ \E t \in Splits(Min2(3, Pend(f, g))) :
       /\ BatchTouches(f, g, t[1] + t[2] + t[3], {p, q})
       /\ \E o \in MvOut(f, g, p, q, t) : res = o.res /\ ARaceDo(f, g, o.n, o.evs, o.st)

ARestart(f) == /\ restarted' = restarted \cup {f}
               /\ half' = [half EXCEPT ![f] = [g \in Filers |-> FALSE]]
(* known finding X05-stale-offset-replay: the offset record is written at most once a minute, so the
   new aggregator starts again behind what was applied: off[g] of g's changes count as applied, the
   later ones are applied a second time (in order) *)
ARestartStale(f, off) ==
  /\ \A g \in Filers \ {f} : off[g] >= 0 /\ off[g] <= applied[f][g]
  /\ \E g \in Filers \ {f} : off[g] < applied[f][g]
  /\ applied' = [applied EXCEPT ![f] = [g \in Filers |-> IF g = f THEN @[g] ELSE off[g]]]
  /\ ARestart(f)

Quiescent == \A f \in Filers, g \in Filers : f # g => applied[f][g] = Len(log[g]) /\ ~half[f][g]

(* ---- subscribers ----------------------------------------------------------- *)
P0 == [g \in Filers |-> {0}]
GetPos(c) == IF c \in DOMAIN pos THEN pos[c] ELSE P0
SetPos(c, P) == [x \in (DOMAIN pos) \cup {c} |-> IF x = c THEN P ELSE pos[x]]
(* the signatures a change of origin g carries when filer f hands it out: the origin first, then
   (aggregated stream only) f itself; never anything else - changes do not travel further *)
ExpSg(g, f, kind) == IF g = f \/ kind = "loc" THEN <<g>> ELSE <<g, f>>
Nothing == [g \in Filers |-> {}]
(* e was handed to a subscriber of f (kind: "agg" | "loc"); lenient = a position may also go back *)
StepGot(P, e, f, kind, lenient) ==
  IF e.o = 0 THEN P          \* the subscriber had to subscribe again (its filer restarted)
  ELSE IF e.o \notin Filers THEN Nothing
  ELSE IF (kind = "loc" /\ e.o # f) \/ e.sg # ExpSg(e.o, f, kind) THEN Nothing
  ELSE LET g == e.o
           cand == IF lenient /\ P[g] # {} THEN 0..Max(P[g]) ELSE P[g]
           ev == Evt(e.op, e.oid, e.np, e.nid)
       IN [P EXCEPT ![g] = {k + 1 : k \in {j \in cand : j + 1 <= Len(log[g]) /\ log[g][j + 1] = ev}}]
(* known finding X05-agg-rotation-gap: positions may jump in both directions; what is left: every change handed
   out is a change of that origin, with the right signatures *)
StepGotAny(P, e, f, kind) ==
  IF e.o = 0 THEN P
  ELSE IF e.o \notin Filers THEN Nothing
  ELSE IF e.sg # ExpSg(e.o, f, kind) THEN Nothing
  ELSE LET g == e.o
           ev == Evt(e.op, e.oid, e.np, e.nid)
       IN IF P[g] = {} THEN P ELSE [P EXCEPT ![g] = {k \in 1..Len(log[g]) : log[g][k] = ev}]
RECURSIVE FoldGotAny(_, _, _, _, _)
FoldGotAny(P, evs, i, f, kind) ==
  IF i > Len(evs) THEN P ELSE FoldGotAny(StepGotAny(P, evs[i], f, kind), evs, i + 1, f, kind)
Genuine(P) == \A g \in Filers : P[g] # {}
(* known finding X05-segment-skip-loss at a subscriber: positions may jump FORWARD (changes never handed out) *)
MinOf(S) == CHOOSE x \in S : \A y \in S : x <= y
StepGotGap(P, e, f, kind) ==
  IF e.o = 0 THEN P
  ELSE IF e.o \notin Filers THEN Nothing
  ELSE IF (kind = "loc" /\ e.o # f) \/ e.sg # ExpSg(e.o, f, kind) THEN Nothing
  ELSE LET g == e.o
           ev == Evt(e.op, e.oid, e.np, e.nid)
       IN IF P[g] = {} THEN P
          ELSE [P EXCEPT ![g] = {k + 1 : k \in {j \in MinOf(P[g])..(Len(log[g]) - 1) : log[g][j + 1] = ev}}]
RECURSIVE FoldGotGap(_, _, _, _, _)
FoldGotGap(P, evs, i, f, kind) ==
  IF i > Len(evs) THEN P ELSE FoldGotGap(StepGotGap(P, evs[i], f, kind), evs, i + 1, f, kind)
RECURSIVE FoldGot(_, _, _, _, _, _)
FoldGot(P, evs, i, f, kind, lenient) ==
  IF i > Len(evs) THEN P ELSE FoldGot(StepGot(P, evs[i], f, kind, lenient), evs, i + 1, f, kind, lenient)
Scope(f, kind) == IF kind = "loc" THEN {f} ELSE Filers
(* after the log went quiet the subscriber has everything of every origin in its scope *)
Complete(P, f, kind) == \A g \in Scope(f, kind) : Len(log[g]) \in P[g]

(* ---- design level: causally ordered histories converge -------------------- *)
ConcurrentConflict ==
  \E f \in Filers, g \in Filers :
     /\ f # g
     /\ \E i \in 1..Len(log[f]), j \in 1..Len(log[g]) :
          /\ Touches(log[f][i]) \cap Touches(log[g][j]) # {}
          /\ ~(j <= dep[f][i][g]) /\ ~(i <= dep[g][j][f])
AllEqual == \A f \in Filers, g \in Filers : store[f] = store[g]
CausalConverge == (Quiescent /\ ~ConcurrentConflict) => AllEqual
(* the same per name (every change touches exactly one name), as the judge uses it *)
Names == UNION {UNION {Touches(log[g][i]) : i \in DOMAIN log[g]} : g \in Filers}
ConcOn(p) ==
  \E f \in Filers, g \in Filers :
     /\ f # g
     /\ \E i \in 1..Len(log[f]), j \in 1..Len(log[g]) :
          /\ p \in Touches(log[f][i]) /\ p \in Touches(log[g][j])
          /\ ~(j <= dep[f][i][g]) /\ ~(i <= dep[g][j][f])
AgreeOn(p) == \A f \in Filers, g \in Filers : Get(store[f], p) = Get(store[g], p)
(* statement (b): at quiescence all stores hold the same namespace, except for names written concurrently *)
QuietOK == \A p \in Names : ConcOn(p) \/ AgreeOn(p)
(* known finding X05-no-causal-delivery: changes to p of two origins g -> h (h made its change knowing g's)
   reach a third filer over two independent streams, possibly in the other order *)
CrossLink(p) == \E g \in Filers, h \in Filers :
                  /\ g # h /\ Filers \ {g, h} # {}
                  /\ \E j \in 1..Len(log[g]), i \in 1..Len(log[h]) :
                       p \in Touches(log[g][j]) /\ p \in Touches(log[h][i]) /\ j <= dep[h][i][g]
QuietCrossed == \A p \in Names : ConcOn(p) \/ AgreeOn(p) \/ CrossLink(p)
(* whatever the interleaving, a store never holds anything but the last write of SOME origin to that name *)
LastOf(g, p) == LET is == {i \in 1..Len(log[g]) : p \in Touches(log[g][i])}
                IN IF is = {} THEN {} ELSE LET e == log[g][Max(is)] IN {IF e.np = p THEN e.nid ELSE ""}
SomeLastWriter == Quiescent => \A f \in Filers : \A p \in GPaths :
                     (\E g \in Filers : LastOf(g, p) # {}) => Get(store[f], p) \in UNION {LastOf(g, p) : g \in Filers}
VcOwn == \A f \in Filers : vc[f][f] = Len(log[f]) /\ \A g \in Filers \ {f} : vc[f][g] >= applied[f][g]

(* ---- generator / model-checking view ------------------------------------- *)
Log(op) == hist' = Append(hist, op)
NextId == GIds[Len(hist) + 1]
GenOp ==
  /\ Len(hist) < MaxOps
  /\ \/ \E f \in Filers, p \in GPaths :
          /\ APut(f, p, NextId) /\ Log([ev |-> "put", f |-> f, p |-> p, id |-> NextId])
          /\ UNCHANGED <<applied, half, pos, restarted, rotl>>
     \/ \E f \in Filers, p \in GPaths, res \in {"ok", "nf"} :
          /\ AUpd(f, p, NextId, res) /\ Log([ev |-> "upd", f |-> f, p |-> p, id |-> NextId])
          /\ UNCHANGED <<applied, half, pos, restarted, rotl>>
     \/ \E f \in Filers, p \in GPaths :
          /\ ADel(f, p, "ok") /\ Log([ev |-> "del", f |-> f, p |-> p])
          /\ UNCHANGED <<applied, half, pos, restarted, rotl>>
     \/ \E f \in Filers, p \in GPaths, q \in GPaths, res \in {"ok", "err"} :
          /\ p # q /\ AMv(f, p, q, res) /\ Log([ev |-> "mv", f |-> f, p |-> p, q |-> q])
          /\ UNCHANGED <<applied, half, pos, restarted, rotl>>
     \/ \E f \in Filers :
          /\ GenRestart /\ f \notin restarted /\ ARestart(f) /\ Log([ev |-> "restart", f |-> f])
          /\ NoPush /\ UNCHANGED <<store, applied, pos, rotl>>
GenApply == \E f \in Filers, g \in Filers : AApply(f, g) /\ UNCHANGED <<pos, restarted, rotl, hist>>
Next == GenOp \/ GenApply
Spec == Init /\ [][Next]_vars

Emit == Len(hist) < MaxOps \/ PrintT(<<"W", ToJson(hist)>>)
View == <<store, [f \in Filers |-> [g \in Filers |-> Len(log[g]) - applied[f][g]]], restarted,
          IF hist = <<>> THEN <<>> ELSE hist[Len(hist)]>>
EmitW == hist = <<>> \/ PrintT(<<"W", ToJson(hist)>>)
=============================================================================
