SPECIFICATION Spec
INVARIANT TreeWellFormed
INVARIANT LinkCounterIsNames
INVARIANT RecordIffNames
INVARIANT NamesShowSame
PROPERTY WriteReachesAllNames
PROPERTY RenameMovesSubtree
CHECK_DEADLOCK FALSE
