--------------------------- MODULE DirtyPagesImpl ---------------------------
(* C30 layer B - the mount's write path as it is built (weed/filesys):

   tf       the bytes handed to AddPage since the buffer was created, in order (the temp
            file of TempFileDirtyPages; for the in-memory buffer the write buffers, which
            the nodes' Data slices point into).
   lists    the interval structure (dirty_page_interval.go ContinuousIntervals and
            dirty_pages_temp_interval.go WrittenContinuousIntervals have the same shape): a
            sequence of lists, each a sequence of nodes [off, size, toff] = file range
            [off, off+size) whose bytes are tf[toff .. toff+size).
   AddInterval  as written: the append-to-the-single-list short cut; otherwise every list
            is kept (left / right of the new interval), cut (subList of its left part, of
            its right part) or dropped (covered); the interval is appended to the list
            ending at its offset and / or prepended to the list starting at its end, the two
            are linked into one and the second removed.  Variant "tmp" merges a node into
            the tail node when it is adjacent in the temp file as well.
   AddPage  "tmp": append to tf, AddInterval.  "mem": a page larger than the chunk limit
            first flushes every list and is uploaded itself; after AddInterval, when the
            buffered total reaches the limit, the largest list is uploaded
            (RemoveLargestIntervalLinkedList: the last of the largest).
   FlushData "tmp": every list is cut at multiples of the chunk limit and uploaded;
            "mem": the largest list again and again.  Every upload gets the next
            modification time.  doFlush then drops the chunks that are completely covered
            by newer ones (CompactFileChunks) and saves the entry.
   Setattr(size)  chunks reaching beyond the new size are shortened or dropped, the size
            attribute is set; the dirty-page buffer is NOT touched.
   Read     the chunk overlay below the file size (holes and the tail up to the size
            attribute as zeros) overlaid with the buffered bytes; the length is the
            larger of what the chunks gave and the end of the last buffered byte.

   Uploads are synchronous here (the real ones complete before FlushData returns; the
   in-memory buffer's uploads out of AddPage are asynchronous in the code - executions of
   that variant therefore read only right after a flush).
   Ghost: the layer-A state of PosixFile.tla.  The invariants say that layer B refines it. *)
EXTENDS PosixFile
CONSTANTS Offs, Lens,       \* generator: write offsets and lengths
          TruncSizes,       \* generator: truncation sizes
          Limit,            \* chunk size limit
          Variants,         \* subset of {"tmp", "mem"}: the buffers a behaviour may start with
          N,                \* reads are checked over windows inside 0..N
          BKF               \* deviation ids the model may take
VARIABLES variant,          \* "tmp" | "mem", chosen at the start (first element of hist)
          lists, tf, chunks, clock, fattr, clean, devs
ivars == <<variant, lists, tf, chunks, clock, fattr, clean, devs>>
vars == <<data, dirty, asize, hist, variant, lists, tf, chunks, clock, fattr, clean, devs>>

MinOf(S) == CHOOSE x \in S : \A y \in S : x <= y
RemoveAt(s, k) == SubSeq(s, 1, k - 1) \o SubSeq(s, k + 1, Len(s))
RECURSIVE Cat(_)
Cat(ss) == IF ss = <<>> THEN <<>> ELSE Head(ss) \o Cat(Tail(ss))

(* ---------------- interval lists ---------------- *)
NEnd(t) == t.off + t.size
LOff(l) == l[1].off
LEnd(l) == NEnd(l[Len(l)])
LSize(l) == LEnd(l) - LOff(l)
Clip(t, start, stop) ==
  LET a == Max2(start, t.off)
      b == Min2(stop, NEnd(t))
  IN [off |-> a, size |-> b - a, toff |-> t.toff + a - t.off]
SubList(l, start, stop) == SelectSeq([k \in 1..Len(l) |-> Clip(l[k], start, stop)], LAMBDA t : t.size > 0)
AddToTail(l, t) ==
  IF variant = "tmp" /\ l[Len(l)].toff + l[Len(l)].size = t.toff
  THEN [l EXCEPT ![Len(l)] = [@ EXCEPT !.size = @ + t.size]]
  ELSE Append(l, t)
Parts(l, iv) ==
     (IF LEnd(l) <= iv.off THEN <<l>> ELSE <<>>)
  \o (IF NEnd(iv) <= LOff(l) THEN <<l>> ELSE <<>>)
  \o (IF LOff(l) < iv.off /\ iv.off < LEnd(l) THEN <<SubList(l, LOff(l), iv.off)>> ELSE <<>>)
  \o (IF LOff(l) < NEnd(iv) /\ NEnd(iv) < LEnd(l) THEN <<SubList(l, NEnd(iv), LEnd(l))>> ELSE <<>>)
RECURSIVE NewLists(_, _)
NewLists(ls, iv) == IF ls = <<>> THEN <<>> ELSE Parts(Head(ls), iv) \o NewLists(Tail(ls), iv)
FirstWith(ls, P(_)) == LET H == {k \in 1..Len(ls) : P(ls[k])} IN IF H = {} THEN 0 ELSE MinOf(H)
LastWith(ls, P(_)) == LET H == {k \in 1..Len(ls) : P(ls[k])} IN IF H = {} THEN 0 ELSE MaxOf(H)
AddInterval(ls, iv) ==
  IF Len(ls) = 1 /\ LEnd(ls[1]) = iv.off THEN <<AddToTail(ls[1], iv)>>
  ELSE LET nl == NewLists(ls, iv)
           nx == FirstWith(nl, LAMBDA l : LOff(l) = NEnd(iv))
           pv == FirstWith(nl, LAMBDA l : LOff(l) + LSize(l) = iv.off)
       IN IF pv # 0 /\ nx # 0
          THEN LET linked == [nl EXCEPT ![pv] = AddToTail(nl[pv], iv) \o nl[nx]]
                   rm == LastWith(linked, LAMBDA l : LOff(l) = LOff(nl[nx]))       \* removeList: the last list with that offset
               IN RemoveAt(linked, rm)
          ELSE IF pv # 0 THEN [nl EXCEPT ![pv] = AddToTail(nl[pv], iv)]
          ELSE IF nx # 0 THEN [nl EXCEPT ![nx] = <<iv>> \o nl[nx]]
          ELSE Append(nl, <<iv>>)
TotalSize(ls) == LET F[k \in 0..Len(ls)] == IF k = 0 THEN 0 ELSE F[k - 1] + LSize(ls[k]) IN F[Len(ls)]

(* bytes of a list out of the byte source src (tf, or tf with the page being added) *)
ListBytesOf(l, src) == Cat([k \in 1..Len(l) |-> SubSeq(src, l[k].toff + 1, l[k].toff + l[k].size)])
ListBytes(l) == ListBytesOf(l, tf)
TakeN(bs, n) == SubSeq(bs, 1, Min2(n, Len(bs)))

(* ReadDataAt(buf[0..n), off): per list the window [max(off, list start), min(off+n, list end)),
   per node of the list the part inside that window; later copies overwrite earlier ones *)
WinOf(l, off, n) == <<Max2(off, LOff(l)), Min2(off + n, LEnd(l))>>
Hits(ls, off, n, i) ==
  {p \in UNION {{<<k, m>> : m \in 1..Len(ls[k])} : k \in 1..Len(ls)} :
     /\ LET w == WinOf(ls[p[1]], off, n)
            t == ls[p[1]][p[2]]
        IN w[1] < w[2] /\ Max2(w[1], t.off) <= i /\ i < Min2(w[2], NEnd(t))}
LastHit(H) == CHOOSE p \in H : \A q \in H : q[1] < p[1] \/ (q[1] = p[1] /\ q[2] <= p[2])
DirtyAt(ls, off, n, i) ==
  LET H == Hits(ls, off, n, i) IN
  IF H = {} THEN -1 ELSE LET t == ls[LastHit(H)[1]][LastHit(H)[2]] IN tf[t.toff + (i - t.off) + 1]
StopOf(ls, off, n) ==
  LET S == {WinOf(ls[k], off, n)[2] : k \in {k \in 1..Len(ls) : WinOf(ls[k], off, n)[1] < WinOf(ls[k], off, n)[2]}}
  IN IF S = {} THEN 0 ELSE MaxOf(S)
DirtyRead(ls, off, n) == [j \in 1..n |-> LET v == DirtyAt(ls, off, n, off + j - 1) IN IF v < 0 THEN Hole ELSE v]

(* ---------------- chunks ---------------- *)
Covers(c, i) == c.off <= i /\ i < c.off + c.size
ChunksEnd(cs) == IF cs = <<>> THEN 0 ELSE MaxOf({cs[k].off + cs[k].size : k \in 1..Len(cs)})
ChunkAt(cs, i) ==
  LET C == {k \in 1..Len(cs) : Covers(cs[k], i)} IN
  IF C = {} THEN 0
  ELSE LET k == CHOOSE k \in C : \A m \in C : cs[m].mtime <= cs[k].mtime IN cs[k].bytes[i - cs[k].off + 1]
InvisibleIdx(cs) ==
  {k \in 1..Len(cs) : \A i \in cs[k].off..(cs[k].off + cs[k].size - 1) :
                         \E m \in 1..Len(cs) : Covers(cs[m], i) /\ cs[m].mtime > cs[k].mtime}
Compacted(cs) == LET inv == InvisibleIdx(cs) IN
  LET F[k \in 0..Len(cs)] == IF k = 0 THEN <<>> ELSE IF k \in inv THEN F[k - 1] ELSE Append(F[k - 1], cs[k]) IN F[Len(cs)]
Chunk(off, bs, t) == [off |-> off, size |-> Len(bs), mtime |-> t, bytes |-> bs]

(* saveExistingLargestPageToStorage on st = [ls, ch, ck] with the entry's size attribute fsz *)
SaveLargest(st, fsz, src) ==
  IF st.ls = <<>> THEN [st |-> st, saved |-> FALSE]
  ELSE LET mx == MaxOf({LSize(st.ls[k]) : k \in 1..Len(st.ls)})
           idx == MaxOf({k \in 1..Len(st.ls) : LSize(st.ls[k]) = mx})
           l == st.ls[idx]
           rest == RemoveAt(st.ls, idx)
           csz == Min2(LSize(l), fsz - LOff(l))
           up == TakeN(ListBytesOf(l, src), csz)
       IN IF mx <= 0 THEN [st |-> st, saved |-> FALSE]
          ELSE IF csz = 0 THEN [st |-> [st EXCEPT !.ls = rest], saved |-> FALSE]
          ELSE [st |-> [ls |-> rest, ch |-> Append(st.ch, Chunk(LOff(l), up, st.ck)), ck |-> st.ck + 1], saved |-> TRUE]
RECURSIVE SaveAll(_, _, _)
SaveAll(st, fsz, src) == LET r == SaveLargest(st, fsz, src) IN IF r.saved THEN SaveAll(r.st, fsz, src) ELSE r.st

(* TempFileDirtyPages.saveExistingPagesToStorage: every list cut at multiples of Limit *)
RECURSIVE ListWindows(_, _, _)
ListWindows(l, j, ck) ==
  IF j * Limit >= LEnd(l) THEN <<>>
  ELSE LET a == Max2(LOff(l), j * Limit)
           b == Min2(LEnd(l), (j + 1) * Limit)
       IN IF a >= b THEN ListWindows(l, j + 1, ck)
          ELSE <<Chunk(a, ListBytes(SubList(l, a, b)), ck)>> \o ListWindows(l, j + 1, ck + 1)
RECURSIVE TmpUploads(_, _)
TmpUploads(ls, ck) ==
  IF ls = <<>> THEN <<>>
  ELSE LET w == ListWindows(Head(ls), 0, ck) IN w \o TmpUploads(Tail(ls), ck + Len(w))

St == [ls |-> lists, ch |-> chunks, ck |-> clock]
FlushedSt == IF variant = "tmp"
             THEN LET up == TmpUploads(lists, clock) IN [ls |-> <<>>, ch |-> chunks \o up, ck |-> clock + Len(up)]
             ELSE SaveAll(St, fattr, tf)

(* ---------------- the operations ---------------- *)
IInit == /\ data = <<>> /\ dirty = {} /\ asize = 0
         /\ variant \in Variants /\ hist = <<[ev |-> "open", buf |-> variant]>>
         /\ lists = <<>> /\ tf = <<>> /\ chunks = <<>> /\ clock = 1 /\ fattr = 0 /\ clean = TRUE /\ devs = {}

NewRanges(old, new) == UNION {new[k].off..(new[k].off + new[k].size - 1) : k \in (Len(old) + 1)..Len(new)}

IWrite(off, bs) ==
  LET iv == [off |-> off, size |-> Len(bs), toff |-> Len(tf)]
      fsz == Max2(fattr, off + Len(bs))
      s1 == IF variant = "mem" /\ Len(bs) > Limit
            THEN LET s == SaveAll(St, fsz, tf) IN [s EXCEPT !.ch = Append(@, Chunk(off, bs, s.ck)), !.ck = @ + 1]
            ELSE St
      s2 == [s1 EXCEPT !.ls = AddInterval(@, iv)]
  IN /\ tf' = tf \o bs
     /\ fattr' = fsz
     /\ LET tfn == tf \o bs
            s3 == IF variant = "mem" /\ TotalSize(s2.ls) >= Limit THEN SaveLargest(s2, fsz, tfn).st ELSE s2
        IN /\ lists' = s3.ls /\ chunks' = s3.ch /\ clock' = s3.ck
           /\ data' = WriteOf(data, off, bs)
           /\ asize' = Max2(asize, off + Len(bs))
           /\ dirty' = (dirty \cup (off..(off + Len(bs) - 1))) \ NewRanges(chunks, s3.ch)
     /\ clean' = FALSE /\ UNCHANGED <<devs, variant>>

ShortenedChunks(cs, n) ==
  LET F[k \in 0..Len(cs)] ==
        IF k = 0 THEN <<>>
        ELSE IF cs[k].off + cs[k].size > n
             THEN (IF n - cs[k].off > 0 THEN Append(F[k - 1], [cs[k] EXCEPT !.size = n - cs[k].off]) ELSE F[k - 1])
             ELSE Append(F[k - 1], cs[k])
  IN F[Len(cs)]
ITruncate(n) ==
  /\ chunks' = IF n < Max2(ChunksEnd(chunks), fattr) THEN ShortenedChunks(chunks, n) ELSE chunks
  /\ fattr' = n
  /\ IF KeepsDirtyApplies(n)
     THEN TruncateKeepsDirty(n) /\ devs' = devs \cup {"C30-truncate-keeps-dirty-pages"}
     ELSE Truncate(n) /\ UNCHANGED devs
  /\ UNCHANGED <<lists, tf, clock, clean, variant>>

IFlush ==
  LET s == FlushedSt IN
  /\ lists' = <<>> /\ tf' = <<>> /\ clock' = s.ck
  /\ chunks' = Compacted(s.ch)
  /\ Flush /\ clean' = TRUE /\ UNCHANGED <<fattr, devs, variant>>
IReopen ==
  LET s == FlushedSt IN
  /\ lists' = <<>> /\ tf' = <<>> /\ clock' = s.ck
  /\ chunks' = Compacted(s.ch)
  /\ fattr' = Max2(ChunksEnd(Compacted(s.ch)), fattr)
  /\ Reopen /\ clean' = TRUE /\ UNCHANGED <<devs, variant>>

(* FileHandle.Read: the chunk overlay below the file size (zeros for holes and up to the size attribute),
   overlaid with the buffered bytes; as long as the larger of the two parts.  ImplBytes is the byte the
   read buffer ends up with at an absolute offset (it does not depend on the window: ReadData copies the
   intersection of every node with the window). *)
ImplBytes ==
  [i \in 0..(N + 5) |-> LET v == DirtyAt(lists, 0, N + 6, i) IN IF v >= 0 THEN v ELSE ChunkAt(chunks, i)]
IReadLen(off, n) ==
  LET fsz == Max2(ChunksEnd(chunks), fattr)
      cr == IF fsz = 0 \/ off >= fsz THEN 0 ELSE Min2(n, fsz - off)
  IN Min2(n, Max2(StopOf(lists, off, n) - off, cr))
IReadWith(B, off, n) == [j \in 1..IReadLen(off, n) |-> B[off + j - 1]]
IRead(off, n) == IReadWith(ImplBytes, off, n)

(* ---------------- generator ---------------- *)
Log(op) == hist' = Append(hist, op)
NWrites == Len(SelectSeq(hist, LAMBDA h : h.ev = "write"))
Payload(len) == [j \in 1..len |-> 16 * (NWrites + 1) + j]
INext ==
  /\ Len(hist) <= MaxOps          \* hist[1] is the open
  /\ \/ \E o \in Offs, len \in Lens :
          IWrite(o, Payload(len)) /\ Log([ev |-> "write", off |-> o, data |-> Payload(len)])
     \/ \E n \in TruncSizes :
          /\ variant = "mem" => clean       \* see the head comment: asynchronous uploads
          /\ ITruncate(n) /\ Log([ev |-> "trunc", size |-> n])
     \/ ~clean /\ IFlush /\ Log([ev |-> "flush"])
     \/ ~clean /\ IReopen /\ Log([ev |-> "reopen"])
Spec == IInit /\ [][INext]_vars

(* ---------------- refinement ---------------- *)
NoUnlistedDeviation == devs \subseteq BKF
AttrRefines == fattr = asize /\ (devs = {} => asize = Len(data))
(* the buffer holds exactly the offsets written and not yet uploaded, with the latest bytes *)
DirtyFaithful == DirtyReadOk(0, N, DirtyRead(lists, 0, N), StopOf(lists, 0, N))
ListsFaithful == ListsOk([k \in 1..Len(lists) |-> [off |-> LOff(lists[k]), size |-> LSize(lists[k]), bytes |-> ListBytes(lists[k])]])
(* structure: nodes of a list are contiguous and non-empty *)
ListsShape == \A k \in 1..Len(lists) : /\ Len(lists[k]) >= 1
                                       /\ \A m \in 1..Len(lists[k]) : lists[k][m].size > 0
                                       /\ \A m \in 1..(Len(lists[k]) - 1) : NEnd(lists[k][m]) = lists[k][m + 1].off
ReadWindows == {w \in (0..N) \X {1, 3, N} : w[2] # 3 \/ w[1] % 2 = 0}
ReadRefines ==
  LET B == ImplBytes IN
  \A w \in ReadWindows : LET r == IReadWith(B, w[1], w[2]) IN
     \/ r = ReadOf(data, w[1], w[2])
     \/ (devs # {} /\ ShortReadOk(w[1], w[2], r))
WithIds(cs) == [k \in 1..Len(cs) |-> [id |-> k, off |-> cs[k].off, size |-> cs[k].size, mtime |-> cs[k].mtime, bytes |-> cs[k].bytes]]
FlushRefines == (clean /\ Len(hist) > 1) => StoredOk(WithIds(chunks), fattr)

Shape == [k \in 1..Len(lists) |-> [m \in 1..Len(lists[k]) |-> <<lists[k][m].off, lists[k][m].size>>]]
CShape == [k \in 1..Len(chunks) |-> <<chunks[k].off, chunks[k].size>>]
View == <<variant, Shape, CShape, fattr, clean, Len(data), dirty, hist[Len(hist)].ev>>
Emit == Len(hist) <= MaxOps \/ PrintT(<<"W", ToJson(hist)>>)
EmitW == Len(hist) <= 1 \/ PrintT(<<"W", ToJson(hist)>>)
=============================================================================
