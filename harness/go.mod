module verifharness

go 1.16

require (
	github.com/chrislusf/raft v1.0.7
	github.com/chrislusf/seaweedfs v0.0.0
	github.com/golang/protobuf v1.4.3
	github.com/gorilla/mux v1.7.4
	github.com/seaweedfs/fuse v1.1.8
	github.com/syndtr/goleveldb v1.0.0
	go.etcd.io/etcd v3.3.15+incompatible
	google.golang.org/grpc v1.29.1
)

replace github.com/chrislusf/seaweedfs => /repo

replace go.etcd.io/etcd => go.etcd.io/etcd v0.5.0-alpha.5.0.20200425165423-262c93980547
