// Package plansnap builds a master_pb.TopologyInfo (what the master answers to
// VolumeList) from the snapshot carried by a {"ev":"reset"} line of a C15/C16
// script. It only constructs input for the real planners in weed/shell and
// reads their bookkeeping back; it has no opinion about plans.
//
// Snapshot fields of the reset line:
//
//	servers: [{"id":"s1","dc":"d1","rack":"r1","hdd":3,"ssd":-1}]   max volume count per disk type, -1 = no such disk
//	reps:    [{"vid":1,"srv":"s1","dt":"hdd","rp":[0,1,0],"ro":false,"col":"c1","size":5,"mod":7}]
//	shards:  [{"vid":9,"srv":"s1","bits":[0,1,2],"col":"c1"}]         ec shards (always on the hdd disk, as in the code)
//
// Counters are filled in the way the master does it (weed/topology/disk.go
// ToDiskInfo): VolumeCount = number of volumes of the disk, FreeVolumeCount =
// Max - VolumeCount, ActiveVolumeCount = number of writable volumes.
package plansnap

import (
	"sort"

	"github.com/chrislusf/seaweedfs/weed/pb/master_pb"

	"verifharness/tr"
)

const MB = 1024 * 1024

// DiskKey maps the script's disk type name to the key / DiskType string used by
// the master ("" for hard drives).
func DiskKey(dt string) string {
	if dt == "hdd" {
		return ""
	}
	return dt
}

// DiskName is the inverse of DiskKey.
func DiskName(key string) string {
	if key == "" {
		return "hdd"
	}
	return key
}

func Build(reset tr.Ev) *master_pb.TopologyInfo {
	topo := &master_pb.TopologyInfo{Id: "topo"}
	dcs := map[string]*master_pb.DataCenterInfo{}
	racks := map[string]*master_pb.RackInfo{}
	nodes := map[string]*master_pb.DataNodeInfo{}
	for _, sv := range tr.List(reset["servers"]) {
		s := sv.(map[string]interface{})
		dcId, rackId, id := tr.S(s, "dc"), tr.S(s, "rack"), tr.S(s, "id")
		dc := dcs[dcId]
		if dc == nil {
			dc = &master_pb.DataCenterInfo{Id: dcId}
			dcs[dcId] = dc
			topo.DataCenterInfos = append(topo.DataCenterInfos, dc)
		}
		rack := racks[dcId+"/"+rackId]
		if rack == nil {
			rack = &master_pb.RackInfo{Id: rackId}
			racks[dcId+"/"+rackId] = rack
			dc.RackInfos = append(dc.RackInfos, rack)
		}
		dn := &master_pb.DataNodeInfo{Id: id, DiskInfos: map[string]*master_pb.DiskInfo{}}
		for _, dt := range []string{"hdd", "ssd"} {
			if m := tr.I(s, dt); m >= 0 {
				dn.DiskInfos[DiskKey(dt)] = &master_pb.DiskInfo{Type: DiskKey(dt), MaxVolumeCount: uint64(m)}
			}
		}
		rack.DataNodeInfos = append(rack.DataNodeInfos, dn)
		nodes[id] = dn
	}
	for _, rv := range tr.List(reset["reps"]) {
		r := rv.(map[string]interface{})
		dn := nodes[tr.S(r, "srv")]
		if dn == nil {
			tr.Fatal("replica on unknown server %v", r["srv"])
		}
		key := DiskKey(tr.S(r, "dt"))
		di := dn.DiskInfos[key]
		if di == nil {
			tr.Fatal("replica on a disk type the server does not have: %v", r)
		}
		rp := tr.Ints(r["rp"])
		if len(rp) != 3 {
			tr.Fatal("rp must be [x,y,z]: %v", r)
		}
		di.VolumeInfos = append(di.VolumeInfos, &master_pb.VolumeInformationMessage{
			Id:               uint32(tr.I(r, "vid")),
			Size:             uint64(tr.I(r, "size")) * MB,
			Collection:       tr.S(r, "col"),
			FileCount:        10,
			ReplicaPlacement: uint32(rp[0]*100 + rp[1]*10 + rp[2]),
			Version:          3,
			ReadOnly:         tr.B(r, "ro"),
			ModifiedAtSecond: int64(tr.I(r, "mod")),
			CompactRevision:  uint32(tr.I(r, "rev")),
			DiskType:         key,
		})
	}
	for _, ev := range tr.List(reset["shards"]) {
		e := ev.(map[string]interface{})
		dn := nodes[tr.S(e, "srv")]
		if dn == nil {
			tr.Fatal("ec shards on unknown server %v", e["srv"])
		}
		di := dn.DiskInfos[""]
		if di == nil {
			tr.Fatal("ec shards on a server without hdd disk: %v", e)
		}
		var bits uint32
		for _, b := range tr.Ints(e["bits"]) {
			bits |= 1 << uint(b)
		}
		di.EcShardInfos = append(di.EcShardInfos, &master_pb.VolumeEcShardInformationMessage{
			Id: uint32(tr.I(e, "vid")), Collection: tr.S(e, "col"), EcIndexBits: bits, DiskType: "",
		})
	}
	for _, dn := range nodes {
		for _, di := range dn.DiskInfos {
			di.VolumeCount = uint64(len(di.VolumeInfos))
			var active uint64
			for _, v := range di.VolumeInfos {
				if !v.ReadOnly {
					active++
				}
			}
			di.ActiveVolumeCount = active
			if di.MaxVolumeCount >= di.VolumeCount {
				di.FreeVolumeCount = di.MaxVolumeCount - di.VolumeCount
			}
		}
	}
	return topo
}

// EcBits reads the ec shard bookkeeping back from the topology (the planners'
// EcNode.info point into it): one entry per (server, volume) with at least one shard.
func EcBits(topo *master_pb.TopologyInfo) []tr.Ev {
	res := []tr.Ev{}
	for _, dc := range topo.DataCenterInfos {
		for _, rack := range dc.RackInfos {
			for _, dn := range rack.DataNodeInfos {
				keys := []string{}
				for k := range dn.DiskInfos {
					keys = append(keys, k)
				}
				sort.Strings(keys)
				for _, k := range keys {
					for _, s := range dn.DiskInfos[k].EcShardInfos {
						bits := []int{}
						for b := 0; b < 32; b++ {
							if s.EcIndexBits&(1<<uint(b)) != 0 {
								bits = append(bits, b)
							}
						}
						if len(bits) > 0 {
							res = append(res, tr.Ev{"srv": dn.Id, "vid": int(s.Id), "bits": bits})
						}
					}
				}
			}
		}
	}
	return res
}

// Collections lists the collection names of normal (ec=false) or ec (ec=true)
// volumes in the snapshot, sorted - what ListCollectionNames would answer.
func Collections(topo *master_pb.TopologyInfo, ec bool) []string {
	seen := map[string]bool{}
	for _, dc := range topo.DataCenterInfos {
		for _, rack := range dc.RackInfos {
			for _, dn := range rack.DataNodeInfos {
				for _, di := range dn.DiskInfos {
					if ec {
						for _, s := range di.EcShardInfos {
							seen[s.Collection] = true
						}
					} else {
						for _, v := range di.VolumeInfos {
							seen[v.Collection] = true
						}
					}
				}
			}
		}
	}
	res := []string{}
	for c := range seen {
		res = append(res, c)
	}
	sort.Strings(res)
	return res
}
