// Package s3util: helpers shared by the S3 drivers c26 and c29 - recording what
// reaches the filer, namespace snapshots, request construction and signing.
// Nothing in here decides a verdict: it builds inputs and records observations.
package s3util

import (
	"context"
	"net/http"
	"strings"
	"sync"
	"time"

	"google.golang.org/grpc"

	"github.com/chrislusf/seaweedfs/weed/pb/filer_pb"
	"github.com/chrislusf/seaweedfs/weed/util"
)

// Touch is one request that reached the filer while a recording window was open.
//
//	Via  "grpc" | "http"
//	M    gRPC method name (LookupDirectoryEntry, ...) or HTTP method
//	Raw  the path exactly as the request named it (directory + "/" + name, or URL path)
//	Eff  the entry path the filer's handler resolves it to. For gRPC this is computed by
//	     calling the SAME exported helper the handler calls on the request fields
//	     (weed/server/filer_grpc_server.go): util.JoinPath for LookupDirectoryEntry /
//	     DeleteEntry / the find step of UpdateEntry (it cleans ".."), util.NewFullPath
//	     for CreateEntry / UpdateEntry / AppendToEntry (literal), the directory itself
//	     for ListEntries. For HTTP it is the URL path the filer mux received.
//	St   HTTP status the filer answered (0 for gRPC). 301 = the filer's ServeMux
//	     redirected an unclean path before any handler ran: no entry was accessed.
type Touch struct {
	Via string
	M   string
	Raw string
	Eff string
	St  int
}

type Recorder struct {
	mu       sync.Mutex
	on       bool
	tag      string // BeginTag: the value of the ReqTag header of the one request of this window
	list     []Touch
	inflight int // filer HTTP handlers that started inside the window and have not finished
}

// ReqTag is a request header the gateway copies onto the filer HTTP requests it makes for a client
// request (proxyToFiler, putToFiler copy every header). A driver that puts a fresh value on every
// request and opens the window with BeginTag keeps a late filer handler of an EARLIER request (the
// gateway answers an aborted upload before the filer has even started its handler) out of this
// request's window. Filer requests without the header are recorded as before.
const ReqTag = "X-Verif-Req"

func (r *Recorder) BeginTag(tag string) {
	r.mu.Lock()
	r.on = true
	r.tag = tag
	r.list = nil
	r.mu.Unlock()
}

// mine: does a filer HTTP request carrying tag t belong to the open window (call with r.mu held)
func (r *Recorder) mine(t string) bool { return r.tag == "" || t == "" || t == r.tag }

// background / connection-level methods that are not caused by an S3 request
var ignored = map[string]bool{
	"SubscribeMetadata": true, "SubscribeLocalMetadata": true, "KeepConnected": true,
	"GetFilerConfiguration": true, "KvGet": true, "KvPut": true, "LookupVolume": true,
	"Statistics": true, "LocateBroker": true,
}

func (r *Recorder) add(t Touch) {
	r.mu.Lock()
	if r.on {
		r.list = append(r.list, t)
	}
	r.mu.Unlock()
}

func (r *Recorder) Begin() {
	r.mu.Lock()
	r.on = true
	r.tag = ""
	r.list = nil
	r.mu.Unlock()
}

// End closes the window. The gateway may answer its client before the filer handler it
// called has finished (it does not always read the filer's answer to the end), so End
// first waits for the filer HTTP handlers that started inside the window.
func (r *Recorder) End() []Touch {
	for i := 0; i < 3000; i++ {
		r.mu.Lock()
		n := r.inflight
		r.mu.Unlock()
		if n == 0 {
			break
		}
		time.Sleep(time.Millisecond)
	}
	r.mu.Lock()
	defer r.mu.Unlock()
	r.on = false
	l := r.list
	r.list = nil
	return l
}

func short(full string) string {
	if i := strings.LastIndex(full, "/"); i >= 0 {
		return full[i+1:]
	}
	return full
}

func (r *Recorder) recordMsg(method string, req interface{}) {
	m := short(method)
	if ignored[m] {
		return
	}
	switch q := req.(type) {
	case *filer_pb.LookupDirectoryEntryRequest:
		r.add(Touch{"grpc", m, q.Directory + "/" + q.Name, string(util.JoinPath(q.Directory, q.Name)), 0})
	case *filer_pb.ListEntriesRequest:
		r.add(Touch{"grpc", m, q.Directory, q.Directory, 0})
	case *filer_pb.CreateEntryRequest:
		n := ""
		if q.Entry != nil {
			n = q.Entry.Name
		}
		r.add(Touch{"grpc", m, q.Directory + "/" + n, string(util.NewFullPath(q.Directory, n)), 0})
	case *filer_pb.UpdateEntryRequest:
		n := ""
		if q.Entry != nil {
			n = q.Entry.Name
		}
		r.add(Touch{"grpc", m + ".find", q.Directory + "/" + n, util.Join(q.Directory, n), 0})
		r.add(Touch{"grpc", m, q.Directory + "/" + n, string(util.NewFullPath(q.Directory, n)), 0})
	case *filer_pb.AppendToEntryRequest:
		r.add(Touch{"grpc", m, q.Directory + "/" + q.EntryName, string(util.NewFullPath(q.Directory, q.EntryName)), 0})
	case *filer_pb.DeleteEntryRequest:
		r.add(Touch{"grpc", m, q.Directory + "/" + q.Name, string(util.JoinPath(q.Directory, q.Name)), 0})
	case *filer_pb.AtomicRenameEntryRequest:
		r.add(Touch{"grpc", m + ".old", q.OldDirectory + "/" + q.OldName, util.Join(q.OldDirectory, q.OldName), 0})
		r.add(Touch{"grpc", m + ".new", q.NewDirectory + "/" + q.NewName, util.Join(q.NewDirectory, q.NewName), 0})
	case *filer_pb.AssignVolumeRequest:
		r.add(Touch{"grpc", m, q.Path, q.Path, 0})
	case *filer_pb.DeleteCollectionRequest:
		r.add(Touch{"grpc", m, "", "", 0}) // no entry path: a collection name
	case *filer_pb.CollectionListRequest:
		r.add(Touch{"grpc", m, "", "", 0})
	default:
		r.add(Touch{"grpc", m, "", "", 0})
	}
}

func (r *Recorder) Unary() grpc.UnaryServerInterceptor {
	return func(ctx context.Context, req interface{}, info *grpc.UnaryServerInfo, h grpc.UnaryHandler) (interface{}, error) {
		r.recordMsg(info.FullMethod, req)
		return h(ctx, req)
	}
}

type recStream struct {
	grpc.ServerStream
	r      *Recorder
	method string
}

func (s *recStream) RecvMsg(m interface{}) error {
	err := s.ServerStream.RecvMsg(m)
	if err == nil {
		s.r.recordMsg(s.method, m)
	}
	return err
}

func (r *Recorder) Stream() grpc.StreamServerInterceptor {
	return func(srv interface{}, ss grpc.ServerStream, info *grpc.StreamServerInfo, h grpc.StreamHandler) error {
		return h(srv, &recStream{ss, r, info.FullMethod})
	}
}

type statusWriter struct {
	http.ResponseWriter
	st int
}

func (w *statusWriter) WriteHeader(c int) {
	if w.st == 0 {
		w.st = c
	}
	w.ResponseWriter.WriteHeader(c)
}
func (w *statusWriter) Write(b []byte) (int, error) {
	if w.st == 0 {
		w.st = 200
	}
	return w.ResponseWriter.Write(b)
}
func (w *statusWriter) Flush() {
	if f, ok := w.ResponseWriter.(http.Flusher); ok {
		f.Flush()
	}
}

func (r *Recorder) HTTPWrap(h http.Handler) http.Handler {
	return http.HandlerFunc(func(w http.ResponseWriter, q *http.Request) {
		sw := &statusWriter{ResponseWriter: w}
		p := q.URL.Path
		t := q.Header.Get(ReqTag)
		r.mu.Lock()
		counted := r.on && r.mine(t)
		if counted {
			r.inflight++
		}
		r.mu.Unlock()
		h.ServeHTTP(sw, q)
		if sw.st == 0 {
			sw.st = 200
		}
		r.mu.Lock()
		if counted {
			r.inflight--
			if r.on && r.mine(t) {
				r.list = append(r.list, Touch{"http", q.Method, p, p, sw.st})
			}
		}
		r.mu.Unlock()
	})
}
