package s3util

import (
	"bytes"
	"context"
	"crypto/sha1"
	"fmt"
	"io"
	"io/ioutil"
	"net/http"
	"sort"
	"strings"

	"github.com/chrislusf/seaweedfs/weed/pb/filer_pb"
)

// Snapshot: entry path -> signature (kind, size, mtime, chunk ids, extended attributes).
// The walk is literal (directory string + "/" + name, exactly what the filer store
// holds), starts at "/" and skips the subtrees listed in skip.
type Snapshot map[string]string

func entrySig(e *filer_pb.Entry) string {
	var b bytes.Buffer
	if e.IsDirectory {
		b.WriteString("d")
	} else {
		b.WriteString("f")
	}
	if e.Attributes != nil {
		fmt.Fprintf(&b, "|%d|%d|%d|%x", e.Attributes.FileSize, e.Attributes.Mtime, e.Attributes.Crtime, e.Attributes.Md5)
	}
	for _, c := range e.Chunks {
		fmt.Fprintf(&b, "|%s@%d+%d", c.GetFileIdString(), c.Offset, c.Size)
	}
	fmt.Fprintf(&b, "|c%x", sha1.Sum(e.Content))
	keys := make([]string, 0, len(e.Extended))
	for k := range e.Extended {
		keys = append(keys, k)
	}
	sort.Strings(keys)
	for _, k := range keys {
		fmt.Fprintf(&b, "|%s=%x", k, e.Extended[k])
	}
	return b.String()
}

func listDir(cl filer_pb.SeaweedFilerClient, dir string) ([]*filer_pb.Entry, error) {
	var res []*filer_pb.Entry
	st, err := cl.ListEntries(context.Background(), &filer_pb.ListEntriesRequest{Directory: dir, Limit: 100000})
	if err != nil {
		return nil, err
	}
	for {
		r, err := st.Recv()
		if err == io.EOF {
			return res, nil
		}
		if err != nil {
			return nil, err
		}
		res = append(res, r.Entry)
	}
}

func Snap(cl filer_pb.SeaweedFilerClient, skip ...string) (Snapshot, error) {
	s := Snapshot{}
	var walk func(dir string, depth int) error
	walk = func(dir string, depth int) error {
		if depth > 12 {
			return nil
		}
		es, err := listDir(cl, dir)
		if err != nil {
			return err
		}
		for _, e := range es {
			p := dir + "/" + e.Name
			if dir == "/" {
				p = "/" + e.Name
			}
			skipIt := false
			for _, k := range skip {
				if p == k {
					skipIt = true
				}
			}
			if skipIt {
				continue
			}
			s[p] = entrySig(e)
			if e.IsDirectory {
				if err := walk(p, depth+1); err != nil {
					return err
				}
			}
		}
		return nil
	}
	return s, walk("/", 0)
}

// Diff returns the sorted paths whose presence or signature differs.
func Diff(a, b Snapshot) []string {
	var d []string
	for p, s := range a {
		if t, ok := b[p]; !ok || t != s {
			d = append(d, p)
		}
	}
	for p := range b {
		if _, ok := a[p]; !ok {
			d = append(d, p)
		}
	}
	sort.Strings(d)
	return d
}

// Segs splits a path into its components ("/buckets/b1/x" -> [buckets b1 x]); the
// specification reasons about paths component-wise (TLC cannot index strings).
func Segs(p string) []string {
	p = strings.TrimPrefix(p, "/")
	if p == "" {
		return []string{}
	}
	return strings.Split(p, "/")
}

// ---- provisioning through the filer directly (never through the S3 gateway) ----

func RmRecursive(cl filer_pb.SeaweedFilerClient, dir, name string) error {
	_, err := cl.DeleteEntry(context.Background(), &filer_pb.DeleteEntryRequest{Directory: dir, Name: name,
		IsDeleteData: true, IsRecursive: true, IgnoreRecursiveError: true})
	return err
}

func PutFile(filerAddr, path string, body []byte) error {
	req, _ := http.NewRequest("PUT", "http://"+filerAddr+path, bytes.NewReader(body))
	resp, err := http.DefaultClient.Do(req)
	if err != nil {
		return err
	}
	defer resp.Body.Close()
	b, _ := ioutil.ReadAll(resp.Body)
	if resp.StatusCode >= 300 {
		return fmt.Errorf("filer PUT %s: %d %s", path, resp.StatusCode, b)
	}
	return nil
}

// SetExtended sets extended attributes on an existing entry.
func SetExtended(cl filer_pb.SeaweedFilerClient, dir, name string, ext map[string][]byte) error {
	r, err := cl.LookupDirectoryEntry(context.Background(), &filer_pb.LookupDirectoryEntryRequest{Directory: dir, Name: name})
	if err != nil {
		return err
	}
	if r.Entry.Extended == nil {
		r.Entry.Extended = map[string][]byte{}
	}
	for k, v := range ext {
		r.Entry.Extended[k] = v
	}
	_, err = cl.UpdateEntry(context.Background(), &filer_pb.UpdateEntryRequest{Directory: dir, Entry: r.Entry})
	return err
}

func Mkdir(cl filer_pb.SeaweedFilerClient, dir, name string, ext map[string][]byte) error {
	r, err := cl.CreateEntry(context.Background(), &filer_pb.CreateEntryRequest{Directory: dir, Entry: &filer_pb.Entry{
		Name: name, IsDirectory: true, Extended: ext,
		Attributes: &filer_pb.FuseAttributes{Mtime: 1600000000, Crtime: 1600000000, FileMode: uint32(0777 | 1<<31)}}})
	if err != nil {
		return err
	}
	if r.Error != "" {
		return fmt.Errorf("mkdir %s/%s: %s", dir, name, r.Error)
	}
	return nil
}
