package s3util

// Additions for C26 (streaming-signed uploads, V2 POST policies). Like sign.go this file
// only constructs inputs; whether the gateway accepts them is what the drivers observe.

import (
	"bytes"
	"encoding/base64"
	"encoding/hex"
	"fmt"
	"mime/multipart"
	"time"
)

// ChunkSig is the signature of one aws-chunked chunk, chained from prev (the seed signature
// for the first chunk, the previous chunk's signature afterwards).
func ChunkSig(prev, secret string, t time.Time, chunk []byte) string {
	sts := "AWS4-HMAC-SHA256-PAYLOAD\n" + t.Format(iso8601) + "\n" + scope(t) + "\n" + prev + "\n" + emptySHA + "\n" + sha(chunk)
	return hex.EncodeToString(hm(signingKey(secret, t), sts))
}

// PostFormV2 builds a browser-style POST upload whose policy is signed the V2 way
// (AWSAccessKeyId, policy, signature = base64(hmac-sha1(secret, policy))). tamper replaces
// the policy by a different, still well-formed one after signing.
func PostFormV2(bucket, key string, content []byte, ak, secret string, expiration time.Time, tamper bool) ([]byte, string) {
	var b bytes.Buffer
	w := multipart.NewWriter(&b)
	w.WriteField("key", key)
	mk := func(exp time.Time, extra string) string {
		pol := fmt.Sprintf(`{"expiration":"%s","conditions":[["eq","$bucket","%s"],["starts-with","$key",""]%s]}`,
			exp.UTC().Format("2006-01-02T15:04:05.000Z"), bucket, extra)
		return base64.StdEncoding.EncodeToString([]byte(pol))
	}
	pol := mk(expiration, "")
	sig := v2mac(secret, pol)
	if tamper {
		pol = mk(expiration.Add(24*time.Hour), `,["content-length-range",0,1048576]`)
	}
	w.WriteField("AWSAccessKeyId", ak)
	w.WriteField("policy", pol)
	w.WriteField("signature", sig)
	fw, _ := w.CreateFormFile("file", "upload.bin")
	fw.Write(content)
	w.Close()
	return b.Bytes(), w.FormDataContentType()
}
