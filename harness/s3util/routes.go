package s3util

import (
	"bytes"
	"fmt"
	"io"
	"io/ioutil"
	"net/http"
	"net/url"
	"strings"
)

// P: the concrete parameters of one S3 request. Key / Uid / Src / DKeys are used
// verbatim (Key is the raw path text after "/<bucket>/", already escaped the way the
// client wants it on the wire).
type P struct {
	Bucket string
	Key    string
	Uid    string
	Src    string
	DKeys  []string
	Body   []byte
	Prefix string // list routes: ?prefix=
	Delim  string // list routes: ?delimiter=
}

// R: a request under construction (before signing).
type R struct {
	Method  string
	RawPath string
	Query   url.Values
	Header  http.Header
	Body    []byte
}

var TagXML = `<Tagging xmlns="http://s3.amazonaws.com/doc/2006-03-01/"><TagSet><Tag><Key>k</Key><Value>v2</Value></Tag></TagSet></Tagging>`

// Routes in the order of weed/s3api/s3api_server.go registerRouter.
var Routes = []string{"HeadObject", "HeadBucket", "CopyObjectPart", "PutObjectPart", "CompleteMultipartUpload",
	"NewMultipartUpload", "AbortMultipartUpload", "ListObjectParts", "ListMultipartUploads", "GetObjectTagging",
	"PutObjectTagging", "DeleteObjectTagging", "CopyObject", "PutObject", "PutBucket", "DeleteObject", "DeleteBucket",
	"ListObjectsV2", "GetObject", "ListObjectsV1", "PostPolicy", "DeleteMultipleObjects", "ListBuckets"}

// Build returns the unsigned request for a route. PostPolicy is built by the caller
// (its body depends on the signing style); here it gets method and path only.
func Build(route string, p P) (*R, error) {
	r := &R{Query: url.Values{}, Header: http.Header{}}
	bp := "/" + p.Bucket
	op := bp + "/" + p.Key
	switch route {
	case "HeadObject":
		r.Method, r.RawPath = "HEAD", op
	case "HeadBucket":
		r.Method, r.RawPath = "HEAD", bp
	case "CopyObjectPart":
		r.Method, r.RawPath = "PUT", op
		r.Query.Set("partNumber", "2")
		r.Query.Set("uploadId", p.Uid)
		r.Header.Set("X-Amz-Copy-Source", p.Src)
	case "PutObjectPart":
		r.Method, r.RawPath, r.Body = "PUT", op, p.Body
		r.Query.Set("partNumber", "3")
		r.Query.Set("uploadId", p.Uid)
	case "CompleteMultipartUpload":
		r.Method, r.RawPath = "POST", op
		r.Query.Set("uploadId", p.Uid)
		r.Body = []byte(`<CompleteMultipartUpload><Part><PartNumber>1</PartNumber><ETag>x</ETag></Part></CompleteMultipartUpload>`)
	case "NewMultipartUpload":
		r.Method, r.RawPath = "POST", op
		r.Query.Set("uploads", "")
	case "AbortMultipartUpload":
		r.Method, r.RawPath = "DELETE", op
		r.Query.Set("uploadId", p.Uid)
	case "ListObjectParts":
		r.Method, r.RawPath = "GET", op
		r.Query.Set("uploadId", p.Uid)
	case "ListMultipartUploads":
		r.Method, r.RawPath = "GET", bp
		r.Query.Set("uploads", "")
	case "GetObjectTagging":
		r.Method, r.RawPath = "GET", op
		r.Query.Set("tagging", "")
	case "PutObjectTagging":
		r.Method, r.RawPath, r.Body = "PUT", op, []byte(TagXML)
		r.Query.Set("tagging", "")
	case "DeleteObjectTagging":
		r.Method, r.RawPath = "DELETE", op
		r.Query.Set("tagging", "")
	case "CopyObject":
		r.Method, r.RawPath = "PUT", op
		r.Header.Set("X-Amz-Copy-Source", p.Src)
	case "PutObject":
		r.Method, r.RawPath, r.Body = "PUT", op, p.Body
	case "PutBucket":
		r.Method, r.RawPath = "PUT", bp
	case "DeleteObject":
		r.Method, r.RawPath = "DELETE", op
	case "DeleteBucket":
		r.Method, r.RawPath = "DELETE", bp
	case "ListObjectsV2":
		r.Method, r.RawPath = "GET", bp
		r.Query.Set("list-type", "2")
		listArgs(r, p)
	case "GetObject":
		r.Method, r.RawPath = "GET", op
	case "ListObjectsV1":
		r.Method, r.RawPath = "GET", bp
		listArgs(r, p)
	case "PostPolicy":
		r.Method, r.RawPath = "POST", bp
	case "DeleteMultipleObjects":
		r.Method, r.RawPath = "POST", bp
		r.Query.Set("delete", "")
		var b strings.Builder
		b.WriteString("<Delete>")
		for _, k := range p.DKeys {
			b.WriteString("<Object><Key>" + xmlEsc(k) + "</Key></Object>")
		}
		b.WriteString("</Delete>")
		r.Body = []byte(b.String())
	case "ListBuckets":
		r.Method, r.RawPath = "GET", "/"
	default:
		return nil, fmt.Errorf("unknown route %q", route)
	}
	return r, nil
}

func listArgs(r *R, p P) {
	if p.Prefix != "" {
		r.Query.Set("prefix", p.Prefix)
	}
	if p.Delim != "" {
		r.Query.Set("delimiter", p.Delim)
	}
}

func xmlEsc(s string) string {
	s = strings.Replace(s, "&", "&amp;", -1)
	s = strings.Replace(s, "<", "&lt;", -1)
	return strings.Replace(s, ">", "&gt;", -1)
}

// HTTP materialises the request for addr. The raw path goes on the wire unchanged
// (Go's client neither cleans ".." nor merges "//").
func (r *R) HTTP(addr string) (*http.Request, error) {
	u := "http://" + addr + r.RawPath
	if len(r.Query) > 0 {
		u += "?" + r.Query.Encode()
	}
	var req *http.Request
	var err error
	if r.Body != nil {
		req, err = http.NewRequest(r.Method, u, bytes.NewReader(r.Body))
	} else {
		req, err = http.NewRequest(r.Method, u, nil)
	}
	if err != nil {
		return nil, err
	}
	for k, v := range r.Header {
		req.Header[k] = v
	}
	return req, nil
}

// SetBody replaces the body of an already materialised request.
func SetBody(req *http.Request, b []byte) {
	req.Body = ioutil.NopCloser(bytes.NewReader(b))
	req.ContentLength = int64(len(b))
	req.GetBody = func() (io.ReadCloser, error) { return ioutil.NopCloser(bytes.NewReader(b)), nil }
}
