package s3util

// A small AWS Signature V2 / V4 signer (header, presigned, streaming seed + chunk
// signatures, POST policy). It only constructs inputs; whether the gateway accepts
// them is what the drivers observe.

import (
	"bytes"
	"crypto/hmac"
	"crypto/sha1"
	"crypto/sha256"
	"encoding/base64"
	"encoding/hex"
	"fmt"
	"mime/multipart"
	"net/http"
	"net/url"
	"sort"
	"strconv"
	"strings"
	"time"
)

const (
	Region       = "us-east-1"
	StreamingSHA = "STREAMING-AWS4-HMAC-SHA256-PAYLOAD"
	emptySHA     = "e3b0c44298fc1c149afbf4c8996fb92427ae41e4649b934ca495991b7852b855"
	iso8601      = "20060102T150405Z"
	ymd          = "20060102"
)

func hm(key []byte, data string) []byte {
	h := hmac.New(sha256.New, key)
	h.Write([]byte(data))
	return h.Sum(nil)
}

func sha(b []byte) string {
	s := sha256.Sum256(b)
	return hex.EncodeToString(s[:])
}

func signingKey(secret string, t time.Time) []byte {
	k := hm([]byte("AWS4"+secret), t.Format(ymd))
	k = hm(k, Region)
	k = hm(k, "s3")
	return hm(k, "aws4_request")
}

func scope(t time.Time) string { return t.Format(ymd) + "/" + Region + "/s3/aws4_request" }

// uriEncode: RFC 3986 unreserved characters and "/" stay, everything else %XX (per byte)
func uriEncode(p string) string {
	var b strings.Builder
	for i := 0; i < len(p); i++ {
		c := p[i]
		if 'A' <= c && c <= 'Z' || 'a' <= c && c <= 'z' || '0' <= c && c <= '9' || c == '-' || c == '_' || c == '.' || c == '~' || c == '/' {
			b.WriteByte(c)
		} else {
			fmt.Fprintf(&b, "%%%02X", c)
		}
	}
	return b.String()
}

func canonQuery(q url.Values) string { return strings.Replace(q.Encode(), "+", "%20", -1) }

func canonHeaders(r *http.Request, names []string) string {
	var b strings.Builder
	for _, n := range names {
		v := ""
		if n == "host" {
			v = r.URL.Host
		} else {
			v = strings.Join(r.Header[http.CanonicalHeaderKey(n)], ",")
		}
		b.WriteString(n + ":" + strings.Join(strings.Fields(v), " ") + "\n")
	}
	return b.String()
}

func v4sig(r *http.Request, secret string, t time.Time, signed []string, query url.Values, payload string) string {
	creq := strings.Join([]string{r.Method, uriEncode(r.URL.Path), canonQuery(query), canonHeaders(r, signed),
		strings.Join(signed, ";"), payload}, "\n")
	sts := "AWS4-HMAC-SHA256\n" + t.Format(iso8601) + "\n" + scope(t) + "\n" + sha([]byte(creq))
	return hex.EncodeToString(hm(signingKey(secret, t), sts))
}

func signedNames(r *http.Request, extra ...string) []string {
	n := []string{"host"}
	for _, e := range extra {
		if _, ok := r.Header[http.CanonicalHeaderKey(e)]; ok {
			n = append(n, e)
		}
	}
	sort.Strings(n)
	return n
}

// SignV4Header adds X-Amz-Date, X-Amz-Content-Sha256 (hash of body unless preset) and Authorization.
func SignV4Header(r *http.Request, body []byte, ak, secret string, t time.Time) string {
	r.Header.Set("X-Amz-Date", t.Format(iso8601))
	if r.Header.Get("X-Amz-Content-Sha256") == "" {
		r.Header.Set("X-Amz-Content-Sha256", sha(body))
	}
	names := signedNames(r, "x-amz-content-sha256", "x-amz-date", "x-amz-meta-t", "x-amz-copy-source", "x-amz-decoded-content-length")
	sig := v4sig(r, secret, t, names, r.URL.Query(), r.Header.Get("X-Amz-Content-Sha256"))
	r.Header.Set("Authorization", fmt.Sprintf("AWS4-HMAC-SHA256 Credential=%s/%s, SignedHeaders=%s, Signature=%s",
		ak, scope(t), strings.Join(names, ";"), sig))
	return sig
}

// PresignV4 moves the signature into the query string (payload UNSIGNED-PAYLOAD).
func PresignV4(r *http.Request, ak, secret string, t time.Time, expires int) {
	q := r.URL.Query()
	names := signedNames(r, "x-amz-meta-t", "x-amz-copy-source")
	q.Set("X-Amz-Algorithm", "AWS4-HMAC-SHA256")
	q.Set("X-Amz-Credential", ak+"/"+scope(t))
	q.Set("X-Amz-Date", t.Format(iso8601))
	q.Set("X-Amz-Expires", strconv.Itoa(expires))
	q.Set("X-Amz-SignedHeaders", strings.Join(names, ";"))
	sig := v4sig(r, secret, t, names, q, "UNSIGNED-PAYLOAD")
	q.Set("X-Amz-Signature", sig)
	r.URL.RawQuery = q.Encode()
}

// StreamingBody encodes data as aws-chunked with chunk signatures chained from the seed.
func StreamingBody(data []byte, seed, secret string, t time.Time) []byte {
	var out bytes.Buffer
	prev := seed
	emit := func(chunk []byte) {
		sts := "AWS4-HMAC-SHA256-PAYLOAD\n" + t.Format(iso8601) + "\n" + scope(t) + "\n" + prev + "\n" + emptySHA + "\n" + sha(chunk)
		sig := hex.EncodeToString(hm(signingKey(secret, t), sts))
		fmt.Fprintf(&out, "%x;chunk-signature=%s\r\n", len(chunk), sig)
		out.Write(chunk)
		out.WriteString("\r\n")
		prev = sig
	}
	if len(data) > 0 {
		emit(data)
	}
	emit(nil)
	return out.Bytes()
}

// ---- V2 ----

// sub-resources that enter the V2 canonical resource. This is the gateway's list
// (weed/s3api/auth_signature_v2.go resourceList): "tagging" and "list-type" are not on it.
var v2Resources = []string{"acl", "delete", "lifecycle", "location", "logging", "notification", "partNumber", "policy",
	"requestPayment", "response-cache-control", "response-content-disposition", "response-content-encoding",
	"response-content-language", "response-content-type", "response-expires", "torrent", "uploadId", "uploads",
	"versionId", "versioning", "versions", "website"}

func v2sts(r *http.Request, rawPath string, q url.Values, date string) string {
	var amz []string
	for k := range r.Header {
		lk := strings.ToLower(k)
		if strings.HasPrefix(lk, "x-amz-") {
			amz = append(amz, lk+":"+strings.Join(r.Header[k], ","))
		}
	}
	sort.Strings(amz)
	ch := strings.Join(amz, "\n")
	if ch != "" {
		ch += "\n"
	}
	res := rawPath
	var subs []string
	for _, k := range v2Resources {
		if v, ok := q[k]; ok {
			if len(v) == 0 || v[0] == "" {
				subs = append(subs, k)
			} else {
				subs = append(subs, k+"="+v[0])
			}
		}
	}
	if len(subs) > 0 {
		res += "?" + strings.Join(subs, "&")
	}
	return strings.Join([]string{r.Method, r.Header.Get("Content-MD5"), r.Header.Get("Content-Type"), date, ch}, "\n") + res
}

func v2mac(secret, sts string) string {
	h := hmac.New(sha1.New, []byte(secret))
	h.Write([]byte(sts))
	return base64.StdEncoding.EncodeToString(h.Sum(nil))
}

func SignV2Header(r *http.Request, rawPath, ak, secret string, t time.Time) {
	r.Header.Set("Date", t.UTC().Format(http.TimeFormat))
	r.Header.Set("Authorization", "AWS "+ak+":"+v2mac(secret, v2sts(r, rawPath, r.URL.Query(), r.Header.Get("Date"))))
}

func PresignV2(r *http.Request, rawPath, ak, secret string, expires int64) {
	q := r.URL.Query()
	exp := strconv.FormatInt(expires, 10)
	sig := v2mac(secret, v2sts(r, rawPath, q, exp))
	q.Set("AWSAccessKeyId", ak)
	q.Set("Expires", exp)
	q.Set("Signature", sig)
	r.URL.RawQuery = q.Encode()
}

// ---- POST policy (V4) ----

// PostForm builds the multipart body of a browser-style POST upload. If sign is false
// the form carries only key and file (an unsigned form). tamper replaces the policy by
// a different (still well-formed) one after signing.
func PostForm(bucket, key string, content []byte, sign bool, ak, secret string, t time.Time, expiration time.Time, tamper bool) ([]byte, string) {
	var b bytes.Buffer
	w := multipart.NewWriter(&b)
	w.WriteField("key", key)
	if sign {
		mk := func(exp time.Time, extra string) string {
			pol := fmt.Sprintf(`{"expiration":"%s","conditions":[["eq","$bucket","%s"],["starts-with","$key",""]%s]}`,
				exp.UTC().Format("2006-01-02T15:04:05.000Z"), bucket, extra)
			return base64.StdEncoding.EncodeToString([]byte(pol))
		}
		pol := mk(expiration, "")
		sig := hex.EncodeToString(hm(signingKey(secret, t), pol))
		if tamper {
			pol = mk(expiration.Add(24*time.Hour), `,["content-length-range",0,1048576]`)
		}
		w.WriteField("policy", pol)
		w.WriteField("x-amz-algorithm", "AWS4-HMAC-SHA256")
		w.WriteField("x-amz-credential", ak+"/"+scope(t))
		w.WriteField("x-amz-date", t.Format(iso8601))
		w.WriteField("x-amz-signature", sig)
	}
	fw, _ := w.CreateFormFile("file", "upload.bin")
	fw.Write(content)
	w.Close()
	return b.Bytes(), w.FormDataContentType()
}
