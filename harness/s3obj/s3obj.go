// Package s3obj: helpers of the C28 driver - deterministic byte segments, parsing an observed body back into
// the sequence of known segments, and an aws-chunked (streaming-signed) body with several chunks.
// (The chunk signer is a copy of harness/s3util's with a configurable chunk size.)
package s3obj

import (
	"bytes"
	"crypto/hmac"
	"crypto/sha256"
	"encoding/hex"
	"fmt"
	"hash/fnv"
	"sort"
	"time"
)

const (
	Region   = "us-east-1"
	emptySHA = "e3b0c44298fc1c149afbf4c8996fb92427ae41e4649b934ca495991b7852b855"
	iso8601  = "20060102T150405Z"
	ymd      = "20060102"
)

// Gen returns the n bytes of segment id: a xorshift stream seeded by the id, or, for ids starting with "c",
// compressible text (numbered lines) - the upload path stores such data gzipped.
func Gen(id string, n int) []byte {
	if len(id) > 0 && id[0] == 'c' {
		var b bytes.Buffer
		for i := 0; b.Len() < n; i++ {
			fmt.Fprintf(&b, "segment %s line %09d abcdefghijklmnopqrstuvwxyz abcdefghijklmnopqrstuvwxyz\n", id, i)
		}
		return b.Bytes()[:n]
	}
	h := fnv.New64a()
	h.Write([]byte(id))
	x := h.Sum64() | 1
	out := make([]byte, n)
	for i := 0; i < n; i++ {
		x ^= x << 13
		x ^= x >> 7
		x ^= x << 17
		out[i] = byte(x >> 24)
	}
	return out
}

type Segs struct {
	ids  []string
	data map[string][]byte
}

func NewSegs(lens map[string]int) *Segs {
	s := &Segs{data: map[string][]byte{}}
	for id, n := range lens {
		s.ids = append(s.ids, id)
		s.data[id] = Gen(id, n)
	}
	// longest first: if one segment were a prefix of another the longer one is tried first
	sort.Slice(s.ids, func(i, j int) bool {
		a, b := s.ids[i], s.ids[j]
		if len(s.data[a]) != len(s.data[b]) {
			return len(s.data[a]) > len(s.data[b])
		}
		return a < b
	})
	return s
}

func (s *Segs) Bytes(id string) []byte { return s.data[id] }

// Parse explains body as a concatenation of whole known (non-empty) segments; what cannot be explained is
// reported as a final "?".
func (s *Segs) Parse(body []byte) []interface{} {
	out := make([]interface{}, 0)
	p := 0
	for p < len(body) {
		hit := ""
		for _, id := range s.ids {
			d := s.data[id]
			if len(d) > 0 && bytes.HasPrefix(body[p:], d) {
				hit = id
				break
			}
		}
		if hit == "" {
			out = append(out, "?")
			return out
		}
		out = append(out, hit)
		p += len(s.data[hit])
	}
	return out
}

func hm(key []byte, data string) []byte {
	h := hmac.New(sha256.New, key)
	h.Write([]byte(data))
	return h.Sum(nil)
}

func sha(b []byte) string {
	s := sha256.Sum256(b)
	return hex.EncodeToString(s[:])
}

func signingKey(secret string, t time.Time) []byte {
	k := hm([]byte("AWS4"+secret), t.Format(ymd))
	k = hm(k, Region)
	k = hm(k, "s3")
	return hm(k, "aws4_request")
}

func scope(t time.Time) string { return t.Format(ymd) + "/" + Region + "/s3/aws4_request" }

// StreamingBody encodes data as aws-chunked: chunks of chunkSize bytes (the last one shorter), each with its
// chunk signature chained from the seed signature, then the final empty chunk.
func StreamingBody(data []byte, chunkSize int, seed, secret string, t time.Time) []byte {
	var out bytes.Buffer
	prev := seed
	emit := func(chunk []byte) {
		sts := "AWS4-HMAC-SHA256-PAYLOAD\n" + t.Format(iso8601) + "\n" + scope(t) + "\n" + prev + "\n" + emptySHA + "\n" + sha(chunk)
		sig := hex.EncodeToString(hm(signingKey(secret, t), sts))
		fmt.Fprintf(&out, "%x;chunk-signature=%s\r\n", len(chunk), sig)
		out.Write(chunk)
		out.WriteString("\r\n")
		prev = sig
	}
	for p := 0; p < len(data); p += chunkSize {
		e := p + chunkSize
		if e > len(data) {
			e = len(data)
		}
		emit(data[p:e])
	}
	emit(nil)
	return out.Bytes()
}
